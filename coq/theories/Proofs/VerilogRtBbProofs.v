(* Proofs for C03: roundtrip_identical for lint-clean, constant-free circuits WITH blackbox instances (connected and unconnected
   pins) in the primitive style.  Shape of the writer's item list with the blackbox statements (write_inv_bb, bbst), the named
   connections the reader compiles from an emitted instance (bb_conns, c_conns_bb, c_item_bb), registry and new nodes of one
   add_blackbox (bb_instance_reg, bb_instance_dom) on top of bb_instance_succ / bb_instance_shape of the C02 proofs, the fold
   invariant Jb (J of VerilogRtProofs.v extended by the pins P made so far) and Kb (blackbox phase: instances B read so far,
   closedness, D = buffers driven by a pin of P, registry), the steps read_input_b / read_bb / read_gate_b, the folds, module()
   and the final comparison (roundtrip_identical_bb); the hypotheses from lint (lint_node_facts, lint_bb_facts, lint_clean_rtb)
   and a decidable form of the extra well-formedness (wf_bb_dec). *)
From CG Require Import Verilog.ExprParse.
From stdpp Require Import strings gmap sets fin_sets pretty.
From CG Require Import Types Sem Fold Api Verilog.Ast Verilog.Read Verilog.Write Proofs.VerilogProofs Run.Run_C02 Proofs.VerilogReadProofs Proofs.VerilogDenoteProofs Proofs.VerilogBbProofs Proofs.VerilogConvProofs Proofs.VerilogRtProofs Proofs.VerilogSuccProofs Proofs.VerilogPinProofs Proofs.VerilogSuccBbProofs.
From CG Require Proofs.ComposeProofs Proofs.BlackboxProofs Model.Lint.
Open Scope string_scope.

(* ------------------------------------------------------------------ shape of the writer's text with blackbox statements *)
Definition bbst (C : Circuit) (π : worder) : list item :=
  omap (λ x : string * list string * list string, (λ d, bb_stmt (c_g C) d x.1.1 x.1.2 x.2) <$> c_bbs C !! x.1.1) (o_bbs π).
Definition bb_perm (C : Circuit) (x : string * list string * list string) : Prop :=
  ∃ d, c_bbs C !! x.1.1 = Some d ∧ NoDup x.1.2 ∧ list_to_set x.1.2 = bb_in d ∧ NoDup x.2 ∧ list_to_set x.2 = bb_out d.
Lemma write_inv_bb C π m : write C false π = Ok m →
  NoDup (o_ins π) ∧ list_to_set (o_ins π) = inputs (c_g C) ∧ NoDup (o_outs π) ∧ list_to_set (o_outs π) = outputs (c_g C) ∧
  NoDup (o_nodes π) ∧ list_to_set (o_nodes π) = of_type (c_g C) (λ t, bool_decide (t ∈ gate_types) || bool_decide (t ∈ const_types)) ∧
  (o_fi π).*1 = o_nodes π ∧
  Forall (λ x : string * list string, NoDup x.2 ∧ list_to_set x.2 = fanin (c_g C) x.1 ∖ of_type (c_g C) (is_ty BbOut)) (o_fi π) ∧
  NoDup (o_bbs π).*1.*1 ∧ list_to_set (o_bbs π).*1.*1 = dom (c_bbs C) ∧ Forall (bb_perm C) (o_bbs π) ∧
  m = {| m_name := c_name C; m_ports := (o_ins π ++ o_outs π)%list;
         m_items := (((λ n, IInput [n]) <$> o_ins π) ++ ((λ n, IOutput [n]) <$> o_outs π) ++
                     ((λ n, IWire [n]) <$> o_nodes π) ++ bbst C π ++ stmts (c_g C) (length (bbst C π)) (o_fi π))%list |}.
Proof.
  unfold write. intros H.
  destruct (is_perm_of (o_ins π) (inputs (c_g C)) && is_perm_of (o_outs π) (outputs (c_g C))) eqn:E1; cbn [negb] in H; [|discriminate].
  apply andb_true_iff in E1 as [E1 E1']. apply is_perm_spec in E1 as [? ?]. apply is_perm_spec in E1' as [? ?].
  destruct (is_perm_of (o_bbs π).*1.*1 (dom (c_bbs C))) eqn:E2; cbn [negb] in H; [|discriminate]. apply is_perm_spec in E2 as [? ?].
  destruct (forallb _ (o_bbs π)) eqn:E2'; cbn [negb] in H; [|discriminate].
  destruct (is_perm_of (o_nodes π) _) eqn:E3; cbn [negb] in H; [|discriminate]. apply is_perm_spec in E3 as [? ?].
  case_bool_decide as E4; cbn [negb] in H; [|discriminate].
  destruct (forallb _ (o_fi π)) eqn:E5; cbn [negb] in H; [|discriminate].
  case_bool_decide as E6; cbn [negb] in H; [|discriminate].
  injection H as <-. repeat (split; [done|]). split; [|split; [done|split; [done|split]]].
  - apply Forall_forall. intros x Hx. rewrite forallb_forall in E5. specialize (E5 x (proj1 (elem_of_list_In _ _) Hx)). by apply is_perm_spec in E5.
  - apply Forall_forall. intros x Hx. rewrite forallb_forall in E2'. specialize (E2' x (proj1 (elem_of_list_In _ _) Hx)). cbv beta in E2'.
    unfold bb_perm. destruct (c_bbs C !! x.1.1) as [d|]; [|discriminate]. exists d. split; [done|].
    apply andb_true_iff in E2' as [A B]. apply is_perm_spec in A as [? ?]. apply is_perm_spec in B as [? ?]. done.
  - f_equal. do 3 f_equal. fold (wstep (c_g C)). fold (bbst C π). by rewrite foldl_stmts.
Qed.

(* ------------------------------------------------------------------ the named connections of an emitted instance *)
Definition pconns (h : string → option string) (l : list string) : list (string * string) := omap (λ p, (λ n, (p, n)) <$> h p) l.
Definition bb_conns (g : circuit) (inst : string) (ins outs : list string) : list (string * string) :=
  (pconns (λ p, head (elements (fanin g (pin inst p)))) ins ++ pconns (λ p, head (elements (fanout g (pin inst p)))) outs)%list.
Lemma elem_of_pconns h l p n : (p, n) ∈ pconns h l ↔ p ∈ l ∧ h p = Some n.
Proof.
  unfold pconns. rewrite elem_of_list_omap. split.
  - intros (q & Hq & E). destruct (h q) as [v|] eqn:Ev; [|discriminate]. simpl in E. injection E as -> ->. done.
  - intros [Hp E]. exists p. split; [done|]. by rewrite E.
Qed.
Lemma pconns_keys h l : ∀ p, p ∈ (pconns h l).*1 → p ∈ l.
Proof. intros p (kv & -> & Hkv)%elem_of_list_fmap. destruct kv as [a b]. by apply elem_of_pconns in Hkv as [? _]. Qed.
Lemma pconns_nodup h l : NoDup l → NoDup (pconns h l).*1.
Proof.
  induction l as [|a l IH]; intros Hnd; [constructor|]. apply NoDup_cons in Hnd as [Ha Hnd]. unfold pconns. cbn [omap list_omap].
  destruct (h a) as [v|]; cbn [fmap option_fmap option_map]; [|by apply IH]. fold (pconns h l). rewrite fmap_cons. apply NoDup_cons. split; [|by apply IH]. intros Hin. by apply pconns_keys in Hin.
Qed.
Lemma bb_conns_nodup g inst ins outs : NoDup (ins ++ outs)%list → NoDup (bb_conns g inst ins outs).*1.
Proof.
  intros Hnd. apply NoDup_app in Hnd as (N1 & Hx & N2). unfold bb_conns. rewrite fmap_app. apply NoDup_app. split; [by apply pconns_nodup|].
  split; [|by apply pconns_nodup]. intros p H1 H2. apply pconns_keys in H1, H2. by apply (Hx p).
Qed.
Lemma elem_of_bb_conns g inst ins outs p n : (p, n) ∈ bb_conns g inst ins outs ↔
  (p ∈ ins ∧ head (elements (fanin g (pin inst p))) = Some n) ∨ (p ∈ outs ∧ head (elements (fanout g (pin inst p))) = Some n).
Proof. unfold bb_conns. by rewrite elem_of_app, !elem_of_pconns. Qed.

Lemma dict_set_fresh d key v : key ∉ d.*1 → dict_set d key v = (d ++ [(key, v)])%list.
Proof.
  induction d as [|[k' v'] d IH]; intros Hn; [done|]. rewrite fmap_cons in Hn. cbn [dict_set]. rewrite bool_decide_eq_false_2 by set_solver.
  simpl. f_equal. apply IH. set_solver.
Qed.
Lemma dstep_fold os : ∀ acc, NoDup (acc ++ omap id os)%list.*1 → foldl dstep acc os = (acc ++ omap id os)%list.
Proof.
  induction os as [|o os IH]; intros acc Hnd; simpl; [by rewrite app_nil_r|]. destruct o as [[key v]|]; simpl.
  - simpl in Hnd. rewrite dict_set_fresh.
    + rewrite IH; [by rewrite <- app_assoc|]. by rewrite <- app_assoc.
    + rewrite fmap_app in Hnd. apply NoDup_app in Hnd as (_ & Hx & _). intros Hin. apply (Hx key Hin). rewrite fmap_cons. by left.
  - by apply IH.
Qed.
Lemma rmapS_named_cid k s (l : list (string * option string)) :
  rmapS (named_step k) s ((λ pn : string * option string, (pn.1, cid <$> pn.2)) <$> l) =
  Ok (s, (λ pn : string * option string, (λ n, (pn.1, n)) <$> pn.2) <$> l).
Proof.
  induction l as [|[p o] l IH]; [done|]. rewrite !fmap_cons. cbn [rmapS]. destruct o as [n|]; cbn [fst snd fmap option_fmap option_map].
  - unfold named_step at 1. cbn [fst snd]. change (c_cond k s (cid n)) with (Ok (s, n) : res (cstate * string)). cbn [mbind res_mbind rbind fst snd].
    rewrite IH. done.
  - unfold named_step at 1. cbn [fst snd rbind]. rewrite IH. done.
Qed.
Lemma omap_pconns (h : string → option string) l :
  omap id ((λ pn : string * option string, (λ n, (pn.1, n)) <$> pn.2) <$> ((λ p, (p, h p)) <$> l)) = pconns h l.
Proof. induction l as [|a l IH]; [done|]. rewrite !fmap_cons. unfold pconns. cbn [omap list_omap fst snd]. fold (pconns h l). rewrite <- IH. destruct (h a); done. Qed.

Lemma c_conns_bb k s g inst ins outs : NoDup (ins ++ outs)%list →
  c_conns k s (Named ((((λ p, (p, cid <$> head (elements (fanin g (pin inst p))))) <$> ins) ++
                    ((λ p, (p, cid <$> head (elements (fanout g (pin inst p))))) <$> outs))%list)) = Ok (s, CNamed (bb_conns g inst ins outs)).
Proof.
  intros Hnd.
  set (l := (((λ p, (p, head (elements (fanin g (pin inst p))))) <$> ins) ++ ((λ p, (p, head (elements (fanout g (pin inst p))))) <$> outs))%list).
  assert (El : (((λ p, (p, cid <$> head (elements (fanin g (pin inst p))))) <$> ins) ++
                    ((λ p, (p, cid <$> head (elements (fanout g (pin inst p))))) <$> outs))%list = (λ pn : string * option string, (pn.1, cid <$> pn.2)) <$> l).
  { unfold l. rewrite fmap_app, <- !list_fmap_compose. done. }
  rewrite El. rewrite (c_conns_named k s _ s _ (rmapS_named_cid k s l)). do 3 f_equal.
  assert (Eo : omap id ((λ pn : string * option string, (λ n, (pn.1, n)) <$> pn.2) <$> l) = bb_conns g inst ins outs).
  { unfold l, bb_conns. rewrite fmap_app, omap_app. by rewrite !omap_pconns. }
  rewrite dstep_fold; rewrite app_nil_l, Eo; [done|]. by apply bb_conns_nodup.
Qed.

Lemma c_item_bb k st g d inst ins outs gb' : prim_of_name (bb_name d) = None → find_bb k (bb_name d) = Some d → NoDup (ins ++ outs)%list →
  bb_instance k d (r_g st, r_bbs st) (inst, CNamed (bb_conns g inst ins outs)) = Ok gb' →
  c_item k st (bb_stmt g d inst ins outs) =
  Ok {| r_g := gb'.1; r_bbs := gb'.2; r_ge := r_ge st; r_io := r_io st; r_ins := r_ins st; r_outs := r_outs st |}.
Proof.
  intros Hp Hf Hnd Hb. unfold bb_stmt, c_item. cbn [rmapS fst snd]. rewrite (c_conns_bb k _ g inst ins outs Hnd).
  cbn [mbind res_mbind rbind fst snd]. rewrite Hp, Hf. cbn [rfold st_g st_ge r_g r_bbs r_ge r_io r_ins r_outs]. rewrite Hb. done.
Qed.


(* ------------------------------------------------------------------ one blackbox instance: registry and new nodes *)
Lemma bb_instance_reg k d gb inst conns gb' : bb_instance k d gb (inst, CNamed conns) = Ok gb' → gb'.2 = <[inst := d]> gb.2.
Proof.
  unfold bb_instance. cbn [snd fst]. intros H. apply mbind_ok in H as (g1 & H1 & H). apply mbind_ok in H as (g2 & H2 & H).
  destruct (add_blackbox _ _ _ _ _ _) as [C' o] eqn:Eb. destruct o; [|discriminate]. injection H as <-. simpl.
  apply BlackboxProofs.add_blackbox_inv in Eb as (_ & _ & E & _). done.
Qed.
Lemma outs_dom k conns l : ∀ g g1,
  rfold (λ g (o : string), match dict_get conns o with
                            | Some net => r ← add_node (k_rsv k) g net Buf [] false; Ok r.1
                            | None => Ok g end) g l = Ok g1 →
  ∀ y, y ∈ dom g1 → y ∈ dom g ∨ ∃ kv : string * string, kv ∈ conns ∧ y = kv.2.
Proof.
  induction l as [|o l IH]; intros g g1 H y Hy; simpl in H; [injection H as <-; by left|].
  apply rbind_ok in H as (g' & Ha & Hb). destruct (IH _ _ Hb y Hy) as [Hd|?]; [|by right]. destruct (dict_get conns o) as [net|] eqn:Eg; [|injection Ha as <-; by left].
  apply mbind_ok in Ha as ([g'' nm] & Ha & E). injection E as <-. simpl in *.
  pose proof (add_node_shape k g net Buf [] g'' nm Ha) as (_ & Hx & _). destruct (decide (y = net)) as [->|Hne].
  - right. exists (o, net). split; [by apply dict_get_elem|done].
  - left. apply elem_of_dom in Hd as [j Hj]. destruct (Hx y Hne) as [E|(_ & Hf & _)]; [|by apply elem_of_nil in Hf]. apply elem_of_dom. exists j. by rewrite <- E.
Qed.
Lemma ph2_dom_sub (l : list (string * string)) : ∀ g g2,
  rfold (λ g (kv : string * string), if bool_decide (kv.2 ∈ dom g) then Ok g else
           match add_g g kv.2 Buf [] [] af_default with (g', Done, _) => Ok g' | (_, Fail e, _) => Raise e end) g l = Ok g2 →
  ∀ y, y ∈ dom g2 → y ∈ dom g ∨ ∃ kv : string * string, kv ∈ l ∧ y = kv.2.
Proof.
  induction l as [|kv l IH]; intros g g2 H y Hy; simpl in H; [injection H as <-; by left|].
  apply rbind_ok in H as (g' & Ha & Hb). destruct (IH _ _ Hb y Hy) as [Hd|(kv' & ? & ?)]; [|right; exists kv'; split; [by right|done]].
  case_bool_decide as Hdd; [injection Ha as <-; by left|].
  destruct (add_g g kv.2 Buf [] [] af_default) as [[g'' o] nm] eqn:Eg. destruct o; [|discriminate]. injection Ha as <-.
  apply BlackboxProofs.add_pin_done in Eg as (_ & _ & ->). rewrite dom_insert in Hd. apply elem_of_union in Hd as [->%elem_of_singleton|?]; [|by left].
  right. exists kv. split; [by left|done].
Qed.
Lemma bb_instance_dom k d gb inst conns gb' : bb_instance k d gb (inst, CNamed conns) = Ok gb' →
  ∀ y, y ∈ dom gb'.1 → y ∈ dom gb.1 ∨ (∃ p, p ∈ bb_in d ∪ bb_out d ∧ y = pin inst p) ∨ ∃ kv : string * string, kv ∈ conns ∧ y = kv.2.
Proof.
  unfold bb_instance. cbn [snd fst]. intros H y Hy. apply mbind_ok in H as (g1 & H1 & H). apply mbind_ok in H as (g2 & H2 & H).
  destruct (add_blackbox _ _ _ _ _ _) as [C' o] eqn:Eb. destruct o; [|discriminate]. injection H as <-. simpl in Hy.
  apply BlackboxProofs.add_blackbox_inv in Eb as (_ & _ & _ & g1p & io & Hp & Hc). simpl in Hp.
  destruct (BlackboxProofs.mkpins_done _ _ _ _ _ _ Hp) as (_ & _ & Hl). destruct (bconn_fold_exact _ _ _ _ _ Hc) as [_ Hdom].
  rewrite Hdom in Hy. apply elem_of_dom in Hy as [i Hi]. apply Hl in Hi as [Hi|[(p & Hp' & -> & _)|(p & Hp' & -> & _)]].
  - assert (Hy2 : y ∈ dom g2) by (apply elem_of_dom; eauto). destruct (ph2_dom_sub _ _ _ H2 y Hy2) as [Hy1|?]; [|by right; right].
    destruct (outs_dom _ _ _ _ _ H1 y Hy1) as [?|?]; [by left|by right; right].
  - right. left. exists p. apply elem_of_elements in Hp'. split; [set_solver|done].
  - right. left. exists p. apply elem_of_elements in Hp'. split; [set_solver|done].
Qed.

Lemma head_small (s : gset string) : size s ≤ 1 → (s = ∅ ∧ head (elements s) = None) ∨ (∃ v, s = {[v]} ∧ head (elements s) = Some v).
Proof.
  intros H. destruct (elements s) as [|a [|b l]] eqn:E.
  - left. split; [|done]. apply leibniz_equiv. by apply elements_empty_inv.
  - right. exists a. split; [|done]. apply set_eq. intros x. rewrite <- elem_of_elements, E, elem_of_list_singleton, elem_of_singleton. done.
  - exfalso. unfold size, set_size in H. simpl in H. rewrite E in H. simpl in H. lia.
Qed.
Lemma head_elem {A} (l : list A) x : head l = Some x → x ∈ l.
Proof. destruct l; [done|]. simpl. intros [= ->]. by left. Qed.
Lemma size1_elem (s : gset string) x : size s = 1 → x ∈ s → s = {[x]}.
Proof. intros H Hx. apply size_1_elem_of in H as [y Hy]. apply leibniz_equiv in Hy. subst s. apply elem_of_singleton in Hx. by subst. Qed.

(* ------------------------------------------------------------------ what the round trip needs of a circuit with blackbox instances *)
Record rtb_clean (g : circuit) (bbs : gmap string bbdef) : Prop := mk_rtb_clean {
  rb_ty : ∀ n i, g !! n = Some i → n_ty i = Input ∨ n_ty i ∈ gate_types ∨ n_ty i = BbIn ∨ n_ty i = BbOut;
  rb_in : ∀ n i, g !! n = Some i → n_ty i = Input → n_fi i = ∅;
  rb_gate : ∀ n i, g !! n = Some i → n_ty i ∈ gate_types → n_fi i ≠ ∅;
  rb_single : ∀ n i, g !! n = Some i → n_ty i = Buf ∨ n_ty i = Not → size (n_fi i) = 1;
  rb_names : ∀ n, n ∈ dom g → good_name n;
  rb_closed : closed g;
  rb_nodot : ∀ n i, g !! n = Some i → n_ty i ≠ BbIn → n_ty i ≠ BbOut → nodot n;
  rb_pin_reg : ∀ n i, g !! n = Some i → n_ty i = BbIn ∨ n_ty i = BbOut → ∃ inst d p, bbs !! inst = Some d ∧ n = pin inst p ∧ p ∈ bb_in d ∪ bb_out d;
  rb_reg_in : ∀ inst d p, bbs !! inst = Some d → p ∈ bb_in d → ∃ i, g !! pin inst p = Some i ∧ n_ty i = BbIn;
  rb_reg_out : ∀ inst d p, bbs !! inst = Some d → p ∈ bb_out d → ∃ i, g !! pin inst p = Some i ∧ n_ty i = BbOut;
  rb_bbin_fi : ∀ n i, g !! n = Some i → n_ty i = BbIn → size (n_fi i) ≤ 1;
  rb_bbout_fi : ∀ n i, g !! n = Some i → n_ty i = BbOut → n_fi i = ∅;
  rb_bbout_fo : ∀ n i m j, g !! n = Some i → n_ty i = BbOut → g !! m = Some j → n ∈ n_fi j → n_ty j = Buf;
  rb_bbout_fo1 : ∀ n i, g !! n = Some i → n_ty i = BbOut → size (fanout g n) ≤ 1;
  rb_bbin_fo : ∀ n i m j, g !! n = Some i → n_ty i = BbIn → g !! m = Some j → n ∉ n_fi j;
  rb_apart : ∀ i j d e p q, bbs !! i = Some d → bbs !! j = Some e → p ∈ bb_in d ∪ bb_out d → q ∈ bb_in e ∪ bb_out e → pin i p = pin j q → i = j;
  rb_inst : ∀ inst d, bbs !! inst = Some d → starts_digit inst = false ∧ prim_of_name (bb_name d) = None;
  rb_defs : ∀ i j d e, bbs !! i = Some d → bbs !! j = Some e → bb_name d = bb_name e → d = e }.

Lemma gate_nc t : t ∈ gate_types → t ∉ const_types.
Proof. unfold gate_types, const_types. rewrite !elem_of_cons, !elem_of_nil. intros [->|[->|[->|[->|[->|[->|[->|[->|[]]]]]]]]]; naive_solver. Qed.
Lemma buf_gate : Buf ∈ gate_types. Proof. unfold gate_types. set_solver. Qed.
Definition onets (d : bbdef) (conns : list (string * string)) : gset string := list_to_set (filter (λ kv : string * string, kv.1 ∉ bb_in d) conns).*2.
Lemma elem_of_onets d conns x : x ∈ onets d conns ↔ ∃ kv : string * string, kv ∈ conns ∧ kv.1 ∉ bb_in d ∧ x = kv.2.
Proof.
  unfold onets. rewrite elem_of_list_to_set, elem_of_list_fmap. split.
  - intros (kv & -> & Hkv). apply elem_of_list_filter in Hkv as [? ?]. eauto.
  - intros (kv & ? & ? & ->). exists kv. split; [done|]. by apply elem_of_list_filter.
Qed.
Definition nn (g : circuit) : gset string := dom (filter (λ p : string * ninfo, n_ty p.2 ≠ BbIn ∧ n_ty p.2 ≠ BbOut) g).
Lemma elem_of_nn g x : x ∈ nn g ↔ ∃ j, g !! x = Some j ∧ n_ty j ≠ BbIn ∧ n_ty j ≠ BbOut.
Proof. unfold nn. rewrite elem_of_dom. split; [intros [j Hj]; apply map_filter_lookup_Some in Hj as [? ?]; eauto|intros (j & ? & ?); exists j; by apply map_filter_lookup_Some]. Qed.

Lemma prim_instance_ok_x k t gr inst n fi : t ∈ gate_types → good_name n → Forall (λ f, f ∈ dom gr ∨ good_name f) fi → fi ≠ [] → NoDup fi →
  (t = Buf ∨ t = Not → length fi = 1) → fanin gr n = ∅ → (∀ u j, u ∈ fi → gr !! u = Some j → n_ty j ≠ BbIn ∧ n_ty j ≠ BbOut) →
  ∃ g', prim_instance k t gr (inst, CPos (n :: fi)) = Ok g'.
Proof.
  intros Ht Hn Hfi Hne Hnd Hlen Hf0 Hnp. destruct (add_g_succeeds_x gr n t fi Ht Hn Hfi Hne Hlen Hf0 Hnp) as [g' Hg].
  exists g'. unfold prim_instance. cbn [snd]. rewrite parity_nodup by done.
  destruct fi as [|f fi']; [done|]. destruct (bool_decide (t = Xor) || bool_decide (t = Xnor)); cbv beta iota zeta; unfold add_node, lift; rewrite Hg; done.
Qed.
Lemma find_def_unique (l : list bbdef) d : d ∈ l → (∀ e, e ∈ l → bb_name e = bb_name d → e = d) → find_def l (bb_name d) = Some d.
Proof.
  intros Hd Hu. unfold find_def. destruct (last (filter (λ e, bb_name e = bb_name d) l)) as [e|] eqn:E.
  - apply last_Some in E as [l' E]. assert (He : e ∈ filter (λ e, bb_name e = bb_name d) l) by (rewrite E; apply elem_of_app; right; by left).
    apply elem_of_list_filter in He as [Hn He]. by rewrite (Hu e He Hn).
  - apply last_None in E. assert (Hin : d ∈ filter (λ e, bb_name e = bb_name d) l) by (by apply elem_of_list_filter). rewrite E in Hin. by apply elem_of_nil in Hin.
Qed.

Section rtbb.
  Context (k : rctx) (g g0 : circuit) (bbs : gmap string bbdef).
  Hypothesis Htr : ties k ## k_rsv k.
  Hypothesis Hrsv : ∀ x j, g !! x = Some j → n_ty j ≠ BbIn → n_ty j ≠ BbOut → x ∈ k_rsv k.
  Hypothesis Htn : ∀ t, t ∈ ties k → nodot t.
  Hypothesis Hg0 : ∀ x j, g0 !! x = Some j → x ∈ ties k ∧ n_ty j ∈ [C0; C1; CX] ∧ n_fi j = ∅.
  Hypothesis Hg0d : ∀ t, t ∈ ties k → t ∈ dom g0.
  Hypothesis HC : rtb_clean g bbs.
  #[local] Set Default Proof Using "All".

  Lemma ties_not_g x : x ∈ ties k → x ∈ dom g → False.
  Proof.
    intros Ht [j Hj]%elem_of_dom. destruct (decide (n_ty j = BbIn ∨ n_ty j = BbOut)) as [Hp|Hp].
    - destruct (rb_pin_reg _ _ HC x j Hj Hp) as (inst & d & p & _ & -> & _). specialize (Htn _ Ht). unfold nodot in Htn. by rewrite pin_dot in Htn.
    - apply (Htr x Ht). eapply Hrsv; [done| |]; naive_solver.
  Qed.

  (* the graph while the text is read: I = inputs declared so far, D = gates that have their final node, P = pins made so far *)
  Record Jb (I D P : gset string) (gr : circuit) : Prop := mk_Jb {
    jb_dom : ∀ x j, gr !! x = Some j → x ∈ ties k ∨ x ∈ dom g;
    jb_tie : ∀ x, x ∈ ties k → gr !! x = g0 !! x;
    jb_in : ∀ x i, g !! x = Some i → n_ty i = Input → gr !! x = if bool_decide (x ∈ I) then Some (mk_node Input false ∅) else None;
    jb_pin : ∀ x i, g !! x = Some i → n_ty i = BbIn ∨ n_ty i = BbOut → gr !! x = if bool_decide (x ∈ P) then Some (mk_node (n_ty i) false (n_fi i)) else None;
    jb_done : ∀ x i, g !! x = Some i → n_ty i ∈ gate_types → x ∈ D → gr !! x = Some (mk_node (n_ty i) false (n_fi i));
    jb_todo : ∀ x i, g !! x = Some i → n_ty i ∈ gate_types → x ∉ D → gr !! x = None ∨ gr !! x = Some (mk_node Buf false ∅) }.

  Lemma gate_not_pin t : t ∈ gate_types → t ≠ BbIn ∧ t ≠ BbOut ∧ t ≠ Input.
  Proof. unfold gate_types. intros H. repeat split; intros ->; set_solver. Qed.
  Lemma const_not_pin t : t ∈ [C0; C1; CX] → t ≠ BbIn ∧ t ≠ BbOut.
  Proof. intros H. split; intros ->; set_solver. Qed.

  Lemma Jb_sinv I D P gr : Jb I D P gr → (∀ x, x ∈ P → ∃ i, g !! x = Some i ∧ (n_ty i = BbIn ∨ n_ty i = BbOut)) → sinv P gr.
  Proof.
    intros [Jd Jt Ji Jp Jdn Jto] HP. pose proof HC as [Rty _ _ _ _ _ Rnodot Rpreg _ _ _ _ _ _ _ _ _ _]. split.
    - intros x j Hx Hty. destruct (Jd x j Hx) as [Ht|Hd].
      + rewrite (Jt x Ht) in Hx. destruct (Hg0 x j Hx) as (_ & Hc & _). apply const_not_pin in Hc. naive_solver.
      + apply elem_of_dom in Hd as [i Hi]. destruct (Rty x i Hi) as [Hin|[Hgt|Hpin]].
        * rewrite (Ji x i Hi Hin) in Hx. case_bool_decide; [|discriminate]. injection Hx as <-. simpl in Hty. naive_solver.
        * destruct (decide (x ∈ D)) as [HD|HD].
          -- rewrite (Jdn x i Hi Hgt HD) in Hx. injection Hx as <-. simpl in Hty. apply gate_not_pin in Hgt. naive_solver.
          -- destruct (Jto x i Hi Hgt HD) as [E|E]; rewrite E in Hx; [discriminate|]. injection Hx as <-. simpl in Hty. naive_solver.
        * rewrite (Jp x i Hi Hpin) in Hx. case_bool_decide; [done|discriminate].
    - intros x [j Hx]%elem_of_dom. destruct (Jd x j Hx) as [Ht|Hd]; [right; by apply Htn|].
      apply elem_of_dom in Hd as [i Hi]. destruct (decide (n_ty i = BbIn ∨ n_ty i = BbOut)) as [Hpin|Hnp].
      + rewrite (Jp x i Hi Hpin) in Hx. case_bool_decide; [by left|discriminate].
      + right. apply (Rnodot x i Hi); naive_solver.
    - intros x Hx. destruct (HP x Hx) as (i & Hi & Hty). destruct (Rpreg x i Hi Hty) as (inst & d & p & _ & -> & _). apply pin_dot.
  Qed.
  Lemma Jb_closed0 I gr : Jb I ∅ ∅ gr → closed gr.
  Proof.
    intros [Jd Jt Ji Jp Jdn Jto]. pose proof HC as [Rty _ _ _ _ _ _ _ _ _ _ _ _ _ _ _ _ _]. intros x j f Hx Hf. exfalso. destruct (Jd x j Hx) as [Ht|Hd].
    - rewrite (Jt x Ht) in Hx. destruct (Hg0 x j Hx) as (_ & _ & E). rewrite E in Hf. by apply elem_of_empty in Hf.
    - apply elem_of_dom in Hd as [i Hi]. destruct (Rty x i Hi) as [Hin|[Hgt|Hpin]].
      + rewrite (Ji x i Hi Hin) in Hx. case_bool_decide; [|discriminate]. injection Hx as <-. by apply elem_of_empty in Hf.
      + destruct (Jto x i Hi Hgt) as [E|E]; [set_solver|rewrite E in Hx; discriminate|]. rewrite E in Hx. injection Hx as <-. by apply elem_of_empty in Hf.
      + rewrite (Jp x i Hi Hpin) in Hx. rewrite bool_decide_eq_false_2 in Hx by set_solver. discriminate.
  Qed.

  (* the blackbox phase: B = instances read so far *)
  Record Kb (B D P : gset string) (st : rstate) : Prop := mk_Kb {
    kb_J : Jb (inputs g) D P (r_g st);
    kb_closed : closed (r_g st);
    kb_P : ∀ x, x ∈ P ↔ ∃ inst d p, inst ∈ B ∧ bbs !! inst = Some d ∧ p ∈ bb_in d ∪ bb_out d ∧ x = pin inst p;
    kb_D : ∀ x i, g !! x = Some i → n_ty i ∈ gate_types → (x ∈ D ↔ ∃ q, q ∈ P ∧ q ∈ n_fi i);
    kb_reg : ∀ i, r_bbs st !! i = if bool_decide (i ∈ B) then bbs !! i else None }.

  Lemma bb_disj inst d : bbs !! inst = Some d → bb_in d ## bb_out d.
  Proof.
    intros Hd p Hi Ho. destruct (rb_reg_in _ _ HC inst d p Hd Hi) as (i & Hi1 & Ht1). destruct (rb_reg_out _ _ HC inst d p Hd Ho) as (j & Hj1 & Ht2). congruence.
  Qed.
  Lemma pin_is_pin inst d p : bbs !! inst = Some d → p ∈ bb_in d ∪ bb_out d → ∃ i, g !! pin inst p = Some i ∧ (n_ty i = BbIn ∨ n_ty i = BbOut).
  Proof.
    intros Hd [Hp|Hp]%elem_of_union; [destruct (rb_reg_in _ _ HC inst d p Hd Hp) as (i & ? & ?)|destruct (rb_reg_out _ _ HC inst d p Hd Hp) as (i & ? & ?)]; eauto.
  Qed.

  Lemma read_bb st inst d ins outs B D P : Kb B D P st → bbs !! inst = Some d → inst ∉ B →
    NoDup ins → list_to_set ins = bb_in d → NoDup outs → list_to_set outs = bb_out d → find_bb k (bb_name d) = Some d →
    ∃ st' D', c_item k st (bb_stmt g d inst ins outs) = Ok st' ∧ Kb ({[inst]} ∪ B) D' (P ∪ pinset d inst) st' ∧
       r_ge st' = r_ge st ∧ r_io st' = r_io st ∧ r_ins st' = r_ins st ∧ r_outs st' = r_outs st.
  Proof.
    intros [HJ Hcl HP HD Hreg] Hd HB Ni Ei No Eo Hfb. pose proof HJ as [Jd Jt Ji Jp Jdn Jto].
    pose proof HC as [Rty Rin Rgate Rsingle Rnames Rcl Rnodot Rpreg Rregi Rrego Rbifi Rbofi Rbofo Rbofo1 Rbifo Rapart Rinst Rdefs].
    pose proof (bb_disj inst d Hd) as Hdisj. destruct (Rinst inst d Hd) as [Hdig Hprim].
    assert (Hins : ∀ p, p ∈ ins ↔ p ∈ bb_in d) by (intros p; rewrite <- Ei; by rewrite elem_of_list_to_set).
    assert (Houts : ∀ p, p ∈ outs ↔ p ∈ bb_out d) by (intros p; rewrite <- Eo; by rewrite elem_of_list_to_set).
    assert (Hndio : NoDup (ins ++ outs)%list).
    { apply NoDup_app. split; [done|]. split; [|done]. intros p H1 H2. apply (Hdisj p); [by apply Hins|by apply Houts]. }
    set (conns := bb_conns g inst ins outs).
    assert (Hndc : NoDup conns.*1) by (by apply bb_conns_nodup).
    assert (Hcin : ∀ kv : string * string, kv ∈ conns → kv.1 ∈ bb_in d → ∃ i, g !! pin inst kv.1 = Some i ∧ n_ty i = BbIn ∧ n_fi i = {[kv.2]}).
    { intros [p n] Hkv Hp. simpl in *. apply elem_of_bb_conns in Hkv as [[_ Hh]|[Hp' _]]; [|exfalso; apply (Hdisj p Hp); by apply Houts].
      destruct (Rregi inst d p Hd Hp) as (i & Hi & Hti). exists i. split; [done|]. split; [done|].
      unfold fanin in Hh. rewrite Hi in Hh. simpl in Hh. destruct (head_small (n_fi i) (Rbifi _ _ Hi Hti)) as [[_ E]|(v & Ev & E)]; congruence. }
    assert (Hcout : ∀ kv : string * string, kv ∈ conns → kv.1 ∉ bb_in d → kv.1 ∈ bb_out d ∧ ∃ j, g !! kv.2 = Some j ∧ n_ty j = Buf ∧ n_fi j = {[pin inst kv.1]}).
    { intros [p n] Hkv Hp. simpl in *. apply elem_of_bb_conns in Hkv as [[Hp' _]|[Hp' Hh]]; [exfalso; apply Hp; by apply Hins|].
      apply Houts in Hp'. split; [done|]. apply head_elem, elem_of_elements, elem_of_fanout in Hh as (j & Hj & Hin).
      destruct (Rrego inst d p Hd Hp') as (i & Hi & Hti). pose proof (Rbofo _ _ _ _ Hi Hti Hj Hin) as Hbuf. exists j. split; [done|]. split; [done|].
      apply size1_elem; [|done]. apply (Rsingle n j Hj). by left. }
    assert (Hcfo : ∀ p x i, p ∈ bb_out d → g !! x = Some i → pin inst p ∈ n_fi i → (p, x) ∈ conns).
    { intros p x i Hp Hi Hin. apply elem_of_bb_conns. right. split; [by apply Houts|].
      destruct (Rrego inst d p Hd Hp) as (ip & Hip & Htp).
      assert (Hxf : x ∈ fanout g (pin inst p)) by (apply elem_of_fanout; eauto).
      destruct (head_small _ (Rbofo1 _ _ Hip Htp)) as [[E _]|(v & Ev & E)]; [rewrite E in Hxf; by apply elem_of_empty in Hxf|].
      rewrite Ev in Hxf. apply elem_of_singleton in Hxf. by subst. }
    assert (Hvty : ∀ kv : string * string, kv ∈ conns → ∃ j, g !! kv.2 = Some j ∧ n_ty j ≠ BbIn ∧ n_ty j ≠ BbOut).
    { intros kv Hkv. destruct (decide (kv.1 ∈ bb_in d)) as [Hp|Hp].
      - destruct (Hcin kv Hkv Hp) as (i & Hi & Hti & Hfi). assert (Hd2 : kv.2 ∈ dom g) by (eapply Rcl; [exact Hi|rewrite Hfi; by apply elem_of_singleton]).
        apply elem_of_dom in Hd2 as [j Hj]. exists j. split; [done|]. split; intros Htj.
        + apply (Rbifo _ _ _ _ Hj Htj Hi). rewrite Hfi. by apply elem_of_singleton.
        + assert (n_ty i = Buf) by (eapply (Rbofo _ _ _ _ Hj Htj Hi); rewrite Hfi; by apply elem_of_singleton). congruence.
      - destruct (Hcout kv Hkv Hp) as (_ & j & Hj & Htj & _). exists j. rewrite Htj. done. }
    assert (Hkeys : ∀ kv : string * string, kv ∈ conns → kv.1 ∈ bb_in d ∪ bb_out d).
    { intros kv Hkv. destruct (decide (kv.1 ∈ bb_in d)) as [Hp|Hp]; [by apply elem_of_union_l|]. apply elem_of_union_r. by destruct (Hcout kv Hkv Hp). }
    assert (HPg : ∀ x, x ∈ P → ∃ i, g !! x = Some i ∧ (n_ty i = BbIn ∨ n_ty i = BbOut)).
    { intros x (inst' & d' & p' & _ & Hd' & Hp' & ->)%HP. by eapply pin_is_pin. }
    assert (HpP : ∀ p, p ∈ bb_in d ∪ bb_out d → pin inst p ∉ P).
    { intros p Hp (inst' & d' & p' & HB' & Hd' & Hp' & E)%HP. apply HB. by rewrite (Rapart _ _ _ _ _ _ Hd Hd' Hp Hp' E). }
    assert (HvD : ∀ kv : string * string, kv ∈ conns → kv.1 ∉ bb_in d → kv.2 ∉ D).
    { intros kv Hkv Hp HinD. destruct (Hcout kv Hkv Hp) as (Hpo & j & Hj & Htj & Hfj).
      assert (Hgt : n_ty j ∈ gate_types) by (rewrite Htj; apply buf_gate).
      apply (HD _ _ Hj Hgt) in HinD as (q & Hq & Hqf). rewrite Hfj in Hqf. apply elem_of_singleton in Hqf. subst q. apply (HpP kv.1); [by apply elem_of_union_r|done]. }
    assert (Hundef : ∀ kv : string * string, kv ∈ conns → kv.1 ∉ bb_in d → undef_ok (r_g st) kv.2).
    { intros kv Hkv Hp. destruct (Hcout kv Hkv Hp) as (Hpo & j & Hj & Htj & Hfj).
      assert (Hgt : n_ty j ∈ gate_types) by (rewrite Htj; apply buf_gate).
      intros i Hi. destruct (Jto _ _ Hj Hgt (HvD kv Hkv Hp)) as [E|E]; rewrite E in Hi; [discriminate|]. by injection Hi as <-. }
    assert (Huniq : ∀ kv kv' : string * string, kv ∈ conns → kv' ∈ conns → kv.1 ∉ bb_in d → kv'.1 ∉ bb_in d → kv.2 = kv'.2 → kv = kv').
    { intros [p n] [p' n'] Hkv Hkv' Hp Hp' E. simpl in *. subst n'. destruct (Hcout _ Hkv Hp) as (_ & j & Hj & _ & Hfj). destruct (Hcout _ Hkv' Hp') as (_ & j' & Hj' & _ & Hfj'). simpl in *.
      assert (j' = j) as -> by congruence. rewrite Hfj in Hfj'. apply singleton_inj in Hfj'. apply pin_inj' in Hfj'. by subst. }
    assert (HS : sinv P (r_g st)) by (by eapply Jb_sinv).
    assert (HG : gst k (r_g st, ∅)).
    { split; [done|]. split; [|split; simpl; [apply disjoint_empty_r|apply disjoint_empty_l]]. intros t Ht. simpl. apply elem_of_dom. rewrite (Jt t Ht). apply elem_of_dom. by apply Hg0d. }
    assert (Hnng : ∀ s, s ∈ nn g → good_name s ∧ nodot s).
    { intros s (j & Hj & H1 & H2)%elem_of_nn. split; [apply Rnames; apply elem_of_dom; eauto|by eapply Rnodot]. }
    assert (Hnnr : nn g ⊆ k_rsv k) by (intros s (j & Hj & ? & ?)%elem_of_nn; by eapply Hrsv).
    destruct (bb_instance_succ k (nn g) P Htr Hnnr Hnng d (r_g st, r_bbs st) inst conns ∅) as (gb' & Hbi & _); try done.
    { intros kv Hkv. destruct (Hvty kv Hkv) as (j & Hj & H1 & H2). split.
      - split; [right; apply Rnames; apply elem_of_dom; eauto|by eapply Rnodot].
      - destruct (decide (kv.1 ∈ bb_in d)) as [Hp|Hp]; [left; split; [done|]; intros ?; by apply (Hdisj kv.1)|right].
        destruct (Hcout kv Hkv Hp) as (Hpo & _). split; [done|]. split; [done|]. split; [apply elem_of_nn; eauto|by apply Hundef]. }
    { cbn [snd]. apply not_elem_of_dom. rewrite Hreg. by rewrite bool_decide_eq_false_2. }
    pose proof (bb_instance_shape k Htr d (r_g st, r_bbs st) (inst, CNamed conns) gb' ∅ conns Hbi eq_refl Hndc HG) as Hsh. cbn [fst snd] in Hsh.
    destruct Hsh as [Bi Bo Bn Bold Bnew Bf Bd Bv Bk].
    { intros kv Hkv Hpo. assert (Hp : kv.1 ∉ bb_in d) by (intros ?; by apply (Hdisj kv.1)). split; [done|]. split; [|by apply Hundef].
      destruct (Hvty kv Hkv) as (j & Hj & ? & ?). by eapply Hrsv. }
    { done. }
    destruct (bb_instance_step k Htr (nn g) d (r_g st, r_bbs st) (inst, CNamed conns) gb' ∅ (λ _, True) conns Hbi eq_refl Hndc HG) as (HG' & _).
    { intros kv Hkv Hpo. assert (Hp : kv.1 ∉ bb_in d) by (intros ?; by apply (Hdisj kv.1)). split; [done|]. split; [|split; [by apply Hundef|done]].
      destruct (Hvty kv Hkv) as (j & Hj & ? & ?). by eapply Hrsv. }
    { cbn [fst]. intros p Hp (j & Hj & H1 & H2)%elem_of_nn. destruct (pin_is_pin inst d p Hd Hp) as (i & Hi & Hty). assert (i = j) as -> by congruence. naive_solver. }
    pose proof (bb_instance_reg _ _ _ _ _ _ Hbi) as Hreg'. pose proof (bb_instance_dom _ _ _ _ _ _ Hbi) as Hdom'. cbn [fst snd] in *.
    assert (Hon : ∀ x, x ∈ onets d conns → ∃ p j, (p, x) ∈ conns ∧ p ∈ bb_out d ∧ p ∉ bb_in d ∧ g !! x = Some j ∧ n_ty j = Buf ∧ n_fi j = {[pin inst p]}).
    { intros x (kv & Hkv & Hp & ->)%elem_of_onets. destruct (Hcout kv Hkv Hp) as (Hpo & j & Hj & Htj & Hfj). exists kv.1, j. by destruct kv. }
    assert (Hold : ∀ x, x ∈ dom (r_g st) → x ∉ onets d conns → gb'.1 !! x = r_g st !! x).
    { intros x Hx Hno. apply Bold; [done|]. intros kv Hkv Hp ->. apply Hno. apply elem_of_onets. eauto. }
    exists {| r_g := gb'.1; r_bbs := gb'.2; r_ge := r_ge st; r_io := r_io st; r_ins := r_ins st; r_outs := r_outs st |}, (D ∪ onets d conns).
    split; [by apply c_item_bb|]. split; [|done]. split; cbn [r_g r_bbs].
    - (* Jb *) split.
      + intros y j Hy. destruct (Hdom' y) as [Hyd|[(p & Hp & ->)|(kv & Hkv & ->)]]; [apply elem_of_dom; eauto| | |].
        * apply elem_of_dom in Hyd as [j' Hj']. by eapply Jd.
        * right. destruct (pin_is_pin inst d p Hd Hp) as (i & Hi & _). apply elem_of_dom; eauto.
        * right. destruct (Hvty kv Hkv) as (j' & Hj' & _). apply elem_of_dom; eauto.
      + intros x Ht. rewrite Hold; [by apply Jt| |].
        * apply elem_of_dom. rewrite (Jt x Ht). apply elem_of_dom. by apply Hg0d.
        * intros (p & j & _ & _ & _ & Hj & _)%Hon. apply (ties_not_g x Ht). apply elem_of_dom; eauto.
      + intros x i Hi Hti. pose proof (Ji x i Hi Hti) as Hx. rewrite bool_decide_eq_true_2 in Hx |- * by (apply elem_of_inputs; eauto).
        rewrite Hold; [done|apply elem_of_dom; eauto|]. intros (p & j & _ & _ & _ & Hj & Htj & _)%Hon. congruence.
      + intros x i Hi Hti. case_bool_decide as HxP.
        * apply elem_of_union in HxP as [HxP|HxP].
          -- pose proof (Jp x i Hi Hti) as Hx. rewrite bool_decide_eq_true_2 in Hx by done. rewrite Hold; [done|apply elem_of_dom; eauto|].
             intros (p & j & _ & _ & _ & Hj & Htj & _)%Hon. assert (i = j) by congruence. subst. rewrite Htj in Hti. naive_solver.
          -- unfold pinset in HxP. apply elem_of_map in HxP as (p & -> & Hp). apply elem_of_union in Hp as [Hp|Hp].
             ++ rewrite (Bi p Hp). destruct (Rregi inst d p Hd Hp) as (i' & Hi' & Hti'). assert (i' = i) as -> by congruence. rewrite Hti'. do 2 f_equal.
                unfold in_fi. destruct (dict_get conns p) as [v|] eqn:Eg.
                ** apply dict_get_elem in Eg. destruct (Hcin _ Eg Hp) as (i2 & Hi2 & _ & Hf2). simpl in *. congruence.
                ** destruct (head_small (n_fi i) (Rbifi _ _ Hi Hti')) as [[E _]|(v & Ev & E)]; [done|]. exfalso.
                   assert (Hin : (p, v) ∈ conns). { apply elem_of_bb_conns. left. split; [by apply Hins|]. unfold fanin. by rewrite Hi. }
                   rewrite (dict_get_nodup conns p v Hndc Hin) in Eg. discriminate.
             ++ rewrite (Bo p Hp). destruct (Rrego inst d p Hd Hp) as (i' & Hi' & Hti'). assert (i' = i) as -> by congruence. rewrite Hti'. by rewrite (Rbofi _ _ Hi Hti').
        * apply not_elem_of_dom. intros Hxd. destruct (Hdom' x Hxd) as [Hyd|[(p & Hp & ->)|(kv & Hkv & ->)]].
          -- apply elem_of_dom in Hyd as [j Hj]. rewrite (Jp x i Hi Hti) in Hj. rewrite bool_decide_eq_false_2 in Hj by (intros ?; apply HxP; by apply elem_of_union_l). discriminate.
          -- apply HxP. apply elem_of_union_r. unfold pinset. apply elem_of_map. eauto.
          -- destruct (Hvty kv Hkv) as (j & Hj & ? & ?). assert (i = j) by congruence. subst. naive_solver.
      + intros x i Hi Hgt [HxD|HxD]%elem_of_union.
        * destruct (decide (x ∈ onets d conns)) as [Ho|Ho].
          -- exfalso. apply elem_of_onets in Ho as (kv & Hkv & Hp & ->). by apply (HvD kv Hkv Hp).
          -- rewrite Hold; [by apply Jdn| |done]. apply elem_of_dom. rewrite (Jdn x i Hi Hgt HxD). eauto.
        * apply Hon in HxD as (p & j & Hkv & Hpo & Hpi & Hj & Htj & Hfj). assert (i = j) by congruence. subst. pose proof (Bn (p, x) Hkv Hpi) as Hn. simpl in Hn. rewrite Hn. by rewrite Htj, Hfj.
      + intros x i Hi Hgt HxD. assert (HxD' : x ∉ D) by (intros ?; apply HxD; by apply elem_of_union_l). assert (Ho : x ∉ onets d conns) by (intros ?; apply HxD; by apply elem_of_union_r).
        destruct (Jto x i Hi Hgt HxD') as [E|E].
        * destruct (gb'.1 !! x) as [j|] eqn:Ej; [|by left]. right. destruct (Bnew x j Ej) as [Hold'|[->|[(p & Hp & ->)|(kv & Hkv & Hpi & ->)]]].
          -- congruence.
          -- done.
          -- exfalso. destruct (pin_is_pin inst d p Hd Hp) as (i' & Hi' & Hty). assert (i' = i) by congruence. subst. apply gate_not_pin in Hgt. naive_solver.
          -- exfalso. apply Ho. apply elem_of_onets. eauto.
        * right. rewrite Hold; [done|apply elem_of_dom; eauto|done].
    - by destruct HG' as (Hcl' & _).
    - intros x. rewrite elem_of_union, HP. unfold pinset. rewrite elem_of_map. split.
      + intros [(i' & d' & p' & HB' & Hd' & Hp' & ->)|(p & -> & Hp)].
        * exists i', d', p'. split; [by apply elem_of_union_r|done].
        * exists inst, d, p. split; [apply elem_of_union_l; by apply elem_of_singleton|done].
      + intros (i' & d' & p' & [->%elem_of_singleton|HB']%elem_of_union & Hd' & Hp' & ->).
        * right. assert (d' = d) as -> by congruence. eauto.
        * left. exists i', d', p'. done.
    - intros x i Hi Hgt. rewrite elem_of_union, (HD x i Hi Hgt). split.
      + intros [(q & Hq & Hqf)|Ho].
        * exists q. split; [by apply elem_of_union_l|done].
        * apply Hon in Ho as (p & j & Hkv & Hpo & Hpi & Hj & Htj & Hfj). assert (i = j) by congruence. subst. exists (pin inst p). split; [|rewrite Hfj; by apply elem_of_singleton].
          apply elem_of_union_r. unfold pinset. apply elem_of_map. exists p. split; [done|by apply elem_of_union_r].
      + intros (q & [Hq|Hq]%elem_of_union & Hqf); [left; eauto|]. right. unfold pinset in Hq. apply elem_of_map in Hq as (p & -> & Hp).
        apply elem_of_union in Hp as [Hp|Hp].
        * exfalso. destruct (Rregi inst d p Hd Hp) as (ip & Hip & Htp). by apply (Rbifo _ _ _ _ Hip Htp Hi).
        * apply elem_of_onets. exists (p, x). split; [by eapply Hcfo|]. split; [intros ?; by apply (Hdisj p)|done].
    - intros i. rewrite Hreg'. destruct (decide (i = inst)) as [->|Hne].
      + rewrite lookup_insert, bool_decide_eq_true_2 by (apply elem_of_union_l; by apply elem_of_singleton). done.
      + rewrite lookup_insert_ne by done. rewrite Hreg. rewrite (bool_decide_ext (i ∈ {[inst]} ∪ B) (i ∈ B)) by (rewrite elem_of_union, elem_of_singleton; naive_solver). done.
  Qed.

  Lemma read_input_b st n I D P : Jb I D P (r_g st) → n ∈ inputs g → n ∉ I →
    ∃ st', c_item k st (IInput [n]) = Ok st' ∧ Jb ({[n]} ∪ I) D P (r_g st') ∧ r_bbs st' = r_bbs st ∧ r_ge st' = r_ge st ∧ r_io st' = r_io st ∧
           r_ins st' = r_ins st ∪ {[n]} ∧ r_outs st' = r_outs st.
  Proof.
    intros HJ Hn HnI. pose proof HJ as [Jd Jt Ji Jp Jdn Jto]. apply elem_of_inputs in Hn as (i & Hi & Hti).
    assert (Hgn : good_name n) by (apply (rb_names _ _ HC), elem_of_dom; eauto).
    assert (Hgr : r_g st !! n = None). { rewrite (Ji n i Hi Hti). by rewrite bool_decide_eq_false_2. }
    eexists. split.
    { cbn [c_item rfold]. unfold add_node, lift. rewrite (add_input_ok (r_g st) n Hgn). cbn. done. }
    split; [|split; [done|split; [done|split; [done|split; [|done]]]]].
    - cbn [r_g]. assert (Hf0 : fanin (r_g st) n = ∅) by (unfold fanin; by rewrite Hgr). rewrite Hf0. split.
      + intros x j Hx. apply lookup_insert_Some in Hx as [[<- _]|[_ Hx]]; [right; apply elem_of_dom; eauto|by eapply Jd].
      + intros x Hx. rewrite lookup_insert_ne; [by apply Jt|]. intros <-. apply (ties_not_g n Hx). apply elem_of_dom; eauto.
      + intros x i' Hi' Ht'. destruct (decide (x = n)) as [->|Hne].
        * rewrite lookup_insert. rewrite bool_decide_eq_true_2 by (apply elem_of_union_l; by apply elem_of_singleton). done.
        * rewrite lookup_insert_ne by done. rewrite (Ji x i' Hi' Ht'). apply (f_equal (λ b : bool, if b then _ else _)). apply bool_decide_ext.
          rewrite elem_of_union, elem_of_singleton. naive_solver.
      + intros x i' Hi' Ht'. rewrite lookup_insert_ne; [by apply Jp|]. intros <-. assert (i' = i) as -> by congruence. rewrite Hti in Ht'. naive_solver.
      + intros x i' Hi' Ht' HD. rewrite lookup_insert_ne; [by apply Jdn|]. intros <-. assert (i' = i) as -> by congruence. apply gate_not_pin in Ht'. naive_solver.
      + intros x i' Hi' Ht' HD. rewrite lookup_insert_ne; [by eapply Jto|]. intros <-. assert (i' = i) as -> by congruence. apply gate_not_pin in Ht'. naive_solver.
    - cbn. clear. set_solver.
  Qed.

  Lemma read_gate_b st inst n i fi D P : Jb (inputs g) D P (r_g st) → (∀ x, x ∈ P → ∃ i, g !! x = Some i ∧ (n_ty i = BbIn ∨ n_ty i = BbOut)) →
    g !! n = Some i → n_ty i ∈ gate_types → n ∉ D → NoDup fi → list_to_set fi = n_fi i → fi ≠ [] →
    (∀ f j, f ∈ fi → g !! f = Some j → n_ty j ≠ BbIn ∧ n_ty j ≠ BbOut) →
    ∃ st', c_item k st (IInst (prim_name (n_ty i)) [(inst, Positional (cid n :: (cid <$> fi)))]) = Ok st' ∧ Jb (inputs g) ({[n]} ∪ D) P (r_g st') ∧
           same_meta st st'.
  Proof.
    intros HJ HPg Hi Hgt HnD Hnd Hfi Hne Hops. pose proof HJ as [Jd Jt Ji Jp Jdn Jto].
    pose proof HC as [Rty Rin Rgate Rsingle Rnames Rcl Rnodot Rpreg Rregi Rrego Rbifi Rbofi Rbofo Rbofo1 Rbifo Rapart Rinst Rdefs].
    assert (Hfd : ∀ f, f ∈ fi → f ∈ dom g). { intros f Hf. eapply Rcl; [exact Hi|]. rewrite <- Hfi. by apply elem_of_list_to_set. }
    assert (Hf0 : fanin (r_g st) n = ∅). { unfold fanin. destruct (Jto n i Hi Hgt HnD) as [E|E]; rewrite E; done. }
    pose proof (Jb_sinv _ _ _ _ HJ HPg) as HS.
    destruct (prim_instance_ok_x k (n_ty i) (r_g st) inst n fi) as [g' Hg']; try done.
    { apply Rnames, elem_of_dom; eauto. }
    { apply Forall_forall. intros f Hf. right. by apply Rnames, Hfd. }
    { intros Hb. specialize (Rsingle n i Hi Hb). rewrite <- Hfi in Rsingle. rewrite size_list_to_set in Rsingle by done. done. }
    { intros u j Hu Hj. apply (sinv_nopin P (r_g st) u j HS); [|done]. apply Hfd in Hu as Hud. apply elem_of_dom in Hud as [j' Hj'].
      destruct (Hops u j' Hu Hj'). by eapply Rnodot. }
    destruct (prim_instance_exact k (n_ty i) (r_g st) inst n fi g' Hg' Hnd Hne) as [Hl Hx].
    eexists. split; [by apply c_item_gate|]. split; [|done]. cbn [r_g]. split.
    - intros x j Hxj. destruct (decide (x = n)) as [->|Hxn]; [right; apply elem_of_dom; eauto|].
      destruct (Hx x Hxn) as [E|(_ & Hf & _)]; [rewrite E in Hxj; by eapply Jd|right; by apply Hfd].
    - intros x Hxt. assert (Hxn : x ≠ n) by (intros ->; apply (ties_not_g n Hxt); apply elem_of_dom; eauto).
      destruct (Hx x Hxn) as [E|(_ & Hf & _)]; [rewrite E; by apply Jt|]. exfalso. apply (ties_not_g x Hxt). by apply Hfd.
    - intros x i' Hi' Ht'. assert (Hxn : x ≠ n) by (intros ->; assert (i' = i) as -> by congruence; apply gate_not_pin in Hgt; naive_solver).
      assert (HxI : x ∈ inputs g) by (apply elem_of_inputs; eauto).
      pose proof (Ji x i' Hi' Ht') as Hold. rewrite bool_decide_eq_true_2 in Hold |- * by done.
      destruct (Hx x Hxn) as [E|(E & _)]; [by rewrite E|congruence].
    - intros x i' Hi' Ht'. assert (Hxn : x ≠ n) by (intros ->; assert (i' = i) as -> by congruence; apply gate_not_pin in Hgt; naive_solver).
      destruct (Hx x Hxn) as [E|(_ & Hf & _)]; [rewrite E; by apply Jp|]. exfalso. destruct (Hops x i' Hf Hi'). naive_solver.
    - intros x i' Hi' Ht' HD. destruct (decide (x = n)) as [->|Hxn].
      + assert (i' = i) as -> by congruence. rewrite Hl, Hf0, Hfi. do 2 f_equal. apply union_empty_l_L.
      + assert (HD' : x ∈ D) by (apply elem_of_union in HD as [?%elem_of_singleton|?]; done). pose proof (Jdn x i' Hi' Ht' HD') as Hold.
        destruct (Hx x Hxn) as [E|(E & _)]; [by rewrite E|congruence].
    - intros x i' Hi' Ht' HD. assert (Hxn : x ≠ n) by (intros ->; apply HD, elem_of_union_l; by apply elem_of_singleton). assert (HD' : x ∉ D) by (intros ?; apply HD; by apply elem_of_union_r).
      destruct (Hx x Hxn) as [E|(_ & _ & E)]; [rewrite E; by eapply Jto|by right].
  Qed.

  Lemma read_inputs_b l : ∀ st I, Jb I ∅ ∅ (r_g st) → NoDup l → (∀ n, n ∈ l → n ∈ inputs g ∧ n ∉ I) →
    ∃ st', rfold (c_item k) st ((λ n, IInput [n]) <$> l) = Ok st' ∧ Jb (list_to_set l ∪ I) ∅ ∅ (r_g st') ∧
           r_bbs st' = r_bbs st ∧ r_ge st' = r_ge st ∧ r_io st' = r_io st ∧ r_ins st' = r_ins st ∪ list_to_set l ∧ r_outs st' = r_outs st.
  Proof.
    induction l as [|n l IH]; intros st I HJ Hnd Hl.
    - exists st. split; [done|]. split; [by rewrite lts_nil_union|]. repeat (split; [done|]). split; [apply lts_union_nil|done].
    - apply NoDup_cons in Hnd as [Hn Hnd]. destruct (Hl n) as [Hin HnI]; [by left|].
      destruct (read_input_b st n I ∅ ∅ HJ Hin HnI) as (st1 & H1 & J1 & B1 & G1 & O1 & I1 & U1).
      destruct (IH st1 ({[n]} ∪ I) J1 Hnd) as (st' & H2 & J2 & B2 & G2 & O2 & I2 & U2).
      { intros n' Hn'. destruct (Hl n') as [? ?]; [by right|]. split; [done|]. intros [->%elem_of_singleton|?]%elem_of_union; done. }
      exists st'. split; [rewrite fmap_cons; cbn [rfold]; rewrite H1; exact H2|].
      split; [by rewrite lts_cons_union|].
      split; [congruence|]. split; [congruence|]. split; [congruence|]. split; [rewrite I2, I1; apply lts_union_cons|congruence].
  Qed.

  Definition bb_item (x : string * list string * list string) : option item := (λ d, bb_stmt g d x.1.1 x.1.2 x.2) <$> bbs !! x.1.1.
  Lemma read_bbs l : ∀ st B D P, Kb B D P st → NoDup l.*1.*1 →
    (∀ x : string * list string * list string, x ∈ l → x.1.1 ∉ B ∧ ∃ d, bbs !! x.1.1 = Some d ∧ NoDup x.1.2 ∧ list_to_set x.1.2 = bb_in d ∧ NoDup x.2 ∧
        list_to_set x.2 = bb_out d ∧ find_bb k (bb_name d) = Some d) →
    ∃ st' D' P', rfold (c_item k) st (omap bb_item l) = Ok st' ∧ Kb (list_to_set l.*1.*1 ∪ B) D' P' st' ∧
       r_ge st' = r_ge st ∧ r_io st' = r_io st ∧ r_ins st' = r_ins st ∧ r_outs st' = r_outs st.
  Proof.
    induction l as [|x l IH]; intros st B D P HK Hnd Hl.
    - exists st, D, P. split; [done|]. rewrite !fmap_nil, lts_nil_union. done.
    - rewrite !fmap_cons in Hnd. apply NoDup_cons in Hnd as [Hx Hnd]. destruct (Hl x) as (HxB & d & Hd & N1 & E1 & N2 & E2 & Hfb); [by left|].
      destruct (read_bb st x.1.1 d x.1.2 x.2 B D P HK Hd HxB N1 E1 N2 E2 Hfb) as (st1 & D1 & H1 & K1 & G1 & O1 & I1 & U1).
      destruct (IH st1 ({[x.1.1]} ∪ B) D1 (P ∪ pinset d x.1.1) K1 Hnd) as (st' & D' & P' & H2 & K2 & G2 & O2 & I2 & U2).
      { intros y Hy. destruct (Hl y) as (HyB & Hr); [by right|]. split; [|done].
        intros [E%elem_of_singleton|?]%elem_of_union; [|done]. apply Hx. rewrite <- E. apply elem_of_list_fmap. exists y.1. split; [done|]. apply elem_of_list_fmap. eauto. }
      exists st', D', P'. split; [|split].
      + cbn [omap list_omap]. unfold bb_item at 1. rewrite Hd. cbn [fmap option_fmap option_map rfold]. rewrite H1. exact H2.
      + rewrite !fmap_cons, lts_cons_union. done.
      + repeat split; congruence.
  Qed.

  Lemma read_stmts_b l : ∀ st j D P, Jb (inputs g) D P (r_g st) → (∀ x, x ∈ P → ∃ i, g !! x = Some i ∧ (n_ty i = BbIn ∨ n_ty i = BbOut)) → NoDup l.*1 →
    (∀ x : string * list string, x ∈ l → ∃ i, g !! x.1 = Some i ∧ n_ty i ∈ gate_types ∧ NoDup x.2 ∧
       ((x.2 = [] ∧ x.1 ∈ D) ∨ (x.1 ∉ D ∧ list_to_set x.2 = n_fi i ∧ x.2 ≠ [] ∧ ∀ f j, f ∈ x.2 → g !! f = Some j → n_ty j ≠ BbIn ∧ n_ty j ≠ BbOut))) →
    ∃ st', rfold (c_item k) st (stmts g j l) = Ok st' ∧ Jb (inputs g) (list_to_set l.*1 ∪ D) P (r_g st') ∧ same_meta st st'.
  Proof.
    induction l as [|x l IH]; intros st j D P HJ HPg Hnd Hl.
    - exists st. split; [done|]. split; [by rewrite fmap_nil, lts_nil_union|]. by repeat split.
    - rewrite fmap_cons in Hnd. apply NoDup_cons in Hnd as [Hx Hnd]. destruct (Hl x) as (i & Hi & Hgt & Hnf & Hcase); [by left|].
      assert (Hnc : n_ty i ∉ const_types) by (by apply gate_nc).
      destruct Hcase as [[E2 HxD]|(HxD & Hfs & Hne & Hops)].
      + destruct (IH st j D P HJ HPg Hnd) as (st' & H2 & J2 & M2).
        { intros y Hy. apply Hl. by right. }
        exists st'. split; [|split; [|done]].
        * cbn [stmts]. rewrite Hi. unfold gate_stmt. rewrite bool_decide_eq_false_2 by done. rewrite E2. exact H2.
        * rewrite fmap_cons. assert (Es : list_to_set (x.1 :: l.*1) ∪ D = list_to_set l.*1 ∪ D) by (clear -HxD; set_solver). by rewrite Es.
      + destruct (read_gate_b st (uid g ("g_" ++ pretty j)) x.1 i x.2 D P HJ HPg Hi Hgt HxD Hnf Hfs Hne Hops) as (st1 & H1 & J1 & B1 & G1 & O1 & I1 & U1).
        destruct (IH st1 (S j) ({[x.1]} ∪ D) P J1 HPg Hnd) as (st' & H2 & J2 & B2 & G2 & O2 & I2 & U2).
        { intros y Hy. destruct (Hl y) as (i' & Hi' & Hgt' & Hnf' & Hcase'); [by right|]. exists i'. split; [done|]. split; [done|]. split; [done|].
          destruct Hcase' as [[? ?]|(HyD & Hr)]; [left; split; [done|by apply elem_of_union_r]|right]. split; [|done].
          intros [E%elem_of_singleton|?]%elem_of_union; [|done]. apply Hx. rewrite <- E. apply elem_of_list_fmap. exists y. done. }
        exists st'. split; [|split].
        * cbn [stmts]. rewrite Hi. unfold gate_stmt. rewrite bool_decide_eq_false_2 by done.
          destruct x.2 as [|f r] eqn:E2; [done|]. cbn [rfold]. rewrite H1. exact H2.
        * by rewrite fmap_cons, lts_cons_union.
        * unfold same_meta. repeat split; congruence.
  Qed.
End rtbb.


(* ------------------------------------------------------------------ roundtrip_identical with blackbox instances *)
Lemma init_ties_dom rsv bbs : ∀ t, t ∈ ties (init_ctx rsv bbs).1 → t ∈ dom (init_ctx rsv bbs).2.
Proof.
  pose proof (init_rinv rsv bbs) as H. cbv zeta in H. destruct H as (_ & _ & _ & _ & _ & _ & H).
  destruct (H ∅ (empty_subseteq _)) as [(_ & Hd & _) _ _ _ _ _]. intros t Ht. by apply Hd.
Qed.

Theorem roundtrip_identical_bb C π m rsv bbl : rtb_clean (c_g C) (c_bbs C) →
  (∀ inst d, c_bbs C !! inst = Some d → find_def bbl (bb_name d) = Some d) →
  write C false π = Ok m → (list_to_set (module_ids m) : gset string) ⊆ rsv → read rsv bbl m = Ok C.
Proof.
  intros HC Hfd Hw Hids. pose proof HC as [Rty Rin Rgate Rsingle Rnames Rcl Rnodot Rpreg Rregi Rrego Rbifi Rbofi Rbofo Rbofo1 Rbifo Rapart Rinst Rdefs].
  destruct (write_inv_bb C π m Hw) as (Ni & Ei & No & Eo & Nn & En & Ef & Ff & Nb & Eb & Fb & ->).
  set (g := c_g C) in *. set (bbs := c_bbs C) in *.
  assert (Hgt : ∀ x, x ∈ of_type g (λ t, bool_decide (t ∈ gate_types) || bool_decide (t ∈ const_types)) ↔ ∃ i, g !! x = Some i ∧ n_ty i ∈ gate_types).
  { intros x. rewrite elem_of_of_type. split.
    - intros (i & Hi & Ht). exists i. split; [done|]. destruct (Rty x i Hi) as [E|[?|[E|E]]]; [|done| |]; rewrite E in Ht; done.
    - intros (i & Hi & Ht). exists i. split; [done|]. by rewrite bool_decide_eq_true_2. }
  assert (Hdr : ∀ x j, g !! x = Some j → n_ty j ≠ BbIn → n_ty j ≠ BbOut → x ∈ rsv).
  { intros x i Hi H1 H2. apply Hids. apply elem_of_list_to_set. unfold module_ids. cbn [m_name m_ports m_items]. right.
    destruct (Rty x i Hi) as [E|[E|[E|E]]]; [| |done|done].
    - apply elem_of_app. left. apply elem_of_app. left. apply (proj1 (elem_of_list_to_set (C:=gset string) x (o_ins π))). rewrite Ei. apply elem_of_inputs. eauto.
    - apply elem_of_app. right. apply elem_of_list_bind. exists (IWire [x]). split; [simpl; by left|].
      apply elem_of_app. right. apply elem_of_app. right. apply elem_of_app. left. apply elem_of_list_fmap. exists x. split; [done|].
      apply (proj1 (elem_of_list_to_set (C:=gset string) x (o_nodes π))). rewrite En. apply Hgt. eauto. }
  unfold read. pose proof (init_g0 rsv bbl) as Hk. pose proof (init_nodot rsv bbl) as Htn. pose proof (init_ties_dom rsv bbl) as Htd.
  pose proof (init_rinv rsv bbl) as Hkb. cbv zeta in Hk, Hkb. destruct Hkb as (_ & Ekb & _).
  destruct (init_ctx rsv bbl) as [k g0]. cbn [fst snd] in Hk, Htn, Htd, Ekb.
  destruct Hk as (Er & Htr & Hg0). subst rsv. cbn [m_items m_name m_ports].
  assert (Hfb : ∀ inst d, bbs !! inst = Some d → find_bb k (bb_name d) = Some d) by (intros inst d Hd; unfold find_bb; rewrite Ekb; by eapply Hfd).
  set (st0 := {| r_g := g0; r_bbs := ∅; r_ge := ∅; r_io := list_to_set (o_ins π ++ o_outs π); r_ins := ∅; r_outs := ∅ |}).
  assert (Htg : ∀ x, x ∈ ties k → x ∈ dom g → False) by (apply (ties_not_g k g g0 bbs Htr Hdr Htn Hg0 Htd HC)).
  assert (J0 : Jb k g g0 ∅ ∅ ∅ (r_g st0)).
  { simpl. split.
    - intros x j Hx. left. by destruct (Hg0 x j Hx).
    - done.
    - intros x i Hi _. rewrite bool_decide_eq_false_2 by set_solver. destruct (g0 !! x) as [j|] eqn:Ej; [|done]. exfalso.
      destruct (Hg0 x j Ej) as (Ht & _). apply (Htg x Ht). apply elem_of_dom; eauto.
    - intros x i Hi _. rewrite bool_decide_eq_false_2 by set_solver. destruct (g0 !! x) as [j|] eqn:Ej; [|done]. exfalso.
      destruct (Hg0 x j Ej) as (Ht & _). apply (Htg x Ht). apply elem_of_dom; eauto.
    - intros x i _ _ Hx. set_solver.
    - intros x i Hi _ _. left. destruct (g0 !! x) as [j|] eqn:Ej; [|done]. exfalso.
      destruct (Hg0 x j Ej) as (Ht & _). apply (Htg x Ht). apply elem_of_dom; eauto. }
  destruct (read_inputs_b k g g0 bbs Htr Hdr Htn Hg0 Htd HC (o_ins π) st0 ∅ J0 Ni) as (st1 & H1 & J1 & B1 & G1 & O1 & I1 & U1).
  { intros n Hn. split; [|set_solver]. rewrite <- Ei. by apply elem_of_list_to_set. }
  rewrite union_empty_r_L, Ei in J1.
  destruct (read_outputs k (o_outs π) st1) as (st2 & H2 & E2 & B2 & G2 & O2 & I2 & U2).
  rewrite <- E2 in J1.
  assert (K2 : Kb k g g0 bbs ∅ ∅ ∅ st2).
  { split; [done|by eapply (Jb_closed0 k g g0 bbs Htr Hdr Htn Hg0 Htd HC)| | |].
    - intros x. split; [set_solver|]. intros (inst & _ & _ & Hi & _). set_solver.
    - intros x i _ _. split; [set_solver|]. intros (q & Hq & _). set_solver.
    - intros i. rewrite B2, B1. simpl. rewrite lookup_empty. by rewrite bool_decide_eq_false_2 by set_solver. }
  destruct (read_bbs k g g0 bbs Htr Hdr Htn Hg0 Htd HC (o_bbs π) st2 ∅ ∅ ∅ K2 Nb) as (st3 & D3 & P3 & H3 & K3 & G3 & O3 & I3 & U3).
  { intros x Hx. split; [set_solver|]. rewrite Forall_forall in Fb. destruct (Fb x Hx) as (d & Hd & ? & ? & ? & ?). exists d. repeat (split; [done|]). by eapply Hfb. }
  rewrite union_empty_r_L, Eb in K3. destruct K3 as [J3 _ HP3 HD3 Hreg3].
  assert (HPg : ∀ x, x ∈ P3 → ∃ i, g !! x = Some i ∧ (n_ty i = BbIn ∨ n_ty i = BbOut)).
  { intros x (inst & d & p & _ & Hd & Hp & ->)%HP3. by eapply (pin_is_pin k g g0 bbs Htr Hdr Htn Hg0 Htd HC). }
  assert (HP3' : ∀ x i, g !! x = Some i → n_ty i = BbIn ∨ n_ty i = BbOut → x ∈ P3).
  { intros x i Hi Hty. destruct (Rpreg x i Hi Hty) as (inst & d & p & Hd & -> & Hp). apply HP3. exists inst, d, p. split; [apply elem_of_dom; eauto|done]. }
  destruct (read_stmts_b k g g0 bbs Htr Hdr Htn Hg0 Htd HC (o_fi π) st3 (length (bbst C π)) D3 P3 J3 HPg) as (st4 & H4 & J4 & B4 & G4 & O4 & I4 & U4).
  { by rewrite Ef. }
  { intros x Hx. assert (Hx1 : x.1 ∈ o_nodes π) by (rewrite <- Ef; apply elem_of_list_fmap; eauto).
    apply (proj2 (elem_of_list_to_set (C:=gset string) x.1 (o_nodes π))) in Hx1. rewrite En in Hx1. apply Hgt in Hx1 as (i & Hi & Ht). exists i. split; [done|]. split; [done|].
    rewrite Forall_forall in Ff. destruct (Ff x Hx) as [Hnd Hfs]. split; [done|]. unfold fanin in Hfs. rewrite Hi in Hfs. simpl in Hfs.
    destruct (decide (x.1 ∈ D3)) as [HxD|HxD].
    - left. split; [|done]. apply (HD3 _ _ Hi Ht) in HxD as (q & Hq & Hqf). destruct (HPg q Hq) as (iq & Hiq & [Hty|Hty]); [exfalso; exact (Rbifo _ _ _ _ Hiq Hty Hi Hqf)|].
      assert (Hb : n_ty i = Buf) by (by eapply Rbofo). assert (Es : n_fi i = {[q]}) by (apply size1_elem; [apply (Rsingle _ _ Hi); by left|done]).
      assert (Hqo : q ∈ of_type g (is_ty BbOut)) by (apply elem_of_of_type; exists iq; split; [done|]; rewrite Hty; done).
      destruct x.2 as [|f r]; [done|]. exfalso. assert (Hf : f ∈ n_fi i ∖ of_type g (is_ty BbOut)) by (rewrite <- Hfs; set_solver).
      rewrite Es in Hf. clear -Hf Hqo. set_solver.
    - right. split; [done|].
      assert (Hops : ∀ f j, f ∈ n_fi i → g !! f = Some j → n_ty j ≠ BbIn ∧ n_ty j ≠ BbOut).
      { intros f j Hf Hj. destruct (decide (n_ty j = BbIn ∨ n_ty j = BbOut)) as [Hp|Hp]; [|naive_solver]. exfalso. apply HxD. apply (HD3 _ _ Hi Ht). exists f. split; [by eapply HP3'|done]. }
      assert (Hfs' : list_to_set x.2 = n_fi i).
      { rewrite Hfs. apply set_eq. intros f. rewrite elem_of_difference. split; [by intros [? _]|]. intros Hf. split; [done|].
        intros (j & Hj & Htj)%elem_of_of_type. destruct (Hops f j Hf Hj) as [_ Hn]. apply Hn. unfold is_ty in Htj. by apply bool_decide_eq_true in Htj. }
      split; [done|]. split.
      + intros E. rewrite E in Hfs'. simpl in Hfs'. by apply (Rgate x.1 i Hi Ht).
      + intros f j Hf Hj. apply (Hops f j); [|done]. rewrite <- Hfs'. by apply elem_of_list_to_set. }
  rewrite Ef, En in J4.
  rewrite rfold_app, H1. cbn [rbind]. rewrite rfold_app, H2. cbn [rbind]. rewrite rfold_app, (read_wires k (o_nodes π) st2). cbn [rbind].
  rewrite rfold_app. change (omap (bb_item g bbs) (o_bbs π)) with (bbst C π) in H3. rewrite H3. cbn [rbind]. rewrite H4. cbn [mbind res_mbind rbind].
  (* module() *)
  assert (Eins : r_ins st4 = inputs g). { rewrite I4, I3, I2, I1. cbn. rewrite Ei. clear. set_solver. }
  assert (Eouts : r_outs st4 = outputs g). { rewrite U4, U3, U2, U1. cbn. rewrite Eo. clear. set_solver. }
  assert (Eio : r_io st4 = inputs g ∪ outputs g). { rewrite O4, O3, O2, O1. cbn. rewrite list_to_set_app_L, Ei, Eo. done. }
  assert (Ebb : r_bbs st4 = bbs).
  { rewrite B4. apply map_eq. intros i. rewrite Hreg3. case_bool_decide as Hi; [done|]. symmetry. by apply not_elem_of_dom. }
  destruct J4 as [Jd Jt Ji Jp Jdn Jto].
  assert (Hnode : ∀ x i, g !! x = Some i → r_g st4 !! x = Some (mk_node (n_ty i) false (n_fi i))).
  { intros x i Hi. destruct (Rty x i Hi) as [E|[E|E]].
    - rewrite (Ji x i Hi E). rewrite bool_decide_eq_true_2 by (apply elem_of_inputs; eauto). by rewrite E, (Rin x i Hi E).
    - apply Jdn; [done|done|]. apply elem_of_union_l. apply Hgt. eauto.
    - rewrite (Jp x i Hi E). by rewrite bool_decide_eq_true_2 by (by eapply HP3'). }
  assert (Hfis : ∀ x j, r_g st4 !! x = Some j → ∀ f, f ∈ n_fi j → f ∈ dom g).
  { intros x j Hx f Hf. destruct (Jd x j Hx) as [Ht|Hd].
    - rewrite (Jt x Ht) in Hx. destruct (Hg0 x j Hx) as (_ & _ & E). rewrite E in Hf. by apply elem_of_empty in Hf.
    - apply elem_of_dom in Hd as [i Hi]. rewrite (Hnode x i Hi) in Hx. injection Hx as <-. simpl in Hf. by eapply Rcl. }
  unfold finish. rewrite Eins, Eouts, Eio.
  rewrite (bool_decide_eq_true_2 (inputs g ⊆ inputs g ∪ outputs g)) by (clear; set_solver).
  rewrite (bool_decide_eq_true_2 (outputs g ⊆ inputs g ∪ outputs g)) by (clear; set_solver).
  rewrite (bool_decide_eq_true_2 (inputs g ∪ outputs g ⊆ inputs g ∪ outputs g)) by done. cbn [negb].
  destruct (set_output_ok (elements (outputs g)) (r_g st4)) as [g' Hso].
  { intros x Hx. apply elem_of_elements, elem_of_outputs in Hx as (i & Hi & _). apply elem_of_dom. rewrite (Hnode x i Hi). eauto. }
  rewrite Hso. destruct (set_output_spec _ _ _ Hso) as [_ Hl].
  fold (drop_tie g' (k_t0 k)). fold (drop_tie (drop_tie g' (k_t0 k)) (k_t1 k)). fold (drop_tie (drop_tie (drop_tie g' (k_t0 k)) (k_t1 k)) (k_tx k)).
  assert (Hno : ∀ t, t ∈ ties k → ∀ x i, g' !! x = Some i → t ∉ n_fi i).
  { intros t Ht x i' Hx Hin'. rewrite Hl in Hx. destruct (r_g st4 !! x) as [j|] eqn:Ej; [|discriminate]. simpl in Hx.
    assert (Hfe : n_fi i' = n_fi j) by (case_bool_decide; injection Hx as <-; done). rewrite Hfe in Hin'.
    apply (Htg t Ht). by eapply Hfis. }
  rewrite (drop_tie_delete g' (k_t0 k)) by (apply Hno; unfold ties; clear; set_solver).
  rewrite (drop_tie_delete _ (k_t1 k)).
  2: { intros x i [_ Hx]%lookup_delete_Some. eapply Hno; [|exact Hx]. unfold ties. clear. set_solver. }
  rewrite (drop_tie_delete _ (k_tx k)).
  2: { intros x i [_ [_ Hx]%lookup_delete_Some]%lookup_delete_Some. eapply Hno; [|exact Hx]. unfold ties. clear. set_solver. }
  f_equal. destruct C as [nm gC bC]. simpl in *. rewrite Ebb. f_equal.
  apply map_eq. intros x. destruct (decide (x ∈ ties k)) as [Ht|Ht].
  - assert (Hgx : g !! x = None). { apply not_elem_of_dom. intros Hd. by apply (Htg x Ht). }
    fold g. rewrite Hgx. destruct (delete (k_tx k) _ !! x) as [i|] eqn:E; [|done]. exfalso.
    apply lookup_delete_Some in E as [N1 E]. apply lookup_delete_Some in E as [N2 E]. apply lookup_delete_Some in E as [N3 E].
    unfold ties in Ht. clear -Ht N1 N2 N3. set_solver.
  - assert (N1 : k_tx k ≠ x) by (intros <-; apply Ht; unfold ties; clear; set_solver).
    assert (N2 : k_t1 k ≠ x) by (intros <-; apply Ht; unfold ties; clear; set_solver).
    assert (N3 : k_t0 k ≠ x) by (intros <-; apply Ht; unfold ties; clear; set_solver).
    rewrite !lookup_delete_ne by done. rewrite Hl. fold g. destruct (g !! x) as [i|] eqn:Hi.
    + rewrite (Hnode x i Hi). simpl. destruct (n_out i) eqn:Eout.
      * rewrite bool_decide_eq_true_2 by (apply elem_of_elements, elem_of_outputs; eauto). destruct i as [ti oi fi]. simpl in *. by subst oi.
      * rewrite bool_decide_eq_false_2.
        { destruct i as [ti oi fi]. simpl in *. by subst oi. }
        intros (i' & Hi' & Ho')%elem_of_elements%elem_of_outputs. congruence.
    + destruct (r_g st4 !! x) as [j|] eqn:Ej; [|done]. exfalso. destruct (Jd x j Ej) as [?|Hd]; [done|]. apply elem_of_dom in Hd as [? ?]. congruence.
Qed.


(* ------------------------------------------------------------------ the hypotheses from lint *)
Lemma lint_node_facts C f n i : Lint.lint C f = Ok () → c_g C !! n = Some i →
  n_ty i ∈ Gen_types.supported_types ∧
  (n_ty i ∈ Gen_lint.zero_input_types → size (n_fi i) = 0) ∧ (n_ty i ∈ Gen_lint.single_input_types → size (n_fi i) ≤ 1) ∧
  (n_ty i = BbOut → size (fanout (c_g C) n) ≤ 1) ∧
  (n_ty i = BbOut → ∀ m, m ∈ fanout (c_g C) n → ty (c_g C) m = Some Buf).
Proof.
  intros Hl Hi.
  assert (Hnb : Lint.node_bad Lint.gen_tables C f n i = false).
  { unfold Lint.lint, Lint.lint_with in Hl. destruct (existsb _ (map_to_list (c_g C)) || _) eqn:E; [discriminate|].
    apply orb_false_elim in E as [E _]. apply (ComposeProofs.existsb_false _ _ E (n, i)). by apply elem_of_map_to_list. }
  unfold Lint.node_bad, Lint.node_rules in Hnb. cbn [existsb id] in Hnb.
  apply orb_false_elim in Hnb as [R1 Hnb]. apply orb_false_elim in Hnb as [R2 Hnb]. apply orb_false_elim in Hnb as [R3 Hnb].
  apply orb_false_elim in Hnb as [R4 Hnb]. apply orb_false_elim in Hnb as [R5 Hnb]. apply orb_false_elim in Hnb as [R6 Hnb].
  apply orb_false_elim in Hnb as [R7 _].
  unfold Lint.inl in *. cbn [Lint.supported_types Lint.zero_input_types Lint.single_input_types Lint.gen_tables] in *.
  split; [|split; [|split; [|split]]].
  - apply andb_false_iff in R2 as [Hy|Hy].
    + by apply negb_false_iff, bool_decide_eq_true in Hy.
    + exfalso. rewrite R1 in Hy. discriminate.
  - intros Hz. apply andb_false_iff in R4 as [Hy|Hy]; [by apply bool_decide_eq_false in Hy|]. apply Nat.ltb_ge in Hy. lia.
  - intros Hz. apply andb_false_iff in R7 as [Hy|Hy]; [by apply bool_decide_eq_false in Hy|]. apply Nat.ltb_ge in Hy. lia.
  - intros Hz. apply andb_false_iff in R5 as [Hy|Hy]; [by apply bool_decide_eq_false in Hy|]. apply Nat.ltb_ge in Hy. lia.
  - intros Hz m Hm. apply andb_false_iff in R6 as [Hy|Hy]; [by apply bool_decide_eq_false in Hy|].
    pose proof (ComposeProofs.existsb_false _ _ Hy m) as Hf. cbv beta in Hf. specialize (Hf ltac:(by apply elem_of_elements)).
    by apply negb_false_iff, bool_decide_eq_true in Hf.
Qed.
Lemma lint_bb_facts C f inst d : Lint.lint C f = Ok () → c_bbs C !! inst = Some d →
  (∀ p, p ∈ bb_in d → ty (c_g C) (pin inst p) = Some BbIn) ∧ (∀ p, p ∈ bb_out d → ty (c_g C) (pin inst p) = Some BbOut).
Proof.
  intros Hl Hd.
  assert (Hnb : Lint.bb_bad C inst d = false).
  { unfold Lint.lint, Lint.lint_with in Hl. destruct (_ || existsb _ (map_to_list (c_bbs C))) eqn:E; [discriminate|].
    apply orb_false_elim in E as [_ E]. apply (ComposeProofs.existsb_false _ _ E (inst, d)). by apply elem_of_map_to_list. }
  unfold Lint.bb_bad, Lint.pins_bad in Hnb. apply orb_false_elim in Hnb as [H1 H2]. split; intros p Hp.
  - pose proof (ComposeProofs.existsb_false _ _ H1 p) as Hf. cbv beta in Hf. specialize (Hf ltac:(by apply elem_of_elements)). by apply negb_false_iff, bool_decide_eq_true in Hf.
  - pose proof (ComposeProofs.existsb_false _ _ H2 p) as Hf. cbv beta in Hf. specialize (Hf ltac:(by apply elem_of_elements)). by apply negb_false_iff, bool_decide_eq_true in Hf.
Qed.

Lemma lint_clean_rtb C f : Lint.lint C f = Ok () →
  (∀ n i, c_g C !! n = Some i → n_ty i ∈ gate_types → n_fi i ≠ ∅) →
  (∀ n, n ∈ dom (c_g C) → n ≠ "" ∧ starts_digit n = false) →
  (∀ i j d e, c_bbs C !! i = Some d → c_bbs C !! j = Some e → bb_name d = bb_name e → d = e) → closed (c_g C) →
  of_type (c_g C) (λ t, bool_decide (t ∈ const_types)) = ∅ →
  (∀ n i, c_g C !! n = Some i → n_ty i = BbIn ∨ n_ty i = BbOut → ∃ inst d p, c_bbs C !! inst = Some d ∧ n = pin inst p ∧ p ∈ bb_in d ∪ bb_out d) →
  (∀ n i, c_g C !! n = Some i → n_ty i ≠ BbIn → n_ty i ≠ BbOut → Lint.has_dot n = false) →
  (∀ n i m j, c_g C !! n = Some i → n_ty i = BbIn → c_g C !! m = Some j → n ∉ n_fi j) →
  (∀ i j d e p q, c_bbs C !! i = Some d → c_bbs C !! j = Some e → p ∈ bb_in d ∪ bb_out d → q ∈ bb_in e ∪ bb_out e → pin i p = pin j q → i = j) →
  (∀ inst d, c_bbs C !! inst = Some d → starts_digit inst = false ∧ prim_of_name (bb_name d) = None) →
  rtb_clean (c_g C) (c_bbs C).
Proof.
  intros Hl Hgate Hnames Hdefs Hcl Hnc Hpreg Hnodot Hbifo Hapart Hinst.
  assert (Hty : ∀ n i, c_g C !! n = Some i → n_ty i = Input ∨ n_ty i ∈ gate_types ∨ n_ty i = BbIn ∨ n_ty i = BbOut).
  { intros n i Hi. destruct (lint_node_facts C f n i Hl Hi) as (Hs & _).
    assert (H1 : n_ty i ∉ const_types).
    { intros Hc. assert (n ∈ of_type (c_g C) (λ t, bool_decide (t ∈ const_types))) by (apply elem_of_of_type; exists i; by rewrite bool_decide_eq_true_2).
      rewrite Hnc in H. by apply elem_of_empty in H. }
    clear -Hs H1. unfold Gen_types.supported_types, const_types, gate_types in *. destruct (n_ty i); set_solver. }
  split; try done.
  - intros n i Hi Ht. destruct (lint_node_facts C f n i Hl Hi) as (_ & Hz & _). apply leibniz_equiv, size_empty_iff. apply Hz. rewrite Ht. unfold Gen_lint.zero_input_types. set_solver.
  - intros n i Hi Ht. destruct (lint_node_facts C f n i Hl Hi) as (_ & _ & Hs & _).
    assert (Hle : size (n_fi i) ≤ 1) by (apply Hs; unfold Gen_lint.single_input_types; destruct Ht as [-> | ->]; set_solver).
    assert (Hne : n_fi i ≠ ∅) by (apply (Hgate n i Hi); unfold gate_types; destruct Ht as [-> | ->]; set_solver).
    assert (size (n_fi i) ≠ 0) by (intros E; apply size_empty_iff in E; apply Hne; by apply leibniz_equiv). lia.
  - intros inst d p Hd Hp. destruct (lint_bb_facts C f inst d Hl Hd) as [H1 _]. specialize (H1 p Hp). unfold ty in H1. destruct (c_g C !! pin inst p) as [i|]; [|discriminate].
    exists i. split; [done|]. by injection H1.
  - intros inst d p Hd Hp. destruct (lint_bb_facts C f inst d Hl Hd) as [_ H1]. specialize (H1 p Hp). unfold ty in H1. destruct (c_g C !! pin inst p) as [i|]; [|discriminate].
    exists i. split; [done|]. by injection H1.
  - intros n i Hi Ht. destruct (lint_node_facts C f n i Hl Hi) as (_ & _ & Hs & _). apply Hs. rewrite Ht. unfold Gen_lint.single_input_types. set_solver.
  - intros n i Hi Ht. destruct (lint_node_facts C f n i Hl Hi) as (_ & Hz & _). apply leibniz_equiv, size_empty_iff. apply Hz. rewrite Ht. unfold Gen_lint.zero_input_types. set_solver.
  - intros n i m j Hi Ht Hj Hin. destruct (lint_node_facts C f n i Hl Hi) as (_ & _ & _ & _ & Hb). specialize (Hb Ht m ltac:(apply elem_of_fanout; eauto)).
    unfold ty in Hb. rewrite Hj in Hb. by injection Hb.
  - intros n i Hi Ht. by destruct (lint_node_facts C f n i Hl Hi) as (_ & _ & _ & Hb & _); auto.
Qed.

Lemma find_def_registry (bbs : gmap string bbdef) inst d : (∀ i j d e, bbs !! i = Some d → bbs !! j = Some e → bb_name d = bb_name e → d = e) →
  bbs !! inst = Some d → find_def (map_to_list bbs).*2 (bb_name d) = Some d.
Proof.
  intros Hu Hd. apply find_def_unique.
  - apply elem_of_list_fmap. exists (inst, d). split; [done|]. by apply elem_of_map_to_list.
  - intros e (ie & -> & Hie)%elem_of_list_fmap Hn. destruct ie as [j e]. apply elem_of_map_to_list in Hie. simpl in *. by eapply Hu.
Qed.


(* ------------------------------------------------------------------ the well-formedness beyond lint, and a decidable form *)
Definition wf_bbP (g : circuit) (bbs : gmap string bbdef) : Prop :=
  (∀ n i, g !! n = Some i → n_ty i = BbIn ∨ n_ty i = BbOut → ∃ inst d p, bbs !! inst = Some d ∧ n = pin inst p ∧ p ∈ bb_in d ∪ bb_out d) ∧
  (∀ n i, g !! n = Some i → n_ty i ≠ BbIn → n_ty i ≠ BbOut → Lint.has_dot n = false) ∧
  (∀ n i m j, g !! n = Some i → n_ty i = BbIn → g !! m = Some j → n ∉ n_fi j) ∧
  (∀ i j d e p q, bbs !! i = Some d → bbs !! j = Some e → p ∈ bb_in d ∪ bb_out d → q ∈ bb_in e ∪ bb_out e → pin i p = pin j q → i = j) ∧
  (∀ inst d, bbs !! inst = Some d → starts_digit inst = false ∧ prim_of_name (bb_name d) = None).
Definition wf_bb_dec (g : circuit) (bbs : gmap string bbdef) : Prop :=
  map_Forall (λ n i, n_ty i = BbIn ∨ n_ty i = BbOut → map_Exists (λ inst d, set_Exists (λ p, n = pin inst p) (bb_in d ∪ bb_out d)) bbs) g ∧
  map_Forall (λ n i, n_ty i ≠ BbIn → n_ty i ≠ BbOut → Lint.has_dot n = false) g ∧
  map_Forall (λ n i, n_ty i = BbIn → fanout g n = ∅) g ∧
  map_Forall (λ i d, map_Forall (λ j e, set_Forall (λ p, set_Forall (λ q, pin i p = pin j q → i = j) (bb_in e ∪ bb_out e)) (bb_in d ∪ bb_out d)) bbs) bbs ∧
  map_Forall (λ inst d, starts_digit inst = false ∧ prim_of_name (bb_name d) = None) bbs.
Global Instance wf_bb_dec_dec g bbs : Decision (wf_bb_dec g bbs).
Proof. unfold wf_bb_dec. apply _. Defined.
Lemma wf_bb_dec_sound g bbs : wf_bb_dec g bbs → wf_bbP g bbs.
Proof.
  intros (H1 & H2 & H3 & H4 & H5). split; [|split; [|split; [|split]]].
  - intros n i Hi Hty. destruct (H1 n i Hi Hty) as (inst & d & Hd & p & Hp & ->). eauto 10.
  - exact H2.
  - intros n i m j Hi Ht Hj Hin. pose proof (H3 n i Hi Ht) as E. assert (Hm : m ∈ fanout g n) by (apply elem_of_fanout; eauto). rewrite E in Hm. by apply elem_of_empty in Hm.
  - intros i j d e p q Hd He Hp Hq. exact (H4 i d Hd j e He p Hp q Hq).
  - exact H5.
Qed.

Lemma equiv_on_refl_v S c : equiv_on S c c.
Proof. split; intros v Hv; exists v; split; done. Qed.
