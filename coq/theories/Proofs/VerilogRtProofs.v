(* Proofs for C03: roundtrip_identical for blackbox-free, constant-free lint-clean circuits in the primitive style.
   Shape of the writer's item list (write_inv, stmts), success of every add / connect check for the emitted statements
   (add_g_succeeds, prim_instance_ok), fold invariant J on top of prim_instance_exact, module() (set_output_ok, drop_tie_delete),
   final comparison of the two maps (roundtrip_identical_prim); the hypotheses from lint (lint_clean_rt). *)
From CG Require Import Verilog.ExprParse.
From stdpp Require Import strings gmap sets fin_sets pretty.
From CG Require Import Types Sem Fold Api Verilog.Ast Verilog.Read Verilog.Write Proofs.VerilogProofs Run.Run_C02 Proofs.VerilogReadProofs Proofs.VerilogDenoteProofs.
From CG Require Proofs.ComposeProofs Model.Lint.
Open Scope string_scope.


(* ------------------------------------------------------------------ success of add for the statements the writer emits *)
Lemma existsb_false_intro {A} (f : A → bool) (l : list A) : (∀ x, x ∈ l → f x = false) → existsb f l = false.
Proof. induction l as [|a l IH]; intros H; simpl; [done|]. rewrite H by (by left). apply IH. intros x Hx. apply H. by right. Qed.
Definition good_name (n : string) : Prop := n ≠ "" ∧ starts_digit n = false.
Lemma ph_succeeds l : ∀ c1, Forall good_name l → ∃ c2, foldl ph_step (c1, Done) l = (c2, Done).
Proof.
  induction l as [|f l IH]; intros c1 HF; simpl; [eauto|]. inversion HF as [|? ? [Hf1 Hf2] HF']; subst.
  case_bool_decide; [by apply IH|]. unfold add_plain_buf. rewrite bool_decide_eq_false_2 by done. rewrite Hf2. by apply IH.
Qed.
Definition no_pin_types (g : circuit) : Prop := ∀ x j, g !! x = Some j → n_ty j ≠ BbIn ∧ n_ty j ≠ BbOut.
Lemma add_g_succeeds (c : circuit) n t fi : t ∈ gate_types → good_name n → Forall good_name fi → fi ≠ [] →
  (t = Buf ∨ t = Not → length fi = 1) → fanin c n = ∅ → no_pin_types c →
  ∃ g', add_g c n t fi [] rd_flags = (g', Done, n).
Proof.
  intros Ht [Hn1 Hn2] Hfi Hne Hlen Hf0 Hnp. unfold add_g. cbn [af_uid af_redef af_conn af_out rd_flags]. cbn [negb andb].
  rewrite andb_false_r. cbn [negb].
  assert (Hsup : bool_decide (t ∈ supported_types) = true).
  { apply bool_decide_eq_true. unfold gate_types in Ht. unfold supported_types. set_solver. }
  rewrite Hsup. cbn [negb].
  assert (H3 : (1 <? length fi)%nat && bool_decide (t ∈ add_single_fanin) = false).
  { destruct (decide (t ∈ add_single_fanin)) as [Hin|Hout]; [|by rewrite (bool_decide_eq_false_2 _ Hout), andb_false_r].
    unfold add_single_fanin in Hin. rewrite Hlen by set_solver. done. }
  rewrite H3.
  assert (H4 : negb (bool_decide (fi = [])) && bool_decide (t ∈ add_no_fanin) = false).
  { rewrite (bool_decide_eq_false_2 (t ∈ add_no_fanin)); [by rewrite andb_false_r|]. unfold add_no_fanin, gate_types in *. set_solver. }
  rewrite H4. rewrite (bool_decide_eq_false_2 (n = "")) by done. rewrite Hn2. rewrite app_nil_r. fold ph_step.
  set (c1 := <[n:=mk_node t false (fanin c n)]> c).
  destruct (ph_succeeds fi c1 Hfi) as [c2 Hph]. rewrite Hph. destruct (ph_ok _ _ _ Hph) as (Hs & Hnew & Hd).
  assert (Hc0 : connect_g c2 [n] [] = (c2, Done)) by (unfold connect_g; by rewrite orb_true_r).
  rewrite Hc0.
  assert (H1n : c2 !! n = Some (mk_node t false ∅)).
  { eapply lookup_weaken; [|exact Hs]. unfold c1. by rewrite lookup_insert, Hf0. }
  assert (Htyc2 : ∀ u j, c2 !! u = Some j → n_ty j ≠ BbIn ∧ n_ty j ≠ BbOut).
  { intros u j Hu. assert (Hdu : u ∈ dom c2) by (apply elem_of_dom; eauto). destruct (Hnew u Hdu) as [Hd1|[_ Hb]].
    - apply elem_of_dom in Hd1 as [j' Hj']. pose proof (lookup_weaken _ _ _ _ Hj' Hs). assert (j' = j) as -> by congruence.
      unfold c1 in Hj'. apply lookup_insert_Some in Hj' as [[_ <-]|[_ Hj']]; [|by eapply Hnp].
      simpl. unfold gate_types in Ht. split; intros ->; set_solver.
    - rewrite Hb in Hu. injection Hu as <-. done. }
  assert (Hcc : connect_g c2 fi [n] = (foldl (λ c' (p : string * string), add_edge c' p.1 p.2) c2 (pairs fi [n]), Done)).
  { unfold connect_g. rewrite (bool_decide_eq_false_2 (fi = [])) by done. rewrite (bool_decide_eq_false_2 ([n] = [])) by done. cbn [orb].
    assert (Hall : forallb (λ x, bool_decide (x ∈ dom c2)) (fi ++ [n]) = true).
    { apply forallb_forall. intros x Hx. apply bool_decide_eq_true. apply elem_of_list_In, elem_of_app in Hx as [Hx|Hx%elem_of_list_singleton].
      - by apply Hd.
      - subst. apply elem_of_dom. eauto. }
    rewrite Hall. cbn [negb].
    assert (Hck : connect_check c2 fi [n] = true).
    { unfold connect_check. apply andb_true_iff. split; apply negb_true_iff.
      - cbn [existsb]. rewrite orb_false_r. unfold ty. rewrite H1n. cbn [fmap option_fmap option_map n_ty mk_node is_in].
        rewrite (bool_decide_eq_false_2 (t ∈ conn_no_fanin)) by (unfold conn_no_fanin, gate_types in *; set_solver). cbn [orb].
        destruct (decide (t ∈ conn_single_fanin)) as [Hin|Hout]; [|by rewrite (bool_decide_eq_false_2 _ Hout)].
        rewrite (bool_decide_eq_true_2 _ Hin). cbn [andb]. unfold fanin. rewrite H1n. cbn. rewrite size_empty.
        rewrite Hlen; [done|]. unfold conn_single_fanin, gate_types in *. set_solver.
      - apply existsb_false_intro. intros u Hu. destruct (c2 !! u) as [j|] eqn:Eu.
        + destruct (Htyc2 u j Eu) as [Hb1 Hb2]. unfold ty. rewrite Eu. cbn [fmap option_fmap option_map is_in].
          rewrite (bool_decide_eq_false_2 (n_ty j ∈ conn_no_fanout)) by (unfold conn_no_fanout; set_solver).
          rewrite (bool_decide_eq_false_2 (n_ty j ∈ conn_bbout)) by (unfold conn_bbout; set_solver). done.
        + unfold ty. rewrite Eu. done. }
    rewrite Hck. done. }
  rewrite Hcc. eauto.
Qed.


(* ------------------------------------------------------------------ reading the statements of the primitive style *)
Lemma prim_of_prim_name t : t ∈ gate_types → prim_of_name (prim_name t) = Some t.
Proof. unfold gate_types. rewrite !elem_of_cons, elem_of_nil. intros [->|[->|[->|[->|[->|[->|[->|[->|[]]]]]]]]]; reflexivity. Qed.
Lemma rmapS_cid k s l : rmapS (c_cond k) s (cid <$> l) = Ok (s, l).
Proof.
  induction l as [|x l IH]; [done|]. rewrite fmap_cons. cbn [rmapS].
  change (c_cond k s (cid x)) with (Ok (s, x) : res (cstate * string)). cbn [rbind fst snd]. rewrite IH. done.
Qed.
Lemma c_conns_cid k s l : c_conns k s (Positional (cid <$> l)) = Ok (s, CPos l).
Proof. unfold c_conns. rewrite rmapS_cid. done. Qed.
Lemma c_item_gate k st inst n t fi g' : t ∈ gate_types → prim_instance k t (r_g st) (inst, CPos (n :: fi)) = Ok g' →
  c_item k st (IInst (prim_name t) [(inst, Positional (cid n :: (cid <$> fi)))]) =
  Ok {| r_g := g'; r_bbs := r_bbs st; r_ge := r_ge st; r_io := r_io st; r_ins := r_ins st; r_outs := r_outs st |}.
Proof.
  intros Ht H. unfold c_item. rewrite (prim_of_prim_name t Ht). cbn [rmapS snd fst].
  change (cid n :: (cid <$> fi)) with (cid <$> (n :: fi)). rewrite c_conns_cid. cbn -[prim_instance]. rewrite H. done.
Qed.
Lemma prim_instance_ok k t gr inst n fi : t ∈ gate_types → good_name n → Forall good_name fi → fi ≠ [] → NoDup fi →
  (t = Buf ∨ t = Not → length fi = 1) → fanin gr n = ∅ → no_pin_types gr → ∃ g', prim_instance k t gr (inst, CPos (n :: fi)) = Ok g'.
Proof.
  intros Ht Hn Hfi Hne Hnd Hlen Hf0 Hnp. destruct (add_g_succeeds gr n t fi Ht Hn Hfi Hne Hlen Hf0 Hnp) as [g' Hg].
  exists g'. unfold prim_instance. cbn [snd]. rewrite parity_nodup by done.
  destruct fi as [|f fi']; [done|]. destruct (bool_decide (t = Xor) || bool_decide (t = Xnor)); cbv beta iota zeta; unfold add_node, lift; rewrite Hg; done.
Qed.
Lemma add_input_ok (gr : circuit) n : good_name n → add_g gr n Input [] [] rd_flags = (<[n := mk_node Input false (fanin gr n)]> gr, Done, n).
Proof.
  intros [H1 H2]. unfold add_g. cbn [af_uid af_redef af_conn af_out rd_flags negb andb]. rewrite andb_false_r. cbn [negb length Nat.ltb Nat.leb andb].
  rewrite (bool_decide_eq_true_2 (Input ∈ supported_types)) by (unfold supported_types; set_solver). cbn [negb].
  rewrite (bool_decide_eq_true_2 ([] = [])) by done. cbn [negb andb].
  rewrite (bool_decide_eq_false_2 (n = "")) by done. rewrite H2. cbn. done.
Qed.

Section rt.
  Context (k : rctx) (g g0 : circuit).
  Hypothesis Hties : ties k ## dom g.
  Hypothesis Hg0 : ∀ x j, g0 !! x = Some j → x ∈ ties k ∧ n_ty j ∈ [C0; C1; CX].
  Hypothesis Hty : ∀ n i, g !! n = Some i → n_ty i = Input ∨ n_ty i ∈ gate_types.
  Hypothesis Hnames : ∀ n, n ∈ dom g → good_name n.
  Hypothesis Hcl : closed g.
  Hypothesis Hsingle : ∀ n i, g !! n = Some i → n_ty i = Buf ∨ n_ty i = Not → size (n_fi i) = 1.

  (* the graph while the text is read: I = inputs declared so far, D = gates whose statement has been read *)
  Record J (I D : gset string) (gr : circuit) : Prop := mk_J {
    j_dom : ∀ x j, gr !! x = Some j → x ∈ ties k ∨ x ∈ dom g;
    j_tie : ∀ x, x ∈ ties k → gr !! x = g0 !! x;
    j_in : ∀ x i, g !! x = Some i → n_ty i = Input → gr !! x = if bool_decide (x ∈ I) then Some (mk_node Input false ∅) else None;
    j_done : ∀ x i, g !! x = Some i → n_ty i ∈ gate_types → x ∈ D → gr !! x = Some (mk_node (n_ty i) false (n_fi i));
    j_todo : ∀ x i, g !! x = Some i → n_ty i ∈ gate_types → x ∉ D → gr !! x = None ∨ gr !! x = Some (mk_node Buf false ∅) }.

  Lemma input_not_gate t : t = Input → t ∈ gate_types → False.
  Proof. intros ->. unfold gate_types. set_solver. Qed.
  Lemma J_no_pins I D gr : J I D gr → no_pin_types gr.
  Proof.
    intros [Jd Jt Ji Jdn Jto] x j Hx. destruct (Jd x j Hx) as [Ht|Hd].
    - rewrite (Jt x Ht) in Hx. destruct (Hg0 x j Hx) as [_ Hc]. split; intros E; rewrite E in Hc; set_solver.
    - apply elem_of_dom in Hd as [i Hi]. destruct (Hty x i Hi) as [Hin|Hgt].
      + rewrite (Ji x i Hi Hin) in Hx. case_bool_decide; [|discriminate]. injection Hx as <-. done.
      + destruct (decide (x ∈ D)) as [HD|HD].
        * rewrite (Jdn x i Hi Hgt HD) in Hx. injection Hx as <-. simpl. unfold gate_types in Hgt. split; intros E; rewrite E in Hgt; set_solver.
        * destruct (Jto x i Hi Hgt HD) as [E|E]; rewrite E in Hx; [discriminate|]. injection Hx as <-. done.
  Qed.

  Lemma read_input st n I D : J I D (r_g st) → n ∈ inputs g → n ∉ I →
    ∃ st', c_item k st (IInput [n]) = Ok st' ∧ J ({[n]} ∪ I) D (r_g st') ∧ r_bbs st' = r_bbs st ∧ r_ge st' = r_ge st ∧ r_io st' = r_io st ∧
           r_ins st' = r_ins st ∪ {[n]} ∧ r_outs st' = r_outs st.
  Proof.
    intros HJ Hn HnI. pose proof HJ as [Jd Jt Ji Jdn Jto]. apply elem_of_inputs in Hn as (i & Hi & Hti).
    assert (Hgn : good_name n) by (apply Hnames, elem_of_dom; eauto).
    assert (Hgr : r_g st !! n = None). { rewrite (Ji n i Hi Hti). by rewrite bool_decide_eq_false_2. }
    eexists. split.
    { cbn [c_item rfold]. unfold add_node, lift. rewrite (add_input_ok (r_g st) n Hgn). cbn. done. }
    split; [|split; [done|split; [done|split; [done|split; [|done]]]]].
    - cbn [r_g]. assert (Hf0 : fanin (r_g st) n = ∅) by (unfold fanin; by rewrite Hgr). rewrite Hf0. split.
      + intros x j Hx. apply lookup_insert_Some in Hx as [[<- _]|[_ Hx]]; [right; apply elem_of_dom; eauto|by eapply Jd].
      + intros x Hx. rewrite lookup_insert_ne; [by apply Jt|]. intros <-. apply (Hties n Hx). apply elem_of_dom; eauto.
      + intros x i' Hi' Ht'. destruct (decide (x = n)) as [->|Hne].
        * rewrite lookup_insert. rewrite bool_decide_eq_true_2 by set_solver. done.
        * rewrite lookup_insert_ne by done. rewrite (Ji x i' Hi' Ht'). apply (f_equal (λ b : bool, if b then _ else _)). apply bool_decide_ext. set_solver.
      + intros x i' Hi' Ht' HD. rewrite lookup_insert_ne; [by apply Jdn|]. intros <-. assert (i' = i) as -> by congruence. by eapply input_not_gate.
      + intros x i' Hi' Ht' HD. rewrite lookup_insert_ne; [by eapply Jto|]. intros <-. assert (i' = i) as -> by congruence. by eapply input_not_gate.
    - cbn. set_solver.
  Qed.

  Lemma read_gate st inst n i fi I D : J I D (r_g st) → I = inputs g → g !! n = Some i → n_ty i ∈ gate_types → n ∉ D →
    NoDup fi → list_to_set fi = n_fi i → fi ≠ [] →
    ∃ st', c_item k st (IInst (prim_name (n_ty i)) [(inst, Positional (cid n :: (cid <$> fi)))]) = Ok st' ∧ J I ({[n]} ∪ D) (r_g st') ∧
           r_bbs st' = r_bbs st ∧ r_ge st' = r_ge st ∧ r_io st' = r_io st ∧ r_ins st' = r_ins st ∧ r_outs st' = r_outs st.
  Proof.
    intros HJ HI Hi Hgt HnD Hnd Hfi Hne. pose proof HJ as [Jd Jt Ji Jdn Jto].
    assert (Hfd : ∀ f, f ∈ fi → f ∈ dom g). { intros f Hf. eapply Hcl; [exact Hi|]. rewrite <- Hfi. by apply elem_of_list_to_set. }
    assert (Hf0 : fanin (r_g st) n = ∅). { unfold fanin. destruct (Jto n i Hi Hgt HnD) as [E|E]; rewrite E; done. }
    destruct (prim_instance_ok k (n_ty i) (r_g st) inst n fi) as [g' Hg']; try done.
    { apply Hnames, elem_of_dom; eauto. }
    { apply Forall_forall. intros f Hf. by apply Hnames, Hfd. }
    { intros Hb. specialize (Hsingle n i Hi Hb). rewrite <- Hfi in Hsingle. rewrite size_list_to_set in Hsingle by done. done. }
    { by eapply J_no_pins. }
    destruct (prim_instance_exact k (n_ty i) (r_g st) inst n fi g' Hg' Hnd Hne) as [Hl Hx].
    eexists. split; [by apply c_item_gate|]. split; [|done]. cbn [r_g]. split.
    - intros x j Hxj. destruct (decide (x = n)) as [->|Hxn]; [right; apply elem_of_dom; eauto|].
      destruct (Hx x Hxn) as [E|(_ & Hf & _)]; [rewrite E in Hxj; by eapply Jd|right; by apply Hfd].
    - intros x Hxt. assert (Hxn : x ≠ n) by (intros ->; apply (Hties n Hxt); apply elem_of_dom; eauto).
      destruct (Hx x Hxn) as [E|(_ & Hf & _)]; [rewrite E; by apply Jt|]. exfalso. apply (Hties x Hxt). by apply Hfd.
    - intros x i' Hi' Ht'. assert (Hxn : x ≠ n) by (intros ->; assert (i' = i) as -> by congruence; by eapply input_not_gate).
      assert (HxI : x ∈ I) by (subst I; apply elem_of_inputs; eauto).
      pose proof (Ji x i' Hi' Ht') as Hold. rewrite bool_decide_eq_true_2 in Hold |- * by done.
      destruct (Hx x Hxn) as [E|(E & _)]; [by rewrite E|congruence].
    - intros x i' Hi' Ht' HD. destruct (decide (x = n)) as [->|Hxn].
      + assert (i' = i) as -> by congruence. rewrite Hl, Hf0, Hfi. do 2 f_equal. apply union_empty_l_L.
      + assert (HD' : x ∈ D) by (apply elem_of_union in HD as [?%elem_of_singleton|?]; done). pose proof (Jdn x i' Hi' Ht' HD') as Hold.
        destruct (Hx x Hxn) as [E|(E & _)]; [by rewrite E|congruence].
    - intros x i' Hi' Ht' HD. assert (Hxn : x ≠ n) by (intros ->; apply HD, elem_of_union_l; by apply elem_of_singleton). assert (HD' : x ∉ D) by (intros ?; apply HD; by apply elem_of_union_r).
      destruct (Hx x Hxn) as [E|(_ & _ & E)]; [rewrite E; by eapply Jto|by right].
  Qed.
End rt.


(* ------------------------------------------------------------------ shape of the writer's text (primitive style, no blackboxes) *)
Definition wstep (g : circuit) (acc : list item) (x : string * list string) : list item :=
  match g !! x.1 with
  | Some i => match gate_stmt g false (length acc) x.1 i x.2 with Some s => (acc ++ [s])%list | None => acc end
  | None => acc end.
Fixpoint stmts (g : circuit) (j : nat) (l : list (string * list string)) : list item :=
  match l with
  | [] => []
  | x :: l => match g !! x.1 with
              | Some i => match gate_stmt g false j x.1 i x.2 with Some s => s :: stmts g (S j) l | None => stmts g j l end
              | None => stmts g j l end
  end.
Lemma foldl_stmts g l : ∀ acc, foldl (wstep g) acc l = (acc ++ stmts g (length acc) l)%list.
Proof.
  induction l as [|x l IH]; intros acc; simpl; [by rewrite app_nil_r|]. unfold wstep at 2. destruct (g !! x.1) as [i|]; [|apply IH].
  destruct (gate_stmt g false (length acc) x.1 i x.2) as [s|]; [|apply IH].
  rewrite IH. rewrite app_length. simpl. rewrite Nat.add_1_r. by rewrite <- app_assoc.
Qed.
Lemma is_perm_spec l s : is_perm_of l s = true ↔ NoDup l ∧ list_to_set l = s.
Proof. unfold is_perm_of. rewrite andb_true_iff, !bool_decide_eq_true. done. Qed.
Lemma write_inv C π m : write C false π = Ok m → c_bbs C = ∅ →
  NoDup (o_ins π) ∧ list_to_set (o_ins π) = inputs (c_g C) ∧ NoDup (o_outs π) ∧ list_to_set (o_outs π) = outputs (c_g C) ∧
  NoDup (o_nodes π) ∧ list_to_set (o_nodes π) = of_type (c_g C) (λ t, bool_decide (t ∈ gate_types) || bool_decide (t ∈ const_types)) ∧
  (o_fi π).*1 = o_nodes π ∧
  Forall (λ x : string * list string, NoDup x.2 ∧ list_to_set x.2 = fanin (c_g C) x.1 ∖ of_type (c_g C) (is_ty BbOut)) (o_fi π) ∧
  m = {| m_name := c_name C; m_ports := (o_ins π ++ o_outs π)%list;
         m_items := (((λ n, IInput [n]) <$> o_ins π) ++ ((λ n, IOutput [n]) <$> o_outs π) ++
                     ((λ n, IWire [n]) <$> o_nodes π) ++ stmts (c_g C) 0 (o_fi π))%list |}.
Proof.
  unfold write. intros H Hb.
  destruct (is_perm_of (o_ins π) (inputs (c_g C)) && is_perm_of (o_outs π) (outputs (c_g C))) eqn:E1; cbn [negb] in H; [|discriminate].
  apply andb_true_iff in E1 as [E1 E1']. apply is_perm_spec in E1 as [? ?]. apply is_perm_spec in E1' as [? ?].
  destruct (is_perm_of (o_bbs π).*1.*1 (dom (c_bbs C))) eqn:E2; cbn [negb] in H; [|discriminate].
  assert (Hob : o_bbs π = []).
  { apply is_perm_spec in E2 as [_ E2]. rewrite Hb, dom_empty_L in E2. destruct (o_bbs π) as [|a l]; [done|]. rewrite !fmap_cons in E2. set_solver. }
  rewrite Hob in H. cbn [forallb negb omap] in H.
  destruct (is_perm_of (o_nodes π) _) eqn:E3; cbn [negb] in H; [|discriminate]. apply is_perm_spec in E3 as [? ?].
  case_bool_decide as E4; cbn [negb] in H; [|discriminate].
  destruct (forallb _ (o_fi π)) eqn:E5; cbn [negb] in H; [|discriminate].
  case_bool_decide as E6; cbn [negb] in H; [|discriminate].
  injection H as <-. repeat (split; [done|]). split.
  - apply Forall_forall. intros x Hx. rewrite forallb_forall in E5. specialize (E5 x (proj1 (elem_of_list_In _ _) Hx)). by apply is_perm_spec in E5.
  - f_equal. do 3 f_equal. fold (wstep (c_g C)). by rewrite foldl_stmts.
Qed.

Definition same_meta (st st' : rstate) : Prop :=
  r_bbs st' = r_bbs st ∧ r_ge st' = r_ge st ∧ r_io st' = r_io st ∧ r_ins st' = r_ins st ∧ r_outs st' = r_outs st.

Lemma lts_nil_union (I : gset string) : list_to_set [] ∪ I = I. Proof. set_solver. Qed.
Lemma lts_cons_union (n : string) l (I : gset string) : list_to_set (n :: l) ∪ I = list_to_set l ∪ ({[n]} ∪ I). Proof. set_solver. Qed.
Lemma lts_union_cons (n : string) l (I : gset string) : I ∪ {[n]} ∪ list_to_set l = I ∪ list_to_set (n :: l). Proof. set_solver. Qed.
Lemma lts_union_cons' (n : string) l (I : gset string) : I ∪ list_to_set [n] ∪ list_to_set l = I ∪ list_to_set (n :: l). Proof. set_solver. Qed.
Lemma lts_union_nil (I : gset string) : I = I ∪ list_to_set []. Proof. set_solver. Qed.
Section rt2.
  Context (k : rctx) (g g0 : circuit).
  Hypothesis Hties : ties k ## dom g.
  Hypothesis Hg0 : ∀ x j, g0 !! x = Some j → x ∈ ties k ∧ n_ty j ∈ [C0; C1; CX].
  Hypothesis Hty : ∀ n i, g !! n = Some i → n_ty i = Input ∨ n_ty i ∈ gate_types.
  Hypothesis Hnames : ∀ n, n ∈ dom g → good_name n.
  Hypothesis Hcl : closed g.
  Hypothesis Hsingle : ∀ n i, g !! n = Some i → n_ty i = Buf ∨ n_ty i = Not → size (n_fi i) = 1.
  Notation J := (J k g g0).

  Lemma read_inputs l : ∀ st I, J I ∅ (r_g st) → NoDup l → (∀ n, n ∈ l → n ∈ inputs g ∧ n ∉ I) →
    ∃ st', rfold (c_item k) st ((λ n, IInput [n]) <$> l) = Ok st' ∧ J (list_to_set l ∪ I) ∅ (r_g st') ∧
           r_bbs st' = r_bbs st ∧ r_ge st' = r_ge st ∧ r_io st' = r_io st ∧ r_ins st' = r_ins st ∪ list_to_set l ∧ r_outs st' = r_outs st.
  Proof.
    induction l as [|n l IH]; intros st I HJ Hnd Hl.
    - exists st. split; [done|]. split; [by rewrite lts_nil_union|]. repeat (split; [done|]). split; [apply lts_union_nil|done].
    - apply NoDup_cons in Hnd as [Hn Hnd]. destruct (Hl n) as [Hin HnI]; [by left|].
      destruct (read_input k g g0 Hties Hg0 Hty Hnames Hcl Hsingle st n I ∅ HJ Hin HnI) as (st1 & H1 & J1 & B1 & G1 & O1 & I1 & U1).
      destruct (IH st1 ({[n]} ∪ I) J1 Hnd) as (st' & H2 & J2 & B2 & G2 & O2 & I2 & U2).
      { intros n' Hn'. destruct (Hl n') as [? ?]; [by right|]. split; [done|]. intros [->%elem_of_singleton|?]%elem_of_union; done. }
      exists st'. split; [rewrite fmap_cons; cbn [rfold]; rewrite H1; exact H2|].
      split; [by rewrite lts_cons_union|].
      split; [congruence|]. split; [congruence|]. split; [congruence|]. split; [rewrite I2, I1; apply lts_union_cons|congruence].
  Qed.
  Lemma read_outputs l : ∀ st, ∃ st', rfold (c_item k) st ((λ n, IOutput [n]) <$> l) = Ok st' ∧ r_g st' = r_g st ∧
           r_bbs st' = r_bbs st ∧ r_ge st' = r_ge st ∧ r_io st' = r_io st ∧ r_ins st' = r_ins st ∧ r_outs st' = r_outs st ∪ list_to_set l.
  Proof.
    induction l as [|n l IH]; intros st.
    - exists st. repeat (split; [done|]). apply lts_union_nil.
    - destruct (IH {| r_g := r_g st; r_bbs := r_bbs st; r_ge := r_ge st; r_io := r_io st; r_ins := r_ins st; r_outs := r_outs st ∪ list_to_set [n] |})
        as (st' & H2 & E2 & B2 & G2 & O2 & I2 & U2). cbn [r_g r_bbs r_ge r_io r_ins r_outs] in *.
      exists st'. split; [rewrite fmap_cons; cbn [rfold c_item rbind]; exact H2|]. repeat (split; [done|]). rewrite U2. apply lts_union_cons'.
  Qed.
  Lemma read_wires l st : rfold (c_item k) st ((λ n, IWire [n]) <$> l) = Ok st.
  Proof. induction l as [|n l IH]; [done|]. rewrite fmap_cons. cbn [rfold c_item rbind]. exact IH. Qed.

  Lemma gate_not_const t : t ∈ gate_types → t ∈ const_types → False.
  Proof. unfold gate_types, const_types. rewrite !elem_of_cons, !elem_of_nil. intros [->|[->|[->|[->|[->|[->|[->|[->|[]]]]]]]]]; naive_solver. Qed.
  Lemma read_stmts l : ∀ st j I D, J I D (r_g st) → I = inputs g → NoDup l.*1 →
    (∀ x : string * list string, x ∈ l → ∃ i, g !! x.1 = Some i ∧ n_ty i ∈ gate_types ∧ x.1 ∉ D ∧ NoDup x.2 ∧ list_to_set x.2 = n_fi i ∧ x.2 ≠ []) →
    ∃ st', rfold (c_item k) st (stmts g j l) = Ok st' ∧ J I (list_to_set l.*1 ∪ D) (r_g st') ∧ same_meta st st'.
  Proof.
    induction l as [|x l IH]; intros st j I D HJ HI Hnd Hl.
    - exists st. split; [done|]. split; [by rewrite fmap_nil, lts_nil_union|]. by repeat split.
    - rewrite fmap_cons in Hnd. apply NoDup_cons in Hnd as [Hx Hnd]. destruct (Hl x) as (i & Hi & Hgt & HxD & Hnf & Hfs & Hne); [by left|].
      destruct (read_gate k g g0 Hties Hg0 Hty Hnames Hcl Hsingle st (uid g ("g_" ++ pretty j)) x.1 i x.2 I D HJ HI Hi Hgt HxD Hnf Hfs Hne)
        as (st1 & H1 & J1 & B1 & G1 & O1 & I1 & U1).
      destruct (IH st1 (S j) I ({[x.1]} ∪ D) J1 HI Hnd) as (st' & H2 & J2 & B2 & G2 & O2 & I2 & U2).
      { intros y Hy. destruct (Hl y) as (i' & Hi' & Hgt' & HyD & Hr); [by right|]. exists i'. split; [done|]. split; [done|]. split; [|done].
        intros [E%elem_of_singleton|?]%elem_of_union; [|done]. apply Hx. rewrite <- E. apply elem_of_list_fmap. exists y. done. }
      exists st'. split; [|split].
      + cbn [stmts]. rewrite Hi. unfold gate_stmt. rewrite bool_decide_eq_false_2 by (intros Hc; by eapply gate_not_const).
        destruct x.2 as [|f r] eqn:E2; [done|]. cbn [rfold]. rewrite H1. exact H2.
      + by rewrite fmap_cons, lts_cons_union.
      + unfold same_meta. repeat split; congruence.
  Qed.
End rt2.


(* ------------------------------------------------------------------ roundtrip_identical, primitive style, no blackboxes, no constants *)
(* what lint-cleanness, closedness and the name rule give for a circuit without constants and pins *)
Record rt_clean (g : circuit) : Prop := mk_rt_clean {
  rc_ty : ∀ n i, g !! n = Some i → n_ty i = Input ∨ n_ty i ∈ gate_types;
  rc_in : ∀ n i, g !! n = Some i → n_ty i = Input → n_fi i = ∅;
  rc_gate : ∀ n i, g !! n = Some i → n_ty i ∈ gate_types → n_fi i ≠ ∅;
  rc_single : ∀ n i, g !! n = Some i → n_ty i = Buf ∨ n_ty i = Not → size (n_fi i) = 1;
  rc_names : ∀ n, n ∈ dom g → good_name n;
  rc_closed : closed g }.

Lemma init_g0 rsv bbs : let kg := init_ctx rsv bbs in
  k_rsv kg.1 = rsv ∧ ties kg.1 ## rsv ∧ (∀ x j, kg.2 !! x = Some j → x ∈ ties kg.1 ∧ n_ty j ∈ [C0; C1; CX] ∧ n_fi j = ∅).
Proof.
  pose proof (init_rinv rsv bbs) as Hk. cbv zeta in Hk |- *. destruct Hk as (Er & _ & Htr & _). split; [done|]. split; [done|].
  revert Htr. unfold init_ctx. cbv zeta. simpl. intros _. unfold ties. simpl.
  intros x j Hn. apply lookup_insert_Some in Hn as [[<- <-]|[_ Hn]]; [split; [set_solver|split; [set_solver|done]]|].
  apply lookup_insert_Some in Hn as [[<- <-]|[_ Hn]]; [split; [set_solver|split; [set_solver|done]]|].
  apply lookup_singleton_Some in Hn as [<- <-]. split; [set_solver|split; [set_solver|done]].
Qed.
Lemma set_output_ok l : ∀ gr : circuit, (∀ x, x ∈ l → x ∈ dom gr) → ∃ g', set_output_g gr l true = (g', Done).
Proof.
  unfold set_output_g. fold (out_step true). induction l as [|n l IH]; intros gr H; simpl; [eauto|].
  destruct (gr !! n) as [i|] eqn:E.
  - apply IH. intros x Hx. rewrite dom_insert. apply elem_of_union_r. apply H. by right.
  - exfalso. specialize (H n ltac:(by left)). apply elem_of_dom in H as [? ?]. congruence.
Qed.
Lemma drop_tie_delete (gr : circuit) t : (∀ x i, gr !! x = Some i → t ∉ n_fi i) → drop_tie gr t = delete t gr.
Proof.
  intros Hno. unfold drop_tie. rewrite bool_decide_eq_true_2.
  - apply map_eq. intros x. destruct (decide (x = t)) as [->|Hx].
    + rewrite lookup_delete. pose proof (remove_attr gr t t) as Ha. rewrite bool_decide_eq_true_2 in Ha by done.
      unfold attr in Ha. destruct (remove_g gr [t] !! t); [discriminate|done].
    + rewrite lookup_delete_ne, remove_lookup by done. destruct (gr !! x) as [i|] eqn:E; simpl; [|done]. f_equal. apply upd_fi_id.
      specialize (Hno x i E). set_solver.
  - apply set_eq. intros x. split; [|set_solver]. intros (i & Hi & Hin)%elem_of_fanout. exfalso. by eapply Hno.
Qed.
Lemma ninfo_eta i (b : bool) : n_out i = b → i = mk_node (n_ty i) b (n_fi i).
Proof. destruct i. simpl. by intros ->. Qed.

Theorem roundtrip_identical_prim C π m rsv bbs : rt_clean (c_g C) → c_bbs C = ∅ → write C false π = Ok m →
  (list_to_set (module_ids m) : gset string) ⊆ rsv → read rsv bbs m = Ok C.
Proof.
  intros [Hty Hin Hgate Hsingle Hnames Hcl] Hb Hw Hids.
  destruct (write_inv C π m Hw Hb) as (Ni & Ei & No & Eo & Nn & En & Ef & Ff & ->).
  set (g := c_g C) in *.
  assert (Hgt : ∀ x, x ∈ of_type g (λ t, bool_decide (t ∈ gate_types) || bool_decide (t ∈ const_types)) ↔ ∃ i, g !! x = Some i ∧ n_ty i ∈ gate_types).
  { intros x. rewrite elem_of_of_type. split.
    - intros (i & Hi & Ht). exists i. split; [done|]. destruct (Hty x i Hi) as [E|?]; [|done]. rewrite E in Ht. done.
    - intros (i & Hi & Ht). exists i. split; [done|]. by rewrite bool_decide_eq_true_2. }
  assert (Hbo : of_type g (is_ty BbOut) = ∅).
  { apply set_eq. intros x. split; [|set_solver]. intros (i & Hi & Ht)%elem_of_of_type. unfold is_ty in Ht. apply bool_decide_eq_true in Ht.
    destruct (Hty x i Hi) as [E|E]; rewrite <- Ht in E; [done|]. unfold gate_types in E. set_solver. }
  assert (Hdr : ∀ x, x ∈ dom g → x ∈ rsv).
  { intros x [i Hi]%elem_of_dom. apply Hids. apply elem_of_list_to_set. unfold module_ids. cbn [m_name m_ports m_items]. right.
    destruct (Hty x i Hi) as [E|E].
    - apply elem_of_app. left. apply elem_of_app. left. apply (proj1 (elem_of_list_to_set (C:=gset string) x (o_ins π))). rewrite Ei. apply elem_of_inputs. eauto.
    - apply elem_of_app. right. apply elem_of_list_bind. exists (IWire [x]). split; [simpl; by left|].
      apply elem_of_app. right. apply elem_of_app. right. apply elem_of_app. left. apply elem_of_list_fmap. exists x. split; [done|].
      apply (proj1 (elem_of_list_to_set (C:=gset string) x (o_nodes π))). rewrite En. apply Hgt. eauto. }
  unfold read. pose proof (init_g0 rsv bbs) as Hk. cbv zeta in Hk. destruct (init_ctx rsv bbs) as [k g0]. cbn [fst snd] in Hk.
  destruct Hk as (Er & Htr & Hg0). subst rsv. cbn [m_items m_name m_ports].
  assert (Hties : ties k ## dom g) by (intros x Hx Hd; apply (Htr x Hx); by apply Hdr).
  assert (Hg0' : ∀ x j, g0 !! x = Some j → x ∈ ties k ∧ n_ty j ∈ [C0; C1; CX]) by (intros x j Hx; destruct (Hg0 x j Hx) as (? & ? & _); done).
  set (st0 := {| r_g := g0; r_bbs := ∅; r_ge := ∅; r_io := list_to_set (o_ins π ++ o_outs π); r_ins := ∅; r_outs := ∅ |}).
  assert (J0 : J k g g0 ∅ ∅ (r_g st0)).
  { simpl. split.
    - intros x j Hx. left. by destruct (Hg0 x j Hx).
    - done.
    - intros x i Hi _. rewrite bool_decide_eq_false_2 by set_solver. destruct (g0 !! x) as [j|] eqn:Ej; [|done]. exfalso.
      destruct (Hg0 x j Ej) as (Ht & _). apply (Hties x Ht). apply elem_of_dom; eauto.
    - intros x i _ _ Hx. set_solver.
    - intros x i Hi _ _. left. destruct (g0 !! x) as [j|] eqn:Ej; [|done]. exfalso.
      destruct (Hg0 x j Ej) as (Ht & _). apply (Hties x Ht). apply elem_of_dom; eauto. }
  destruct (read_inputs k g g0 Hties Hg0' Hty Hnames Hcl Hsingle (o_ins π) st0 ∅ J0 Ni) as (st1 & H1 & J1 & B1 & G1 & O1 & I1 & U1).
  { intros n Hn. split; [|set_solver]. rewrite <- Ei. by apply elem_of_list_to_set. }
  rewrite union_empty_r_L, Ei in J1.
  destruct (read_outputs k (o_outs π) st1) as (st2 & H2 & E2 & B2 & G2 & O2 & I2 & U2).
  rewrite <- E2 in J1.
  destruct (read_stmts k g g0 Hties Hg0' Hty Hnames Hcl Hsingle (o_fi π) st2 0 (inputs g) ∅ J1 eq_refl) as (st3 & H3 & J3 & B3 & G3 & O3 & I3 & U3).
  { by rewrite Ef. }
  { intros x Hx. assert (Hx1 : x.1 ∈ o_nodes π) by (rewrite <- Ef; apply elem_of_list_fmap; eauto).
    apply (proj2 (elem_of_list_to_set (C:=gset string) x.1 (o_nodes π))) in Hx1. rewrite En in Hx1. apply Hgt in Hx1 as (i & Hi & Ht). exists i. split; [done|]. split; [done|].
    split; [set_solver|]. rewrite Forall_forall in Ff. destruct (Ff x Hx) as [Hnd Hfs]. split; [done|].
    assert (Hfs' : list_to_set x.2 = n_fi i). { rewrite Hfs, Hbo. unfold fanin. rewrite Hi. simpl. set_solver. }
    split; [done|]. intros E. rewrite E in Hfs'. simpl in Hfs'. by apply (Hgate x.1 i Hi Ht). }
  rewrite union_empty_r_L, Ef, En in J3.
  rewrite rfold_app, H1. cbn [rbind]. rewrite rfold_app, H2. cbn [rbind]. rewrite rfold_app, (read_wires k (o_nodes π) st2). cbn [rbind]. rewrite H3. cbn [mbind res_mbind rbind].
  (* module() *)
  assert (Eins : r_ins st3 = inputs g). { rewrite I3, I2, I1. cbn. rewrite Ei. clear. set_solver. }
  assert (Eouts : r_outs st3 = outputs g). { rewrite U3, U2, U1. cbn. rewrite Eo. clear. set_solver. }
  assert (Eio : r_io st3 = inputs g ∪ outputs g). { rewrite O3, O2, O1. cbn. rewrite list_to_set_app_L, Ei, Eo. done. }
  assert (Ebb : r_bbs st3 = ∅) by (rewrite B3, B2, B1; done).
  destruct J3 as [Jd Jt Ji Jdn Jto].
  assert (Hnode : ∀ x i, g !! x = Some i → r_g st3 !! x = Some (mk_node (n_ty i) false (n_fi i))).
  { intros x i Hi. destruct (Hty x i Hi) as [E|E].
    - rewrite (Ji x i Hi E). rewrite bool_decide_eq_true_2 by (apply elem_of_inputs; eauto). by rewrite E, (Hin x i Hi E).
    - apply Jdn; [done|done|]. apply Hgt. eauto. }
  assert (Hfis : ∀ x j, r_g st3 !! x = Some j → ∀ f, f ∈ n_fi j → f ∈ dom g).
  { intros x j Hx f Hf. destruct (Jd x j Hx) as [Ht|Hd].
    - rewrite (Jt x Ht) in Hx. destruct (Hg0 x j Hx) as (_ & _ & E). rewrite E in Hf. by apply elem_of_empty in Hf.
    - apply elem_of_dom in Hd as [i Hi]. rewrite (Hnode x i Hi) in Hx. injection Hx as <-. simpl in Hf. by eapply Hcl. }
  unfold finish. rewrite Eins, Eouts, Eio.
  rewrite (bool_decide_eq_true_2 (inputs g ⊆ inputs g ∪ outputs g)) by (clear; set_solver).
  rewrite (bool_decide_eq_true_2 (outputs g ⊆ inputs g ∪ outputs g)) by (clear; set_solver).
  rewrite (bool_decide_eq_true_2 (inputs g ∪ outputs g ⊆ inputs g ∪ outputs g)) by done. cbn [negb].
  destruct (set_output_ok (elements (outputs g)) (r_g st3)) as [g' Hso].
  { intros x Hx. apply elem_of_elements, elem_of_outputs in Hx as (i & Hi & _). apply elem_of_dom. rewrite (Hnode x i Hi). eauto. }
  rewrite Hso. destruct (set_output_spec _ _ _ Hso) as [_ Hl].
  fold (drop_tie g' (k_t0 k)). fold (drop_tie (drop_tie g' (k_t0 k)) (k_t1 k)). fold (drop_tie (drop_tie (drop_tie g' (k_t0 k)) (k_t1 k)) (k_tx k)).
  assert (Hno : ∀ t, t ∈ ties k → ∀ x i, g' !! x = Some i → t ∉ n_fi i).
  { intros t Ht x i' Hx Hin'. rewrite Hl in Hx. destruct (r_g st3 !! x) as [j|] eqn:Ej; [|discriminate]. simpl in Hx.
    assert (Hfe : n_fi i' = n_fi j) by (case_bool_decide; injection Hx as <-; done). rewrite Hfe in Hin'.
    apply (Hties t Ht). by eapply Hfis. }
  rewrite (drop_tie_delete g' (k_t0 k)) by (apply Hno; unfold ties; clear; set_solver).
  rewrite (drop_tie_delete _ (k_t1 k)).
  2: { intros x i [_ Hx]%lookup_delete_Some. eapply Hno; [|exact Hx]. unfold ties. clear. set_solver. }
  rewrite (drop_tie_delete _ (k_tx k)).
  2: { intros x i [_ [_ Hx]%lookup_delete_Some]%lookup_delete_Some. eapply Hno; [|exact Hx]. unfold ties. clear. set_solver. }
  f_equal. destruct C as [nm gC bC]. simpl in *. subst bC. rewrite Ebb. f_equal.
  apply map_eq. intros x. destruct (decide (x ∈ ties k)) as [Ht|Ht].
  - assert (Hgx : g !! x = None). { apply not_elem_of_dom. intros Hd. by apply (Hties x Ht). }
    fold g. rewrite Hgx. destruct (delete (k_tx k) _ !! x) as [i|] eqn:E; [|done]. exfalso.
    apply lookup_delete_Some in E as [N1 E]. apply lookup_delete_Some in E as [N2 E]. apply lookup_delete_Some in E as [N3 E].
    unfold ties in Ht. clear -Ht N1 N2 N3. set_solver.
  - assert (N1 : k_tx k ≠ x) by (intros <-; apply Ht; unfold ties; clear; set_solver).
    assert (N2 : k_t1 k ≠ x) by (intros <-; apply Ht; unfold ties; clear; set_solver).
    assert (N3 : k_t0 k ≠ x) by (intros <-; apply Ht; unfold ties; clear; set_solver).
    rewrite !lookup_delete_ne by done. rewrite Hl. fold g. destruct (g !! x) as [i|] eqn:Hi.
    + rewrite (Hnode x i Hi). simpl. destruct (n_out i) eqn:Eout.
      * rewrite bool_decide_eq_true_2 by (apply elem_of_elements, elem_of_outputs; eauto). destruct i as [ti oi fi]. simpl in *. by subst oi.
      * rewrite bool_decide_eq_false_2.
        { destruct i as [ti oi fi]. simpl in *. by subst oi. }
        intros (i' & Hi' & Ho')%elem_of_elements%elem_of_outputs. congruence.
    + destruct (r_g st3 !! x) as [j|] eqn:Ej; [|done]. exfalso. destruct (Jd x j Ej) as [?|Hd]; [done|]. apply elem_of_dom in Hd as [? ?]. congruence.
Qed.


(* lint-clean circuits (any flags) without constants and pin-typed nodes, closed, every gate driven, usable names *)
Lemma lint_clean_rt C f : Lint.lint C f = Ok () →
  (∀ n i, c_g C !! n = Some i → n_ty i ∈ gate_types → n_fi i ≠ ∅) →
  (∀ n, n ∈ dom (c_g C) → n ≠ "" ∧ starts_digit n = false) → closed (c_g C) →
  of_type (c_g C) (λ t, bool_decide (t ∈ const_types)) = ∅ → of_type (c_g C) (λ t, is_ty BbIn t || is_ty BbOut t) = ∅ →
  rt_clean (c_g C).
Proof.
  intros Hl Hgate Hnames Hcl Hnc Hnp.
  assert (Hnb : ∀ n i, c_g C !! n = Some i → Lint.node_bad Lint.gen_tables C f n i = false).
  { unfold Lint.lint, Lint.lint_with in Hl. destruct (existsb _ (map_to_list (c_g C)) || _) eqn:E; [discriminate|].
    apply orb_false_elim in E as [E _]. intros n i Hi. apply (ComposeProofs.existsb_false _ _ E (n, i)). by apply elem_of_map_to_list. }
  assert (Hr : ∀ n i, c_g C !! n = Some i →
            n_ty i ∈ Gen_types.supported_types ∧
            (n_ty i ∈ Gen_lint.zero_input_types → size (n_fi i) = 0) ∧ (n_ty i ∈ Gen_lint.single_input_types → size (n_fi i) ≤ 1)).
  { intros n i Hi. specialize (Hnb n i Hi). unfold Lint.node_bad, Lint.node_rules in Hnb. cbn [existsb id] in Hnb.
    repeat (apply orb_false_elim in Hnb as [? Hnb]).
    repeat match goal with H : _ && _ = false |- _ => apply andb_false_iff in H end.
    unfold Lint.inl in *. cbn [Lint.supported_types Lint.zero_input_types Lint.single_input_types Lint.gen_tables] in *.
    split; [|split].
    - match goal with Hx : negb (bool_decide (n_ty i ∈ Gen_types.supported_types)) = false ∨ _ |- _ => destruct Hx as [Hy|Hy] end.
      + by apply negb_false_iff, bool_decide_eq_true in Hy.
      + exfalso. destruct (bool_decide (n_ty i = NoTy)); simpl in *; discriminate.
    - intros Hz. match goal with Hx : bool_decide (n_ty i ∈ Gen_lint.zero_input_types) = false ∨ _ |- _ => destruct Hx as [Hy|Hy] end.
      + by apply bool_decide_eq_false in Hy.
      + apply Nat.ltb_ge in Hy. lia.
    - intros Hz. match goal with Hx : bool_decide (n_ty i ∈ Gen_lint.single_input_types) = false ∨ _ |- _ => destruct Hx as [Hy|Hy] end.
      + by apply bool_decide_eq_false in Hy.
      + apply Nat.ltb_ge in Hy. lia. }
  assert (Hty : ∀ n i, c_g C !! n = Some i → n_ty i = Input ∨ n_ty i ∈ gate_types).
  { intros n i Hi. destruct (Hr n i Hi) as (Hs & _).
    assert (H1 : n_ty i ∉ const_types).
    { intros Hc. assert (n ∈ of_type (c_g C) (λ t, bool_decide (t ∈ const_types))) by (apply elem_of_of_type; exists i; by rewrite bool_decide_eq_true_2).
      rewrite Hnc in H. by apply elem_of_empty in H. }
    assert (H2 : n_ty i ≠ BbIn ∧ n_ty i ≠ BbOut).
    { split; intros Hc; (assert (n ∈ of_type (c_g C) (λ t, is_ty BbIn t || is_ty BbOut t)) as H by (apply elem_of_of_type; exists i; rewrite Hc; done));
        rewrite Hnp in H; by apply elem_of_empty in H. }
    unfold Gen_types.supported_types, const_types, gate_types in *. destruct H2 as [H2 H3]. destruct (n_ty i); set_solver. }
  split; try done.
  - intros n i Hi Ht. destruct (Hr n i Hi) as (_ & Hz & _). apply leibniz_equiv, size_empty_iff. apply Hz. rewrite Ht. unfold Gen_lint.zero_input_types. set_solver.
  - intros n i Hi Ht. destruct (Hr n i Hi) as (_ & _ & Hs).
    assert (Hle : size (n_fi i) ≤ 1) by (apply Hs; unfold Gen_lint.single_input_types; destruct Ht as [-> | ->]; set_solver).
    assert (Hne : n_fi i ≠ ∅) by (apply (Hgate n i Hi); unfold gate_types; destruct Ht as [-> | ->]; set_solver).
    assert (size (n_fi i) ≠ 0) by (intros E; apply size_empty_iff in E; apply Hne; by apply leibniz_equiv). lia.
Qed.
