(* Proofs for C02, eighth part: success of the read for modules with blackbox instances.  Names without dots (pretty_nodot,
   uid_nodot, join_nodot; a pin name has a dot), invariant sinv X g (the pin-typed nodes are the pins X read so far, they have
   dotted names, every other node has none), success of add / gate / expressions / statements in the presence of pins
   (add_g_succeeds_x ... prims_succ_x), success of one blackbox instance (outs_succ, ph2_succ, mkpins_succ, bconn_succ:
   every connect() check passes; bb_instance_succ), of a blackbox statement (bbs_succ), of all items (items_succ_x) and of
   module() (read_succeeds_bb). *)
From Coq Require Import Ascii.
From CG Require Import Verilog.ExprParse.
From stdpp Require Import strings gmap sets fin_sets pretty.
From CG Require Import Types Sem Fold Api Verilog.Ast Verilog.Read Verilog.Write Proofs.VerilogProofs Run.Run_C02 Proofs.VerilogReadProofs Proofs.VerilogDenoteProofs Proofs.VerilogBbProofs Proofs.VerilogConvProofs Proofs.VerilogRtProofs Proofs.VerilogSuccProofs Proofs.VerilogPinProofs.
From CG Require Proofs.ComposeProofs Proofs.BlackboxProofs Model.Compose6 Model.Lint.
Open Scope string_scope.


(* ------------------------------------------------------------------ names without a dot *)
Notation has_dot := Lint.has_dot.
Definition nodot (s : string) : Prop := has_dot s = false.
Lemma has_dot_app a b : has_dot (a ++ b) = has_dot a || has_dot b.
Proof. induction a as [|c a IH]; simpl; [done|]. by destruct (Ascii.eqb c "."%char). Qed.
Lemma nodot_app a b : nodot a → nodot b → nodot (a ++ b).
Proof. unfold nodot. intros Ha Hb. by rewrite has_dot_app, Ha, Hb. Qed.
Lemma pretty_N_char_nodot x : Ascii.eqb (pretty_N_char x) "."%char = false.
Proof. unfold pretty_N_char. repeat case_match; done. Qed.
Lemma pretty_N_go_nodot x : ∀ s, has_dot (pretty_N_go x s) = has_dot s.
Proof.
  induction (N.lt_wf_0 x) as [x _ IH]. intros s. destruct (decide (0 < x)%N) as [Hx|Hx].
  - rewrite pretty_N_go_step by done. rewrite IH by (by apply N.div_lt). simpl. by rewrite pretty_N_char_nodot.
  - assert (x = 0%N) as -> by lia. by rewrite pretty_N_go_0.
Qed.
Lemma pretty_nodot (x : N) : nodot (pretty x).
Proof. unfold nodot, pretty, pretty_N. case_decide; [done|]. by rewrite pretty_N_go_nodot. Qed.
Lemma uid_loop_nodot fuel used n : nodot n → ∀ i, nodot (uid_loop fuel used n i).
Proof.
  intros Hn. induction fuel as [|f IH]; intros i; simpl.
  - apply nodot_app; [done|]. apply nodot_app; [done|apply pretty_nodot].
  - case_bool_decide; [apply IH|]. apply nodot_app; [done|]. apply nodot_app; [done|apply pretty_nodot].
Qed.
Lemma uid_nodot used n : nodot n → nodot (uid_in used n).
Proof. intros H. unfold uid_in. case_bool_decide; [by apply uid_loop_nodot|done]. Qed.
Lemma join_nodot l : Forall nodot l → nodot (join_ l).
Proof.
  destruct l as [|x r]; [done|]. intros HF. inversion HF as [|? ? Hx Hr]; subst. clear HF. simpl. revert x Hx. induction r as [|y r IH]; intros x Hx; simpl; [done|].
  inversion Hr as [|? ? Hy Hr']; subst. apply IH; [done|]. apply nodot_app; [done|]. by apply nodot_app.
Qed.
Lemma pin_dot inst p : has_dot (pin inst p) = true.
Proof. unfold pin. rewrite has_dot_app. simpl. by rewrite orb_true_r. Qed.
Lemma init_nodot rsv bbs : ∀ t, t ∈ ties (init_ctx rsv bbs).1 → nodot t.
Proof.
  intros t. unfold ties, init_ctx. cbv zeta. simpl. rewrite !elem_of_union, !elem_of_singleton. intros [[->| ->]| ->]; by apply uid_nodot.
Qed.


(* pin-typed nodes are the pins X of the instances read so far; they have dotted names, every other node has none *)
Record sinv (X : gset string) (g : circuit) : Prop := mk_sinv {
  si_pin : ∀ x j, g !! x = Some j → n_ty j = BbIn ∨ n_ty j = BbOut → x ∈ X;
  si_dot : ∀ x, x ∈ dom g → x ∈ X ∨ nodot x;
  si_X : ∀ x, x ∈ X → has_dot x = true }.
Lemma sinv_nopin X g f j : sinv X g → nodot f → g !! f = Some j → n_ty j ≠ BbIn ∧ n_ty j ≠ BbOut.
Proof.
  intros [Sp Sd Sx] Hf Hj. split; intros E; [assert (f ∈ X) by (eapply Sp; eauto)|assert (f ∈ X) by (eapply Sp; eauto)]; unfold nodot in Hf; rewrite (Sx f) in Hf; done.
Qed.

Lemma add_g_succeeds_x (c : circuit) n t fi : t ∈ gate_types → good_name n → Forall (λ f, f ∈ dom c ∨ good_name f) fi → fi ≠ [] →
  (t = Buf ∨ t = Not → length fi = 1) → fanin c n = ∅ → (∀ u j, u ∈ fi → c !! u = Some j → n_ty j ≠ BbIn ∧ n_ty j ≠ BbOut) →
  ∃ g', add_g c n t fi [] rd_flags = (g', Done, n).
Proof.
  intros Ht [Hn1 Hn2] Hfi Hne Hlen Hf0 Hnp. unfold add_g. cbn [af_uid af_redef af_conn af_out rd_flags]. cbn [negb andb].
  rewrite andb_false_r. cbn [negb].
  assert (Hsup : bool_decide (t ∈ supported_types) = true).
  { apply bool_decide_eq_true. unfold gate_types in Ht. unfold supported_types. set_solver. }
  rewrite Hsup. cbn [negb].
  assert (H3 : (1 <? length fi)%nat && bool_decide (t ∈ add_single_fanin) = false).
  { destruct (decide (t ∈ add_single_fanin)) as [Hin|Hout]; [|by rewrite (bool_decide_eq_false_2 _ Hout), andb_false_r].
    unfold add_single_fanin in Hin. rewrite Hlen by set_solver. done. }
  rewrite H3.
  assert (H4 : negb (bool_decide (fi = [])) && bool_decide (t ∈ add_no_fanin) = false).
  { rewrite (bool_decide_eq_false_2 (t ∈ add_no_fanin)); [by rewrite andb_false_r|]. unfold add_no_fanin, gate_types in *. set_solver. }
  rewrite H4. rewrite (bool_decide_eq_false_2 (n = "")) by done. rewrite Hn2. rewrite app_nil_r. fold ph_step.
  set (c1 := <[n:=mk_node t false (fanin c n)]> c).
  destruct (ph_succeeds' fi c1) as [c2 Hph].
  { eapply Forall_impl; [exact Hfi|]. intros x [Hx|Hx]; [left|by right]. unfold c1. rewrite dom_insert. by apply elem_of_union_r. }
  rewrite Hph. destruct (ph_ok _ _ _ Hph) as (Hs & Hnew & Hd).
  assert (Hc0 : connect_g c2 [n] [] = (c2, Done)) by (unfold connect_g; by rewrite orb_true_r).
  rewrite Hc0.
  assert (H1n : c2 !! n = Some (mk_node t false ∅)).
  { eapply lookup_weaken; [|exact Hs]. unfold c1. by rewrite lookup_insert, Hf0. }
  assert (Htyc2 : ∀ u j, u ∈ fi → c2 !! u = Some j → n_ty j ≠ BbIn ∧ n_ty j ≠ BbOut).
  { intros u j Hufi Hu. assert (Hdu : u ∈ dom c2) by (apply elem_of_dom; eauto). destruct (Hnew u Hdu) as [Hd1|[_ Hb]].
    - apply elem_of_dom in Hd1 as [j' Hj']. pose proof (lookup_weaken _ _ _ _ Hj' Hs). assert (j' = j) as -> by congruence.
      unfold c1 in Hj'. apply lookup_insert_Some in Hj' as [[_ <-]|[_ Hj']]; [|by eapply Hnp].
      simpl. unfold gate_types in Ht. split; intros ->; set_solver.
    - rewrite Hb in Hu. injection Hu as <-. done. }
  assert (Hcc : connect_g c2 fi [n] = (foldl (λ c' (p : string * string), add_edge c' p.1 p.2) c2 (pairs fi [n]), Done)).
  { unfold connect_g. rewrite (bool_decide_eq_false_2 (fi = [])) by done. rewrite (bool_decide_eq_false_2 ([n] = [])) by done. cbn [orb].
    assert (Hall : forallb (λ x, bool_decide (x ∈ dom c2)) (fi ++ [n]) = true).
    { apply forallb_forall. intros x Hx. apply bool_decide_eq_true. apply elem_of_list_In, elem_of_app in Hx as [Hx|Hx%elem_of_list_singleton].
      - by apply Hd.
      - subst. apply elem_of_dom. eauto. }
    rewrite Hall. cbn [negb].
    assert (Hck : connect_check c2 fi [n] = true).
    { unfold connect_check. apply andb_true_iff. split; apply negb_true_iff.
      - cbn [existsb]. rewrite orb_false_r. unfold ty. rewrite H1n. cbn [fmap option_fmap option_map n_ty mk_node is_in].
        rewrite (bool_decide_eq_false_2 (t ∈ conn_no_fanin)) by (unfold conn_no_fanin, gate_types in *; set_solver). cbn [orb].
        destruct (decide (t ∈ conn_single_fanin)) as [Hin|Hout]; [|by rewrite (bool_decide_eq_false_2 _ Hout)].
        rewrite (bool_decide_eq_true_2 _ Hin). cbn [andb]. unfold fanin. rewrite H1n. cbn. rewrite size_empty.
        rewrite Hlen; [done|]. unfold conn_single_fanin, gate_types in *. set_solver.
      - apply existsb_false_intro. intros u Hu. destruct (c2 !! u) as [j|] eqn:Eu.
        + destruct (Htyc2 u j Hu Eu) as [Hb1 Hb2]. unfold ty. rewrite Eu. cbn [fmap option_fmap option_map is_in].
          rewrite (bool_decide_eq_false_2 (n_ty j ∈ conn_no_fanout)) by (unfold conn_no_fanout; set_solver).
          rewrite (bool_decide_eq_false_2 (n_ty j ∈ conn_bbout)) by (unfold conn_bbout; set_solver). done.
        + unfold ty. rewrite Eu. done. }
    rewrite Hck. done. }
  rewrite Hcc. eauto.
Qed.

(* operands: nodes or usable names, without dots *)
Definition opx (g : circuit) (f : string) : Prop := (f ∈ dom g ∨ good_name f) ∧ nodot f.
Lemma opx_mono (g g' : circuit) f : (∀ x, x ∈ dom g → x ∈ dom g') → opx g f → opx g' f.
Proof. intros Hs [[?|?] ?]; (split; [|done]); [left; by apply Hs|by right]. Qed.

Lemma add_node_succeeds_x k X (g : circuit) n t fi : t ∈ gate_types → good_name n → nodot n → Forall (opx g) fi → fi ≠ [] →
  (t = Buf ∨ t = Not → length fi = 1) → undef_ok g n → sinv X g →
  ∃ g', add_node (k_rsv k) g n t fi false = Ok (g', n) ∧ sinv X g'.
Proof.
  intros Ht Hn Hnd Hfi Hne Hlen Hu HS. pose proof HS as [Sp Sd Sx].
  assert (Hf0 : fanin g n = ∅). { unfold fanin. destruct (g !! n) as [j|] eqn:Ej; [|done]. simpl. by destruct (Hu j Ej). }
  destruct (add_g_succeeds_x g n t fi Ht Hn) as [g' Hg]; [|done|done|done| |].
  { eapply Forall_impl; [exact Hfi|]. by intros f [? _]. }
  { intros u j Hu' Hj. rewrite Forall_forall in Hfi. destruct (Hfi u Hu') as [_ Hud]. by eapply sinv_nopin. }
  exists g'. assert (Ha : add_node (k_rsv k) g n t fi false = Ok (g', n)) by (unfold add_node, lift; by rewrite Hg). split; [done|].
  pose proof (add_node_shape k g n t fi g' n Ha) as (Hl & Hx & _). split; [| |done].
  - intros x j Hj Hty. destruct (decide (x = n)) as [->|Hxn].
    + rewrite Hl in Hj. injection Hj as <-. simpl in Hty. unfold gate_types in Ht. destruct Hty as [-> | ->]; set_solver.
    + destruct (Hx x Hxn) as [E|(_ & _ & E)]; [rewrite E in Hj; by eapply Sp|]. rewrite E in Hj. injection Hj as <-. by destruct Hty.
  - intros x Hxd. destruct (decide (x = n)) as [->|Hxn]; [by right|]. apply elem_of_dom in Hxd as [j Hj].
    destruct (Hx x Hxn) as [E|(_ & Hf & _)]; [apply Sd; apply elem_of_dom; exists j; by rewrite <- E|]. right. rewrite Forall_forall in Hfi. by destruct (Hfi x Hf).
Qed.
Lemma gate_succeeds_x k X su prefix t items fi rem : t ∈ gate_types5 → good_name prefix → nodot prefix → Forall nodot items → Forall (opx su.1) fi → fi ≠ [] →
  (t = Not → length fi = 1) → sinv X su.1 →
  ∃ st' r, gate k su prefix t items fi rem = Ok (st', r) ∧ sinv X st'.1 ∧ r ∈ dom st'.1 ∧ nodot r.
Proof.
  intros Ht Hp Hpd Hit Hfi Hne Hlen HS. pose proof HS as [Sp Sd Sx]. unfold gate, add_node.
  set (n := uid_in (dom su.1 ∪ k_rsv k) (prefix ++ "_" ++ join_ items)).
  assert (Hn : n ∉ dom su.1 ∪ k_rsv k) by apply uid_in_fresh.
  assert (Hgn : good_name n) by (apply uid_good; by apply good_name_app).
  assert (Hnd : nodot n). { apply uid_nodot. apply nodot_app; [done|]. apply nodot_app; [done|by apply join_nodot]. }
  assert (Hf0 : fanin su.1 n = ∅). { unfold fanin. assert (su.1 !! n = None) as -> by (apply not_elem_of_dom; set_solver). done. }
  assert (Ht8 : t ∈ gate_types) by (unfold gate_types5, gate_types in *; set_solver).
  destruct (add_g_succeeds_x su.1 n t fi Ht8 Hgn) as [g' Hg]; [|done| |done| |].
  { eapply Forall_impl; [exact Hfi|]. by intros f [? _]. }
  { intros [->| ->]; [unfold gate_types5 in Ht; set_solver|by apply Hlen]. }
  { intros u j Hu' Hj. rewrite Forall_forall in Hfi. destruct (Hfi u Hu') as [_ Hud]. by eapply sinv_nopin. }
  rewrite Hg. cbn. eexists _, _. split; [done|]. cbn [fst].
  apply add_g_gen in Hg as (_ & Hl & Hx); [|done]. split; [split; [| |done]|split; [apply elem_of_dom; eauto|done]].
  - intros x j Hj Hty. destruct (decide (x = n)) as [->|Hxn].
    + rewrite Hl in Hj. injection Hj as <-. simpl in Hty. unfold gate_types in Ht8. destruct Hty as [-> | ->]; set_solver.
    + destruct (Hx x Hxn) as [E|(_ & _ & _ & E)]; [rewrite E in Hj; by eapply Sp|]. rewrite E in Hj. injection Hj as <-. by destruct Hty.
  - intros x Hxd. destruct (decide (x = n)) as [->|Hxn]; [by right|]. apply elem_of_dom in Hxd as [j Hj].
    destruct (Hx x Hxn) as [E|(_ & Hf & _)]; [apply Sd; apply elem_of_dom; exists j; by rewrite <- E|]. right. rewrite Forall_forall in Hfi. by destruct (Hfi x Hf).
Qed.


Section succx.
  Context (k : rctx) (X : gset string).
  Hypothesis Hties : ∀ t, t ∈ ties k → nodot t.
  (* every expression callback succeeds on a well-formed state without pin-typed nodes when the identifiers are usable names;
     the returned node exists or is an identifier of the expression *)
  Definition sqx {T} (cf : rctx → cstate → T → res (cstate * string)) (idf : T → list string) (e : T) : Prop :=
    ∀ st, gst k st → sinv X st.1 → (∀ s, s ∈ idf e → good_name s ∧ nodot s) →
      ∃ st' r, cf k st e = Ok (st', r) ∧ sinv X st'.1 ∧ ((r ∈ dom st'.1 ∨ r ∈ idf e) ∧ nodot r).
  Lemma opnd_okx (g g' : circuit) (ids : list string) r : g ⊆ g' → (∀ s, s ∈ ids → good_name s ∧ nodot s) → (r ∈ dom g ∨ r ∈ ids) ∧ nodot r → opx g' r.
  Proof. intros Hs Hg [[Hd|Hi] Hn]; (split; [|done]); [left; by apply (subseteq_dom _ _ Hs)|right; by apply Hg]. Qed.
  Lemma gnx s : s ≠ "" → starts_digit s = false → good_name s. Proof. by split. Qed.
  Lemma tie_domx st c : gst k st → konst_node k c ∈ dom st.1.
  Proof. intros (_ & Hti & _). apply Hti. destruct c; unfold ties; simpl; set_solver. Qed.

  Lemma succ_allx : (∀ p, sqx c_prim ids_prim p) ∧ (∀ u, sqx c_unary ids_unary u) ∧ (∀ a, sqx c_and ids_and a) ∧
                   (∀ x, sqx c_xor ids_xor x) ∧ (∀ o, sqx c_or ids_or o).
  Proof.
    destruct (frg_levels k) as (Fp & Fu & Fa & Fx & Fo).
    apply expr_mutind; unfold sqx.
    - intros s st G Hnp Hid. exists st, s. split; [done|]. split; [done|]. split; [right; simpl; by left|]. apply Hid. simpl. by left.
    - intros c st G Hnp Hid. exists st, (konst_node k c). split; [done|]. split; [done|]. split; [left; by apply tie_domx|]. apply Hties. destruct c; unfold ties; simpl; set_solver.
    - intros o IH st G Hnp Hid. by apply IH.
    - intros p IH st G Hnp Hid. by apply IH.
    - intros p IH st G Hnp Hid. destruct (IH st G Hnp Hid) as (st1 & r1 & H1 & N1 & O1 & Q1).
      destruct (gate_succeeds_x k X st1 "not" Not [r1] [r1] true) as (st' & r & H2 & N2 & D2 & E2); [unfold gate_types5; inlist|by apply gnx|done|(repeat constructor; done)| |done|done|done|].
      { constructor; [|constructor]. by eapply (opnd_okx st1.1 st1.1). }
      exists st', r. split; [simpl; rewrite H1; exact H2|]. split; [done|split; [by left|done]].
    - intros u IH st G Hnp Hid. by apply IH.
    - intros a IHa u IHu st G Hnp Hid. simpl in Hid.
      destruct (IHa st G Hnp) as (st1 & ra & H1 & N1 & O1 & Q1); [intros s Hs; apply Hid; rewrite ?elem_of_app; tauto|].
      destruct (Fa a _ _ _ H1) as [S1 G1]. specialize (G1 G).
      destruct (IHu st1 G1 N1) as (st2 & ru & H2 & N2 & O2 & Q2); [intros s Hs; apply Hid; rewrite ?elem_of_app; tauto|].
      destruct (Fu u _ _ _ H2) as [S2 G2].
      destruct (gate_succeeds_x k X st2 "and" And [ra; ru] [ra; ru] true) as (st' & r & H3 & N3 & D3 & E3); [unfold gate_types5; inlist|by apply gnx|done|(repeat constructor; done)| |done|done|done|].
      { constructor; [|constructor; [|constructor]].
        - eapply (opnd_okx st1.1 st2.1 (ids_and a)); [done| |done]. intros s Hs; apply Hid; rewrite ?elem_of_app; tauto.
        - eapply (opnd_okx st2.1 st2.1 (ids_unary u)); [done| |done]. intros s Hs; apply Hid; rewrite ?elem_of_app; tauto. }
      exists st', r. split; [simpl; rewrite H1; simpl; rewrite H2; exact H3|]. split; [done|split; [by left|done]].
    - intros a IH st G Hnp Hid. by apply IH.
    - intros x IHx a IHa st G Hnp Hid. simpl in Hid.
      destruct (IHx st G Hnp) as (st1 & rx & H1 & N1 & O1 & Q1); [intros s Hs; apply Hid; rewrite ?elem_of_app; tauto|].
      destruct (Fx x _ _ _ H1) as [S1 G1]. specialize (G1 G).
      destruct (IHa st1 G1 N1) as (st2 & ra & H2 & N2 & O2 & Q2); [intros s Hs; apply Hid; rewrite ?elem_of_app; tauto|].
      destruct (Fa a _ _ _ H2) as [S2 G2]. specialize (G2 G1).
      destruct (decide (rx = ra)) as [Heq|Hne].
      + exists st2, (k_t0 k). split; [simpl; rewrite H1; simpl; rewrite H2; simpl; by rewrite bool_decide_eq_true_2|]. split; [done|]. split; [left; apply (tie_domx st2 K0 G2)|apply Hties; unfold ties; set_solver].
      + destruct (gate_succeeds_x k X st2 "xor" Xor [rx; ra] [rx; ra] true) as (st' & r & H3 & N3 & D3 & E3); [unfold gate_types5; inlist|by apply gnx|done|(repeat constructor; done)| |done|done|done|].
        { constructor; [|constructor; [|constructor]].
          - eapply (opnd_okx st1.1 st2.1 (ids_xor x)); [done| |done]. intros s Hs; apply Hid; rewrite ?elem_of_app; tauto.
          - eapply (opnd_okx st2.1 st2.1 (ids_and a)); [done| |done]. intros s Hs; apply Hid; rewrite ?elem_of_app; tauto. }
        exists st', r. split; [simpl; rewrite H1; simpl; rewrite H2; simpl; rewrite bool_decide_eq_false_2 by done; exact H3|]. split; [done|split; [by left|done]].
    - intros x IHx a IHa st G Hnp Hid. simpl in Hid.
      destruct (IHx st G Hnp) as (st1 & rx & H1 & N1 & O1 & Q1); [intros s Hs; apply Hid; rewrite ?elem_of_app; tauto|].
      destruct (Fx x _ _ _ H1) as [S1 G1]. specialize (G1 G).
      destruct (IHa st1 G1 N1) as (st2 & ra & H2 & N2 & O2 & Q2); [intros s Hs; apply Hid; rewrite ?elem_of_app; tauto|].
      destruct (Fa a _ _ _ H2) as [S2 G2]. specialize (G2 G1).
      destruct (decide (rx = ra)) as [Heq|Hne].
      + exists st2, (k_t1 k). split; [simpl; rewrite H1; simpl; rewrite H2; simpl; by rewrite bool_decide_eq_true_2|]. split; [done|]. split; [left; apply (tie_domx st2 K1 G2)|apply Hties; unfold ties; set_solver].
      + destruct (gate_succeeds_x k X st2 "xnor" Xnor [rx; ra] [rx; ra] true) as (st' & r & H3 & N3 & D3 & E3); [unfold gate_types5; inlist|by apply gnx|done|(repeat constructor; done)| |done|done|done|].
        { constructor; [|constructor; [|constructor]].
          - eapply (opnd_okx st1.1 st2.1 (ids_xor x)); [done| |done]. intros s Hs; apply Hid; rewrite ?elem_of_app; tauto.
          - eapply (opnd_okx st2.1 st2.1 (ids_and a)); [done| |done]. intros s Hs; apply Hid; rewrite ?elem_of_app; tauto. }
        exists st', r. split; [simpl; rewrite H1; simpl; rewrite H2; simpl; rewrite bool_decide_eq_false_2 by done; exact H3|]. split; [done|split; [by left|done]].
    - intros x IH st G Hnp Hid. by apply IH.
    - intros o IHo x IHx st G Hnp Hid. simpl in Hid.
      destruct (IHo st G Hnp) as (st1 & ro & H1 & N1 & O1 & Q1); [intros s Hs; apply Hid; rewrite ?elem_of_app; tauto|].
      destruct (Fo o _ _ _ H1) as [S1 G1]. specialize (G1 G).
      destruct (IHx st1 G1 N1) as (st2 & rx & H2 & N2 & O2 & Q2); [intros s Hs; apply Hid; rewrite ?elem_of_app; tauto|].
      destruct (Fx x _ _ _ H2) as [S2 G2].
      destruct (gate_succeeds_x k X st2 "or" Or [ro; rx] [ro; rx] true) as (st' & r & H3 & N3 & D3 & E3); [unfold gate_types5; inlist|by apply gnx|done|(repeat constructor; done)| |done|done|done|].
      { constructor; [|constructor; [|constructor]].
        - eapply (opnd_okx st1.1 st2.1 (ids_or o)); [done| |done]. intros s Hs; apply Hid; rewrite ?elem_of_app; tauto.
        - eapply (opnd_okx st2.1 st2.1 (ids_xor x)); [done| |done]. intros s Hs; apply Hid; rewrite ?elem_of_app; tauto. }
      exists st', r. split; [simpl; rewrite H1; simpl; rewrite H2; exact H3|]. split; [done|split; [by left|done]].
  Qed.

  Theorem succ_condx e st : gst k st → sinv X st.1 → (∀ s, s ∈ ids_cond e → good_name s ∧ nodot s) →
    ∃ st' r, c_cond k st e = Ok (st', r) ∧ sinv X st'.1 ∧ ((r ∈ dom st'.1 ∨ r ∈ ids_cond e) ∧ nodot r).
  Proof.
    destruct succ_allx as (_ & _ & _ & _ & So). destruct (frg_levels k) as (_ & _ & _ & _ & Fo).
    destruct e as [o|s a b]; intros G Hnp Hid; [by apply So|]. simpl in Hid.
    destruct (So s st G Hnp) as (st1 & r1 & H1 & N1 & O1 & Q1); [intros y Hy; apply Hid; rewrite ?elem_of_app; tauto|].
    destruct (Fo s _ _ _ H1) as [S1 G1]. specialize (G1 G).
    destruct (So a st1 G1 N1) as (st2 & r2 & H2 & N2 & O2 & Q2); [intros y Hy; apply Hid; rewrite ?elem_of_app; tauto|].
    destruct (Fo a _ _ _ H2) as [S2 G2]. specialize (G2 G1).
    destruct (So b st2 G2 N2) as (st3 & r3 & H3 & N3 & O3 & Q3); [intros y Hy; apply Hid; rewrite ?elem_of_app; tauto|].
    destruct (Fo b _ _ _ H3) as [S3 G3]. specialize (G3 G2).
    assert (P1 : opx st3.1 r1).
    { eapply (opnd_okx st1.1 st3.1 (ids_or s)); [by etrans| |done]. intros y Hy; apply Hid; rewrite ?elem_of_app; tauto. }
    assert (P2 : opx st3.1 r2).
    { eapply (opnd_okx st2.1 st3.1 (ids_or a)); [done| |done]. intros y Hy; apply Hid; rewrite ?elem_of_app; tauto. }
    assert (P3 : opx st3.1 r3).
    { eapply (opnd_okx st3.1 st3.1 (ids_or b)); [done| |done]. intros y Hy; apply Hid; rewrite ?elem_of_app; tauto. }
    assert (Hup : ∀ (g g' : circuit) x, g ⊆ g' → opx g x → opx g' x).
    { intros g g' x Hs. apply opx_mono. intros y Hy. by apply (subseteq_dom _ _ Hs). }
    destruct (gate_succeeds_x k X st3 "mux_n" Not [r1; r2; r3] [r1] false) as (sn & n & Hn & Nn & Dn & En); [unfold gate_types5; inlist|by apply gnx|done|(repeat constructor; done)| |done|done|done|].
    { constructor; [done|constructor]. }
    edestruct (frg_gate k) as [Sn Gn]; [| |exact Hn|]; [inlist|done|]. specialize (Gn G3).
    destruct (gate_succeeds_x k X sn "mux_a0" And [r1; r2; r3] [n; r3] false) as (sa0 & a0 & Ha0 & Na0 & Da0 & Ea0); [unfold gate_types5; inlist|by apply gnx|done|(repeat constructor; done)| |done|done|done|].
    { constructor; [split; [by left|done]|constructor; [by eapply Hup|constructor]]. }
    edestruct (frg_gate k) as [Sa0 Ga0]; [| |exact Ha0|]; [inlist|done|]. specialize (Ga0 Gn).
    destruct (gate_succeeds_x k X sa0 "mux_a1" And [r1; r2; r3] [r1; r2] false) as (sa1 & a1 & Ha1 & Na1 & Da1 & Ea1); [unfold gate_types5; inlist|by apply gnx|done|(repeat constructor; done)| |done|done|done|].
    { constructor; [eapply Hup; [exact Sa0|]; by eapply Hup|constructor; [eapply Hup; [exact Sa0|]; by eapply Hup|constructor]]. }
    edestruct (frg_gate k) as [Sa1 Ga1]; [| |exact Ha1|]; [inlist|done|].
    destruct (gate_succeeds_x k X sa1 "mux_o" Or [r1; r2; r3] [a0; a1] true) as (so & ro & Ho & No & Do & Eo); [unfold gate_types5; inlist|by apply gnx|done|(repeat constructor; done)| |done|done|done|].
    { constructor; [split; [left; by apply (subseteq_dom _ _ Sa1)|done]|constructor; [split; [by left|done]|constructor]]. }
    exists so, ro. split; [|split; [done|split; [by left|done]]].
    unfold c_cond. rewrite H1. cbn [mbind res_mbind rbind fst snd]. rewrite H2. cbn [mbind res_mbind rbind fst snd]. rewrite H3. cbn [mbind res_mbind rbind fst snd].
    rewrite Hn. cbn [mbind res_mbind rbind fst snd]. rewrite Ha0. cbn [mbind res_mbind rbind fst snd]. rewrite Ha1. cbn [mbind res_mbind rbind fst snd]. exact Ho.
  Qed.
End succx.


Section isuccx.
  Context (k : rctx) (NN DD X : gset string).
  Hypothesis Htr : ties k ## k_rsv k.
  Hypothesis HNN : NN ⊆ k_rsv k.
  Hypothesis Hgood : ∀ s, s ∈ NN → good_name s ∧ nodot s.
  Hypothesis Hties : ∀ t, t ∈ ties k → nodot t.

  Lemma inputs_succ_x ns : ∀ g : circuit, (∀ n, n ∈ ns → n ∈ NN) → sinv X g →
    ∃ g', rfold (λ g n, r ← add_node (k_rsv k) g n Input [] false; Ok r.1) g ns = Ok g' ∧ sinv X g' ∧
          (∀ x, x ∈ dom g → x ∈ dom g') ∧ (∀ n, n ∈ ns → n ∈ dom g').
  Proof.
    induction ns as [|n ns IH]; intros g Hn HS.
    - exists g. split; [done|]. split; [done|]. split; [done|]. intros n Hin. by apply elem_of_nil in Hin.
    - destruct (Hgood n) as [Hg Hd]; [apply Hn; by left|]. pose proof HS as [Sp Sd Sx].
      destruct (IH (<[n := mk_node Input false (fanin g n)]> g)) as (g' & H' & N' & D' & I'); [intros; apply Hn; by right| |].
      { split; [| |done].
        - intros x j Hx Hty. apply lookup_insert_Some in Hx as [[_ <-]|[_ Hx]]; [simpl in Hty; by destruct Hty|by eapply Sp].
        - intros x Hx. rewrite dom_insert in Hx. apply elem_of_union in Hx as [->%elem_of_singleton|Hx]; [by right|by apply Sd]. }
      exists g'. split; [|split; [done|split]].
      + cbn [rfold]. unfold add_node, lift. rewrite (add_input_ok g n) by done. cbn. exact H'.
      + intros x Hx. apply D'. rewrite dom_insert. by apply elem_of_union_r.
      + intros x [->|Hx]%elem_of_cons; [|by apply I']. apply D'. rewrite dom_insert. apply elem_of_union_l. by apply elem_of_singleton.
  Qed.

  Lemma assign_succ_x st lv e P : rinv k NN P st.1 st.2 → sinv X st.1 → drv_ok k NN (lv, DAssign e) → lv ∉ P.*1 →
    (∀ s, s ∈ ids_cond e → good_name s ∧ nodot s) →
    ∃ st', c_assign k st (lv, e) = Ok st' ∧ sinv X st'.1 ∧ (∀ x, x ∈ k_rsv k → x ∈ dom st.1 → x ∈ dom st'.1) ∧ lv ∈ dom st'.1.
  Proof.
    intros Hi HS (HlvN & Hlv & Hide) Hnp' Hids. pose proof Hi as [G T Xx U E N]. assert (Gst : gst k st) by (by destruct st).
    destruct (succ_condx k X Hties e st Gst HS Hids) as (st1 & r & H1 & N1 & O1 & Q1).
    assert (Hlvt : lv ∉ [k_t0 k; k_t1 k; k_tx k]). { intros Hin. apply (Htr lv); [|done]. unfold ties. set_solver. }
    destruct (Hgood lv HlvN) as [Hlg Hld].
    destruct (frg_cond _ _ _ _ _ H1) as [Hs G1]; specialize (G1 Gst); pose proof (fr2_cond _ _ _ _ _ H1) as F2.
    pose proof (fr2_undef _ _ _ lv F2 Hlv (U lv HlvN Hnp')) as Hu1.
    unfold c_assign. cbn [fst snd]. rewrite H1. cbn [mbind res_mbind rbind fst snd]. unfold assignment. rewrite bool_decide_eq_false_2 by done.
    case_bool_decide as Hrg.
    - eexists. split; [done|]. cbn [fst]. pose proof N1 as [Sp Sd Sx].
      destruct (result_cond _ _ _ _ _ H1 Gst Hide) as [_ HB]; destruct (HB Hrg) as (Hrn & t & fi & Hl & Htt & Hfi & Hrfi & Hnofo).
      assert (Hrr : r ∉ k_rsv k) by (destruct G1 as (_ & _ & _ & Hd); intros ?; by apply (Hd r)).
      assert (Hne : r ≠ lv) by (intros ->; done).
      assert (Hfl : fanin st1.1 lv = ∅) by (unfold fanin; destruct (st1.1 !! lv) as [i|] eqn:Ei; [simpl; by destruct (Hu1 i Ei)|done]).
      destruct (relabel_shape st1.1 r lv t fi Hl Hne Hrfi Hnofo Hfl) as (Slv & Sr & Sxx).
      split; [split; [| |done]|split].
      + intros x j Hj Hty. destruct (decide (x = lv)) as [->|Hxl].
        * rewrite Slv in Hj. injection Hj as <-. simpl in Hty. unfold gate_types5 in Htt. destruct Hty as [-> | ->]; set_solver.
        * destruct (decide (x = r)) as [->|Hxr]; [congruence|]. rewrite Sxx in Hj by done. by eapply Sp.
      + intros x Hxd. destruct (decide (x = lv)) as [->|Hxl]; [by right|]. destruct (decide (x = r)) as [->|Hxr]; [apply elem_of_dom in Hxd as [? ?]; congruence|].
        apply Sd. apply elem_of_dom in Hxd as [j Hj]. apply elem_of_dom. exists j. by rewrite <- Sxx.
      + intros x Hxr Hxd. destruct (decide (x = lv)) as [->|Hxl]; [apply elem_of_dom; eauto|].
        assert (x ≠ r) by (intros ->; done). apply elem_of_dom. rewrite Sxx by done. apply elem_of_dom. by apply (subseteq_dom _ _ Hs).
      + apply elem_of_dom. eauto.
    - destruct (add_node_succeeds_x k X st1.1 lv Buf [r]) as (g' & Ha & Ng'); [unfold gate_types; set_solver|done|done| |done|done|done|done|].
      { constructor; [|constructor]. split; [|done]. destruct O1 as [?|?]; [by left|right; by apply Hids]. }
      rewrite Ha. cbn [mbind res_mbind rbind fst snd]. eexists. split; [done|]. cbn [fst]. split; [done|].
      pose proof (add_node_shape k st1.1 lv Buf [r] g' lv Ha) as (Hl & Hx & _). split.
      + intros x _ Hxd. destruct (decide (x = lv)) as [->|Hxl]; [apply elem_of_dom; eauto|].
        apply (subseteq_dom _ _ Hs) in Hxd. apply elem_of_dom in Hxd as [j Hj]. destruct (Hx x Hxl) as [E'|(E' & _)]; [|congruence]. apply elem_of_dom. exists j. by rewrite E'.
      + apply elem_of_dom. eauto.
  Qed.

  Lemma assigns_succ_x l : ∀ st P, rinv k NN P st.1 st.2 → sinv X st.1 →
    Forall (λ a : string * cond, drv_ok k NN (a.1, DAssign a.2)) l → NoDup (P.*1 ++ l.*1) →
    (∀ a : string * cond, a ∈ l → ∀ s, s ∈ ids_cond a.2 → good_name s ∧ nodot s) →
    ∃ st', rfold (c_assign k) st l = Ok st' ∧ sinv X st'.1 ∧ (∀ x, x ∈ k_rsv k → x ∈ dom st.1 → x ∈ dom st'.1) ∧ (∀ lv, lv ∈ l.*1 → lv ∈ dom st'.1).
  Proof.
    induction l as [|[lv e] l IH]; intros st P Hi Hnp Hok Hnd Hids.
    - exists st. split; [done|]. split; [done|]. split; [done|]. intros lv Hin. by apply elem_of_nil in Hin.
    - inversion Hok as [|? ? Hd Hok']; subst. simpl in *.
      assert (Hnp' : lv ∉ P.*1). { apply NoDup_app in Hnd as (_ & Hdd & _). intros Hin. apply (Hdd lv Hin). by left. }
      destruct (assign_succ_x st lv e P Hi Hnp Hd Hnp') as (st1 & H1 & N1 & K1 & L1); [intros s Hs; apply (Hids (lv, e)); [by left|done]|].
      assert (Hnd1 : NoDup (P.*1 ++ [lv])).
      { apply NoDup_app in Hnd as (M1 & M2 & M3). apply NoDup_app. split; [done|]. split; [|apply NoDup_singleton]. intros y Hy ->%elem_of_list_singleton. done. }
      assert (Hi1 : rinv k NN (P ++ [(lv, DAssign e)]) st1.1 st1.2).
      { apply (assigns_rinv k NN Htr HNN [(lv, e)] st st1 P); [simpl; by rewrite H1|done|by constructor|done]. }
      destruct (IH st1 _ Hi1 N1 Hok') as (st' & H2 & N2 & K2 & L2).
      { rewrite fmap_app. simpl. rewrite <- app_assoc. simpl.
        apply NoDup_app in Hnd as (M1 & M2 & M3). apply NoDup_cons in M3 as [M3 M4]. apply NoDup_app. split; [done|]. split; [|by constructor].
        intros y Hy [->|Hin]%elem_of_cons; [done|]. apply (M2 y Hy). by right. }
      { intros a Ha. apply Hids. by right. }
      exists st'. split; [cbn [rfold]; rewrite H1; exact H2|]. split; [done|]. split; [intros x Hr Hx; apply K2; [done|]; by apply K1|].
      intros lv' [->|Hin]%elem_of_cons; [|by apply L2]. apply K2; [destruct Hd as (_ & ? & _); done|done].
  Qed.

  Lemma list_succ_x l : ∀ st, gst k st → sinv X st.1 → (∀ e, e ∈ l → ∀ s, s ∈ ids_cond e → good_name s ∧ nodot s) →
    ∃ st' rs, rmapS (c_cond k) st l = Ok (st', rs) ∧ sinv X st'.1 ∧ Forall (opx st'.1) rs.
  Proof.
    induction l as [|e l IH]; intros st G Hnp Hids.
    - exists st, []. split; [done|]. split; [done|constructor].
    - destruct (succ_condx k X Hties e st G Hnp) as (st1 & r & H1 & N1 & O1 & Q1); [apply Hids; by left|].
      destruct (frg_cond _ _ _ _ _ H1) as [S1 G1]. specialize (G1 G).
      destruct (IH st1 G1 N1) as (st2 & rs & H2 & N2 & O2); [intros e' He'; apply Hids; by right|].
      destruct (frg_list _ _ _ _ _ H2) as [S2 _].
      exists st2, (r :: rs). split; [cbn [rmapS]; rewrite H1; cbn [rbind fst snd]; rewrite H2; done|]. split; [done|].
      constructor; [|done]. split; [|done]. destruct O1 as [Hd|Hi]; [left; by apply (subseteq_dom _ _ S2)|right; apply (Hids e); [by left|done]].
  Qed.
  Definition cpos_okx (g : circuit) (ic : string * conns) (cc : string * cconns) : Prop :=
    ∃ n ins rs, ic.2 = Positional (cid n :: ins) ∧ cc.2 = CPos (n :: rs) ∧ Forall (opx g) rs.
  Lemma opxs_mono (g g' : circuit) rs : (∀ x, x ∈ dom g → x ∈ dom g') → Forall (opx g) rs → Forall (opx g') rs.
  Proof. intros Hs H. eapply Forall_impl; [exact H|]. intros r. by apply opx_mono. Qed.
  Lemma cposx_mono (g g' : circuit) l cl : (∀ x, x ∈ dom g → x ∈ dom g') → Forall2 (cpos_okx g) l cl → Forall2 (cpos_okx g') l cl.
  Proof. intros Hs H. eapply Forall2_impl; [exact H|]. intros ic cc (n & ins & rs & E1 & E2 & O). exists n, ins, rs. split; [done|]. split; [done|]. by eapply opxs_mono. Qed.
  Lemma insts_succ_x insts : ∀ st, gst k st → sinv X st.1 →
    Forall (λ ic : string * conns, ∃ n ins, ic.2 = Positional (cid n :: ins) ∧ ∀ e, e ∈ ins → ∀ s, s ∈ ids_cond e → good_name s ∧ nodot s) insts →
    ∃ st' cl, rmapS (inst_step k) st insts = Ok (st', cl) ∧ sinv X st'.1 ∧ Forall2 (cpos_okx st'.1) insts cl.
  Proof.
    induction insts as [|ic insts IH]; intros st G Hnp HF.
    - exists st, []. split; [done|]. split; [done|constructor].
    - inversion HF as [|? ? (n & ins & E & Hids) HF']; subst.
      destruct (list_succ_x ins st G Hnp Hids) as (st1 & rs & H1 & N1 & O1).
      destruct (frg_list _ _ _ _ _ H1) as [S1 G1]. specialize (G1 G).
      destruct (IH st1 G1 N1 HF') as (st2 & cl & H2 & N2 & F2).
      assert (S2 : st1.1 ⊆ st2.1).
      { destruct (insts_frame k (frg k) (frg_refl k) (frg_trans k) (frg_cond k) _ _ _ _ H2) as [? _]. done. }
      exists st2, ((ic.1, CPos (n :: rs)) :: cl). split; [|split; [done|]].
      + cbn [rmapS]. unfold inst_step at 1. rewrite E. unfold c_conns. cbn [rmapS].
        change (c_cond k st (cid n)) with (Ok (st, n) : res (cstate * string)). cbn [rbind fst snd]. rewrite H1. cbn [mbind res_mbind rbind fst snd]. rewrite H2. done.
      + constructor; [|done]. exists n, ins, rs. split; [done|]. split; [done|]. eapply opxs_mono; [|exact O1]. intros x Hx. by apply (subseteq_dom _ _ S2).
  Qed.

  Lemma prim_succ_x t g nm n rs : t ∈ gate_types → rs ≠ [] → (t = Buf ∨ t = Not → length rs = 1) → n ∈ NN → undef_ok g n → ties k ⊆ dom g →
    sinv X g → Forall (opx g) rs →
    ∃ g', prim_instance k t g (nm, CPos (n :: rs)) = Ok g' ∧ sinv X g' ∧ (∀ x, x ∈ dom g → x ∈ dom g') ∧ n ∈ dom g'.
  Proof.
    intros Ht Hrs Hlen HnN Hu G Hnp Ho. rewrite prim_instance_sel. destruct (Hgood n HnN) as [Hng Hnd].
    destruct (add_node_succeeds_x k X g n (prim_sel k t rs).1 (prim_sel k t rs).2) as (g' & Ha & Ng'); [by apply prim_sel_type'|done|done| |by apply prim_sel_ne|by apply prim_sel_len|done|done|].
    { apply Forall_forall. intros f Hf. apply prim_sel_sub in Hf as [Hf|Hf].
      - rewrite Forall_forall in Ho. by apply Ho.
      - split; [left; by apply G|by apply Hties]. }
    exists g'. rewrite Ha. split; [done|]. split; [done|].
    pose proof (add_node_shape k g n _ _ g' n Ha) as (Hl & Hx & _). split.
    - intros x Hxd. destruct (decide (x = n)) as [->|Hxn]; [apply elem_of_dom; eauto|].
      apply elem_of_dom in Hxd as [j Hj]. destruct (Hx x Hxn) as [E'|(E' & _)]; [|congruence]. apply elem_of_dom. exists j. by rewrite E'.
    - apply elem_of_dom. eauto.
  Qed.

  Lemma prims_succ_x t cl : ∀ insts g ge P, rinv k NN P g ge → sinv X g →
    Forall2 (cgood k g) insts cl → Forall2 (cpos_okx g) insts cl → t ∈ gate_types → Forall (prim_guard k NN t) insts →
    NoDup (P.*1 ++ (insts ≫= prim_drv t).*1) →
    ∃ g', rfold (prim_instance k t) g cl = Ok g' ∧ sinv X g' ∧ (∀ x, x ∈ dom g → x ∈ dom g') ∧
          (∀ n, n ∈ (insts ≫= prim_drv t).*1 → n ∈ dom g').
  Proof.
    induction cl as [|cc cl IH]; intros insts g ge P Hi Hnp HF HO Ht HG Hnd.
    - inversion HF; subst. exists g. split; [done|]. split; [done|]. split; [done|]. intros n Hn. by apply elem_of_nil in Hn.
    - inversion HF as [|ic ? insts' ? Hcg HF']; subst. pose proof Hcg as (n & ins & rs & E1 & E2 & Fo).
      inversion HO as [|? ? ? ? (n2 & ins2 & rs2 & E1b & E2b & Ors) HO']; subst.
      rewrite E1 in E1b. injection E1b as <- <-. rewrite E2 in E2b. injection E2b as <-.
      inversion HG as [|? ? Hg2 HG']; subst. pose proof Hg2 as (n' & ins' & E1' & Hdrv & Hne & Har).
      rewrite E1 in E1'. injection E1' as <- <-. destruct cc as [nm cc2]. simpl in E2. subst cc2.
      assert (Hdr : prim_drv t ic = [(n, DPrim t ins)]). { unfold prim_drv. by rewrite E1. }
      cbn [mbind list_bind] in Hnd |- *. fold (mbind (M:=list) (prim_drv t)) in Hnd |- *. rewrite Hdr in Hnd |- *.
      pose proof Hi as [G T Xx U Eq N]. destruct Hdrv as (HnN & Hn & Hids). simpl in *.
      assert (Hnp' : n ∉ P.*1). { apply NoDup_app in Hnd as (_ & Hd & _). intros Hin. apply (Hd n Hin). simpl. by left. }
      assert (Hrs : rs ≠ []). { intros ->. inversion Fo; subst. done. }
      destruct (prim_succ_x t g nm n rs Ht Hrs) as (g1 & H1 & N1 & D1 & L1); [|done|by apply U|by destruct G as (_ & ? & _)|done|done|].
      { intros Hb. rewrite <- (Forall2_length _ _ _ Fo). by apply Har. }
      assert (Hcons : ∀ v, consistent g1 v → consistent g v).
      { intros v. pose proof H1 as H1'. rewrite prim_instance_sel in H1'. apply mbind_ok in H1' as ([g1x nm'] & Ha & E). injection E as E. simpl in E. subst g1x.
        eapply add_node_consistent; [exact Ha|by apply U]. }
      assert (Hnd1 : NoDup (P.*1 ++ [n])).
      { apply NoDup_app in Hnd as (M1 & M2 & M3). apply NoDup_app. split; [done|]. split; [|apply NoDup_singleton]. intros y Hy ->%elem_of_list_singleton. done. }
      assert (Hi1 : rinv k NN (P ++ [(n, DPrim t ins)]) g1 ge).
      { pose proof (prims_rinv k NN Htr HNN t [(nm, CPos (n :: rs))] [ic] g g1 ge P) as Hp. simpl in Hp. rewrite Hdr in Hp.
        apply Hp; [by rewrite H1|done|by constructor|done|by constructor|done]. }
      destruct (IH insts' g1 ge _ Hi1 N1 (cgood_mono _ _ _ _ _ Hcons HF') (cposx_mono _ _ _ _ D1 HO') Ht HG') as (g' & H2 & N2 & D2 & L2).
      { rewrite fmap_app. rewrite <- app_assoc. done. }
      exists g'. split; [cbn [rfold]; rewrite H1; exact H2|]. split; [done|]. split; [intros x Hx; by apply D2, D1|].
      intros y [->|Hy]%elem_of_cons; [by apply D2|]. by apply L2.
  Qed.
End isuccx.


(* add without operands *)
Lemma add0_rd (g : circuit) n t : good_name n → t ∈ [Buf; BbIn; BbOut] → add_g g n t [] [] rd_flags = (<[n := mk_node t false (fanin g n)]> g, Done, n).
Proof.
  intros [H1 H2] Ht. unfold add_g. cbn [af_uid af_redef af_conn af_out rd_flags negb andb]. rewrite andb_false_r. cbn [negb length Nat.ltb Nat.leb andb].
  rewrite (bool_decide_eq_true_2 (t ∈ supported_types)) by (unfold supported_types; set_solver). cbn [negb].
  rewrite (bool_decide_eq_true_2 ([] = [])) by done. cbn [negb andb].
  rewrite (bool_decide_eq_false_2 (n = "")) by done. rewrite H2. cbn. done.
Qed.
Lemma add0_plain (g : circuit) n t : good_name n → t ∈ [Buf; BbIn; BbOut] → n ∉ dom g → add_g g n t [] [] af_default = (<[n := mk_node t false ∅]> g, Done, n).
Proof.
  intros [H1 H2] Ht Hn. unfold add_g. cbn [af_uid af_redef af_conn af_out af_default negb andb]. rewrite (bool_decide_eq_false_2 (n ∈ dom g)) by done. cbn [andb negb length Nat.ltb Nat.leb].
  rewrite (bool_decide_eq_true_2 (t ∈ supported_types)) by (unfold supported_types; set_solver). cbn [negb].
  rewrite (bool_decide_eq_true_2 ([] = [])) by done. cbn [negb andb].
  rewrite (bool_decide_eq_false_2 (n = "")) by done. rewrite H2. cbn. unfold fanin. assert (g !! n = None) as -> by (by apply not_elem_of_dom). done.
Qed.
Lemma pin_good inst p : starts_digit inst = false → good_name (pin inst p).
Proof.
  intros Hi. unfold pin. split.
  - destruct inst; simpl; done.
  - destruct inst as [|a r]; [done|]. done.
Qed.

(* one edge *)
Lemma add_edge_ty (h : circuit) u v x : ty (add_edge h u v) x = ty h x.
Proof. unfold ty, add_edge. destruct (decide (x = v)) as [->|Hne]; [rewrite lookup_alter; by destruct (h !! v)|by rewrite lookup_alter_ne]. Qed.
Lemma add_edge_dom (h : circuit) u v : dom (add_edge h u v) = dom h.
Proof. unfold add_edge. apply set_eq. intros x. rewrite !elem_of_dom. destruct (decide (x = v)) as [->|Hne]; [rewrite lookup_alter; destruct (h !! v); simpl; split; intros [? ?]; eauto; done|by rewrite lookup_alter_ne]. Qed.
Lemma add_edge_fanin (h : circuit) u v x : v ∈ dom h → fanin (add_edge h u v) x = if bool_decide (x = v) then {[u]} ∪ fanin h x else fanin h x.
Proof.
  intros Hv. unfold fanin, add_edge. case_bool_decide as E; [subst|by rewrite lookup_alter_ne]. rewrite lookup_alter. apply elem_of_dom in Hv as [i Hi]. rewrite Hi. done.
Qed.
Lemma add_edge_fanout (h : circuit) u v y : v ∈ dom h → fanout (add_edge h u v) y = if bool_decide (y = u) then {[v]} ∪ fanout h y else fanout h y.
Proof.
  intros Hv. apply elem_of_dom in Hv as [i Hi]. apply set_eq. intros x. unfold add_edge. rewrite elem_of_fanout. case_bool_decide as E.
  - subst. rewrite elem_of_union, elem_of_singleton, elem_of_fanout. destruct (decide (x = v)) as [->|Hne].
    + rewrite lookup_alter, Hi. simpl. split; [by left|]. intros _. eexists. split; [done|]. simpl. set_solver.
    + rewrite lookup_alter_ne by done. split; [by right|]. intros [?|?]; done.
  - rewrite elem_of_fanout. destruct (decide (x = v)) as [->|Hne].
    + rewrite lookup_alter, Hi. simpl. split.
      * intros (j & [= <-] & Hin). exists i. split; [done|]. simpl in Hin. set_solver.
      * intros (j & [= <-] & Hin). eexists. split; [done|]. simpl. set_solver.
    + by rewrite lookup_alter_ne.
Qed.
Lemma connect1_ok (h : circuit) u v : u ∈ dom h → v ∈ dom h → connect_check h [u] [v] = true → connect_g h [u] [v] = (add_edge h u v, Done).
Proof.
  intros Hu Hv Hc. unfold connect_g. cbn [bool_decide decide_rel orb]. rewrite !bool_decide_eq_false_2 by done. cbn [orb app forallb].
  rewrite !bool_decide_eq_true_2 by done. cbn [andb negb]. rewrite Hc. cbn. done.
Qed.


Lemma cc_in (h : circuit) u v : ty h v = Some BbIn → fanin h v = ∅ → (∀ j, h !! u = Some j → n_ty j ≠ BbIn ∧ n_ty j ≠ BbOut) → connect_check h [u] [v] = true.
Proof.
  intros Hv Hf Hu. unfold connect_check. cbn [existsb length]. rewrite Hv, Hf, size_empty. cbn [is_in].
  rewrite (bool_decide_eq_false_2 (BbIn ∈ conn_no_fanin)) by (unfold conn_no_fanin; set_solver).
  rewrite (bool_decide_eq_true_2 (BbIn ∈ conn_single_fanin)) by (unfold conn_single_fanin; set_solver). cbn.
  unfold ty. destruct (h !! u) as [j|] eqn:E; simpl; [|done]. destruct (Hu j eq_refl) as [H1 H2].
  rewrite (bool_decide_eq_false_2 (n_ty j ∈ conn_no_fanout)) by (unfold conn_no_fanout; set_solver).
  rewrite (bool_decide_eq_false_2 (n_ty j ∈ conn_bbout)) by (unfold conn_bbout; set_solver). done.
Qed.
Lemma cc_out (h : circuit) u v : ty h u = Some BbOut → fanout h u = ∅ → ty h v = Some Buf → fanin h v = ∅ → connect_check h [u] [v] = true.
Proof.
  intros Hu Hfo Hv Hf. unfold connect_check. cbn [existsb length]. rewrite Hv, Hf, Hu, Hfo, size_empty. cbn [is_in].
  rewrite (bool_decide_eq_false_2 (Buf ∈ conn_no_fanin)) by (unfold conn_no_fanin; set_solver).
  rewrite (bool_decide_eq_true_2 (Buf ∈ conn_single_fanin)) by (unfold conn_single_fanin; set_solver).
  rewrite (bool_decide_eq_false_2 (BbOut ∈ conn_no_fanout)) by (unfold conn_no_fanout; set_solver).
  rewrite (bool_decide_eq_true_2 (BbOut ∈ conn_bbout)) by (unfold conn_bbout; set_solver).
  rewrite (bool_decide_eq_true_2 (Buf ∈ [Buf])) by set_solver. cbn. done.
Qed.

Section cfold.
  Context (d : bbdef) (inst : string).
  Definition kvok (h : circuit) (kv : string * string) : Prop :=
    kv.2 ∈ dom h ∧ nodot kv.2 ∧ (∀ j, h !! kv.2 = Some j → n_ty j ≠ BbIn ∧ n_ty j ≠ BbOut) ∧ pin inst kv.1 ∈ dom h ∧
    ((kv.1 ∈ bb_in d ∧ ty h (pin inst kv.1) = Some BbIn ∧ fanin h (pin inst kv.1) = ∅) ∨
     (kv.1 ∉ bb_in d ∧ kv.1 ∈ bb_out d ∧ ty h (pin inst kv.1) = Some BbOut ∧ fanout h (pin inst kv.1) = ∅ ∧ ty h kv.2 = Some Buf ∧ fanin h kv.2 = ∅)).
  Lemma nodot_pin_ne s p : nodot s → s ≠ pin inst p.
  Proof. intros Hs ->. unfold nodot in Hs. by rewrite pin_dot in Hs. Qed.
  Lemma bconn_succ conns : ∀ h : circuit, NoDup conns.*1 →
    (∀ kv kv' : string * string, kv ∈ conns → kv' ∈ conns → kv.1 ∉ bb_in d → kv'.1 ∉ bb_in d → kv.2 = kv'.2 → kv = kv') →
    (∀ kv, kv ∈ conns → kvok h kv) →
    ∃ h', foldl (BlackboxProofs.bconn_step d inst) (h, Done) ((λ kv : string * string, (kv.1, [kv.2])) <$> conns) = (h', Done).
  Proof.
    induction conns as [|kv conns IH]; intros h Hnd Huq Hok; [simpl; eauto|].
    rewrite fmap_cons in Hnd. apply NoDup_cons in Hnd as [Hk Hnd]. rewrite fmap_cons. cbn [foldl].
    destruct (Hok kv ltac:(by left)) as (Hvd & Hvn & Hvt & Hpd & Hcase).
    assert (Hkne : ∀ kv' : string * string, kv' ∈ conns → kv'.1 ≠ kv.1).
    { intros kv' Hin E. apply Hk. rewrite <- E. apply elem_of_list_fmap. eauto. }
    assert (Hpne : ∀ kv' : string * string, kv' ∈ conns → pin inst kv'.1 ≠ pin inst kv.1).
    { intros kv' Hin E. apply pin_inj' in E. by apply (Hkne kv'). }
    destruct Hcase as [(Hin & Hty & Hfi)|(Hni & Hout & Hty & Hfo & Htv & Hfv)].
    - unfold BlackboxProofs.bconn_step at 2. cbn [fst snd]. rewrite bool_decide_eq_true_2 by done.
      rewrite (connect1_ok h kv.2 (pin inst kv.1) Hvd Hpd (cc_in h _ _ Hty Hfi Hvt)).
      apply IH; [done|intros a b Ha Hb; apply Huq; by right|].
      intros kv' Hin'. destruct (Hok kv' ltac:(by right)) as (Hvd' & Hvn' & Hvt' & Hpd' & Hcase'). unfold kvok.
      rewrite !add_edge_dom. split; [done|]. split; [done|]. split.
      { intros j Hj. apply Hvt'. unfold add_edge in Hj. rewrite lookup_alter_ne in Hj; [done|]. intros E. by apply (nodot_pin_ne kv'.2 kv.1). }
      split; [done|]. rewrite !add_edge_ty, !add_edge_fanin, !add_edge_fanout by done.
      rewrite (bool_decide_eq_false_2 (pin inst kv'.1 = pin inst kv.1)) by (by apply Hpne).
      rewrite (bool_decide_eq_false_2 (pin inst kv'.1 = kv.2)) by (intros E; by apply (nodot_pin_ne kv.2 kv'.1)).
      rewrite (bool_decide_eq_false_2 (kv'.2 = pin inst kv.1)) by (by apply nodot_pin_ne). done.
    - unfold BlackboxProofs.bconn_step at 2. cbn [fst snd]. rewrite bool_decide_eq_false_2 by done. rewrite bool_decide_eq_true_2 by done.
      rewrite (connect1_ok h (pin inst kv.1) kv.2 Hpd Hvd (cc_out h _ _ Hty Hfo Htv Hfv)).
      apply IH; [done|intros a b Ha Hb; apply Huq; by right|].
      intros kv' Hin'. destruct (Hok kv' ltac:(by right)) as (Hvd' & Hvn' & Hvt' & Hpd' & Hcase'). unfold kvok.
      rewrite !add_edge_dom. split; [done|]. split; [done|]. split.
      { intros j Hj. unfold add_edge in Hj. destruct (decide (kv'.2 = kv.2)) as [E|E].
        - rewrite E, lookup_alter in Hj. destruct (h !! kv.2) as [i|] eqn:Ei; [|discriminate]. simpl in Hj. injection Hj as <-. simpl. by apply Hvt.
        - rewrite lookup_alter_ne in Hj by done. by apply Hvt'. }
      split; [done|]. rewrite !add_edge_ty, !add_edge_fanin, !add_edge_fanout by done.
      rewrite (bool_decide_eq_false_2 (pin inst kv'.1 = kv.2)) by (intros E; by apply (nodot_pin_ne kv.2 kv'.1)).
      rewrite (bool_decide_eq_false_2 (pin inst kv'.1 = pin inst kv.1)) by (by apply Hpne).
      destruct Hcase' as [?|(Hni' & Hout' & Hty' & Hfo' & Htv' & Hfv')]; [by left|right].
      rewrite (bool_decide_eq_false_2 (kv'.2 = kv.2)); [done|]. intros E. apply (Hkne kv' Hin'). by rewrite (Huq kv' kv (elem_of_list_further _ _ _ Hin') (elem_of_list_here _ _) Hni' Hni E).
  Qed.

  Lemma mkpins_succ pts : ∀ (g : circuit) io, NoDup pts.*1 → starts_digit inst = false →
    (∀ pt : string * gtype, pt ∈ pts → pin inst pt.1 ∉ dom g ∧ pt.2 ∈ [Buf; BbIn; BbOut]) →
    ∃ g1 io1, foldl (BlackboxProofs.pin_step inst) (g, io, Done) pts = (g1, io1, Done).
  Proof.
    induction pts as [|pt pts IH]; intros g io Hnd Hi Hok; [simpl; eauto|]. rewrite fmap_cons in Hnd. apply NoDup_cons in Hnd as [Hk Hnd].
    cbn [foldl]. unfold BlackboxProofs.pin_step at 2. destruct (Hok pt ltac:(by left)) as [Hf Ht].
    rewrite (add0_plain g (pin inst pt.1) pt.2 (pin_good inst pt.1 Hi) Ht Hf). apply IH; [done|done|].
    intros pt' Hin. destruct (Hok pt' ltac:(by right)) as [Hf' Ht']. split; [|done]. rewrite dom_insert. intros [E%elem_of_singleton|?]%elem_of_union; [|done].
    apply pin_inj' in E. apply Hk. rewrite <- E. apply elem_of_list_fmap. eauto.
  Qed.
End cfold.


Section bbsucc.
  Context (k : rctx) (NN X : gset string).
  Hypothesis Htr : ties k ## k_rsv k.
  Hypothesis HNN : NN ⊆ k_rsv k.
  Hypothesis Hgood : ∀ s, s ∈ NN → good_name s ∧ nodot s.

  Lemma outs_succ conns l : ∀ g : circuit, sinv X g →
    (∀ o net, o ∈ l → dict_get conns o = Some net → net ∈ NN ∧ undef_ok g net) →
    ∃ g1, rfold (λ g (o : string), match dict_get conns o with
                              | Some net => r ← add_node (k_rsv k) g net Buf [] false; Ok r.1
                              | None => Ok g end) g l = Ok g1 ∧ sinv X g1.
  Proof.
    induction l as [|o l IH]; intros g HS Hn; [exists g; done|]. cbn [rfold]. destruct (dict_get conns o) as [net|] eqn:Eg.
    - destruct (Hn o net) as [HnN Hu]; [by left|done|]. destruct (Hgood net HnN) as [Hg Hd]. pose proof HS as [Sp Sd Sx].
      unfold add_node at 1, lift. rewrite (add0_rd g net Buf Hg) by set_solver. cbn [mbind res_mbind rbind fst snd].
      assert (Hf0 : fanin g net = ∅). { unfold fanin. destruct (g !! net) as [j|] eqn:Ej; [|done]. simpl. by destruct (Hu j Ej). }
      rewrite Hf0. apply IH.
      + split; [| |done].
        * intros x j Hx Hty. apply lookup_insert_Some in Hx as [[_ <-]|[_ Hx]]; [simpl in Hty; by destruct Hty|by eapply Sp].
        * intros x Hx. rewrite dom_insert in Hx. apply elem_of_union in Hx as [->%elem_of_singleton|Hx]; [by right|by apply Sd].
      + intros o' net' Ho' Hg'. destruct (Hn o' net') as [? Hu']; [by right|done|]. split; [done|]. intros i Hi.
        apply lookup_insert_Some in Hi as [[_ <-]|[_ Hi]]; [done|by apply Hu'].
    - apply IH; [done|]. intros o' net' Ho' Hg'. apply (Hn o' net'); [by right|done].
  Qed.
  Lemma ph2_succ (l : list (string * string)) : ∀ g : circuit, sinv X g → (∀ kv, kv ∈ l → kv.2 ∈ dom g ∨ (good_name kv.2 ∧ nodot kv.2)) →
    ∃ g2, rfold (λ g (kv : string * string), if bool_decide (kv.2 ∈ dom g) then Ok g else
             match add_g g kv.2 Buf [] [] af_default with (g', Done, _) => Ok g' | (_, Fail e, _) => Raise e end) g l = Ok g2 ∧ sinv X g2.
  Proof.
    induction l as [|kv l IH]; intros g HS Hl; [exists g; done|]. cbn [rfold]. case_bool_decide as Hd.
    - cbn [rbind]. apply IH; [done|]. intros kv' Hin. apply Hl. by right.
    - destruct (Hl kv) as [?|[Hg Hn]]; [by left|done|]. rewrite (add0_plain g kv.2 Buf Hg) by (set_solver || done). cbn [rbind]. pose proof HS as [Sp Sd Sx]. apply IH.
      + split; [| |done].
        * intros x j Hx Hty. apply lookup_insert_Some in Hx as [[_ <-]|[_ Hx]]; [simpl in Hty; by destruct Hty|by eapply Sp].
        * intros x Hx. rewrite dom_insert in Hx. apply elem_of_union in Hx as [->%elem_of_singleton|Hx]; [by right|by apply Sd].
      + intros kv' Hin. destruct (Hl kv') as [?|?]; [by right|left|by right]. rewrite dom_insert. by apply elem_of_union_r.
  Qed.

  Definition pinset (d : bbdef) (inst : string) : gset string := set_map (pin inst) (bb_in d ∪ bb_out d).

  Lemma bb_instance_succ d gb inst conns ge : gst k (gb.1, ge) → sinv X gb.1 → NoDup conns.*1 →
    (∀ kv : string * string, kv ∈ conns → opx gb.1 kv.2 ∧
        ((kv.1 ∈ bb_in d ∧ kv.1 ∉ bb_out d) ∨ (kv.1 ∈ bb_out d ∧ kv.1 ∉ bb_in d ∧ kv.2 ∈ NN ∧ undef_ok gb.1 kv.2))) →
    (∀ kv kv' : string * string, kv ∈ conns → kv' ∈ conns → kv.1 ∉ bb_in d → kv'.1 ∉ bb_in d → kv.2 = kv'.2 → kv = kv') →
    starts_digit inst = false → inst ∉ dom gb.2 → bb_in d ## bb_out d → (∀ p, p ∈ bb_in d ∪ bb_out d → pin inst p ∉ X) →
    ∃ gb', bb_instance k d gb (inst, CNamed conns) = Ok gb' ∧ sinv (X ∪ pinset d inst) gb'.1.
  Proof.
    intros G HS Hnd Hkv Huq Hi Hreg Hdisj HpX. unfold bb_instance. cbn [snd fst].
    destruct (outs_succ conns (elements (bb_out d)) gb.1 HS) as (g1 & H1 & S1).
    { intros o net Ho Hg. apply dict_get_elem in Hg. apply elem_of_elements in Ho. destruct (Hkv (o, net) Hg) as [_ [[_ ?]|(_ & _ & ? & ?)]]; done. }
    rewrite H1. cbn [mbind res_mbind rbind].
    destruct (outs_fold k Htr conns _ _ _ ge H1) as (G1 & _ & _ & _ & _ & O1); [|done|].
    { intros o net Ho Hg. apply dict_get_elem in Hg. apply elem_of_elements in Ho. destruct (Hkv (o, net) Hg) as [_ [[_ ?]|(_ & _ & ? & ?)]]; [done|]. split; [by apply HNN|done]. }
    assert (Hd01 : ∀ x, x ∈ dom gb.1 → x ∈ dom g1).
    { clear -H1. revert H1. generalize (gb.1). generalize (elements (bb_out d)). intros l. induction l as [|o l IH]; intros g H x Hs; simpl in H; [by injection H as <-|].
      apply rbind_ok in H as (g' & Ha & Hb). eapply IH; [exact Hb|]. destruct (dict_get conns o) as [net|]; [|by injection Ha as <-].
      apply mbind_ok in Ha as ([g'' nm] & Ha & E). injection E as <-. simpl.
      pose proof (add_node_shape k g net Buf [] g'' nm Ha) as (Hl & Hx & _). destruct (decide (x = net)) as [->|Hne]; [apply elem_of_dom; eauto|].
      apply elem_of_dom in Hs as [j Hj]. destruct (Hx x Hne) as [E|(E & _)]; [|congruence]. apply elem_of_dom. exists j. by rewrite E. }
    destruct (ph2_succ conns g1 S1) as (g2 & H2 & S2).
    { intros kv Hin. destruct (Hkv kv Hin) as [[[?|?] ?] _]; [left; by apply Hd01|by right]. }
    rewrite H2. cbn [mbind res_mbind rbind].
    destruct (ph2_fold _ _ _ H2) as [S12 N2]. pose proof (ph2_dom k Htr _ _ _ H2) as D2.
    destruct G1 as (Hcl1 & Hti1 & _ & _).
    assert (Hcl2 : closed g2).
    { intros x i f Hx Hf. destruct (g1 !! x) as [j|] eqn:Ej.
      - pose proof (lookup_weaken _ _ _ _ Ej S12). assert (j = i) as -> by congruence. eapply (subseteq_dom g1 g2 S12). by eapply Hcl1.
      - rewrite (N2 x i Hx Ej) in Hf. simpl in Hf. by apply elem_of_empty in Hf. }
    assert (Hfr : ∀ p, p ∈ bb_in d ∪ bb_out d → pin inst p ∉ dom g2).
    { intros p Hp Hd. destruct S2 as [_ Sd _]. destruct (Sd _ Hd) as [Hx|Hx]; [by apply (HpX p)|]. unfold nodot in Hx. by rewrite pin_dot in Hx. }
    rewrite BlackboxProofs.add_blackbox_unfold. cbn [c_bbs c_g with_bbs]. rewrite bool_decide_eq_false_2 by done. cbv zeta.
    destruct (mkpins_succ inst (BlackboxProofs.pin_list (elements (bb_in d)) (elements (bb_out d))) g2 []) as (g1p & io1 & Hp); [|done| |].
    { unfold BlackboxProofs.pin_list. rewrite fmap_app, !BlackboxProofs.fst_tag. apply NoDup_app. split; [apply NoDup_elements|]. split; [|apply NoDup_elements].
      intros p Hp1%elem_of_elements Hp2%elem_of_elements. by apply (Hdisj p). }
    { intros pt [(p & Hp' & ->)|(p & Hp' & ->)]%BlackboxProofs.elem_of_pin_list; apply elem_of_elements in Hp'; (split; [apply Hfr; set_solver|set_solver]). }
    rewrite Hp. destruct (BlackboxProofs.mkpins_done _ _ _ _ _ _ Hp) as (_ & _ & Hl).
    assert (Lin : ∀ p, p ∈ bb_in d → g1p !! pin inst p = Some (mk_node BbIn false ∅)).
    { intros p Hp'. apply Hl. right. left. exists p. split; [by apply elem_of_elements|done]. }
    assert (Lout : ∀ p, p ∈ bb_out d → g1p !! pin inst p = Some (mk_node BbOut false ∅)).
    { intros p Hp'. apply Hl. right. right. exists p. split; [by apply elem_of_elements|done]. }
    assert (Lold : ∀ x i, g2 !! x = Some i → g1p !! x = Some i) by (intros x i Hx; apply Hl; by left).
    assert (Lnof : ∀ p y j, p ∈ bb_in d ∪ bb_out d → g1p !! y = Some j → pin inst p ∉ n_fi j).
    { intros p y j Hp' Hy Hin. apply Hl in Hy as [Hy|[(q & _ & _ & ->)|(q & _ & _ & ->)]]; [|by apply elem_of_empty in Hin|by apply elem_of_empty in Hin].
      apply (Hfr p Hp'). by eapply Hcl2. }
    destruct (bconn_succ d inst conns g1p Hnd Huq) as [h' Hc].
    { intros kv Hin. destruct (Hkv kv Hin) as [[Hdg Hnd'] Hcase]. assert (Hd2 : kv.2 ∈ dom g2) by (by apply D2). apply elem_of_dom in Hd2 as [i2 Hi2].
      split; [apply elem_of_dom; eauto|]. split; [done|]. split.
      { intros j Hj. apply Hl in Hj as [Hj|[(q & _ & Hq & _)|(q & _ & Hq & _)]]; [by eapply (sinv_nopin X g2)| |]; exfalso; by apply (nodot_pin_ne inst kv.2 q). }
      destruct Hcase as [[Hki Hko]|(Hko & Hki & HnN & Hu)].
      - split; [apply elem_of_dom; rewrite (Lin _ Hki); eauto|]. left. split; [done|]. unfold ty, fanin. by rewrite (Lin _ Hki).
      - split; [apply elem_of_dom; rewrite (Lout _ Hko); eauto|]. right. split; [done|]. split; [done|].
        assert (Hbuf : g1p !! kv.2 = Some (mk_node Buf false ∅)).
        { apply Lold. eapply lookup_weaken; [|exact S12]. eapply (O1 kv.1); [by apply elem_of_elements|]. apply dict_get_nodup; [done|]. by destruct kv. }
        unfold ty, fanin. rewrite (Lout _ Hko), Hbuf. simpl. split; [done|]. split; [|done].
        apply set_eq. intros y. split; [|set_solver]. intros (j & Hj & Hin')%elem_of_fanout. exfalso. eapply (Lnof kv.1 y j); [set_solver|done|done]. }
    rewrite Hc. cbn. eexists. split; [done|]. cbn [fst].
    pose proof (BlackboxProofs.bconn_fold_shape d inst ((λ kv : string * string, (kv.1, [kv.2])) <$> conns) (g1p, Done)) as Hsh. rewrite Hc in Hsh. simpl in Hsh.
    pose proof (ComposeProofs.same_shape_dom _ _ Hsh) as Hdom. destruct S2 as [Sp Sd Sx].
    split.
    - intros y j Hy Hty. assert (Hty' : ∃ i, g1p !! y = Some i ∧ n_ty i = n_ty j).
      { pose proof (ComposeProofs.same_shape_ty _ _ y Hsh) as Ety. unfold ty in Ety. rewrite Hy in Ety. destruct (g1p !! y) as [i|]; simpl in Ety; [|discriminate]. injection Ety as Ety. exists i. done. }
      destruct Hty' as (i & Hi' & Ei). rewrite <- Ei in Hty. apply Hl in Hi' as [Hi'|[(q & Hq & -> & _)|(q & Hq & -> & _)]].
      + apply elem_of_union_l. by eapply Sp.
      + apply elem_of_union_r. unfold pinset. apply elem_of_map. exists q. split; [done|]. apply elem_of_elements in Hq. set_solver.
      + apply elem_of_union_r. unfold pinset. apply elem_of_map. exists q. split; [done|]. apply elem_of_elements in Hq. set_solver.
    - intros y Hy. rewrite Hdom in Hy. apply elem_of_dom in Hy as [i Hi']. apply Hl in Hi' as [Hi'|[(q & Hq & -> & _)|(q & Hq & -> & _)]].
      + destruct (Sd y) as [?|?]; [apply elem_of_dom; eauto|left; by apply elem_of_union_l|by right].
      + left. apply elem_of_union_r. unfold pinset. apply elem_of_map. exists q. split; [done|]. apply elem_of_elements in Hq. set_solver.
      + left. apply elem_of_union_r. unfold pinset. apply elem_of_map. exists q. split; [done|]. apply elem_of_elements in Hq. set_solver.
    - intros y [Hy|Hy]%elem_of_union; [by apply Sx|]. unfold pinset in Hy. apply elem_of_map in Hy as (q & -> & _). apply pin_dot.
  Qed.
End bbsucc.


Lemma c_conns_named k st ps st1 os : rmapS (named_step k) st ps = Ok (st1, os) → c_conns k st (Named ps) = Ok (st1, CNamed (foldl dstep [] os)).
Proof.
  intros H. assert (Hc : c_conns k st (Named ps) = (rmapS (named_step k) st ps ≫= λ r, Ok (r.1, CNamed (foldl dstep [] r.2)))) by reflexivity.
  rewrite Hc, H. done.
Qed.
Section namedsucc.
  Context (k : rctx) (X : gset string).
  Hypothesis Hties : ∀ t, t ∈ ties k → nodot t.

  Definition ids_good (e : cond) : Prop := ∀ s, s ∈ ids_cond e → good_name s ∧ nodot s.
  Lemma named_succ_x ps : ∀ st, gst k st → sinv X st.1 → (∀ pc : string * option cond, pc ∈ ps → ∀ e, pc.2 = Some e → ids_good e) →
    ∃ st' os, rmapS (named_step k) st ps = Ok (st', os) ∧ sinv X st'.1 ∧
      Forall (λ o : option (string * string), ∀ kv, o = Some kv → opx st'.1 kv.2 ∧ kv.1 ∈ ps.*1) os.
  Proof.
    induction ps as [|p ps IH]; intros st G HS Hid.
    - exists st, []. split; [done|]. split; [done|constructor].
    - destruct p as [pn [e|]].
      + destruct (succ_condx k X Hties e st G HS) as (st1 & r & H1 & N1 & O1 & Q1); [by apply (Hid (pn, Some e)); [left|]|].
        destruct (frg_cond _ _ _ _ _ H1) as [S1 G1]. specialize (G1 G).
        destruct (IH st1 G1 N1) as (st2 & os & H2 & N2 & F2); [intros pc Hpc; apply Hid; by right|].
        assert (S2 : st1.1 ⊆ st2.1).
        { clear -H2. revert st1 st2 os H2. induction ps as [|q ps IH]; intros st1 st2 os H; simpl in H; [by injection H as <- _|].
          apply rbind_ok in H as ([sa oa] & Ha & H). apply rbind_ok in H as ([sb ob] & Hb & H). simpl in *. injection H as <- _.
          etrans; [|by eapply IH]. unfold named_step in Ha. destruct (q.2) as [e'|]; [|by injection Ha as <- _].
          apply mbind_ok in Ha as ([sc rc] & Hc & E). injection E as <- _. by destruct (frg_cond _ _ _ _ _ Hc). }
        exists st2, (Some (pn, r) :: os). split; [|split; [done|]].
        * cbn [rmapS]. unfold named_step at 1. cbn [snd fst]. rewrite H1. cbn [mbind res_mbind rbind fst snd]. rewrite H2. done.
        * constructor.
          -- intros kv [= <-]. simpl. split; [|by left]. split; [|done]. destruct O1 as [Hd|Hi]; [left; by apply (subseteq_dom _ _ S2)|right]. by destruct (Hid (pn, Some e) ltac:(by left) e eq_refl r Hi).
          -- eapply Forall_impl; [exact F2|]. intros o Ho kv Hkv. destruct (Ho kv Hkv) as [? ?]. split; [done|]. rewrite fmap_cons. by right.
      + destruct (IH st G HS) as (st2 & os & H2 & N2 & F2); [intros pc Hpc; apply Hid; by right|].
        exists st2, (None :: os). split; [|split; [done|]].
        * cbn [rmapS]. unfold named_step at 1. cbn [snd fst rbind]. rewrite H2. done.
        * constructor; [intros kv [=]|]. eapply Forall_impl; [exact F2|]. intros o Ho kv Hkv. destruct (Ho kv Hkv) as [? ?]. split; [done|]. rewrite fmap_cons. by right.
  Qed.

  (* compiled blackbox instances: values are operands, keys are keys of the statement *)
  Definition cval (g : circuit) (ic : string * conns) (cc : string * cconns) : Prop :=
    ∃ ps conns, ic.2 = Named ps ∧ cc.2 = CNamed conns ∧ ∀ kv : string * string, kv ∈ conns → opx g kv.2 ∧ kv.1 ∈ ps.*1.
  Lemma cval_mono (g g' : circuit) l cl : (∀ x, x ∈ dom g → x ∈ dom g') → Forall2 (cval g) l cl → Forall2 (cval g') l cl.
  Proof.
    intros Hs H. eapply Forall2_impl; [exact H|]. intros ic cc (ps & conns & E1 & E2 & V). exists ps, conns. split; [done|]. split; [done|].
    intros kv Hkv. destruct (V kv Hkv) as [? ?]. split; [by eapply opx_mono|done].
  Qed.
  Lemma insts_named_succ insts : ∀ st, gst k st → sinv X st.1 →
    Forall (λ ic : string * conns, ∃ ps, ic.2 = Named ps ∧ ∀ pc : string * option cond, pc ∈ ps → ∀ e, pc.2 = Some e → ids_good e) insts →
    ∃ st' cl, rmapS (inst_step k) st insts = Ok (st', cl) ∧ sinv X st'.1 ∧ Forall2 (cval st'.1) insts cl.
  Proof.
    induction insts as [|ic insts IH]; intros st G HS HF.
    - exists st, []. split; [done|]. split; [done|constructor].
    - inversion HF as [|? ? (ps & E & Hid) HF']; subst.
      destruct (named_succ_x ps st G HS Hid) as (st1 & os & H1 & N1 & F1).
      assert (G1 : gst k st1 ∧ st.1 ⊆ st1.1).
      { pose proof (c_conns_named k st ps st1 os H1) as Hc.
        destruct (conns_frame k (frg k) (frg_refl k) (frg_trans k) (frg_cond k) _ _ _ _ Hc) as [? Hg]. split; [by apply Hg|done]. }
      destruct G1 as [G1 S1]. destruct (IH st1 G1 N1 HF') as (st2 & cl & H2 & N2 & F2).
      assert (S2 : st1.1 ⊆ st2.1).
      { destruct (insts_frame k (frg k) (frg_refl k) (frg_trans k) (frg_cond k) _ _ _ _ H2) as [? _]. done. }
      exists st2, ((ic.1, CNamed (foldl dstep [] os)) :: cl). split; [|split; [done|]].
      + cbn [rmapS]. unfold inst_step at 1. rewrite E. rewrite (c_conns_named k st ps st1 os H1). cbn [mbind res_mbind rbind fst snd]. rewrite H2. done.
      + constructor; [|done]. exists ps, (foldl dstep [] os). split; [done|]. split; [done|].
        destruct (dict_fold_Q (λ kv, opx st1.1 kv.2 ∧ kv.1 ∈ ps.*1) os []) as [_ HQ]; [constructor|intros kv Hin; by apply elem_of_nil in Hin|done|].
        intros kv Hkv. destruct (HQ kv Hkv) as [? ?]. split; [|done]. eapply opx_mono; [|done]. intros x Hx. by apply (subseteq_dom _ _ S2).
  Qed.
End namedsucc.


(* pins of instances with different names are different strings *)
Definition pins_apart (Lall : list xinst) : Prop :=
  ∀ x y p q, x ∈ Lall → y ∈ Lall → x.1.1 ≠ y.1.1 → p ∈ bb_in x.1.2 ∪ bb_out x.1.2 → q ∈ bb_in y.1.2 ∪ bb_out y.1.2 → pin x.1.1 p ≠ pin y.1.1 q.

Section bbssucc.
  Context (k : rctx) (NN : gset string) (g0 gc : circuit) (Lall : list xinst).
  Hypothesis Htr : ties k ## k_rsv k.
  Hypothesis HNN : NN ⊆ k_rsv k.
  Hypothesis Hgood : ∀ s, s ∈ NN → good_name s ∧ nodot s.
  Hypothesis Hapart : pins_apart Lall.

  Lemma bbs_succ d cl : ∀ insts gb ge P L, rinv k NN P gb.1 ge → sinv (pinsL L) gb.1 → gb.2 = list_to_map (regL L) →
    Forall2 (cbb_good NN d) insts cl → Forall2 (crel k NN g0 gc) insts cl → Forall2 (cval gb.1) insts cl → Forall (bb_guard NN d) insts →
    Forall (λ ic : string * conns, ∃ ps, ic.2 = Named ps ∧ NoDup ps.*1) insts → Forall (λ ic : string * conns, starts_digit ic.1 = false) insts →
    NoDup (P.*1 ++ (insts ≫= bb_defs d)) → bb_in d ## bb_out d → NoDup ((regL L).*1 ++ insts.*1) →
    (∀ x, x ∈ L → x ∈ Lall) → (∀ x, x ∈ insts ≫= xof d → x ∈ Lall) →
    ∃ gb', rfold (bb_instance k d) gb cl = Ok gb' ∧ sinv (pinsL (L ++ (insts ≫= xof d))) gb'.1 ∧ (∀ x, x ∈ dom gb.1 → x ∈ dom gb'.1).
  Proof.
    induction cl as [|cc cl IH]; intros insts gb ge P L Hi HS Hreg HF HC HV HG HN HD Hnd Hdisj Hnames HL1 HL2.
    - inversion HF; subst. exists gb. split; [done|]. simpl. by rewrite app_nil_r.
    - inversion HF as [|ic ? insts' ? Hgood' HF']; subst. pose proof Hgood' as (Enm & conns & Ec & Hcn & Hkv).
      destruct cc as [cn cc2]. cbn [fst snd] in Enm, Ec. subst cn cc2.
      inversion HC as [|? ? ? ? (ps & conns2 & Eps & Ec2 & Hrel & Hvo) HC']; subst. cbn [snd] in Ec2. injection Ec2 as <-.
      inversion HV as [|? ? ? ? (ps4 & conns4 & Eps4 & Ec4 & Hval) HV']; subst. cbn [snd] in Ec4. injection Ec4 as <-. rewrite Eps in Eps4. injection Eps4 as <-.
      inversion HG as [|? ? Hg HG']; subst. inversion HN as [|? ? (ps2 & Eps2 & Hndps) HN']; subst. rewrite Eps in Eps2. injection Eps2 as <-.
      inversion HD as [|? ? Hdig HD']; subst.
      cbn [mbind list_bind] in Hnd, HL2 |- *. fold (mbind (M:=list) (bb_defs d)) in Hnd. fold (mbind (M:=list) (xof d)) in HL2 |- *.
      pose proof Hi as [G T Xx U Eq N].
      pose proof Hg as (ps3 & Eps3 & Hgp & Hpin). rewrite Eps in Eps3. injection Eps3 as <-.
      assert (Hnp : ∀ w, w ∈ bb_defs d ic → w ∉ P.*1).
      { intros w Hw Hp. apply NoDup_app in Hnd as (_ & Hd & _). apply (Hd _ Hp). apply elem_of_app. by left. }
      assert (Hxo : xof d ic = [(ic.1, d, ps)]) by (unfold xof; by rewrite Eps).
      assert (Hpc : ∀ kv : string * string, kv ∈ conns → kv.1 ∉ bb_in d → (kv.1, Some (cid kv.2)) ∈ ps ∧ kv.1 ∈ bb_out d).
      { intros kv Hkvin Hko. pose proof (dict_get_nodup conns kv.1 kv.2 Hcn ltac:(by destruct kv)) as Hdg. specialize (Hrel kv.1).
        destruct (list_find (λ pc : string * option cond, pc.1 = kv.1) ps) as [[j [p' c]]|] eqn:El; simpl in Hrel; [|congruence].
        apply list_find_Some in El as (Hl & Hk & _). simpl in Hk. subst p'. apply elem_of_list_lookup_2 in Hl.
        destruct c as [e|]; [|congruence]. destruct Hrel as (v & Hv & Hw). assert (v = kv.2) as -> by congruence.
        destruct (Hgp _ Hl) as [[? _]|(Ho & _ & [?|(w & Ew & _)])]; [done|done|]. simpl in Ew. injection Ew as ->. by rewrite (Hw w eq_refl). }
      assert (Hndd : NoDup (bb_defs d ic)). { apply NoDup_app in Hnd as (_ & _ & Hnd). by apply NoDup_app in Hnd as (? & _). }
      assert (Huq : ∀ kv kv' : string * string, kv ∈ conns → kv' ∈ conns → kv.1 ∉ bb_in d → kv'.1 ∉ bb_in d → kv.2 = kv'.2 → kv = kv').
      { intros kv kv' Hk1 Hk2 Hn1 Hn2 Heq. destruct (Hpc kv Hk1 Hn1) as [Hp1 Ho1]. destruct (Hpc kv' Hk2 Hn2) as [Hp2 Ho2]. rewrite <- Heq in Hp2.
        unfold bb_defs in Hndd. rewrite Eps in Hndd.
        assert (E' : (kv.1, Some (cid kv.2)) = (kv'.1, Some (cid kv.2))).
        { eapply (bind_nodup_inj _ ps _ _ kv.2 Hndd Hp1 Hp2); simpl; rewrite bool_decide_eq_true_2 by done; by left. }
        injection E' as E'. destruct kv, kv'; simpl in *; congruence. }
      assert (Hx0 : ((ic.1, d, ps) : xinst) ∈ Lall) by (apply HL2; rewrite Hxo; apply elem_of_app; left; by left).
      assert (Hn0 : ic.1 ∉ (regL L).*1). { apply NoDup_app in Hnames as (_ & Hd' & _). intros Hin. apply (Hd' _ Hin). by left. }
      destruct (bb_instance_succ k NN (pinsL L) Htr HNN Hgood d gb ic.1 conns ge G HS Hcn) as (gb1 & H1 & S1); [|done|done| |done| |].
      { intros kv Hin. destruct (Hval kv Hin) as [Hop Hkey]. split; [done|].
        apply elem_of_list_fmap in Hkey as (pc & Epc & Hpcin). destruct (Hgp pc Hpcin) as [[Hi' Ho']|(Ho' & Hi' & _)]; rewrite <- Epc in *; [by left|right].
        destruct (Hkv kv Hin Ho') as (_ & HnN & Hdf). split; [done|]. split; [done|]. split; [done|]. apply U; [done|by apply Hnp]. }
      { rewrite Hreg. rewrite dom_list_to_map_L. by rewrite elem_of_list_to_set. }
      { intros p Hp Hx. unfold pinsL in Hx. apply elem_of_union_list in Hx as (Xs & HXs & Hx). apply elem_of_list_fmap in HXs as (y & -> & Hy).
        unfold xpins in Hx. apply elem_of_map in Hx as (q & Heq & Hq).
        apply (Hapart (ic.1, d, ps) y p q Hx0 (HL1 y Hy)); [|done|done|done]. simpl. intros E. apply Hn0. rewrite E. unfold regL. rewrite <- list_fmap_compose. apply elem_of_list_fmap. exists y. done. }
      assert (Hshape : bbshape d ic.1 conns gb.1 gb1.1).
      { eapply (bb_instance_shape k Htr d gb (ic.1, CNamed conns) gb1 ge conns H1 eq_refl Hcn G); [|exact Huq].
        intros kv Hin Hout. destruct (Hkv kv Hin Hout) as (Hni & Hnn & Hdf). split; [done|]. split; [by apply HNN|]. apply U; [done|by apply Hnp]. }
      destruct Hshape as [Bi Bo Bn Bold Bnew Bf Bd Bv Bk].
      assert (Hdm : ∀ y, y ∈ dom gb.1 → y ∈ dom gb1.1).
      { intros y Hy. destruct (decide (Exists (λ kv : string * string, kv.1 ∉ bb_in d ∧ y = kv.2) conns)) as [Hex|Hnex].
        - apply Exists_exists in Hex as (kv & Hin & Hni & ->). apply elem_of_dom. rewrite (Bn kv Hin Hni). eauto.
        - apply elem_of_dom in Hy as [j Hj]. apply elem_of_dom. exists j. rewrite <- Hj. apply Bold; [apply elem_of_dom; eauto|].
          intros kv Hin Hni ->. apply Hnex. apply Exists_exists. eauto. }
      assert (Hi1 : rinv k NN (P ++ (dummy <$> bb_defs d ic)) gb1.1 ge).
      { pose proof (bbs_rinv k NN Htr HNN d [(ic.1, CNamed conns)] [ic] gb gb1 ge P) as Hp. simpl in Hp. rewrite app_nil_r in Hp.
        apply Hp; [by rewrite H1|done|by constructor|by constructor|]. rewrite app_assoc in Hnd. by apply NoDup_app in Hnd as (? & _ & _). }
      assert (Hreg1 : gb1.2 = list_to_map (regL (L ++ [(ic.1, d, ps)]))).
      { pose proof (bbs_reg k NN d [(ic.1, CNamed conns)] [ic] gb gb1 L) as Hp. simpl in Hp. rewrite Hxo in Hp. apply Hp; [by rewrite H1|by constructor| |done].
        constructor; [eauto|constructor]. }
      destruct (IH insts' gb1 ge _ (L ++ [(ic.1, d, ps)])%list Hi1) as (gb' & H2 & S2 & D2); try done.
      + rewrite pinsL_app, pinsL_single. exact S1.
      + eapply cval_mono; [exact Hdm|done].
      + rewrite fmap_app, dummy_fst, <- app_assoc. done.
      + unfold regL. rewrite fmap_app, fmap_app. simpl. rewrite <- app_assoc. simpl. rewrite fmap_cons in Hnames. exact Hnames.
      + intros x [Hx|Hx%elem_of_list_singleton]%elem_of_app; [by apply HL1|by subst].
      + intros x Hx. apply HL2. apply elem_of_app. by right.
      + exists gb'. split; [cbn [rfold]; rewrite H1; exact H2|]. split; [rewrite Hxo; by rewrite app_assoc|]. intros x Hx. by apply D2, Hdm.
  Qed.
End bbssucc.


Section itemsx.
  Context (k : rctx) (NN DD : gset string) (Lall : list xinst).
  Hypothesis Htr : ties k ## k_rsv k.
  Hypothesis HNN : NN ⊆ k_rsv k.
  Hypothesis Hgood : ∀ s, s ∈ NN → good_name s ∧ nodot s.
  Hypothesis Hties : ∀ t, t ∈ ties k → nodot t.
  Hypothesis Hapart : pins_apart Lall.

  (* nodes known to exist: declared inputs and nets with a real driver *)
  Definition known2 (Kd : list string) (st : rstate) : Prop := (∀ x, x ∈ r_ins st → x ∈ dom (r_g st)) ∧ (∀ x, x ∈ Kd → x ∈ dom (r_g st)).
  (* extra guard for blackbox statements *)
  Definition item_bb_ok (it : item) : Prop :=
    match it with
    | IInst mn insts => match prim_of_name mn, find_def (k_bbs k) mn with
                        | None, Some d => bb_in d ## bb_out d ∧ Forall (λ ic : string * conns, starts_digit ic.1 = false) insts
                        | _, _ => True end
    | _ => True end.

  Lemma c_item_succ_x st it P L Kd : rinv k NN P (r_g st) (r_ge st) → sinv (pinsL L) (r_g st) → r_bbs st = list_to_map (regL L) →
    known2 Kd st → r_ins st ⊆ k_rsv k → (∀ x, x ∈ Kd → x ∈ k_rsv k) →
    item_den_ok2 k NN DD it → item_pin_ok NN it → item_bb_ok it →
    NoDup (P.*1 ++ (xitem_drivers (k_bbs k) it).*1) → (list_to_set P.*1 : gset string) ⊆ DD →
    NoDup ((regL L).*1 ++ (regL (xit k it)).*1) → (∀ x, x ∈ L → x ∈ Lall) → (∀ x, x ∈ xit k it → x ∈ Lall) →
    ∃ st', c_item k st it = Ok st' ∧ sinv (pinsL (L ++ xit k it)) (r_g st') ∧ known2 (Kd ++ (item_drivers it).*1) st' ∧ r_ins st' ⊆ k_rsv k.
  Proof.
    intros Hi HS Hreg [Kin Kp] Hir HKr Hok Hpk Hbk Hnd HDD Hnm HL1 HL2. pose proof Hi as [G T Xx U Eq N].
    destruct it as [ns|ns|ns|mn insts|l]; simpl in Hok, Hpk, Hbk; cbn [xit item_drivers].
    - destruct (inputs_succ_x k NN (pinsL L) Hgood ns (r_g st)) as (g' & H' & N' & D' & I'); [intros n Hn; by destruct (Hok n Hn)|done|].
      eexists. split; [cbn [c_item]; rewrite H'; cbn; done|]. cbn [r_g r_ins]. rewrite !app_nil_r. split; [done|]. split; [split|].
      + intros x [Hx|Hx%elem_of_list_to_set]%elem_of_union; [by apply D', Kin|by apply I'].
      + intros x Hx. by apply D', Kp.
      + intros x [Hx|Hx%elem_of_list_to_set]%elem_of_union; [by apply Hir|]. by destruct (Hok x Hx) as (_ & ? & _).
    - eexists. split; [done|]. cbn. rewrite !app_nil_r. done.
    - exists st. split; [done|]. rewrite !app_nil_r. done.
    - cbn [xitem_drivers] in Hnd. cbn [xit] in Hnm, HL2 |- *. destruct (prim_of_name mn) as [t|] eqn:Ep.
      + rewrite app_nil_r. destruct Hok as (t' & Et & Ht & HG). injection Et as <-.
        assert (Hpos : Forall (λ ic : string * conns, ∃ n ins, ic.2 = Positional (cid n :: ins)) insts).
        { eapply Forall_impl; [exact HG|]. intros ic (n & ins & E & _). eauto. }
        destruct (insts_succ_x k (pinsL L) Hties insts (r_g st, r_ge st)) as (stc & cl & H1 & Nc & Oc); [by destruct st|done| |].
        { eapply Forall_impl; [exact Hpk|]. intros ic (n & ins & E & Hid). exists n, ins. split; [done|]. intros e He s Hs. apply Hgood. apply (Hid e He). by apply elem_of_list_to_set. }
        assert (Hpos' : Forall (λ ic : string * conns, ∃ ps, ic.2 = Positional ps) insts).
        { eapply Forall_impl; [exact Hpos|]. intros ic (n & ins & E). eauto. }
        destruct (insts_compile_prim k insts _ _ _ H1 T Hpos) as [Ss Fc]. simpl in *.
        destruct (insts_frame_pos k (frg k) (frg_refl k) (frg_trans k) (frg_list k) _ _ _ _ H1 Hpos') as [_ Gc]. specialize (Gc G).
        pose proof (insts_frame_pos k (fr2 k) (fr2_refl k) (fr2_trans k) (fr2_list k) _ _ _ _ H1 Hpos') as F2.
        assert (Hic : rinv k NN P stc.1 stc.2).
        { eapply rinv_refine; [exact Hi|by apply refines_sub|by destruct stc|by eapply ties_mono| |].
          { destruct Xx as (i & Hx & Hc'). exists i. split; [|done]. by eapply lookup_weaken. }
          intros n Hn Hp Hu. eapply (fr2_undef k (r_g st, r_ge st) stc); [done|by apply HNN|done]. }
        assert (Hd : insts ≫= inst_drivers mn = insts ≫= prim_drv t).
        { clear -Ep. induction insts as [|ic insts IH]; [done|]. cbn. rewrite IH. by rewrite (prim_drv_eq mn t ic Ep). }
        cbn [item_drivers] in Hnd |- *. rewrite Hd in Hnd |- *.
        destruct (prims_succ_x k NN (pinsL L) Htr HNN Hgood Hties t cl insts stc.1 stc.2 P Hic Nc Fc Oc Ht HG Hnd) as (g' & H2 & N2 & D2 & L2).
        eexists. split; [by eapply c_item_inst_prim|]. cbn [r_g r_ins st_g st_ge]. split; [done|]. split; [split|done].
        * intros x Hx. apply D2. apply (subseteq_dom _ _ Ss). by apply Kin.
        * intros x [Hx|Hx]%elem_of_app; [|by apply L2]. apply D2. apply (subseteq_dom _ _ Ss). by apply Kp.
      + destruct Hok as (d & Ed & HG). rewrite Ed in Hbk, Hnm, HL2 |- *. destruct Hbk as [Hdisj Hdig]. cbn [item_drivers].
        assert (Hnil : (insts ≫= inst_drivers mn).*1 = []).
        { clear -Ep. induction insts as [|ic insts IH]; [done|]. cbn. unfold inst_drivers at 1. rewrite Ep. done. }
        rewrite Hnil, app_nil_r.
        destruct (insts_named_succ k (pinsL L) Hties insts (r_g st, r_ge st)) as (stc & cl & H1 & Nc & Vc); [by destruct st|done| |].
        { eapply Forall_impl; [exact Hpk|]. intros ic (ps & E & _ & Hid). exists ps. split; [done|]. intros pc Hpc e He s Hs. apply Hgood. apply (Hid pc Hpc e He). by apply elem_of_list_to_set. }
        destruct (insts_frame k (frg k) (frg_refl k) (frg_trans k) (frg_cond k) _ _ _ _ H1) as [Ss Gc]. specialize (Gc G). simpl in Ss.
        pose proof (insts_frame k (fr2 k) (fr2_refl k) (fr2_trans k) (fr2_cond k) _ _ _ _ H1) as F2.
        assert (Hic : rinv k NN P stc.1 stc.2).
        { eapply rinv_refine; [exact Hi|by apply refines_sub|by destruct stc|by eapply ties_mono| |].
          { destruct Xx as (i & Hx & Hc'). exists i. split; [|done]. by eapply lookup_weaken. }
          intros n Hn Hp Hu. eapply (fr2_undef k (r_g st, r_ge st) stc); [done|by apply HNN|done]. }
        rewrite dummy_fst in Hnd. rewrite (insts_defs_bb (k_bbs k) mn d insts Ep Ed) in Hnd.
        destruct (insts_crel k NN (r_g st) HNN insts (r_g st, r_ge st) stc cl H1 G) as [_ HC]; [done| |].
        { eapply Forall_impl; [exact Hpk|]. intros ic (ps & E & Hn & Hid). exists ps. split; [done|]. split; [done|]. exact Hid. }
        destruct (bbs_succ k NN (r_g st) stc.1 Lall Htr HNN Hgood Hapart d cl insts (stc.1, r_bbs st) stc.2 P L Hic Nc Hreg) as (x & H2 & S2 & D2); try done.
        * exact (insts_bbgood k NN Htr HNN d insts _ _ cl H1 HG).
        * eapply Forall_impl; [exact Hpk|]. intros ic (ps & E & Hn & _). eauto.
        * assert (En : (regL (insts ≫= xof d)).*1 = insts.*1); [|by rewrite <- En].
          clear -Hpk. induction insts as [|ic insts IH]; [done|]. inversion Hpk as [|? ? (ps & E & _) Hpk']; subst. cbn. unfold xof at 1. rewrite E. cbn. f_equal. by apply IH.
        * eexists. split.
          { cbn [c_item]. assert (Hc : c_item k st (IInst mn insts) = Ok {| r_g := x.1; r_bbs := x.2; r_ge := stc.2; r_io := r_io st; r_ins := r_ins st; r_outs := r_outs st |}); [|exact Hc].
            unfold c_item. destruct (rmapS _ (r_g st, r_ge st) insts) as [[stc' cl']|e| |] eqn:E.
            - pose proof (eq_trans (eq_sym E) H1) as E'. injection E' as -> ->. cbn [mbind res_mbind rbind fst snd]. rewrite Ep. unfold find_bb. rewrite Ed.
              cbn [st_g st_ge r_g r_bbs]. rewrite H2. done.
            - discriminate (eq_trans (eq_sym E) H1).
            - discriminate (eq_trans (eq_sym E) H1).
            - discriminate (eq_trans (eq_sym E) H1). }
          cbn [r_g r_ins]. split; [done|]. split; [split|done].
          -- intros y Hy. apply D2. apply (subseteq_dom _ _ Ss). by apply Kin.
          -- intros y Hy. apply D2. apply (subseteq_dom _ _ Ss). by apply Kp.
    - rewrite app_nil_r. assert (Hl1 : ((λ p : string * cond, (p.1, DAssign p.2)) <$> l).*1 = l.*1).
      { clear. induction l as [|a l IH]; [done|]. rewrite !fmap_cons. f_equal. exact IH. }
      cbn [xitem_drivers item_drivers] in Hnd |- *. rewrite Hl1 in Hnd |- *.
      destruct (assigns_succ_x k NN (pinsL L) Htr HNN Hgood Hties l (r_g st, r_ge st) P Hi HS) as (st' & H1 & N1 & K1 & L1).
      { eapply Forall_impl; [exact Hpk|]. intros a Ha. by apply drv_ok2_ok. }
      { done. }
      { intros a Ha s Hs. apply Hgood. rewrite Forall_forall in Hpk. destruct (Hpk a Ha) as [_ Hid]. apply Hid. simpl. by apply elem_of_list_to_set. }
      eexists. split; [cbn [c_item]; rewrite H1; cbn; done|]. cbn [r_g r_ins st_g st_ge]. split; [done|]. split; [split|done].
      + intros x Hx. apply K1; [by apply Hir|by apply Kin].
      + intros x [Hx|Hx]%elem_of_app; [|by apply L1]. apply K1; [by apply HKr|by apply Kp].
  Qed.
End itemsx.


Section itemsx2.
  Context (k : rctx) (NN DD : gset string) (Lall : list xinst).
  Hypothesis Htr : ties k ## k_rsv k.
  Hypothesis HNN : NN ⊆ k_rsv k.
  Hypothesis Hgood : ∀ s, s ∈ NN → good_name s ∧ nodot s.
  Hypothesis Hties : ∀ t, t ∈ ties k → nodot t.
  Hypothesis Hapart : pins_apart Lall.

  Lemma items_succ_x items : ∀ st P L Kd, rinv k NN P (r_g st) (r_ge st) → sinv (pinsL L) (r_g st) → r_bbs st = list_to_map (regL L) →
    known2 Kd st → r_ins st ⊆ k_rsv k → (∀ x, x ∈ Kd → x ∈ k_rsv k) →
    Forall (item_den_ok2 k NN DD) items → Forall (item_pin_ok NN) items → Forall (item_bb_ok k) items →
    NoDup (P.*1 ++ (items ≫= xitem_drivers (k_bbs k)).*1) → (list_to_set (P.*1 ++ (items ≫= xitem_drivers (k_bbs k)).*1) : gset string) ⊆ DD →
    NoDup ((regL L).*1 ++ (regL (items ≫= xit k)).*1) → (∀ x, x ∈ L → x ∈ Lall) → (∀ x, x ∈ items ≫= xit k → x ∈ Lall) →
    ∃ st', rfold (c_item k) st items = Ok st' ∧ known2 (Kd ++ (items ≫= item_drivers).*1) st'.
  Proof.
    induction items as [|it items IH]; intros st P L Kd Hi HS Hreg Hk Hir HKr HF HV HB Hnd HDD Hnm HL1 HL2.
    - exists st. split; [done|]. simpl. by rewrite app_nil_r.
    - inversion HF as [|? ? Hok HF']; subst. inversion HV as [|? ? Hpk HV']; subst. inversion HB as [|? ? Hbk HB']; subst.
      cbn [mbind list_bind] in Hnd, HDD, Hnm, HL2 |- *. fold (mbind (M:=list) (xitem_drivers (k_bbs k))) in Hnd, HDD. fold (mbind (M:=list) (xit k)) in Hnm, HL2. fold (mbind (M:=list) item_drivers).
      rewrite fmap_app in Hnd, HDD. rewrite app_assoc in Hnd.
      assert (Hnd1 : NoDup (P.*1 ++ (xitem_drivers (k_bbs k) it).*1)) by (by apply NoDup_app in Hnd as (? & _ & _)).
      assert (HDD1 : (list_to_set P.*1 : gset string) ⊆ DD) by (clear -HDD; set_solver).
      assert (Hnm1 : NoDup ((regL L).*1 ++ (regL (xit k it)).*1)).
      { unfold regL in Hnm |- *. rewrite fmap_app, fmap_app, app_assoc in Hnm. by apply NoDup_app in Hnm as (? & _ & _). }
      destruct (c_item_succ_x k NN DD Lall Htr HNN Hgood Hties Hapart st it P L Kd Hi HS Hreg Hk Hir HKr Hok Hpk Hbk Hnd1 HDD1 Hnm1 HL1) as (st1 & H1 & S1 & K1 & R1).
      { intros x Hx. apply HL2. apply elem_of_app. by left. }
      assert (Hi1 : rinv k NN (P ++ xitem_drivers (k_bbs k) it) (r_g st1) (r_ge st1)) by (by eapply c_item_rinv2).
      assert (Hreg1 : r_bbs st1 = list_to_map (regL (L ++ xit k it))).
      { pose proof (items_reg k NN DD Htr HNN [it] st st1 L) as Hp. simpl in Hp. rewrite app_nil_r in Hp. apply Hp; [by rewrite H1|by constructor|done]. }
      destruct (IH st1 _ _ _ Hi1 S1 Hreg1 K1 R1) as (st' & H2 & K2); try done.
      + intros x [Hx|Hx]%elem_of_app; [by apply HKr|]. destruct Hi1 as [_ _ _ _ _ N1]. rewrite Forall_forall in N1.
        apply elem_of_list_fmap in Hx as (nd & -> & Hin). apply (item_drivers_sub (k_bbs k)) in Hin. destruct (N1 nd) as (_ & ? & _); [apply elem_of_app; by right|done].
      + by rewrite fmap_app.
      + rewrite fmap_app. clear -HDD. set_solver.
      + unfold regL in Hnm |- *. rewrite !fmap_app in Hnm |- *. by rewrite <- app_assoc.
      + intros x [Hx|Hx]%elem_of_app; [by apply HL1|]. apply HL2. apply elem_of_app. by left.
      + intros x Hx. apply HL2. apply elem_of_app. by right.
      + exists st'. split; [cbn [rfold]; rewrite H1; exact H2|]. rewrite fmap_app, app_assoc. done.
  Qed.
End itemsx2.

(* ------------------------------------------------------------------ success of the read, modules with blackbox instances *)
Definition nodots (m : vmodule) : Prop := ∀ s, s ∈ module_nets m → nodot s.
Definition bb_items_ok (rsv : gset string) (bbs : list bbdef) (m : vmodule) : Prop := Forall (item_bb_ok (init_ctx rsv bbs).1) (m_items m).
Definition outs_driven2 (bbs : list bbdef) (m : vmodule) : Prop :=
  ∀ s, s ∈ decl_outputs m → s ∈ decl_inputs m ∨ s ∈ (drivers m).*1 ∨ s ∈ netsL (bb_insts bbs m).

Lemma defs_split bbs m s : s ∈ module_defs bbs m → s ∈ (drivers m).*1 ∨ s ∈ netsL (bb_insts bbs m).
Proof.
  unfold module_defs, drivers, bb_insts. intros (it & Hs & Hit)%elem_of_list_bind. destruct it as [ns|ns|ns|mn insts|l]; simpl in Hs; try (by apply elem_of_nil in Hs).
  - apply elem_of_list_bind in Hs as (ic & Hs & Hic). unfold inst_defs in Hs. destruct (prim_of_name mn) as [t|] eqn:Ep.
    + left. apply elem_of_list_fmap. destruct ic as [nm [[|o ins]|ps]]; simpl in Hs; try (by apply elem_of_nil in Hs).
      destruct (as_id o) as [n|] eqn:Eo; [|by apply elem_of_nil in Hs]. apply elem_of_list_singleton in Hs as ->.
      exists (n, DPrim t ins). split; [done|]. apply elem_of_list_bind. exists (IInst mn insts). split; [|done]. simpl.
      apply elem_of_list_bind. exists (nm, Positional (o :: ins)). split; [|done]. unfold inst_drivers. rewrite Ep. simpl. rewrite Eo. by left.
    + right. destruct (find_def bbs mn) as [d|] eqn:Ed; [|by apply elem_of_nil in Hs]. destruct ic as [nm [pp|ps]]; simpl in Hs; [by apply elem_of_nil in Hs|].
      unfold netsL. apply elem_of_union_list. exists (xnets (nm, d, ps)). split.
      * apply elem_of_list_fmap. exists (nm, d, ps). split; [done|]. apply elem_of_list_bind. exists (IInst mn insts). split; [|done]. rewrite Ep, Ed.
        apply elem_of_list_bind. exists (nm, Named ps). split; [|done]. simpl. by left.
      * unfold xnets. simpl. apply elem_of_list_to_set. unfold bb_defs. simpl. exact Hs.
  - left. apply elem_of_list_fmap in Hs as ([lv e] & -> & Hin). apply elem_of_list_fmap. exists (lv, DAssign e). split; [done|].
    apply elem_of_list_bind. exists (IAssign l). split; [|done]. simpl. apply elem_of_list_fmap. exists (lv, e). done.
Qed.
Lemma in_subset_outs_driven2 bbs m : in_subset bbs m = true → outs_driven2 bbs m.
Proof. intros Hs s Ho. destruct (in_subset_outs_driven bbs m Hs s Ho) as [?|Hd]; [by left|right]. by apply defs_split. Qed.

Theorem read_succeeds_bb rsv bbs m : ports_match m = true → in_subset bbs m = true → names_ok m → nodots m →
  bb_items_ok rsv bbs m → pins_apart (bb_insts bbs m) → (list_to_set (module_ids m) : gset string) ⊆ rsv → ∃ C, read rsv bbs m = Ok C.
Proof.
  intros Hpm Hs Hnm Hnd' Hbk Hap Hids. pose proof (in_subset_outs_driven2 bbs m Hs) as Hod. destruct (in_subset_den2 rsv bbs m Hs Hids) as (HNN & Hok & Hnd). pose proof (in_subset_pin rsv bbs m Hs Hids) as Hpk.
  assert (Hnames : NoDup ((bb_insts bbs m).*1.*1)).
  { unfold in_subset in Hs. rewrite !andb_true_iff in Hs. destruct Hs as ((((((_ & Hn) & _) & _) & _) & _) & _). by apply bool_decide_eq_true in Hn. }
  pose proof (init_nodot rsv bbs) as Hties. unfold bb_items_ok in Hbk. unfold outs_driven2 in Hod. rewrite (bb_insts_xit rsv bbs m) in Hap, Hnames, Hod.
  unfold read. pose proof (init_rinv rsv bbs) as Hk. pose proof (init_g0 rsv bbs) as Hg. cbv zeta in Hk, Hg.
  destruct (init_ctx rsv bbs) as [k g0]. simpl in Hk, Hg, Hok, Hpk, Hbk, Hties, Hap, Hnames, Hod. destruct Hk as (Er & Eb & Htr & _ & _ & _ & Hi0). destruct Hg as (_ & _ & Hg0). subst rsv. subst bbs.
  set (NN := list_to_set (module_nets m) : gset string) in *. specialize (Hi0 NN HNN).
  set (st0 := {| r_g := g0; r_bbs := ∅; r_ge := ∅; r_io := list_to_set (m_ports m); r_ins := ∅; r_outs := ∅ |}).
  assert (Hgood : ∀ s, s ∈ NN → good_name s ∧ nodot s).
  { intros s Hs'. apply elem_of_list_to_set in Hs'. split; [by apply Hnm|by apply Hnd']. }
  assert (HS0 : sinv (pinsL []) (r_g st0)).
  { assert (E1 : pinsL [] = ∅) by done. rewrite E1. split.
    - intros x j Hx Hty. destruct (Hg0 x j Hx) as (_ & Hc & _). exfalso. destruct Hty as [E|E]; rewrite E in Hc; set_solver.
    - intros x Hx. right. apply elem_of_dom in Hx as [j Hj]. destruct (Hg0 x j Hj) as (Ht & _). by apply Hties.
    - intros x Hx. by apply elem_of_empty in Hx. }
  destruct (items_succ_x k NN (list_to_set (xdrivers (k_bbs k) m).*1) (m_items m ≫= xit k) Htr HNN Hgood Hties Hap (m_items m) st0 [] [] [] Hi0 HS0) as (st & Hf & [Kin Kp]); try done.
  { split; [intros x Hx; by apply elem_of_empty in Hx|intros x Hx; by apply elem_of_nil in Hx]. }
  { intros x Hx. by apply elem_of_nil in Hx. }
  { simpl. unfold regL. rewrite <- list_fmap_compose. rewrite <- list_fmap_compose in Hnames. exact Hnames. }
  { intros x Hx. by apply elem_of_nil in Hx. }
  rewrite Hf. cbn [mbind res_mbind rbind]. simpl in Kp. fold (drivers m) in Kp.
  assert (HQ0 : Qinv k NN [] [] (r_g st0)).
  { assert (E1 : pinsL [] = ∅) by done. assert (E2 : netsL [] = ∅) by done. split; [constructor| | | | | |]; rewrite ?E1, ?E2.
    - intros x Hx. by apply elem_of_empty in Hx.
    - intros x Hx. apply elem_of_union in Hx as [Hx|Hx]; by apply elem_of_empty in Hx.
    - intros x Hx. by apply elem_of_empty in Hx.
    - intros x Hx. by apply elem_of_empty in Hx.
    - intros x Hx. by apply elem_of_empty in Hx.
    - intros y j _ x p Hx. by apply elem_of_nil in Hx. }
  destruct (items_pins k NN (list_to_set (xdrivers (k_bbs k) m).*1) Htr HNN (m_items m) st0 st [] [] Hf Hi0 HQ0 Hok Hpk Hnd ltac:(done)) as [HQ _].
  simpl in HQ. destruct HQ as [_ _ Qd _ _ _ _].
  pose proof (items_sets _ _ _ _ Hf) as (E1 & E2 & E3). simpl in E1, E2, E3.
  change (m_items m ≫= item_ins) with (decl_inputs m) in E2. change (m_items m ≫= item_outs) with (decl_outputs m) in E3.
  apply bool_decide_eq_true in Hpm.
  unfold finish. rewrite E1, E2, E3, Hpm.
  rewrite (bool_decide_eq_true_2 (∅ ∪ list_to_set (decl_inputs m) ⊆ _)) by (clear; set_solver).
  rewrite (bool_decide_eq_true_2 (∅ ∪ list_to_set (decl_outputs m) ⊆ _)) by (clear; set_solver).
  rewrite (bool_decide_eq_true_2 (_ ⊆ ∅ ∪ list_to_set (decl_inputs m) ∪ (∅ ∪ list_to_set (decl_outputs m)))) by (clear; set_solver). cbn [negb].
  destruct (set_output_ok (elements (∅ ∪ list_to_set (decl_outputs m) : gset string)) (r_g st)) as [g' Hso].
  { intros x Hx. apply elem_of_elements in Hx. assert (Hx' : x ∈ decl_outputs m) by (clear -Hx; set_solver).
    destruct (Hod x Hx') as [Hin|[Hdf|Hnt]].
    - apply Kin. rewrite E2. clear -Hin. set_solver.
    - by apply Kp.
    - apply Qd. by apply elem_of_union_r. }
  rewrite Hso. eauto.
Qed.

(* read_denotes in full under the identifier guards: the read succeeds and every conjunct of the conclusion holds *)
Theorem read_denotes_full_guarded rsv bbs m : ports_match m = true → in_subset bbs m = true → names_ok m → nodots m →
  bb_items_ok rsv bbs m → pins_apart (bb_insts bbs m) → (list_to_set (module_ids m) : gset string) ⊆ rsv →
  ∃ C, read rsv bbs m = Ok C ∧ c_name C = m_name m ∧
    c_bbs C = list_to_map ((λ x : xinst, (x.1.1, x.1.2)) <$> bb_insts bbs m) ∧
    (∀ x, x ∈ bb_insts bbs m → bb_ok (c_g C) x = true) ∧
    (∀ w, consistent (c_g C) w → ∃ x, sat_module m w x) ∧
    (∀ v x, sat_module m v x → ∃ w, consistent (c_g C) w ∧ ∀ n, n ∈ used_nets m → w n = v n).
Proof.
  intros Hpm Hs Hnm Hnd Hbk Hap Hids. destruct (read_succeeds_bb rsv bbs m Hpm Hs Hnm Hnd Hbk Hap Hids) as [C HC]. exists C. split; [done|].
  by apply (read_denotes_of_success rsv bbs m C).
Qed.
