(* Proofs for C02, sixth part: success of the read for blackbox-free modules whose identifiers are usable node names.
   Every check of add / connect passes (add_g_succeeds', gate_succeeds), tree induction succ_all / succ_cond, items
   (assign_succ, insts_succ, prim_succ, c_item_succ, items_succ), module() (read_succeeds); read_denotes in full for
   blackbox-free modules (read_denotes_full_bbfree). *)
From CG Require Import Verilog.ExprParse.
From stdpp Require Import strings gmap sets fin_sets pretty.
From CG Require Import Types Sem Fold Api Verilog.Ast Verilog.Read Verilog.Write Proofs.VerilogProofs Run.Run_C02 Proofs.VerilogReadProofs Proofs.VerilogDenoteProofs Proofs.VerilogBbProofs Proofs.VerilogConvProofs Proofs.VerilogRtProofs.
Open Scope string_scope.


(* ------------------------------------------------------------------ success of the reader's steps *)
Global Instance good_name_dec n : Decision (good_name n).
Proof. unfold good_name. apply _. Defined.
Lemma good_name_app n x : good_name n → good_name (n ++ x).
Proof. intros [H1 H2]. destruct n as [|a r]; [done|]. split; [done|]. done. Qed.
Lemma uid_loop_form fuel used n : ∀ i, ∃ j : N, uid_loop fuel used n i = n ++ "_" ++ pretty j.
Proof. induction fuel as [|f IH]; intros i; simpl; [eauto|]. case_bool_decide; [apply IH|eauto]. Qed.
Lemma uid_good used n : good_name n → good_name (uid_in used n).
Proof. intros H. unfold uid_in. case_bool_decide; [|done]. destruct (uid_loop_form (S (size used)) used n 0%N) as [j ->]. by apply good_name_app. Qed.

Lemma ph_succeeds' l : ∀ c1 : circuit, Forall (λ f, f ∈ dom c1 ∨ good_name f) l → ∃ c2, foldl ph_step (c1, Done) l = (c2, Done).
Proof.
  induction l as [|f l IH]; intros c1 HF; simpl; [eauto|]. inversion HF as [|? ? Hf HF']; subst.
  case_bool_decide as Hd; [by apply IH|]. destruct Hf as [?|[Hf1 Hf2]]; [done|]. unfold add_plain_buf. rewrite bool_decide_eq_false_2 by done. rewrite Hf2.
  apply IH. eapply Forall_impl; [exact HF'|]. intros x [Hx|Hx]; [left|by right]. rewrite dom_insert. by apply elem_of_union_r.
Qed.
(* add(n, t, fi) with redefinition allowed: every check passes when n is undriven so far, the operands are nodes or have usable
   names, and no operand is a blackbox pin *)
Lemma add_g_succeeds' (c : circuit) n t fi : t ∈ gate_types → good_name n → Forall (λ f, f ∈ dom c ∨ good_name f) fi → fi ≠ [] →
  (t = Buf ∨ t = Not → length fi = 1) → fanin c n = ∅ → no_pin_types c →
  ∃ g', add_g c n t fi [] rd_flags = (g', Done, n).
Proof.
  intros Ht [Hn1 Hn2] Hfi Hne Hlen Hf0 Hnp. unfold add_g. cbn [af_uid af_redef af_conn af_out rd_flags]. cbn [negb andb].
  rewrite andb_false_r. cbn [negb].
  assert (Hsup : bool_decide (t ∈ supported_types) = true).
  { apply bool_decide_eq_true. unfold gate_types in Ht. unfold supported_types. set_solver. }
  rewrite Hsup. cbn [negb].
  assert (H3 : (1 <? length fi)%nat && bool_decide (t ∈ add_single_fanin) = false).
  { destruct (decide (t ∈ add_single_fanin)) as [Hin|Hout]; [|by rewrite (bool_decide_eq_false_2 _ Hout), andb_false_r].
    unfold add_single_fanin in Hin. rewrite Hlen by set_solver. done. }
  rewrite H3.
  assert (H4 : negb (bool_decide (fi = [])) && bool_decide (t ∈ add_no_fanin) = false).
  { rewrite (bool_decide_eq_false_2 (t ∈ add_no_fanin)); [by rewrite andb_false_r|]. unfold add_no_fanin, gate_types in *. set_solver. }
  rewrite H4. rewrite (bool_decide_eq_false_2 (n = "")) by done. rewrite Hn2. rewrite app_nil_r. fold ph_step.
  set (c1 := <[n:=mk_node t false (fanin c n)]> c).
  destruct (ph_succeeds' fi c1) as [c2 Hph].
  { eapply Forall_impl; [exact Hfi|]. intros x [Hx|Hx]; [left|by right]. unfold c1. rewrite dom_insert. by apply elem_of_union_r. }
  rewrite Hph. destruct (ph_ok _ _ _ Hph) as (Hs & Hnew & Hd).
  assert (Hc0 : connect_g c2 [n] [] = (c2, Done)) by (unfold connect_g; by rewrite orb_true_r).
  rewrite Hc0.
  assert (H1n : c2 !! n = Some (mk_node t false ∅)).
  { eapply lookup_weaken; [|exact Hs]. unfold c1. by rewrite lookup_insert, Hf0. }
  assert (Htyc2 : ∀ u j, c2 !! u = Some j → n_ty j ≠ BbIn ∧ n_ty j ≠ BbOut).
  { intros u j Hu. assert (Hdu : u ∈ dom c2) by (apply elem_of_dom; eauto). destruct (Hnew u Hdu) as [Hd1|[_ Hb]].
    - apply elem_of_dom in Hd1 as [j' Hj']. pose proof (lookup_weaken _ _ _ _ Hj' Hs). assert (j' = j) as -> by congruence.
      unfold c1 in Hj'. apply lookup_insert_Some in Hj' as [[_ <-]|[_ Hj']]; [|by eapply Hnp].
      simpl. unfold gate_types in Ht. split; intros ->; set_solver.
    - rewrite Hb in Hu. injection Hu as <-. done. }
  assert (Hcc : connect_g c2 fi [n] = (foldl (λ c' (p : string * string), add_edge c' p.1 p.2) c2 (pairs fi [n]), Done)).
  { unfold connect_g. rewrite (bool_decide_eq_false_2 (fi = [])) by done. rewrite (bool_decide_eq_false_2 ([n] = [])) by done. cbn [orb].
    assert (Hall : forallb (λ x, bool_decide (x ∈ dom c2)) (fi ++ [n]) = true).
    { apply forallb_forall. intros x Hx. apply bool_decide_eq_true. apply elem_of_list_In, elem_of_app in Hx as [Hx|Hx%elem_of_list_singleton].
      - by apply Hd.
      - subst. apply elem_of_dom. eauto. }
    rewrite Hall. cbn [negb].
    assert (Hck : connect_check c2 fi [n] = true).
    { unfold connect_check. apply andb_true_iff. split; apply negb_true_iff.
      - cbn [existsb]. rewrite orb_false_r. unfold ty. rewrite H1n. cbn [fmap option_fmap option_map n_ty mk_node is_in].
        rewrite (bool_decide_eq_false_2 (t ∈ conn_no_fanin)) by (unfold conn_no_fanin, gate_types in *; set_solver). cbn [orb].
        destruct (decide (t ∈ conn_single_fanin)) as [Hin|Hout]; [|by rewrite (bool_decide_eq_false_2 _ Hout)].
        rewrite (bool_decide_eq_true_2 _ Hin). cbn [andb]. unfold fanin. rewrite H1n. cbn. rewrite size_empty.
        rewrite Hlen; [done|]. unfold conn_single_fanin, gate_types in *. set_solver.
      - apply existsb_false_intro. intros u Hu. destruct (c2 !! u) as [j|] eqn:Eu.
        + destruct (Htyc2 u j Eu) as [Hb1 Hb2]. unfold ty. rewrite Eu. cbn [fmap option_fmap option_map is_in].
          rewrite (bool_decide_eq_false_2 (n_ty j ∈ conn_no_fanout)) by (unfold conn_no_fanout; set_solver).
          rewrite (bool_decide_eq_false_2 (n_ty j ∈ conn_bbout)) by (unfold conn_bbout; set_solver). done.
        + unfold ty. rewrite Eu. done. }
    rewrite Hck. done. }
  rewrite Hcc. eauto.
Qed.
Lemma add_node_succeeds k (g : circuit) n t fi : t ∈ gate_types → good_name n → Forall (λ f, f ∈ dom g ∨ good_name f) fi → fi ≠ [] →
  (t = Buf ∨ t = Not → length fi = 1) → undef_ok g n → no_pin_types g →
  ∃ g', add_node (k_rsv k) g n t fi false = Ok (g', n) ∧ no_pin_types g'.
Proof.
  intros Ht Hn Hfi Hne Hlen Hu Hnp.
  assert (Hf0 : fanin g n = ∅). { unfold fanin. destruct (g !! n) as [j|] eqn:Ej; [|done]. simpl. by destruct (Hu j Ej). }
  destruct (add_g_succeeds' g n t fi Ht Hn Hfi Hne Hlen Hf0 Hnp) as [g' Hg]. exists g'.
  assert (Ha : add_node (k_rsv k) g n t fi false = Ok (g', n)) by (unfold add_node, lift; by rewrite Hg). split; [done|].
  pose proof (add_node_shape k g n t fi g' n Ha) as (Hl & Hx & _). intros x j Hj. destruct (decide (x = n)) as [->|Hxn].
  - rewrite Hl in Hj. injection Hj as <-. simpl. unfold gate_types in Ht. split; intros ->; set_solver.
  - destruct (Hx x Hxn) as [E|(_ & _ & E)]; [rewrite E in Hj; by eapply Hnp|]. rewrite E in Hj. by injection Hj as <-.
Qed.
Lemma gate_succeeds k su prefix t items fi rem : t ∈ gate_types5 → good_name prefix → Forall (λ f, f ∈ dom su.1 ∨ good_name f) fi → fi ≠ [] →
  (t = Not → length fi = 1) → no_pin_types su.1 →
  ∃ st' r, gate k su prefix t items fi rem = Ok (st', r) ∧ no_pin_types st'.1 ∧ r ∈ dom st'.1.
Proof.
  intros Ht Hp Hfi Hne Hlen Hnp. unfold gate, add_node.
  set (n := uid_in (dom su.1 ∪ k_rsv k) (prefix ++ "_" ++ join_ items)).
  assert (Hn : n ∉ dom su.1 ∪ k_rsv k) by apply uid_in_fresh.
  assert (Hgn : good_name n) by (apply uid_good; by apply good_name_app).
  assert (Hf0 : fanin su.1 n = ∅). { unfold fanin. assert (su.1 !! n = None) as -> by (apply not_elem_of_dom; set_solver). done. }
  assert (Ht8 : t ∈ gate_types) by (unfold gate_types5, gate_types in *; set_solver).
  destruct (add_g_succeeds' su.1 n t fi Ht8 Hgn Hfi Hne) as [g' Hg]; [|done|done|].
  { intros [->| ->]; [unfold gate_types5 in Ht; set_solver|by apply Hlen]. }
  rewrite Hg. cbn. eexists _, _. split; [done|]. cbn [fst].
  apply add_g_gen in Hg as (_ & Hl & Hx); [|done]. split.
  - intros x j Hj. destruct (decide (x = n)) as [->|Hxn].
    + rewrite Hl in Hj. injection Hj as <-. simpl. unfold gate_types in Ht8. split; intros ->; set_solver.
    + destruct (Hx x Hxn) as [E|(_ & _ & _ & E)]; [rewrite E in Hj; by eapply Hnp|]. rewrite E in Hj. by injection Hj as <-.
  - apply elem_of_dom. eauto.
Qed.


Ltac inlist := repeat (first [apply elem_of_list_here | apply elem_of_list_further]).
Section succ.
  Context (k : rctx).
  (* every expression callback succeeds on a well-formed state without pin-typed nodes when the identifiers are usable names;
     the returned node exists or is an identifier of the expression *)
  Definition sq {T} (cf : rctx → cstate → T → res (cstate * string)) (idf : T → list string) (e : T) : Prop :=
    ∀ st, gst k st → no_pin_types st.1 → (∀ s, s ∈ idf e → good_name s) →
      ∃ st' r, cf k st e = Ok (st', r) ∧ no_pin_types st'.1 ∧ (r ∈ dom st'.1 ∨ r ∈ idf e).
  Lemma opnd_ok (g g' : circuit) (ids : list string) r : g ⊆ g' → (∀ s, s ∈ ids → good_name s) → r ∈ dom g ∨ r ∈ ids → r ∈ dom g' ∨ good_name r.
  Proof. intros Hs Hg [Hd|Hi]; [left; by apply (subseteq_dom _ _ Hs)|right; by apply Hg]. Qed.
  Lemma gn s : s ≠ "" → starts_digit s = false → good_name s. Proof. by split. Qed.
  Lemma tie_dom st c : gst k st → konst_node k c ∈ dom st.1.
  Proof. intros (_ & Hti & _). apply Hti. destruct c; unfold ties; simpl; set_solver. Qed.

  Lemma succ_all : (∀ p, sq c_prim ids_prim p) ∧ (∀ u, sq c_unary ids_unary u) ∧ (∀ a, sq c_and ids_and a) ∧
                   (∀ x, sq c_xor ids_xor x) ∧ (∀ o, sq c_or ids_or o).
  Proof.
    destruct (frg_levels k) as (Fp & Fu & Fa & Fx & Fo).
    apply expr_mutind; unfold sq.
    - intros s st G Hnp Hid. exists st, s. split; [done|]. split; [done|]. right. simpl. by left.
    - intros c st G Hnp Hid. exists st, (konst_node k c). split; [done|]. split; [done|]. left. by apply tie_dom.
    - intros o IH st G Hnp Hid. by apply IH.
    - intros p IH st G Hnp Hid. by apply IH.
    - intros p IH st G Hnp Hid. destruct (IH st G Hnp Hid) as (st1 & r1 & H1 & N1 & O1).
      destruct (gate_succeeds k st1 "not" Not [r1] [r1] true) as (st' & r & H2 & N2 & D2); [unfold gate_types5; inlist|by apply gn| |done|done|done|].
      { constructor; [|constructor]. by eapply (opnd_ok st1.1 st1.1). }
      exists st', r. split; [simpl; rewrite H1; exact H2|]. split; [done|by left].
    - intros u IH st G Hnp Hid. by apply IH.
    - intros a IHa u IHu st G Hnp Hid. simpl in Hid.
      destruct (IHa st G Hnp) as (st1 & ra & H1 & N1 & O1); [intros s Hs; apply Hid; rewrite ?elem_of_app; tauto|].
      destruct (Fa a _ _ _ H1) as [S1 G1]. specialize (G1 G).
      destruct (IHu st1 G1 N1) as (st2 & ru & H2 & N2 & O2); [intros s Hs; apply Hid; rewrite ?elem_of_app; tauto|].
      destruct (Fu u _ _ _ H2) as [S2 G2].
      destruct (gate_succeeds k st2 "and" And [ra; ru] [ra; ru] true) as (st' & r & H3 & N3 & D3); [unfold gate_types5; inlist|by apply gn| |done|done|done|].
      { constructor; [|constructor; [|constructor]].
        - eapply (opnd_ok st1.1 st2.1 (ids_and a)); [done| |done]. intros s Hs; apply Hid; rewrite ?elem_of_app; tauto.
        - eapply (opnd_ok st2.1 st2.1 (ids_unary u)); [done| |done]. intros s Hs; apply Hid; rewrite ?elem_of_app; tauto. }
      exists st', r. split; [simpl; rewrite H1; simpl; rewrite H2; exact H3|]. split; [done|by left].
    - intros a IH st G Hnp Hid. by apply IH.
    - intros x IHx a IHa st G Hnp Hid. simpl in Hid.
      destruct (IHx st G Hnp) as (st1 & rx & H1 & N1 & O1); [intros s Hs; apply Hid; rewrite ?elem_of_app; tauto|].
      destruct (Fx x _ _ _ H1) as [S1 G1]. specialize (G1 G).
      destruct (IHa st1 G1 N1) as (st2 & ra & H2 & N2 & O2); [intros s Hs; apply Hid; rewrite ?elem_of_app; tauto|].
      destruct (Fa a _ _ _ H2) as [S2 G2]. specialize (G2 G1).
      destruct (decide (rx = ra)) as [Heq|Hne].
      + exists st2, (k_t0 k). split; [simpl; rewrite H1; simpl; rewrite H2; simpl; by rewrite bool_decide_eq_true_2|]. split; [done|]. left. apply (tie_dom st2 K0 G2).
      + destruct (gate_succeeds k st2 "xor" Xor [rx; ra] [rx; ra] true) as (st' & r & H3 & N3 & D3); [unfold gate_types5; inlist|by apply gn| |done|done|done|].
        { constructor; [|constructor; [|constructor]].
          - eapply (opnd_ok st1.1 st2.1 (ids_xor x)); [done| |done]. intros s Hs; apply Hid; rewrite ?elem_of_app; tauto.
          - eapply (opnd_ok st2.1 st2.1 (ids_and a)); [done| |done]. intros s Hs; apply Hid; rewrite ?elem_of_app; tauto. }
        exists st', r. split; [simpl; rewrite H1; simpl; rewrite H2; simpl; rewrite bool_decide_eq_false_2 by done; exact H3|]. split; [done|by left].
    - intros x IHx a IHa st G Hnp Hid. simpl in Hid.
      destruct (IHx st G Hnp) as (st1 & rx & H1 & N1 & O1); [intros s Hs; apply Hid; rewrite ?elem_of_app; tauto|].
      destruct (Fx x _ _ _ H1) as [S1 G1]. specialize (G1 G).
      destruct (IHa st1 G1 N1) as (st2 & ra & H2 & N2 & O2); [intros s Hs; apply Hid; rewrite ?elem_of_app; tauto|].
      destruct (Fa a _ _ _ H2) as [S2 G2]. specialize (G2 G1).
      destruct (decide (rx = ra)) as [Heq|Hne].
      + exists st2, (k_t1 k). split; [simpl; rewrite H1; simpl; rewrite H2; simpl; by rewrite bool_decide_eq_true_2|]. split; [done|]. left. apply (tie_dom st2 K1 G2).
      + destruct (gate_succeeds k st2 "xnor" Xnor [rx; ra] [rx; ra] true) as (st' & r & H3 & N3 & D3); [unfold gate_types5; inlist|by apply gn| |done|done|done|].
        { constructor; [|constructor; [|constructor]].
          - eapply (opnd_ok st1.1 st2.1 (ids_xor x)); [done| |done]. intros s Hs; apply Hid; rewrite ?elem_of_app; tauto.
          - eapply (opnd_ok st2.1 st2.1 (ids_and a)); [done| |done]. intros s Hs; apply Hid; rewrite ?elem_of_app; tauto. }
        exists st', r. split; [simpl; rewrite H1; simpl; rewrite H2; simpl; rewrite bool_decide_eq_false_2 by done; exact H3|]. split; [done|by left].
    - intros x IH st G Hnp Hid. by apply IH.
    - intros o IHo x IHx st G Hnp Hid. simpl in Hid.
      destruct (IHo st G Hnp) as (st1 & ro & H1 & N1 & O1); [intros s Hs; apply Hid; rewrite ?elem_of_app; tauto|].
      destruct (Fo o _ _ _ H1) as [S1 G1]. specialize (G1 G).
      destruct (IHx st1 G1 N1) as (st2 & rx & H2 & N2 & O2); [intros s Hs; apply Hid; rewrite ?elem_of_app; tauto|].
      destruct (Fx x _ _ _ H2) as [S2 G2].
      destruct (gate_succeeds k st2 "or" Or [ro; rx] [ro; rx] true) as (st' & r & H3 & N3 & D3); [unfold gate_types5; inlist|by apply gn| |done|done|done|].
      { constructor; [|constructor; [|constructor]].
        - eapply (opnd_ok st1.1 st2.1 (ids_or o)); [done| |done]. intros s Hs; apply Hid; rewrite ?elem_of_app; tauto.
        - eapply (opnd_ok st2.1 st2.1 (ids_xor x)); [done| |done]. intros s Hs; apply Hid; rewrite ?elem_of_app; tauto. }
      exists st', r. split; [simpl; rewrite H1; simpl; rewrite H2; exact H3|]. split; [done|by left].
  Qed.

  Theorem succ_cond e st : gst k st → no_pin_types st.1 → (∀ s, s ∈ ids_cond e → good_name s) →
    ∃ st' r, c_cond k st e = Ok (st', r) ∧ no_pin_types st'.1 ∧ (r ∈ dom st'.1 ∨ r ∈ ids_cond e).
  Proof.
    destruct succ_all as (_ & _ & _ & _ & So). destruct (frg_levels k) as (_ & _ & _ & _ & Fo).
    destruct e as [o|s a b]; intros G Hnp Hid; [by apply So|]. simpl in Hid.
    destruct (So s st G Hnp) as (st1 & r1 & H1 & N1 & O1); [intros y Hy; apply Hid; rewrite ?elem_of_app; tauto|].
    destruct (Fo s _ _ _ H1) as [S1 G1]. specialize (G1 G).
    destruct (So a st1 G1 N1) as (st2 & r2 & H2 & N2 & O2); [intros y Hy; apply Hid; rewrite ?elem_of_app; tauto|].
    destruct (Fo a _ _ _ H2) as [S2 G2]. specialize (G2 G1).
    destruct (So b st2 G2 N2) as (st3 & r3 & H3 & N3 & O3); [intros y Hy; apply Hid; rewrite ?elem_of_app; tauto|].
    destruct (Fo b _ _ _ H3) as [S3 G3]. specialize (G3 G2).
    assert (P1 : r1 ∈ dom st3.1 ∨ good_name r1).
    { eapply (opnd_ok st1.1 st3.1 (ids_or s)); [by etrans| |done]. intros y Hy; apply Hid; rewrite ?elem_of_app; tauto. }
    assert (P2 : r2 ∈ dom st3.1 ∨ good_name r2).
    { eapply (opnd_ok st2.1 st3.1 (ids_or a)); [done| |done]. intros y Hy; apply Hid; rewrite ?elem_of_app; tauto. }
    assert (P3 : r3 ∈ dom st3.1 ∨ good_name r3).
    { eapply (opnd_ok st3.1 st3.1 (ids_or b)); [done| |done]. intros y Hy; apply Hid; rewrite ?elem_of_app; tauto. }
    assert (Hup : ∀ (g g' : circuit) x, g ⊆ g' → x ∈ dom g ∨ good_name x → x ∈ dom g' ∨ good_name x).
    { intros g g' x Hs [Hd|?]; [left; by apply (subseteq_dom _ _ Hs)|by right]. }
    destruct (gate_succeeds k st3 "mux_n" Not [r1; r2; r3] [r1] false) as (sn & n & Hn & Nn & Dn); [unfold gate_types5; inlist|by apply gn| |done|done|done|].
    { constructor; [done|constructor]. }
    edestruct (frg_gate k) as [Sn Gn]; [| |exact Hn|]; [inlist|done|]. specialize (Gn G3).
    destruct (gate_succeeds k sn "mux_a0" And [r1; r2; r3] [n; r3] false) as (sa0 & a0 & Ha0 & Na0 & Da0); [unfold gate_types5; inlist|by apply gn| |done|done|done|].
    { constructor; [by left|constructor; [by eapply Hup|constructor]]. }
    edestruct (frg_gate k) as [Sa0 Ga0]; [| |exact Ha0|]; [inlist|done|]. specialize (Ga0 Gn).
    destruct (gate_succeeds k sa0 "mux_a1" And [r1; r2; r3] [r1; r2] false) as (sa1 & a1 & Ha1 & Na1 & Da1); [unfold gate_types5; inlist|by apply gn| |done|done|done|].
    { constructor; [eapply Hup; [exact Sa0|]; by eapply Hup|constructor; [eapply Hup; [exact Sa0|]; by eapply Hup|constructor]]. }
    edestruct (frg_gate k) as [Sa1 Ga1]; [| |exact Ha1|]; [inlist|done|].
    destruct (gate_succeeds k sa1 "mux_o" Or [r1; r2; r3] [a0; a1] true) as (so & ro & Ho & No & Do); [unfold gate_types5; inlist|by apply gn| |done|done|done|].
    { constructor; [left; by apply (subseteq_dom _ _ Sa1)|constructor; [by left|constructor]]. }
    exists so, ro. split; [|split; [done|by left]].
    unfold c_cond. rewrite H1. cbn [mbind res_mbind rbind fst snd]. rewrite H2. cbn [mbind res_mbind rbind fst snd]. rewrite H3. cbn [mbind res_mbind rbind fst snd].
    rewrite Hn. cbn [mbind res_mbind rbind fst snd]. rewrite Ha0. cbn [mbind res_mbind rbind fst snd]. rewrite Ha1. cbn [mbind res_mbind rbind fst snd]. exact Ho.
  Qed.
End succ.


Lemma prim_sel_sub k t rs f : f ∈ (prim_sel k t rs).2 → f ∈ rs ∨ f ∈ ties k.
Proof.
  unfold prim_sel. destruct (bool_decide (t = Xor) || bool_decide (t = Xnor)); [|by left].
  destruct (parity_ops rs) as [|a l] eqn:E; cbn [snd].
  - intros ->%elem_of_list_singleton. right. unfold ties. case_bool_decide; set_solver.
  - intros Hf. left. rewrite <- E in Hf. unfold parity_ops in Hf. apply elem_of_list_filter in Hf as [_ Hf]. by apply (proj1 (dedup_first_elem rs f)) in Hf.
Qed.
Lemma prim_sel_len k t rs : t ∈ gate_types → (t = Buf ∨ t = Not → length rs = 1) →
  (prim_sel k t rs).1 = Buf ∨ (prim_sel k t rs).1 = Not → length (prim_sel k t rs).2 = 1.
Proof.
  intros Ht Hlen. unfold prim_sel. destruct (bool_decide (t = Xor) || bool_decide (t = Xnor)) eqn:Eb; [|done].
  destruct (parity_ops rs) as [|a l]; cbn [fst snd]; [done|]. intros [-> | ->]; done.
Qed.

Section isucc.
  Context (k : rctx) (NN DD : gset string).
  Hypothesis Htr : ties k ## k_rsv k.
  Hypothesis HNN : NN ⊆ k_rsv k.
  Hypothesis Hgood : ∀ s, s ∈ NN → good_name s.

  Lemma inputs_succ ns : ∀ g : circuit, (∀ n, n ∈ ns → good_name n) → no_pin_types g →
    ∃ g', rfold (λ g n, r ← add_node (k_rsv k) g n Input [] false; Ok r.1) g ns = Ok g' ∧ no_pin_types g' ∧
          (∀ x, x ∈ dom g → x ∈ dom g') ∧ (∀ n, n ∈ ns → n ∈ dom g').
  Proof.
    induction ns as [|n ns IH]; intros g Hn Hnp.
    - exists g. split; [done|]. split; [done|]. split; [done|]. intros n Hin. by apply elem_of_nil in Hin.
    - destruct (IH (<[n := mk_node Input false (fanin g n)]> g)) as (g' & H' & N' & D' & I'); [intros; apply Hn; by right| |].
      { intros x j Hx. apply lookup_insert_Some in Hx as [[_ <-]|[_ Hx]]; [done|by eapply Hnp]. }
      exists g'. split; [|split; [done|split]].
      + cbn [rfold]. unfold add_node, lift. rewrite (add_input_ok g n) by (apply Hn; by left). cbn. exact H'.
      + intros x Hx. apply D'. rewrite dom_insert. by apply elem_of_union_r.
      + intros x [->|Hx]%elem_of_cons; [|by apply I']. apply D'. rewrite dom_insert. apply elem_of_union_l. by apply elem_of_singleton.
  Qed.

  (* one assignment *)
  Lemma assign_succ st lv e P : rinv k NN P st.1 st.2 → no_pin_types st.1 → drv_ok k NN (lv, DAssign e) → lv ∉ P.*1 →
    (∀ s, s ∈ ids_cond e → good_name s) →
    ∃ st', c_assign k st (lv, e) = Ok st' ∧ no_pin_types st'.1 ∧ (∀ x, x ∈ k_rsv k → x ∈ dom st.1 → x ∈ dom st'.1) ∧ lv ∈ dom st'.1.
  Proof.
    intros Hi Hnp (HlvN & Hlv & Hide) Hnp' Hids. pose proof Hi as [G T X U E N]. assert (Gst : gst k st) by (by destruct st).
    destruct (succ_cond k e st Gst Hnp Hids) as (st1 & r & H1 & N1 & O1).
    assert (Hlvt : lv ∉ [k_t0 k; k_t1 k; k_tx k]). { intros Hin. apply (Htr lv); [|done]. unfold ties. set_solver. }
    destruct (frg_cond _ _ _ _ _ H1) as [Hs G1]; specialize (G1 Gst); pose proof (fr2_cond _ _ _ _ _ H1) as F2.
    pose proof (fr2_undef _ _ _ lv F2 Hlv (U lv HlvN Hnp')) as Hu1.
    unfold c_assign. cbn [fst snd]. rewrite H1. cbn [mbind res_mbind rbind fst snd]. unfold assignment. rewrite bool_decide_eq_false_2 by done.
    case_bool_decide as Hrg.
    - eexists. split; [done|]. cbn [fst].
      destruct (result_cond _ _ _ _ _ H1 Gst Hide) as [_ HB]; destruct (HB Hrg) as (Hrn & t & fi & Hl & Htt & Hfi & Hrfi & Hnofo).
      assert (Hrr : r ∉ k_rsv k) by (destruct G1 as (_ & _ & _ & Hd); intros ?; by apply (Hd r)).
      assert (Hne : r ≠ lv) by (intros ->; done).
      assert (Hfl : fanin st1.1 lv = ∅) by (unfold fanin; destruct (st1.1 !! lv) as [i|] eqn:Ei; [simpl; by destruct (Hu1 i Ei)|done]).
      destruct (relabel_shape st1.1 r lv t fi Hl Hne Hrfi Hnofo Hfl) as (Slv & Sr & Sx).
      split; [|split].
      + intros x j Hj. destruct (decide (x = lv)) as [->|Hxl].
        * rewrite Slv in Hj. injection Hj as <-. simpl. unfold gate_types5 in Htt. split; intros ->; set_solver.
        * destruct (decide (x = r)) as [->|Hxr]; [congruence|]. rewrite Sx in Hj by done. by eapply N1.
      + intros x Hxr Hxd. destruct (decide (x = lv)) as [->|Hxl]; [apply elem_of_dom; eauto|].
        assert (x ≠ r) by (intros ->; done). apply elem_of_dom. rewrite Sx by done. apply elem_of_dom. by apply (subseteq_dom _ _ Hs).
      + apply elem_of_dom. eauto.
    - destruct (add_node_succeeds k st1.1 lv Buf [r]) as (g' & Ha & Ng'); [unfold gate_types; set_solver|by apply Hgood| |done|done|done|done|].
      { constructor; [|constructor]. destruct O1 as [?|?]; [by left|right; by apply Hids]. }
      rewrite Ha. cbn [mbind res_mbind rbind fst snd]. eexists. split; [done|]. cbn [fst]. split; [done|].
      pose proof (add_node_shape k st1.1 lv Buf [r] g' lv Ha) as (Hl & Hx & _). split.
      + intros x _ Hxd. destruct (decide (x = lv)) as [->|Hxl]; [apply elem_of_dom; eauto|].
        apply (subseteq_dom _ _ Hs) in Hxd. apply elem_of_dom in Hxd as [j Hj]. destruct (Hx x Hxl) as [E'|(E' & _)]; [|congruence]. apply elem_of_dom. exists j. by rewrite E'.
      + apply elem_of_dom. eauto.
  Qed.

  Lemma assigns_succ l : ∀ st P, rinv k NN P st.1 st.2 → no_pin_types st.1 →
    Forall (λ a : string * cond, drv_ok k NN (a.1, DAssign a.2)) l → NoDup (P.*1 ++ l.*1) →
    (∀ a : string * cond, a ∈ l → ∀ s, s ∈ ids_cond a.2 → good_name s) →
    ∃ st', rfold (c_assign k) st l = Ok st' ∧ no_pin_types st'.1 ∧ (∀ x, x ∈ k_rsv k → x ∈ dom st.1 → x ∈ dom st'.1) ∧ (∀ lv, lv ∈ l.*1 → lv ∈ dom st'.1).
  Proof.
    induction l as [|[lv e] l IH]; intros st P Hi Hnp Hok Hnd Hids.
    - exists st. split; [done|]. split; [done|]. split; [done|]. intros lv Hin. by apply elem_of_nil in Hin.
    - inversion Hok as [|? ? Hd Hok']; subst. simpl in *.
      assert (Hnp' : lv ∉ P.*1). { apply NoDup_app in Hnd as (_ & Hdd & _). intros Hin. apply (Hdd lv Hin). by left. }
      destruct (assign_succ st lv e P Hi Hnp Hd Hnp') as (st1 & H1 & N1 & K1 & L1); [intros s Hs; apply (Hids (lv, e)); [by left|done]|].
      assert (Hnd1 : NoDup (P.*1 ++ [lv])).
      { apply NoDup_app in Hnd as (M1 & M2 & M3). apply NoDup_app. split; [done|]. split; [|apply NoDup_singleton].
        intros y Hy ->%elem_of_list_singleton. done. }
      assert (Hi1 : rinv k NN (P ++ [(lv, DAssign e)]) st1.1 st1.2).
      { apply (assigns_rinv k NN Htr HNN [(lv, e)] st st1 P); [simpl; by rewrite H1|done|by constructor|done]. }
      destruct (IH st1 _ Hi1 N1 Hok') as (st' & H2 & N2 & K2 & L2).
      { rewrite fmap_app. simpl. rewrite <- app_assoc. simpl.
        apply NoDup_app in Hnd as (M1 & M2 & M3). apply NoDup_cons in M3 as [M3 M4].
        apply NoDup_app. split; [done|]. split; [|by constructor].
        intros y Hy [->|Hin]%elem_of_cons; [done|]. apply (M2 y Hy). by right. }
      { intros a Ha. apply Hids. by right. }
      exists st'. split; [cbn [rfold]; rewrite H1; exact H2|]. split; [done|]. split; [intros x Hr Hx; apply K2; [done|]; by apply K1|].
      intros lv' [->|Hin]%elem_of_cons; [|by apply L2]. apply K2; [destruct Hd as (_ & ? & _); done|done].
  Qed.

  (* compile phase with positional connections *)
  Definition opnds_ok (g : circuit) (rs : list string) : Prop := Forall (λ r, r ∈ dom g ∨ good_name r) rs.
  Lemma opnds_mono (g g' : circuit) rs : (∀ x, x ∈ dom g → x ∈ dom g') → opnds_ok g rs → opnds_ok g' rs.
  Proof. intros Hs H. eapply Forall_impl; [exact H|]. intros r [Hd|?]; [left; by apply Hs|by right]. Qed.
  Lemma list_succ l : ∀ st, gst k st → no_pin_types st.1 → (∀ e, e ∈ l → ∀ s, s ∈ ids_cond e → good_name s) →
    ∃ st' rs, rmapS (c_cond k) st l = Ok (st', rs) ∧ no_pin_types st'.1 ∧ opnds_ok st'.1 rs.
  Proof.
    induction l as [|e l IH]; intros st G Hnp Hids.
    - exists st, []. split; [done|]. split; [done|constructor].
    - destruct (succ_cond k e st G Hnp) as (st1 & r & H1 & N1 & O1); [apply Hids; by left|].
      destruct (frg_cond _ _ _ _ _ H1) as [S1 G1]. specialize (G1 G).
      destruct (IH st1 G1 N1) as (st2 & rs & H2 & N2 & O2); [intros e' He'; apply Hids; by right|].
      destruct (frg_list _ _ _ _ _ H2) as [S2 _].
      exists st2, (r :: rs). split; [cbn [rmapS]; rewrite H1; cbn [rbind fst snd]; rewrite H2; done|]. split; [done|].
      constructor; [|done]. destruct O1 as [Hd|Hi]; [left; by apply (subseteq_dom _ _ S2)|right; apply (Hids e); [by left|done]].
  Qed.
  Definition cpos_ok (g : circuit) (ic : string * conns) (cc : string * cconns) : Prop :=
    ∃ n ins rs, ic.2 = Positional (cid n :: ins) ∧ cc.2 = CPos (n :: rs) ∧ opnds_ok g rs.
  Lemma insts_succ insts : ∀ st, gst k st → no_pin_types st.1 →
    Forall (λ ic : string * conns, ∃ n ins, ic.2 = Positional (cid n :: ins) ∧ ∀ e, e ∈ ins → ∀ s, s ∈ ids_cond e → good_name s) insts →
    ∃ st' cl, rmapS (inst_step k) st insts = Ok (st', cl) ∧ no_pin_types st'.1 ∧ Forall2 (cpos_ok st'.1) insts cl.
  Proof.
    induction insts as [|ic insts IH]; intros st G Hnp HF.
    - exists st, []. split; [done|]. split; [done|constructor].
    - inversion HF as [|? ? (n & ins & E & Hids) HF']; subst.
      destruct (list_succ ins st G Hnp Hids) as (st1 & rs & H1 & N1 & O1).
      destruct (frg_list _ _ _ _ _ H1) as [S1 G1]. specialize (G1 G).
      destruct (IH st1 G1 N1 HF') as (st2 & cl & H2 & N2 & F2).
      assert (S2 : st1.1 ⊆ st2.1).
      { destruct (insts_frame k (frg k) (frg_refl k) (frg_trans k) (frg_cond k) _ _ _ _ H2) as [? _]. done. }
      exists st2, ((ic.1, CPos (n :: rs)) :: cl). split; [|split; [done|]].
      + cbn [rmapS]. unfold inst_step at 1. rewrite E. unfold c_conns. cbn [rmapS].
        change (c_cond k st (cid n)) with (Ok (st, n) : res (cstate * string)). cbn [rbind fst snd]. rewrite H1. cbn [mbind res_mbind rbind fst snd]. rewrite H2. done.
      + constructor; [|done]. exists n, ins, rs. split; [done|]. split; [done|]. eapply opnds_mono; [|exact O1]. intros x Hx. by apply (subseteq_dom _ _ S2).
  Qed.

  Lemma cpos_mono (g g' : circuit) l cl : (∀ x, x ∈ dom g → x ∈ dom g') → Forall2 (cpos_ok g) l cl → Forall2 (cpos_ok g') l cl.
  Proof. intros Hs H. eapply Forall2_impl; [exact H|]. intros ic cc (n & ins & rs & E1 & E2 & O). exists n, ins, rs. split; [done|]. split; [done|]. by eapply opnds_mono. Qed.

  Lemma prim_succ t g nm n rs : t ∈ gate_types → rs ≠ [] → (t = Buf ∨ t = Not → length rs = 1) → n ∈ NN → undef_ok g n → ties k ⊆ dom g →
    no_pin_types g → opnds_ok g rs →
    ∃ g', prim_instance k t g (nm, CPos (n :: rs)) = Ok g' ∧ no_pin_types g' ∧ (∀ x, x ∈ dom g → x ∈ dom g') ∧ n ∈ dom g'.
  Proof.
    intros Ht Hrs Hlen HnN Hu G Hnp Ho. rewrite prim_instance_sel.
    destruct (add_node_succeeds k g n (prim_sel k t rs).1 (prim_sel k t rs).2) as (g' & Ha & Ng'); [by apply prim_sel_type'|by apply Hgood| |by apply prim_sel_ne|by apply prim_sel_len|done|done|].
    { apply Forall_forall. intros f Hf. apply prim_sel_sub in Hf as [Hf|Hf].
      - unfold opnds_ok in Ho. rewrite Forall_forall in Ho. by apply Ho.
      - left. by apply G. }
    exists g'. rewrite Ha. split; [done|]. split; [done|].
    pose proof (add_node_shape k g n _ _ g' n Ha) as (Hl & Hx & _). split.
    - intros x Hxd. destruct (decide (x = n)) as [->|Hxn]; [apply elem_of_dom; eauto|].
      apply elem_of_dom in Hxd as [j Hj]. destruct (Hx x Hxn) as [E'|(E' & _)]; [|congruence]. apply elem_of_dom. exists j. by rewrite E'.
    - apply elem_of_dom. eauto.
  Qed.
End isucc.


Lemma c_item_inst_prim k st mn insts t stc cl g' : prim_of_name mn = Some t →
  rmapS (inst_step k) (r_g st, r_ge st) insts = Ok (stc, cl) → rfold (prim_instance k t) stc.1 cl = Ok g' →
  c_item k st (IInst mn insts) = Ok (st_g (st_ge (st_g st stc.1) stc.2) g').
Proof.
  intros Ep H1 H2. unfold c_item.
  destruct (rmapS _ (r_g st, r_ge st) insts) as [[stc' cl']|e| |] eqn:E.
  - pose proof (eq_trans (eq_sym E) H1) as E'. injection E' as -> ->.
    cbn [mbind res_mbind rbind fst snd]. rewrite Ep. cbn [st_g st_ge r_g]. rewrite H2. done.
  - discriminate (eq_trans (eq_sym E) H1).
  - discriminate (eq_trans (eq_sym E) H1).
  - discriminate (eq_trans (eq_sym E) H1).
Qed.
Section isucc2.
  Context (k : rctx) (NN DD : gset string).
  Hypothesis Htr : ties k ## k_rsv k.
  Hypothesis HNN : NN ⊆ k_rsv k.
  Hypothesis Hgood : ∀ s, s ∈ NN → good_name s.

  Lemma prims_succ t cl : ∀ insts g ge P, rinv k NN P g ge → no_pin_types g →
    Forall2 (cgood k g) insts cl → Forall2 (cpos_ok g) insts cl → t ∈ gate_types → Forall (prim_guard k NN t) insts →
    NoDup (P.*1 ++ (insts ≫= prim_drv t).*1) →
    ∃ g', rfold (prim_instance k t) g cl = Ok g' ∧ no_pin_types g' ∧ (∀ x, x ∈ dom g → x ∈ dom g') ∧
          (∀ n, n ∈ (insts ≫= prim_drv t).*1 → n ∈ dom g').
  Proof.
    induction cl as [|cc cl IH]; intros insts g ge P Hi Hnp HF HO Ht HG Hnd.
    - inversion HF; subst. exists g. split; [done|]. split; [done|]. split; [done|]. intros n Hn. by apply elem_of_nil in Hn.
    - inversion HF as [|ic ? insts' ? Hcg HF']; subst. pose proof Hcg as (n & ins & rs & E1 & E2 & Fo).
      inversion HO as [|? ? ? ? (n2 & ins2 & rs2 & E1b & E2b & Ors) HO']; subst.
      rewrite E1 in E1b. injection E1b as <- <-. rewrite E2 in E2b. injection E2b as <-.
      inversion HG as [|? ? Hg2 HG']; subst. pose proof Hg2 as (n' & ins' & E1' & Hdrv & Hne & Har).
      rewrite E1 in E1'. injection E1' as <- <-. destruct cc as [nm cc2]. simpl in E2. subst cc2.
      assert (Hdr : prim_drv t ic = [(n, DPrim t ins)]). { unfold prim_drv. by rewrite E1. }
      cbn [mbind list_bind] in Hnd |- *. fold (mbind (M:=list) (prim_drv t)) in Hnd |- *. rewrite Hdr in Hnd |- *.
      pose proof Hi as [G T X U Eq N]. destruct Hdrv as (HnN & Hn & Hids). simpl in *.
      assert (Hnp' : n ∉ P.*1). { apply NoDup_app in Hnd as (_ & Hd & _). intros Hin. apply (Hd n Hin). simpl. by left. }
      assert (Hrs : rs ≠ []). { intros ->. inversion Fo; subst. done. }
      destruct (prim_succ k NN Hgood t g nm n rs Ht Hrs) as (g1 & H1 & N1 & D1 & L1); [|done|by apply U|by destruct G as (_ & ? & _)|done|done|].
      { intros Hb. rewrite <- (Forall2_length _ _ _ Fo). by apply Har. }
      assert (Hcons : ∀ v, consistent g1 v → consistent g v).
      { intros v. pose proof H1 as H1'. rewrite prim_instance_sel in H1'. apply mbind_ok in H1' as ([g1x nm'] & Ha & E). injection E as E. simpl in E. subst g1x.
        eapply add_node_consistent; [exact Ha|by apply U]. }
      assert (Hnd1 : NoDup (P.*1 ++ [n])).
      { apply NoDup_app in Hnd as (M1 & M2 & M3). apply NoDup_app. split; [done|]. split; [|apply NoDup_singleton].
        intros y Hy ->%elem_of_list_singleton. done. }
      assert (Hi1 : rinv k NN (P ++ [(n, DPrim t ins)]) g1 ge).
      { pose proof (prims_rinv k NN Htr HNN t [(nm, CPos (n :: rs))] [ic] g g1 ge P) as Hp. simpl in Hp. rewrite Hdr in Hp.
        apply Hp; [by rewrite H1|done|by constructor|done|by constructor|done]. }
      destruct (IH insts' g1 ge _ Hi1 N1 (cgood_mono _ _ _ _ _ Hcons HF') (cpos_mono _ _ _ _ D1 HO') Ht HG') as (g' & H2 & N2 & D2 & L2).
      { rewrite fmap_app. rewrite <- app_assoc. done. }
      exists g'. split; [cbn [rfold]; rewrite H1; exact H2|]. split; [done|]. split; [intros x Hx; by apply D2, D1|].
      intros y [->|Hy]%elem_of_cons; [by apply D2|]. by apply L2.
  Qed.

  (* names of a statement *)
  Definition item_names (it : item) : Prop := ∀ s, s ∈ item_nets it → good_name s.
  Definition known (P : list (string * driver)) (st : rstate) : Prop :=
    (∀ x, x ∈ r_ins st → x ∈ dom (r_g st)) ∧ (∀ x, x ∈ P.*1 → x ∈ dom (r_g st)).

  Lemma c_item_succ st it P : rinv k NN P (r_g st) (r_ge st) → no_pin_types (r_g st) → known P st → r_ins st ⊆ k_rsv k →
    item_den_ok k NN DD it → item_names it → NoDup (P.*1 ++ (item_drivers it).*1) → (list_to_set P.*1 : gset string) ⊆ DD →
    ∃ st', c_item k st it = Ok st' ∧ no_pin_types (r_g st') ∧ known (P ++ item_drivers it) st' ∧ r_ins st' ⊆ k_rsv k.
  Proof.
    intros Hi Hnp [Kin Kp] Hir Hok Hnm Hnd HDD. pose proof Hi as [G T X U Eq N].
    assert (HPr : ∀ x, x ∈ P.*1 → x ∈ k_rsv k).
    { intros x (nd & -> & Hin)%elem_of_list_fmap. rewrite Forall_forall in N. by destruct (N nd Hin) as (_ & ? & _). }
    destruct it as [ns|ns|ns|mn insts|l]; simpl in Hok.
    - destruct (inputs_succ k ns (r_g st)) as (g' & H' & N' & D' & I'); [intros n Hn; apply Hnm; simpl; done|done|].
      eexists. split; [cbn [c_item]; rewrite H'; cbn; done|]. cbn [r_g r_ins]. split; [done|]. split; [split|].
      + intros x [Hx|Hx%elem_of_list_to_set]%elem_of_union; [by apply D', Kin|by apply I'].
      + simpl. rewrite app_nil_r. intros x Hx. by apply D', Kp.
      + intros x [Hx|Hx%elem_of_list_to_set]%elem_of_union; [by apply Hir|]. by destruct (Hok x Hx) as (_ & ? & _).
    - eexists. split; [done|]. cbn. split; [done|]. split; [split; [done|by rewrite app_nil_r]|done].
    - exists st. split; [done|]. split; [done|]. split; [split; [done|by rewrite app_nil_r]|done].
    - destruct Hok as (t & Ep & Ht & HG).
      assert (Hpos : Forall (λ ic : string * conns, ∃ n ins, ic.2 = Positional (cid n :: ins)) insts).
      { eapply Forall_impl; [exact HG|]. intros ic (n & ins & E & _). eauto. }
      destruct (insts_succ k insts (r_g st, r_ge st)) as (stc & cl & H1 & Nc & Oc); [by destruct st|done| |].
      { apply Forall_forall. intros ic Hic. rewrite Forall_forall in HG. destruct (HG ic Hic) as (n & ins & E & _). exists n, ins. split; [done|].
        intros e He s Hs. apply Hnm. simpl. apply elem_of_list_bind. exists ic. split; [|done]. rewrite E. simpl.
        right. apply elem_of_list_bind. exists e. done. }
      assert (Hpos' : Forall (λ ic : string * conns, ∃ ps, ic.2 = Positional ps) insts).
      { eapply Forall_impl; [exact Hpos|]. intros ic (n & ins & E). eauto. }
      destruct (insts_compile_prim k insts _ _ _ H1 T Hpos) as [Ss Fc]. simpl in *.
      destruct (insts_frame_pos k (frg k) (frg_refl k) (frg_trans k) (frg_list k) _ _ _ _ H1 Hpos') as [_ Gc]. specialize (Gc G).
      pose proof (insts_frame_pos k (fr2 k) (fr2_refl k) (fr2_trans k) (fr2_list k) _ _ _ _ H1 Hpos') as F2.
      assert (Hic : rinv k NN P stc.1 stc.2).
      { eapply rinv_refine; [exact Hi|by apply refines_sub|by destruct stc|by eapply ties_mono| |].
        { destruct X as (i & Hx & Hc'). exists i. split; [|done]. by eapply lookup_weaken. }
        intros n Hn Hp Hu. eapply (fr2_undef k (r_g st, r_ge st) stc); [done|by apply HNN|done]. }
      assert (Hd : insts ≫= inst_drivers mn = insts ≫= prim_drv t).
      { clear -Ep. induction insts as [|ic insts IH]; [done|]. cbn. rewrite IH. by rewrite (prim_drv_eq mn t ic Ep). }
      rewrite Hd in Hnd |- *.
      destruct (prims_succ t cl insts stc.1 stc.2 P Hic Nc Fc Oc Ht HG Hnd) as (g' & H2 & N2 & D2 & L2).
      eexists. split.
      { by eapply c_item_inst_prim. }
      cbn [r_g r_ins st_g st_ge]. split; [done|]. split; [split|done].
      + intros x Hx. apply D2. apply (subseteq_dom _ _ Ss). by apply Kin.
      + intros x Hx. rewrite fmap_app in Hx. apply elem_of_app in Hx as [Hx|Hx]; [|by apply L2]. apply D2. apply (subseteq_dom _ _ Ss). by apply Kp.
    - assert (Hl1 : ((λ p : string * cond, (p.1, DAssign p.2)) <$> l).*1 = l.*1).
      { clear. induction l as [|a l IH]; [done|]. rewrite !fmap_cons. f_equal. exact IH. }
      cbn [item_drivers] in Hnd |- *. rewrite Hl1 in Hnd.
      destruct (assigns_succ k NN Htr HNN Hgood l (r_g st, r_ge st) P Hi Hnp Hok Hnd) as (st' & H1 & N1 & K1 & L1).
      { intros a Ha s Hs. apply Hnm. simpl. apply elem_of_list_bind. exists a. split; [by right|done]. }
      eexists. split; [cbn [c_item]; rewrite H1; cbn; done|]. cbn [r_g r_ins st_g st_ge]. split; [done|]. split; [split|done].
      + intros x Hx. apply K1; [by apply Hir|by apply Kin].
      + intros x Hx. rewrite fmap_app, Hl1 in Hx. apply elem_of_app in Hx as [Hx|Hx]; [|by apply L1]. apply K1; [by apply HPr|by apply Kp].
  Qed.

  Lemma items_succ items : ∀ st P, rinv k NN P (r_g st) (r_ge st) → no_pin_types (r_g st) → known P st → r_ins st ⊆ k_rsv k →
    Forall (item_den_ok k NN DD) items → Forall item_names items → NoDup (P.*1 ++ (items ≫= item_drivers).*1) →
    (list_to_set (P.*1 ++ (items ≫= item_drivers).*1) : gset string) ⊆ DD →
    ∃ st', rfold (c_item k) st items = Ok st' ∧ known (P ++ (items ≫= item_drivers)) st'.
  Proof.
    induction items as [|it items IH]; intros st P Hi Hnp Hk Hir HF HN Hnd HDD.
    - exists st. split; [done|]. simpl. by rewrite app_nil_r.
    - inversion HF as [|? ? Hok HF']; subst. inversion HN as [|? ? Hnm HN']; subst.
      cbn [mbind list_bind] in Hnd, HDD |- *. fold (mbind (M:=list) item_drivers) in Hnd, HDD |- *.
      rewrite fmap_app in Hnd, HDD. rewrite app_assoc in Hnd.
      assert (Hnd1 : NoDup (P.*1 ++ (item_drivers it).*1)) by (by apply NoDup_app in Hnd as (? & _ & _)).
      assert (HDD1 : (list_to_set P.*1 : gset string) ⊆ DD) by (clear -HDD; set_solver).
      destruct (c_item_succ st it P Hi Hnp Hk Hir Hok Hnm Hnd1 HDD1) as (st1 & H1 & N1 & K1 & R1).
      assert (Hi1 : rinv k NN (P ++ item_drivers it) (r_g st1) (r_ge st1)) by (by eapply c_item_rinv).
      destruct (IH st1 _ Hi1 N1 K1 R1 HF' HN') as (st' & H2 & K2).
      { by rewrite fmap_app. }
      { rewrite fmap_app. clear -HDD. set_solver. }
      exists st'. split; [cbn [rfold]; rewrite H1; exact H2|]. by rewrite <- app_assoc in K2.
  Qed.
End isucc2.


(* ------------------------------------------------------------------ success of the read, blackbox-free modules *)
Definition bbfree (m : vmodule) : Prop := ∀ mn insts, IInst mn insts ∈ m_items m → is_Some (prim_of_name mn).
(* identifiers in net position are usable node names *)
Definition names_ok (m : vmodule) : Prop := ∀ s, s ∈ module_nets m → good_name s.
(* every declared output is an input or has a driver (an output that only occurs as an operand may never become a node:
   `xor g(o, a, a)` cancels both operands) *)
Definition outs_driven (bbs : list bbdef) (m : vmodule) : Prop := ∀ s, s ∈ decl_outputs m → s ∈ decl_inputs m ∨ s ∈ module_defs bbs m.
(* ... which is a clause of the guard in_subset *)
Lemma in_subset_outs_driven bbs m : in_subset bbs m = true → outs_driven bbs m.
Proof.
  unfold in_subset. rewrite !andb_true_iff. intros ((((((_ & _) & _) & _) & Ho) & _) & _) s Hs. apply bool_decide_eq_true in Ho.
  assert (Hs' : s ∈ sset (decl_inputs m) ∪ sset (module_defs bbs m)) by (apply Ho; unfold sset; by apply elem_of_list_to_set).
  unfold sset in Hs'. rewrite elem_of_union, !elem_of_list_to_set in Hs'. done.
Qed.

Lemma xdrivers_bbfree bbs m : bbfree m → xdrivers bbs m = drivers m.
Proof.
  unfold xdrivers, drivers, bbfree. generalize (m_items m). intros items Hb. induction items as [|it items IH]; [done|]. cbn.
  rewrite IH by (intros; eapply Hb; by right). f_equal.
  destruct it as [| | |mn insts|]; try done. simpl. destruct (Hb mn insts ltac:(by left)) as [t ->]. done.
Qed.

Theorem read_succeeds_items rsv bbs m (NN : gset string) : NN ⊆ rsv → (∀ s, s ∈ NN → good_name s) →
  Forall (item_den_ok (init_ctx rsv bbs).1 NN (list_to_set (drivers m).*1)) (m_items m) → Forall item_names (m_items m) →
  NoDup (drivers m).*1 → ports_match m = true → (∀ s, s ∈ decl_outputs m → s ∈ decl_inputs m ∨ s ∈ (drivers m).*1) →
  ∃ C, read rsv bbs m = Ok C.
Proof.
  intros HNN Hgood Hok Hnames Hnd Hpm Hod.
  unfold read. pose proof (init_rinv rsv bbs) as Hk. pose proof (init_g0 rsv bbs) as Hg. cbv zeta in Hk, Hg.
  destruct (init_ctx rsv bbs) as [k g0]. simpl in Hk, Hg, Hok. destruct Hk as (Er & Eb & Htr & _ & _ & _ & Hi0). destruct Hg as (_ & _ & Hg0). subst rsv.
  specialize (Hi0 NN HNN).
  set (st0 := {| r_g := g0; r_bbs := ∅; r_ge := ∅; r_io := list_to_set (m_ports m); r_ins := ∅; r_outs := ∅ |}).
  destruct (items_succ k NN (list_to_set (drivers m).*1) Htr HNN Hgood (m_items m) st0 []) as (st & Hf & [Kin Kp]).
  - exact Hi0.
  - intros x j Hx. destruct (Hg0 x j Hx) as (_ & Hc & _). split; intros E; rewrite E in Hc; set_solver.
  - split; [intros x Hx; by apply elem_of_empty in Hx|intros x Hx; by apply elem_of_nil in Hx].
  - simpl. set_solver.
  - exact Hok.
  - exact Hnames.
  - exact Hnd.
  - done.
  - rewrite Hf. cbn [mbind res_mbind rbind]. simpl in Kp. fold (drivers m) in Kp.
    pose proof (items_sets _ _ _ _ Hf) as (E1 & E2 & E3). simpl in E1, E2, E3.
    change (m_items m ≫= item_ins) with (decl_inputs m) in E2. change (m_items m ≫= item_outs) with (decl_outputs m) in E3.
    apply bool_decide_eq_true in Hpm.
    unfold finish. rewrite E1, E2, E3, Hpm.
    rewrite (bool_decide_eq_true_2 (∅ ∪ list_to_set (decl_inputs m) ⊆ _)) by (clear; set_solver).
    rewrite (bool_decide_eq_true_2 (∅ ∪ list_to_set (decl_outputs m) ⊆ _)) by (clear; set_solver).
    rewrite (bool_decide_eq_true_2 (_ ⊆ ∅ ∪ list_to_set (decl_inputs m) ∪ (∅ ∪ list_to_set (decl_outputs m)))) by (clear; set_solver). cbn [negb].
    destruct (set_output_ok (elements (∅ ∪ list_to_set (decl_outputs m) : gset string)) (r_g st)) as [g' Hso].
    { intros x Hx. apply elem_of_elements in Hx. assert (Hx' : x ∈ decl_outputs m) by (clear -Hx; set_solver).
      destruct (Hod x Hx') as [Hin|Hdf].
      - apply Kin. rewrite E2. clear -Hin. set_solver.
      - by apply Kp. }
    rewrite Hso. eauto.
Qed.

Theorem read_succeeds rsv bbs m : ports_match m = true → in_subset bbs m = true → bbfree m → names_ok m →
  (list_to_set (module_ids m) : gset string) ⊆ rsv → ∃ C, read rsv bbs m = Ok C.
Proof.
  intros Hpm Hs Hb Hnm Hids. pose proof (in_subset_outs_driven bbs m Hs) as Hod. destruct (in_subset_den2 rsv bbs m Hs Hids) as (HNN & Hok & Hnd).
  pose proof (xdrivers_defs bbs m) as Edd. rewrite (xdrivers_bbfree bbs m Hb) in *.
  apply (read_succeeds_items rsv bbs m (list_to_set (module_nets m)) HNN); try done.
  - intros s Hs'. apply Hnm. by apply elem_of_list_to_set in Hs'.
  - apply Forall_forall. intros it Hit. rewrite Forall_forall in Hok. specialize (Hok it Hit).
    destruct it as [| | |mn insts|]; try exact Hok. simpl in Hok. destruct (Hb mn insts Hit) as [t Et]. rewrite Et in Hok. simpl. by rewrite Et.
  - apply Forall_forall. intros it Hit s Hs'. apply Hnm. unfold module_nets. apply elem_of_app. right. apply elem_of_list_bind. eauto.
  - intros s Hs'. rewrite Edd. by apply Hod.
Qed.


Lemma c_item_bbs k st it st' : c_item k st it = Ok st' → (∀ mn insts, it = IInst mn insts → is_Some (prim_of_name mn)) → r_bbs st' = r_bbs st.
Proof.
  destruct it as [ns|ns|ns|mn insts|l]; simpl; intros H Hb.
  - apply mbind_ok in H as (g & _ & H). by injection H as <-.
  - by injection H as <-.
  - by injection H as <-.
  - apply mbind_ok in H as (r & _ & H). destruct (Hb mn insts eq_refl) as [t Et]. rewrite Et in H.
    apply mbind_ok in H as (g' & _ & H). by injection H as <-.
  - apply mbind_ok in H as (r & _ & H). by injection H as <-.
Qed.
Lemma read_bbs_bbfree rsv bbs m C : bbfree m → read rsv bbs m = Ok C → c_bbs C = ∅.
Proof.
  unfold read. destruct (init_ctx rsv bbs) as [k g0]. intros Hb H. apply mbind_ok in H as (st & Hf & Hfin).
  assert (Hgen : ∀ items st0 st1, (∀ mn insts, IInst mn insts ∈ items → is_Some (prim_of_name mn)) → rfold (c_item k) st0 items = Ok st1 → r_bbs st1 = r_bbs st0).
  { clear. induction items as [|it items IH]; intros st0 st1 Hb Hf; simpl in Hf; [by injection Hf as <-|].
    apply rbind_ok in Hf as (st2 & H1 & H2). apply IH in H2; [|intros; eapply Hb; by right]. rewrite H2.
    eapply c_item_bbs; [exact H1|]. intros mn insts ->. eapply Hb. by left. }
  assert (Hbbs : r_bbs st = ∅) by (by rewrite (Hgen _ _ _ Hb Hf)).
  unfold finish in Hfin. repeat (case_bool_decide; simpl in Hfin; try discriminate).
  destruct (set_output_g (r_g st) (elements (r_outs st)) true) as [g' o]. destruct o; [|discriminate]. by injection Hfin as <-.
Qed.

(* read_denotes in full for blackbox-free modules with usable names: the read succeeds and the circuit denotes the module *)
Theorem read_denotes_full_bbfree rsv bbs m : ports_match m = true → in_subset bbs m = true → bbfree m → names_ok m →
  (list_to_set (module_ids m) : gset string) ⊆ rsv →
  ∃ C, read rsv bbs m = Ok C ∧ c_name C = m_name m ∧ c_bbs C = ∅ ∧
    inputs (c_g C) = list_to_set (decl_inputs m) ∧ outputs (c_g C) = list_to_set (decl_outputs m) ∧
    (∀ w, consistent (c_g C) w → ∃ x, sat_module m w x) ∧
    (∀ v x, sat_module m v x → ∃ w, consistent (c_g C) w ∧ ∀ n, n ∈ used_nets m → w n = v n).
Proof.
  intros Hpm Hs Hb Hnm Hids. destruct (read_succeeds rsv bbs m Hpm Hs Hb Hnm Hids) as [C HC]. exists C. split; [done|].
  destruct (read_denotes rsv bbs m C Hs Hids HC) as (? & ? & ? & ? & ?). split; [done|]. split; [by eapply read_bbs_bbfree|]. done.
Qed.
