(* C01 -- Tseitin CNF / solve() is exact for circuit semantics.  Statements only; proofs in Proofs/SatTables.v, Proofs/SatProofs.v.
   `cnf`, `solve` are the model of sat.cnf / sat.solve instantiated with the clause templates regenerated from sat.py (Gen/Gen_cnf.v).
   CNF variables are the IDPool keys: VN n (node), VX a b = ("xor", a, b), VI n = ("xor_inv", n).
   `ord n` is the iteration order of c.fanin(n) (PYTHONHASHSEED); every statement quantifies over it.
   `closed` is the networkx invariant that edge endpoints are nodes. *)
From stdpp Require Import strings gmap sets.
From CG Require Import Base.Oracle Model.Lint Model.Sat Proofs.SatProofs Proofs.SatSolver Gen.Gen_cnf.

(* obligation on the regenerated tables: every arm of the if/elif chain serves the documented types and its clause
   templates mean the documented gate equation (semantic check over all role valuations; and/nand/or/nor: Tmpl.tmpl_ok) *)
Theorem C01_tables_ok : cnf_tables_ok gen_cnf_tables = true.
Proof. vm_compute. reflexivity. Qed.
Print Assumptions C01_tables_ok.

(* cnf never raises on a circuit of the domain (so the statements below are not vacuous) *)
Theorem C01_cnf_total : ∀ C ord, lint_clean C → no_x (c_g C) → ord_ok (c_g C) ord → ∃ F, cnf C ord = Ok F.
Proof. intros C ord Hl Hx. exact (cnf_with_total _ C01_tables_ok C ord (lint_wf C Hl Hx)). Qed.
Print Assumptions C01_cnf_total.

(* every satisfying assignment, restricted to node variables, is a consistent valuation *)
Theorem C01_sound : ∀ C ord F, lint_clean C → no_x (c_g C) → cnf C ord = Ok F →
  ∀ a, sat a F → consistent (c_g C) (a ∘ VN).
Proof. intros C ord F Hl Hx. exact (cnf_with_sound _ C01_tables_ok C ord F (lint_wf C Hl Hx)). Qed.
Print Assumptions C01_sound.

(* every consistent valuation extends to a satisfying assignment *)
Theorem C01_complete : ∀ C ord F, lint_clean C → no_x (c_g C) → cnf C ord = Ok F →
  ∀ v, consistent (c_g C) v → ∃ a, sat a F ∧ agrees (dom (c_g C)) (a ∘ VN) v.
Proof. intros C ord F Hl Hx. exact (cnf_complete _ C01_tables_ok C ord F (lint_wf C Hl Hx)). Qed.
Print Assumptions C01_complete.

(* acyclic circuits: exactly one projected model per startpoint assignment *)
Theorem C01_acyclic_unique : ∀ C ord F, lint_clean C → no_x (c_g C) → closed (c_g C) → acyclic (c_g C) → cnf C ord = Ok F →
  ∀ ρ : val, ∃ a, sat a F ∧ agrees (startpoints (c_g C)) (a ∘ VN) ρ ∧
    ∀ a', sat a' F → agrees (startpoints (c_g C)) (a' ∘ VN) ρ → agrees (dom (c_g C)) (a ∘ VN) (a' ∘ VN).
Proof. intros C ord F Hl Hx. exact (cnf_acyclic_unique _ C01_tables_ok C ord F (lint_wf C Hl Hx)). Qed.
Print Assumptions C01_acyclic_unique.

(* solve, relative to a sound and complete solver (a Section variable of the proof, never an axiom) *)
Definition solver_ok (solver : solver_t) : Prop :=
  (∀ F a, solver F = Some a → sat a F) ∧ (∀ F, solver F = None → ∀ a, ¬ sat a F).
Theorem C01_solve : ∀ solver, solver_ok solver → ∀ C ord A, lint_clean C → no_x (c_g C) → closed (c_g C) → ord_ok (c_g C) ord →
  (¬ dom A ⊆ dom (c_g C) → solve solver C ord A = Raise ValueError) ∧
  (dom A ⊆ dom (c_g C) →
     (solve solver C ord A = Ok None ∧ ¬ ∃ v, consistent (c_g C) v ∧ agreesA A v) ∨
     (∃ r, solve solver C ord A = Ok (Some r) ∧ dom r = dom (c_g C) ∧
           let v := λ n, default false (r !! n) in consistent (c_g C) v ∧ agreesA A v)).
Proof. intros s [Hs Hc] C ord A Hl Hx. exact (solve_with_spec _ C01_tables_ok s Hs Hc C ord A (lint_wf C Hl Hx)). Qed.
Print Assumptions C01_solve.

(* ---- non-vacuity: a cyclic-free circuit with a 3-input xnor, a 1-input nand, a constant and a flip-flop pin satisfies all hypotheses ---- *)
Definition ex_c : Circuit := {|
  c_name := "ex";
  c_g := list_to_map [("a", mk_node Input false ∅); ("b", mk_node Input false ∅); ("k", mk_node C1 false ∅);
                      ("g", mk_node Xnor true {["a"; "b"; "k"]}); ("h", mk_node Nand true {["g"]});
                      ("ff.d", mk_node BbIn false {["h"]}); ("ff.q", mk_node BbOut false ∅); ("o", mk_node Buf true {["ff.q"]})];
  c_bbs := {["ff" := {| bb_name := "dff"; bb_in := {["d"]}; bb_out := {["q"]} |}]} |}.
Example C01_ex_domain : lint_clean ex_c ∧ no_x (c_g ex_c) ∧ closed (c_g ex_c) ∧ acyclic (c_g ex_c) ∧ ord_ok (c_g ex_c) (default_ord (c_g ex_c)).
Proof.
  split; [vm_compute; reflexivity|]. split; [apply (bool_decide_unpack _); vm_compute; exact I|].
  split; [apply closedb_spec; vm_compute; reflexivity|]. split; [apply acyclicb_sound; vm_compute; reflexivity|].
  intros n i Hn. unfold default_ord, fanin. by rewrite Hn.
Qed.
Example C01_ex_cnf : ∃ F, cnf ex_c (default_ord (c_g ex_c)) = Ok F ∧ length F = 20 ∧ sat (ext (λ n, bool_decide (n ∈ ["b"; "k"; "ff.q"; "o"; "g"]))) F.
Proof. eexists. split; [vm_compute; reflexivity|]. split; [reflexivity|]. vm_compute. reflexivity. Qed.

(* the solver hypotheses are satisfiable: exhaustive search over the variables of the formula is sound and complete *)
Example C01_solver_exists : solver_ok brute.
Proof. split; [exact brute_sound|exact brute_complete]. Qed.

(* the soundness half of the property oracle (Run/SatRun.v `sound_check`, evaluated on the clause list the implementation returned,
   at every size) is a decision procedure for the specification, not a sampling test *)
From CG Require Run.SatRun Run.SatRunProofs.
Theorem C01_oracle_sound : ∀ c G, SatRun.sound_check c G = true → closed c → ∀ a, sat a G → consistent c (a ∘ VN).
Proof. exact SatRunProofs.sound_check_spec. Qed.
Print Assumptions C01_oracle_sound.
