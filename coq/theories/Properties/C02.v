(* C02 -- the Verilog reader yields the circuit the netlist denotes.  Statements only; proofs in Proofs/VerilogProofs.v. *)
From CG Require Import Verilog.ExprParse.
From stdpp Require Import strings gmap sets.
From CG Require Import Types Sem Api Gen.Gen_grammar Verilog.Ast Verilog.Read Proofs.VerilogProofs.
Open Scope string_scope.

(* obligation on the regenerated rule table of verilog.lark (expression .. primary, named_port_connection, IDENTIFIER):
   it is the table that the stratified tree type of ExprParse.v implements *)
Theorem C02_grammar_table_ok : grammar_table_okb = true.
Proof. vm_compute. reflexivity. Qed.
Print Assumptions C02_grammar_table_ok.

(* the parser of that tree type returns, for every tree and every continuation that does not extend the phrase, the tree
   itself: the grammar is unambiguous on its own yields and stratification is precedence *)
Theorem C02_parse_print_cond : ∀ c rest, fol_cond rest = true → ∃ F, p_cond F (pr_cond c ++ rest)%list = Some (c, rest).
Proof. exact parse_print_cond. Qed.
Print Assumptions C02_parse_print_cond.
