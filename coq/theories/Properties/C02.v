(* C02 -- the Verilog reader yields the circuit the netlist denotes.  Statements only; proofs in Proofs/VerilogProofs.v. *)
From CG Require Import Verilog.ExprParse.
From stdpp Require Import strings gmap sets.
From CG Require Import Types Sem Api Gen.Gen_grammar Verilog.Ast Verilog.Read Verilog.Write Proofs.VerilogProofs Run.Run_C02 Proofs.VerilogReadProofs Proofs.VerilogDenoteProofs Proofs.VerilogBbProofs Proofs.VerilogConvProofs Proofs.VerilogRtProofs Proofs.VerilogSuccProofs Proofs.VerilogPinProofs Proofs.VerilogSuccBbProofs.
Open Scope string_scope.

(* (1) obligation on the regenerated rule table of verilog.lark (expression .. primary, named_port_connection,
   IDENTIFIER): it is the table that the stratified tree type of ExprParse.v implements *)
Theorem C02_grammar_table_ok : grammar_table_okb = true.
Proof. vm_compute. reflexivity. Qed.
Print Assumptions C02_grammar_table_ok.

(* every tree's token string is derivable in that rule table ... *)
Theorem C02_print_derivable : ∀ c, der grammar_rules "condition" (pr_cond c).
Proof. exact (print_derivable C02_grammar_table_ok). Qed.
Print Assumptions C02_print_derivable.

(* ... and the parser of the tree type returns, for every tree and every continuation that does not extend the phrase,
   the tree itself: the grammar is unambiguous on its own yields and stratification is precedence *)
Theorem C02_parse_print_cond : ∀ c rest, fol_cond rest = true → ∃ F, p_cond F (pr_cond c ++ rest)%list = Some (c, rest).
Proof. exact parse_print_cond. Qed.
Print Assumptions C02_parse_print_cond.

(* (2) for every expression tree and every circuit: when the transformer's callbacks succeed, every existing node is
   left alone and, under every consistent valuation of the resulting circuit, the returned node carries the Verilog value
   of the expression (1'b0 / 1'b1 being the constant nodes, all 1'bx the node tie_x; ternary as mux; equal operands of
   parity operators cancelled).  Freshness of the created names is not a hypothesis: uid is proved to return a name
   outside the graph and the reserved identifiers. *)
Theorem C02_compile_expr_correct : ∀ k g ge e g' ge' r,
  c_cond k (g, ge) e = Ok ((g', ge'), r) →
  g ⊆ g' ∧ ∀ v, ties_ok k g → consistent g' v → v r = sem_cond v (v (k_tx k)) e.
Proof. intros k g ge e g' ge' r H. exact (compile_cond_ok e k (g, ge) (g', ge') r H). Qed.
Print Assumptions C02_compile_expr_correct.

Theorem C02_uid_fresh : ∀ used n, uid_in used n ∉ used.
Proof. exact uid_in_fresh. Qed.
Print Assumptions C02_uid_fresh.

(* one gate callback: exactly one new node, of the given type, over exactly the given operands, outside graph and
   reserved identifiers; operands that are no nodes yet become undriven buffers *)
Theorem C02_gate_spec : ∀ k st prefix t items fi rem st' r, gate k st prefix t items fi rem = Ok (st', r) → fi ≠ [] →
  st.1 ⊆ st'.1 ∧ st'.1 !! r = Some (mk_node t false (list_to_set fi)) ∧ r ∉ dom st.1 ∧ r ∉ k_rsv k ∧
  (∀ x, x ∈ dom st'.1 → x ∈ dom st.1 ∨ x = r ∨ (x ∈ fi ∧ st'.1 !! x = Some (mk_node Buf false ∅))) ∧
  st'.2 ⊆ {[r]} ∪ st.2.
Proof. exact gate_spec. Qed.
Print Assumptions C02_gate_spec.

(* (3) a port list that disagrees with the declarations is never accepted *)
Theorem C02_port_mismatch_rejected : ∀ rsv bbs m C, read rsv bbs m = Ok C → ports_match m = true.
Proof. exact read_rejects_port_mismatch. Qed.
Print Assumptions C02_port_mismatch_rejected.

(* (3b) a successful read of a module of the subset has exactly the declared inputs and outputs (invariant over the item
   fold: which nodes are typed input, nothing is marked before module(); blackbox instances included) *)
Theorem C02_read_io : ∀ rsv bbs m C,
  in_subset bbs m = true → list_to_set (module_ids m) ⊆ rsv → read rsv bbs m = Ok C →
  inputs (c_g C) = list_to_set (decl_inputs m) ∧ outputs (c_g C) = list_to_set (decl_outputs m).
Proof. exact read_io. Qed.
Print Assumptions C02_read_io.

(* (4, partial of read_denotes) one statement.  After `assign lv = e` - whether the reader buffers the node of e or renames its own
   top gate to lv (networkx relabel with merge into an existing placeholder) - the net lv carries the value of e under every
   consistent valuation of the new circuit.  Hypotheses: a well-formed reader state (edges end at nodes, the constants are
   nodes and not among the reader's gates, the reader's gates are outside the reserved identifiers - all established by
   the reader itself), identifiers of e reserved, lv a reserved identifier that is absent or an undriven free node.
   Key lemma (C02_result_cond, tree induction): a node returned by c_cond that is one of the reader's gates is fresh for the
   start graph, a non-free gate whose fan-in does not contain it, and nothing reads it.
   The fold over the items is C02_read_denotes_sound (4) below, the converse direction C02_read_denotes_conv (5). *)
Theorem C02_assign_correct : ∀ k st lv e st',
  c_assign k st (lv, e) = Ok st' →
  gst k st → ties_ok k st.1 → list_to_set (ids_cond e) ⊆ k_rsv k →
  lv ∉ [k_t0 k; k_t1 k; k_tx k] → lv ∈ k_rsv k →
  (∀ i, st.1 !! lv = Some i → n_fi i = ∅ ∧ is_free i = true) →
  ∀ v, consistent st'.1 v → v lv = sem_cond v (v (k_tx k)) e.
Proof. exact assign_correct. Qed.
Print Assumptions C02_assign_correct.
(* the composition principle for the item fold: an assignment step refines on the reserved names *)
Theorem C02_assign_refines : ∀ k st lv e st',
  c_assign k st (lv, e) = Ok st' →
  gst k st → list_to_set (ids_cond e) ⊆ k_rsv k →
  lv ∉ [k_t0 k; k_t1 k; k_tx k] → lv ∈ k_rsv k →
  (∀ i, st.1 !! lv = Some i → n_fi i = ∅ ∧ is_free i = true) →
  ∀ v, consistent st'.1 v → ∃ v1, consistent st.1 v1 ∧ (∀ s, s ∈ k_rsv k → v1 s = v s) ∧ v1 (k_tx k) = v (k_tx k).
Proof. exact assign_refines. Qed.
Print Assumptions C02_assign_refines.
Theorem C02_result_cond : ∀ k e st st' r, c_cond k st e = Ok (st', r) → gst k st → list_to_set (ids_cond e) ⊆ k_rsv k →
  (r ∈ k_rsv k ∨ r ∈ dom st'.1) ∧ (r ∈ st'.2 → st.1 !! r = None ∧ topgate st'.1 r).
Proof. exact result_cond. Qed.
Print Assumptions C02_result_cond.
(* the reader's states are well-formed: preserved by every expression *)
Theorem C02_gst_cond : ∀ k e st st' r, c_cond k st e = Ok (st', r) → st.1 ⊆ st'.1 ∧ (gst k st → gst k st').
Proof. exact frg_cond. Qed.
Print Assumptions C02_gst_cond.
Theorem C02_prim_instance_exact : ∀ k t g nm n fi g', prim_instance k t g (nm, CPos (n :: fi)) = Ok g' → NoDup fi → fi ≠ [] →
  g' !! n = Some (mk_node t false (fanin g n ∪ list_to_set fi)) ∧
  ∀ x, x ≠ n → g' !! x = g !! x ∨ (g !! x = None ∧ x ∈ fi ∧ g' !! x = Some (mk_node Buf false ∅)).
Proof. exact prim_instance_exact. Qed.
Print Assumptions C02_prim_instance_exact.

(* (4) read_denotes, soundness half, every module of the subset (blackbox instances included): every consistent valuation of
   the circuit that was read satisfies the module - every continuous assignment and every primitive instance (expression
   operands, repeated operands of parity gates included) holds, all 1'bx being the value of the node tie_x.  A blackbox
   instance adds no equation: its pins are new free nodes, the nets on its output pins become buffers of these pins.
   Proof: invariant `rinv` over the item fold (Proofs/VerilogDenoteProofs.v, Proofs/VerilogBbProofs.v); every reader step
   refines on the reserved names, every equation is proved at its own step. *)
Theorem C02_read_denotes_sound : ∀ rsv bbs m C,
  in_subset bbs m = true → list_to_set (module_ids m) ⊆ rsv →
  read rsv bbs m = Ok C → ∀ w, consistent (c_g C) w → ∃ x, sat_module m w x.
Proof. exact read_denotes_sound. Qed.
Print Assumptions C02_read_denotes_sound.
(* the value lemma for primitive instances: the node type and operands chosen by module_instantiation (pairs of equal
   operands of parity gates cancelled, all cancelled = constant) compute the Verilog primitive on the operand list *)
Theorem C02_prim_sel_value : ∀ k t rs v, t ∈ gate_types → rs ≠ [] → (t = Buf ∨ t = Not → length rs = 1) →
  v (k_t0 k) = false → v (k_t1 k) = true →
  (prim_sel k t rs).2 ≠ [] ∧ gate_val (prim_sel k t rs).1 v (list_to_set (prim_sel k t rs).2) = prim_sem t (v <$> rs).
Proof. exact prim_sel_value. Qed.
Print Assumptions C02_prim_sel_value.

(* (5) the converse: every model of the module - a valuation of the nets and a value x of the unknown that satisfy every
   assignment and every primitive instance - is, on the nets that occur in statements, the restriction of a consistent
   valuation of the circuit that was read (the reader's synthetic nodes take the values of their sub-expressions, the pin
   nodes of blackbox instances the values of the nets they are attached to, tie_x the value x).  Blackbox instances included.
   Proof: every reader step extends valuations (`ext`, `gate_ext`, `ext_cond`: tree induction; `c_assign_conv`,
   `prim_instance_conv`, `bb_instance_conv`); dual invariant `cinv` over the item fold (Proofs/VerilogConvProofs.v). *)
Theorem C02_read_denotes_conv : ∀ rsv bbs m C,
  in_subset bbs m = true → list_to_set (module_ids m) ⊆ rsv → read rsv bbs m = Ok C →
  ∀ v x, sat_module m v x → ∃ w, consistent (c_g C) w ∧ ∀ n, n ∈ used_nets m → w n = v n.
Proof. exact read_denotes_conv. Qed.
Print Assumptions C02_read_denotes_conv.
(* (6) read_denotes: name and interface are the declared ones and, on the declared nets, the consistent valuations of the circuit
   are exactly the models of the module - for every module of the subset whose read succeeds *)
Theorem C02_read_denotes : ∀ rsv bbs m C,
  in_subset bbs m = true → list_to_set (module_ids m) ⊆ rsv → read rsv bbs m = Ok C →
  c_name C = m_name m ∧ inputs (c_g C) = list_to_set (decl_inputs m) ∧ outputs (c_g C) = list_to_set (decl_outputs m) ∧
  (∀ w, consistent (c_g C) w → ∃ x, sat_module m w x) ∧
  (∀ v x, sat_module m v x → ∃ w, consistent (c_g C) w ∧ ∀ n, n ∈ used_nets m → w n = v n).
Proof. exact read_denotes. Qed.
Print Assumptions C02_read_denotes.

(* (7) success: for blackbox-free modules of the subset whose net identifiers are usable node names (non-empty, no leading
   digit - what the lexer's CNAME guarantees; in_subset does not say it) the read succeeds (in_subset demands that every output
   is an input or a driven net): every check of add / connect passes (tree induction succ_cond, then the item fold, then module()).
   good_name n := n ≠ "" ∧ starts_digit n = false. *)
Theorem C02_read_succeeds_bbfree : ∀ rsv bbs m,
  ports_match m = true → in_subset bbs m = true → bbfree m → names_ok m → list_to_set (module_ids m) ⊆ rsv →
  ∃ C, read rsv bbs m = Ok C.
Proof. exact read_succeeds. Qed.
Print Assumptions C02_read_succeeds_bbfree.
(* (8) read_denotes in full for blackbox-free modules: the read succeeds, and name, (empty) registry, interface and both
   directions of the denotation hold *)
Theorem C02_read_denotes_full_bbfree : ∀ rsv bbs m,
  ports_match m = true → in_subset bbs m = true → bbfree m → names_ok m → list_to_set (module_ids m) ⊆ rsv →
  ∃ C, read rsv bbs m = Ok C ∧ c_name C = m_name m ∧ c_bbs C = ∅ ∧
    inputs (c_g C) = list_to_set (decl_inputs m) ∧ outputs (c_g C) = list_to_set (decl_outputs m) ∧
    (∀ w, consistent (c_g C) w → ∃ x, sat_module m w x) ∧
    (∀ v x, sat_module m v x → ∃ w, consistent (c_g C) w ∧ ∀ n, n ∈ used_nets m → w n = v n).
Proof. exact read_denotes_full_bbfree. Qed.
Print Assumptions C02_read_denotes_full_bbfree.

(* (9) blackbox instances: for every successful read of a module of the subset the registry is the list of instances of the
   text and every instance is attached as the statement says (bb_ok: every input pin is a bb_input node whose fan-in is the net -
   or the node of the expression - named in the instantiation, empty for `.p()` and omitted pins; every output pin is a
   bb_output node without fan-in whose only reader is the net named in the instantiation, which is a buffer of exactly that pin).
   Proof (Proofs/VerilogPinProofs.v): the graph after one instance node by node (bb_instance_shape), later statements leave the
   pins and output nets of earlier instances alone (chg: connect() refuses pin-typed operands on non-buffers; results of
   expressions are nets, constants or fresh nodes), invariant Qinv over the item fold, module(). *)
Theorem C02_read_bb_pins : ∀ rsv bbs m C,
  in_subset bbs m = true → list_to_set (module_ids m) ⊆ rsv → read rsv bbs m = Ok C →
  c_bbs C = list_to_map ((λ x, (x.1.1, x.1.2)) <$> bb_insts bbs m) ∧ ∀ x, x ∈ bb_insts bbs m → bb_ok (c_g C) x = true.
Proof. exact read_bb_pins. Qed.
Print Assumptions C02_read_bb_pins.

(* (10) everything C02_read_denotes_full claims about the returned circuit, for every successful read of a module of the subset *)
Theorem C02_read_denotes_of_success : ∀ rsv bbs m C,
  in_subset bbs m = true → list_to_set (module_ids m) ⊆ rsv → read rsv bbs m = Ok C →
  c_name C = m_name m ∧
  c_bbs C = list_to_map ((λ x, (x.1.1, x.1.2)) <$> bb_insts bbs m) ∧
  (∀ x, x ∈ bb_insts bbs m → bb_ok (c_g C) x = true) ∧
  (∀ w, consistent (c_g C) w → ∃ x, sat_module m w x) ∧
  (∀ v x, sat_module m v x → ∃ w, consistent (c_g C) w ∧ ∀ n, n ∈ used_nets m → w n = v n).
Proof. exact read_denotes_of_success. Qed.
Print Assumptions C02_read_denotes_of_success.

(* (11) success of the read for modules with blackbox instances, under identifier guards that in_subset does not contain:
   names_ok (net identifiers non-empty, no leading digit), nodots (no `.` in a net identifier: then no node the reader creates
   is called like a pin), bb_items_ok (instance names do not start with a digit, input and output pins of a definition are disjoint), pins_apart (pins of
   instances with different names are different strings: `a.b`.`c` vs `a`.`b.c`).  Every check of add / connect / add_blackbox
   passes (Proofs/VerilogSuccBbProofs.v: invariant sinv, bconn_succ, bb_instance_succ, items_succ_x). *)
Theorem C02_read_succeeds : ∀ rsv bbs m,
  ports_match m = true → in_subset bbs m = true → names_ok m → nodots m →
  bb_items_ok rsv bbs m → pins_apart (bb_insts bbs m) → list_to_set (module_ids m) ⊆ rsv → ∃ C, read rsv bbs m = Ok C.
Proof. exact read_succeeds_bb. Qed.
Print Assumptions C02_read_succeeds.
(* (12) the full statement under these guards: the read succeeds and the circuit has the name, registry, pins and denotation of
   the module (conclusion word for word that of C02_read_denotes_full) *)
Theorem C02_read_denotes_full_guarded : ∀ rsv bbs m,
  ports_match m = true → in_subset bbs m = true → names_ok m → nodots m →
  bb_items_ok rsv bbs m → pins_apart (bb_insts bbs m) → list_to_set (module_ids m) ⊆ rsv →
  ∃ C, read rsv bbs m = Ok C ∧ c_name C = m_name m ∧
    c_bbs C = list_to_map ((λ x, (x.1.1, x.1.2)) <$> bb_insts bbs m) ∧
    (∀ x, x ∈ bb_insts bbs m → bb_ok (c_g C) x = true) ∧
    (∀ w, consistent (c_g C) w → ∃ x, sat_module m w x) ∧
    (∀ v x, sat_module m v x → ∃ w, consistent (c_g C) w ∧ ∀ n, n ∈ used_nets m → w n = v n).
Proof. exact read_denotes_full_guarded. Qed.
Print Assumptions C02_read_denotes_full_guarded.

(* the statement without the identifier guards: NOT a theorem - an identifier `1a` or `` is refused by add(); a dotted net `x.q` next
   to an instance `not_x` makes add_blackbox raise.  (The guard in_subset excludes outputs that no statement turns into a node:
   `output z;` never mentioned, `output a; xor g(o, a, a);`, `assign o = a ^ a;` - the reader rejects these with KeyError.)  It is kept as the statement the harness decides per generated module
   (Run_C02.holds evaluates in_subset and the executable form `denotes` of the conclusion); the generator produces none of the
   corner cases.  C02_read_denotes_full_guarded is this statement under the guards of (11). *)
Definition C02_read_denotes_full : Prop := ∀ rsv bbs m,
  ports_match m = true → in_subset bbs m = true → list_to_set (module_ids m) ⊆ rsv →
  ∃ C, read rsv bbs m = Ok C ∧ c_name C = m_name m ∧
    c_bbs C = list_to_map ((λ x, (x.1.1, x.1.2)) <$> bb_insts bbs m) ∧
    (∀ x, x ∈ bb_insts bbs m → bb_ok (c_g C) x = true) ∧
    (∀ w, consistent (c_g C) w → ∃ x, sat_module m w x) ∧
    (∀ v x, sat_module m v x → ∃ w, consistent (c_g C) w ∧ ∀ n, n ∈ used_nets m → w n = v n).

(* non-vacuity *)
Definition ex_rsv : gset string := list_to_set ["module"; "top"; "a"; "b"; "o"; "not_a"; "input"; "output"; "assign"; "endmodule"; "b0"].
Definition ex_mod : vmodule :=
  Md "top" ["a"; "b"; "o"; "not_a"]
     [IInput ["a"; "b"]; IOutput ["o"; "not_a"];
      IAssign [("o", CTern (OXor (XAnd (AUn (UNot (PId "a"))))) (OXor (XXor (XAnd (L02 (PId "a"))) (L02 (PId "b")))) (L04 (PConst K0)));
               ("not_a", L25 (AAnd (L02 (PId "a")) (UPrim (PId "b"))))]].
Example C02_ex_bbfree : bbfree ex_mod ∧ names_ok ex_mod.
Proof.
  split.
  - intros mn insts Hin. unfold ex_mod, Md in Hin. simpl in Hin. rewrite !elem_of_cons, elem_of_nil in Hin. naive_solver.
  - intros s Hs. revert s Hs. apply Forall_forall. apply (bool_decide_eq_true_1 (Forall good_name (module_nets ex_mod))). vm_compute. reflexivity.
Qed.
Example C02_ex_in_subset : ports_match ex_mod = true ∧ in_subset [] ex_mod = true ∧ bool_decide (list_to_set (module_ids ex_mod) ⊆ ex_rsv) = true.
Proof. vm_compute. done. Qed.
Example C02_ex_read : match read ex_rsv [] ex_mod with Ok C => denotes [] ex_mod C | _ => false end = true.
Proof. vm_compute. reflexivity. Qed.
Definition ex_ctx := init_ctx ex_rsv [].
Example C02_ex_compile :
  match c_cond ex_ctx.1 (ex_ctx.2, ∅) (L25 (AAnd (L02 (PId "a")) (UNot (PId "b")))) with Ok _ => true | _ => false end = true ∧
  ties_ok ex_ctx.1 ex_ctx.2.
Proof.
  split; [vm_compute; reflexivity|].
  split; [exists (mk_node C0 false ∅)|exists (mk_node C1 false ∅)]; (split; [vm_compute; reflexivity|done]).
Qed.
(* a module with a blackbox instance (connected input pin with an expression, output pin on a net, open pin) is in the subset
   and is read into a circuit that `denotes` it *)
Definition ex_ff : bbdef := mk_bb "ff" ["clk"; "d"] ["q"].
Definition ex_mod_bb : vmodule :=
  Md "top" ["a"; "clk"; "o"]
     [IInput ["a"; "clk"]; IOutput ["o"]; IWire ["w"];
      IInst "ff" [("u1", Named [("d", Some (L25 (AAnd (L02 (PId "a")) (UNot (PId "w"))))); ("clk", Some (L05 (PId "clk"))); ("q", Some (L05 (PId "w")))])];
      IInst "not" [("g0", Positional [L05 (PId "o"); L05 (PId "w")])]].
Definition ex_rsv_bb : gset string := list_to_set (module_ids ex_mod_bb).
Example C02_ex_bb : ports_match ex_mod_bb = true ∧ in_subset [ex_ff] ex_mod_bb = true ∧
  match read ex_rsv_bb [ex_ff] ex_mod_bb with Ok C => denotes [ex_ff] ex_mod_bb C | _ => false end = true.
Proof. vm_compute. done. Qed.
(* non-vacuity of the guards of (11)/(12): they hold for the module with a blackbox instance above *)
Example C02_ex_bb_guards : names_ok ex_mod_bb ∧ nodots ex_mod_bb ∧
  bb_items_ok ex_rsv_bb [ex_ff] ex_mod_bb ∧ pins_apart (bb_insts [ex_ff] ex_mod_bb).
Proof.
  split; [|split; [|split]].
  - intros s Hs. revert s Hs. apply Forall_forall. apply (bool_decide_eq_true_1 (Forall good_name (module_nets ex_mod_bb))). vm_compute. reflexivity.
  - intros s Hs. revert s Hs. apply Forall_forall. apply (bool_decide_eq_true_1 (Forall (λ s, Lint.has_dot s = false) (module_nets ex_mod_bb))). vm_compute. reflexivity.
  - unfold bb_items_ok. apply Forall_forall. intros it Hit. unfold ex_mod_bb, Md in Hit. cbn [m_items] in Hit.
    rewrite !elem_of_cons, elem_of_nil in Hit. destruct Hit as [->|[->|[->|[->|[->|[]]]]]]; try exact I.
    unfold item_bb_ok. assert (E1 : prim_of_name "ff" = None) by (vm_compute; reflexivity).
    assert (E2 : find_def (k_bbs (init_ctx ex_rsv_bb [ex_ff]).1) "ff" = Some ex_ff) by (vm_compute; reflexivity). rewrite E1, E2.
    split; [apply (bool_decide_eq_true_1 (bb_in ex_ff ## bb_out ex_ff)); vm_compute; reflexivity|repeat constructor].
  - assert (E : ∃ x0, bb_insts [ex_ff] ex_mod_bb = [x0]) by (eexists; vm_compute; reflexivity). destruct E as [x0 ->].
    intros x y p q ->%elem_of_list_singleton ->%elem_of_list_singleton Hne. done.
Qed.
