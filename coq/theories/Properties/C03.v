(* C03 -- Verilog write -> read round trip.  Statements only; proofs in Proofs/Verilog{,Read,Rt,Eq,RtBb,EqBb}Proofs.v. *)
From CG Require Import Verilog.ExprParse.
From stdpp Require Import strings gmap sets.
From CG Require Import Types Sem Cases Model.Lint Api Verilog.Ast Verilog.Read Verilog.Write Proofs.VerilogProofs Proofs.VerilogReadProofs Proofs.VerilogRtProofs Proofs.VerilogEqProofs Proofs.VerilogRtBbProofs Proofs.VerilogEqBbProofs.
Open Scope string_scope.

(* well-formed circuits of the property: lint-clean (blackbox pins may be open), names usable as identifier tokens,
   one definition per blackbox name; edges end at nodes (a networkx graph always is closed; the finite-map model is not) *)
Definition rt_flags := {| fail_fast := true; unloaded := false; undriven := false; single_in := false |}.
Definition wf_rt (C : Circuit) : Prop :=
  lint C rt_flags = Ok () ∧
  (∀ n i, c_g C !! n = Some i → n_ty i ∈ gate_types → n_fi i ≠ ∅) ∧
  (∀ n, n ∈ dom (c_g C) → n ≠ "" ∧ starts_digit n = false) ∧
  (∀ i j d e, c_bbs C !! i = Some d → c_bbs C !! j = Some e → bb_name d = bb_name e → d = e) ∧
  closed (c_g C).
Definition bbdefs_of (C : Circuit) : list bbdef := (map_to_list (c_bbs C)).*2.
Definition no_consts (g : circuit) : Prop := of_type g (λ t, bool_decide (t ∈ const_types)) = ∅.
Definition no_pins (g : circuit) : Prop := of_type g (λ t, is_ty BbIn t || is_ty BbOut t) = ∅.

(* what a circuit with blackbox instances must satisfy beyond lint for the text to be readable at all (none of these is implied by
   lint; the construction API guarantees the first and third, the others are naming rules of the netlist):
   every pin-typed node is a pin of a registered instance; other nodes have dot-free names (lint only demands an instance prefix
   for a dotted name: a gate called ff0.x next to instance ff0 is lint-clean, its net would be read as a hierarchical name);
   nothing reads a blackbox input pin; pins of different instances are different nodes (instance u with pin a.b / instance u.a with
   pin b); instance names do not start with a digit and no blackbox type is called like a primitive gate (and, or, ...); no pin node
   carries an output mark (the writer declares every marked node as a port, and `ff0.d` as a port name is no Verilog: the real reader
   stops at the dot - fixes/proposed/c03-pin-output.*; at AST level the name would be one identifier) *)
Definition no_pin_outputs (g : circuit) : Prop := ∀ n i, g !! n = Some i → n_ty i = BbIn ∨ n_ty i = BbOut → n_out i = false.
Definition wf_bb (C : Circuit) : Prop :=
  (∀ n i, c_g C !! n = Some i → n_ty i = BbIn ∨ n_ty i = BbOut → ∃ inst d p, c_bbs C !! inst = Some d ∧ n = pin inst p ∧ p ∈ bb_in d ∪ bb_out d) ∧
  (∀ n i, c_g C !! n = Some i → n_ty i ≠ BbIn → n_ty i ≠ BbOut → has_dot n = false) ∧
  (∀ n i m j, c_g C !! n = Some i → n_ty i = BbIn → c_g C !! m = Some j → n ∉ n_fi j) ∧
  (∀ i j d e p q, c_bbs C !! i = Some d → c_bbs C !! j = Some e → p ∈ bb_in d ∪ bb_out d → q ∈ bb_in e ∪ bb_out e → pin i p = pin j q → i = j) ∧
  (∀ inst d, c_bbs C !! inst = Some d → starts_digit inst = false ∧ prim_of_name (bb_name d) = None) ∧
  no_pin_outputs (c_g C).

(* full statements (validated per generated circuit by Run_C03.holds).  Proved below: roundtrip_identical for all circuits that also
   satisfy wf_bb (C03_roundtrip_identical_bb: blackbox instances with connected and unconnected pins, escaped instance names), both
   statements for circuits without blackboxes.  Not theorems as they stand (C03_full_statements_need_wf_bb at the end of this file): wf_rt
   alone admits the circuits excluded by wf_bb (e.g. a gate called ff0.x, a blackbox type called "and"), whose text the reader rejects
   or reads differently.
   roundtrip_equiv with blackboxes, both styles, all constants: C03_roundtrip_equiv_bb (extra hypothesis no_pin_outputs). *)
Definition roundtrip_equiv_full : Prop := ∀ C b π m rsv,
  wf_rt C → write C b π = Ok m → list_to_set (module_ids m) ⊆ rsv →
  ∃ C', read rsv (bbdefs_of C) m = Ok C' ∧
    c_name C' = c_name C ∧ inputs (c_g C') = inputs (c_g C) ∧ outputs (c_g C') = outputs (c_g C) ∧ c_bbs C' = c_bbs C ∧
    (∀ p, p ∈ of_type (c_g C) (is_ty BbIn) → fanin (c_g C') p = fanin (c_g C) p) ∧
    (∀ p, p ∈ of_type (c_g C) (is_ty BbOut) → fanout (c_g C') p = fanout (c_g C) p) ∧
    equiv_on (outputs (c_g C) ∪ of_type (c_g C) (is_ty BbIn)) (c_g C) (c_g C').
(* the same restricted to where it can hold (wf_bb; all x constants of the original carry one value, as the reader shares one unknown):
   a theorem, C03_roundtrip_equiv_bb_full below *)
Definition roundtrip_equiv_bb_full : Prop := ∀ C b π m rsv,
  wf_rt C → wf_bb C → write C b π = Ok m → list_to_set (module_ids m) ⊆ rsv →
  ∃ C', read rsv (bbdefs_of C) m = Ok C' ∧
    c_name C' = c_name C ∧ inputs (c_g C') = inputs (c_g C) ∧ outputs (c_g C') = outputs (c_g C) ∧ c_bbs C' = c_bbs C ∧
    (∀ p, p ∈ of_type (c_g C) (is_ty BbIn) → fanin (c_g C') p = fanin (c_g C) p) ∧
    (∀ p, p ∈ of_type (c_g C) (is_ty BbOut) → fanout (c_g C') p = fanout (c_g C) p) ∧
    let S := outputs (c_g C) ∪ of_type (c_g C) (is_ty BbIn) in
    (∀ v', consistent (c_g C') v' → ∃ v, consistent (c_g C) v ∧ (∃ x : bool, ∀ n, n ∈ of_type (c_g C) (is_ty CX) → v n = x) ∧ agrees S v v') ∧
    (∀ v, consistent (c_g C) v → (∃ x : bool, ∀ n, n ∈ of_type (c_g C) (is_ty CX) → v n = x) → ∃ w, consistent (c_g C') w ∧ agrees S w v).
Definition roundtrip_identical_full : Prop := ∀ C π m rsv,
  wf_rt C → no_consts (c_g C) → write C false π = Ok m → list_to_set (module_ids m) ⊆ rsv →
  read rsv (bbdefs_of C) m = Ok C.

(* proved parts *)
(* the right-hand side the writer emits for a gate denotes the gate's function of its operands: every gate type, every
   number of operands, every operand order *)
Theorem C03_beh_expr_gate_val : ∀ t f r v x, t ∈ gate_types → (t = Buf ∨ t = Not → r = []) → NoDup (f :: r) →
  sem_cond v x (beh_expr t f r) = gate_val t v (list_to_set (f :: r)).
Proof. exact beh_expr_gate_val. Qed.
Print Assumptions C03_beh_expr_gate_val.
Theorem C03_const_expr_sem : ∀ t v x, t ∈ const_types → sem_cond v x (const_expr t) = match t with C0 => false | C1 => true | _ => x end.
Proof. exact const_expr_sem. Qed.
Print Assumptions C03_const_expr_sem.
(* roundtrip_equiv, one gate of the assign style: the node the reader makes for the emitted expression carries the gate's
   function.  (The module-level composition is C03_roundtrip_equiv_bbfree below.)  Not in this lemma: the composition (the relabel of that node to the lvalue,
   declarations, primitive instances, blackbox instances, output marking) *)
Theorem C03_roundtrip_gate_partial : ∀ k st t f r st' n, t ∈ gate_types → (t = Buf ∨ t = Not → r = []) → NoDup (f :: r) →
  c_cond k st (beh_expr t f r) = Ok (st', n) →
  st.1 ⊆ st'.1 ∧ ∀ v, ties_ok k st.1 → consistent st'.1 v → v n = gate_val t v (list_to_set (f :: r)).
Proof. exact roundtrip_gate_expr. Qed.
Print Assumptions C03_roundtrip_gate_partial.
(* roundtrip_identical, one statement of the primitive style: reading `<type> g_k(n, f1, .., fk)` (distinct operands, as the
   writer emits them) makes n a node of exactly that type over exactly these operands, creates placeholder buffers for
   operands that are no nodes yet and touches nothing else.  (The fold is C03_roundtrip_identical_bbfree below.)  Not in this lemma: the fold over all statements
   (placeholders are retyped by their own statement, inputs keep their type), success of every add/connect check for
   lint-clean circuits, and the final comparison of the two maps *)
Theorem C03_prim_instance_exact_partial : ∀ k t g nm n fi g', prim_instance k t g (nm, CPos (n :: fi)) = Ok g' → NoDup fi → fi ≠ [] →
  g' !! n = Some (mk_node t false (fanin g n ∪ list_to_set fi)) ∧
  ∀ x, x ≠ n → g' !! x = g !! x ∨ (g !! x = None ∧ x ∈ fi ∧ g' !! x = Some (mk_node Buf false ∅)).
Proof. exact prim_instance_exact. Qed.
Print Assumptions C03_prim_instance_exact_partial.
(* the interface of every successful read-back is the declared one (C02_read_io) *)
Theorem C03_read_io : ∀ rsv bbs m C,
  Run_C02.in_subset bbs m = true → list_to_set (module_ids m) ⊆ rsv → read rsv bbs m = Ok C →
  inputs (c_g C) = list_to_set (decl_inputs m) ∧ outputs (c_g C) = list_to_set (decl_outputs m).
Proof. exact read_io. Qed.
Print Assumptions C03_read_io.
(* the reader never accepts a module whose port list disagrees with its declarations (shared with C02) *)
Theorem C03_port_mismatch_rejected : ∀ rsv bbs m C, read rsv bbs m = Ok C → ports_match m = true.
Proof. exact read_rejects_port_mismatch. Qed.
Print Assumptions C03_port_mismatch_rejected.

(* roundtrip_identical for circuits without blackboxes (no registry entry, no pin-typed node): for every order choice π and every
   reserved set that contains the identifiers of the text, reading the primitive-style text back succeeds and returns the very
   same circuit - same nodes, types, edges, output marks, name, (empty) registry.  Proof (Proofs/VerilogRtProofs.v): the writer's
   item list is inputs, outputs, wires, one statement per gate (write_inv); every add / connect check passes for the emitted
   statements (add_g_succeeds: facts about the regenerated Gen_types tables); fold invariant J (declared inputs are `input`
   nodes, processed gates have their final node, referenced unprocessed gates are placeholder buffers) on top of
   C03_prim_instance_exact_partial; module() marks exactly the outputs and drops the three unread constants; map_eq.
   With blackbox instances: C03_roundtrip_identical_bb below. *)
Theorem C03_roundtrip_identical_bbfree : ∀ C π m rsv,
  wf_rt C → c_bbs C = ∅ → no_pins (c_g C) → no_consts (c_g C) → write C false π = Ok m → list_to_set (module_ids m) ⊆ rsv →
  read rsv (bbdefs_of C) m = Ok C.
Proof.
  intros C π m rsv (Hl & Hg & Hn & _ & Hcl) Hb Hp Hc Hw Hids.
  exact (roundtrip_identical_prim C π m rsv _ (lint_clean_rt C rt_flags Hl Hg Hn Hcl Hc Hp) Hb Hw Hids).
Qed.
Print Assumptions C03_roundtrip_identical_bbfree.
(* roundtrip_equiv for circuits without blackboxes, both styles, constants 0 and 1 allowed (no x constant: the reader shares one
   unknown between all of them): reading the emitted text back succeeds and gives a circuit with the same name, inputs, outputs and
   (empty) registry that is equivalent to the original on the outputs - every consistent valuation of one circuit has a consistent
   valuation of the other with the same output values.  Proof (Proofs/VerilogEqProofs.v): the written module satisfies the guards of
   C02's theorems; the read succeeds (C02_read_succeeds, lemma level); by C02_read_denotes the consistent valuations of the read-back
   circuit are the models of the module, and the models of the module are the consistent valuations of the original (every emitted
   statement denotes the function of its gate: C03_beh_expr_gate_val, prim_sem_gate_val, C03_const_expr_sem).
   Several x constants: C03_roundtrip_equiv_bbfree_x; with blackbox instances: C03_roundtrip_equiv_bb, C03_roundtrip_equiv_bb_nodes. *)
Theorem C03_roundtrip_equiv_bbfree : ∀ C b π m rsv,
  wf_rt C → c_bbs C = ∅ → no_pins (c_g C) → no_x (c_g C) → write C b π = Ok m → list_to_set (module_ids m) ⊆ rsv →
  ∃ C', read rsv (bbdefs_of C) m = Ok C' ∧
    c_name C' = c_name C ∧ inputs (c_g C') = inputs (c_g C) ∧ outputs (c_g C') = outputs (c_g C) ∧ c_bbs C' = c_bbs C ∧
    equiv_on (outputs (c_g C)) (c_g C) (c_g C').
Proof.
  intros C b π m rsv (Hl & Hg & Hn & _ & Hcl) Hb Hp Hx Hw Hids. rewrite Hb.
  exact (roundtrip_equiv_bbfree_outputs C b π m rsv _ (lint_clean_rte C rt_flags Hl Hg Hn Hcl Hp) Hx Hb Hw Hids).
Qed.
Print Assumptions C03_roundtrip_equiv_bbfree.
(* the same with the equivalence at *every node* of the original circuit (every node of the original is a node of the read-back
   circuit and carries the same function), not only at the outputs *)
Theorem C03_roundtrip_equiv_bbfree_nodes : ∀ C b π m rsv,
  wf_rt C → c_bbs C = ∅ → no_pins (c_g C) → no_x (c_g C) → write C b π = Ok m → list_to_set (module_ids m) ⊆ rsv →
  ∃ C', read rsv (bbdefs_of C) m = Ok C' ∧
    c_name C' = c_name C ∧ inputs (c_g C') = inputs (c_g C) ∧ outputs (c_g C') = outputs (c_g C) ∧ c_bbs C' = c_bbs C ∧
    equiv_on (dom (c_g C)) (c_g C) (c_g C').
Proof.
  intros C b π m rsv (Hl & Hg & Hn & _ & Hcl) Hb Hp Hx Hw Hids. rewrite Hb.
  exact (roundtrip_equiv_bbfree C b π m rsv _ (lint_clean_rte C rt_flags Hl Hg Hn Hcl Hp) Hx Hb Hw Hids).
Qed.
Print Assumptions C03_roundtrip_equiv_bbfree_nodes.

(* roundtrip_equiv for circuits without blackboxes with ANY constants, several x constants included, both styles: the reader shares one
   unknown (tie_x) between all x constants, so the statement speaks about the valuations that give all x constants of the original one
   value x: every consistent valuation of the read-back circuit is such a valuation of the original on the original's nodes, and every
   such valuation of the original extends to a consistent valuation of the read-back circuit.  (Under independent unknowns two x nodes
   of the original would be distinguishable; with at most one x constant the side condition is void and this is plain equivalence.)
   Proof: as C03_roundtrip_equiv_bbfree with node_val carrying the shared unknown (Proofs/VerilogEqProofs.v, roundtrip_equiv_bbfree_x). *)
Theorem C03_roundtrip_equiv_bbfree_x : ∀ C b π m rsv,
  wf_rt C → c_bbs C = ∅ → no_pins (c_g C) → write C b π = Ok m → list_to_set (module_ids m) ⊆ rsv →
  ∃ C', read rsv (bbdefs_of C) m = Ok C' ∧
    c_name C' = c_name C ∧ inputs (c_g C') = inputs (c_g C) ∧ outputs (c_g C') = outputs (c_g C) ∧ c_bbs C' = c_bbs C ∧
    (∀ v', consistent (c_g C') v' → ∃ v, consistent (c_g C) v ∧ (∃ x : bool, ∀ n, n ∈ of_type (c_g C) (is_ty CX) → v n = x) ∧ agrees (dom (c_g C)) v v') ∧
    (∀ v, consistent (c_g C) v → (∃ x : bool, ∀ n, n ∈ of_type (c_g C) (is_ty CX) → v n = x) → ∃ w, consistent (c_g C') w ∧ agrees (dom (c_g C)) w v).
Proof.
  intros C b π m rsv (Hl & Hg & Hn & _ & Hcl) Hb Hp Hw Hids. rewrite Hb.
  exact (roundtrip_equiv_bbfree_x C b π m rsv _ (lint_clean_rte C rt_flags Hl Hg Hn Hcl Hp) Hb Hw Hids).
Qed.
Print Assumptions C03_roundtrip_equiv_bbfree_x.

(* roundtrip_identical for circuits WITH blackbox instances: connected and unconnected input and output pins, several instances of
   one type, escaped instance names (the AST holds the name), nets shared between instances, a flop output fed back into the logic.
   For every order choice π (ports, registry order, pin order of every instance, node and operand order) and every reserved set that
   contains the identifiers of the text, reading the primitive-style text back succeeds and returns the very same circuit: same nodes
   (pins included), types, edges, output marks, name and registry.  Proof (Proofs/VerilogRtBbProofs.v): the item list is inputs,
   outputs, wires, one named-connection statement per instance (.p(net) / .p(), write_inv_bb), one primitive per gate that is not the
   detached buffer of an output pin; the reader compiles the statement to the dictionary of the connected pins (c_conns_bb);
   add_blackbox succeeds (bb_instance_succ of C02: every add / connect check passes) and makes exactly the pins, placeholders and
   output buffers of the statement (bb_instance_shape, bb_instance_dom, bb_instance_reg); fold invariant Jb / Kb = invariant J of the
   blackbox-free proof extended by the pins made so far, the buffers they drive (final at once: they get no statement) and the
   registry; the gate statements never touch a pin (their operands are no pins); module(); map_eq on graph and registry.
   This is roundtrip_identical_full with the additional hypothesis wf_bb. *)
Theorem C03_roundtrip_identical_bb : ∀ C π m rsv,
  wf_rt C → wf_bb C → no_consts (c_g C) → write C false π = Ok m → list_to_set (module_ids m) ⊆ rsv →
  read rsv (bbdefs_of C) m = Ok C.
Proof.
  intros C π m rsv (Hl & Hg & Hn & Hd & Hcl) (B1 & B2 & B3 & B4 & B5 & _) Hc Hw Hids.
  exact (roundtrip_identical_bb C π m rsv _ (lint_clean_rtb C rt_flags Hl Hg Hn Hd Hcl Hc B1 B2 B3 B4 B5)
           (λ inst d, find_def_registry (c_bbs C) inst d Hd) Hw Hids).
Qed.
Print Assumptions C03_roundtrip_identical_bb.

(* roundtrip_equiv for circuits WITH blackbox instances: both styles, any constants (several x constants included: one shared unknown, as in
   C03_roundtrip_equiv_bbfree_x), connected and unconnected pins, escaped instance names.  For every order choice and every reserved set that
   contains the identifiers of the text the read succeeds and gives a circuit with the same name, inputs, outputs and registry; every
   blackbox input pin of the original is a bb_input node of the read-back circuit attached to the same net (or to none), every output pin
   drives the same net (or none); and the two circuits are equivalent at every output and every blackbox input pin (an unconnected input
   pin is a free node of both circuits that nothing reads: invariant field q_noread of the reader's pin invariant).  This is
   roundtrip_equiv_bb_full (with the type of the input pins in addition).
   Proof (Proofs/VerilogEqBbProofs.v): the written module satisfies every Prop-level guard of C02's lemmas (read_succeeds_bb_items,
   read_bb_pins_items, C02_read_denotes both directions, C02_read_io at lemma level - the gate statements through the blackbox-free shape
   lemmas on the module without its blackbox statements, the blackbox statements directly); the models of the module are the consistent
   valuations of the original restricted to its nets (each emitted statement denotes its node's function; the detached buffer of an
   output pin is an unconstrained net on one side and a buffer of a free pin on the other); pins by bb_ok. *)
Theorem C03_roundtrip_equiv_bb : ∀ C b π m rsv,
  wf_rt C → wf_bb C → write C b π = Ok m → list_to_set (module_ids m) ⊆ rsv →
  ∃ C', read rsv (bbdefs_of C) m = Ok C' ∧
    c_name C' = c_name C ∧ inputs (c_g C') = inputs (c_g C) ∧ outputs (c_g C') = outputs (c_g C) ∧ c_bbs C' = c_bbs C ∧
    (∀ p, p ∈ of_type (c_g C) (is_ty BbIn) → ty (c_g C') p = Some BbIn ∧ fanin (c_g C') p = fanin (c_g C) p) ∧
    (∀ p, p ∈ of_type (c_g C) (is_ty BbOut) → fanout (c_g C') p = fanout (c_g C) p) ∧
    let S := outputs (c_g C) ∪ of_type (c_g C) (is_ty BbIn) in
    (∀ v', consistent (c_g C') v' → ∃ v, consistent (c_g C) v ∧ (∃ x : bool, ∀ n, n ∈ of_type (c_g C) (is_ty CX) → v n = x) ∧ agrees S v v') ∧
    (∀ v, consistent (c_g C) v → (∃ x : bool, ∀ n, n ∈ of_type (c_g C) (is_ty CX) → v n = x) → ∃ w, consistent (c_g C') w ∧ agrees S w v).
Proof.
  intros C b π m rsv (Hl & Hg & Hn & Hd & Hcl) (B1 & B2 & B3 & B4 & B5 & Hno) Hw Hids.
  exact (roundtrip_equiv_bb_ends C b π m rsv (lint_clean_rteb C rt_flags Hl Hg Hn Hd Hcl B1 B2 B3 B4 B5 Hno) Hw Hids).
Qed.
Print Assumptions C03_roundtrip_equiv_bb.
(* the same with the equivalence at EVERY node of the original, pins of both kinds included (an output pin carries the value of the net it
   drives; unconnected pins are free nodes of both circuits that nothing reads) *)
Theorem C03_roundtrip_equiv_bb_nodes : ∀ C b π m rsv,
  wf_rt C → wf_bb C → write C b π = Ok m → list_to_set (module_ids m) ⊆ rsv →
  ∃ C', read rsv (bbdefs_of C) m = Ok C' ∧
    c_name C' = c_name C ∧ inputs (c_g C') = inputs (c_g C) ∧ outputs (c_g C') = outputs (c_g C) ∧ c_bbs C' = c_bbs C ∧
    (∀ p, p ∈ of_type (c_g C) (is_ty BbIn) → ty (c_g C') p = Some BbIn ∧ fanin (c_g C') p = fanin (c_g C) p) ∧
    (∀ p, p ∈ of_type (c_g C) (is_ty BbOut) → fanout (c_g C') p = fanout (c_g C) p) ∧
    (∀ v', consistent (c_g C') v' → ∃ v, consistent (c_g C) v ∧ (∃ x : bool, ∀ n, n ∈ of_type (c_g C) (is_ty CX) → v n = x) ∧ agrees (dom (c_g C)) v v') ∧
    (∀ v, consistent (c_g C) v → (∃ x : bool, ∀ n, n ∈ of_type (c_g C) (is_ty CX) → v n = x) → ∃ w, consistent (c_g C') w ∧ agrees (dom (c_g C)) w v).
Proof.
  intros C b π m rsv (Hl & Hg & Hn & Hd & Hcl) (B1 & B2 & B3 & B4 & B5 & Hno) Hw Hids.
  exact (roundtrip_equiv_bb C b π m rsv (lint_clean_rteb C rt_flags Hl Hg Hn Hd Hcl B1 B2 B3 B4 B5 Hno) Hw Hids).
Qed.
Print Assumptions C03_roundtrip_equiv_bb_nodes.
(* roundtrip_equiv_bb_full, literally *)
Theorem C03_roundtrip_equiv_bb_full : roundtrip_equiv_bb_full.
Proof.
  intros C b π m rsv H1 H2 H3 H4. destruct (C03_roundtrip_equiv_bb C b π m rsv H1 H2 H3 H4) as (C' & R1 & R2 & R3 & R4 & R5 & R6 & R7 & R8).
  exists C'. repeat (split; [done|]). split; [intros p Hp; by destruct (R6 p Hp)|]. split; [done|exact R8].
Qed.
Print Assumptions C03_roundtrip_equiv_bb_full.

(* roundtrip_equiv (its conclusion word for word) for circuits with blackbox instances in the primitive style without constants:
   corollary of C03_roundtrip_identical_bb - the read-back circuit is the original *)
Theorem C03_roundtrip_equiv_bb_prim : ∀ C π m rsv,
  wf_rt C → wf_bb C → no_consts (c_g C) → write C false π = Ok m → list_to_set (module_ids m) ⊆ rsv →
  ∃ C', read rsv (bbdefs_of C) m = Ok C' ∧
    c_name C' = c_name C ∧ inputs (c_g C') = inputs (c_g C) ∧ outputs (c_g C') = outputs (c_g C) ∧ c_bbs C' = c_bbs C ∧
    (∀ p, p ∈ of_type (c_g C) (is_ty BbIn) → fanin (c_g C') p = fanin (c_g C) p) ∧
    (∀ p, p ∈ of_type (c_g C) (is_ty BbOut) → fanout (c_g C') p = fanout (c_g C) p) ∧
    equiv_on (outputs (c_g C) ∪ of_type (c_g C) (is_ty BbIn)) (c_g C) (c_g C').
Proof.
  intros C π m rsv H1 H2 H3 H4 H5. exists C. split; [exact (C03_roundtrip_identical_bb C π m rsv H1 H2 H3 H4 H5)|]. repeat (split; [done|]). apply equiv_on_refl_v.
Qed.
Print Assumptions C03_roundtrip_equiv_bb_prim.

(* non-vacuity: a circuit with a blackbox, a constant and an escaped name satisfies wf_rt, is written and read back *)
Definition ex_C : Circuit := Cases.mk "top"
  [("a", Input, false, []); ("\b[0]", Input, true, []); ("k", C1, false, []);
   ("g", Nand, true, ["a"; "\b[0]"; "k"]); ("ff0.d", BbIn, false, ["g"]); ("ff0.clk", BbIn, false, []);
   ("ff0.q", BbOut, false, []); ("q", Buf, true, ["ff0.q"])]
  [("ff0", Cases.mk_bb "ff" ["clk"; "d"] ["q"])].
Definition ex_ord : worder :=
  {| o_ins := ["a"; "\b[0]"]; o_outs := ["q"; "g"; "\b[0]"]; o_bbs := [("ff0", ["d"; "clk"], ["q"])];
     o_nodes := ["k"; "q"; "g"]; o_fi := [("k", []); ("q", []); ("g", ["k"; "a"; "\b[0]"])] |}.
Example C03_ex_wf : lint ex_C rt_flags = Ok ().
Proof. vm_compute. reflexivity. Qed.
Example C03_ex_roundtrip :
  match write ex_C true ex_ord with
  | Ok m => match read (list_to_set (module_ids m)) (bbdefs_of ex_C) m with
            | Ok C' => bool_decide (c_bbs C' = c_bbs ex_C) && bool_decide (inputs (c_g C') = inputs (c_g ex_C))
                       && bool_decide (outputs (c_g C') = outputs (c_g ex_C))
            | _ => false end
  | _ => false end = true.
Proof. vm_compute. reflexivity. Qed.
(* non-vacuity of C03_roundtrip_identical_bbfree: every hypothesis holds for a circuit with an input that is an output, a
   one-operand nand, a self-referencing name pattern (g_0) and use before definition in the emitted order *)
Definition ex_C2 : Circuit := Cases.mk "top2"
  [("a", Input, true, []); ("b", Input, false, []); ("g_0", Nand, false, ["a"; "b"]); ("n1", Not, true, ["g_0"]);
   ("x1", Xor, true, ["a"; "n1"; "g_0"]); ("o1", Nor, true, ["x1"])] [].
Definition ex_ord2 : worder :=
  {| o_ins := ["b"; "a"]; o_outs := ["x1"; "a"; "o1"; "n1"]; o_bbs := []; o_nodes := ["x1"; "o1"; "n1"; "g_0"];
     o_fi := [("x1", ["n1"; "a"; "g_0"]); ("o1", ["x1"]); ("n1", ["g_0"]); ("g_0", ["b"; "a"])] |}.
Example C03_ex_identical_hyps :
  lint ex_C2 rt_flags = Ok () ∧ closedb (c_g ex_C2) = true ∧ c_bbs ex_C2 = ∅ ∧
  bool_decide (no_pins (c_g ex_C2)) = true ∧ bool_decide (no_consts (c_g ex_C2)) = true ∧
  bool_decide (map_Forall (λ n i, n_ty i ∈ gate_types → n_fi i ≠ ∅) (c_g ex_C2)) = true ∧
  bool_decide (map_Forall (λ n (_ : ninfo), n ≠ "" ∧ starts_digit n = false) (c_g ex_C2)) = true ∧
  match write ex_C2 false ex_ord2 with Ok m => bool_decide (read (list_to_set (module_ids m)) [] m = Ok ex_C2) | _ => false end = true.
Proof. vm_compute. done. Qed.
(* non-vacuity of C03_roundtrip_equiv_bbfree: the hypotheses hold for a circuit with constants, in the assign style *)
Definition ex_C3 : Circuit := Cases.mk "top3"
  [("a", Input, true, []); ("b", Input, false, []); ("k1", C1, false, []); ("z", C0, true, []); ("g_0", Nand, false, ["a"; "b"; "k1"]);
   ("n1", Not, true, ["g_0"]); ("x1", Xnor, true, ["a"; "n1"; "g_0"])] [].
Definition ex_ord3 : worder :=
  {| o_ins := ["b"; "a"]; o_outs := ["x1"; "a"; "z"; "n1"]; o_bbs := []; o_nodes := ["x1"; "z"; "n1"; "k1"; "g_0"];
     o_fi := [("x1", ["n1"; "a"; "g_0"]); ("z", []); ("n1", ["g_0"]); ("k1", []); ("g_0", ["b"; "k1"; "a"])] |}.
Example C03_ex_equiv_hyps :
  lint ex_C3 rt_flags = Ok () ∧ closedb (c_g ex_C3) = true ∧ c_bbs ex_C3 = ∅ ∧
  bool_decide (no_pins (c_g ex_C3)) = true ∧ bool_decide (no_x (c_g ex_C3)) = true ∧
  bool_decide (map_Forall (λ n i, n_ty i ∈ gate_types → n_fi i ≠ ∅) (c_g ex_C3)) = true ∧
  bool_decide (map_Forall (λ n (_ : ninfo), n ≠ "" ∧ starts_digit n = false) (c_g ex_C3)) = true ∧
  match write ex_C3 true ex_ord3 with Ok m => match read (list_to_set (module_ids m)) [] m with Ok _ => true | _ => false end | _ => false end = true.
Proof. vm_compute. done. Qed.

(* non-vacuity of C03_roundtrip_identical_bb: every hypothesis holds for a circuit with two flop instances of one type (one with an
   escaped instance name), connected and unconnected input and output pins, a flop output fed back into the logic and a net shared
   by two instances; the orders differ from the declaration order; the conclusion is also evaluated *)
Definition ex_C4 : Circuit := Cases.mk "top4"
  [("a", Input, false, []); ("clk", Input, true, []); ("g", Nand, true, ["a"; "q"]);
   ("ff0.d", BbIn, false, ["g"]); ("ff0.clk", BbIn, false, ["clk"]); ("ff0.en", BbIn, false, []);
   ("ff0.q", BbOut, false, []); ("ff0.qn", BbOut, false, []); ("q", Buf, false, ["ff0.q"]);
   ("\u[1].d", BbIn, false, ["q"]); ("\u[1].clk", BbIn, false, ["clk"]); ("\u[1].en", BbIn, false, ["a"]);
   ("\u[1].q", BbOut, false, []); ("\u[1].qn", BbOut, false, []); ("q2", Buf, true, ["\u[1].qn"]); ("n1", Not, true, ["q2"])]
  [("ff0", Cases.mk_bb "dff" ["d"; "clk"; "en"] ["q"; "qn"]); ("\u[1]", Cases.mk_bb "dff" ["d"; "clk"; "en"] ["q"; "qn"])].
Definition ex_ord4 : worder :=
  {| o_ins := ["clk"; "a"]; o_outs := ["n1"; "clk"; "q2"; "g"];
     o_bbs := [("\u[1]", ["en"; "d"; "clk"], ["qn"; "q"]); ("ff0", ["clk"; "en"; "d"], ["q"; "qn"])];
     o_nodes := ["n1"; "q"; "g"; "q2"]; o_fi := [("n1", ["q2"]); ("q", []); ("g", ["q"; "a"]); ("q2", [])] |}.
Example C03_ex_identical_bb_hyps : wf_rt ex_C4 ∧ wf_bb ex_C4 ∧ no_consts (c_g ex_C4) ∧
  match write ex_C4 false ex_ord4 with
  | Ok m => bool_decide (read (list_to_set (module_ids m)) (bbdefs_of ex_C4) m = Ok ex_C4) && bool_decide (length (m_items m) = 14)
  | _ => false end = true.
Proof.
  split; [|split; [|split]].
  - split; [vm_compute; reflexivity|]. split; [|split; [|split]].
    + change (map_Forall (λ n i, n_ty i ∈ gate_types → n_fi i ≠ ∅) (c_g ex_C4)). apply (bool_decide_unpack _). vm_compute. exact I.
    + change (set_Forall (λ n, n ≠ "" ∧ starts_digit n = false) (dom (c_g ex_C4))). apply (bool_decide_unpack _). vm_compute. exact I.
    + intros i j d e Hd He. revert j e He. revert i d Hd.
      change (map_Forall (λ (i : string) d, map_Forall (λ (j : string) e, bb_name d = bb_name e → d = e) (c_bbs ex_C4)) (c_bbs ex_C4)).
      apply (bool_decide_unpack _). vm_compute. exact I.
    + apply closedb_spec. vm_compute. reflexivity.
  - pose proof (wf_bb_dec_sound (c_g ex_C4) (c_bbs ex_C4) ltac:(apply (bool_decide_unpack _); vm_compute; exact I)) as (P1 & P2 & P3 & P4 & P5).
    split; [exact P1|]. split; [exact P2|]. split; [exact P3|]. split; [exact P4|]. split; [exact P5|].
    change (map_Forall (λ (n : string) i, n_ty i = BbIn ∨ n_ty i = BbOut → n_out i = false) (c_g ex_C4)). apply (bool_decide_unpack _). vm_compute. exact I.
  - apply (bool_decide_unpack _). vm_compute. exact I.
  - vm_compute. reflexivity.
Qed.

(* non-vacuity of C03_roundtrip_equiv_bbfree_x: the hypotheses hold for a circuit with two x constants (one of them an output), a 0 and a 1 *)
Definition ex_C5 : Circuit := Cases.mk "top5"
  [("a", Input, true, []); ("u", CX, true, []); ("w", CX, false, []); ("k1", C1, false, []); ("z", C0, false, []);
   ("g_0", Xor, true, ["a"; "u"; "w"]); ("n1", Nor, true, ["g_0"; "k1"; "z"]); ("b1", Buf, true, ["w"])] [].
Definition ex_ord5 : worder :=
  {| o_ins := ["a"]; o_outs := ["b1"; "u"; "n1"; "a"; "g_0"]; o_bbs := []; o_nodes := ["n1"; "w"; "b1"; "z"; "g_0"; "u"; "k1"];
     o_fi := [("n1", ["z"; "g_0"; "k1"]); ("w", []); ("b1", ["w"]); ("z", []); ("g_0", ["w"; "a"; "u"]); ("u", []); ("k1", [])] |}.
Example C03_ex_equiv_x_hyps :
  lint ex_C5 rt_flags = Ok () ∧ closedb (c_g ex_C5) = true ∧ c_bbs ex_C5 = ∅ ∧ bool_decide (no_pins (c_g ex_C5)) = true ∧
  bool_decide (size (of_type (c_g ex_C5) (is_ty CX)) = 2) = true ∧
  bool_decide (map_Forall (λ n i, n_ty i ∈ gate_types → n_fi i ≠ ∅) (c_g ex_C5)) = true ∧
  bool_decide (map_Forall (λ n (_ : ninfo), n ≠ "" ∧ starts_digit n = false) (c_g ex_C5)) = true ∧
  match write ex_C5 true ex_ord5, write ex_C5 false ex_ord5 with
  | Ok m, Ok m' => match read (list_to_set (module_ids m)) [] m, read (list_to_set (module_ids m')) [] m' with Ok _, Ok _ => true | _, _ => false end
  | _, _ => false end = true.
Proof. vm_compute. done. Qed.

(* non-vacuity of C03_roundtrip_equiv_bb: the hypotheses hold for the flop circuit above extended by a 1 on an enable pin, an x constant in
   the logic and an output x constant; both styles are written and read back with the same registry *)
Definition ex_C6 : Circuit := Cases.mk "top6"
  [("a", Input, false, []); ("clk", Input, true, []); ("k1", C1, false, []); ("u", CX, false, []); ("w", CX, true, []); ("g", Nand, true, ["a"; "q"; "u"]);
   ("ff0.d", BbIn, false, ["g"]); ("ff0.clk", BbIn, false, ["clk"]); ("ff0.en", BbIn, false, ["k1"]);
   ("ff0.q", BbOut, false, []); ("ff0.qn", BbOut, false, []); ("q", Buf, false, ["ff0.q"]);
   ("\u[1].d", BbIn, false, ["q"]); ("\u[1].clk", BbIn, false, ["clk"]); ("\u[1].en", BbIn, false, []);
   ("\u[1].q", BbOut, false, []); ("\u[1].qn", BbOut, false, []); ("q2", Buf, true, ["\u[1].qn"]); ("n1", Xnor, true, ["q2"; "w"])]
  [("ff0", Cases.mk_bb "dff" ["d"; "clk"; "en"] ["q"; "qn"]); ("\u[1]", Cases.mk_bb "dff" ["d"; "clk"; "en"] ["q"; "qn"])].
Definition ex_ord6 : worder :=
  {| o_ins := ["clk"; "a"]; o_outs := ["n1"; "clk"; "q2"; "g"; "w"];
     o_bbs := [("\u[1]", ["en"; "d"; "clk"], ["qn"; "q"]); ("ff0", ["clk"; "en"; "d"], ["q"; "qn"])];
     o_nodes := ["n1"; "q"; "u"; "g"; "k1"; "q2"; "w"];
     o_fi := [("n1", ["w"; "q2"]); ("q", []); ("u", []); ("g", ["q"; "u"; "a"]); ("k1", []); ("q2", []); ("w", [])] |}.
Example C03_ex_equiv_bb_hyps : wf_rt ex_C6 ∧ wf_bb ex_C6 ∧
  match write ex_C6 true ex_ord6, write ex_C6 false ex_ord6 with
  | Ok m, Ok m' => match read (list_to_set (module_ids m)) (bbdefs_of ex_C6) m, read (list_to_set (module_ids m')) (bbdefs_of ex_C6) m' with
                   | Ok C1', Ok C2' => bool_decide (c_bbs C1' = c_bbs ex_C6) && bool_decide (c_bbs C2' = c_bbs ex_C6) &&
                                       bool_decide (fanin (c_g C1') "ff0.en" = {["k1"]}) && bool_decide (fanin (c_g C2') "\u[1].en" = ∅) && bool_decide (size (of_type (c_g ex_C6) (is_ty BbIn)) = 6)
                   | _, _ => false end
  | _, _ => false end = true.
Proof.
  split; [|split].
  - split; [vm_compute; reflexivity|]. split; [|split; [|split]].
    + change (map_Forall (λ n i, n_ty i ∈ gate_types → n_fi i ≠ ∅) (c_g ex_C6)). apply (bool_decide_unpack _). vm_compute. exact I.
    + change (set_Forall (λ n, n ≠ "" ∧ starts_digit n = false) (dom (c_g ex_C6))). apply (bool_decide_unpack _). vm_compute. exact I.
    + intros i j d e Hd He. revert j e He. revert i d Hd.
      change (map_Forall (λ (i : string) d, map_Forall (λ (j : string) e, bb_name d = bb_name e → d = e) (c_bbs ex_C6)) (c_bbs ex_C6)).
      apply (bool_decide_unpack _). vm_compute. exact I.
    + apply closedb_spec. vm_compute. reflexivity.
  - pose proof (wf_bb_dec_sound (c_g ex_C6) (c_bbs ex_C6) ltac:(apply (bool_decide_unpack _); vm_compute; exact I)) as (P1 & P2 & P3 & P4 & P5).
    split; [exact P1|]. split; [exact P2|]. split; [exact P3|]. split; [exact P4|]. split; [exact P5|].
    change (map_Forall (λ (n : string) i, n_ty i = BbIn ∨ n_ty i = BbOut → n_out i = false) (c_g ex_C6)). apply (bool_decide_unpack _). vm_compute. exact I.
  - vm_compute. reflexivity.
Qed.

(* roundtrip_identical_full and roundtrip_equiv_full are NOT theorems as they stand: wf_rt (lint-clean, names non-empty and not digit-led) does
   not yet say that the names are identifiers of the text.  A blackbox whose type is called like a primitive gate satisfies wf_rt, the
   writer emits `and u (.a(x), .y(q));`, and the reader (real and model alike: primitive names are checked first) rejects the named
   connections of a primitive.  wf_bb excludes this; C03_roundtrip_identical_bb / C03_roundtrip_equiv_bb are the statements with wf_bb. *)
Definition ex_bad : Circuit := Cases.mk "t"
  [("x", Input, false, []); ("u.a", BbIn, false, ["x"]); ("u.y", BbOut, false, []); ("q", Buf, true, ["u.y"])] [("u", Cases.mk_bb "and" ["a"] ["y"])].
Definition ex_bad_ord : worder := {| o_ins := ["x"]; o_outs := ["q"]; o_bbs := [("u", ["a"], ["y"])]; o_nodes := ["q"]; o_fi := [("q", [])] |}.
Theorem C03_full_statements_need_wf_bb : ¬ roundtrip_identical_full ∧ ¬ roundtrip_equiv_full.
Proof.
  assert (Hwf : wf_rt ex_bad).
  { split; [vm_compute; reflexivity|]. split; [|split; [|split]].
    - change (map_Forall (λ n i, n_ty i ∈ gate_types → n_fi i ≠ ∅) (c_g ex_bad)). apply (bool_decide_unpack _). vm_compute. exact I.
    - change (set_Forall (λ n, n ≠ "" ∧ starts_digit n = false) (dom (c_g ex_bad))). apply (bool_decide_unpack _). vm_compute. exact I.
    - intros i j d e Hd He. revert j e He. revert i d Hd.
      change (map_Forall (λ (i : string) d, map_Forall (λ (j : string) e, bb_name d = bb_name e → d = e) (c_bbs ex_bad)) (c_bbs ex_bad)).
      apply (bool_decide_unpack _). vm_compute. exact I.
    - apply closedb_spec. vm_compute. reflexivity. }
  assert (Hnc : no_consts (c_g ex_bad)) by (apply (bool_decide_unpack _); vm_compute; exact I).
  destruct (write ex_bad false ex_bad_ord) as [m| | |] eqn:Ew; try (vm_compute in Ew; discriminate).
  split; intros H.
  - specialize (H ex_bad ex_bad_ord m (list_to_set (module_ids m)) Hwf Hnc Ew (reflexivity _)).
    vm_compute in Ew. injection Ew as <-. vm_compute in H. discriminate.
  - destruct (H ex_bad false ex_bad_ord m (list_to_set (module_ids m)) Hwf Ew (reflexivity _)) as (C' & Hr & _).
    vm_compute in Ew. injection Ew as <-. vm_compute in Hr. discriminate.
Qed.
Print Assumptions C03_full_statements_need_wf_bb.
