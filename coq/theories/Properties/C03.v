(* C03 -- Verilog write -> read round trip.  Statements only; proofs in Proofs/VerilogProofs.v. *)
From CG Require Import Verilog.ExprParse.
From stdpp Require Import strings gmap sets.
From CG Require Import Types Sem Model.Lint Api Verilog.Ast Verilog.Read Verilog.Write Proofs.VerilogProofs.
Open Scope string_scope.

(* well-formed circuits of the property: lint-clean (blackbox pins may be open), names usable as identifier tokens,
   one definition per blackbox name *)
Definition rt_flags := {| fail_fast := true; unloaded := false; undriven := false; single_in := false |}.
Definition wf_rt (C : Circuit) : Prop :=
  lint C rt_flags = Ok () ∧
  (∀ n i, c_g C !! n = Some i → n_ty i ∈ gate_types → n_fi i ≠ ∅) ∧
  (∀ n, n ∈ dom (c_g C) → n ≠ "" ∧ starts_digit n = false) ∧
  (∀ i j d e, c_bbs C !! i = Some d → c_bbs C !! j = Some e → bb_name d = bb_name e → d = e).
Definition bbdefs_of (C : Circuit) : list bbdef := (map_to_list (c_bbs C)).*2.
Definition no_consts (g : circuit) : Prop := of_type g (λ t, bool_decide (t ∈ const_types)) = ∅.

(* full statements (validated per generated circuit by Run_C03.holds, not proved) *)
Definition roundtrip_equiv_full : Prop := ∀ C b π m rsv,
  wf_rt C → write C b π = Ok m → list_to_set (module_ids m) ⊆ rsv →
  ∃ C', read rsv (bbdefs_of C) m = Ok C' ∧
    c_name C' = c_name C ∧ inputs (c_g C') = inputs (c_g C) ∧ outputs (c_g C') = outputs (c_g C) ∧ c_bbs C' = c_bbs C ∧
    (∀ p, p ∈ of_type (c_g C) (is_ty BbIn) → fanin (c_g C') p = fanin (c_g C) p) ∧
    (∀ p, p ∈ of_type (c_g C) (is_ty BbOut) → fanout (c_g C') p = fanout (c_g C) p) ∧
    equiv_on (outputs (c_g C) ∪ of_type (c_g C) (is_ty BbIn)) (c_g C) (c_g C').
Definition roundtrip_identical_full : Prop := ∀ C π m rsv,
  wf_rt C → no_consts (c_g C) → write C false π = Ok m → list_to_set (module_ids m) ⊆ rsv →
  read rsv (bbdefs_of C) m = Ok C.
