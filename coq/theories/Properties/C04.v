(* C04 -- miter output is 1 exactly when the compared circuits differ.  Statements only; proofs in Proofs/MiterProofs.v. *)
From stdpp Require Import strings gmap sets.
From CG Require Import Model.Miter.
Open Scope string_scope.
