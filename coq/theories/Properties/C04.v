(* C04 -- miter output is 1 exactly when the compared circuits differ.  Statements only; proofs in Proofs/MiterProofs.v,
   Proofs/MiterEquiv.v.  `miter Ca Cbo So Eo` is the model of tx.miter(c0, c1, startpoints, endpoints) written through the API
   model; `second`, `miter_S`, `miter_E` are the defaults the code applies (c1 omitted or empty -> c0; None or an empty
   collection -> startpoints / endpoints present in both). *)
From stdpp Require Import strings gmap sets.
From CG Require Import Base.Cases Base.Compose Model.Miter Proofs.MiterProofs Proofs.MiterEquiv.
From CG Require Model.Lint Proofs.MiterLint.
Open Scope string_scope.

(* structure, for every accepted call (any c1 / startpoints / endpoints, defaults included): both circuits are blackbox-free, the
   result has no blackboxes, its inputs are exactly the tied startpoints, `sat` is its only output, and its nodes are the tied
   inputs, the two prefixed copies, `sat`, and one dif_e per compared node. *)
Theorem C04_miter_struct : ∀ Ca Cbo So Eo M,
  miter Ca Cbo So Eo = Ok M →
  let Cb := second Ca Cbo in let S := miter_S Ca Cb So in let E := miter_E Ca Cb Eo in
  c_bbs Ca = ∅ ∧ c_bbs Cb = ∅ ∧ c_bbs M = ∅ ∧ NoDup S ∧ NoDup E ∧
  inputs (c_g M) = list_to_set S ∧ outputs (c_g M) = {["sat"]} ∧
  dom (c_g M) = list_to_set S ∪ set_map (pre "c0") (dom (c_g Ca)) ∪ set_map (pre "c1") (dom (c_g Cb))
                ∪ {["sat"]} ∪ list_to_set (pre "dif" <$> E).
Proof. exact miter_struct_gen. Qed.
Print Assumptions C04_miter_struct.

(* semantics, for every accepted call whose tied startpoints are primary inputs of both circuits: the consistent valuations of the
   miter are exactly those whose pull-backs along c0_ / c1_ are consistent for the (io-stripped) circuits -- so untied startpoints
   of each copy are independent free signals --, in which every tied startpoint is shared by both copies, every dif_e is the xor of
   the two copies of e, and sat is 1 iff some dif_e is 1 (for an empty comparison: sat = 0). *)
Theorem C04_miter : ∀ Ca Cbo So Eo M,
  miter Ca Cbo So Eo = Ok M →
  let Cb := second Ca Cbo in let S := miter_S Ca Cb So in let E := miter_E Ca Cb Eo in
  list_to_set S ⊆ inputs (c_g Ca) ∩ inputs (c_g Cb) →
  ∀ v, consistent (c_g M) v ↔
    consistent (strip_io (c_g Ca)) (v ∘ pre "c0") ∧ consistent (strip_io (c_g Cb)) (v ∘ pre "c1") ∧
    (∀ s, s ∈ S → v (pre "c0" s) = v s ∧ v (pre "c1" s) = v s) ∧
    (∀ e, e ∈ E → v (pre "dif" e) = xorb (v (pre "c0" e)) (v (pre "c1" e))) ∧
    (v "sat" = true ↔ ∃ e, e ∈ E ∧ v (pre "dif" e) = true).
Proof. exact miter_sem_gen. Qed.
Print Assumptions C04_miter.

(* the headline: under any consistent valuation, sat is 1 exactly when some compared node differs between the copies *)
Theorem C04_sat_iff_differ : ∀ Ca Cbo So Eo M,
  miter Ca Cbo So Eo = Ok M →
  let Cb := second Ca Cbo in let S := miter_S Ca Cb So in let E := miter_E Ca Cb Eo in
  list_to_set S ⊆ inputs (c_g Ca) ∩ inputs (c_g Cb) →
  ∀ v, consistent (c_g M) v → (v "sat" = true ↔ ∃ e, e ∈ E ∧ v (pre "c0" e) ≠ v (pre "c1" e)).
Proof. exact miter_sat_iff_differ_gen. Qed.
Print Assumptions C04_sat_iff_differ.

(* the instances named in the property text, in the shape of DESIGN.md appendix C *)
Theorem C04_miter_explicit : ∀ Ca Cb S E M,
  c_g Cb ≠ ∅ → S ≠ [] → E ≠ [] →
  list_to_set S ⊆ inputs (c_g Ca) ∩ inputs (c_g Cb) →
  miter Ca (Some Cb) (Some S) (Some E) = Ok M →
  ∀ v, consistent (c_g M) v ↔
    consistent (strip_io (c_g Ca)) (v ∘ pre "c0") ∧ consistent (strip_io (c_g Cb)) (v ∘ pre "c1") ∧
    (∀ s, s ∈ S → v (pre "c0" s) = v s ∧ v (pre "c1" s) = v s) ∧
    (∀ e, e ∈ E → v (pre "dif" e) = xorb (v (pre "c0" e)) (v (pre "c1" e))) ∧
    (v "sat" = true ↔ ∃ e, e ∈ E ∧ v (pre "dif" e) = true).
Proof. exact miter_sem. Qed.
Print Assumptions C04_miter_explicit.

Theorem C04_self_miter : ∀ Ca S E M,
  S ≠ [] → E ≠ [] → list_to_set S ⊆ inputs (c_g Ca) →
  miter Ca None (Some S) (Some E) = Ok M →
  ∀ v, consistent (c_g M) v ↔
    consistent (strip_io (c_g Ca)) (v ∘ pre "c0") ∧ consistent (strip_io (c_g Ca)) (v ∘ pre "c1") ∧
    (∀ s, s ∈ S → v (pre "c0" s) = v s ∧ v (pre "c1" s) = v s) ∧
    (∀ e, e ∈ E → v (pre "dif" e) = xorb (v (pre "c0" e)) (v (pre "c1" e))) ∧
    (v "sat" = true ↔ ∃ e, e ∈ E ∧ v (pre "dif" e) = true).
Proof. exact miter_self_sem. Qed.
Print Assumptions C04_self_miter.

Theorem C04_default_miter : ∀ Ca Cb M,
  c_g Cb ≠ ∅ →
  startpoints (c_g Ca) ∩ startpoints (c_g Cb) ⊆ inputs (c_g Ca) ∩ inputs (c_g Cb) →
  miter Ca (Some Cb) None None = Ok M →
  let S := startpoints (c_g Ca) ∩ startpoints (c_g Cb) in
  let E := endpoints (c_g Ca) ∩ endpoints (c_g Cb) in
  ∀ v, consistent (c_g M) v ↔
    consistent (strip_io (c_g Ca)) (v ∘ pre "c0") ∧ consistent (strip_io (c_g Cb)) (v ∘ pre "c1") ∧
    (∀ s, s ∈ S → v (pre "c0" s) = v s ∧ v (pre "c1" s) = v s) ∧
    (∀ e, e ∈ E → v (pre "dif" e) = xorb (v (pre "c0" e)) (v (pre "c1" e))) ∧
    (v "sat" = true ↔ ∃ e, e ∈ E ∧ v (pre "dif" e) = true).
Proof. exact miter_default_sem. Qed.
Print Assumptions C04_default_miter.

(* nothing to compare: sat is constant 0 (fix aeab334; before it `sat` was an undriven buffer, i.e. a free variable) *)
Theorem C04_nothing_compared : ∀ Ca Cb S M,
  c_g Cb ≠ ∅ → S ≠ [] →
  list_to_set S ⊆ inputs (c_g Ca) ∩ inputs (c_g Cb) →
  endpoints (c_g Ca) ∩ endpoints (c_g Cb) = ∅ →
  miter Ca (Some Cb) (Some S) None = Ok M →
  ∀ v, consistent (c_g M) v → v "sat" = false.
Proof. exact miter_sem_empty. Qed.
Print Assumptions C04_nothing_compared.

(* "Consequently": a consistent valuation of the miter with sat = 1 exists iff the two circuits can differ on a compared node
   while agreeing on the tied startpoints (everything else, in particular the untied startpoints, chosen independently).
   Side conditions: both circuits closed with undriven inputs (lint-clean), tied startpoints are inputs of both, compared nodes
   exist in both (the documented precondition; without it the statement is false for colliding names, see docs/C04.md). *)
Theorem C04_sat_possible_iff_differ : ∀ Ca Cbo So Eo M,
  let Cb := second Ca Cbo in let S := miter_S Ca Cb So in let E := miter_E Ca Cb Eo in
  closed (c_g Ca) → closed (c_g Cb) →
  (∀ n i, c_g Ca !! n = Some i → n_ty i = Input → n_fi i = ∅) →
  (∀ n i, c_g Cb !! n = Some i → n_ty i = Input → n_fi i = ∅) →
  list_to_set S ⊆ inputs (c_g Ca) ∩ inputs (c_g Cb) →
  list_to_set E ⊆ dom (c_g Ca) ∩ dom (c_g Cb) →
  miter Ca Cbo So Eo = Ok M →
  (∃ v, consistent (c_g M) v ∧ v "sat" = true) ↔
  (∃ v0 v1, consistent (c_g Ca) v0 ∧ consistent (c_g Cb) v1 ∧ (∀ s, s ∈ S → v0 s = v1 s) ∧
            ∃ e, e ∈ E ∧ v0 e ≠ v1 e).
Proof. exact miter_sat_possible_iff. Qed.
Print Assumptions C04_sat_possible_iff_differ.

(* ... which is how equivalence is decided: for ANY sound and complete decision procedure `solve c n` ("is there a consistent
   valuation of c with n = 1", i.e. sat.solve(c, {n: True}) is not False; C01 is the statement that sat.solve is one),
   solve(miter, sat) is False iff the circuits agree on every compared node for all valuations that agree on the tied startpoints. *)
Theorem C04_unsat_iff_equivalent : ∀ (solve : circuit → string → bool),
  (∀ c n, solve c n = true → ∃ v, consistent c v ∧ v n = true) →
  (∀ c n v, consistent c v → v n = true → solve c n = true) →
  ∀ Ca Cbo So Eo M,
  let Cb := second Ca Cbo in let S := miter_S Ca Cb So in let E := miter_E Ca Cb Eo in
  closed (c_g Ca) → closed (c_g Cb) →
  (∀ n i, c_g Ca !! n = Some i → n_ty i = Input → n_fi i = ∅) →
  (∀ n i, c_g Cb !! n = Some i → n_ty i = Input → n_fi i = ∅) →
  list_to_set S ⊆ inputs (c_g Ca) ∩ inputs (c_g Cb) →
  list_to_set E ⊆ dom (c_g Ca) ∩ dom (c_g Cb) →
  miter Ca Cbo So Eo = Ok M →
  solve (c_g M) "sat" = false ↔
  ∀ v0 v1, consistent (c_g Ca) v0 → consistent (c_g Cb) v1 → (∀ s, s ∈ S → v0 s = v1 s) →
           ∀ e, e ∈ E → v0 e = v1 e.
Proof. exact miter_unsat_iff_equiv. Qed.
Print Assumptions C04_unsat_iff_equivalent.

(* C20's second clause for this producer (lint = Model/Lint.v, the model of utils.lint proved equivalent to the documented rule list in
   C20): the miter of two lint-clean circuits is lint-clean under the default flags when the tied startpoints are exactly the inputs of
   both circuits (same interface, every input tied).  The hypothesis is necessary: an untied input is an undriven buffer c1_b, which
   lint reports -- observed on the real code. *)
Theorem C04_miter_lint_clean : ∀ Ca Cbo So Eo M,
  miter Ca Cbo So Eo = Ok M →
  let Cb := second Ca Cbo in let S := miter_S Ca Cb So in
  Lint.lint_clean Ca → Lint.lint_clean Cb →
  list_to_set S = inputs (c_g Ca) → list_to_set S = inputs (c_g Cb) →
  Lint.lint_clean M.
Proof. exact MiterLint.miter_lint_clean. Qed.
Print Assumptions C04_miter_lint_clean.

(* the default call on two circuits with the same inputs, and the self-miter *)
Theorem C04_default_miter_lint_clean : ∀ Ca Cb M,
  c_g Cb ≠ ∅ →
  miter Ca (Some Cb) None None = Ok M →
  Lint.lint_clean Ca → Lint.lint_clean Cb →
  inputs (c_g Ca) = inputs (c_g Cb) →
  of_type (c_g Ca) (is_ty BbOut) = ∅ → of_type (c_g Cb) (is_ty BbOut) = ∅ →
  Lint.lint_clean M.
Proof. exact MiterLint.miter_default_lint_clean. Qed.
Print Assumptions C04_default_miter_lint_clean.

Theorem C04_self_miter_lint_clean : ∀ Ca M,
  miter Ca None None None = Ok M →
  Lint.lint_clean Ca → of_type (c_g Ca) (is_ty BbOut) = ∅ →
  Lint.lint_clean M.
Proof. exact MiterLint.miter_self_lint_clean. Qed.
Print Assumptions C04_self_miter_lint_clean.

(* non-vacuity: a xor and its nand/or realisation, tied on a, compared on o; the call is accepted and the hypotheses hold *)
Definition exA := mk "a" [("a", Input, false, []); ("b", Input, false, []); ("o", Xor, true, ["a"; "b"])] [].
Definition exB := mk "b" [("a", Input, false, []); ("b", Input, false, []); ("n", Nand, false, ["a"; "b"]); ("r", Or, false, ["a"; "b"]);
                          ("o", And, true, ["n"; "r"])] [].
Example C04_example_accepted :
  rmap (λ M, (size (c_g M), elements (inputs (c_g M)))) (miter exA (Some exB) (Some ["a"]) (Some ["o"])) = Ok (11, ["a"]).
Proof. vm_compute. reflexivity. Qed.
Example C04_example_hyps :
  c_g exB ≠ ∅ ∧ list_to_set ["a"] ⊆ inputs (c_g exA) ∩ inputs (c_g exB) ∧ list_to_set ["o"] ⊆ dom (c_g exA) ∩ dom (c_g exB) ∧
  closed (c_g exA) ∧ closed (c_g exB) ∧
  map_Forall (λ _ i, n_ty i = Input → n_fi i = ∅) (c_g exA) ∧ map_Forall (λ _ i, n_ty i = Input → n_fi i = ∅) (c_g exB).
Proof. repeat split; try (apply closedb_spec); apply (bool_decide_unpack _); vm_compute; exact I. Qed.
Example C04_example_lint_hyps :
  Lint.lint_clean exA ∧ Lint.lint_clean exB ∧ inputs (c_g exA) = inputs (c_g exB) ∧
  of_type (c_g exA) (is_ty BbOut) = ∅ ∧ of_type (c_g exB) (is_ty BbOut) = ∅ ∧
  rmap (λ M, size (c_g M)) (miter exA (Some exB) None None) = Ok 12.
Proof. repeat split; try (apply (bool_decide_unpack _)); vm_compute; first [exact I | reflexivity]. Qed.
