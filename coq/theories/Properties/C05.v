(* C05 -- statements only; proofs in Proofs/LimitProofs.v. *)
From stdpp Require Import strings gmap sets.
From CG Require Import Model.Limit Proofs.LimitProofs.
Open Scope string_scope.

Theorem C05_tables_ok : limit_tables_ok gen_limit_tables = true.
Proof. vm_compute. reflexivity. Qed.
Print Assumptions C05_tables_ok.
