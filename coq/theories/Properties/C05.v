(* C05 -- fan-in / fan-out limiting and register insertion preserve function.
   Statements only; proofs in Proofs/LimitProofs.v.  Models: Model/Limit.v (run validators over the regenerated
   Gen_limit tables).  `closed` is the networkx representation invariant "edge endpoints are nodes". *)
From stdpp Require Import strings gmap sets.
From CG Require Import Model.Limit Proofs.LimitProofs Proofs.LimitLint Proofs.LimitTotal Proofs.LimitApi Proofs.LimitApiRegs Proofs.LimitRegsLint Proofs.LimitRegsGen Proofs.LimitRegsGenLint Proofs.LimitUnrollAcyclic Model.AcyclicUnroll Proofs.AcyclicUnrollTotal Base.Oracle.
Open Scope string_scope.

(* obligation on the tables regenerated from tx.py: for every multi-input type t, gatemap t is the non-inverting
   two-operand gate of t's family (and, or, xor); no other keys; limit_fanout's helper is a buffer; both guards are k < 2 *)
Theorem C05_tables_ok : limit_tables_ok gen_limit_tables = true.
Proof. vm_compute. reflexivity. Qed.
Print Assumptions C05_tables_ok.

(* limit_fanin: every execution accepted by the validator (any visiting order of the nodes, any choice of the two
   operands popped in each iteration) returns a circuit with the same inputs and outputs, fan-in at most k everywhere,
   and exactly the behaviours of c on the nodes of c (both directions).  No acyclicity or lint hypothesis
   (lint-clean inputs are a special case; cyclic circuits are covered because `consistent` is relational). *)
Theorem C05_limit_fanin : ∀ C k steps C', closed (c_g C) → limit_fanin_run C k steps = Ok C' →
  2 ≤ k ∧ inputs (c_g C') = inputs (c_g C) ∧ outputs (c_g C') = outputs (c_g C) ∧
  (∀ n, size (fanin (c_g C') n) ≤ k) ∧ equiv_on (dom (c_g C)) (c_g C) (c_g C') ∧
  closed (c_g C') ∧ dom (c_g C) ⊆ dom (c_g C') ∧ c_bbs C' = c_bbs C ∧ c_name C' = c_name C.
Proof. intros C k steps C' Hcl H. destruct (limit_fanin_spec _ C k steps C' C05_tables_ok Hcl H) as (?&?&?&?&?&?&?&?&?). done. Qed.
Print Assumptions C05_limit_fanin.

Theorem C05_limit_fanin_rejects : ∀ C k steps, k < 2 → limit_fanin_run C k steps = Raise ValueError.
Proof. intros. by apply limit_fanin_rejects; [exact C05_tables_ok|]. Qed.
Print Assumptions C05_limit_fanin_rejects.

Theorem C05_limit_fanout : ∀ C k steps C', closed (c_g C) → limit_fanout_run C k steps = Ok C' →
  2 ≤ k ∧ inputs (c_g C') = inputs (c_g C) ∧ outputs (c_g C') = outputs (c_g C) ∧
  (∀ n, size (fanout (c_g C') n) ≤ k) ∧ equiv_on (dom (c_g C)) (c_g C) (c_g C') ∧
  closed (c_g C') ∧ dom (c_g C) ⊆ dom (c_g C') ∧ c_bbs C' = c_bbs C ∧ c_name C' = c_name C.
Proof. intros C k steps C' Hcl H. destruct (limit_fanout_spec _ C k steps C' C05_tables_ok Hcl H) as (?&?&?&?&?&?&?&?&?). done. Qed.
Print Assumptions C05_limit_fanout.

Theorem C05_limit_fanout_rejects : ∀ C k steps, k < 2 → limit_fanout_run C k steps = Raise ValueError.
Proof. intros. by apply limit_fanout_rejects; [exact C05_tables_ok|]. Qed.
Print Assumptions C05_limit_fanout_rejects.

(* insert_registers (default flop, ports, suffix), for every iteration order of the graph: outputs unchanged, inputs gain at
   most the clock, and with every inserted flop transparent (v ff.q = v ff.d) the result has exactly the behaviours of c
   on the nodes of c: a transparent behaviour of the result IS a behaviour of c, and every behaviour of c extends to one. *)
Theorem C05_insert_registers : ∀ C s order C', closed (c_g C) → bb_free C → insert_registers C s order = Ok C' →
  outputs (c_g C') = outputs (c_g C) ∧ inputs (c_g C) ⊆ inputs (c_g C') ∧ inputs (c_g C') ⊆ inputs (c_g C) ∪ {[clk_name]} ∧
  (∀ v', consistent (c_g C') v' → transparent C' v' → ∃ v, consistent (c_g C) v ∧ agrees (dom (c_g C)) v v') ∧
  (∀ v, consistent (c_g C) v → ∃ v', consistent (c_g C') v' ∧ transparent C' v' ∧ agrees (dom (c_g C)) v v').
Proof.
  intros C s order C' Hcl Hbb H. destruct (insert_registers_spec C s order C' Hcl Hbb H) as (_ & _ & Ho & Hi & Hi' & HA & HB).
  split_and!; try done.
  - intros v' Hv' Ht. exists v'. split; [by apply HA|by intros ? ?].
  - intros v Hv. destruct (HB v Hv) as (v' & ? & ? & Ha). exists v'. split_and!; try done. intros n Hn. symmetry. by apply Ha.
Qed.
Print Assumptions C05_insert_registers.

(* DESIGN.md appendix C additionally asks for lint-cleanness of the result (C20's second clause for these two functions):
   a lint-clean circuit stays lint-clean, for every accepted run *)
Theorem C05_limit_fanin_lint_clean : ∀ C k steps C', closed (c_g C) → lint_clean C →
  limit_fanin_run C k steps = Ok C' → lint_clean C'.
Proof. intros C k steps C'. exact (limit_fanin_lint _ C k steps C' C05_tables_ok). Qed.
Print Assumptions C05_limit_fanin_lint_clean.
Theorem C05_limit_fanout_lint_clean : ∀ C k steps C', closed (c_g C) → lint_clean C →
  limit_fanout_run C k steps = Ok C' → lint_clean C'.
Proof. intros C k steps C'. exact (limit_fanout_lint _ C k steps C' C05_tables_ok). Qed.
Print Assumptions C05_limit_fanout_lint_clean.

(* tie through the validated API model: the correspondence check replays every implementation run through
   `limit_fanin_run_api` / `limit_fanout_run_api`, which are written with Base/Api.v's disconnect_g / add_g(uid) / connect_g;
   whenever those return a circuit, the direct validators (about which the theorems above speak) return the same circuit *)
Theorem C05_limit_fanin_api : ∀ C k steps C', closed (c_g C) → limit_fanin_run_api C k steps = Ok C' → limit_fanin_run C k steps = Ok C'.
Proof. intros C k steps C'. exact (limit_fanin_run_api_sound C k steps C' C05_tables_ok). Qed.
Print Assumptions C05_limit_fanin_api.
Theorem C05_limit_fanout_api : ∀ C k steps C', closed (c_g C) → limit_fanout_run_api C k steps = Ok C' → limit_fanout_run C k steps = Ok C'.
Proof. intros C k steps C'. exact (limit_fanout_run_api_sound C k steps C' C05_tables_ok). Qed.
Print Assumptions C05_limit_fanout_api.

(* insert_registers with its default arguments, written with disconnect_g / add_g(uid) / add_blackbox (pins, connections) *)
Theorem C05_insert_registers_api : ∀ C s order C', closed (c_g C) →
  insert_registers_api default_reg_args C s order = Ok C' → insert_registers C s order = Ok C'.
Proof. exact insert_registers_api_sound. Qed.
Print Assumptions C05_insert_registers_api.

(* insert_registers with ANY flop, d_port, q_port, other_flop_io, q_suffix and num_stages (the API-level model that `agree` replays),
   within the guards `args_ok` (recorded port orders are the flop's port sets, inputs and outputs disjoint, d_port an input, q_port an
   output, other_flop_io keys are distinct input ports other than d_port) and `values_ok` (its values are nodes of c or its own keys):
   outputs unchanged, inputs gain at most the other_flop_io keys, and with every inserted flop transparent (v ff.<q> = v ff.<d>) the
   result has exactly the behaviours of c on the nodes of c *)
Theorem C05_insert_registers_any_args : ∀ A C s order C', args_ok A → closed (c_g C) → bb_free C → values_ok A (c_g C) →
  insert_registers_api A C s order = Ok C' →
  outputs (c_g C') = outputs (c_g C) ∧ inputs (c_g C) ⊆ inputs (c_g C') ∧
  inputs (c_g C') ⊆ inputs (c_g C) ∪ list_to_set (fst <$> ra_other A) ∧
  (∀ v', consistent (c_g C') v' → transparent_gen (ra_d A) (ra_q A) C' v' → consistent (c_g C) v') ∧
  (∀ v, consistent (c_g C) v → ∃ v', consistent (c_g C') v' ∧ transparent_gen (ra_d A) (ra_q A) C' v' ∧ agrees (dom (c_g C)) v' v).
Proof. intros A C s order C' H1 H2 H3 H4 H5. destruct (insert_registers_api_spec A C s order C' H1 H2 H3 H4 H5) as (_ & _ & ?). done. Qed.
Print Assumptions C05_insert_registers_any_args.

(* ... and the result is lint-clean, under the additional guards `lint_args_ok` (q_suffix and the other_flop_io keys contain no dot,
   every input port of the flop is d_port or an other_flop_io key) and `no_bbout_nodes` (no bb_output typed node in a blackbox-free c) *)
Theorem C05_insert_registers_any_args_lint_clean : ∀ A C s order C', args_ok A → lint_args_ok A → closed (c_g C) → bb_free C →
  no_bbout_nodes (c_g C) → values_ok A (c_g C) → lint_clean C → insert_registers_api A C s order = Ok C' → lint_clean C'.
Proof. exact insert_registers_api_lint. Qed.
Print Assumptions C05_insert_registers_any_args_lint_clean.

(* The guards are needed: tx.insert_registers does not validate its arguments.  Witnesses (each is replayed on the implementation
   by the corpus cases harness/corpus/C05-W*.json, where `agree` shows that the code returns exactly these circuits): *)
Definition ex_regs : Circuit :=
  {| c_name := "top"; c_bbs := ∅;
     c_g := {[ "a" := mk_node Input false ∅; "b" := mk_node Input false ∅; "x" := mk_node And false {[ "a"; "b" ]};
               "y" := mk_node Not false {[ "x" ]}; "z" := mk_node Or true {[ "y"; "a" ]} ]} |}.
Definition ex_order : list string := ["a"; "b"; "x"; "y"; "z"].
Definition args_dotted_suffix : reg_args :=
  {| ra_ff := ff_def; ra_ins := ["clk"; "d"]; ra_outs := ["q"]; ra_d := "d"; ra_q := "q"; ra_other := [("clk", "clk")]; ra_suffix := ".q" |}.
Definition args_unwired_input : reg_args :=
  {| ra_ff := {| bb_name := "dffr"; bb_in := {[ "clk"; "d"; "rst" ]}; bb_out := {[ "q" ]} |}; ra_ins := ["clk"; "d"; "rst"]; ra_outs := ["q"];
     ra_d := "d"; ra_q := "q"; ra_other := [("clk", "clk")]; ra_suffix := reg_suffix |}.
Definition args_key_is_d : reg_args :=
  {| ra_ff := ff_def; ra_ins := ["clk"; "d"]; ra_outs := ["q"]; ra_d := "d"; ra_q := "q"; ra_other := [("clk", "clk"); ("d", "a")]; ra_suffix := reg_suffix |}.
(* q_suffix containing a dot: accepted, the q buffer gets blackbox-pin syntax without an instance -> lint rejects the result *)
Theorem C05_insert_registers_dotted_suffix_refuted : lint_clean ex_regs ∧ bb_free ex_regs ∧
  ∃ C', insert_registers_api args_dotted_suffix ex_regs 1 ex_order = Ok C' ∧ ¬ lint_clean C'.
Proof.
  split; [vm_compute; reflexivity|]. split; [reflexivity|].
  destruct (ok_with_spec (λ C', negb (lint_cleanb C')) (insert_registers_api args_dotted_suffix ex_regs 1 ex_order)) as (C' & -> & HP); [vm_compute; reflexivity|].
  exists C'. split; [done|]. intros Hl. unfold lint_cleanb in HP. by rewrite (bool_decide_eq_true_2 _ Hl) in HP.
Qed.
Print Assumptions C05_insert_registers_dotted_suffix_refuted.
(* a flop input port that is neither d_port nor an other_flop_io key: accepted, the pin stays undriven -> lint rejects the result *)
Theorem C05_insert_registers_unwired_input_refuted : lint_clean ex_regs ∧ bb_free ex_regs ∧
  ∃ C', insert_registers_api args_unwired_input ex_regs 1 ex_order = Ok C' ∧ ¬ lint_clean C'.
Proof.
  split; [vm_compute; reflexivity|]. split; [reflexivity|].
  destruct (ok_with_spec (λ C', negb (lint_cleanb C')) (insert_registers_api args_unwired_input ex_regs 1 ex_order)) as (C' & -> & HP); [vm_compute; reflexivity|].
  exists C'. split; [done|]. intros Hl. unfold lint_cleanb in HP. by rewrite (bool_decide_eq_true_2 _ Hl) in HP.
Qed.
Print Assumptions C05_insert_registers_unwired_input_refuted.
(* other_flop_io naming d_port: accepted, the d pin of every flop is wired to that node instead of the registered one ->
   the transparent-flop circuit is NOT equivalent to c (z is constant 1 in c, but equals a in the result) *)
Theorem C05_insert_registers_key_is_d_port_refuted :
  ∃ C', insert_registers_api args_key_is_d ex_regs 1 ex_order = Ok C' ∧
    ¬ (∀ v', consistent (c_g C') v' → transparent_gen "d" "q" C' v' → consistent (c_g ex_regs) v').
Proof.
  set (v := val_of ["y"]).
  destruct (ok_with_spec (λ C', consistentb (c_g C') v && negb (consistentb (c_g ex_regs) v) && bool_decide (dom (c_bbs C') = {[ "ff_y" ]})
                                 && eqb (v (pin "ff_y" "q")) (v (pin "ff_y" "d")))
              (insert_registers_api args_key_is_d ex_regs 1 ex_order)) as (C' & -> & HP); [vm_compute; reflexivity|].
  rewrite !andb_true_iff in HP. destruct HP as (((H1 & H2) & H3) & H4).
  exists C'. split; [done|]. intros H. apply negb_true_iff in H2.
  assert (consistent (c_g ex_regs) v) as Hc.
  { apply H; [by apply consistentb_spec|]. intros inst Hin. apply bool_decide_eq_true in H3. rewrite H3 in Hin.
    apply elem_of_singleton in Hin. subst inst. by apply eqb_prop in H4. }
  apply consistentb_spec in Hc. congruence.
Qed.
Print Assumptions C05_insert_registers_key_is_d_port_refuted.

(* acyclic_unroll of an already acyclic circuit (C18's model and theorems): inside C18's guards the model returns a lint-clean,
   acyclic circuit with the same inputs and outputs whose outputs agree with c for equal inputs; and the feedback set the code
   computes for an acyclic circuit is empty, for every node order *)
Theorem C05_acyclic_unroll_of_acyclic : ∀ C,
  lint_clean C → c_bbs C = ∅ → closed (c_g C) → plain (c_g C) → valid_names (c_g C) → free_are_inputs (c_g C) →
  names_ok (c_g C) [] → acyclic (c_g C) →
  ∃ A, acyclic_unroll C [] = Ok A ∧ c_bbs A = ∅ ∧ lint_clean A ∧ acyclic (c_g A) ∧
    outputs (c_g A) = outputs (c_g C) ∧ inputs (c_g A) = inputs (c_g C) ∧
    ∀ v w, consistent (c_g C) v → consistent (c_g A) w → agrees (inputs (c_g C)) w v → agrees (outputs (c_g C)) w v.
Proof. exact acyclic_unroll_of_acyclic. Qed.
Print Assumptions C05_acyclic_unroll_of_acyclic.
Theorem C05_acyclic_feedback_empty : ∀ c ord, acyclic c → fas_of_order c ord = ∅.
Proof. exact fas_of_acyclic. Qed.
Print Assumptions C05_acyclic_feedback_empty.

(* termination / non-rejection: for EVERY well-formed circuit (networkx invariant, lint-clean, names that `add` accepts,
   no edge out of a bb_input -- `connect` never makes one) and every k >= 2 the validators accept SOME step list, i.e.
   the while loops can always be run to completion; so the theorems above are not vacuous for any such input *)
Theorem C05_limit_fanin_total : ∀ C k, 2 ≤ k → closed (c_g C) → lint_clean C → good_names (c_g C) → no_bbin_driver (c_g C) →
  ∃ steps C', limit_fanin_run C k steps = Ok C'.
Proof. intros C k Hk H1 H2 H3 H4. apply (limit_fanin_total _ C k C05_tables_ok Hk). by split_and!. Qed.
Print Assumptions C05_limit_fanin_total.
Theorem C05_limit_fanout_total : ∀ C k, 2 ≤ k → closed (c_g C) → lint_clean C → good_names (c_g C) → no_bbin_driver (c_g C) →
  ∃ steps C', limit_fanout_run C k steps = Ok C'.
Proof. intros C k Hk H1 H2 H3 H4. apply (limit_fanout_total _ C k C05_tables_ok Hk). by split_and!. Qed.
Print Assumptions C05_limit_fanout_total.

(* insert_registers returns a lint-clean circuit (pins typed and registered, q buffers are the only loads of the q pins,
   helper names dot-free because the node names of a lint-clean blackbox-free circuit are) *)
Theorem C05_insert_registers_lint_clean : ∀ C s order C', closed (c_g C) → bb_free C → lint_clean C →
  insert_registers C s order = Ok C' → lint_clean C'.
Proof. exact insert_registers_lint. Qed.
Print Assumptions C05_insert_registers_lint_clean.

(* the oracle's verdict is a statement about `consistent`: a passed check implies the equivalence of the theorems above *)
Theorem C05_oracle_sound : ∀ c c', equiv_check c c' = true → equiv_on (dom c) c c'.
Proof. exact equiv_check_sound. Qed.
Print Assumptions C05_oracle_sound.

(* ---- non-vacuity: accepted runs exist on concrete circuits where something happens ---- *)
Definition ex_in : Circuit :=
  {| c_name := "t"; c_bbs := ∅;
     c_g := {[ "a" := mk_node Input false ∅; "b" := mk_node Input false ∅; "c" := mk_node Input false ∅;
               "g_limit_fanin_0" := mk_node Input false ∅;
               "g" := mk_node Xnor true {[ "a"; "b"; "c"; "g_limit_fanin_0" ]} ]} |}.
Example C05_fanin_run : closed (c_g ex_in) ∧
  ∃ C', limit_fanin_run ex_in 2 [("g", "a", "b"); ("g", "c", "g_limit_fanin_0_0")] = Ok C' ∧ (size (dom (c_g C')) =? 7)%nat = true.
Proof. split; [apply closedb_spec; vm_compute; reflexivity|]. apply ok_with_spec. vm_compute. reflexivity. Qed.
Definition ex_out : Circuit :=
  {| c_name := "t"; c_bbs := ∅;
     c_g := {[ "a" := mk_node Input false ∅; "x" := mk_node Not true {[ "a" ]}; "y" := mk_node Buf true {[ "a" ]};
               "z" := mk_node And true {[ "a"; "x" ]} ]} |}.
Example C05_fanout_run : closed (c_g ex_out) ∧
  ∃ C', limit_fanout_run ex_out 2 [("a", "x", "z")] = Ok C' ∧ (size (dom (c_g C')) =? 5)%nat = true.
Proof. split; [apply closedb_spec; vm_compute; reflexivity|]. apply ok_with_spec. vm_compute. reflexivity. Qed.
Example C05_regs_run : bb_free ex_out ∧
  ∃ C', insert_registers ex_out 1 ["a"; "x"; "y"; "z"] = Ok C' ∧ bool_decide (dom (c_bbs C') = {[ "ff_x"; "ff_y" ]}) = true.
Proof. split; [reflexivity|]. apply ok_with_spec. vm_compute. reflexivity. Qed.
Example C05_total_hyps : closed (c_g ex_in) ∧ lint_clean ex_in ∧ good_names (c_g ex_in) ∧ no_bbin_driver (c_g ex_in).
Proof.
  split_and!; [apply closedb_spec; vm_compute; reflexivity|vm_compute; reflexivity
              |apply good_namesb_spec; vm_compute; reflexivity|apply no_bbin_driverb_spec; vm_compute; reflexivity].
Qed.
