(* C06 -- hierarchical composition is functional substitution.  Statements only; proofs in Proofs/ComposeProofs.v,
   Proofs/FillProofs.v, Proofs/FastEvalProofs.v. *)
From stdpp Require Import strings gmap pmap sets.
From CG Require Model.Lint Proofs.ComposeLint.
From CG Require Import Base.Cases Base.Compose Base.Oracle Model.Compose6 Model.FastEval Proofs.ComposeProofs Proofs.NoStripProofs Proofs.FillProofs Proofs.BlackboxProofs Proofs.FastEvalProofs Proofs.SweepProofs.
Open Scope string_scope.

(* add_subcircuit(sc, name, connections) with the default strip_io, whenever the call is accepted: the parent's name,
   inputs and outputs are unchanged, the node set grows by the prefixed copy, the registry is the parent's plus the
   child's entries under prefixed names. *)
Theorem C06_add_subcircuit_struct : ∀ P SC name conns P',
  add_subcircuit P SC name conns = (P', Done) →
  c_name P' = c_name P ∧
  c_bbs P' = kmap (pre name) (c_bbs SC) ∪ c_bbs P ∧
  (∀ b d, c_bbs SC !! b = Some d → c_bbs P' !! pre name b = Some d) ∧
  (∀ b d, c_bbs P !! b = Some d → c_bbs P' !! b = Some d) ∧
  inputs (c_g P') = inputs (c_g P) ∧ outputs (c_g P') = outputs (c_g P) ∧
  dom (c_g P') = dom (c_g P) ∪ set_map (pre name) (dom (c_g SC)).
Proof. exact add_subcircuit_struct. Qed.
Print Assumptions C06_add_subcircuit_struct.

(* Functional substitution.  For any connection map (child inputs fed from arbitrary nets, child outputs driving undriven
   buffers / blackbox input pins of the parent -- `out_targets_free`, the side condition of the property text), the
   consistent valuations of the result are exactly those that are consistent for the parent (every pre-existing node keeps its
   equation), whose pull-back along name_ is consistent for strip_io(sc) (name_n takes the value n has in sc), and in which
   every attached pair of nets carries one value (sc's inputs take the values of the nets they were attached to). *)
Theorem C06_add_subcircuit : ∀ P SC name conns P',
  add_subcircuit P SC name conns = (P', Done) → out_targets_free P SC conns →
  ∀ v, consistent (c_g P') v ↔
       consistent (c_g P) v ∧ consistent (strip_io (c_g SC)) (v ∘ pre name) ∧ Forall (conn_ok SC name v) conns.
Proof. exact add_subcircuit_sem. Qed.
Print Assumptions C06_add_subcircuit.

(* fill_blackbox(name, sc), whenever accepted: the filled blackbox disappears from the registry, sc's own blackboxes are
   carried over under prefixed names, sc's io is the blackbox's io. *)
Theorem C06_fill_struct : ∀ P inst SC P' d,
  c_bbs P !! inst = Some d → fill_blackbox P inst SC = (P', Done) →
  c_name P' = c_name P ∧ c_bbs P' = kmap (pre inst) (c_bbs SC) ∪ delete inst (c_bbs P) ∧
  c_bbs P' !! inst = None ∧
  (∀ b e, c_bbs SC !! b = Some e → c_bbs P' !! pre inst b = Some e) ∧
  inputs (c_g SC) = bb_in d ∧ outputs (c_g SC) = bb_out d.
Proof. exact fill_blackbox_struct. Qed.
Print Assumptions C06_fill_struct.

Theorem C06_fill_dom : ∀ P inst SC P' d,
  c_bbs P !! inst = Some d → fill_blackbox P inst SC = (P', Done) →
  dom (c_g P') = set_map (pin_to_node inst d) (dom (c_g P)) ∪ set_map (pre inst) (dom (c_g SC)).
Proof. exact fill_blackbox_dom. Qed.
Print Assumptions C06_fill_dom.

(* Functional substitution for fill_blackbox.  Well-formedness of the instance (what add_blackbox creates and lint demands):
   the parent is closed, sc's inputs are undriven, no pin is both input and output, the input pins inst.p are bb_input nodes and
   the output pins inst.q are undriven bb_output nodes.  Then the consistent valuations of the result are exactly those under
   which the parent -- with every pin inst.p read at the node inst_p that replaced it -- is consistent (every pre-existing node
   keeps its equation; the input pins still equal their drivers; the loads of inst.q now see inst_q) and whose pull-back along
   inst_ is consistent for strip_io(sc) (the spliced copy computes sc on the pin values). *)
Theorem C06_fill : ∀ P inst SC P' d,
  closed (c_g P) →
  (∀ n i, c_g SC !! n = Some i → n_ty i = Input → n_fi i = ∅) →
  bb_in d ## bb_out d →
  (∀ p i, p ∈ bb_in d → c_g P !! pin inst p = Some i → n_ty i = BbIn) →
  (∀ q i, q ∈ bb_out d → c_g P !! pin inst q = Some i → n_ty i = BbOut ∧ n_fi i = ∅) →
  c_bbs P !! inst = Some d → fill_blackbox P inst SC = (P', Done) →
  ∀ v, consistent (c_g P') v ↔
       consistent (c_g P) (v ∘ pin_to_node inst d) ∧ consistent (strip_io (c_g SC)) (v ∘ pre inst).
Proof. exact fill_blackbox_sem. Qed.
Print Assumptions C06_fill.

(* strip_blackboxes(c, ignore_pins): every kept bb_input pin becomes an output buffer inst_pin, every kept bb_output pin an input
   inst_pin, ignored pins are deleted, the registry is emptied, and no other node's function changes: the consistent valuations of
   the result are those of the circuit without the ignored pins, read through the renaming of the kept pins. *)
Theorem C06_strip_blackboxes : ∀ C ign R,
  closed (c_g C) → strip_blackboxes C ign = Ok R →
  let g := c_g C in let kept := kept_pins g ign in let ρ := pin_rho kept in
  let pruned := remove_g g (elements (ignored_pins g ign)) in
  c_name R = c_name C ∧ c_bbs R = ∅ ∧
  dom (c_g R) = set_map ρ (dom pruned) ∧
  (∀ n, n ∈ kept → n ∈ of_type g (is_ty BbIn) →
     ρ n = undot n ∧ undot n ∈ outputs (c_g R) ∧ ty (c_g R) (undot n) = Some Buf) ∧
  (∀ n, n ∈ kept → n ∈ of_type g (is_ty BbOut) → undot n ∈ inputs (c_g R)) ∧
  (∀ n, n ∈ ignored_pins g ign → n ∉ dom pruned) ∧
  ∀ v, consistent (c_g R) v ↔ consistent pruned (v ∘ ρ).
Proof. exact strip_blackboxes_spec. Qed.
Print Assumptions C06_strip_blackboxes.

Theorem C06_strip_blackboxes_noignore : ∀ C R,
  closed (c_g C) → strip_blackboxes C [] = Ok R →
  let g := c_g C in let ρ := pin_rho (bb_pins g) in
  c_name R = c_name C ∧ c_bbs R = ∅ ∧
  dom (c_g R) = set_map ρ (dom g) ∧
  (∀ n, n ∈ of_type g (is_ty BbIn) →
     ρ n = undot n ∧ undot n ∈ outputs (c_g R) ∧ ty (c_g R) (undot n) = Some Buf) ∧
  (∀ n, n ∈ of_type g (is_ty BbOut) → undot n ∈ inputs (c_g R)) ∧
  ∀ v, consistent (c_g R) v ↔ consistent (c_g C) (v ∘ ρ).
Proof. exact strip_blackboxes_spec_noignore. Qed.
Print Assumptions C06_strip_blackboxes_noignore.

(* the parent's own input / output lists are unchanged by fill_blackbox (the pins were neither inputs nor marked outputs) *)
Theorem C06_fill_io : ∀ P inst SC P' d,
  c_bbs P !! inst = Some d → fill_blackbox P inst SC = (P', Done) →
  (∀ p i, p ∈ bb_in d ∪ bb_out d → c_g P !! pin inst p = Some i → n_ty i ≠ Input ∧ n_out i = false) →
  inputs (c_g P') = inputs (c_g P) ∧ outputs (c_g P') = outputs (c_g P).
Proof. exact fill_blackbox_io. Qed.
Print Assumptions C06_fill_io.

(* add_blackbox(bb, name, connections), whenever accepted (ins / outs: iteration orders of the blackbox's pin sets) *)
Theorem C06_add_blackbox_struct : ∀ P d inst ins outs conns P',
  add_blackbox P d inst ins outs conns = (P', Done) →
  inst ∉ dom (c_bbs P) ∧ c_name P' = c_name P ∧ c_bbs P' = <[inst := d]> (c_bbs P) ∧
  inputs (c_g P') = inputs (c_g P) ∧ outputs (c_g P') = outputs (c_g P) ∧
  dom (c_g P') = dom (c_g P) ∪ set_map (pin inst) (list_to_set ins ∪ list_to_set outs : gset string) ∧
  (∀ p, p ∈ ins → ty (c_g P') (pin inst p) = Some BbIn) ∧ (∀ p, p ∈ outs → ty (c_g P') (pin inst p) = Some BbOut) ∧
  (∀ n, n ∈ dom (c_g P) → ty (c_g P') n = ty (c_g P) n).
Proof. exact add_blackbox_struct. Qed.
Print Assumptions C06_add_blackbox_struct.

Theorem C06_add_blackbox : ∀ P d inst ins outs conns P',
  add_blackbox P d inst ins outs conns = (P', Done) →
  list_to_set ins = bb_in d → list_to_set outs = bb_out d →
  (∀ kv net, kv ∈ conns → kv.1 ∉ bb_in d → net ∈ kv.2 → free_buf (c_g P) net) →
  ∀ v, consistent (c_g P') v ↔
    consistent (c_g P) v ∧
    Forall (λ kv, ∀ net, net ∈ kv.2 → (kv.1 ∈ bb_in d → v (pin inst kv.1) = v net) ∧ (kv.1 ∉ bb_in d → v net = v (pin inst kv.1))) conns.
Proof. exact add_blackbox_sem. Qed.
Print Assumptions C06_add_blackbox.

(* add_subcircuit(..., strip_io=False): the child's io nodes are kept as they are -- its inputs stay `input` nodes and become inputs of
   the parent, its output marks stay.  An `input` node cannot be driven, so the call is accepted only when every attachment of a child
   input is empty; child outputs are attached as before.  The copy then computes sc itself (not strip_io(sc)). *)
Theorem C06_add_subcircuit_nostrip_struct : ∀ P SC name conns P',
  add_subcircuit_gen false P SC name conns = (P', Done) →
  c_name P' = c_name P ∧
  c_bbs P' = kmap (pre name) (c_bbs SC) ∪ c_bbs P ∧
  inputs (c_g P') = inputs (c_g P) ∪ set_map (pre name) (inputs (c_g SC)) ∧
  outputs (c_g P') = outputs (c_g P) ∪ set_map (pre name) (outputs (c_g SC)) ∧
  dom (c_g P') = dom (c_g P) ∪ set_map (pre name) (dom (c_g SC)) ∧
  (∀ kv, kv ∈ conns → kv.1 ∈ inputs (c_g SC) → kv.2 = []).
Proof. exact add_subcircuit_nostrip_struct. Qed.
Print Assumptions C06_add_subcircuit_nostrip_struct.

Theorem C06_add_subcircuit_nostrip : ∀ P SC name conns P',
  add_subcircuit_gen false P SC name conns = (P', Done) → out_targets_free P SC conns →
  ∀ v, consistent (c_g P') v ↔
       consistent (c_g P) v ∧ consistent (c_g SC) (v ∘ pre name) ∧ Forall (conn_ok SC name v) conns.
Proof. exact add_subcircuit_nostrip_sem. Qed.
Print Assumptions C06_add_subcircuit_nostrip.


(* C20's second clause for these producers (lint = Model/Lint.v): composition of lint-clean circuits is lint-clean under the default
   flags.  Forced hypotheses, each observed on the real code: the instance name has no dot (otherwise every spliced node `a.b_x` has
   blackbox syntax with no instance) and every child input is attached (an unattached one is an undriven buffer). *)
Theorem C06_compose_lint_clean : ∀ P SC name conns P',
  add_subcircuit P SC name conns = (P', Done) →
  Lint.lint_clean P → Lint.lint_clean SC → closed (c_g P) → closed (c_g SC) →
  Lint.has_dot name = false →
  (∀ i, i ∈ inputs (c_g SC) → ∃ nets, (i, nets) ∈ conns ∧ nets ≠ []) →
  Lint.lint_clean P'.
Proof. exact ComposeLint.add_subcircuit_lint_clean. Qed.
Print Assumptions C06_compose_lint_clean.

(* fill_blackbox: instance and pin names dot-free, and every parent node with the syntax inst.x is a pin of the instance (the instance
   leaves the registry, so a stray node inst.extra would keep blackbox syntax without an instance) *)
Theorem C06_fill_lint_clean : ∀ P inst SC P' d,
  c_bbs P !! inst = Some d → fill_blackbox P inst SC = (P', Done) →
  Lint.lint_clean P → Lint.lint_clean SC → closed (c_g P) → closed (c_g SC) →
  Lint.has_dot inst = false → bb_in d ## bb_out d →
  (∀ p, p ∈ bb_in d ∪ bb_out d → Lint.has_dot p = false) →
  (∀ n, n ∈ dom (c_g P) → Lint.has_dot n = true → Lint.before_dot n = inst →
        ∃ p, p ∈ bb_in d ∪ bb_out d ∧ n = Lint.pin inst p) →
  Lint.lint_clean P'.
Proof. exact ComposeLint.fill_blackbox_lint_clean. Qed.
Print Assumptions C06_fill_lint_clean.

(* building blocks named in the design: driving a free buffer adds exactly the constraint v x = v u *)
Theorem C06_drive_node : ∀ c u x i v, c !! x = Some i → (n_ty i = Buf ∨ n_ty i = BbIn) → n_fi i ⊆ {[u]} →
  consistent (add_edge c u x) v ↔ consistent c v ∧ v x = v u.
Proof. exact drive_node. Qed.
Print Assumptions C06_drive_node.

(* the oracle's compiled checks are Oracle.consistentb, i.e. `consistent` *)
Theorem C06_oracle_check_is_consistent : ∀ T (ix : index) f G,
  check_prog T (compile ix f G ∅) = true ↔ consistent G (tab_val T ix ∘ f).
Proof. exact check_prog_consistent. Qed.
Print Assumptions C06_oracle_check_is_consistent.

(* the oracle's sweep decides a statement about ALL consistent valuations: when `sweepc R mk` answers true for a closed acyclic R,
   every consistent valuation of R coincides on R's nodes with one of the enumerated tables, and that table passed every side check *)
Theorem C06_oracle_sweep_complete : ∀ R mk v,
  closed R → acyclic R → sweepc R mk = true → consistent R v →
  let ord := topo_order R in let idx := index_of ord in let ix : index := λ n, idx !! n in
  ∃ T : Pmap bool,
    agrees (dom R) v (tab_val T ix) ∧ consistent R (tab_val T ix) ∧
    Forall (λ prog, check_prog T prog = true) (s_progs (mk ix)) ∧ eqs_ok T (s_eqs (mk ix)) = true ∧ s_pred (mk ix) (look T) = true.
Proof. exact sweepc_complete. Qed.
Print Assumptions C06_oracle_sweep_complete.

(* non-vacuity: a parent with an undriven buffer h, a child with input a and output o; a is fed from x, o drives h *)
Definition exP := mk "top" [("x", Input, false, []); ("h", Buf, false, []); ("g", And, true, ["x"; "h"])] [].
Definition exSC := mk "inv" [("a", Input, false, []); ("o", Not, true, ["a"])] [].
Definition exConns : list (string * list string) := [("a", ["x"]); ("o", ["h"])].
Example C06_example_accepted :
  (add_subcircuit exP exSC "u0" exConns).2 = Done ∧ size (c_g (add_subcircuit exP exSC "u0" exConns).1) = 5.
Proof. split; vm_compute; reflexivity. Qed.
Example C06_example_targets_free : out_targets_free exP exSC exConns.
Proof.
  intros kv net Hkv Hni Hnet. unfold exConns in Hkv.
  apply elem_of_cons in Hkv as [->|Hkv].
  - exfalso. apply Hni. apply elem_of_inputs. exists (mk_node Input false ∅). split; [|done]. vm_compute. reflexivity.
  - apply elem_of_list_singleton in Hkv as ->. apply elem_of_list_singleton in Hnet as ->.
    exists (mk_node Buf false ∅). split; [vm_compute; reflexivity|]. split; [by left|done].
Qed.

(* a flip-flop instance on the parent, filled with a buffer; then stripped instead *)
Definition exPF := mk "top" [("x", Input, false, []); ("f.d", BbIn, false, ["x"]); ("f.q", BbOut, false, []); ("y", Buf, true, ["f.q"])]
                      [("f", mk_bb "ff" ["d"] ["q"])].
Definition exBody := mk "body" [("d", Input, false, []); ("q", Not, true, ["d"])] [].
Definition exD := mk_bb "ff" ["d"] ["q"].
Example C06_example_fill_wf :
  closed (c_g exPF) ∧
  (∀ n i, c_g exBody !! n = Some i → n_ty i = Input → n_fi i = ∅) ∧
  bb_in exD ## bb_out exD ∧
  (∀ p i, p ∈ bb_in exD → c_g exPF !! pin "f" p = Some i → n_ty i = BbIn) ∧
  (∀ q i, q ∈ bb_out exD → c_g exPF !! pin "f" q = Some i → n_ty i = BbOut ∧ n_fi i = ∅) ∧
  c_bbs exPF !! "f" = Some exD.
Proof.
  split; [apply closedb_spec; vm_compute; reflexivity|].
  split.
  { intros n i Hn Hty. assert (Hall : map_Forall (λ _ i, n_ty i = Input → n_fi i = ∅) (c_g exBody)).
    { apply (bool_decide_unpack _). vm_compute. exact I. }
    exact (Hall n i Hn Hty). }
  split; [apply (bool_decide_unpack _); vm_compute; exact I|].
  split.
  { intros p i Hp. assert (p = "d") as -> by (revert Hp; unfold exD, mk_bb; simpl; set_solver).
    intros Hl. assert (c_g exPF !! pin "f" "d" = Some (mk_node BbIn false {["x"]})) as Hc by (apply (bool_decide_unpack _); vm_compute; exact I).
    rewrite Hc in Hl. by injection Hl as <-. }
  split.
  { intros p i Hp. assert (p = "q") as -> by (revert Hp; unfold exD, mk_bb; simpl; set_solver).
    intros Hl. assert (c_g exPF !! pin "f" "q" = Some (mk_node BbOut false ∅)) as Hc by (apply (bool_decide_unpack _); vm_compute; exact I).
    rewrite Hc in Hl. by injection Hl as <-. }
  apply (bool_decide_unpack _). vm_compute. exact I.
Qed.
Example C06_example_fill : (fill_blackbox exPF "f" exBody).2 = Done ∧ size (c_g (fill_blackbox exPF "f" exBody).1) = 4
  ∧ c_bbs (fill_blackbox exPF "f" exBody).1 = ∅.
Proof. repeat split; apply (bool_decide_unpack _); vm_compute; exact I. Qed.
Example C06_example_strip : ∃ R, strip_blackboxes exPF [] = Ok R ∧ inputs (c_g R) = {["x"; "f_q"]} ∧ outputs (c_g R) = {["y"; "f_d"]}.
Proof. eexists (mk "top" [("x", Input, false, []); ("f_d", Buf, true, ["x"]); ("f_q", Input, false, []); ("y", Buf, true, ["f_q"])] []).
  repeat split; apply (bool_decide_unpack _); vm_compute; exact I. Qed.

(* strip_io=False on the first example: the inverter's input u0_a stays an input of the parent, its output drives h *)
Example C06_example_nostrip :
  (add_subcircuit_gen false exP exSC "u0" [("o", ["h"])]).2 = Done ∧
  elements (inputs (c_g (add_subcircuit_gen false exP exSC "u0" [("o", ["h"])]).1)) ≡ₚ ["x"; "u0_a"].
Proof. split; [vm_compute; reflexivity|]. apply (bool_decide_unpack _). vm_compute. exact I. Qed.

(* lint clause: a lint-clean parent (an inverter) and the inverter child, its input attached to x *)
Definition exPL := mk "top" [("x", Input, false, []); ("g", Not, true, ["x"])] [].
Example C06_example_lint_hyps :
  Lint.lint_clean exPL ∧ Lint.lint_clean exSC ∧ closed (c_g exPL) ∧ closed (c_g exSC) ∧
  (add_subcircuit exPL exSC "u0" [("a", ["x"])]).2 = Done ∧ Lint.lint_clean (add_subcircuit exPL exSC "u0" [("a", ["x"])]).1.
Proof. repeat split; try (apply closedb_spec); vm_compute; reflexivity. Qed.
(* the flip-flop instance of exPF filled with an inverter: every hypothesis of C06_fill_lint_clean holds, and the result is lint-clean *)
Example C06_example_fill_lint_hyps :
  Lint.lint_clean exPF ∧ Lint.lint_clean exBody ∧ closed (c_g exPF) ∧ closed (c_g exBody) ∧
  Lint.has_dot "f" = false ∧ bb_in exD ## bb_out exD ∧
  (∀ p, p ∈ bb_in exD ∪ bb_out exD → Lint.has_dot p = false) ∧
  (∀ n, n ∈ dom (c_g exPF) → Lint.has_dot n = true → Lint.before_dot n = "f" →
        ∃ p, p ∈ bb_in exD ∪ bb_out exD ∧ n = Lint.pin "f" p) ∧
  Lint.lint_clean (fill_blackbox exPF "f" exBody).1.
Proof.
  split; [vm_compute; reflexivity|]. split; [vm_compute; reflexivity|].
  split; [apply closedb_spec; vm_compute; reflexivity|]. split; [apply closedb_spec; vm_compute; reflexivity|].
  split; [reflexivity|]. split; [apply (bool_decide_unpack _); vm_compute; exact I|].
  split.
  { assert (H : set_Forall (λ p, Lint.has_dot p = false) (bb_in exD ∪ bb_out exD)) by (apply (bool_decide_unpack _); vm_compute; exact I).
    exact H. }
  split; [|vm_compute; reflexivity].
  assert (H : set_Forall (λ n, Lint.has_dot n = true → Lint.before_dot n = "f" → n = Lint.pin "f" "d" ∨ n = Lint.pin "f" "q") (dom (c_g exPF)))
    by (apply (bool_decide_unpack _); vm_compute; exact I).
  intros n Hn Hd Hb. destruct (H n Hn Hd Hb) as [->| ->]; [exists "d"|exists "q"]; (split; [|done]);
    apply (bool_decide_unpack _); vm_compute; exact I.
Qed.
