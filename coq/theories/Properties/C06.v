(* C06 -- hierarchical composition is functional substitution.  Statements only; proofs in Proofs/ComposeProofs.v. *)
From stdpp Require Import strings gmap sets.
From CG Require Import Model.Compose6.
Open Scope string_scope.
