(* C07 -- construction API never leaves an illegally wired circuit.  Statements only. *)
From stdpp Require Import strings gmap sets.
From CG Require Import Model.ApiInv.
Open Scope string_scope.

Theorem C07_tables_ok : tables_okb = true.
Proof. vm_compute. reflexivity. Qed.
Print Assumptions C07_tables_ok.
