(* C07 -- the construction API never leaves an illegally wired circuit.  Statements only; proofs in Proofs/ApiProofs.v.
   `step : Circuit → op → Circuit * outcome` (Base/Api.v) is the model of the eight mutators, partial effects of a
   rejected call included; `Inv`, `pins_ok`, `edges` are defined in Model/ApiInv.v. *)
From stdpp Require Import strings gmap sets.
From CG Require Import Model.ApiInv Model.ApiOrder Proofs.ApiProofs Proofs.ApiFillProofs Proofs.ApiFlagsProofs.
Open Scope string_scope.

(* obligation on the regenerated type lists of circuit.py (connect, add, supported_types): as sets they are the
   documented ones.  A changed list in the source breaks this and with it every theorem below. *)
Theorem C07_tables_ok : tables_okb = true.
Proof. vm_compute. reflexivity. Qed.
Print Assumptions C07_tables_ok.

(* obligation on the regenerated statement skeletons of Circuit.add / connect / disconnect / remove / set_output / set_type /
   add_blackbox / add_subcircuit / fill_blackbox / uid / relabel (Gen_api.v): order of tests, raises, mutations, undo code
   and name templates are the ones Base/Api.v implements (Model/ApiOrder.v) *)
Theorem C07_api_order_ok : api_order_okb = true.
Proof. vm_compute. reflexivity. Qed.
Print Assumptions C07_api_order_ok.

(* the boolean invariant evaluated by the oracle is the declarative one *)
Theorem C07_invb_spec : ∀ C, invb C = true ↔ Inv C.
Proof. intros C. apply bool_decide_eq_true. Qed.
Print Assumptions C07_invb_spec.
Theorem C07_pins_okb_spec : ∀ C R, pins_okb C R = true ↔ pins_ok C R.
Proof. intros C R. apply bool_decide_eq_true. Qed.
Print Assumptions C07_pins_okb_spec.
(* Inv, spelled out against the property text *)
Theorem C07_Inv_meaning : ∀ C, Inv C ↔
  closed (c_g C) ∧
  ∀ n i, c_g C !! n = Some i →
    n_ty i ∈ [Buf; And; Or; Xor; Not; Nand; Nor; Xnor; C0; C1; CX; Input; BbIn; BbOut] ∧
    (n_ty i ∈ [Input; C0; C1; CX; BbOut] → n_fi i = ∅) ∧
    (n_ty i ∈ [Buf; Not; BbIn] → size (n_fi i) ≤ 1) ∧
    (n_ty i = BbIn → fanout (c_g C) n = ∅) ∧
    (n_ty i = BbOut → size (fanout (c_g C) n) ≤ 1 ∧ ∀ m, m ∈ fanout (c_g C) n → ty (c_g C) m = Some Buf).
Proof.
  intros C. unfold Inv, wired. rewrite closed'_iff, map_Forall_lookup.
  split; intros [Hc Hn]; (split; [done|]); intros n i Hi; specialize (Hn n i Hi).
  - destruct Hn as (H1 & H2 & H3 & [H4 H5]%fanout_ok_spec). done.
  - destruct Hn as (H1 & H2 & H3 & H4 & H5). repeat split; try done. apply fanout_ok_spec. done.
Qed.
Print Assumptions C07_Inv_meaning.

(* ---------------------------------------------------------------- the invariant *)
(* hypotheses on the arguments: a subcircuit argument is itself legally wired with all pins in place; the recorded
   iteration orders of a blackbox's pin sets are orders of those sets *)
Definition sub_ok (SC : Circuit) : Prop := Inv SC ∧ pins_ok SC ∅.
Definition args_ok (o : op) : Prop :=
  match o with
  | OAddSubcircuit SC _ _ | OFillBlackbox _ SC => sub_ok SC
  | OAddBlackbox d _ ins outs _ => list_to_set ins = bb_in d ∧ list_to_set outs = bb_out d
  | _ => True end.

(* full strength, all eight operations -- add (default flags / uid=True), connect, disconnect, remove, set_output,
   add_blackbox, add_subcircuit, fill_blackbox -- with ARBITRARY arguments (missing nodes, duplicates, self references,
   any type, any name, any connection map), whether the call succeeds or raises: the invariant is preserved.  The only
   hypothesis on a subcircuit argument is that it is itself legally wired. *)
Definition C07_invariant_full : Prop := ∀ C o, args_ok o → Inv C → Inv (step C o).1.
Definition C07_reachable_full : Prop := ∀ C ops, Forall args_ok ops → Inv C → Inv (run C ops).
Lemma args_ok_sc_inv o : args_ok o → sc_inv o.
Proof. destruct o; try done; by intros [? _]. Qed.
Theorem C07_invariant : C07_invariant_full.
Proof. intros C o Ha. apply (step_inv_all C o C07_tables_ok). by apply args_ok_sc_inv. Qed.
Print Assumptions C07_invariant.
Theorem C07_reachable : C07_reachable_full.
Proof.
  intros C ops Ha. apply (run_inv_all C ops C07_tables_ok). eapply Forall_impl; [exact Ha|]. apply args_ok_sc_inv.
Qed.
Print Assumptions C07_reachable.
Theorem C07_reachable_from_empty : ∀ name ops, Forall args_ok ops → Inv (run (empty_circuit name) ops).
Proof. intros name ops H. apply C07_reachable; [done|apply empty_inv]. Qed.
Print Assumptions C07_reachable_from_empty.

(* ---------------------------------------------------------------- rejected calls *)
(* full strength, every operation: a rejected call changes no wire and not the registry, and raises ValueError
   (set_output on a missing node: KeyError, which the property text does not count as illegal type, name or
   connection).  `Inv C` is used for closedness only (the calls that undo partial effects remove the nodes they made). *)
Definition reject_exn (o : op) : exn := match o with OSetOutput _ _ => KeyError | _ => ValueError end.
Theorem C07_reject : ∀ C o e, args_ok o → Inv C → (step C o).2 = Fail e →
  edges (c_g (step C o).1) = edges (c_g C) ∧ c_bbs (step C o).1 = c_bbs C ∧ e = reject_exn o.
Proof.
  intros C o e Ha [Hc _]. apply step_reject_all; [by apply closed'_iff|]. destruct o; try exact I. exact Ha.
Qed.
Print Assumptions C07_reject.
(* proved without any hypothesis on C: add, connect, disconnect, remove, set_output (the registry is untouched as well) *)
Theorem C07_reject_basic : ∀ C o e, basic_op o = true → (step C o).2 = Fail e →
  edges (c_g (step C o).1) = edges (c_g C) ∧ c_bbs (step C o).1 = c_bbs C ∧ e = reject_exn o.
Proof. exact step_reject_basic. Qed.
Print Assumptions C07_reject_basic.
(* a rejected add_blackbox leaves the circuit -- graph and registry -- exactly as it was *)
Theorem C07_reject_add_blackbox : ∀ C d inst ins outs conns e, Inv C → list_to_set ins = bb_in d → list_to_set outs = bb_out d →
  (step C (OAddBlackbox d inst ins outs conns)).2 = Fail e → e = ValueError ∧ (step C (OAddBlackbox d inst ins outs conns)).1 = C.
Proof. intros C d inst ins outs conns e [Hc _]. apply add_blackbox_reject. by apply closed'_iff. Qed.
Print Assumptions C07_reject_add_blackbox.
(* fill_blackbox checks everything before it touches the circuit *)
Theorem C07_reject_fill : ∀ C inst SC e, (step C (OFillBlackbox inst SC)).2 = Fail e → (step C (OFillBlackbox inst SC)).1 = C ∧ e = ValueError.
Proof. intros C inst SC e. simpl. unfold fill_blackbox. repeat case_match; simpl; intros [=]; done. Qed.
Print Assumptions C07_reject_fill.

Theorem C07_invariant_fill_rejected : ∀ C inst SC e, Inv C → (step C (OFillBlackbox inst SC)).2 = Fail e → Inv (step C (OFillBlackbox inst SC)).1.
Proof. intros C inst SC e Hi Hf. by destruct (C07_reject_fill C inst SC e Hf) as [-> _]. Qed.
Print Assumptions C07_invariant_fill_rejected.

(* ---------------------------------------------------------------- add never overwrites or renames *)
(* every add call (any flags of the property, any outcome): the registry and every existing node's name, type and
   output mark are unchanged and no existing wire is lost *)
Theorem C07_add_preserves : ∀ C n t fi fo out u,
  let r := step C (OAdd n t fi fo out u) in
  c_bbs r.1 = c_bbs C ∧
  ∀ m i, c_g C !! m = Some i → ∃ i', c_g r.1 !! m = Some i' ∧ n_ty i' = n_ty i ∧ n_out i' = n_out i ∧ n_fi i ⊆ n_fi i'.
Proof. exact step_add_preserves. Qed.
Print Assumptions C07_add_preserves.
(* a successful add returns a name that was free, and that name now carries the requested type; without uid it is n *)
Theorem C07_add_fresh : ∀ c n t fi fo out u,
  let r := add_g c n t fi fo {| af_out := out; af_conn := false; af_redef := false; af_uid := u |} in
  r.1.2 = Done → r.2 ∉ dom c ∧ ty r.1.1 r.2 = Some t ∧ (u = false → r.2 = n).
Proof. exact add_g_name_fresh. Qed.
Print Assumptions C07_add_fresh.
(* the uid loop (n, n_0 .. n_10, n_70, n_490 ...) always ends on a free name *)
Theorem C07_uid_fresh : ∀ c n, uid c n ∉ dom c.
Proof. exact uid_fresh. Qed.
Print Assumptions C07_uid_fresh.

(* ---------------------------------------------------------------- blackbox pins *)
(* R = names the caller passed to remove() so far.  Full strength, all eight operations.  fill_blackbox renames the
   pin nodes of the filled instance, so it needs `pins_side`: no pin of ANOTHER recorded instance (that the caller did
   not remove) is at the same time a pin node of the filled instance -- which cannot happen when recorded instance
   names contain no dot (C07_pins_side_nodot); with dotted names it can ("a" with pin "b.c", "a.b" with pin "c"). *)
Definition C07_pins_full : Prop := ∀ C o R, args_ok o → pins_side C o R → Inv C → pins_ok C R → pins_ok (step C o).1 (R ∪ removed_by o).
Theorem C07_pins : C07_pins_full.
Proof.
  intros C o R Ha Hs [Hc _] Hp. apply step_pins_all; try done; [by apply closed'_iff| |]; destruct o; try exact I; try exact Ha; by destruct Ha.
Qed.
Print Assumptions C07_pins.
Theorem C07_pins_side_nodot : ∀ C o R, (∀ i, i ∈ dom (c_bbs C) → nodot i) → pins_side C o R.
Proof. intros C o R H. destruct o; try exact I. by apply fill_side_nodot. Qed.
Print Assumptions C07_pins_side_nodot.
(* the five basic operations need no hypothesis at all *)
Theorem C07_pins_basic : ∀ C o R, basic_op o = true → pins_ok C R → pins_ok (step C o).1 (R ∪ removed_by o).
Proof. exact step_pins_basic. Qed.
Print Assumptions C07_pins_basic.

(* ---------------------------------------------------------------- add with the parser flags (outside the property text) *)
(* add(..., add_connected_nodes=True): missing neighbours are created as buffers; the invariant is preserved as for a plain add *)
Theorem C07_add_connected_nodes : ∀ C n t fi fo fl, af_redef fl = false → Inv C → Inv (xstep C (XAdd n t fi fo fl)).1.
Proof.
  intros C n t fi fo fl Hr Hi. simpl. pose proof (add_g_wired_conn (c_g C) n t fi fo fl C07_tables_ok Hr Hi) as H.
  destruct (add_g _ _ _ _ _ _) as [[g oc] nm]. exact H.
Qed.
Print Assumptions C07_add_connected_nodes.
(* add(..., allow_redefinition=True) may retype a node that is already wired.  What survives, for any flags, any arguments,
   any outcome: every wire ends at a node and every node has a documented type (Inv0).  The fan-in / fan-out clauses and the
   pin clause do not survive (C07_redefinition_breaks). *)
Theorem C07_Inv_Inv0 : ∀ C, Inv C → Inv0 C.
Proof. intros C. apply wired_wired0. Qed.
Print Assumptions C07_Inv_Inv0.
Theorem C07_add_any_flags_weak : ∀ C n t fi fo fl, Inv0 C → Inv0 (xstep C (XAdd n t fi fo fl)).1.
Proof.
  intros C n t fi fo fl Hi. simpl. pose proof (add_g_wired0 (c_g C) n t fi fo fl C07_tables_ok Hi) as H.
  destruct (add_g _ _ _ _ _ _) as [[g oc] nm]. exact H.
Qed.
Print Assumptions C07_add_any_flags_weak.
Definition redef := {| af_out := false; af_conn := false; af_redef := true; af_uid := false |}.
Definition ex_redef : Circuit :=
  {| c_name := "t"; c_bbs := {[ "f0" := {| bb_name := "snk"; bb_in := {[ "d" ]}; bb_out := ∅ |} ]};
     c_g := {[ "g" := mk_node And false {[ "a"; "b" ]} ]} ∪ {[ "a" := mk_node Input false ∅ ]} ∪ {[ "b" := mk_node Input false ∅ ]} ∪
            {[ "f0.d" := mk_node BbIn false {[ "g" ]} ]} |}.
Example C07_redefinition_breaks :
  invb ex_redef = true ∧ pins_okb ex_redef ∅ = true ∧
  (* and -> buf keeps both drivers; and -> input keeps its fan-in; input with loads -> bb_input; a pin is retyped *)
  invb (xstep ex_redef (XAdd "g" Buf [] [] redef)).1 = false ∧
  invb (xstep ex_redef (XAdd "g" Input [] [] redef)).1 = false ∧
  invb (xstep ex_redef (XAdd "a" BbIn [] [] redef)).1 = false ∧
  pins_okb (xstep ex_redef (XAdd "f0.d" Buf [] [] redef)).1 ∅ = false ∧
  (λ x, (xstep ex_redef x).2) <$> [XAdd "g" Buf [] [] redef; XAdd "g" Input [] [] redef; XAdd "a" BbIn [] [] redef; XAdd "f0.d" Buf [] [] redef]
    = [Done; Done; Done; Done] ∧
  forallb (λ x, inv0b (xstep ex_redef x).1) [XAdd "g" Buf [] [] redef; XAdd "g" Input [] [] redef; XAdd "a" BbIn [] [] redef; XAdd "f0.d" Buf [] [] redef] = true.
Proof. vm_compute. repeat split; reflexivity. Qed.

(* ---------------------------------------------------------------- non-vacuity *)
Definition ex_sub : Circuit :=
  {| c_name := "sc"; c_g := {[ "y" := mk_node Nand true {[ "d" ]} ]} ∪ {[ "d" := mk_node Input false ∅ ]}; c_bbs := ∅ |}.
Definition ex_ops : list op :=
  [ OAdd "a" Input [] [] false false; OAdd "b" Input [] [] false false; OAdd "g" And ["a"; "b"] [] true false;
    OAdd "q" Buf [] [] true false;
    OAddBlackbox {| bb_name := "ff"; bb_in := {["d"; "clk"]}; bb_out := {["q"]} |} "f0" ["d"; "clk"] ["q"] [("d", ["g"]); ("q", ["q"])];
    OAdd "g" Or ["a"] [] false true;                      (* uid: becomes g_0 *)
    OAdd "h" Not ["a"; "b"] [] false false;               (* rejected: two drivers for a not *)
    OAdd "k" And ["nope"] ["g"] false false;              (* rejected after the node and the wire k -> g were made *)
    OConnect ["a"] ["f0.q"];                              (* rejected: blackbox output has no fan-in *)
    OConnect ["f0.q"] ["g"];                              (* rejected: blackbox output drives one buf only *)
    OSetOutput ["g_0"; "zz"] true; ORemove ["b"; "zz"]; ODisconnect ["a"] ["g"; "g_0"];
    OAddSubcircuit ex_sub "s" [("d", ["a"]); ("y", ["g_0"])];
    OAddBlackbox {| bb_name := "inv"; bb_in := {["d"]}; bb_out := {["y"]} |} "u1" ["d"] ["y"] [("d", ["g"])];
    OFillBlackbox "u1" ex_sub ].
Example C07_ex_history :
  let C := run (empty_circuit "top") ex_ops in
  Inv C ∧ pins_ok C {["b"; "zz"]} ∧ dom (c_g C) = {["a"; "g"; "q"; "f0.d"; "f0.clk"; "f0.q"; "g_0"; "k"; "s_d"; "s_y"; "u1_d"; "u1_y"]} ∧
  edges (c_g C) = {[("g", "f0.d"); ("f0.q", "q"); ("a", "s_d"); ("s_d", "s_y"); ("s_y", "g_0"); ("g", "u1_d"); ("u1_d", "u1_y")]} ∧
  dom (c_bbs C) = {["f0"]}.
Proof.
  split.
  { apply C07_reachable_from_empty. unfold ex_ops.
    repeat (apply Forall_cons; split; [simpl; first [exact I | (split; apply (bool_decide_unpack _); vm_compute; exact I)
      | (split; [apply C07_invb_spec|apply C07_pins_okb_spec]; vm_compute; reflexivity)]|]). done. }
  split; [apply C07_pins_okb_spec; vm_compute; reflexivity|].
  repeat split; apply (bool_decide_unpack _); vm_compute; exact I.
Qed.
Example C07_ex_outcomes : (λ o, (step (run (empty_circuit "top") (take 7 ex_ops)) o).2) <$> (take 3 (drop 7 ex_ops))
  = [Fail ValueError; Fail ValueError; Fail ValueError].
Proof. vm_compute. reflexivity. Qed.
(* the invariant is not trivially true: a not gate with two drivers, a loaded blackbox input *)
Example C07_ex_violating :
  ¬ Inv {| c_name := "t"; c_g := {[ "n" := mk_node Not false {[ "a"; "b" ]} ]} ∪ {[ "a" := mk_node Input false ∅ ]} ∪ {[ "b" := mk_node Input false ∅ ]}; c_bbs := ∅ |} ∧
  ¬ Inv {| c_name := "t"; c_g := {[ "n" := mk_node And false {[ "p" ]} ]} ∪ {[ "p" := mk_node BbIn false ∅ ]}; c_bbs := ∅ |}.
Proof. split; intros H%C07_invb_spec; vm_compute in H; discriminate. Qed.
(* the hypotheses of the full statements are satisfiable by a real subcircuit *)
Example C07_ex_sub_ok : sub_ok ex_sub.
Proof. split; [apply C07_invb_spec; vm_compute; reflexivity|apply C07_pins_okb_spec; vm_compute; reflexivity]. Qed.
