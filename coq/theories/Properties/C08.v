(* C08 -- Model counting and signal probability are exact.  Statements only; proofs in Proofs/SatCount.v (on top of C01, Proofs/SatProofs.v).
   `model_count`, `dimacs_of`, `signal_probability` are the models of sat.model_count, of the DIMACS export of sat.approx_model_count
   (default mode) and of props.signal_probability(approx=False), instantiated with the clause templates regenerated from sat.py. *)
From stdpp Require Import strings gmap sets.
From Coq Require QArith.
From CG Require Import Base.Oracle Model.Lint Model.Sat Proofs.SatProofs Proofs.SatCount Proofs.SatCone Proofs.SatSolver Gen.Gen_cnf.

Theorem C08_tables_ok : cnf_tables_ok gen_cnf_tables = true.
Proof. vm_compute. reflexivity. Qed.
Print Assumptions C08_tables_ok.

(* the solver is a variable with the two hypotheses, never an axiom *)
Definition solver_ok (solver : solver_t) : Prop :=
  (∀ F a, solver F = Some a → sat a F) ∧ (∀ F, solver F = None → ∀ a, ¬ sat a F).

(* extendable C A ρ: ρ is a valuation of exactly the startpoints that extends to a consistent valuation satisfying A.
   model_count terminates within its fuel (2^|startpoints| + 1 solver calls: the result is `Ok k`, never `OutOfFuel`)
   and k is the number of extendable startpoint valuations. *)
Theorem C08_model_count : ∀ solver, solver_ok solver → ∀ C ord A, lint_clean C → no_x (c_g C) → ord_ok (c_g C) ord → dom A ⊆ dom (c_g C) →
  ∃ k, model_count solver C ord A = Ok k ∧
       ∃ l : list (gmap string bool), NoDup l ∧ length l = k ∧ ∀ ρ, ρ ∈ l ↔ extendable C A ρ.
Proof. intros s [Hs Hc] C ord A Hl Hx. exact (model_count_spec _ C08_tables_ok s Hs Hc C ord A (lint_wf C Hl Hx)). Qed.
Print Assumptions C08_model_count.

(* the DIMACS instance (default mode): the header counts are those of the clause list, the sampling set is the list of startpoint
   variables, and the clause list has exactly the extendable startpoint valuations as models projected onto the sampling set *)
Theorem C08_dimacs : ∀ C ord A, lint_clean C → no_x (c_g C) → ord_ok (c_g C) ord → dom A ⊆ dom (c_g C) →
  ∃ d, dimacs_of C ord A = Ok d ∧ d_ind d = VN <$> elements (startpoints (c_g C)) ∧
       d_ncl d = length (d_clauses d) ∧ d_nv d = length (vars_of (d_clauses d)) ∧
       ∀ ρ, extendable C A ρ ↔ ∃ a, sat a (d_clauses d) ∧ ρ = pm (startpoints (c_g C)) a.
Proof. intros C ord A Hl Hx. exact (dimacs_spec _ C08_tables_ok C ord A (lint_wf C Hl Hx)). Qed.
Print Assumptions C08_dimacs.

(* signal_probability (DESIGN.md appendix C, full): for a lint-clean closed acyclic circuit the returned rational is
   |{ρ : sp → bool | n = 1 in every consistent valuation of the whole circuit that agrees with ρ}| / 2^|sp|, where sp is the set of
   startpoints that reach n.  (`reach`, `pathl`: paths along fan-in edges, Proofs/SatCone.v.  The success premise excludes
   blackbox pins and x constants in the cone: the model raises NotImplementedError / ValueError there, like the code.) *)
Theorem C08_signal_probability : ∀ solver, solver_ok solver →
  ∀ C n q, lint_clean C → bb_free C → closed (c_g C) → acyclic (c_g C) → n ∈ dom (c_g C) →
  signal_probability solver C n = Ok q →
  ∃ (sp : gset string) (l : list (gmap string bool)),
    (∀ s, s ∈ sp ↔ s ∈ startpoints (c_g C) ∧ reach (c_g C) s n) ∧ NoDup l ∧
    (∀ ρ : gmap string bool, ρ ∈ l ↔ dom ρ = sp ∧ ∀ v, consistent (c_g C) v → agreesA ρ v → v n = true) ∧
    QArith_base.Qeq q (QArith_base.Qmake (Z.of_nat (length l)) (Pos.of_nat (2 ^ size sp))).
Proof. intros s [Hs Hc] C n q Hl _. exact (signal_probability_full _ C08_tables_ok s Hs Hc C n q Hl). Qed.
Print Assumptions C08_signal_probability.

(* the result in terms of the cone sub-circuit that tx.subcircuit builds (used by the proof above) *)
Theorem C08_signal_probability_cone : ∀ solver, solver_ok solver → ∀ C n S,
  subcircuit C (cone (c_g C) n) = Ok S → cnf_wf (c_g S) → n ∈ dom (c_g C) →
  ∃ k, signal_probability solver C n = Ok (QArith_base.Qmake (Z.of_nat k) (Pos.of_nat (2 ^ size (startpoints (c_g S))))) ∧
       ∃ l : list (gmap string bool), NoDup l ∧ length l = k ∧ ∀ ρ, ρ ∈ l ↔ extendable S {[ n := true ]} ρ.
Proof. intros s [Hs Hc]. exact (signal_probability_partial _ C08_tables_ok s Hs Hc). Qed.
Print Assumptions C08_signal_probability_cone.

(* ---- non-vacuity ---- *)
Definition ex_c : Circuit := {|
  c_name := "ex";
  c_g := list_to_map [("a", mk_node Input false ∅); ("b", mk_node Input false ∅); ("k", mk_node C1 false ∅);
                      ("g", mk_node Xnor true {["a"; "b"; "k"]}); ("h", mk_node Nand true {["g"; "a"]})];
  c_bbs := ∅ |}.
Example C08_ex_domain : lint_clean ex_c ∧ no_x (c_g ex_c) ∧ ord_ok (c_g ex_c) (default_ord (c_g ex_c))
  ∧ dom ({["h" := true]} : gmap string bool) ⊆ dom (c_g ex_c).
Proof.
  split; [vm_compute; reflexivity|]. split; [apply (bool_decide_unpack _); vm_compute; exact I|].
  split; [intros n i Hn; unfold default_ord, fanin; by rewrite Hn|]. apply (bool_decide_unpack _). vm_compute. exact I.
Qed.
(* the hypotheses of the partial theorem hold for the cone of h (here the whole circuit) *)
Definition ex_S : Circuit := {| c_name := ""; c_g := c_g ex_c; c_bbs := ∅ |}.
Example C08_ex_cone : subcircuit ex_c (cone (c_g ex_c) "h") = Ok ex_S ∧ cnf_wf (c_g ex_S) ∧ "h" ∈ dom (c_g ex_c).
Proof.
  split; [apply (bool_decide_unpack _); vm_compute; exact I|]. split.
  - apply (lint_wf ex_S); [apply (bool_decide_unpack _); vm_compute; exact I|]. apply (bool_decide_unpack _). vm_compute. exact I.
  - apply (bool_decide_unpack _). vm_compute. exact I.
Qed.

(* the premises of C08_signal_probability hold for ex_c and h (with the brute-force solver the probability is 2/4) *)
Example C08_ex_prob : lint_clean ex_c ∧ bb_free ex_c ∧ closed (c_g ex_c) ∧ acyclic (c_g ex_c) ∧ "h" ∈ dom (c_g ex_c).
Proof.
  split; [apply (bool_decide_unpack _); vm_compute; exact I|]. split; [reflexivity|].
  split; [apply closedb_spec; vm_compute; reflexivity|]. split; [apply acyclicb_sound; vm_compute; reflexivity|].
  apply (bool_decide_unpack _). vm_compute. exact I.
Qed.

(* the solver hypotheses are satisfiable: exhaustive search over the variables of the formula is sound and complete *)
Example C08_solver_exists : solver_ok brute.
Proof. split; [exact brute_sound|exact brute_complete]. Qed.
