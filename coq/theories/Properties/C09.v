(* C09 -- unrolling equals iterated execution.  Statements only; proofs in Proofs/UnrollProofs.v. *)
From stdpp Require Import strings gmap sets.
From CG Require Import Model.Unroll.
Open Scope string_scope.
