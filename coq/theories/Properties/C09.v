(* C09 -- unrolling equals iterated execution.  Statements only; proofs in Proofs/Unroll*.v, Proofs/FlopLink.v.

   Model: Model/Unroll.v `unroll` / `sequential_unroll` (API-level mirrors of tx.unroll / tx.sequential_unroll),
   `unroll_closed` / `unroll_iomap` (closed form of the result of unroll), `run` (iterated evalc of the sequential machine)
   and `is_run` (the same machine, relationally).  Proved, for ALL acyclic circuits, ALL n and ALL state pairings: the
   simulation clause (by induction on the step), the free-input clause and the io-map shape of the closed form, and that
   `run` is the unique run.  `C09_model_is_closed_form` / `C09_seq_model_is_closed_form` link the API-level models to
   the closed forms (graph and io-map equality whenever the model returns), so `C09_unroll_partial` and
   `C09_sequential_unroll_partial` are about the models themselves.  Inside the guards the model returns (`C09_total`) and its
   result is lint-clean, so `C09_unroll` is the unroll clause of the property about the API-level model with nothing left to the
   per-case oracle.  For sequential circuits `C09_sequential_unroll_full` is the sequential clause about the model AND the flop circuit
   itself (cycle-accurate semantics `flop_run`; stages S1 `C09_flop_run_is_run` / `C09_flop_run_unique`, S2 `C09_stripped_is_flop_run`,
   S3 io map / initial values / output marks; proofs in Proofs/FlopLink.v). *)
From stdpp Require Import strings gmap sets fin_sets.
From CG Require Import Base.Oracle Model.Unroll Model.Lint Proofs.UnrollProofs Proofs.UnrollLink Proofs.UnrollTotal Proofs.UnrollModelTotal Proofs.FlopSemantics Proofs.RemoveNodes Proofs.FlopLink.
Open Scope string_scope.

(* the node the map gives for io o at step t carries the value obtained by running c for t+1 steps, the initial state
   and the per-step inputs being read off the unrolled circuit's own free inputs *)
Theorem C09_unroll_simulates_partial : ∀ c n sio prefix w,
  closed c → acyclic c → free_are_inputs c →
  NoDup (unroll_nodes c n sio prefix).*1 →
  Forall (λ kv, kv.1 ∈ io_of c ∧ kv.2 ∈ inputs c) sio →
  consistent (unroll_closed c n sio prefix) w →
  let st := λ v, w (io_name v prefix 0) in
  let ins := λ t i, w (io_name i prefix t) in
  ∀ o t, o ∈ io_of c → t < n → w (io_name o prefix t) = run c sio t st ins o.
Proof. exact unroll_closed_simulates. Qed.
Print Assumptions C09_unroll_simulates_partial.

(* the io map of the closed form: io_map[io][t] = <io>_<prefix>_<t>, for every io of c *)
Theorem C09_iomap_partial : ∀ c n prefix,
  dom (unroll_iomap c n prefix) = io_of c ∧
  ∀ io t, io ∈ io_of c → t < n → unroll_iomap c n prefix !! io ≫= (.!! t) = Some (io_name io prefix t).
Proof. intros. split; [apply unroll_iomap_dom|apply unroll_iomap_lookup]. Qed.
Print Assumptions C09_iomap_partial.

(* free inputs are exactly the step-0 state inputs and the per-step copies of the other inputs *)
Theorem C09_free_inputs_partial : ∀ c n sio prefix x, NoDup (unroll_nodes c n sio prefix).*1 →
  (x ∈ inputs (unroll_closed c n sio prefix) ↔
   ∃ t io, t < n ∧ io ∈ inputs c ∧ x = io_name io prefix t ∧ (state_src sio io = None ∨ t = 0)).
Proof. intros. by apply unroll_closed_inputs. Qed.
Print Assumptions C09_free_inputs_partial.

(* `run` (iterated evalc) is a run of the machine, and runs are unique: the relational and the executable semantics coincide *)
Theorem C09_run_is_run : ∀ c sio st ins t, closed c → acyclic c → free_are_inputs c →
  is_run c sio st ins t (run c sio t st ins).
Proof. intros. by apply run_is_run. Qed.
Print Assumptions C09_run_is_run.
Theorem C09_run_unique : ∀ c sio st ins t x y, closed c → acyclic c → free_are_inputs c → (∀ kv, kv ∈ sio → kv.1 ∈ dom c) →
  is_run c sio st ins t x → is_run c sio st ins t y → agrees (dom c) x y.
Proof. intros. by eapply is_run_unique. Qed.
Print Assumptions C09_run_unique.
(* evalc needs no per-case certificate on closed acyclic circuits *)
Theorem C09_evalc_consistent : ∀ c a, closed c → acyclic c → consistent c (evalc c a).
Proof. exact evalc_consistent. Qed.
Print Assumptions C09_evalc_consistent.

(* sequential_unroll: a circuit that differs from the plain unrolling of the stripped circuit cs only by output marks and by
   step-0 state inputs turned into constants (`weaker`; decided per case for the recorded result by Run_C09.agree)
   simulates cs cycle by cycle from whatever its step-0 state nodes carry (the given constants, or free values) *)
Theorem C09_sequential_simulates_partial : ∀ cs n sio prefix U' w,
  closed cs → acyclic cs → free_are_inputs cs →
  NoDup (unroll_nodes cs n sio prefix).*1 →
  Forall (λ kv, kv.1 ∈ io_of cs ∧ kv.2 ∈ inputs cs) sio →
  weaker (unroll_closed cs n sio prefix) U' → consistent U' w →
  let st := λ v, w (io_name v prefix 0) in
  let ins := λ t i, w (io_name i prefix t) in
  ∀ o t, o ∈ io_of cs → t < n → w (io_name o prefix t) = run cs sio t st ins o.
Proof. exact seq_result_simulates. Qed.
Print Assumptions C09_sequential_simulates_partial.

(* --- THE LINK: whenever the API-level models (Base/Api.v calls in source order) return, they return the closed forms.
       Proved through the specifications of add / connect / set_type / set_output / add_subcircuit (C06, C07). --- *)
Theorem C09_model_is_closed_form : ∀ C n sio prefix U m,
  inputs_undriven (c_g C) → (∀ kv, kv ∈ sio → kv.2 ∈ inputs (c_g C)) → NoDup sio.*2 →
  unroll_names_ok (c_g C) n sio prefix →
  unroll C n sio prefix = Ok (U, m) →
  U = {| c_name := "circuit"; c_g := unroll_closed (c_g C) n sio prefix; c_bbs := ∅ |} ∧ m = unroll_iomap (c_g C) n prefix.
Proof. exact unroll_closed_form. Qed.
Print Assumptions C09_model_is_closed_form.
Theorem C09_seq_model_is_closed_form : ∀ C n d q ign afo iv ru prefix U m CS sio,
  seq_stripped C d q ign ru = Ok (CS, sio) →
  inputs_undriven (c_g CS) → (∀ kv, kv ∈ sio → kv.2 ∈ inputs (c_g CS)) → NoDup sio.*2 →
  unroll_names_ok (c_g CS) n sio prefix → iv_ok C iv →
  sequential_unroll C n d q ign afo iv ru prefix = Ok (U, m) →
  weaker (unroll_closed (c_g CS) n sio prefix) (c_g U) ∧ m = unroll_iomap (c_g CS) n prefix.
Proof. exact seq_closed_form. Qed.
Print Assumptions C09_seq_model_is_closed_form.

(* --- the property about the models (DESIGN.md C09_unroll): what `unroll C n sio prefix` returns has the io map
       io_map[o][t] = <o>_<prefix>_<t>, free inputs = step-0 state inputs + per-step copies of the other inputs, and every
       consistent valuation carries at io_map[o][t] the value of running c for t+1 steps.  Missing for the unconditional
       statement: nothing (see C09_unroll below). --- *)
Theorem C09_unroll_partial : ∀ C n sio prefix U m,
  lint_clean C → closed (c_g C) → acyclic (c_g C) → free_are_inputs (c_g C) →
  sio_ok (c_g C) sio → unroll_names_ok (c_g C) n sio prefix →
  unroll C n sio prefix = Ok (U, m) →
  c_bbs U = ∅ ∧ dom m = io_of (c_g C) ∧
  (∀ x, x ∈ inputs (c_g U) ↔ ∃ t io, t < n ∧ io ∈ inputs (c_g C) ∧ x = io_name io prefix t ∧ (state_src sio io = None ∨ t = 0)) ∧
  ∀ w, consistent (c_g U) w →
    let st := λ v, w (io_name v prefix 0) in
    let ins := λ t i, w (io_name i prefix t) in
    ∀ o t, o ∈ io_of (c_g C) → t < n →
      m !! o ≫= (.!! t) = Some (io_name o prefix t) ∧ w (io_name o prefix t) = run (c_g C) sio t st ins o.
Proof. exact unroll_spec. Qed.
Print Assumptions C09_unroll_partial.
(* sequential_unroll: whatever it returns simulates the stripped circuit (flop pins turned into io, other pins removed)
   cycle by cycle, from the constants / free values its step-0 state nodes carry *)
Theorem C09_sequential_unroll_partial : ∀ C n d q ign afo iv ru prefix U m CS sio,
  seq_stripped C d q ign ru = Ok (CS, sio) →
  lint_clean CS → closed (c_g CS) → acyclic (c_g CS) → free_are_inputs (c_g CS) →
  sio_ok (c_g CS) sio → unroll_names_ok (c_g CS) n sio prefix → iv_ok C iv →
  sequential_unroll C n d q ign afo iv ru prefix = Ok (U, m) →
  dom m = io_of (c_g CS) ∧
  ∀ w, consistent (c_g U) w →
    let st := λ v, w (io_name v prefix 0) in
    let ins := λ t i, w (io_name i prefix t) in
    ∀ o t, o ∈ io_of (c_g CS) → t < n →
      m !! o ≫= (.!! t) = Some (io_name o prefix t) ∧ w (io_name o prefix t) = run (c_g CS) sio t st ins o.
Proof. exact seq_spec. Qed.
Print Assumptions C09_sequential_unroll_partial.

(* --- TOTALITY: inside the guards every call of the construction API made by `unroll` is accepted, so it returns --- *)
Theorem C09_total : ∀ C n sio prefix,
  lint_clean C → c_bbs C = ∅ → plain (c_g C) → valid_names (c_g C) → 1 ≤ n →
  sio_ok (c_g C) sio → unroll_names_ok (c_g C) n sio prefix →
  ∃ U m, unroll C n sio prefix = Ok (U, m).
Proof. exact unroll_total. Qed.
Print Assumptions C09_total.

(* --- C09 for tx.unroll about the API-level model, unconditionally inside the guards (DESIGN.md C09_unroll): the model returns a
       lint-clean circuit and an io map with io_map[o][t] = <o>_<prefix>_<t>; its free inputs are exactly the step-0 state
       inputs and the per-step copies of the other inputs; every consistent valuation carries at io_map[o][t] the value of
       running c for t+1 steps.  Guards: `plain` (no bb_input / bb_output typed node), `valid_names`, `free_are_inputs` (no x
       constant), `sio_ok` (state outputs are outputs, state inputs distinct inputs), dot-free prefix, `unroll_names_ok`. --- *)
Theorem C09_unroll : ∀ C n sio prefix,
  lint_clean C → c_bbs C = ∅ → closed (c_g C) → acyclic (c_g C) → plain (c_g C) → valid_names (c_g C) → free_are_inputs (c_g C) →
  1 ≤ n → has_dot prefix = false → sio_ok (c_g C) sio → unroll_names_ok (c_g C) n sio prefix →
  ∃ U m, unroll C n sio prefix = Ok (U, m) ∧
    c_bbs U = ∅ ∧ lint_clean U ∧ dom m = io_of (c_g C) ∧
    (∀ x, x ∈ inputs (c_g U) ↔ ∃ t io, t < n ∧ io ∈ inputs (c_g C) ∧ x = io_name io prefix t ∧ (state_src sio io = None ∨ t = 0)) ∧
    ∀ w, consistent (c_g U) w →
      let st := λ v, w (io_name v prefix 0) in
      let ins := λ t i, w (io_name i prefix t) in
      ∀ o t, o ∈ io_of (c_g C) → t < n →
        m !! o ≫= (.!! t) = Some (io_name o prefix t) ∧ w (io_name o prefix t) = run (c_g C) sio t st ins o.
Proof. exact unroll_correct. Qed.
Print Assumptions C09_unroll.

(* sequential_unroll about the model, given that the stripping succeeds (seq_stripped = Ok: no name clash of <inst>_<pin>, D/Q pins
   exist): the model RETURNS, and what it returns simulates the stripped circuit cycle by cycle *)
Theorem C09_sequential_unroll_model : ∀ C n d q ign afo iv ru prefix CS sio,
  seq_stripped C d q ign ru = Ok (CS, sio) →
  lint_clean CS → c_bbs CS = ∅ → closed (c_g CS) → acyclic (c_g CS) → plain (c_g CS) → valid_names (c_g CS) → free_are_inputs (c_g CS) →
  1 ≤ n → sio_ok (c_g CS) sio → unroll_names_ok (c_g CS) n sio prefix → iv_ok C iv → iv_addable iv →
  ∃ U m, sequential_unroll C n d q ign afo iv ru prefix = Ok (U, m) ∧ dom m = io_of (c_g CS) ∧
    ∀ w, consistent (c_g U) w →
      let st := λ v, w (io_name v prefix 0) in
      let ins := λ t i, w (io_name i prefix t) in
      ∀ o t, o ∈ io_of (c_g CS) → t < n →
        m !! o ≫= (.!! t) = Some (io_name o prefix t) ∧ w (io_name o prefix t) = run (c_g CS) sio t st ins o.
Proof. exact seq_correct. Qed.
Print Assumptions C09_sequential_unroll_model.

(* --- what is NOT proved (visible; decided per case by Run_C09) --- *)
(* the closed form passes lint, hence so does whatever `unroll` returns *)
Theorem C09_result_lint_clean : ∀ C n sio prefix nm,
  lint_clean C → c_bbs C = ∅ → startpoints (c_g C) = inputs (c_g C) → has_dot prefix = false →
  NoDup (unroll_nodes (c_g C) n sio prefix).*1 →
  lint_clean {| c_name := nm; c_g := unroll_closed (c_g C) n sio prefix; c_bbs := ∅ |}.
Proof. exact unroll_closed_lint_clean. Qed.
Print Assumptions C09_result_lint_clean.
Theorem C09_unroll_lint_clean_partial : ∀ C n sio prefix U m,
  lint_clean C → c_bbs C = ∅ → startpoints (c_g C) = inputs (c_g C) → has_dot prefix = false →
  sio_ok (c_g C) sio → unroll_names_ok (c_g C) n sio prefix →
  unroll C n sio prefix = Ok (U, m) → lint_clean U.
Proof.
  intros C n sio prefix U m Hl Hb Hsp Hp (Hs1 & _ & Hs3) Hnm Hok.
  destruct (unroll_closed_form C n sio prefix U m (lint_clean_inputs_undriven9 C Hl)) as [-> _]; try done.
  - intros kv Hkv. rewrite Forall_forall in Hs1. by apply Hs1.
  - apply unroll_closed_lint_clean; try done. apply Hnm.
Qed.
Print Assumptions C09_unroll_lint_clean_partial.
(* --- the flop circuit itself: cycle-accurate semantics (state = Q pins, next state = D pins, Model/Unroll.v `flop_run`) --- *)
(* S1: the semantics is well defined: `flop_run` is a run of the flop circuit over its free nodes, and runs are unique *)
Theorem C09_flop_run_is_run : ∀ C d q st ins t, closed (c_g C) → acyclic (c_g C) →
  is_runF (c_g C) (flop_pairs C d q) st ins t (flop_run C d q t st ins).
Proof. exact flop_run_is_run. Qed.
Print Assumptions C09_flop_run_is_run.
Theorem C09_flop_run_unique : ∀ C d q st ins t x, closed (c_g C) → acyclic (c_g C) →
  (∀ b, b ∈ dom (c_bbs C) → pin b d ∈ dom (c_g C)) →
  is_runF (c_g C) (flop_pairs C d q) st ins t x → agrees (dom (c_g C)) x (flop_run C d q t st ins).
Proof. exact flop_run_unique. Qed.
Print Assumptions C09_flop_run_unique.
(* S2a: removing nodes that drive no kept node (ignored / non-D/Q pins, unloaded inputs) does not change any kept node:
   every consistent valuation of the pruned graph extends (by evalc) to the whole graph and is unchanged on the kept nodes *)
Theorem C09_remove_nodes_extend : ∀ h ns x,
  (∀ n i, h !! n = Some i → n ∉ (list_to_set ns : gset string) → n_fi i ## (list_to_set ns : gset string)) →
  closed h → acyclic h → consistent (Api.remove_g h ns) x →
  consistent h (evalc h x) ∧ agrees (free_nodes h) (evalc h x) x ∧
  (∀ n, n ∈ dom h → n ∉ (list_to_set ns : gset string) → evalc h x n = x n).
Proof. intros h ns x Hd. by apply remove_consistent_extend. Qed.
Print Assumptions C09_remove_nodes_extend.

(* S2b: the stripped circuit's run IS the flop circuit's cycle-accurate run, read through the pin renaming ρ (<inst>.<pin> -> <inst>_<pin>),
   at every node of the flop circuit that survives the stripping; st / ins are pulled back along ρ.  Guards (Model/Unroll.v):
   `flop_names_ok` (dot-free instance / pin names, unambiguous flattened names that are not node names unless the pin is ignored,
   every pin-typed node is a registered pin), `flop_wiring_ok` (only Q pins are read: bb_input pins have no fan-out, other output pins are unloaded), D and Q
   not ignored.  (The statement left open at hand-over lacked exactly these guards.) *)
Theorem C09_stripped_is_flop_run : ∀ C d q ign ru CS sio st ins t n,
  seq_stripped C d q ign ru = Ok (CS, sio) → lint_clean C → closed (c_g C) → acyclic (c_g C) → closed (c_g CS) → acyclic (c_g CS) →
  flop_names_ok C ign → flop_wiring_ok C q → d ∉ ign → q ∉ ign → (∀ kv, kv ∈ sio → kv.1 ∈ dom (c_g CS)) →
  let ρ := pin_rho (kept_pins (c_g C) ign) in
  n ∈ dom (c_g C) → ρ n ∈ dom (c_g CS) →
  flop_run C d q t (st ∘ ρ) (λ t, ins t ∘ ρ) n = run (c_g CS) sio t st ins (ρ n).
Proof. exact stripped_is_flop_run. Qed.
Print Assumptions C09_stripped_is_flop_run.

(* --- C09, sequential clause, about the model and the FLOP CIRCUIT ITSELF: inside the guards sequential_unroll RETURNS; its io map has the
   D and Q pin of every flop under the flattened name, every primary output under its own name and no other pin (a kept non-D/Q pin is not
   even a node of the stripped circuit, and every node of the stripped circuit stems from a node that is not an ignored pin; a net that
   merely carries the name <inst>_<ignored pin> stays, fix 48b5241); every consistent valuation of the result carries
   at io_map[ρ x][t] the value of node x of the flop circuit in cycle t of the cycle-accurate simulation `flop_run` (state = Q pins, next
   state = D pins) started from the values of the step-0 Q nodes, which are free inputs or the given constants (None / '0' / '1' / 'x' /
   per-flop dict); the flop data outputs are outputs exactly when add_flop_outputs, all other outputs are the per-step copies of the
   stripped circuit's outputs.  Guards: those of C09_unroll on the stripped circuit CS (`lint_clean CS` excludes a LOADED non-D/Q output
   pin, whose buffer is left undriven -- coordinator's decision: guard, see docs/C09.md), `flop_names_ok`, `flop_wiring_ok`, D / Q not
   ignored, dict keys are instances and distinct. --- *)
Theorem C09_sequential_unroll_full : ∀ C n d q ign afo iv ru prefix CS sio,
  seq_stripped C d q ign ru = Ok (CS, sio) →
  lint_clean C → closed (c_g C) → acyclic (c_g C) → flop_names_ok C ign → flop_wiring_ok C q → d ∉ ign → q ∉ ign →
  lint_clean CS → c_bbs CS = ∅ → closed (c_g CS) → acyclic (c_g CS) → plain (c_g CS) → valid_names (c_g CS) → free_are_inputs (c_g CS) →
  1 ≤ n → sio_ok (c_g CS) sio → unroll_names_ok (c_g CS) n sio prefix → iv_ok C iv → iv_addable iv → iv_nodup iv →
  let ρ := pin_rho (kept_pins (c_g C) ign) in
  ∃ U m, sequential_unroll C n d q ign afo iv ru prefix = Ok (U, m) ∧ dom m = io_of (c_g CS) ∧
    (∀ b, b ∈ dom (c_bbs C) → ρ (Api.pin b d) = pre b d ∧ ρ (Api.pin b q) = pre b q ∧ pre b d ∈ dom m ∧ pre b q ∈ dom m) ∧
    (∀ b bb p, c_bbs C !! b = Some bb → p ∈ bb_pinset bb → p ≠ d → p ≠ q → p ∉ ign → pre b p ∉ dom (c_g CS) ∧ pre b p ∉ dom m) ∧
    (∀ k, k ∈ dom (c_g CS) → ∃ x, x ∈ dom (c_g C) ∧ x ∉ ignored_pins (c_g C) ign ∧ k = ρ x) ∧
    (∀ o, o ∈ outputs (c_g C) → o ∉ bb_pins (c_g C) → ρ o = o ∧ o ∈ outputs (c_g CS) ∧ o ∈ dom m) ∧
    (∀ w, consistent (c_g U) w →
      let st := λ v, w (io_name (ρ v) prefix 0) in
      let ins := λ t i, w (io_name (ρ i) prefix t) in
      ∀ x t, x ∈ dom (c_g C) → ρ x ∈ dom m → t < n →
        m !! ρ x ≫= (.!! t) = Some (io_name (ρ x) prefix t) ∧ w (io_name (ρ x) prefix t) = flop_run C d q t st ins x) ∧
    (∀ b, b ∈ dom (c_bbs C) → ty (c_g U) (io_name (pre b q) prefix 0) = Some (default Input (init_of iv b))) ∧
    (∀ w, consistent (c_g U) w → ∀ b, b ∈ dom (c_bbs C) →
       (init_of iv b = Some C0 → w (io_name (pre b q) prefix 0) = false) ∧ (init_of iv b = Some C1 → w (io_name (pre b q) prefix 0) = true)) ∧
    (∀ b t, b ∈ dom (c_bbs C) → t < n → io_name (pre b d) prefix t ∈ outputs (c_g U) ↔ afo = true) ∧
    (∀ x, (∀ b t, b ∈ dom (c_bbs C) → t < n → x ≠ io_name (pre b d) prefix t) →
       x ∈ outputs (c_g U) ↔ ∃ t o, t < n ∧ o ∈ outputs (c_g CS) ∧ x = io_name o prefix t).
Proof. exact seq_flop_full. Qed.
Print Assumptions C09_sequential_unroll_full.

(* --- non-vacuity of the sequential clause: a toggle flop  o = a xor q,  ff.d <- o,  clocked by clk; two steps from q = 0 --- *)
Definition ex_fg : circuit :=
  {[ "a" := mk_node Input false ∅ ]} ∪ {[ "clk" := mk_node Input false ∅ ]} ∪
  {[ "ff.clk" := mk_node BbIn false {[ "clk" ]} ]} ∪ {[ "ff.d" := mk_node BbIn false {[ "o" ]} ]} ∪
  {[ "ff.q" := mk_node BbOut false ∅ ]} ∪ {[ "qb" := mk_node Buf false {[ "ff.q" ]} ]} ∪
  {[ "o" := mk_node Xor true {[ "a"; "qb" ]} ]}.
Definition ex_F := {| c_name := "f"; c_g := ex_fg; c_bbs := {[ "ff" := {| bb_name := "dff"; bb_in := {[ "clk"; "d" ]}; bb_out := {[ "q" ]} |} ]} |}.
Definition ex_CS : Circuit * list (string * string) := match seq_stripped ex_F "d" "q" [] true with Ok r => r | _ => (ex_F, []) end.
Example C09_ex_seq_stripped : seq_stripped ex_F "d" "q" [] true = Ok ex_CS ∧ size (c_g ex_CS.1) = 5 ∧ ex_CS.2 = [("ff_d", "ff_q")].
Proof. split; [|split]; apply (bool_decide_unpack _); vm_compute; reflexivity. Qed.
Example C09_ex_seq_guards :
  lint_clean ex_F ∧ closed ex_fg ∧ acyclic ex_fg ∧ flop_names_ok ex_F [] ∧ flop_wiring_ok ex_F "q" ∧
  lint_clean ex_CS.1 ∧ c_bbs ex_CS.1 = ∅ ∧ closed (c_g ex_CS.1) ∧ acyclic (c_g ex_CS.1) ∧ plain (c_g ex_CS.1) ∧ valid_names (c_g ex_CS.1) ∧
  free_are_inputs (c_g ex_CS.1) ∧ sio_ok (c_g ex_CS.1) ex_CS.2 ∧ unroll_names_ok (c_g ex_CS.1) 2 ex_CS.2 "cg_unroll".
Proof.
  split; [vm_compute; reflexivity|]. split; [apply closedb_spec; vm_compute; reflexivity|]. split; [apply acyclicb_sound; vm_compute; reflexivity|].
  split; [apply (bool_decide_unpack _); vm_compute; reflexivity|]. split; [apply (bool_decide_unpack _); vm_compute; reflexivity|].
  split; [vm_compute; reflexivity|]. split; [apply (bool_decide_unpack _); vm_compute; reflexivity|].
  split; [apply closedb_spec; vm_compute; reflexivity|]. split; [apply acyclicb_sound; vm_compute; reflexivity|].
  split; [|split; [|split; [|split]]].
  - change (map_Forall (λ (_ : string) i, n_ty i ≠ BbIn ∧ n_ty i ≠ BbOut ∧ n_ty i ≠ Unsup ∧ n_ty i ≠ NoTy) (c_g ex_CS.1)).
    apply (bool_decide_unpack _). vm_compute. reflexivity.
  - change (set_Forall (λ n : string, n ≠ "" ∧ starts_digit n = false) (dom (c_g ex_CS.1))).
    apply (bool_decide_unpack _). vm_compute. reflexivity.
  - apply (bool_decide_unpack _). vm_compute. reflexivity.
  - apply (bool_decide_unpack _). vm_compute. reflexivity.
  - apply unroll_names_okb_spec. vm_compute. reflexivity.
Qed.
Example C09_ex_seq_iv : iv_ok ex_F (IvAll C0) ∧ iv_addable (IvAll C0) ∧ iv_nodup (IvAll C0) ∧
  iv_ok ex_F (IvDict [("ff", C1)]) ∧ iv_addable (IvDict [("ff", C1)]) ∧ iv_nodup (IvDict [("ff", C1)]).
Proof.
  split; [done|]. split; [apply (bool_decide_unpack _); vm_compute; reflexivity|]. split; [done|].
  split; [intros kt ->%elem_of_list_singleton; apply (bool_decide_unpack _); vm_compute; reflexivity|].
  split; [intros kt ->%elem_of_list_singleton; apply (bool_decide_unpack _); vm_compute; reflexivity|].
  apply (bool_decide_unpack _). vm_compute. reflexivity.
Qed.
(* what the model returns for it: the unloaded clock input is swept, the step-0 Q node is the constant 0, the D copies are outputs *)
Example C09_ex_seq_result :
  match sequential_unroll ex_F 2 "d" "q" [] true (IvAll C0) true "cg_unroll" with
  | Ok (U, m) => bool_decide (dom m = {[ "a"; "ff_d"; "ff_q"; "o" ]}) && bool_decide (ty (c_g U) "ff_q_cg_unroll_0" = Some C0) &&
                 bool_decide ("ff_d_cg_unroll_1" ∈ outputs (c_g U)) && bool_decide (size (c_g U) = 18)
  | _ => false end = true.
Proof. vm_compute. reflexivity. Qed.
(* C09-F4: a gated clock net that carries the name ff_clk, the clk pin ignored: inside the guards (outside them when clk is not ignored),
   and the net survives in what the model returns *)
Definition ex_F4 := {| c_name := "f"; c_bbs := c_bbs ex_F; c_g :=
  {[ "a" := mk_node Input false ∅ ]} ∪ {[ "en" := mk_node Input false ∅ ]} ∪ {[ "clk" := mk_node Input false ∅ ]} ∪
  {[ "ff_clk" := mk_node And false {[ "clk"; "en" ]} ]} ∪ {[ "ff.clk" := mk_node BbIn false {[ "ff_clk" ]} ]} ∪
  {[ "ff.d" := mk_node BbIn false {[ "o" ]} ]} ∪ {[ "ff.q" := mk_node BbOut false ∅ ]} ∪ {[ "qb" := mk_node Buf false {[ "ff.q" ]} ]} ∪
  {[ "o" := mk_node Xor true {[ "a"; "qb" ]} ]} ∪ {[ "dbg" := mk_node Or true {[ "a"; "ff_clk" ]} ]} |}.
Example C09_ex_F4 :
  bool_decide (flop_names_ok ex_F4 ["clk"]) && negb (bool_decide (flop_names_ok ex_F4 [])) && bool_decide (flop_wiring_ok ex_F4 "q") &&
  lint_cleanb ex_F4 && closedb (c_g ex_F4) && acyclicb (c_g ex_F4) &&
  match seq_stripped ex_F4 "d" "q" ["clk"] true with
  | Ok (CS, sio) => lint_cleanb CS && closedb (c_g CS) && acyclicb (c_g CS) && bool_decide (free_nodes (c_g CS) = inputs (c_g CS)) &&
                    sio_okb (c_g CS) sio && unroll_names_okb (c_g CS) 2 sio "cg_unroll" && bool_decide ("ff_clk" ∈ dom (c_g CS))
  | _ => false end &&
  match sequential_unroll ex_F4 2 "d" "q" ["clk"] false IvNone true "cg_unroll" with
  | Ok (U, m) => bool_decide (fanin (c_g U) "unrolled_0_dbg" = {[ "unrolled_0_a"; "unrolled_0_ff_clk" ]})
  | _ => false end = true.
Proof. vm_compute. reflexivity. Qed.
(* the flop circuit really runs: q0 = 0, a = 1 in both cycles: o = 1, then (q = 1) o = 0 *)
Example C09_ex_flop_run : let ins := λ t i, bool_decide (i = "a") in
  flop_run ex_F "d" "q" 0 (λ _, false) ins "o" = true ∧ flop_run ex_F "d" "q" 1 (λ _, false) ins "o" = false.
Proof. split; vm_compute; reflexivity. Qed.

(* --- non-vacuity: a toggle/accumulate machine  o = s xor a,  state s <- o, two steps --- *)
Definition ex_c : circuit :=
  {[ "a" := mk_node Input false ∅ ]} ∪ {[ "s" := mk_node Input false ∅ ]} ∪ {[ "o" := mk_node Xor true {[ "a"; "s" ]} ]}.
Definition ex_C := {| c_name := "t"; c_g := ex_c; c_bbs := ∅ |}.
Example C09_ex_hyps : closed ex_c ∧ acyclic ex_c ∧ free_are_inputs ex_c ∧ NoDup (unroll_nodes ex_c 2 [("o", "s")] "cg_unroll").*1 ∧
  Forall (λ kv, kv.1 ∈ io_of ex_c ∧ kv.2 ∈ inputs ex_c) [("o", "s")].
Proof.
  split; [apply closedb_spec; vm_compute; reflexivity|].
  split; [apply acyclicb_sound; vm_compute; reflexivity|].
  split; [apply (bool_decide_unpack _); vm_compute; reflexivity|].
  split; [apply (bool_decide_unpack _); vm_compute; reflexivity|].
  apply (bool_decide_unpack _); vm_compute; reflexivity.
Qed.
Example C09_ex_guards : lint_clean ex_C ∧ plain ex_c ∧ valid_names ex_c ∧ sio_ok ex_c [("o", "s")] ∧ unroll_names_ok ex_c 2 [("o", "s")] "cg_unroll".
Proof.
  split; [vm_compute; reflexivity|]. split; [|split; [|split]].
  - change (map_Forall (λ (_ : string) i, n_ty i ≠ BbIn ∧ n_ty i ≠ BbOut ∧ n_ty i ≠ Unsup ∧ n_ty i ≠ NoTy) ex_c).
    apply (bool_decide_unpack _). vm_compute. reflexivity.
  - change (set_Forall (λ n : string, n ≠ "" ∧ starts_digit n = false) (dom ex_c)).
    apply (bool_decide_unpack _). vm_compute. reflexivity.
  - apply (bool_decide_unpack _). vm_compute. reflexivity.
  - apply unroll_names_okb_spec. vm_compute. reflexivity.
Qed.
Example C09_ex_model_is_closed_form :
  unroll ex_C 2 [("o", "s")] "cg_unroll" =
    Ok ({| c_name := "circuit"; c_g := unroll_closed ex_c 2 [("o", "s")] "cg_unroll"; c_bbs := ∅ |}, unroll_iomap ex_c 2 "cg_unroll") ∧
  size (unroll_closed ex_c 2 [("o", "s")] "cg_unroll") = 12.
Proof. split; apply (bool_decide_unpack _); vm_compute; reflexivity. Qed.
(* the machine really runs: with s0 = 0, a0 = 1, a1 = 1 the output is 1 then 0 *)
Example C09_ex_run : let ins := λ t i, bool_decide (i = "a") in
  run ex_c [("o", "s")] 0 (λ _, false) ins "o" = true ∧ run ex_c [("o", "s")] 1 (λ _, false) ins "o" = false.
Proof. split; vm_compute; reflexivity. Qed.
