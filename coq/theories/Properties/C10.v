(* C10 -- the ternary encoding computes Kleene three-valued simulation.  Statements only; proofs in Proofs/TernaryProofs.v. *)
From stdpp Require Import strings gmap sets.
From CG Require Import Base.Cases Base.Oracle Model.Lint Model.Ternary Proofs.TernaryProofs Proofs.TernaryNames Proofs.TernaryModelProofs.
Open Scope string_scope.

(* obligation on the regenerated table of tx.ternary: branch tests and the gate types of companions and helpers are
   the documented ones (every theorem below is about the model instantiated with the generated table) *)
Theorem C10_table_ok : gen_ttab = doc_ttab.
Proof. vm_compute. reflexivity. Qed.
Print Assumptions C10_table_ok.

(* ---- one lemma per gate family, all arities: companion condition => Kleene gate function ---- *)
Theorem C10_and_family : ∀ (v : val) (m : string → string) t n (fi : gset string), t = And ∨ t = Nand →
  v n = gate_val t v fi →
  (v (m n) = true ↔ (∃ p, p ∈ fi ∧ v (m p) = true) ∧ ∀ p, p ∈ fi → v (m p) = false → v p = true) →
  Kv v m n = kgate t (Kv v m <$> elements fi).
Proof. exact and_family. Qed.
Print Assumptions C10_and_family.
Theorem C10_or_family : ∀ (v : val) (m : string → string) t n (fi : gset string), t = Or ∨ t = Nor →
  v n = gate_val t v fi →
  (v (m n) = true ↔ (∃ p, p ∈ fi ∧ v (m p) = true) ∧ ∀ p, p ∈ fi → v (m p) = false → v p = false) →
  Kv v m n = kgate t (Kv v m <$> elements fi).
Proof. exact or_family. Qed.
Print Assumptions C10_or_family.
Theorem C10_parity_family : ∀ (v : val) (m : string → string) t n (fi : gset string), t = Xor ∨ t = Xnor →
  v n = gate_val t v fi → (v (m n) = true ↔ ∃ p, p ∈ fi ∧ v (m p) = true) →
  Kv v m n = kgate t (Kv v m <$> elements fi).
Proof. exact xor_family. Qed.
Print Assumptions C10_parity_family.
Theorem C10_buf_family : ∀ (v : val) (m : string → string) t n p, t = Buf ∨ t = Not →
  v n = gate_val t v {[p]} → v (m n) = v (m p) →
  Kv v m n = kgate t (Kv v m <$> elements ({[p]} : gset string)).
Proof. exact buf_family. Qed.
Print Assumptions C10_buf_family.

(* the gadgets built from the table's gate types compute exactly those companion conditions (any fan-in set) *)
Theorem C10_ctl_gadget : ∀ (R : circuit) (m : string → string) (v : val), consistent R v →
  ∀ n (fi : gset string),
  (ctl_gadget R m (lit0 R m) n fi →
     (v (m n) = true ↔ (∃ p, p ∈ fi ∧ v (m p) = true) ∧ ∀ p, p ∈ fi → negb (v p || v (m p)) = false)) ∧
  (ctl_gadget R m (lit1 R m) n fi →
     (v (m n) = true ↔ (∃ p, p ∈ fi ∧ v (m p) = true) ∧ ∀ p, p ∈ fi → v p && negb (v (m p)) = false)).
Proof.
  intros R m v Hv n fi. split; intros H.
  - exact (ctl_sem R m v Hv _ (λ p, negb (v p || v (m p))) n fi (lit0_sem R m v Hv) H).
  - exact (ctl_sem R m v Hv _ (λ p, v p && negb (v (m p))) n fi (lit1_sem R m v Hv) H).
Qed.
Print Assumptions C10_ctl_gadget.

(* ---- whole circuit: every graph R with the gadget structure over c (tern_shape: c unchanged inside R, one companion
   gadget per node) reads, under EVERY consistent binary valuation, as a Kleene-consistent valuation of c:
   mapping[n] = 1 exactly where gate-by-gate Kleene evaluation gives X, the Kleene value at n elsewhere.
   Relational, so cyclic c included; all gate types, arities, constants. ---- *)
Theorem C10_shape_kleene : ∀ c R μ, tern_shape c R μ → ∀ v, consistent R v → kconsistent c (kof μ v).
Proof. exact tern_shape_sound. Qed.
Print Assumptions C10_shape_kleene.

(* on acyclic c the Kleene-consistent valuation is unique, so the above IS Kleene simulation of the input pattern *)
Theorem C10_kleene_unique : ∀ c (k k' : kval), closed c → acyclic c → kconsistent c k → kconsistent c k' →
  (∀ n, n ∈ inputs c → k n = k' n) → (∀ n i, c !! n = Some i → n_ty i ≠ BbOut) → ∀ n, n ∈ dom c → k n = k' n.
Proof. exact kconsistent_unique. Qed.
Print Assumptions C10_kleene_unique.

(* Kleene evaluation is sound for every replacement of X by 0/1 ... *)
Theorem C10_kleene_sound : ∀ c (k : kval) (w : val), closed c → acyclic c → only_inputs_free c →
  kconsistent c k → consistent c w → (∀ n, n ∈ inputs c → refines1 (k n) (w n)) → ∀ n, n ∈ dom c → refines1 (k n) (w n).
Proof. exact kleene_sound. Qed.
Print Assumptions C10_kleene_sound.
(* ... hence: whenever mapping[n] is 0, n carries the value it has in c under every completion of the X inputs *)
Theorem C10_completion : ∀ c R μ (v w : val), tern_shape c R μ → closed c → acyclic c → only_inputs_free c →
  consistent R v → consistent c w →
  (∀ i, i ∈ inputs c → v (mu_at μ i) = false → w i = v i) →
  ∀ n, n ∈ dom c → v (mu_at μ n) = false → w n = v n.
Proof. exact tern_shape_completion. Qed.
Print Assumptions C10_completion.

(* ---- the model of tx.ternary itself (no structural hypothesis): for every lint-clean C whose graph is closed (the networkx
   invariant "edge endpoints are nodes"), every recorded node order and fan-in orders, if the model returns (R, μ)
   [it returns Ok exactly when C has no blackbox and every node type is one of the eleven handled ones], then R contains c
   unchanged, μ has one companion per node, every node has its companion gadget, and EVERY consistent valuation of R reads as a
   Kleene-consistent valuation of c: mapping[n] = 1 exactly where Kleene evaluation gives X, the Kleene value at n elsewhere.
   Proof: invariant of the sequential construction (uid freshness through the fold, companion names injective and never equal
   to a helper name, non-placeholder entries never change) + the per-family lemmas above. ---- *)
Theorem C10_ternary : ∀ C nodes fo R μ, lint_clean C → closed (c_g C) → ternary C nodes fo = Ok (R, μ) →
  dom μ = dom (c_g C) ∧ c_g C ⊆ c_g R ∧
  (∀ n i, c_g C !! n = Some i → comp_ok (c_g R) (mu_name (c_g C)) n i) ∧
  ∀ v, consistent (c_g R) v → kconsistent (c_g C) (kof μ v).
Proof. exact model_kleene. Qed.
Print Assumptions C10_ternary.
(* corollary on acyclic C: whenever mapping[n] is 0, n has the value it has in c under every completion of the X inputs *)
Theorem C10_ternary_completion : ∀ C nodes fo R μ (v w : val), lint_clean C → closed (c_g C) → ternary C nodes fo = Ok (R, μ) →
  acyclic (c_g C) → only_inputs_free (c_g C) → consistent (c_g R) v → consistent (c_g C) w →
  (∀ i, i ∈ inputs (c_g C) → v (mu_at μ i) = false → w i = v i) →
  ∀ n, n ∈ dom (c_g C) → v (mu_at μ n) = false → w n = v n.
Proof. exact model_completion. Qed.
Print Assumptions C10_ternary_completion.
(* the names: uid is fresh; companion names determine their node and never equal a helper name *)
Theorem C10_names : (∀ c n, uid c n ∉ dom c) ∧ (∀ U U' n n', uid_in U (n ++ "_X") = uid_in U' (n' ++ "_X") → n = n') ∧
  (∀ x s U U' n, s ∈ helper_suffixes → uid_in U (x ++ s) ≠ uid_in U' (n ++ "_X")).
Proof. split; [exact uid_fresh|split; [exact comp_name_inj|exact helper_ne_comp]]. Qed.
Print Assumptions C10_names.

(* the sequential construction always ends in the decidable gadget structure tern_shape, which includes that the inputs of R
   are exactly the inputs of c and their companions *)
Theorem C10_model_shape : ∀ C nodes fo R μ, lint_clean C → closed (c_g C) → ternary C nodes fo = Ok (R, μ) →
  tern_shape (c_g C) (c_g R) μ.
Proof. exact model_shape. Qed.
Print Assumptions C10_model_shape.
Theorem C10_ternary_inputs : ∀ C nodes fo R μ, lint_clean C → closed (c_g C) → ternary C nodes fo = Ok (R, μ) →
  inputs (c_g R) = inputs (c_g C) ∪ set_map (mu_at μ) (inputs (c_g C)).
Proof. intros C nodes fo R μ H1 H2 H3. by destruct (model_shape C nodes fo R μ H1 H2 H3) as (_ & _ & ?). Qed.
Print Assumptions C10_ternary_inputs.

(* the result is lint-clean (every node of R is a node of c with its unchanged entry, a companion, or a helper; each passes
   every lint rule) *)
Theorem C10_ternary_lint : ∀ C nodes fo R μ, lint_clean C → closed (c_g C) → ternary C nodes fo = Ok (R, μ) → lint_clean R.
Proof. exact model_lint. Qed.
Print Assumptions C10_ternary_lint.

(* THE FULL STATEMENT (DESIGN.md appendix C, with the networkx invariant `closed` made explicit and bb_free / no_x implied by
   the Ok outcome of the model): nothing of it is left unproved *)
Theorem C10_ternary_full : ∀ C nodes fo R μ, lint_clean C → closed (c_g C) → ternary C nodes fo = Ok (R, μ) →
  bb_free C ∧ dom μ = dom (c_g C) ∧ c_g C ⊆ c_g R ∧ lint_clean R ∧
  inputs (c_g R) = inputs (c_g C) ∪ set_map (mu_at μ) (inputs (c_g C)) ∧
  ∀ v, consistent (c_g R) v → kconsistent (c_g C) (kof μ v).
Proof.
  intros C nodes fo R μ H1 H2 H3.
  destruct (model_kleene C nodes fo R μ H1 H2 H3) as (Hd & Hs & _ & Hk).
  destruct (model_shape C nodes fo R μ H1 H2 H3) as (_ & _ & Hi).
  destruct (model_inv C nodes fo R μ H1 H2 H3) as (Hb & _).
  split; [exact Hb|]. split; [done|]. split; [done|]. split; [by eapply model_lint|]. split; done.
Qed.
Print Assumptions C10_ternary_full.

(* what follows from tern_shape alone (kept: it is what `agree` checks on the recorded result via shapeb) *)
Theorem C10_ternary_partial : ∀ C nodes fo R μ, ternary C nodes fo = Ok (R, μ) →
  bb_free C ∧ bb_free R ∧ μ = mapping (c_g C) ∧ dom μ = dom (c_g C) ∧
  (tern_shape (c_g C) (c_g R) μ →
     c_g C ⊆ c_g R ∧ inputs (c_g R) = inputs (c_g C) ∪ set_map (mu_at μ) (inputs (c_g C)) ∧
     ∀ v, consistent (c_g R) v → kconsistent (c_g C) (kof μ v)).
Proof.
  intros C nodes fo R μ H. unfold ternary in H. apply ternary_ok_inv in H as (Hb & _ & -> & HbR & _ & _).
  split; [done|]. split; [unfold bb_free; by rewrite HbR|]. split; [done|]. split; [apply dom_mapping|].
  intros Hs. split; [exact (tern_shape_sub _ _ _ Hs)|]. split; [by destruct Hs as (_ & _ & ?)|]. by apply tern_shape_sound.
Qed.
Print Assumptions C10_ternary_partial.

(* the executable checks used by the oracle decide the declarative notions *)
Theorem C10_shapeb_spec : ∀ c R μ, shapeb c R μ = true ↔ tern_shape c R μ.
Proof. exact shapeb_spec. Qed.
Print Assumptions C10_shapeb_spec.
Theorem C10_kconsistentb_spec : ∀ c k, kconsistentb c k = true ↔ kconsistent c k.
Proof. exact kconsistentb_spec. Qed.
Print Assumptions C10_kconsistentb_spec.

(* ---- non-vacuity: a concrete circuit (all four gadget kinds, a constant, reconvergence, a name that collides with a
   companion name) on which the model succeeds, the gadget structure holds and all side conditions are met ---- *)
Definition ex_C : Circuit := mk "ex" [("a", Input, F, []); ("b", Input, F, []); ("a_X", Input, F, []); ("k", C1, F, []);
  ("g", Nand, F, ["a"; "b"; "k"]); ("h", Nor, T, ["g"; "a"]); ("p", Xor, T, ["h"; "b"; "a_X"]); ("q", Not, T, ["p"])] [].
Definition ex_fo (n : string) : list string :=
  if decide (n = "g") then ["b"; "k"; "a"] else if decide (n = "h") then ["a"; "g"] else
  if decide (n = "p") then ["a_X"; "h"; "b"] else if decide (n = "q") then ["p"] else [].
Definition ex_nodes := ["q"; "a"; "g"; "b"; "a_X"; "k"; "h"; "p"].
Definition ex_ok : bool :=
  match ternary ex_C ex_nodes ex_fo with
  | Ok (R, μ) => shapeb (c_g ex_C) (c_g R) μ && closedb (c_g ex_C) && acyclicb (c_g ex_C)
                 && bool_decide (only_inputs_free (c_g ex_C)) && lint_cleanb ex_C && bool_decide (μ !! "a" = Some "a_X_0")
  | _ => false end.
Example C10_example_ok : ex_ok = true.
Proof. vm_compute. reflexivity. Qed.
Example C10_example : ∃ R μ, ternary ex_C ex_nodes ex_fo = Ok (R, μ) ∧
  tern_shape (c_g ex_C) (c_g R) μ ∧ closed (c_g ex_C) ∧ acyclic (c_g ex_C) ∧ only_inputs_free (c_g ex_C) ∧ lint_clean ex_C.
Proof.
  pose proof C10_example_ok as H. unfold ex_ok in H.
  destruct (ternary ex_C ex_nodes ex_fo) as [[R μ]| | |]; [|discriminate..].
  exists R, μ. rewrite !andb_true_iff in H. destruct H as (((((H1 & H2) & H3) & H4) & H5) & H6).
  split; [reflexivity|]. split; [by apply shapeb_spec|]. split; [by apply closedb_spec|]. split; [by apply acyclicb_sound|].
  split; [by apply bool_decide_eq_true in H4|]. by apply bool_decide_eq_true in H5.
Qed.
