(* C10 -- ternary encoding computes Kleene three-valued simulation.  Statements only; proofs in Proofs/TernaryProofs.v. *)
From stdpp Require Import strings gmap sets.
From CG Require Import Model.Lint Model.Ternary Proofs.TernaryProofs.
Open Scope string_scope.

(* obligation on the regenerated table of tx.ternary: gate types of companions and helpers are the documented ones *)
Theorem C10_table_ok : gen_ttab = doc_ttab.
Proof. vm_compute. reflexivity. Qed.
Print Assumptions C10_table_ok.
