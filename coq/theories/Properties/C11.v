(* C11 -- sensitivity analyses agree with their definitions.  Statements only; proofs in Proofs/SensitivityProofs.v. *)
From stdpp Require Import strings gmap sets.
From CG Require Import Model.Sensitivity Proofs.SensitivityProofs.
Open Scope string_scope.
