(* C11 -- sensitivity analyses agree with their definitions.  Statements only; proofs in Proofs/SensitivityProofs.v (shape
   theorems, search, props-level specs, certificates) and Proofs/SensitivityModel.v (the model functions produce the shapes;
   built on the add_subcircuit / add_g inversions of the C04/C06 development).

   Reading guide.  `comb c`: closed, acyclic, every free node a primary input without fan-in, no blackbox-typed node (lint-clean,
   blackbox-free, no 'x').  `sensitization_transform`, `sensitivity_transform`: the models of tx.py written through Base/Api.v.
   `sens_shape` / `sv_shape`: "T contains the prefixed copies, ties, flipped node, xor compares, sat / popcount hook-up", stated
   by look-ups.  The two transform theorems are about the MODEL FUNCTIONS for all inputs (no shape hypothesis); the shape
   theorems are kept because `agree` of Run/Run_C11.v evaluates sound shape checkers on every recorded implementation output. *)
From Coq Require Import QArith.
From stdpp Require Import strings gmap sets.
From CG Require Import Model.Sensitivity Proofs.SensitivityProofs Proofs.SensitivityModel Proofs.SensitivityPopcount.
From CG Require Model.Logic.
Open Scope string_scope.
Open Scope nat_scope.

Definition selected (C : Circuit) (Eo : option (list string)) : list string :=
  match Eo with Some (e :: l) => e :: l | _ => elements (outputs (c_g C)) end.

(* ---- sensitization_transform (full): for every accepted call on a combinational blackbox-free circuit, under every consistent
        valuation of the result, sat = 1 iff inverting n changes a selected endpoint ---- *)
Theorem sensitization_spec : ∀ C n Eo T,
  c_bbs C = ∅ → comb (c_g C) → n ∈ dom (c_g C) → sensitization_transform C n Eo = Ok T →
  ∀ v, consistent (c_g T) v → (v "sat" = true ↔ sens_at (c_g C) n (selected C Eo) v).
Proof. exact sensitization_model_spec. Qed.
Print Assumptions sensitization_spec.
(* the model function always produces the shape (sens_sub: the mitered sub-circuit and the compared node set) *)
Theorem sensitization_model_shape : ∀ C n Eo T,
  c_bbs C = ∅ → comb (c_g C) → n ∈ dom (c_g C) → sensitization_transform C n Eo = Ok T →
  let '(SCg, Es) := sens_sub C Eo in
  sub_of SCg (c_g C) ∧ n ∈ dom SCg ∧ Es ⊆ dom SCg ∧ sens_shape SCg n Es (c_g T).
Proof. exact sens_model_facts. Qed.
Print Assumptions sensitization_model_shape.
(* ... and every graph of that shape has the property (this is what applies to the recorded implementation outputs) *)
Theorem sensitization_shape_spec : ∀ c SC n (E : gset string) T,
  closed c → acyclic c → inputs_only c → sub_of SC c → n ∈ dom SC → E ⊆ dom SC → sens_shape SC n E T →
  ∀ v, consistent T v → (v "sat" = true ↔ sens_at c n (elements E) v).
Proof. exact SensitivityProofs.sensitization_shape_spec. Qed.
Print Assumptions sensitization_shape_spec.

(* the flipped-node lemma: after `disconnect fan-in; set_type not; connect c0_n` the node is the complement of its driver *)
Theorem flipped_node : ∀ (g : circuit) x y o (v : val),
  consistent (<[x := mk_node Not o {[y]}]> g) v ↔ consistent (delete x g) v ∧ v x = negb (v y).
Proof. exact flip_node_consistent. Qed.
Print Assumptions flipped_node.
(* the three API calls `disconnect(fanin(c1_n), c1_n); set_type(c1_n, "not"); connect(c0_n, c1_n)` of the model have exactly that
   closed form, so: after the flip step, c1_n is the complement of c0_n and all other nodes are constrained as before *)
Theorem flip_step_spec : ∀ (g g' : circuit) n i j (v : val),
  g !! ("c1_" ++ n) = Some i → g !! ("c0_" ++ n) = Some j → n_ty j ≠ BbIn → n_ty j ≠ BbOut →
  flip_node g n = Ok g' →
  consistent g' v ↔ consistent (delete ("c1_" ++ n) g) v ∧ v ("c1_" ++ n) = negb (v ("c0_" ++ n)).
Proof. exact flip_step. Qed.
Print Assumptions flip_step_spec.
(* ... and in context: the second copy computes c with n inverted *)
Theorem second_copy_inverted : ∀ c n (E : gset string) T, closed c → acyclic c → inputs_only c → n ∈ dom c → sens_shape c n E T →
  ∀ v, consistent T v → ∀ x, x ∈ dom c → v ("c0_" ++ x) = evalc c v x ∧ v ("c1_" ++ x) = inverted c n v x.
Proof. exact copies_values. Qed.
Print Assumptions second_copy_inverted.
(* the xor-compare lemma *)
Theorem xor_compare : ∀ (v : val) a b, a ≠ b → gate_val Xor v {[a; b]} = xorb (v a) (v b).
Proof. exact xor2_val. Qed.
Print Assumptions xor_compare.

(* ---- sensitivity_transform (full): for every accepted call, dif_out_s = 1 iff flipping s flips n, and the sen_out bits are the
        binary digits of the count.  PC is the popcount circuit handed to the model: `pc_inputs` (in_0.. are primary inputs) and
        `popcount_correct` are facts about logic.popcount (C13) ---- *)
Theorem sensitivity_transform_spec : ∀ C n ord PC T W,
  comb (c_g C) → pc_inputs (c_g PC) (length ord) →
  sensitivity_transform C n ord PC = Ok T → clog2 (length ord + 1) = Ok W →
  ∀ v, consistent (c_g T) v →
    (∀ s, s ∈ ord → v ("dif_out_" ++ s) = true ↔ flips (c_g C) n s v) ∧
    (popcount_correct (c_g PC) (length ord) W → sen_bits v W = take_bits W (count (c_g C) n ord v)).
Proof. exact sensitivity_transform_model_spec. Qed.
Print Assumptions sensitivity_transform_spec.
(* ... with PC = logic.popcount(len(startpoints)) as modelled and proved correct in C13 (Model/Logic.v, Proofs/LogicPopAll.v): no
   assumption about the popcount circuit is left (its correctness, its input interface, and that it has the clog2(m+1) output
   bits sen_out reads are all derived) *)
Theorem sensitivity_transform_spec_popcount : ∀ C n ord PC T W,
  comb (c_g C) → Logic.popcount (length ord) = Ok PC →
  sensitivity_transform C n ord PC = Ok T → clog2 (length ord + 1) = Ok W →
  ∀ v, consistent (c_g T) v →
    (∀ s, s ∈ ord → v ("dif_out_" ++ s) = true ↔ flips (c_g C) n s v) ∧
    sen_bits v W = take_bits W (count (c_g C) n ord v).
Proof. exact sensitivity_transform_popcount_full. Qed.
Print Assumptions sensitivity_transform_spec_popcount.
Theorem popcount_discharges : ∀ m PC W, Logic.popcount m = Ok PC → clog2 (m + 1) = Ok W →
  pc_inputs (c_g PC) m ∧ popcount_correct (c_g PC) m W.
Proof. exact popcount_discharge. Qed.
Print Assumptions popcount_discharges.
Theorem sensitivity_model_shape : ∀ C n ord PC T W,
  comb (c_g C) → pc_inputs (c_g PC) (length ord) →
  sensitivity_transform C n ord PC = Ok T → clog2 (length ord + 1) = Ok W →
  let SUB := induced (c_g C) (tfi (c_g C) [n] ∪ {[n]}) in
  sub_of SUB (c_g C) ∧ n ∈ dom SUB ∧ NoDup ord ∧ inputs SUB = list_to_set ord ∧ sv_shape SUB n ord (c_g PC) W (c_g T).
Proof. exact sv_model_facts. Qed.
Print Assumptions sensitivity_model_shape.
Theorem sensitivity_shape_spec : ∀ c SUB n sp PC W T,
  closed c → acyclic c → inputs_only c → sub_of SUB c → n ∈ dom SUB → sv_shape SUB n sp PC W T →
  ∀ v, consistent T v →
    (∀ s, s ∈ sp → v ("dif_out_" ++ s) = true ↔ flips c n s v) ∧
    (popcount_correct PC (length sp) W → sen_bits v W = take_bits W (count c n sp v)).
Proof. exact SensitivityProofs.sensitivity_shape_spec. Qed.
Print Assumptions sensitivity_shape_spec.

(* ---- props.sensitivity ---- *)
(* the bit-width argument: w = clog2 m; the un-truncated digits of k <= m padded to w pin a count c <= m down to k, except that
   k = 0 also admits c = m when m = 2^w (top bit unconstrained) -- harmless in a descending search, since m was refuted first *)
Theorem width_argument : ∀ m w k c, clog2 m = Ok w → k ≤ m → c ≤ m →
  matches (int_to_bin_le k w) c → c = k ∨ (k = 0 ∧ c = m).
Proof. exact width_arg. Qed.
Print Assumptions width_argument.
(* no assumption names a sen_out bit that does not exist *)
Theorem width_fits : ∀ m w W k, clog2 m = Ok w → clog2 (m + 1) = Ok W → k ≤ m → length (int_to_bin_le k w) ≤ W.
Proof. exact width_ok. Qed.
Print Assumptions width_fits.
Theorem clog2_correct : ∀ m w, clog2 m = Ok w → 1 ≤ m ∧ m ≤ 2 ^ w ∧ (w = 0 ∨ 2 ^ (w - 1) < m).
Proof. exact clog2_spec. Qed.
Print Assumptions clog2_correct.

(* the descending search returns the maximum of the encoded count, relative to a sound and complete solver *)
Theorem sensitivity_search_spec : ∀ (T : circuit) (m w : nat) (cnt : val → nat) (solve : list (string * bool) → bool),
  (∀ k, k ≤ m → let asm := asm_of (int_to_bin_le k w) in
     solve asm = true ↔ ∃ v, consistent T v ∧ Forall (λ p : string * bool, v p.1 = p.2) asm) →
  clog2 m = Ok w →
  (∀ v, consistent T v → cnt v ≤ m) →
  (∀ v k, consistent T v → k ≤ m →
     sen_bits v (length (int_to_bin_le k w)) = take_bits (length (int_to_bin_le k w)) (cnt v)) →
  (∃ v, consistent T v) →
  ∃ k, search solve w m = Ok k ∧ (∃ v, consistent T v ∧ cnt v = k) ∧ ∀ v, consistent T v → cnt v ≤ k.
Proof. exact search_max. Qed.
Print Assumptions sensitivity_search_spec.

(* composed with the transform theorem: the search over the MODEL's sensitivity circuit returns the sensitivity, for all inputs.
   The certificate of the sensitivity circuit (closed, acyclic, free nodes = the startpoints) is proved from the one of the popcount
   circuit (`pc_cert`: closed, acyclic, free nodes exactly in_0..in_{m-1}), which C13 proves for logic.popcount. *)
Theorem sensitivity_certificate : ∀ C n ord PC T W,
  comb (c_g C) → pc_cert (c_g PC) (length ord) →
  sensitivity_transform C n ord PC = Ok T → clog2 (length ord + 1) = Ok W →
  closed (c_g T) ∧ acyclic (c_g T) ∧ free_nodes (c_g T) = list_to_set ord.
Proof. exact sv_model_cert. Qed.
Print Assumptions sensitivity_certificate.
Theorem sensitivity_spec : ∀ (solve : list (string * bool) → bool) C n ord PC T W w,
  comb (c_g C) → pc_cert (c_g PC) (length ord) → popcount_correct (c_g PC) (length ord) W →
  sensitivity_transform C n ord PC = Ok T →
  clog2 (length ord) = Ok w → clog2 (length ord + 1) = Ok W →
  (∀ k, k ≤ length ord → let asm := asm_of (int_to_bin_le k w) in
     solve asm = true ↔ ∃ v, consistent (c_g T) v ∧ Forall (λ p : string * bool, v p.1 = p.2) asm) →
  ∃ k, search solve w (length ord) = Ok k ∧ is_sensitivity (c_g C) n ord k.
Proof. exact sensitivity_model_full. Qed.
Print Assumptions sensitivity_spec.
(* with PC = logic.popcount(len(startpoints)) (C13: correct, combinational): only the solver is assumed *)
Theorem sensitivity_spec_popcount : ∀ (solve : list (string * bool) → bool) C n ord PC T W w,
  comb (c_g C) → Logic.popcount (length ord) = Ok PC →
  sensitivity_transform C n ord PC = Ok T →
  clog2 (length ord) = Ok w → clog2 (length ord + 1) = Ok W →
  (∀ k, k ≤ length ord → let asm := asm_of (int_to_bin_le k w) in
     solve asm = true ↔ ∃ v, consistent (c_g T) v ∧ Forall (λ p : string * bool, v p.1 = p.2) asm) →
  ∃ k, search solve w (length ord) = Ok k ∧ is_sensitivity (c_g C) n ord k.
Proof. exact sensitivity_popcount_full. Qed.
Print Assumptions sensitivity_spec_popcount.
(* the early exit: a primary input has sensitivity 1 *)
Theorem sensitivity_of_input : ∀ c n i, c !! n = Some i → n_ty i = Input → is_sensitivity c n [n] 1.
Proof. exact sensitivity_input. Qed.
Print Assumptions sensitivity_of_input.

(* ---- props.influence / avg_sensitivity / sensitize, relative to exact model counting / a sound+complete solver and the
        specification of the sensitization circuit (sens_spec; provided by sens_spec_from_shape) ---- *)
Theorem sens_spec_from_shape : ∀ c SC x (E : gset string) T,
  closed c → acyclic c → inputs_only c → sub_of SC c → x ∈ dom SC → E ⊆ dom SC →
  sens_shape SC x E T → closed T → acyclic T →
  free_nodes T = startpoints T → startpoints T = inputs SC →
  sens_spec c x (elements E) (elements (startpoints T)) T.
Proof. exact sens_spec_of_shape. Qed.
Print Assumptions sens_spec_from_shape.
(* ... and for the MODEL's sensitization circuit, all inputs: its certificate (closed, acyclic, free nodes = startpoints = the
   inputs of the mitered sub-circuit) is proved, so no hypothesis about T is left *)
Theorem sensitization_certificate : ∀ SC n M g,
  comb (c_g SC) → n ∈ dom (c_g SC) → miter_self SC = Ok M → flip_node (c_g M) n = Ok g →
  closed g ∧ acyclic g ∧ free_nodes g = inputs (c_g SC) ∧ startpoints g = inputs (c_g SC).
Proof. exact sens_model_cert. Qed.
Print Assumptions sensitization_certificate.
Theorem sens_spec_from_model : ∀ C n Eo T,
  c_bbs C = ∅ → comb (c_g C) → n ∈ dom (c_g C) → sensitization_transform C n Eo = Ok T →
  startpoints (c_g T) = inputs (sens_sub C Eo).1 ∧
  sens_spec (c_g C) n (elements (sens_sub C Eo).2) (elements (startpoints (c_g T))) (c_g T).
Proof. exact sens_spec_model. Qed.
Print Assumptions sens_spec_from_model.
(* why influence may use the sensitization circuit of (startpoint s, endpoint n) *)
Theorem invert_input_is_flip : ∀ c s n ρ i, c !! s = Some i → n_ty i = Input → n_fi i = ∅ → sens_at c s [n] ρ ↔ flips c n s ρ.
Proof. exact sens_at_input. Qed.
Print Assumptions invert_input_is_flip.

(* props.influence / avg_sensitivity (exact mode) and props.sensitize on the model's circuits, all inputs; the only hypotheses
   left are about the external counter / solver *)
Theorem influence_spec : ∀ mc C n out, mc_exact mc → c_bbs C = ∅ → comb (c_g C) → influence mc C n = Ok out →
  out = (λ s, (s, influence_def (c_g C) n (elements (cone_startpoints (c_g C) n)) s)) <$> elements (cone_startpoints (c_g C) n).
Proof. exact influence_model_full. Qed.
Print Assumptions influence_spec.
Theorem avg_sensitivity_spec : ∀ mc C n a, mc_exact mc → c_bbs C = ∅ → comb (c_g C) → avg_sensitivity mc C n = Ok a →
  a = avg_sensitivity_def (c_g C) n (elements (cone_startpoints (c_g C) n)).
Proof. exact avg_sensitivity_model_full. Qed.
Print Assumptions avg_sensitivity_spec.
Theorem sensitize_spec : ∀ (solve : circuit → list (string * bool) → option val) C n r,
  (∀ g asm v, solve g asm = Some v → consistent g v ∧ Forall (λ p : string * bool, v p.1 = p.2) asm) →
  (∀ g asm, solve g asm = None → ¬ ∃ v, consistent g v ∧ Forall (λ p : string * bool, v p.1 = p.2) asm) →
  c_bbs C = ∅ → comb (c_g C) → n ∈ dom (c_g C) → sensitize solve C n = Ok r →
  match r with
  | Some μ => ∃ ρ : val, Forall (λ p : string * bool, ρ p.1 = p.2) μ ∧ sens_at (c_g C) n (elements (outputs (c_g C))) ρ
  | None => ∀ ρ, ¬ sens_at (c_g C) n (elements (outputs (c_g C))) ρ
  end.
Proof. exact sensitize_model_full. Qed.
Print Assumptions sensitize_spec.

(* ---- trusted-base reducers ---- *)
(* evalc (size-derived fuel) IS the consistent valuation of a closed acyclic circuit: the definitions are well defined *)
Theorem evalc_is_consistent : ∀ c a, closed c → acyclic c → consistent c (evalc c a).
Proof. exact evalc_consistent. Qed.
Print Assumptions evalc_is_consistent.
(* brute force over the free nodes is a sound and complete solver: the solver hypotheses above are satisfiable *)
Theorem solver_exists : ∀ T free asm, closed T → acyclic T → free_nodes T = list_to_set free →
  (∀ p, p ∈ asm → p.1 ∈ dom T) →
  bf_solve T free asm = true ↔ ∃ v, consistent T v ∧ Forall (λ p : string * bool, v p.1 = p.2) asm.
Proof. exact bf_solve_ok. Qed.
Print Assumptions solver_exists.

(* the oracle's certificate (Run_C11.cert_static / cert_val): an accepted node order makes the recorded graph closed and acyclic,
   the list-level check implies consistency, and then the simulated valuation is THE consistent valuation for its inputs *)
Theorem certificate : ∀ (nodes : list node) (free : list string) (a v w : val),
  wf_order nodes = true → free_nodes (Cases.mk_g nodes) = list_to_set free →
  lnodes_okb nodes v = true → eq_on free v a = true →
  consistent (Cases.mk_g nodes) v ∧
  (consistent (Cases.mk_g nodes) w → (∀ s, s ∈ free → w s = a s) → agrees (dom (Cases.mk_g nodes)) w v).
Proof. exact certificate_sound. Qed.
Print Assumptions certificate.

Ltac by_bool := match goal with |- ?P => apply (bool_decide_eq_true_1 P); vm_compute; reflexivity end.

(* ... and brute-force counting is an exact model counter: mc_exact is satisfiable *)
Theorem counter_exists : mc_exact bf_count.
Proof. exact bf_count_exact. Qed.
Print Assumptions counter_exists.

(* ---- non-vacuity: concrete circuits satisfy the hypotheses; the transform models produce the shapes ---- *)
Definition ex_c : Circuit :=
  {| c_name := "t"; c_bbs := ∅;
     c_g := {[ "a" := mk_node Input false ∅ ]} ∪ {[ "b" := mk_node Input false ∅ ]} ∪
            {[ "g" := mk_node And false {[ "a"; "b" ]} ]} ∪ {[ "o" := mk_node Not true {[ "g" ]} ]} |}.
Definition ex_TC : Circuit := match sensitization_transform ex_c "g" None with Ok T => T | _ => ex_c end.
Definition ex_T : circuit := c_g ex_TC.
Example ex_comb : comb (c_g ex_c).
Proof. apply combb_sound. vm_compute. reflexivity. Qed.
Example ex_accepted : sensitization_transform ex_c "g" None = Ok ex_TC.
Proof.
  assert (H : is_okb (sensitization_transform ex_c "g" None) = true) by (vm_compute; reflexivity).
  apply is_okb_true in H as [T HT]. unfold ex_TC. by rewrite HT.
Qed.
(* the full theorem instantiated: a closed statement about the model's output for this circuit (o is the only output) *)
Example ex_sensitization : ∀ v, consistent ex_T v → (v "sat" = true ↔ sens_at (c_g ex_c) "g" ["o"] v).
Proof.
  intros v Hv.
  assert (Hn : "g" ∈ dom (c_g ex_c)) by (apply elem_of_dom; eexists; vm_compute; reflexivity).
  pose proof (sensitization_spec ex_c "g" None ex_TC eq_refl ex_comb Hn ex_accepted v Hv) as H.
  assert (He : selected ex_c None = ["o"]) by (vm_compute; reflexivity). by rewrite He in H.
Qed.
(* both sides of the equivalence are inhabited: a = b = 1 sensitizes g to o *)
Example ex_sensitizing : sens_at (c_g ex_c) "g" ["o"] (λ _, true).
Proof. exists "o". split; [by left|]. vm_compute. discriminate. Qed.
(* the model's output has the shape, and the recorded-output checker accepts it *)
Example ex_shape : sens_shape (c_g ex_c) "g" {[ "o" ]} ex_T.
Proof. apply sens_shapeb_sound. vm_compute. reflexivity. Qed.
(* the sensitization circuit of this example meets the specification the props functions need, certificate included *)
Example ex_sens_spec : sens_spec (c_g ex_c) "g" (elements (sens_sub ex_c None).2) (elements (startpoints ex_T)) ex_T.
Proof.
  assert (Hn : "g" ∈ dom (c_g ex_c)) by (apply elem_of_dom; eexists; vm_compute; reflexivity).
  apply (sens_spec_from_model ex_c "g" None ex_TC eq_refl ex_comb Hn ex_accepted).
Qed.

(* the sensitivity circuit of g = not a, with popcount(1) = (in_0 -> out_0) *)
Definition ex_c2 : Circuit :=
  {| c_name := "t"; c_bbs := ∅;
     c_g := {[ "a" := mk_node Input false ∅ ]} ∪ {[ "g" := mk_node Not true {[ "a" ]} ]} |}.
Definition ex_pc : Circuit :=
  {| c_name := "popcount"; c_bbs := ∅;
     c_g := {[ "in_0" := mk_node Input false ∅ ]} ∪ {[ "out_0" := mk_node Buf true {[ "in_0" ]} ]} |}.
Definition ex_T2C : Circuit := match sensitivity_transform ex_c2 "g" ["a"] ex_pc with Ok T => T | _ => ex_c2 end.
Definition ex_T2 : circuit := c_g ex_T2C.
Example ex_accepted2 : sensitivity_transform ex_c2 "g" ["a"] ex_pc = Ok ex_T2C.
Proof.
  assert (H : is_okb (sensitivity_transform ex_c2 "g" ["a"] ex_pc) = true) by (vm_compute; reflexivity).
  apply is_okb_true in H as [T HT]. unfold ex_T2C. by rewrite HT.
Qed.
Example ex_comb2 : comb (c_g ex_c2).
Proof. apply combb_sound. vm_compute. reflexivity. Qed.
Example ex_pc_inputs : pc_inputs (c_g ex_pc) 1.
Proof. intros i Hi. assert (i = 0) as -> by lia. eexists. split; [vm_compute; reflexivity|done]. Qed.
Example ex_pc_correct : popcount_correct (c_g ex_pc) 1 1.
Proof.
  intros u Hu. specialize (Hu "out_0" (mk_node Buf true {[ "in_0" ]}) eq_refl).
  unfold node_ok, is_free in Hu. simpl in Hu. rewrite bool_decide_eq_false_2 in Hu by set_solver.
  rewrite buf_val in Hu.
  assert (H0 : "out_" ++ pretty 0 = "out_0") by (vm_compute; reflexivity).
  assert (H1 : "in_" ++ pretty 0 = "in_0") by (vm_compute; reflexivity).
  cbn [seq fmap list_fmap]. rewrite H0, filter_cons, filter_nil, H1, Hu.
  destruct (u "in_0"); vm_compute; reflexivity.
Qed.
(* the full transform theorem instantiated *)
Example ex_sensitivity_transform : ∀ v, consistent ex_T2 v →
  (v "dif_out_a" = true ↔ flips (c_g ex_c2) "g" "a" v) ∧ sen_bits v 1 = take_bits 1 (count (c_g ex_c2) "g" ["a"] v).
Proof.
  intros v Hv.
  destruct (sensitivity_transform_spec ex_c2 "g" ["a"] ex_pc ex_T2C 1 ex_comb2 ex_pc_inputs ex_accepted2 eq_refl v Hv) as [H1 H2].
  split; [apply (H1 "a"); by left|apply H2, ex_pc_correct].
Qed.
Example ex_pc_cert : pc_cert (c_g ex_pc) 1.
Proof.
  split; [apply closedb_spec; vm_compute; reflexivity|apply acyclicb_sound; vm_compute; reflexivity|by_bool|exact ex_pc_inputs].
Qed.
(* the whole chain for this circuit: the search over the model's sensitivity circuit with the brute-force solver returns a
   number that is the sensitivity of g (all hypotheses of sensitivity_spec discharged) *)
Example ex_sensitivity : ∃ k, search (bf_solve ex_T2 ["a"]) 0 1 = Ok k ∧ is_sensitivity (c_g ex_c2) "g" ["a"] k.
Proof.
  destruct (sensitivity_certificate ex_c2 "g" ["a"] ex_pc ex_T2C 1 ex_comb2 ex_pc_cert ex_accepted2 eq_refl) as (HclT & HacT & HfT).
  refine (sensitivity_spec (bf_solve ex_T2 ["a"]) ex_c2 "g" ["a"] ex_pc ex_T2C 1 0
            ex_comb2 ex_pc_cert ex_pc_correct ex_accepted2 eq_refl eq_refl _).
  intros k Hk asm. apply bf_solve_ok; [exact HclT|exact HacT|exact HfT|].
  assert (k = 0 ∨ k = 1) as [->| ->] by (simpl in Hk; lia);
    intros p [->|[]%elem_of_nil]%elem_of_cons; apply elem_of_dom; eexists; vm_compute; reflexivity.
Qed.
