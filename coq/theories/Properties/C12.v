(* C12 -- graph queries agree with their graph-theoretic definitions.  Statements only; proofs in Proofs/QueriesProofs.v. *)
From stdpp Require Import strings gmap sets.
From CG Require Import Sem Base.Cases Model.Paths Proofs.PathsProofs Model.Queries Proofs.QueriesProofs.
Open Scope string_scope.

(* transitive_fanin(ns) = proper ancestors of ns; transitive_fanout(ns) = proper descendants *)
Theorem C12_tfi : ∀ c ns x, closed c → (x ∈ tfi c ns ↔ ∃ n, n ∈ ns ∧ reach1 c x n).
Proof. exact tfi_spec. Qed.
Print Assumptions C12_tfi.
Theorem C12_tfo : ∀ c ns x, closed c → (x ∈ tfo c ns ↔ ∃ n, n ∈ ns ∧ reach1 c n x).
Proof. exact tfo_spec. Qed.
Print Assumptions C12_tfo.
