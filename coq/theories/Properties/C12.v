(* C12 -- graph queries agree with their graph-theoretic definitions.  Statements only; proofs in Proofs/QueriesProofs.v.
   Paths are node lists (Model/Paths.v): path c u v k = u reaches v in k edges, reach1 = proper, has_cycle = some reach1 c u u. *)
From stdpp Require Import strings gmap sets.
From CG Require Import Sem Base.Cases Model.Paths Proofs.PathsProofs Model.Queries Proofs.QueriesProofs.
Open Scope string_scope.

(* fanin(ns) / fanout(ns): direct predecessors / successors of the node list *)
Theorem C12_fanin : ∀ c ns y, y ∈ fanin_l c ns ↔ ∃ n, n ∈ ns ∧ y ∈ fanin c n.
Proof. exact elem_of_fanin_l. Qed.
Print Assumptions C12_fanin.
Theorem C12_fanout : ∀ c ns y, y ∈ fanout_l c ns ↔ ∃ n, n ∈ ns ∧ n ∈ fanin c y.
Proof. exact elem_of_fanout_l. Qed.
Print Assumptions C12_fanout.

(* transitive_fanin(ns) = proper ancestors of ns; transitive_fanout(ns) = proper descendants *)
Theorem C12_tfi : ∀ c ns x, closed c → (x ∈ tfi c ns ↔ ∃ n, n ∈ ns ∧ reach1 c x n).
Proof. exact tfi_spec. Qed.
Print Assumptions C12_tfi.
Theorem C12_tfo : ∀ c ns x, closed c → (x ∈ tfo c ns ↔ ∃ n, n ∈ ns ∧ reach1 c n x).
Proof. exact tfo_spec. Qed.
Print Assumptions C12_tfo.

(* startpoints(ns) / endpoints(ns): the inputs and bb_outputs (outputs and bb_inputs) among ns and its ancestors (descendants) *)
Theorem C12_startpoints : ∀ c ns x, closed c → ns ≠ [] →
  (x ∈ startpoints_of c ns ↔ x ∈ startpoints c ∧ ∃ n, n ∈ ns ∧ reach c x n).
Proof. exact startpoints_of_spec. Qed.
Print Assumptions C12_startpoints.
Theorem C12_endpoints : ∀ c ns x, closed c → ns ≠ [] →
  (x ∈ endpoints_of c ns ↔ x ∈ endpoints c ∧ ∃ n, n ∈ ns ∧ reach c n x).
Proof. exact endpoints_of_spec. Qed.
Print Assumptions C12_endpoints.

(* fanin_depth / fanout_depth (maximum): ValueError on a cyclic graph; otherwise a path of that length exists and none is longer *)
Theorem C12_fanin_depth : ∀ c ns d, closed c → ns ≠ [] → Forall (.∈ dom c) ns →
  (has_cycle c → fanin_depth c ns = Raise ValueError) ∧
  (¬ has_cycle c → fanin_depth c ns = Ok d →
     (∃ u n, n ∈ ns ∧ path c u n d) ∧ ∀ u n k, n ∈ ns → path c u n k → k ≤ d).
Proof. exact fanin_depth_spec. Qed.
Print Assumptions C12_fanin_depth.
Theorem C12_fanout_depth : ∀ c ns d, closed c → ns ≠ [] → Forall (.∈ dom c) ns →
  (has_cycle c → fanout_depth c ns = Raise ValueError) ∧
  (¬ has_cycle c → fanout_depth c ns = Ok d →
     (∃ u n, n ∈ ns ∧ path c n u d) ∧ ∀ u n k, n ∈ ns → path c n u k → k ≤ d).
Proof. exact fanout_depth_spec. Qed.
Print Assumptions C12_fanout_depth.

(* is_cyclic is true exactly when a directed cycle exists *)
Theorem C12_cyclic : ∀ c, closed c → (is_cyclic c = true ↔ has_cycle c).
Proof. exact is_cyclic_spec. Qed.
Print Assumptions C12_cyclic.

(* a list accepted by the checker enumerates the nodes once and places every fan-in node before its fan-out node
   (topo_sort itself is networkx; each recorded answer is validated by this checker) *)
Theorem C12_topo_checker : ∀ c l, is_topo_order c l = true →
  NoDup l ∧ (∀ x, x ∈ l ↔ x ∈ dom c) ∧ ∀ l1 n l2, l = (l1 ++ n :: l2)%list → ∀ f, f ∈ fanin c n → f ∈ l1.
Proof. exact topo_order_sound. Qed.
Print Assumptions C12_topo_checker.

(* only acyclic graphs have an accepted order: on a cyclic graph the checker rejects whatever topo_sort might return *)
Theorem C12_topo_acyclic : ∀ c l, is_topo_order c l = true → ¬ has_cycle c.
Proof. exact topo_order_acyclic. Qed.
Print Assumptions C12_topo_acyclic.

(* reconvergent_fanout_nodes: exactly the nodes with two distinct fan-out branches that reach a common node (reflexive reach) *)
Theorem C12_reconvergent : ∀ c g, closed c →
  (g ∈ reconvergent c ↔ ∃ a b m, a ≠ b ∧ a ∈ fanout c g ∧ b ∈ fanout c g ∧ reach c a m ∧ reach c b m).
Proof. exact reconvergent_spec. Qed.
Print Assumptions C12_reconvergent.

(* kcuts(n, k), for every iteration order of the fan-in sets: every cut other than {n} has at most k nodes (k = 0 included),
   and every cut meets every path from a node without fan-in to n *)
Theorem C12_kcuts : ∀ c n k ord cuts cut, closed c → kcuts c n k ord = Ok cuts → cut ∈ cuts →
  (cut = {[n]} ∨ size cut ≤ k) ∧ ∀ s l, fanin c s = ∅ → pathl c s n l → ∃ x, x ∈ cut ∧ x ∈ l.
Proof.
  intros c n k ord cuts cut Hc Hk Hcut. split; [by eapply kcuts_width|]. by eapply kcuts_separates.
Qed.
Print Assumptions C12_kcuts.

(* levelize (code after fix a6f4dbc), for every valid topological order topo_sort may return: the level of a node is the length of a
   longest path into it (a path of that length exists, none is longer); cyclic graphs are rejected.  Hypothesis: inputs and constants
   have no fan-in (enforced by Circuit.connect) -- the code gives them level 0 unconditionally. *)
Theorem C12_levelize : ∀ c order lv, closed c → ¬ has_cycle c →
  (∀ n i, c !! n = Some i → lev0 (n_ty i) = true → n_fi i = ∅) →
  levelize c order = Ok lv →
  dom lv = dom c ∧ ∀ n d, lv !! n = Some d → (∃ u, path c u n d) ∧ ∀ u k, path c u n k → k ≤ d.
Proof. exact levelize_eq_depth. Qed.
Print Assumptions C12_levelize.
Theorem C12_levelize_rejects_cyclic : ∀ c order, closed c → has_cycle c → levelize c order = Raise ValueError.
Proof. intros c order Hc Hcy. unfold levelize. apply is_cyclic_spec in Hcy; [|done]. by rewrite Hcy. Qed.
Print Assumptions C12_levelize_rejects_cyclic.
(* the table the oracle compares depths and levels with: entry n = length of a longest path into n *)
Theorem C12_depth_table : ∀ c n, closed c → ¬ has_cycle c → n ∈ dom c →
  (∃ u, path c u n (lvl (depth_table c) n)) ∧ ∀ u k, path c u n k → k ≤ lvl (depth_table c) n.
Proof. exact depth_table_spec. Qed.
Print Assumptions C12_depth_table.

(* non-vacuity: g -> a -> b, g -> b (the branch that is itself the meeting point), plus a second input *)
Definition ex12 : circuit := mk_g
  [("g", Input, false, []); ("h", Input, false, []); ("a", Not, false, ["g"]); ("b", And, false, ["a"; "g"]); ("o", Or, true, ["b"; "h"])].
Example C12_ex_closed_acyclic : closed ex12 ∧ ¬ has_cycle ex12.
Proof.
  assert (closed ex12) as Hc by (apply closedb_spec; vm_compute; reflexivity). split; [done|].
  intros H%is_cyclic_spec; [|done]. vm_compute in H. discriminate.
Qed.
Example C12_ex_values :
  elements (tfi ex12 ["b"]) = ["a"; "g"] ∧ elements (tfo ex12 ["g"]) = ["b"; "a"; "o"] ∧ elements (reconvergent ex12) = ["g"] ∧
  fanin_depth ex12 ["o"] = Ok 3 ∧ fanout_depth ex12 ["g"; "h"] = Ok 3 ∧ is_topo_order ex12 ["h"; "g"; "a"; "b"; "o"] = true ∧
  rmap (fmap elements) (kcuts ex12 "o" 2 (λ n, elements (fanin ex12 n))) = Ok [["h"; "g"]; ["h"; "b"]; ["o"]].
Proof. vm_compute. repeat split; reflexivity. Qed.
Example C12_ex_levelize :
  (λ r, match r with Ok lv => (lv !! "g", lv !! "a", lv !! "b", lv !! "o", size lv) | _ => (None, None, None, None, 0) end)
    (levelize ex12 ["h"; "g"; "a"; "b"; "o"]) = (Some 0, Some 1, Some 2, Some 3, 5).
Proof. vm_compute. reflexivity. Qed.
Example C12_ex_cyclic : has_cycle (mk_g [("p", Buf, false, ["q"]); ("q", Not, true, ["p"])]).
Proof. apply is_cyclic_spec; [apply closedb_spec; vm_compute; reflexivity|]. vm_compute. reflexivity. Qed.
