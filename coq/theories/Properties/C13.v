(* C13 -- generated arithmetic blocks compute the arithmetic they name.  Statements only; proofs in
   Proofs/LogicProofs.v (helpers, half/full adder, ripple-carry adder), Proofs/LogicMux.v, Proofs/LogicLint.v,
   Proofs/LogicPop.v, Proofs/LogicPopAll.v.  Every width statement is unbounded (induction), none is a sample. *)
From stdpp Require Import strings gmap sets numbers.
From CG Require Import Model.Logic Model.Lint Proofs.LogicOracle Proofs.LogicProofs Proofs.LogicLint Proofs.LogicMux Proofs.LogicPop Proofs.LogicPopAll Proofs.LogicIO Proofs.LogicCert Proofs.LogicCertAM Proofs.LogicCertPop.
Open Scope string_scope.

(* ---------------------------------------------------------------- helpers of utils.py *)
(* clog2(n) = ceil(log2 n): the least k with n <= 2^k *)
Theorem C13_clog2 : ∀ n k, (1 ≤ n)%Z → clog2 n = Ok k →
  (n ≤ 2 ^ Z.of_nat k)%Z ∧ (k = 0 ∨ (2 ^ (Z.of_nat k - 1) < n)%Z).
Proof. exact clog2_spec. Qed.
Print Assumptions C13_clog2.
(* it returns (no fuel exhaustion, no exception) for every n >= 1 ... *)
Theorem C13_clog2_total : ∀ n, (1 ≤ n)%Z → clog2 n = Ok (Z.to_nat (Z.log2_up n)).
Proof. exact clog2_log2_up. Qed.
Print Assumptions C13_clog2_total.
(* ... and rejects everything below 1 with ValueError *)
Theorem C13_clog2_rejects : ∀ n, (n < 1)%Z → clog2 n = Raise ValueError.
Proof. exact clog2_rejects. Qed.
Print Assumptions C13_clog2_rejects.

(* bin_to_int(int_to_bin(i, w, lend), lend) = i, both endiannesses; stronger than the property text:
   zfill never truncates, so no bound on i is needed *)
Theorem C13_bin_roundtrip : ∀ i w lend, bin_to_int (int_to_bin i w lend) lend = Ok i.
Proof. exact bin_roundtrip. Qed.
Print Assumptions C13_bin_roundtrip.
Theorem C13_int_to_bin_width : ∀ i w lend, 1 ≤ w → (i < 2 ^ N.of_nat w)%N → length (int_to_bin i w lend) = w.
Proof. exact int_to_bin_length. Qed.
Print Assumptions C13_int_to_bin_width.
(* the one input bin_to_int rejects: int("", 2) *)
Theorem C13_bin_to_int_empty : ∀ lend, bin_to_int [] lend = Raise ValueError.
Proof. exact bin_to_int_empty. Qed.
Print Assumptions C13_bin_to_int_empty.

(* ---------------------------------------------------------------- half adder, full adder *)
Theorem C13_half_adder : ∀ v, consistent (c_g half_adder) v →
  (v "s" = xorb (v "x") (v "y") ∧ v "c" = v "x" && v "y") ∧ lint_clean half_adder.
Proof. intros v H. split; [by apply half_adder_correct|exact half_adder_lint_clean]. Qed.
Print Assumptions C13_half_adder.
Theorem C13_full_adder : ∀ v, consistent (c_g full_adder) v →
  (N.b2n (v "s") + 2 * N.b2n (v "cout") = N.b2n (v "x") + N.b2n (v "y") + N.b2n (v "cin"))%N ∧ lint_clean full_adder.
Proof. intros v H. split; [by apply full_adder_correct|exact full_adder_lint_clean]. Qed.
Print Assumptions C13_full_adder.

(* ---------------------------------------------------------------- ripple-carry adder, every width, both carry options *)
Theorem C13_adder : ∀ w ci co v, consistent (c_g (adder w ci co)) v →
  let total := (bitsN v "a_" w + bitsN v "b_" w + N.b2n (ci && v "cin"))%N in
  bitsN v "out_" w = (total mod 2 ^ N.of_nat w)%N ∧
  (co = true → N.b2n (v "cout") = (total / 2 ^ N.of_nat w)%N) ∧
  lint_clean (adder w ci co).
Proof.
  intros w ci co v H total. destruct (adder_correct w ci co v H) as [H1 H2].
  split; [exact H1|]. split; [exact H2|apply adder_lint_clean].
Qed.
Print Assumptions C13_adder.

(* exactly the named inputs and outputs (cin / cout present iff requested) *)
Theorem C13_adder_interface : ∀ w ci co,
  inputs (c_g (adder w ci co)) = list_to_set (names "a_" w ++ names "b_" w ++ (if ci then ["cin"] else []))%list ∧
  outputs (c_g (adder w ci co)) = list_to_set (names "out_" w ++ (if co then ["cout"] else []))%list.
Proof. intros w ci co. split; [apply adder_inputs|apply adder_outputs]. Qed.
Print Assumptions C13_adder_interface.

(* ---------------------------------------------------------------- mux, every width *)
Theorem C13_mux : ∀ w C v, 1 ≤ w → mux w = Ok C → consistent (c_g C) v →
  let k := sel_width w in let i := N.to_nat (bitsN v "sel_" k) in
  v "out" = if (i <? w)%nat then v (bitname "in_" i) else false.
Proof. exact mux_correct. Qed.
Print Assumptions C13_mux.
Theorem C13_mux_interface : ∀ w C, 1 ≤ w → mux w = Ok C →
  (inputs (c_g C) = list_to_set (names "in_" w ++ names "sel_" (sel_width w))%list ∧ outputs (c_g C) = {["out"]}) ∧ lint_clean C.
Proof. intros w C Hw HC. split; [by apply mux_io|by eapply mux_lint_clean]. Qed.
Print Assumptions C13_mux_interface.
(* width 0: clog2(0) raises *)
Theorem C13_mux_rejects : mux 0 = Raise ValueError.
Proof. exact mux_zero. Qed.
Print Assumptions C13_mux_rejects.

(* ---------------------------------------------------------------- popcount, every width *)
(* the out_ bits (as many as the block has outputs) are the binary count of ones on in_0 .. in_(w-1); lint-clean;
   the generator returns a circuit for every w >= 1 (fuel S w of the queue loop suffices) *)
Theorem C13_popcount : ∀ w C v, 1 ≤ w → popcount w = Ok C → consistent (c_g C) v →
  bitsN v "out_" (size (outputs (c_g C))) = onesN v "in_" w ∧ lint_clean C.
Proof. intros w C v Hw HC Hv. split; [by eapply popcount_correct|by eapply popcount_lint_clean]. Qed.
Print Assumptions C13_popcount.
Theorem C13_popcount_total : ∀ w, 1 ≤ w → ∃ C, popcount w = Ok C.
Proof. exact popcount_total. Qed.
Print Assumptions C13_popcount_total.
(* a positive oracle verdict on a returned circuit is the statement for all its consistent valuations *)
Theorem C13_popcount_oracle_sound : ∀ w c v, popcount_ok w c = true → consistent c v →
  bitsN v "out_" (size (outputs c)) = onesN v "in_" w.
Proof. exact popcount_ok_sound. Qed.
Print Assumptions C13_popcount_oracle_sound.
Theorem C13_popcount_rejects : popcount 0 = Raise IndexError.
Proof. reflexivity. Qed.
Print Assumptions C13_popcount_rejects.

(* ---------------------------------------------------------------- the blocks are combinational, every width
   closed (every fan-in is a node), acyclic (Base/Sem.v: a rank function decreasing along every edge), and the free
   nodes (Base/Sem.v free_nodes: inputs, x constants, undriven buf/not, blackbox outputs) are exactly the named inputs.
   With Sem.unique_extension: every assignment of the inputs extends to exactly one consistent valuation. *)
Theorem C13_adder_combinational : ∀ w ci co,
  combinational (c_g (adder w ci co)) (names "a_" w ++ names "b_" w ++ (if ci then ["cin"] else []))%list.
Proof. exact adder_combinational. Qed.
Print Assumptions C13_adder_combinational.
Theorem C13_mux_combinational : ∀ w C, 1 ≤ w → mux w = Ok C →
  combinational (c_g C) (names "in_" w ++ names "sel_" (sel_width w))%list.
Proof. exact mux_combinational. Qed.
Print Assumptions C13_mux_combinational.
Theorem C13_popcount_combinational : ∀ w C, 1 ≤ w → popcount w = Ok C → combinational (c_g C) (names "in_" w).
Proof. exact popcount_combinational. Qed.
Print Assumptions C13_popcount_combinational.

(* ---------------------------------------------------------------- non-vacuity: consistent valuations exist and the numbers come out *)
Example C13_adder_inhabited :
  let c := c_g (adder 2 true true) in let v := evalc c (val_of ["a_0"; "b_0"; "b_1"; "cin"]) in
  consistent c v ∧ bitsN v "a_" 2 = 1%N ∧ bitsN v "b_" 2 = 3%N ∧ bitsN v "out_" 2 = 1%N ∧ v "cout" = true.
Proof. split; [apply consistentb_spec; vm_compute; reflexivity|vm_compute; auto]. Qed.
Example C13_mux_inhabited : ∃ C, mux 3 = Ok C ∧
  let v := evalc (c_g C) (val_of ["sel_1"; "in_2"]) in consistent (c_g C) v ∧ N.to_nat (bitsN v "sel_" 2) = 2 ∧ v "out" = true.
Proof. eexists. split; [reflexivity|]. split; [apply consistentb_spec; vm_compute; reflexivity|vm_compute; auto]. Qed.
Example C13_popcount_inhabited : ∃ C, popcount 3 = Ok C ∧
  let v := evalc (c_g C) (val_of ["in_0"; "in_2"]) in consistent (c_g C) v ∧ onesN v "in_" 3 = 2%N ∧ bitsN v "out_" 3 = 2%N.
Proof. eexists. split; [reflexivity|]. split; [apply consistentb_spec; vm_compute; reflexivity|vm_compute; auto]. Qed.
Example C13_helpers : clog2 17 = Ok 5 ∧ int_to_bin 6 4 true = [false; true; true; false] ∧ int_to_bin 5 2 false = [true; false; true].
Proof. vm_compute. auto. Qed.
