(* C13 -- statements (in progress). *)
From stdpp Require Import strings gmap sets.
From CG Require Import Model.Logic Proofs.LogicProofs.
Open Scope string_scope.
