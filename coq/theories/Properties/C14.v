(* C14 -- the fast Verilog reader agrees with the full reader on its documented subset.  Statements only; proofs in
   Proofs/FastVerilogProofs.v.  Models: Model/FastVerilog.v (fast_sem, full_sem, untie, in_subset). *)
From Coq Require Import Ascii.
From stdpp Require Import strings gmap sets.
From CG Require Import Model.FastVerilog Model.FastVerilogText Model.FastVerilogInst Proofs.FastVerilogTextProofs Proofs.FastVerilogInstProofs Proofs.FastVerilogProofs Proofs.FvA6 Proofs.FvA10 Proofs.FvA1 Proofs.FvP1 Proofs.FvD6 Proofs.FvD7 Proofs.FvD8 Proofs.FvE2 Proofs.FvE3 Base.Sem Gen.Gen_fastv.
Open Scope string_scope.

(* obligation on the regenerated tables: patterns of the fast reader as captured from a live call (keywords anchored with \b,
   optional blanks before `(`, pin classes), constant spellings of both readers, tie base names, parity list *)
Theorem C14_tables_ok : fastv_tables_ok = true.
Proof. vm_compute. reflexivity. Qed.
Print Assumptions C14_tables_ok.

(* THE FULL STATEMENT (DESIGN.md appendix C): for every AST of the documented subset both readers succeed and return the same
   circuit apart from the names of the constant nodes (untie_eq_registry: that equality includes name and registry).
   PROVED for all ASTs of the subset (C14_fast_full_agree_ast below), blackbox instances with connected / `.p()` / omitted pins
   included.  Proof (Proofs/FvA0..FvE7): both graphs are lookup functions of one state machine over the statements (a blackbox
   instance contributes its pins and the nets on its output pins as entries) -- full reader: fold invariant over add_g and
   add_blackbox (add_node_spec, add_blackbox_spec, inst_step, full_fold), fast reader: batch construction (fast_g3_lookup) --
   both equal one function finT of the tie names; untie maps finT to its instance at the canonical names (untie_fin). *)
Definition C14_fast_full_agree_ast_full : Prop := ∀ a bbs, in_subset a bbs = true → agreement a bbs.
Theorem C14_fast_full_agree_ast : C14_fast_full_agree_ast_full.
Proof. exact agree_all. Qed.
Print Assumptions C14_fast_full_agree_ast.

(* THE PROPERTY as stated, for every AST of the subset: same name, registry, inputs; graphs identical apart from the constant
   nodes' names; every consistent valuation of the fast reader's circuit is matched by a consistent valuation of the full reader's
   circuit that agrees on every net and every blackbox pin (any size, cyclic circuits included) *)
Theorem C14_property : ∀ a bbs, in_subset a bbs = true →
  ∃ Cf Cl, fast_sem a bbs = Ok Cf ∧ full_sem a bbs = Ok Cl ∧ untie Cf = untie Cl ∧
    c_name Cf = c_name Cl ∧ c_bbs Cf = c_bbs Cl ∧ inputs (c_g Cf) = inputs (c_g Cl) ∧
    ∀ vf, consistent (c_g Cf) vf → ∃ vl, consistent (c_g Cl) vl ∧ ∀ n, n ∈ idents a ∨ dotted n = true → vl n = vf n.
Proof. exact property_all. Qed.
Print Assumptions C14_property.
Theorem C14_io : ∀ a bbs, in_subset a bbs = true →
  ∃ Cf Cl, fast_sem a bbs = Ok Cf ∧ full_sem a bbs = Ok Cl ∧
    inputs (c_g Cf) = list_to_set (decl_inputs a) ∧ inputs (c_g Cl) = list_to_set (decl_inputs a) ∧
    outputs (c_g Cf) = list_to_set (decl_outputs a) ∧ outputs (c_g Cl) = list_to_set (decl_outputs a).
Proof. exact property_io. Qed.
Print Assumptions C14_io.
Theorem C14_full_sem_succeeds : ∀ a bbs, in_subset a bbs = true → ∃ C, full_sem a bbs = Ok C.
Proof. intros a bbs H. destruct (full_sem_char a bbs H) as (C1 & g1 & _ & _ & Hf). eauto. Qed.
Print Assumptions C14_full_sem_succeeds.

(* per-instance decision: the boolean evaluated by the oracle is the statement's instance *)
Theorem C14_case_decides_instance_partial : ∀ a bbs, agreementb a bbs = true ↔ agreement a bbs.
Proof. exact agreementb_spec. Qed.
Print Assumptions C14_case_decides_instance_partial.

Theorem C14_untie_eq_registry : ∀ Cf Cl, untie Cf = untie Cl → c_name Cf = c_name Cl ∧ c_bbs Cf = c_bbs Cl.
Proof. exact untie_eq_registry. Qed.
Print Assumptions C14_untie_eq_registry.

(* first half of "both succeed", for EVERY AST of the documented subset: the fast reader raises nothing (no ValueError for an
   unknown blackbox or pin, no KeyError at the output marking).  The other half (full reader) and the equality are decided per case. *)
Theorem C14_fast_sem_succeeds_partial : ∀ a bbs, in_subset a bbs = true → ∃ C, fast_sem a bbs = Ok C.
Proof. exact fast_sem_succeeds. Qed.
Print Assumptions C14_fast_sem_succeeds_partial.

(* AGREEMENT, stage "primitive instances" and stage "assigns": for every AST of the documented subset without blackbox instances
   (all 8 primitives at any arity, constants as operands and assign sources, equal operands, any statement order incl. use before
   definition and combinational loops, inputs that are outputs) both readers succeed and return the same circuit apart from the
   names of the constant nodes.  Proof (Proofs/FvA1..FvD6): both graphs are computed as lookup functions of one state machine
   over the statements (full reader: fold invariant over add_g; fast reader: batch construction), shown equal to one function
   finT of the tie names; untie maps finT to its instance at the canonical names (symbolic operands, cancellation commutes with
   the injective naming). *)
Definition only_prims (a : ast) : bool :=
  forallb (λ it, match it with IInst _ _ _ | IAssign _ _ => false | _ => true end) (a_items a).
Theorem C14_fast_full_agree_assigns : ∀ a bbs, in_subset a bbs = true → no_inst a = true → agreement a bbs.
Proof. exact agree_gates. Qed.
Print Assumptions C14_fast_full_agree_assigns.
Theorem C14_fast_full_agree_prims : ∀ a bbs, in_subset a bbs = true → only_prims a = true → agreement a bbs.
Proof.
  intros a bbs H1 H2. apply agree_gates; [done|]. unfold no_inst, only_prims in *. rewrite forallb_forall in *.
  intros it Hit. specialize (H2 it Hit). by destruct it.
Qed.
Print Assumptions C14_fast_full_agree_prims.

(* THE PROPERTY as stated (structure AND function) for every AST of the subset without blackbox instances: both succeed; same name,
   registry, inputs; graphs identical apart from the constant nodes' names; and every consistent valuation of the fast reader's
   circuit is matched by a consistent valuation of the full reader's circuit that agrees on every net of the netlist (so the
   function at every output is the same -- for circuits of any size, cyclic ones included) *)
Theorem C14_property_prims_assigns : ∀ a bbs, in_subset a bbs = true → no_inst a = true →
  ∃ Cf Cl, fast_sem a bbs = Ok Cf ∧ full_sem a bbs = Ok Cl ∧ untie Cf = untie Cl ∧
    c_name Cf = c_name Cl ∧ c_bbs Cf = c_bbs Cl ∧ inputs (c_g Cf) = inputs (c_g Cl) ∧
    ∀ vf, consistent (c_g Cf) vf → ∃ vl, consistent (c_g Cl) vl ∧ ∀ n, n ∈ idents a → vl n = vf n.
Proof. exact property_gates. Qed.
Print Assumptions C14_property_prims_assigns.

(* ... and the declared inputs / outputs are exactly the inputs / outputs of both results *)
Theorem C14_io_prims_assigns : ∀ a bbs, in_subset a bbs = true → no_inst a = true →
  ∃ Cf Cl, fast_sem a bbs = Ok Cf ∧ full_sem a bbs = Ok Cl ∧
    inputs (c_g Cf) = list_to_set (decl_inputs a) ∧ inputs (c_g Cl) = list_to_set (decl_inputs a) ∧
    outputs (c_g Cf) = list_to_set (decl_outputs a) ∧ outputs (c_g Cl) = list_to_set (decl_outputs a).
Proof. exact property_gates_io. Qed.
Print Assumptions C14_io_prims_assigns.

(* second half of "both succeed" for every AST of the subset WITHOUT blackbox instances (primitive instances and assigns, any
   statement order, use before definition): the full reader raises nothing.  Proof: invariant of its fold over add_g
   (Proofs/FvA2..FvA10: add_node_spec, full_item_step, full_fold, full_sem_char). *)
Theorem C14_full_sem_succeeds_prims_assigns_partial : ∀ a bbs, in_subset a bbs = true → no_inst a = true → ∃ C, full_sem a bbs = Ok C.
Proof. intros a bbs H1 _. by apply C14_full_sem_succeeds. Qed.
Print Assumptions C14_full_sem_succeeds_prims_assigns_partial.

(* building block of the missing stage (blackbox instances): Circuit.add_blackbox on a fresh instance whose connections are legal
   succeeds and creates exactly the pins and wires below (mkpins / connection folds of Base/Api.v, fan-out check of the output pins) *)
Theorem C14_add_blackbox_spec_partial : ∀ C d inst (conns : list (string * string)),
  inst ∉ dom (c_bbs C) → okname inst → bb_in d ## bb_out d →
  (∀ p, p ∈ bb_in d ∪ bb_out d → pin inst p ∉ dom (c_g C)) →
  (∀ m i q, c_g C !! m = Some i → pin inst q ∉ n_fi i) →
  NoDup (fst <$> conns) →
  (∀ p n, (p, n) ∈ conns → (p ∈ bb_in d ∨ p ∈ bb_out d) ∧ n ∈ dom (c_g C) ∧ (∀ q, n ≠ pin inst q) ∧
      (p ∈ bb_in d → ty (c_g C) n ≠ Some BbIn ∧ ty (c_g C) n ≠ Some BbOut) ∧
      (p ∈ bb_out d → ty (c_g C) n = Some Buf ∧ fanin (c_g C) n = ∅)) →
  (∀ p n p' n', (p, n) ∈ conns → (p', n') ∈ conns → p ∈ bb_out d → p' ∈ bb_out d → p ≠ p' → n ≠ n') →
  ∃ g', add_blackbox C d inst (elements (bb_in d)) (elements (bb_out d)) ((λ c : string * string, (c.1, [c.2])) <$> conns) =
          ({| c_name := c_name C; c_g := g'; c_bbs := <[inst := d]> (c_bbs C) |}, Done) ∧
    ∀ m, g' !! m =
      match list_find (λ pt, m = pin inst pt.1) (pin_list d) with
      | Some (_, pt) => Some (mk_node pt.2 false (conns_add d inst conns m))
      | None => upd_fi (λ s, s ∪ conns_add d inst conns m) <$> c_g C !! m
      end.
Proof. exact add_blackbox_spec. Qed.
Print Assumptions C14_add_blackbox_spec_partial.

(* one clause of the full statement, proved for ALL ASTs (inside or outside the subset): whenever both readers succeed they
   return the same module name and the same blackbox instances (definitions unambiguous) *)
Theorem C14_registry_agree_partial : ∀ a bbs Cf Cl, NoDup (bb_name <$> bbs) → fast_sem a bbs = Ok Cf → full_sem a bbs = Ok Cl →
  c_name Cf = c_name Cl ∧ c_bbs Cf = c_bbs Cl.
Proof. exact registry_agree. Qed.
Print Assumptions C14_registry_agree_partial.

(* the constant nodes of the fast reader never take the name of an identifier of the netlist (any text, any identifier set) *)
Theorem C14_fast_tie_fresh : ∀ (reserved : gset string) base, tie_name reserved base ∉ reserved.
Proof. exact tie_name_fresh. Qed.
Print Assumptions C14_fast_tie_fresh.

(* ... nor do those of the full reader (Circuit.uid with its 0..10, 70, 490, ... suffix sequence) *)
Theorem C14_full_tie_fresh : ∀ (used : gset string) base, uid_in used base ∉ used.
Proof. exact uid_in_fresh. Qed.
Print Assumptions C14_full_tie_fresh.

(* cancelling pairs of equal operands keeps the parity of the operand list, for every valuation and operand list ... *)
Theorem C14_cancel_parity_sound : ∀ v l, par v (cancel_pairs l) = par v l.
Proof. exact cancel_parity_sound. Qed.
Print Assumptions C14_cancel_parity_sound.

(* ... so the xor/xnor node both readers build over the remaining operand SET denotes the parity of the operand LIST *)
Theorem C14_parity_gate_denotes : ∀ t v l, is_parity t = true → cancel_pairs l ≠ [] →
  gate_val t v (list_to_set (cancel_pairs l)) = xorb (g_inv t) (par v l).
Proof. exact parity_gate_denotes. Qed.
Print Assumptions C14_parity_gate_denotes.

Theorem C14_parity_all_cancel : ∀ v l, cancel_pairs l = [] → par v l = false.
Proof. exact parity_all_cancel. Qed.
Print Assumptions C14_parity_all_cancel.

(* the exhaustive-evaluation oracle of Run_C14.holds decides the functional clause: when it says true (and its side checks --
   at most 8 free nodes, acyclic, closed -- hold) then ALL consistent valuations of the two circuits that agree on the free nodes
   agree on every output and blackbox input pin *)
Theorem C14_same_function_sound : ∀ Cf Cl, same_function Cf Cl = true → same_function_decided Cf Cl = true →
  ∀ vf vl, consistent (c_g Cf) vf → consistent (c_g Cl) vl → agrees (free_nodes (c_g Cf)) vf vl →
    agrees (endpoints (c_g Cf)) vf vl.
Proof. exact same_function_sound. Qed.
Print Assumptions C14_same_function_sound.

(* the structural clause implies the functional one, for ALL sizes (also cyclic circuits and more than 8 free nodes, where the
   exhaustive oracle is silent): if both results have the tie shape (at most one node per constant type, canonical names unused:
   tie_shapeb decides it) and are identical up to the constant nodes' names, every consistent valuation of the fast reader's circuit
   is matched by one of the full reader's circuit that agrees on every net of the netlist *)
Theorem C14_untie_same_function : ∀ cf cl f0 f1 fx l0 l1 lx,
  tie_shape cf f0 f1 fx → tie_shape cl l0 l1 lx → untie_g cf = untie_g cl →
  ∀ vf, consistent cf vf → ∃ vl, consistent cl vl ∧
    ∀ n, n ∉ [f0; f1; fx; "1'b0"; "1'b1"; "1'bx"] → n ∉ [l0; l1; lx; "1'b0"; "1'b1"; "1'bx"] → vl n = vf n.
Proof. exact untie_same_function. Qed.
Print Assumptions C14_untie_same_function.
Theorem C14_tie_shapeb_spec : ∀ c, tie_shapeb c = true → ∃ t0 t1 tx, tie_shape c t0 t1 tx.
Proof. exact tie_shapeb_spec. Qed.
Print Assumptions C14_tie_shapeb_spec.

(* CHARACTER LEVEL (part of the scanning layer, proved): net_str.split(",") + strip() + the constant replacement recover the operand
   list from every rendering with arbitrary blanks (space, tab, newline, ...) around the operands *)
Theorem C14_split_join : ∀ c ps, ps ≠ [] → Forall (λ p, no_char c p = true) ps → split_on c (join_with c ps) = ps.
Proof. exact split_join. Qed.
Print Assumptions C14_split_join.
Theorem C14_strip_pad : ∀ l s r, blanks l = true → no_ws s = true → blanks r = true → strip (l ++ s ++ r) = s.
Proof. exact strip_pad. Qed.
Print Assumptions C14_strip_pad.
Theorem C14_fast_nets_render : ∀ t0 t1 (ops : list opd) (ws : list (string * string)), ops ≠ [] → length ws = length ops →
  Forall (λ o, operand_ok (opd_text o) = true) ops → Forall (λ w, blanks w.1 = true ∧ blanks w.2 = true) ws →
  fast_nets t0 t1 (join_with ","%char (pad <$> padded ops ws)) = fast_gate_opd t0 t1 <$> ops.
Proof. exact fast_nets_render. Qed.
Print Assumptions C14_fast_nets_render.

(* CHARACTER LEVEL (2): one anchored match of the instance pattern, as a string function (tied to re.match by CInst cases), recovers
   gate name, instance name and operand text from `gate inst(ops);` with arbitrary blanks at the allowed places *)
Theorem C14_scan_inst_render : ∀ g w1 i w2 ops rest,
  ident_ok g = true → ident_ok i = true → blanks w1 = true → w1 ≠ EmptyString → blanks w2 = true →
  ops ≠ EmptyString → no_char ";"%char ops = true →
  scan_inst (g ++ w1 ++ i ++ w2 ++ "(" ++ ops ++ ");" ++ rest) = Some (g, i, ops).
Proof. exact scan_inst_render. Qed.
Print Assumptions C14_scan_inst_render.

(* non-vacuity: a concrete AST inside the subset (keyword inside an identifier, nets called tie0 / tie_0, leading underscore,
   constants at a gate, a pin and an assign, equal operands of a parity gate, unconnected and omitted pins, use before
   definition) on which the agreement holds *)
Definition ex_bbs : list bbdef := [{| bb_name := "ff"; bb_in := {[ "clk"; "d" ]}; bb_out := {[ "q" ]} |}].
Definition ex_ast : ast :=
  {| a_name := "top"; a_ports := ["a"; "xinput"; "o"; "tie0"];
     a_items := [ IOutput ["o"; "tie0"];
                  IGate Xor "g2" [ONet "o"; ONet "tie_0"; ONet "_w"; OConst "1'b1"; ONet "_w"; OConst "1'b1"; ONet "xinput"];
                  IInput ["a"; "xinput"]; IWire ["_w"; "tie_0"];
                  IInst "ff" "f0" [("q", Some (ONet "_w")); ("d", Some (OConst "1'b0")); ("clk", None)];
                  IGate Nand "g1" [ONet "tie_0"; ONet "a"; OConst "1'b1"; ONet "xinput"];
                  IAssign "tie0" (OConst "1'b0") ] |}.
Example C14_subset_inhabited : in_subset ex_ast ex_bbs = true ∧ agreement ex_ast ex_bbs.
Proof. split; [vm_compute; reflexivity|]. apply agreementb_spec. vm_compute. reflexivity. Qed.
Example C14_same_function_nonvacuous :
  match fast_sem ex_ast ex_bbs, full_sem ex_ast ex_bbs with
  | Ok Cf, Ok Cl => same_function Cf Cl && same_function_decided Cf Cl && negb (bool_decide (c_g Cf = c_g Cl))
  | _, _ => false end = true.
Proof. vm_compute. reflexivity. Qed.
Example C14_tie_shape_inhabited :
  match fast_sem ex_ast ex_bbs, full_sem ex_ast ex_bbs with
  | Ok Cf, Ok Cl => tie_shapeb (c_g Cf) && tie_shapeb (c_g Cl) && bool_decide (untie_g (c_g Cf) = untie_g (c_g Cl))
  | _, _ => false end = true.
Proof. vm_compute. reflexivity. Qed.
Definition ex_gates : ast :=
  {| a_name := "top"; a_ports := ["a"; "xinput"; "o"; "tie0"; "p"];
     a_items := [ IOutput ["o"; "tie0"; "p"];
                  IGate Xor "g2" [ONet "o"; ONet "tie_0"; ONet "_w"; OConst "1'b1"; ONet "_w"; OConst "1'b1"; ONet "xinput"];
                  IInput ["a"; "xinput"]; IWire ["_w"; "tie_0"];
                  IGate Nand "g1" [ONet "tie_0"; ONet "a"; OConst "1'b1"; ONet "xinput"];
                  IAssign "_w" (ONet "o");
                  IGate Xnor "g3" [ONet "p"; ONet "a"; ONet "a"];
                  IAssign "tie0" (OConst "1'b0") ] |}.
Example C14_agree_guard_inhabited : in_subset ex_gates [] = true ∧ no_inst ex_gates = true.
Proof. split; vm_compute; reflexivity. Qed.
Example C14_fast_nets_example :
  fast_nets "tie0" "tie1" (join_with ","%char (pad <$> padded [ONet "o"; OConst "1'b1"; ONet "xinput"] [("  ", "	"); ("", " "); (" ", "")]))
    = ["o"; "tie1"; "xinput"] ∧ fast_split " a ,,b  " = ["a"; ""; "b"].
Proof. split; vm_compute; reflexivity. Qed.
Example C14_scan_inst_example :
  scan_inst "nand  NAND2_0	( o , a,
 b );and g2(x,y);" = Some ("nand", "NAND2_0", " o , a,
 b ") ∧ scan_inst "nand g1 (o,a) ;" = None.
Proof. split; vm_compute; reflexivity. Qed.
Example C14_parity_nonvacuous : is_parity Xnor = true ∧ cancel_pairs ["a"; "b"; "a"; "c"; "b"; "b"] = ["c"; "b"].
Proof. split; vm_compute; reflexivity. Qed.
