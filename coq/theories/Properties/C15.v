(* C15 -- bench reader and writer are faithful (line-AST level).  Statements only; proofs in Proofs/BenchProofs.v. *)
From stdpp Require Import strings gmap sets.
From CG Require Import Model.Bench Model.BenchSpec Model.Lint Proofs.BenchProofs Proofs.BenchRoundProofs Proofs.BenchReadProofs Proofs.BenchFinal Model.BenchScan Proofs.RegexProofs Proofs.RegexSound Proofs.RegexCanon Model.BenchLayout Proofs.RegexLayout Proofs.BenchTextFinal.
Open Scope string_scope.

(* ---- obligations on the regenerated tables of io.py ---- *)
(* the comment pattern and the four scan patterns are the documented ones (the scanning layer itself is tied by
   correspondence only) *)
Theorem C15_scan_patterns :
  (rd_pat_comment, rd_pat_input, rd_pat_gate_pre, rd_pat_gate_post, rd_pat_dff, rd_pat_output) =
  ("#[^\n]*", "(?:INPUT|input)\s*\(\s*([a-zA-Z][a-zA-Z\d_]*)\s*\)", "([a-zA-Z][a-zA-Z\d_]*)\s*=\s*(", ")\(([^\)]+)\)",
   "([a-zA-Z][a-zA-Z\d_]*)\s*=\s*(DFF|dff)\(([^\)]+)\)", "(?:OUTPUT|output)\s*\(\s*([a-zA-Z][a-zA-Z\d_]*)\s*\)").
Proof. reflexivity. Qed.
Print Assumptions C15_scan_patterns.

(* gate-name alternation + BUFF folding + case folding = the dialect of the property text, for every string *)
Theorem C15_gate_table : ∀ g, fold_gate g = name_of_type <$> doc_gate g.
Proof. exact fold_gate_doc. Qed.
Print Assumptions C15_gate_table.

(* the DFF blackbox, its instance name and the writer's tables are the documented ones *)
Theorem C15_dff_and_writer_tables :
  dff_def = doc_dff ∧ (∀ q, dff_inst q = doc_inst q) ∧ wr_gates ≡ₚ [Buf; Not; And; Nand; Or; Nor; Xor; Xnor]
  ∧ (wr_const0, wr_const0_gate, wr_const1, wr_const1_gate, wr_kw_input, wr_kw_output) = ([C0], "XOR", [C1], "XNOR", "INPUT", "OUTPUT").
Proof. exact tables_doc. Qed.
Print Assumptions C15_dff_and_writer_tables.

(* ---- per-line theorems (all operand lists, all valuations) ---- *)
(* xor over an operand list = xor over the operands of odd multiplicity, which is what the reader connects *)
Theorem C15_parity_cancel : ∀ (v : val) (l : list string), par v l = par v (odd_ops l).
Proof. exact parity_cancel. Qed.
Print Assumptions C15_parity_cancel.

(* the node built for `net = G(ops)` computes G over the operand list with multiplicities (XOR(a,a) = 0, XNOR(a,a) = 1,
   AND(a,a) = a, ...), for every gate name of the dialect in either case *)
Theorem C15_gate_line_denotes : ∀ g ops t ty fi (v : val),
  doc_gate g = Some t → gate_args g ops = Some (ty, fi) → (t ∈ [Buf; Not] → length ops = 1) →
  node_fun (type_of_name ty) v (list_to_set fi) = gate_fun t (v <$> ops).
Proof. exact gate_line_denotes. Qed.
Print Assumptions C15_gate_line_denotes.

(* ---- whole-file theorems about the closed form bench_closed of the reader's result ---- *)
(* for every well-formed line list (any line order, uses before definitions, outputs before definitions): *)
(* exactly the declared inputs *)
Theorem C15_closed_inputs : ∀ ls, wfb ls = true → inputs (bench_graph ls) = list_to_set (decl_inputs ls).
Proof. exact closed_inputs. Qed.
Print Assumptions C15_closed_inputs.

(* exactly the declared outputs *)
Theorem C15_closed_outputs : ∀ ls, wfb ls = true → outputs (bench_graph ls) = list_to_set (decl_outputs ls).
Proof. exact closed_outputs. Qed.
Print Assumptions C15_closed_outputs.

(* every net computes what the text denotes: each consistent valuation of the circuit solves all gate equations of the text *)
Theorem C15_closed_sound : ∀ ls, wfb ls = true → ∀ v, consistent (bench_graph ls) v → sat_bench ls v.
Proof. exact closed_sound. Qed.
Print Assumptions C15_closed_sound.

(* each DFF line is a registered dff instance between its D net and its Q net *)
Theorem C15_closed_dff : ∀ ls, wfb ls = true → ∀ name q d, (q, d) ∈ dff_lines ls → dff_between (bench_closed name ls) q d.
Proof. exact closed_dff. Qed.
Print Assumptions C15_closed_dff.

(* completeness: every solution of the text extends (by the pin values) to a consistent valuation of the circuit *)
Theorem C15_closed_complete : ∀ ls, wfb ls = true → ∀ v, sat_bench ls v →
  ∃ v', consistent (bench_graph ls) v' ∧ agrees (list_to_set (lhs_nets ls)) v v'.
Proof. intros ls Hwf v Hs. exists (ext_val ls v). by apply closed_complete. Qed.
Print Assumptions C15_closed_complete.

(* the mirrored four-pass reader (inputs; gates in text order with add_connected_nodes / allow_redefinition; all DFF
   buffers, then the dff blackboxes; outputs -- every step through the construction API of Base/Api.v with all its checks)
   returns the closed form, for every well-formed line list in any line order *)
Theorem C15_read_is_closed_form : ∀ name ls, wfb ls = true → bench_read name ls = Ok (bench_closed name ls).
Proof. exact read_is_closed_form. Qed.
Print Assumptions C15_read_is_closed_form.

(* THE reader theorem, at full strength *)
Theorem C15_bench_read_denotes : ∀ name ls, wfb ls = true →
  ∃ C, bench_read name ls = Ok C
    ∧ inputs (c_g C) = list_to_set (decl_inputs ls) ∧ outputs (c_g C) = list_to_set (decl_outputs ls)
    ∧ (∀ v, consistent (c_g C) v → sat_bench ls v)
    ∧ (∀ v, sat_bench ls v → ∃ v', consistent (c_g C) v' ∧ agrees (list_to_set (lhs_nets ls)) v v')
    ∧ (∀ q d, (q, d) ∈ dff_lines ls → dff_between C q d).
Proof. exact bench_read_denotes. Qed.
Print Assumptions C15_bench_read_denotes.

(* ---- round trip ---- *)
(* for every lint-clean circuit without blackboxes, blackbox pins and x constants, closed and identifier-named, and for EVERY
   choice of the set orders the writer accepts: the written line list is well-formed and its closed-form reading is the
   circuit itself -- graph, output marks, constants (written as XOR(i,i)/XNOR(i,i)) and registry included *)
Theorem C15_write_wf : ∀ C ord ls, lint_clean C → no_x (c_g C) → pin_free (c_g C) → closed (c_g C) → names_ok (c_g C) →
  bench_write C ord = Ok ls → wfb ls = true.
Proof. exact write_wf. Qed.
Print Assumptions C15_write_wf.
Theorem C15_write_read_closed : ∀ C ord ls, lint_clean C → no_x (c_g C) → pin_free (c_g C) → closed (c_g C) → names_ok (c_g C) →
  bench_write C ord = Ok ls → bench_closed (c_name C) ls = C.
Proof. exact write_read_closed. Qed.
Print Assumptions C15_write_read_closed.

(* THE round-trip theorem, at full strength, for all set orders (pin_free: a registry-free circuit may still contain stray
   bb_input/bb_output nodes, which the writer rejects; names_ok: node names are bench identifiers).  The read-back circuit
   is the circuit itself, so in particular it has the same inputs and outputs and the same function everywhere. *)
Theorem C15_bench_roundtrip : ∀ C ord,
  lint_clean C → bb_free C → inputs (c_g C) ≠ ∅ → no_x (c_g C) → pin_free (c_g C) → closed (c_g C) → names_ok (c_g C) →
  bench_write C ord ≠ BadOrder →
  ∃ ls C', bench_write C ord = Ok ls ∧ bench_read (c_name C) ls = Ok C'
    ∧ inputs (c_g C') = inputs (c_g C) ∧ outputs (c_g C') = outputs (c_g C)
    ∧ equiv_on (inputs (c_g C) ∪ outputs (c_g C)) (c_g C) (c_g C')
    ∧ C' = C.
Proof. exact bench_roundtrip. Qed.
Print Assumptions C15_bench_roundtrip.

(* ---- character level (Model/Regex.v: executable model of re; Model/BenchScan.v: comment removal, the four findall scans on
   the regex terms regenerated from io.py, the .replace/.split post-processing) ---- *)
(* at the start of its canonical statement (what circuit_to_bench prints; DFF lines alike) each scan pattern matches exactly the
   statement, for every identifier / every gate name of the alternation / every non-empty identifier operand list and any
   following text, and the reader's post-processing of the captures gives back the line *)
Theorem C15_stmt_input : ∀ n rest, ident n = true →
  ∃ cs, match_here rd_re_input (render_line (BInput n) ++ rest) = Some (rest, cs) ∧ BInput <$> split_ops (group 1 cs) = [BInput n].
Proof. exact stmt_input. Qed.
Print Assumptions C15_stmt_input.
Theorem C15_stmt_output : ∀ n rest, ident n = true →
  ∃ cs, match_here rd_re_output (render_line (BOutput n) ++ rest) = Some (rest, cs) ∧ BOutput <$> split_ops (group 1 cs) = [BOutput n].
Proof. exact stmt_output. Qed.
Print Assumptions C15_stmt_output.
Theorem C15_stmt_gate : ∀ net g ops rest, ident net = true → g ∈ rd_alts → ops ≠ [] → Forall (λ o, ident o = true) ops →
  ∃ cs, match_here rd_re_gate (render_line (BGate net g ops) ++ rest) = Some (rest, cs)
    ∧ BGate (text_of (group 1 cs)) (text_of (group 2 cs)) (split_ops (group 3 cs)) = BGate net g ops.
Proof. exact stmt_gate. Qed.
Print Assumptions C15_stmt_gate.
Theorem C15_stmt_dff : ∀ q d rest, ident q = true → ident d = true →
  ∃ cs, match_here rd_re_dff (render_line (BDff q d) ++ rest) = Some (rest, cs)
    ∧ BDff (text_of (group 1 cs)) (text_of (clean (group 3 cs))) = BDff q d.
Proof. exact stmt_dff. Qed.
Print Assumptions C15_stmt_dff.

(* the regex model is sound for every pattern and text: what the matcher accepts is a prefix in the language of the pattern,
   and every match findall reports is such a match at some position of the text *)
Theorem C15_regex_sound : ∀ r s rest cs, match_here r s = Some (rest, cs) → ∃ u, s = (u ++ rest)%list ∧ lang r u.
Proof. exact match_here_sound. Qed.
Print Assumptions C15_regex_sound.
Theorem C15_findall_sound : ∀ r s cs, cs ∈ findall r s →
  ∃ pre t rest u, s = (pre ++ t)%list ∧ t = (u ++ rest)%list ∧ lang r u ∧ match_here r t = Some (rest, cs).
Proof. exact findall_sound. Qed.
Print Assumptions C15_findall_sound.

(* no false matches: inside (or at the newline of) a canonical statement of another kind a scan pattern matches nowhere,
   whatever text follows *)
Theorem C15_nomatch_gate : ∀ l a b rest, canon l → (∀ n g ops, l ≠ BGate n g ops) → (render_line l ++ [10] = a ++ b)%list → b ≠ [] →
  match_here rd_re_gate (b ++ rest) = None.
Proof. exact nomatch_gate. Qed.
Print Assumptions C15_nomatch_gate.

(* THE character-level theorem for the canonical rendering (one statement per line, single blanks -- what
   circuit_to_bench prints, DFF lines alike): for every well-formed line list the comment removal and the four findall scans
   of the regex model, with the reader's post-processing, recover exactly the line list (statements in the order the
   reader consumes them) *)
Theorem C15_scan_canonical : ∀ ls, wfb ls = true → scan_codes (render ls) = by_pass ls.
Proof. exact scan_canonical. Qed.
Print Assumptions C15_scan_canonical.

(* the reader consumes a line list pass by pass: it reads by_pass ls exactly like ls, for EVERY line list (this is what makes the
   comparison `bench_scan text = by_pass ls` of Run_C15.agree meaningful) *)
Theorem C15_read_by_pass : ∀ name ls, bench_read name (by_pass ls) = bench_read name ls.
Proof. exact read_by_pass. Qed.
Print Assumptions C15_read_by_pass.

(* END TO END at character level, for canonical texts: comment removal + four regex scans + post-processing + four passes
   through the construction API on the text of any well-formed line list give the closed-form circuit, hence (with
   C15_bench_read_denotes / the closed-form theorems) the circuit the text denotes *)
Theorem C15_read_text_canonical : ∀ name ls, wfb ls = true →
  bench_read_text name (text_of (render ls)) = Ok (bench_closed name ls).
Proof. exact read_text_canonical. Qed.
Print Assumptions C15_read_text_canonical.

(* ---- character level over LAYOUTS (Model/BenchLayout.v): per statement the keyword case (INPUT/input, OUTPUT/output, DFF/dff),
   arbitrary whitespace of the \s class at every position where the patterns have \s*, arbitrary blanks (blank, tab, newline)
   around every operand; between statements arbitrary whitespace (also none: several statements per line, blank lines, CR LF)
   and comments with any content (# ... newline), also before the first statement, and a final comment that no newline
   terminates (fin); the line list itself is in any order ---- *)
Theorem C15_scan_layout : ∀ g0 ls fin, wfb (lines_of ls) = true → layouts_ok g0 ls → fin_ok fin →
  scan_codes (render_layout_fin g0 ls fin) = by_pass (lines_of ls).
Proof. exact scan_layout_fin. Qed.
Print Assumptions C15_scan_layout.

(* END TO END over layouts: comment removal + regex scans + post-processing + the four API passes on ANY laid-out text of a
   well-formed line list give the closed-form circuit, i.e. (C15_bench_read_denotes) the circuit the text denotes *)
Theorem C15_read_text_layout : ∀ name text g0 ls fin, codes text = render_layout_fin g0 ls fin → wfb (lines_of ls) = true →
  layouts_ok g0 ls → fin_ok fin → bench_read_text name text = Ok (bench_closed name (lines_of ls)).
Proof. exact read_text_layout_fin. Qed.
Print Assumptions C15_read_text_layout.

(* ---- non-vacuity: a well-formed text with a repeated operand, a constant-producing line and two chained flops ---- *)
Definition ex_lines := [BOutput "y"; BDff "q1" "q2"; BGate "y" "XOR" ["a"; "a"; "q1"]; BGate "k" "xnor" ["a"; "a"];
                        BDff "q2" "k"; BInput "a"; BGate "z" "BUFF" ["y"]; BOutput "a"].
Example C15_ex_wf : wfb ex_lines = true.
Proof. vm_compute. reflexivity. Qed.
Example C15_ex_read : bool_decide (bench_read "top" ex_lines = Ok (bench_closed "top" ex_lines)) = true.
Proof. vm_compute. reflexivity. Qed.
Example C15_ex_const : bool_decide (ty (bench_graph ex_lines) "k" = Some C1 ∧ fanin (bench_graph ex_lines) "y" = {[ "q1" ]}) = true.
Proof. vm_compute. reflexivity. Qed.

(* a circuit with both constants, an output that is an input, and one legal choice of the writer's set orders *)
Definition ex_circ : Circuit := {| c_name := "t"; c_bbs := ∅; c_g := list_to_map
  [("a", mk_node Input true ∅); ("b", mk_node Input false ∅); ("k0", mk_node C0 false ∅); ("k1", mk_node C1 true ∅);
   ("g", mk_node Xnor true {[ "a"; "b"; "k0" ]}); ("h", mk_node Not false {[ "g" ]})] |}.
Definition ex_ord : word := {| o_in := ["b"; "a"]; o_out := ["g"; "a"; "k1"]; o_nodes := ["h"; "k1"; "g"; "k0"];
  o_fi := [("g", ["k0"; "a"; "b"]); ("h", ["g"])]; o_const := "b" |}.
Example C15_ex_round : lint_cleanb ex_circ && match bench_write ex_circ ex_ord with
  | Ok ls => bool_decide (bench_read "t" ls = Ok (bench_closed "t" ls) ∧ bench_closed "t" ls = ex_circ) | _ => false end = true.
Proof. vm_compute. reflexivity. Qed.
Example C15_ex_scan : bool_decide (scan_codes (render ex_lines) = by_pass ex_lines) = true.
Proof. vm_compute. reflexivity. Qed.

(* a layout of ex_lines: lower-case keywords, blanks/tabs/newlines at every position, a trailing comment that contains
   statements after every statement, CR LF line ends, a comment before the first statement *)
Definition ex_lay : lay := {| l_lc := true; l_w1 := [32; 9]; l_w2 := [10]; l_w3 := [32]; l_ob := λ _, [32]; l_oa := λ _, [9; 10] |}.
Definition ex_layout : list lunit :=
  (λ l, (l, ex_lay, [SWs [32]; SComment (codes " y = OR(a,b) INPUT(zz) # x"); SWs [13; 10]])) <$> ex_lines.
Example C15_ex_layout_scan :
  bool_decide (scan_codes (render_layout_fin [SComment (codes " c17 OUTPUT(q)")] ex_layout (Some (codes " INPUT(end)"))) = by_pass ex_lines) = true.
Proof. vm_compute. reflexivity. Qed.
