(* C16 -- remove_unloaded deletes exactly the dead logic.  Statements only; proofs in Proofs/RemoveUnloadedProofs.v.
   Domain: closed graphs obeying the wiring rules Circuit.connect enforces (bb_input pins drive nothing; for completeness
   also: inputs / bb_output pins have no fan-in).  Both iteration orders the code depends on (graph order, fan-in set order)
   are universally quantified arguments of the model. *)
From stdpp Require Import strings gmap sets.
From CG Require Import Sem Base.Cases Base.Oracle Model.Paths Proofs.PathsProofs Model.RemoveUnloaded Proofs.RemoveUnloadedProofs.
Open Scope string_scope.

(* obligation on the regenerated type lists of remove_unloaded *)
Theorem C16_tables_ok : ru_tables_ok gen_ru_tables = true.
Proof. vm_compute. reflexivity. Qed.
Print Assumptions C16_tables_ok.

(* all circuits (cyclic ones included): no duplicates; everything removed is dead and of removable type; with an acyclic graph
   everything dead and removable is removed; survivors keep type, fan-in, mark; removed nodes are gone; name and registry
   untouched; a second application removes nothing *)
Theorem C16_remove_unloaded : ∀ C inp nodes ord C' removed,
  closed (c_g C) → bbin_sinks (c_g C) →
  remove_unloaded C inp nodes ord = Ok (C', removed) →
  NoDup removed ∧
  (∀ n, n ∈ removed → ∃ i, c_g C !! n = Some i ∧ removable (c_g C) inp n i) ∧
  (¬ has_cycle (c_g C) → sources_undriven (c_g C) →
     ∀ n i, c_g C !! n = Some i → removable (c_g C) inp n i → n ∈ removed) ∧
  (∀ n, n ∉ removed → c_g C' !! n = c_g C !! n) ∧ (∀ n, n ∈ removed → c_g C' !! n = None) ∧
  c_name C' = c_name C ∧ c_bbs C' = c_bbs C ∧
  (∀ nodes' ord', order_ok nodes' (dom (c_g C')) = true → remove_unloaded C' inp nodes' ord' = Ok (C', [])).
Proof. exact (remove_unloaded_spec gen_ru_tables C16_tables_ok). Qed.
Print Assumptions C16_remove_unloaded.

(* the statement of DESIGN.md appendix C (removed set = exactly the dead removable nodes) for acyclic circuits *)
Theorem C16_exactly_dead : ∀ C inp nodes ord C' removed,
  closed (c_g C) → ¬ has_cycle (c_g C) → bbin_sinks (c_g C) → sources_undriven (c_g C) →
  remove_unloaded C inp nodes ord = Ok (C', removed) →
  ∀ n, n ∈ removed ↔ ∃ i, c_g C !! n = Some i ∧ removable (c_g C) inp n i.
Proof. exact (remove_unloaded_exact gen_ru_tables C16_tables_ok). Qed.
Print Assumptions C16_exactly_dead.

(* the call never fails on a typed graph, whatever the orders (no exception, fuel size c suffices) *)
Theorem C16_total : ∀ C inp nodes ord,
  bbin_sinks (c_g C) → map_Forall (λ _ i, n_ty i ≠ NoTy) (c_g C) →
  order_ok nodes (dom (c_g C)) = true → (∀ n, n ∈ dom (c_g C) → order_ok (ord n) (fanin (c_g C) n) = true) →
  ∃ C' removed, remove_unloaded C inp nodes ord = Ok (C', removed).
Proof. exact (remove_unloaded_total gen_ru_tables C16_tables_ok). Qed.
Print Assumptions C16_total.

(* the oracle's executable specification is the declarative one *)
Theorem C16_dead_removable_spec : ∀ c inp n, closed c →
  n ∈ dead_removable c inp ↔ ∃ i, c !! n = Some i ∧ removable c inp n i.
Proof. exact dead_removable_spec. Qed.
Print Assumptions C16_dead_removable_spec.

(* non-vacuity: a circuit with live logic (a, b -> g -> output), a dead chain (a -> d1 -> d2), an input loaded only by dead
   logic (u) and an unloaded input (v) satisfies every hypothesis; the run removes d2, d1 (and u, v when inputs=True) *)
Definition ex_c : circuit := mk_g
  [("a", Input, false, []); ("b", Input, false, []); ("u", Input, false, []); ("v", Input, false, []);
   ("g", And, true, ["a"; "b"]); ("d1", Or, false, ["a"; "u"]); ("d2", Not, false, ["d1"])].
Definition ex_C := {| c_name := "t"; c_g := ex_c; c_bbs := ∅ |}.
Definition ex_nodes := ["a"; "b"; "u"; "v"; "g"; "d1"; "d2"].
Definition ex_ord (n : string) : list string := elements (fanin ex_c n).
Example C16_ex_hyps : closed ex_c ∧ bbin_sinks ex_c ∧ sources_undriven ex_c ∧ ¬ has_cycle ex_c.
Proof.
  split; [apply closedb_spec; vm_compute; reflexivity|].
  split; [apply bbin_sinksb_spec; vm_compute; reflexivity|].
  split; [apply sources_undrivenb_spec; vm_compute; reflexivity|].
  apply acyclic_no_cycle, acyclicb_sound. vm_compute. reflexivity.
Qed.
Example C16_ex_run_false : rmap snd (remove_unloaded ex_C false ex_nodes ex_ord) = Ok ["d2"; "d1"].
Proof. vm_compute. reflexivity. Qed.
Example C16_ex_run_true : rmap snd (remove_unloaded ex_C true ex_nodes ex_ord) = Ok ["d2"; "d1"; "u"; "v"].
Proof. vm_compute. reflexivity. Qed.

(* the wiring hypothesis is needed: a bb_input pin that (illegally) drives a dead gate is deleted although it is an endpoint *)
Definition ex_bad := {| c_name := "t"; c_g := mk_g [("a", Input, false, []); ("p", BbIn, false, ["a"]); ("d", Not, false, ["p"])]; c_bbs := ∅ |}.
Example C16_wiring_needed : rmap snd (remove_unloaded ex_bad false ["a"; "p"; "d"] (λ n, elements (fanin (c_g ex_bad) n))) = Ok ["d"; "p"]
  ∧ live (c_g ex_bad) "p".
Proof.
  split; [vm_compute; reflexivity|]. apply live_set_spec; [apply closedb_spec; vm_compute; reflexivity|]. vm_compute. reflexivity.
Qed.
