(* C17 -- supergate decomposition.  Statements only; proofs in Proofs/SupergatesProofs.v.
   L is the fan-in-limited circuit limit_fanin(c, 2) the code works on (recorded by the harness; C05 is about it). *)
From stdpp Require Import strings gmap sets.
From CG Require Import Base.Cases Base.Oracle Model.Supergates Proofs.SupergatesProofs Proofs.SupergatesDom Proofs.SupergatesCoverFull.
Open Scope string_scope.

(* Hypotheses on the fan-in-limited circuit: what lint-cleanness, acyclicity and limit_fanin(.., 2) give. *)
Definition wf_lim (L : circuit) : Prop :=
  closed L ∧ acyclic L ∧
  ∀ n i, L !! n = Some i → size (n_fi i) ≤ 2 ∧ (is_const (n_ty i) = true → n_fi i = ∅) ∧
                           (n_ty i ≠ Input → is_const (n_ty i) = false → n_fi i ≠ ∅) ∧ (n_ty i = Input → n_fi i = ∅).
(* The property as a statement about the model (DESIGN.md appendix C): PROVED below as C17_model_correct. *)
Definition C17_full : Prop := ∀ L sgs, wf_lim L → supergates L = Ok sgs → sg_spec L sgs.
Definition wf2 (L : circuit) : Prop :=
  closed L ∧ (∀ n i, L !! n = Some i → size (n_fi i) ≤ 2 ∧ is_bb (n_ty i) = false) ∧ ¬ has_cycle L.
(* "returns a list for every circuit" is false for the code as it is (finding C17-F2): two output cones can be decomposed
   inconsistently, the dependency graph of the minimal cover is cyclic and networkx.topological_sort raises *)
Definition C17_total_full : Prop := ∀ L, wf2 L → ∃ sgs, supergates L = Ok sgs.

(* obligation on the regenerated constants of tx.supergates: limit 2, split above one child, absorb a single child, names *)
Theorem C17_tables_ok : sg_tables_ok = true.
Proof. vm_compute. reflexivity. Qed.
Print Assumptions C17_tables_ok.

(* ---- proved for all circuits and all lists: the checkers that decide the clauses per run are sound ---- *)
Theorem C17_checkers_sound : ∀ L sgs, check_all L sgs = true → sg_spec L sgs.
Proof. exact check_all_sound. Qed.
Print Assumptions C17_checkers_sound.

Theorem C17_check_shape_sound : ∀ L sgs, check_shape L sgs = true →
  Forall (λ sg, size (outputs (c_g sg)) = 1 ∧
                ∀ n, n ∈ gates (c_g sg) → n_ty <$> c_g sg !! n = n_ty <$> L !! n ∧ fanin (c_g sg) n = fanin L n) sgs.
Proof. exact check_shape_sound. Qed.
Print Assumptions C17_check_shape_sound.

Theorem C17_check_cover_sound : ∀ L sgs, check_cover L sgs = true →
  ∀ n o, o ∈ outputs L → reach L n o → n ∉ inputs L → ∃ sg, sg ∈ sgs ∧ n ∈ gates (c_g sg).
Proof. exact check_cover_sound. Qed.
Print Assumptions C17_check_cover_sound.

Theorem C17_check_topo_sound : ∀ sgs, check_topo sgs = true →
  ∀ i j sgi sgj x, sgs !! i = Some sgi → sgs !! j = Some sgj → x ∈ inputs (c_g sgi) → x ∈ gates (c_g sgj) → j < i.
Proof. exact check_topo_sound. Qed.
Print Assumptions C17_check_topo_sound.

Theorem C17_check_independent_sound : ∀ L sgs, check_independent L sgs = true →
  Forall (λ sg, ∀ a b x, a ∈ inputs (c_g sg) → b ∈ inputs (c_g sg) → a ≠ b → reach L x a → reach L x b → False) sgs.
Proof. exact check_independent_sound. Qed.
Print Assumptions C17_check_independent_sound.

(* shape and order checkers are exact (not merely sound) *)
Theorem C17_check_topo_complete : ∀ sgs,
  (∀ i j sgi sgj x, sgs !! i = Some sgi → sgs !! j = Some sgj → x ∈ inputs (c_g sgi) → x ∈ gates (c_g sgj) → j < i) →
  check_topo sgs = true.
Proof. intros sgs H. apply bool_decide_eq_true, topo_ok_complete, H. Qed.
Print Assumptions C17_check_topo_complete.

(* ---- proved about the construction (mirrored model), every circuit: part of the shape clause ----
   without hypotheses on L; the full clauses need wf_lim (C17_shape, C17_independence, C17_cover_full below);
   'exactly one output' holds because the model has no value (BadOrder) where the Python result would depend on set order by id *)
Theorem C17_construction_partial : ∀ L sgs, supergates L = Ok sgs →
  Forall (λ sg, c_bbs sg = ∅ ∧ size (outputs (c_g sg)) = 1 ∧
                ∀ n, n ∈ gates (c_g sg) → n_ty <$> c_g sg !! n = n_ty <$> L !! n ∧ fanin (c_g sg) n ⊆ fanin L n) sgs.
Proof.
  intros L sgs H. pose proof (supergates_restrict _ _ H) as H1. pose proof (supergates_gate_wiring _ _ H) as H2.
  pose proof (supergates_single_output _ _ H) as H3.
  rewrite Forall_forall in H1, H2, H3 |- *. intros sg Hsg. split; [apply (H1 sg Hsg)|]. split; [apply (H3 sg Hsg)|apply (H2 sg Hsg)].
Qed.
Print Assumptions C17_construction_partial.

(* ---- the shape clause in full for the model: gates keep their WHOLE fan-in (a grown supergate is closed under fan-in
   except at its inputs).  Dominator-tree argument over least closed sets: an operand of a gate is a tree child or a tree
   sibling of the gate; with at most two operands a gate that does not dominate one of its operands has at most one tree child. ---- *)
Theorem C17_shape : ∀ L sgs, wf_lim L → supergates L = Ok sgs →
  Forall (λ sg, size (outputs (c_g sg)) = 1 ∧
                ∀ n, n ∈ gates (c_g sg) → n_ty <$> c_g sg !! n = n_ty <$> L !! n ∧ fanin (c_g sg) n = fanin L n) sgs.
Proof.
  intros L sgs (Hcl & [rank Hrank] & Hb) H.
  pose proof (supergates_gate_wiring _ _ H) as H2. pose proof (supergates_single_output _ _ H) as H3.
  pose proof (supergates_fanin_eq L rank Hcl Hrank (λ n i Hi, proj1 (Hb n i Hi)) (λ n i Hi, proj1 (proj2 (Hb n i Hi))) sgs H) as H4.
  rewrite Forall_forall in H2, H3, H4 |- *. intros sg Hsg. split; [apply (H3 sg Hsg)|]. intros n Hn.
  split; [apply (H2 sg Hsg n Hn)|apply (H4 sg Hsg n Hn)].
Qed.
Print Assumptions C17_shape.

(* ---- the cover clause for single-output circuits (the form the super-circuit needs): every node of the dominator tree
   has an immediate dominator (strict dominators form a chain), the traversal reaches every tree node, every driven node
   lies with an operand in some grown set, and with one output the minimal-cover filter keeps every supergate (its root is
   a gate of no other one).  For several outputs the filter mixes cones; not proved (C17_cover_full below). ---- *)
Theorem C17_cover_single : ∀ L o sgs, wf_lim L → outputs L = {[o]} → supergates L = Ok sgs →
  ∀ n, reach L n o → n ∉ inputs L → ∃ sg, sg ∈ sgs ∧ n ∈ gates (c_g sg).
Proof.
  intros L o sgs (Hcl & [rank Hrank] & Hb).
  exact (supergates_cover_single L rank Hcl Hrank (λ n i Hi, proj1 (Hb n i Hi)) (λ n i Hi, proj1 (proj2 (Hb n i Hi)))
           (λ n i Hi, proj1 (proj2 (proj2 (Hb n i Hi)))) o sgs).
Qed.
Print Assumptions C17_cover_single.
(* several outputs: proved up to the minimal-cover filter -- every gate in the cone of an output is a gate of a supergate of
   the de-duplicated list the filter starts from.  NOT proved: that the filter never drops the last supergate holding a gate
   (needs a lemma across cones: if the root of s is a gate of t then every gate of s is a gate of t).  No counterexample in
   60 000 generated multi-output circuits evaluated on the model twin, cyclic covers included. *)
Theorem C17_cover_prefilter_partial : ∀ L all, wf_lim L → all_supergates L = Ok all →
  ∀ n o, o ∈ outputs L → reach L n o → n ∉ inputs L → ∃ sg, sg ∈ all ∧ n ∈ gates (c_g sg).
Proof.
  intros L all (Hcl & [rank Hrank] & Hb).
  exact (all_supergates_cover L rank Hcl Hrank (λ n i Hi, proj1 (Hb n i Hi)) (λ n i Hi, proj1 (proj2 (proj2 (Hb n i Hi)))) all).
Qed.
Print Assumptions C17_cover_prefilter_partial.
(* ---- the cover clause, any number of outputs: the minimal-cover filter never drops the last supergate holding a gate.
   Cross-cone lemma (Proofs/SupergatesCross.v): if the root r of a supergate s (grown in cone A) is a gate of a supergate t
   (grown in cone B), every gate of s is a gate of t -- inside the region r dominates in A, dominance in B implies dominance
   in A, so a member of s with two tree children in B has two in A and would be an input of s.  Then: among the supergates
   holding n take one with the most gates; were it dropped, its root would be a gate of another supergate with the same
   gate set, hence (the gates fix the node set) the same node set, which de-duplication excludes. ---- *)
Theorem C17_cover_full : ∀ L sgs, wf_lim L → supergates L = Ok sgs →
  ∀ n o, o ∈ outputs L → reach L n o → n ∉ inputs L → ∃ sg, sg ∈ sgs ∧ n ∈ gates (c_g sg).
Proof.
  intros L sgs (Hcl & [rank Hrank] & Hb).
  exact (supergates_cover_full L rank Hcl Hrank (λ n i Hi, proj1 (Hb n i Hi)) (λ n i Hi, proj1 (proj2 (Hb n i Hi)))
           (λ n i Hi, proj2 (proj2 (proj2 (Hb n i Hi)))) (λ n i Hi, proj1 (proj2 (proj2 (Hb n i Hi)))) sgs).
Qed.
Print Assumptions C17_cover_full.

(* ---- the independence clause, any number of outputs: an input of a supergate is a source, or a frontier node with two tree
   children; such a node strictly dominates everything upstream of it and is a strict dominator of no member of the grown
   set (members hang below the root through single-child nodes only); two inputs with a common upstream node would be
   comparable in the dominator chain of that node. ---- *)
Theorem C17_independence : ∀ L sgs, wf_lim L → supergates L = Ok sgs →
  Forall (λ sg, ∀ a b x, a ∈ inputs (c_g sg) → b ∈ inputs (c_g sg) → a ≠ b → reach L x a → reach L x b → False) sgs.
Proof.
  intros L sgs (Hcl & [rank Hrank] & Hb).
  exact (supergates_independent L rank Hcl Hrank (λ n i Hi, proj1 (Hb n i Hi)) (λ n i Hi, proj2 (proj2 (proj2 (Hb n i Hi)))) sgs).
Qed.
Print Assumptions C17_independence.

(* the order clause for the list the MODEL returns (Kahn rounds over the dependency relation the code hands to
   networkx.topological_sort); the implementation's own order is not modelled and is judged per run by check_topo *)
Theorem C17_model_order_partial : ∀ L sgs, supergates L = Ok sgs →
  ∀ i j sgi sgj x, sgs !! i = Some sgi → sgs !! j = Some sgj → x ∈ inputs (c_g sgi) → x ∈ gates (c_g sgj) → j < i.
Proof. exact supergates_topo. Qed.
Print Assumptions C17_model_order_partial.

(* ---- all four clauses for single-output circuits: the property for the mirrored model in the super-circuit's domain ---- *)
Theorem C17_single_output : ∀ L o sgs, wf_lim L → outputs L = {[o]} → supergates L = Ok sgs → sg_spec L sgs.
Proof.
  intros L o sgs Hwf Hout H. split; [|split].
  - pose proof (C17_shape L sgs Hwf H) as H1. pose proof (C17_independence L sgs Hwf H) as H2.
    rewrite Forall_forall in H1, H2 |- *. intros sg Hsg. destruct (H1 sg Hsg) as [Ha Hb]. split; [done|]. split; [done|]. exact (H2 sg Hsg).
  - intros n o' Ho'. rewrite Hout in Ho'. apply elem_of_singleton in Ho'. subst o'. by apply (C17_cover_single L o sgs).
  - exact (C17_model_order_partial L sgs H).
Qed.
Print Assumptions C17_single_output.

(* ---- the whole property for the mirrored model, any number of outputs: whenever the model returns a list, the list
   satisfies all four clauses (that it does not always return one is finding C17-F2, C17_total_refuted) ---- *)
Theorem C17_model_correct : C17_full.
Proof.
  intros L sgs Hwf H. split; [|split].
  - pose proof (C17_shape L sgs Hwf H) as H1. pose proof (C17_independence L sgs Hwf H) as H2.
    rewrite Forall_forall in H1, H2 |- *. intros sg Hsg. destruct (H1 sg Hsg) as [Ha Hb]. split; [done|]. split; [done|]. exact (H2 sg Hsg).
  - exact (C17_cover_full L sgs Hwf H).
  - exact (C17_model_order_partial L sgs H).
Qed.
Print Assumptions C17_model_correct.

(* ---- the hypotheses are decided per run on the recorded limited circuit (Run_C17.holds), and the clauses that do not
   mention list positions transfer from the model's list to any list with the same members: so a run on which the
   correspondence holds (`agree`: same set) inherits shape, independence and cover from the theorem ---- *)
Theorem C17_wf_limb_sound : ∀ L, wf_limb L = true → wf_lim L.
Proof.
  intros L H. unfold wf_limb in H. apply bool_decide_eq_true in H. split; [|split].
  - intros n i f Hi Hf. destruct (H n i Hi) as (Hsub & _). by apply Hsub.
  - exists (λ n, default 0 (rank_cert L !! n)). intros n i f Hi Hf. destruct (H n i Hi) as (_ & Hr & _). by apply Hr.
  - intros n i Hi. destruct (H n i Hi) as (_ & _ & ? & ? & ? & ?). done.
Qed.
Print Assumptions C17_wf_limb_sound.
Theorem C17_agreement_transfers : ∀ L m r, wf_limb L = true → supergates L = Ok m → (∀ sg, sg ∈ m ↔ sg ∈ r) →
  Forall (λ sg, size (outputs (c_g sg)) = 1 ∧
                (∀ n, n ∈ gates (c_g sg) → n_ty <$> c_g sg !! n = n_ty <$> L !! n ∧ fanin (c_g sg) n = fanin L n) ∧
                (∀ a b x, a ∈ inputs (c_g sg) → b ∈ inputs (c_g sg) → a ≠ b → reach L x a → reach L x b → False)) r ∧
  (∀ n o, o ∈ outputs L → reach L n o → n ∉ inputs L → ∃ sg, sg ∈ r ∧ n ∈ gates (c_g sg)).
Proof.
  intros L m r Hwf Hm Hsame. destruct (C17_model_correct L m (C17_wf_limb_sound L Hwf) Hm) as (H1 & H2 & _). split.
  - rewrite Forall_forall in H1 |- *. intros sg Hsg. apply H1. by apply Hsame.
  - intros n o Ho Hr Hn. destruct (H2 n o Ho Hr Hn) as (sg & Hsg & Hg). exists sg. split; [by apply Hsame|done].
Qed.
Print Assumptions C17_agreement_transfers.

(* ---- witnesses ---- *)
(* x = and(a,b), y = or(c,d), g = and(x,y), o1 = not(g), o2 = buf(g): five supergates, the shared one found in both cones *)
Definition ex_shared : circuit := mk_g
  [("a",Input,false,[]);("b",Input,false,[]);("c",Input,false,[]);("d",Input,false,[]);
   ("x",And,false,["a";"b"]);("y",Or,false,["c";"d"]);("g",And,false,["x";"y"]);
   ("o1",Not,true,["g"]);("o2",Buf,true,["g"])].
Example C17_example_decomposition : ∃ sgs, supergates ex_shared = Ok sgs ∧ length sgs = 5 ∧ check_all ex_shared sgs = true.
Proof.
  assert (match supergates ex_shared with Ok sgs => Nat.eqb (length sgs) 5 && check_all ex_shared sgs | _ => false end = true) as H
    by (vm_compute; reflexivity).
  destruct (supergates ex_shared) as [sgs| | |]; [|discriminate..]. exists sgs.
  apply andb_true_iff in H as [H1%Nat.eqb_eq H2]. split; [reflexivity|]. split; [exact H1|exact H2].
Qed.
Example C17_example_spec : ∃ sgs, supergates ex_shared = Ok sgs ∧ sg_spec ex_shared sgs.
Proof.
  destruct C17_example_decomposition as (sgs & H1 & _ & H2). exists sgs. split; [exact H1|]. apply check_all_sound. exact H2.
Qed.
Example C17_example_wf : wf_lim ex_shared.
Proof.
  split; [apply closedb_spec; vm_compute; reflexivity|]. split; [apply acyclicb_sound; vm_compute; reflexivity|].
  apply map_Forall_lookup. apply (bool_decide_unpack _). vm_compute. exact I.
Qed.
(* g = and(a,b), h = or(g,c), o = xor(g,h): a single-output circuit for C17_cover_single *)
Definition ex_single : circuit := mk_g
  [("a",Input,false,[]);("b",Input,false,[]);("c",Input,false,[]);
   ("g",And,false,["a";"b"]);("h",Or,false,["g";"c"]);("o",Xor,true,["g";"h"])].
Example C17_example_single : wf_lim ex_single ∧ outputs ex_single = {["o"]} ∧ ∃ sgs, supergates ex_single = Ok sgs.
Proof.
  split; [|split].
  - split; [apply closedb_spec; vm_compute; reflexivity|]. split; [apply acyclicb_sound; vm_compute; reflexivity|].
    apply map_Forall_lookup. apply (bool_decide_unpack _). vm_compute. exact I.
  - apply (bool_decide_unpack _). vm_compute. exact I.
  - assert (match supergates ex_single with Ok _ => true | _ => false end = true) as H by (vm_compute; reflexivity).
    destruct (supergates ex_single) as [sgs| | |]; [|discriminate..]. by exists sgs.
Qed.
(* the checkers reject: dropping the shared supergate breaks the cover clause *)
Example C17_example_reject : ∃ sgs, supergates ex_shared = Ok sgs ∧
  check_cover ex_shared (filter (λ s, bool_decide ("g" ∈ gates (c_g s)) = false) sgs) = false.
Proof.
  assert (match supergates ex_shared with Ok sgs => negb (check_cover ex_shared (filter (λ s, bool_decide ("g" ∈ gates (c_g s)) = false) sgs)) | _ => false end = true) as H
    by (vm_compute; reflexivity).
  destruct (supergates ex_shared) as [sgs| | |]; [|discriminate..]. exists sgs. apply negb_true_iff in H. split; [reflexivity|exact H].
Qed.

(* finding C17-F2: f = and(b,e), g = and(c,d), h = or(f,g), outputs i = and(d,h), k = and(h,e) *)
Definition ex_cyclic : circuit := mk_g
  [("b",Input,false,[]);("c",Input,false,[]);("d",Input,false,[]);("e",Input,false,[]);
   ("f",And,false,["b";"e"]);("g",And,false,["c";"d"]);("h",Or,false,["f";"g"]);
   ("i",And,true,["d";"h"]);("k",And,true,["h";"e"])].
Example ex_cyclic_acyclic : ¬ has_cycle ex_cyclic.
Proof. apply acyclic_no_cycle, acyclicb_sound. vm_compute. reflexivity. Qed.
Theorem C17_total_refuted : ∃ L, wf2 L ∧ ¬ ∃ sgs, supergates L = Ok sgs.
Proof.
  exists ex_cyclic. split.
  - split; [|split; [|exact ex_cyclic_acyclic]].
    + apply closedb_spec. vm_compute. reflexivity.
    + apply map_Forall_lookup. apply (bool_decide_unpack _). vm_compute. exact I.
  - assert (supergates ex_cyclic = Raise OtherError) as E by (vm_compute; reflexivity).
    intros [sgs H]. rewrite E in H. discriminate.
Qed.
Print Assumptions C17_total_refuted.
