(* C18 -- acyclic_unroll removes cycles and preserves stable states (and the C05 clause for acyclic arguments).
   Statements only; proofs in Proofs/AcyclicUnrollProofs.v.

   Model: Model/AcyclicUnroll.v `acyclic_unroll C F` (API-level mirror of tx.acyclic_unroll, F = feedback node set) and
   `unrolled c F` (closed form of its result).  Proved here, for ALL circuits and ALL feedback sets with an acyclic cut:
   the semantics and the io structure of the closed form, and that the feedback choice of the code is always legal
   (back edges of ANY node order that lie on a cycle).  `C18_model_is_closed_form` links the API-level model to the closed form
   (graph equality whenever the model returns), so `C18_acyclic_unroll_partial` is about the model itself.
   The closed form is lint-clean (`C18_result_lint_clean`) and inside the guards the model returns (`C18_total`), so
   `C18_acyclic_unroll` is the property about the API-level model with nothing left to the per-case oracle.
   What stays tied by correspondence only: model <-> Python code, and the greedy ordering heuristic (any order is correct). *)
From stdpp Require Import strings gmap sets fin_sets.
From CG Require Import Base.Oracle Model.AcyclicUnroll Model.TopoEval Proofs.AcyclicUnrollProofs Proofs.AcyclicUnrollLink Proofs.AcyclicbComplete Proofs.UnrollTotal Proofs.AcyclicUnrollTotal.
Open Scope string_scope.

(* --- the feedback choice: for every node order, removing the back edges that lie on a cycle leaves an acyclic graph
       (so `approx_min_fas` never raises on a circuit without self loops, whatever the greedy heuristic and the hash order do) --- *)
Theorem C18_cut_acyclic_any_order : ∀ c ord,
  (∀ n, n ∉ fanin c n) → (∀ n, n ∈ dom c → n ∈ ord) → closed c → acyclic (cut_edges c ord).
Proof. exact cut_acyclic_any_order_proof. Qed.
Print Assumptions C18_cut_acyclic_any_order.

(* the node set the construction then cuts (sources of those edges) has an acyclic cut, and each such node lies on a cycle *)
Theorem C18_feedback_choice_ok : ∀ c ord,
  (∀ n, n ∉ fanin c n) → (∀ n, n ∈ dom c → n ∈ ord) → closed c → cut_acyclic c (elements (fas_of_order c ord)).
Proof. exact fas_cut_acyclic. Qed.
Print Assumptions C18_feedback_choice_ok.
Theorem C18_feedback_on_cycle : ∀ c ord u, u ∈ fas_of_order c ord → tc (λ a b, a ∈ fanin c b) u u.
Proof. exact fas_on_cycle. Qed.
Print Assumptions C18_feedback_on_cycle.
(* `desc` (the model of nx.descendants used in the edge filter) is exactly proper reachability *)
Theorem C18_desc_exact : ∀ c x z, z ∈ desc c x ↔ tc (λ a b, a ∈ fanin c b) x z.
Proof. intros. split; [apply desc_sound|apply desc_complete]. Qed.
Print Assumptions C18_desc_exact.

(* --- stable states: for every feedback set F with an acyclic cut, every consistent valuation w of the unrolled circuit
       that agrees with a stable state v of c on the inputs and carries v f on the aux input of f shows v on all outputs --- *)
Theorem C18_stable_states_partial : ∀ c F v w,
  closed c → free_are_inputs c → names_ok c F → cut_acyclic c F → (∀ f, f ∈ F → f ∈ dom c) →
  consistent c v → consistent (unrolled c F) w → agrees (inputs c) w v →
  (∀ f, f ∈ F → w ("c0_aux_in_" ++ f) = v f) →
  agrees (outputs c) w v.
Proof. exact unrolled_stable. Qed.
Print Assumptions C18_stable_states_partial.

(* same outputs; inputs = original inputs plus one aux input per feedback node *)
Theorem C18_outputs_partial : ∀ c F, names_ok c F → outputs (unrolled c F) = outputs c.
Proof. intros c F [H _]. by apply unrolled_outputs. Qed.
Print Assumptions C18_outputs_partial.
Theorem C18_inputs_partial : ∀ c F, names_ok c F →
  inputs (unrolled c F) = inputs c ∪ list_to_set ((λ f, "c0_aux_in_" ++ f) <$> F).
Proof. exact unrolled_inputs'. Qed.
Print Assumptions C18_inputs_partial.

(* the result is acyclic *)
Theorem C18_result_acyclic_partial : ∀ c F, closed c → names_ok c F → (∀ f, f ∈ F → f ∈ dom c) → cut_acyclic c F →
  acyclic (unrolled c F).
Proof. intros c F Hc [Hn _] HF Hcut. by apply unrolled_acyclic. Qed.
Print Assumptions C18_result_acyclic_partial.

(* C05 clause: acyclic_unroll of an already acyclic circuit (no feedback node) is equivalent to it on inputs/outputs *)
Theorem C05_acyclic_unroll_of_acyclic_partial : ∀ c v w,
  closed c → free_are_inputs c → names_ok c [] → acyclic c →
  consistent c v → consistent (unrolled c []) w → agrees (inputs c) w v → agrees (outputs c) w v.
Proof. exact unrolled_of_acyclic. Qed.
Print Assumptions C05_acyclic_unroll_of_acyclic_partial.

(* the oracle's evaluator: a table whose valuation passes consistentb IS the unique consistent valuation *)
Theorem C18_oracle_evaluator_certified : ∀ c ord a v, closed c → acyclic c →
  consistentb c (te_eval ord a) = true → eq_on (elements (free_nodes c)) (te_eval ord a) a = true →
  consistent c v → agrees (free_nodes c) v a → agrees (dom c) v (te_eval ord a).
Proof. exact te_certified. Qed.
Print Assumptions C18_oracle_evaluator_certified.

(* --- THE LINK: whenever the API-level model (Base/Api.v calls in source order) returns a circuit, it is the closed form.
       Proved through the specifications of add / connect / set_type / set_output / add_subcircuit (C06, C07). --- *)
Theorem C18_model_is_closed_form : ∀ C F A,
  closed (c_g C) → inputs_undriven (c_g C) → startpoints (c_g C) = inputs (c_g C) →
  NoDup (unrolled_nodes (c_g C) F).*1 →
  acyclic_unroll C F = Ok A →
  A = {| c_name := "acyc_" ++ c_name C; c_g := unrolled (c_g C) F; c_bbs := ∅ |}.
Proof. exact acyclic_unroll_closed_form. Qed.
Print Assumptions C18_model_is_closed_form.

(* --- the property about the model (DESIGN.md C18_acyclic_unroll, second half): for every feedback set with an acyclic cut,
       what `acyclic_unroll C F` returns is acyclic, has the same outputs, inputs = inputs + one aux per f, and shows every
       stable state on its outputs.  Missing for the unconditional statement: `C18_total_full` (the model does return). --- *)
Theorem C18_acyclic_unroll_partial : ∀ C F A,
  lint_clean C → closed (c_g C) → startpoints (c_g C) = inputs (c_g C) → free_are_inputs (c_g C) →
  names_ok (c_g C) F → cut_acyclic (c_g C) F →
  acyclic_unroll C F = Ok A →
  c_bbs A = ∅ ∧ acyclic (c_g A) ∧ outputs (c_g A) = outputs (c_g C) ∧
  inputs (c_g A) = inputs (c_g C) ∪ list_to_set ((λ f, "c0_aux_in_" ++ f) <$> F) ∧
  ∀ v w, consistent (c_g C) v → consistent (c_g A) w → agrees (inputs (c_g C)) w v →
         (∀ f, f ∈ F → w ("c0_aux_in_" ++ f) = v f) → agrees (outputs (c_g C)) w v.
Proof. exact acyclic_unroll_spec. Qed.
Print Assumptions C18_acyclic_unroll_partial.

(* --- TOTALITY: inside the guards every call of the construction API made by the model is accepted, the result passes lint
       and the executable acyclicity test, so the model returns.  (The test of Base/Oracle.v is complete, not only sound.) --- *)
Theorem C18_acyclicity_test_complete : ∀ c, closed c → acyclic c → acyclicb c = true.
Proof. exact acyclicb_complete. Qed.
Print Assumptions C18_acyclicity_test_complete.
Theorem C18_total : ∀ C F,
  lint_clean C → c_bbs C = ∅ → closed (c_g C) → plain (c_g C) → valid_names (c_g C) → (∀ n, n ∉ fanin (c_g C) n) →
  names_ok (c_g C) F → NoDup F → (∀ f, f ∈ F → f ∈ dom (c_g C)) → cut_acyclic (c_g C) F →
  ∃ A, acyclic_unroll C F = Ok A.
Proof. exact acyclic_unroll_total. Qed.
Print Assumptions C18_total.

(* --- C18 about the model, unconditionally inside the guards (DESIGN.md C18_acyclic_unroll): for every lint-clean blackbox-free
       circuit without self loops and every feedback set with an acyclic cut (in particular the code's own choice for ANY node
       order, C18_feedback_choice_ok) the model returns an acyclic lint-clean circuit with the same outputs, inputs = inputs +
       one aux per feedback node, which shows every stable state on its outputs.
       Guards: `plain` (no bb_input / bb_output typed node), `valid_names` (no empty name, none starting with a digit; Circuit.add
       rejects those), `free_are_inputs` (no x constant), `names_ok` (generated names do not collide). --- *)
Theorem C18_acyclic_unroll : ∀ C F,
  lint_clean C → c_bbs C = ∅ → closed (c_g C) → plain (c_g C) → valid_names (c_g C) → (∀ n, n ∉ fanin (c_g C) n) →
  free_are_inputs (c_g C) → names_ok (c_g C) F → NoDup F → (∀ f, f ∈ F → f ∈ dom (c_g C)) → cut_acyclic (c_g C) F →
  ∃ A, acyclic_unroll C F = Ok A ∧
    c_bbs A = ∅ ∧ lint_clean A ∧ acyclic (c_g A) ∧ outputs (c_g A) = outputs (c_g C) ∧
    inputs (c_g A) = inputs (c_g C) ∪ list_to_set ((λ f, "c0_aux_in_" ++ f) <$> F) ∧
    ∀ v w, consistent (c_g C) v → consistent (c_g A) w → agrees (inputs (c_g C)) w v →
           (∀ f, f ∈ F → w ("c0_aux_in_" ++ f) = v f) → agrees (outputs (c_g C)) w v.
Proof. exact acyclic_unroll_correct. Qed.
Print Assumptions C18_acyclic_unroll.

(* the closed form (hence, by the link, whatever the model returns) passes lint *)
Theorem C18_result_lint_clean : ∀ C F nm,
  lint_clean C → c_bbs C = ∅ → startpoints (c_g C) = inputs (c_g C) → (∀ f, f ∈ F → f ∈ dom (c_g C)) →
  NoDup (unrolled_nodes (c_g C) F).*1 →
  lint_clean {| c_name := nm; c_g := unrolled (c_g C) F; c_bbs := ∅ |}.
Proof. exact unrolled_lint_clean. Qed.
Print Assumptions C18_result_lint_clean.

(* --- non-vacuity: a nested pair of cycles (g <-> h, h <-> k) with an input that is also an output --- *)
Definition ex_c : circuit :=
  {[ "a" := mk_node Input true ∅ ]} ∪ {[ "g" := mk_node Nand true {[ "a"; "h" ]} ]} ∪
  {[ "h" := mk_node Nand false {[ "g"; "k" ]} ]} ∪ {[ "k" := mk_node Or true {[ "h"; "a" ]} ]}.
Definition ex_C := {| c_name := "t"; c_g := ex_c; c_bbs := ∅ |}.
Definition ex_v : val := λ n, bool_decide (n ∈ ({[ "a"; "h"; "k" ]} : gset string)).     (* a=1 g=0 h=1 k=1 *)
Example C18_ex_hyps : closed ex_c ∧ free_are_inputs ex_c ∧ names_ok ex_c ["h"] ∧ cut_acyclic ex_c ["h"] ∧ consistent ex_c ex_v.
Proof.
  split; [apply closedb_spec; vm_compute; reflexivity|].
  split; [apply (bool_decide_unpack _); vm_compute; reflexivity|].
  split; [apply names_okb_spec; vm_compute; reflexivity|].
  split; [apply acyclicb_sound; vm_compute; reflexivity|].
  apply consistentb_spec; vm_compute; reflexivity.
Qed.
Example C18_ex_guards : lint_clean ex_C ∧ plain ex_c ∧ valid_names ex_c ∧ (∀ n, n ∉ fanin ex_c n).
Proof.
  split; [vm_compute; reflexivity|]. split; [|split].
  - change (map_Forall (λ (_ : string) i, n_ty i ≠ BbIn ∧ n_ty i ≠ BbOut ∧ n_ty i ≠ Unsup ∧ n_ty i ≠ NoTy) ex_c).
    apply (bool_decide_unpack _). vm_compute. reflexivity.
  - change (set_Forall (λ n : string, n ≠ "" ∧ starts_digit n = false) (dom ex_c)).
    apply (bool_decide_unpack _). vm_compute. reflexivity.
  - assert (map_Forall (λ (n : string) i, n ∉ n_fi i) ex_c) as H by (apply (bool_decide_unpack _); vm_compute; reflexivity).
    intros n (i & Hi & Hf)%elem_of_fanin. by apply (H n i Hi).
Qed.
Example C18_ex_model_is_closed_form :
  acyclic_unroll ex_C ["h"] = Ok {| c_name := "acyc_t"; c_g := unrolled ex_c ["h"]; c_bbs := ∅ |} ∧ size (unrolled ex_c ["h"]) = 13.
Proof. split; apply (bool_decide_unpack _); vm_compute; reflexivity. Qed.
Example C18_ex_feedback : fas_of_order ex_c ["a"; "g"; "h"; "k"] = {[ "h"; "k" ]} ∧ fas_of_order ex_c ["k"; "h"; "g"; "a"] = {[ "g"; "h" ]}.
Proof. split; apply (bool_decide_unpack _); vm_compute; reflexivity. Qed.
