(* C18 -- acyclic_unroll.  Statements only; proofs in Proofs/AcyclicUnrollProofs.v. *)
From stdpp Require Import strings gmap sets.
From CG Require Import Model.AcyclicUnroll.
Open Scope string_scope.
