(* C19 -- transforms, queries and writers never modify or alias their argument.
   Statements only; proofs in Proofs/StoreProofs.v.  The theorems are about the store model of Model/Store.v applied to
   the effect summaries regenerated from the source (Gen/Gen_effects.v); they carry the suffix _partial because the
   faithfulness of that model to CPython/networkx (what graph.copy(), relabel_nodes, dict.copy() and the mutators
   touch) is observational: it is the runtime snapshot/identity/edit oracle of the check that ties it to the code. *)
From stdpp Require Import strings gmap sets.
From CG Require Import Model.Store Proofs.StoreProofs Gen.Gen_effects.
Open Scope string_scope.

(* obligation on the regenerated summaries: every listed function only writes to objects it allocated itself (a
   BlackBox or one of its pin sets is written only if the call made it) and returns only such objects *)
Theorem C19_table_safe : table_safe table = true.
Proof. vm_compute. reflexivity. Qed.
Print Assumptions C19_table_safe.

(* the table is closed: every function of the property's scope has exactly one summary *)
Theorem C19_scope_listed :
  forallb (λ f, bool_decide (is_Some (find_summary table f))) scope = true ∧ NoDup (s_name <$> table) ∧ length scope = length table.
Proof. split_and!; [vm_compute; reflexivity|apply (bool_decide_unpack (NoDup (s_name <$> table))); vm_compute; exact I|reflexivity]. Qed.
Print Assumptions C19_scope_listed.

(* BlackBox objects (with their pin sets) are heap cells too: dict.copy() is shallow, so a result legitimately shares the
   BlackBox cells of its argument's registry (`vcell`); the first clause says that no listed function writes any of them.
   The full statement, over the model: for every listed function, every store, every choice of argument objects
   (aliasing among them allowed), every execution -- returning or raising at any point *)
Definition C19_full : Prop :=
  ∀ s h ls r h' e', call_of table s h ls r h' e' →
    (∀ l c, h !! l = Some c → h' !! l = Some c) ∧
    (∀ la l, la ∈ ls → reach h' la l ↔ reach h la l) ∧
    (r = false → ∀ rv lr, s_ret s = Some rv → e' !! rv = Some lr →
       lr ∈ dom h' ∧ (∀ l, reach h' lr l → l ∉ dom h ∨ vcell h' l) ∧ (∀ la l, la ∈ ls → reach h' lr l → reach h' la l → vcell h' l)).
Theorem C19_frame_partial : C19_full.
Proof. intros s h ls r h' e'. exact (frame table s h ls r h' e' C19_table_safe). Qed.
Print Assumptions C19_frame_partial.

(* what the harness snapshots: the circuit an argument denotes (name, nodes, attributes, edges, registry) is the same
   after the call, on return and on raise *)
Theorem C19_argument_unchanged_partial : ∀ s h ls r h' e' la C,
  call_of table s h ls r h' e' → la ∈ ls → denote h la = Some C → denote h' la = Some C.
Proof. intros s h ls r h' e' la C. exact (argument_unchanged table s h ls r h' e' la C C19_table_safe). Qed.
Print Assumptions C19_argument_unchanged_partial.

(* later histories: any sequence of Circuit/DiGraph/registry mutator steps (none of which writes inside a BlackBox) applied
   to the result is invisible in the argument, and vice versa *)
Theorem C19_independent_histories_partial : ∀ s h ls h' e' rv lr la,
  call_of table s h ls false h' e' → s_ret s = Some rv → e' !! rv = Some lr → la ∈ ls →
  (∀ h2, edits lr h' h2 → denote h2 la = denote h la) ∧ (∀ h2, edits la h' h2 → denote h2 lr = denote h' lr).
Proof. intros s h ls h' e' rv lr la. exact (independent_histories table s h ls h' e' rv lr la C19_table_safe). Qed.
Print Assumptions C19_independent_histories_partial.

(* the edits of the statement above include replacing the graph, the registry and the name of a circuit *)
Theorem C19_edits_cover : ∀ h l n lg lb g' b' n',
  hclosed h → h !! l = Some (CCirc n lg lb) → (∃ g, h !! lg = Some (CGraph g)) → (∃ b, h !! lb = Some (CDict b)) →
  (∀ k l', b' !! k = Some l' → vcell h l') →
  wstep h l (set_graph h l g') ∧ wstep h l (set_dict h l b') ∧ wstep h l (set_name h l n').
Proof.
  intros. split_and!; [by eapply wstep_set_graph|by eapply wstep_set_dict|by eapply wstep_set_name].
Qed.
Print Assumptions C19_edits_cover.

(* ---- non-vacuity.  copy() as it is written today, run on a concrete circuit with one flip-flop instance: the hypotheses
   of the theorems are satisfiable; the result denotes the same circuit at new addresses and shares exactly the BlackBox cell *)
Definition copy_like : summary := {| s_name := "copy"; s_params := ["self"]; s_ret := Some "r"; s_body := seqs [
  Do (PGetGraph "g1" "self"); Do (PCopyGraph "g2" "g1"); Do (PGetBbs "b1" "self"); Do (PCopyDict "b2" "b1");
  Do (PMkCircuit "c" (Some "g2") (Some "b2")); Do (PFrom "r" ["c"]) ] |}.
Definition g0 : circuit := {[ "a" := mk_node Input false ∅ ]} ∪ {[ "g" := mk_node Not true {[ "a" ]} ]}.
Definition ff : bbdef := {| bb_name := "ff"; bb_in := {[ "clk"; "d" ]}; bb_out := {[ "q" ]} |}.
Definition h0 : heap := {[ 1%positive := CCirc "top" 2%positive 3%positive ]} ∪ {[ 2%positive := CGraph g0 ]} ∪
                        {[ 3%positive := CDict {[ "u0" := 4%positive ]} ]} ∪ {[ 4%positive := CBb ff ]}.
Example C19_copy_like_safe : table_safe [copy_like] = true.
Proof. vm_compute. reflexivity. Qed.
Lemma h0_lookup l c : h0 !! l = Some c →
  (l = 1%positive ∧ c = CCirc "top" 2%positive 3%positive) ∨ (l = 2%positive ∧ c = CGraph g0) ∨
  (l = 3%positive ∧ c = CDict {[ "u0" := 4%positive ]}) ∨ (l = 4%positive ∧ c = CBb ff).
Proof.
  unfold h0. intros Hl.
  repeat (apply lookup_union_Some_raw in Hl as [Hl|[_ Hl]]); apply lookup_singleton_Some in Hl as [<- <-]; auto.
Qed.
Lemma h0_closed : hclosed h0.
Proof.
  intros l c l' Hl Hr. destruct (h0_lookup _ _ Hl) as [[-> ->]|[[-> ->]|[[-> ->]|[-> ->]]]]; simpl in Hr.
  - split; [|done]. vm_compute. set_solver.
  - by apply elem_of_nil in Hr.
  - apply (elem_of_refs_dict {[ "u0" := 4%positive ]}) in Hr as [k Hk]. apply lookup_singleton_Some in Hk as [_ <-].
    split; [vm_compute; set_solver|]. intros _. by exists ff.
  - by apply elem_of_nil in Hr.
Qed.
Example C19_copy_like_runs : ∃ h' e' lr,
  call_of [copy_like] copy_like h0 [1%positive] false h' e' ∧ e' !! "r" = Some lr ∧ lr ∉ dom h0 ∧
  denote h' lr = denote h0 1%positive ∧ denote h0 1%positive = Some {| c_name := "top"; c_g := g0; c_bbs := {[ "u0" := ff ]} |}.
Proof.
  set (e0 := bind_params ["self"] [1%positive]).
  set (h1 := <[5%positive := CGraph g0]> h0).
  set (h2 := <[6%positive := CDict {[ "u0" := 4%positive ]}]> h1).
  set (h4 := <[7%positive := CCirc "top" 5%positive 6%positive]> h2).
  set (e5 := <["c" := 7%positive]> (<["b2" := 6%positive]> (<["b1" := 3%positive]> (<["g2" := 5%positive]> (<["g1" := 2%positive]> e0))))).
  exists h4, (<["r" := 7%positive]> e5), 7%positive.
  assert (g0 ≠ ∅) as Hg0. { intros H. assert (g0 !! "a" = None) as H' by (rewrite H; apply lookup_empty). vm_compute in H'. discriminate. }
  assert (hclosed h1) as Hc1.
  { apply hclosed_insert; [apply h0_closed|vm_compute; set_solver|by intros ? ?%elem_of_nil]. }
  assert (vcell h1 4%positive) as Hv4 by (by exists ff).
  assert (hclosed h2) as Hc2.
  { apply hclosed_insert; [done|vm_compute; set_solver|]. intros l' [k Hk]%elem_of_refs_dict.
    apply lookup_singleton_Some in Hk as [_ <-]. split; [left; by apply vcell_dom|done]. }
  assert (hclosed h4) as Hc4.
  { apply hclosed_insert; [done|vm_compute; set_solver|]. simpl. intros l' Hl'. split; [|done]. left.
    repeat (apply elem_of_cons in Hl' as [->|Hl']); try (by apply elem_of_nil in Hl'); vm_compute; set_solver. }
  split_and!.
  - split_and!; [set_solver|apply h0_closed|intros l ->%elem_of_list_singleton; vm_compute; set_solver|].
    simpl. eapply ex_seq; [apply ex_do; eapply (st_get_graph _ _ _ _ 1%positive); reflexivity|].
    eapply ex_seq; [apply ex_do; eapply (st_copy_graph _ _ _ _ 2%positive g0 5%positive); [reflexivity|reflexivity|vm_compute; set_solver]|].
    eapply ex_seq; [apply ex_do; eapply (st_get_bbs _ _ _ _ 1%positive); reflexivity|].
    eapply ex_seq; [apply ex_do; eapply (st_copy_dict _ _ _ _ 3%positive {[ "u0" := 4%positive ]} 6%positive); [reflexivity|reflexivity|vm_compute; set_solver]|].
    eapply ex_seq.
    { apply ex_do. eapply (st_mk_circuit _ _ _ _ _ 5%positive h2 6%positive h2 7%positive "top").
      - eapply (pg_ref _ _ "g2" 5%positive g0); [reflexivity|reflexivity|done].
      - eapply (pd_ref _ _ "b2" 6%positive {[ "u0" := 4%positive ]}); [reflexivity|reflexivity|].
        intros H. assert (({[ "u0" := 4%positive ]} : gmap string loc) !! "u0" = None) as H' by (rewrite H; apply lookup_empty).
        by rewrite lookup_singleton in H'.
      - vm_compute; set_solver. }
    apply ex_do. apply st_from.
    + done.
    + done.
    + vm_compute; set_solver.
    + intros l' Hr. right. exists "c", 7%positive. split_and!; [set_solver|reflexivity|done].
  - reflexivity.
  - vm_compute. set_solver.
  - apply (bool_decide_unpack _). by vm_compute.
  - apply (bool_decide_unpack _). by vm_compute.
Qed.

(* the checker is not trivially true: the two aliasing variants of strip_io / relabel are rejected *)
Definition strip_io_alias : summary := {| s_name := "strip_io"; s_params := ["c"]; s_ret := Some "r"; s_body := seqs [
  Do (PGetGraph "g" "c"); Loop (Do (PWrite "g")); Do (PGetBbs "b1" "c"); Do (PCopyDict "b2" "b1");
  Do (PMkCircuit "r" (Some "g") (Some "b2")) ] |}.
(* C19-s4 in miniature: `x = bb.inputs(); x |= ...` on a BlackBox taken from the argument's registry *)
Definition pins_inplace : summary := {| s_name := "f"; s_params := ["c"]; s_ret := None; s_body := seqs [
  Do (PGetBbs "b" "c"); Do (PFrom "bb" ["b"]); Do (PAlias "x" "bb"); Do (PWriteVal "x") ] |}.
(* ... while the same update of a set the call made itself is accepted *)
Definition pins_fresh : summary := {| s_name := "f"; s_params := ["c"]; s_ret := None; s_body := seqs [
  Do (PGetBbs "b" "c"); Do (PFrom "bb" ["b"]); Do (PRead "bb"); Do (PAllocVal "x"); Do (PWriteVal "x") ] |}.
Definition relabel_alias : summary := {| s_name := "relabel"; s_params := ["c"]; s_ret := Some "r"; s_body := seqs [
  Do (PGetGraph "g1" "c"); Do (PRelabelCopy "g" "g1"); Do (PGetBbs "b1" "c"); Do (PMkCircuit "r" (Some "g") (Some "b1")) ] |}.
Example C19_aliases_rejected :
  safe_summary [pins_inplace] pins_inplace = false ∧ safe_summary [pins_fresh] pins_fresh = true ∧
  predict [pins_inplace] "f" = (true, false) ∧
  safe_summary [strip_io_alias] strip_io_alias = false ∧ safe_summary [relabel_alias] relabel_alias = false ∧
  predict [strip_io_alias] "strip_io" = (true, true) ∧ predict [relabel_alias] "relabel" = (false, true).
Proof. vm_compute. done. Qed.
