(* C20 -- lint decides well-formedness.  Statements only; proofs in Proofs/LintProofs.v. *)
From stdpp Require Import strings gmap sets.
From CG Require Import Model.Lint Proofs.LintProofs.
Open Scope string_scope.

(* obligation on the regenerated tables of utils.lint / circuit.py: they list exactly the documented types *)
Theorem C20_tables_ok : tables_ok gen_tables = true.
Proof. vm_compute. reflexivity. Qed.
Print Assumptions C20_tables_ok.

(* lint raises ValueError exactly when a documented rule is violated, for every graph, registry and flag set *)
Theorem C20_lint_raises_iff : ∀ C f, lint C f = Raise ValueError ↔ violates C f.
Proof. exact (lint_raises_iff gen_tables C20_tables_ok). Qed.
Print Assumptions C20_lint_raises_iff.

Theorem C20_lint_ok_iff : ∀ C f, lint C f = Ok () ↔ ¬ violates C f.
Proof. exact (lint_ok_iff gen_tables C20_tables_ok). Qed.
Print Assumptions C20_lint_ok_iff.

(* no other outcome (in particular no KeyError) *)
Theorem C20_lint_total : ∀ C f, lint C f = Raise ValueError ∨ lint C f = Ok ().
Proof. exact (lint_total gen_tables). Qed.
Print Assumptions C20_lint_total.

(* the executable specification used by the oracle is the declarative one *)
Theorem C20_violatesb_spec : ∀ C f, violatesb C f = true ↔ violates C f.
Proof. exact violatesb_spec. Qed.
Print Assumptions C20_violatesb_spec.

(* non-vacuity: both sides are inhabited *)
Example C20_violating : violates {| c_name := "t"; c_g := {[ "k" := mk_node CX false {[ "a" ]} ]} ∪ {[ "a" := mk_node Input false ∅ ]}; c_bbs := ∅ |} default_flags.
Proof. apply violatesb_spec. vm_compute. reflexivity. Qed.
Example C20_clean : ¬ violates {| c_name := "t"; c_g := {[ "g" := mk_node Not true {[ "a" ]} ]} ∪ {[ "a" := mk_node Input false ∅ ]}; c_bbs := ∅ |} default_flags.
Proof. intros H%violatesb_spec. vm_compute in H. discriminate. Qed.
