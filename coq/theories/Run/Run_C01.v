(* Evaluation entry points for C01 cases (sat.cnf, sat.solve). *)
From stdpp Require Import strings gmap sets fin_sets.
From CG Require Export Run.SatRun.
Local Open Scope list_scope.

Inductive case :=
(* cnf(c): recorded iteration orders of c.fanin(n), and the clause list named through the IDPool *)
| CCnf (C : Circuit) (ords : list (string * list string)) (obs : res (list clause))
(* solve(c, A): None = False *)
| CSolve (C : Circuit) (ords : list (string * list string)) (A : list (string * bool)) (obs : res (option (list (string * bool))))
(* a case together with the follow-up cases derived from its observation (adaptive alias probing): all must pass *)
| CMany (l : list case).

Fixpoint agree (k : case) : bool :=
  match k with
  | CMany l => forallb agree l
  | CCnf C ords obs =>
      match cnf C (mk_ord (c_g C) ords), obs with
      | Ok Fm, Ok G => cnf_eq Fm G
      | Raise e, Raise e' => bool_decide (e = e')
      | _, _ => false
      end
  | CSolve C ords A obs =>
      let ord := mk_ord (c_g C) ords in
      let Am : gmap string bool := list_to_map A in
      match obs with
      | Raise e => bool_decide (solve (λ _, None) C ord Am = Raise e)
      | Ok (Some r) => bool_decide (solve (replay_solver r) C ord Am = Ok (Some (list_to_map r)))
      | Ok None =>
          match all_consistent (c_g C) with
          | Vals V => bool_decide (solve (brute_solver V) C ord Am = Ok None)
          | TooBig => true
          | CertFail => false
          end
      | _ => false
      end
  end.

(* the property, judged on what the implementation returned; it speaks about lint-clean closed circuits without x *)
Fixpoint holds (k : case) : bool :=
  match k with
  | CMany l => forallb holds l
  | CCnf C _ obs =>
      if in_domain C then match obs with Ok G => cnf_exact (c_g C) G | _ => false end else true
  | CSolve C _ A obs =>
      let c := c_g C in
      if in_domain C then
        if forallb (λ p, bool_decide (p.1 ∈ dom c)) A then
          match obs with
          | Ok (Some r) =>
              let v := aval r in
              bool_decide (list_to_set (fst <$> r) = dom c) && bool_decide (NoDup (fst <$> r)) && consistentb c v && agreesb A v
          | Ok None =>
              match all_consistent c with
              | Vals V => negb (existsb (agreesb A) V)
              | TooBig => true
              | CertFail => false
              end
          | _ => false
          end
        else bool_decide (obs = Raise ValueError)
      else true
  end.
