(* Evaluation entry points for C02 cases. *)
From CG Require Export Verilog.Ast Verilog.Read.
From stdpp Require Import strings gmap sets sorting.
From CG Require Export Base.Cases Base.Sem Base.Oracle Base.Api.
Open Scope string_scope.

(* generic expression trees: what Lark's raw tree shows (parentheses and `?`-rules are inlined) *)
Inductive gx := GId (s : string) | GK (k : konst) | GNot (a : gx) | GAnd (a b : gx) | GXor (a b : gx) | GXnor (a b : gx)
              | GOr (a b : gx) | GTern (s a b : gx).
Global Instance gx_eq_dec : EqDecision gx. Proof. solve_decision. Defined.
Fixpoint er_prim (p : prim) : gx := match p with PId s => GId s | PConst k => GK k | PParen o => er_or o end
with er_unary (u : unary) : gx := match u with UPrim p => er_prim p | UNot p => GNot (er_prim p) end
with er_and (a : andE) : gx := match a with AUn u => er_unary u | AAnd a u => GAnd (er_and a) (er_unary u) end
with er_xor (e : xorE) : gx :=
  match e with XAnd a => er_and a | XXor e a => GXor (er_xor e) (er_and a) | XXnor e a => GXnor (er_xor e) (er_and a) end
with er_or (o : orE) : gx := match o with OXor e => er_xor e | OOr o e => GOr (er_or o) (er_xor e) end.
Definition er_cond (c : cond) : gx :=
  match c with COr o => er_or o | CTern s a b => GTern (er_or s) (er_or a) (er_or b) end.
Definition parse_all (ts : list tok) : option cond :=
  match p_cond (10 * (length ts + 2)) ts with Some (c, []) => Some c | _ => None end.

Inductive case :=
| CRead (rsv : list string) (bbs : list bbdef) (m : vmodule) (obs : res Circuit)   (* verilog_to_circuit on the rendered text *)
| CParse (ts : list tok) (obs : option gx)                                        (* raw Lark tree of an expression string *)
| CSelect (name : string) (infer : bool) (rsv : list string) (bbs : list bbdef) (mods : list vmodule) (obs : res Circuit).
                                                                                  (* text with several modules *)

(* short constructors for case files *)
Definition Md (n : string) (ports : list string) (items : list item) := {| m_name := n; m_ports := ports; m_items := items |}.

Definition L02 p := AUn (UPrim p). Definition L03 p := XAnd (L02 p). Definition L04 p := OXor (L03 p). Definition L05 p := COr (L04 p).
Definition L13 u := XAnd (AUn u). Definition L14 u := OXor (L13 u). Definition L15 u := COr (L14 u).
Definition L24 a := OXor (XAnd a). Definition L25 a := COr (L24 a).
Definition L35 x := COr (OXor x).

(* ------------------------------------------------------------------ agree *)
Definition agree (k : case) : bool :=
  match k with
  | CRead rsv bbs m obs =>
      (* every identifier of the AST is a token of the text (precondition of the model's freshness argument) *)
      bool_decide ((list_to_set (module_ids m) : gset string) ⊆ list_to_set rsv) && bool_decide (read (list_to_set rsv) bbs m = obs)
  | CParse ts obs => bool_decide (er_cond <$> parse_all ts = obs)
  | CSelect name infer rsv bbs mods obs => bool_decide (read_text name infer (list_to_set rsv) bbs mods = obs)
  end.

(* ------------------------------------------------------------------ the specification, on the AST *)
Definition sset (l : list string) : gset string := list_to_set l.

(* blackbox instances of a module: (instance, definition, named connections) *)
Definition bb_insts (bbs : list bbdef) (m : vmodule) : list (string * bbdef * list (string * option cond)) :=
  m_items m ≫= (λ it, match it with
    | IInst mn insts =>
        match prim_of_name mn, find_def bbs mn with
        | None, Some d => insts ≫= (λ ic, match ic.2 with Named ps => [(ic.1, d, ps)] | _ => [] end)
        | _, _ => [] end
    | _ => [] end).
(* nets attached to blackbox output pins: (pin node, net) *)
Definition bbout_nets (bbs : list bbdef) (m : vmodule) : list (string * string) :=
  bb_insts bbs m ≫= (λ x, x.2 ≫= (λ pc, match pc.2 with
      | Some e => if bool_decide (pc.1 ∈ bb_out x.1.2) then match as_id e with Some w => [(pin x.1.1 pc.1, w)] | None => [] end else []
      | None => [] end)).

(* is the module in the structural subset the property speaks about? (ports_match is checked separately) *)
Definition inst_ok (bbs : list bbdef) (mn : string) (ic : string * conns) : bool :=
  match prim_of_name mn with
  | Some t =>
      match ic.2 with
      | Positional (o :: ins) =>
          bool_decide (is_Some (as_id o)) &&
          (if bool_decide (t = Buf) || bool_decide (t = Not) then bool_decide (length ins = 1) else negb (bool_decide (ins = [])))
      | _ => false end
  | None =>
      match find_def bbs mn, ic.2 with
      | Some d, Named ps =>
          bool_decide (NoDup ps.*1) && negb (bool_decide (ps = [])) &&
          forallb (λ pc : string * option cond,
                     (bool_decide (pc.1 ∈ bb_in d) && negb (bool_decide (pc.1 ∈ bb_out d)))
                     || (bool_decide (pc.1 ∈ bb_out d) && negb (bool_decide (pc.1 ∈ bb_in d)) &&
                         match pc.2 with Some e => bool_decide (is_Some (as_id e)) | None => true end)) ps
      | _, _ => false end
  end.
(* ranks by relaxation until nothing changes (Oracle.rank_table always runs size+1 rounds); any table is acceptable:
   check_rank validates it (Oracle.check_rank_sound) *)
Fixpoint relax_fix (k : nat) (c : circuit) (r : gmap string nat) : gmap string nat :=
  match k with O => r | S k => let r' := relax c r in if bool_decide (r' = r) then r else relax_fix k c r' end.
Definition quick_ranks (g : circuit) : gmap string nat := relax_fix (S (size g)) g ∅.
Definition dep_ids (d : driver) : list string :=
  match d with DAssign e => ids_cond e | DPrim _ ins => ins ≫= ids_cond end.
Definition dep_graph (m : vmodule) : circuit :=
  list_to_map ((λ nd : string * driver, (nd.1, mk_node Buf false (sset (dep_ids nd.2)))) <$> drivers m).
Definition in_subset (bbs : list bbdef) (m : vmodule) : bool :=
  forallb (λ it, match it with IInst mn insts => forallb (inst_ok bbs mn) insts && negb (bool_decide (insts = []))
                          | IAssign l => negb (bool_decide (l = []))
                          | IInput l | IOutput l | IWire l => negb (bool_decide (l = [])) end) (m_items m) &&
  bool_decide (NoDup ((bb_insts bbs m).*1.*1)) &&
  (* one driver per net, inputs undriven *)
  bool_decide (NoDup (module_defs bbs m)) &&
  forallb (λ n, bool_decide (n ∉ sset (decl_inputs m))) (module_defs bbs m) &&
  (* every output is an input or a driven net (assign target, primitive output, net on a blackbox output pin): an output that
     no statement turns into a node - never mentioned, or only as operands of a parity gate that cancel - is an undriven
     output; the reader rejects such text with an exception *)
  bool_decide (sset (decl_outputs m) ⊆ sset (decl_inputs m) ∪ sset (module_defs bbs m)) &&
  (* nets are not named like pin nodes *)
  forallb (λ x, forallb (λ p, negb (bool_decide (pin x.1.1 p ∈ sset (module_nets m)))) (elements (bb_in x.1.2 ∪ bb_out x.1.2))) (bb_insts bbs m) &&
  (* combinational loops have no functional meaning *)
  (let dg := dep_graph m in check_rank dg (quick_ranks dg)).

(* the guard without the clause on outputs, and: some declared output is no input, has no driver and occurs in no statement *)
Definition in_subset_core (bbs : list bbdef) (m : vmodule) : bool :=
  forallb (λ it, match it with IInst mn insts => forallb (inst_ok bbs mn) insts && negb (bool_decide (insts = []))
                          | IAssign l => negb (bool_decide (l = []))
                          | IInput l | IOutput l | IWire l => negb (bool_decide (l = [])) end) (m_items m) &&
  bool_decide (NoDup ((bb_insts bbs m).*1.*1)) &&
  bool_decide (NoDup (module_defs bbs m)) &&
  forallb (λ n, bool_decide (n ∉ sset (decl_inputs m))) (module_defs bbs m) &&
  forallb (λ x, forallb (λ p, negb (bool_decide (pin x.1.1 p ∈ sset (module_nets m)))) (elements (bb_in x.1.2 ∪ bb_out x.1.2))) (bb_insts bbs m).
Definition unused_output (bbs : list bbdef) (m : vmodule) : bool :=
  existsb (λ s, bool_decide (s ∉ sset (decl_inputs m) ∪ sset (module_defs bbs m) ∪ sset (used_nets m))) (decl_outputs m).

(* direct evaluation of the module: iterate the equations from the free nets *)
Definition lookup_val (a : val) (vm : gmap string bool) : val := λ s, match vm !! s with Some b => b | None => a s end.
Definition val_in (ones : list string) : val := let S : gset string := list_to_set ones in λ n, bool_decide (n ∈ S).
Definition ast_round (drv : list (string * driver)) (a : val) (x : bool) (vm : gmap string bool) : gmap string bool :=
  list_to_map ((λ nd : string * driver, (nd.1, sem_driver (lookup_val a vm) x nd.2)) <$> drv).
Definition ast_eval (m : vmodule) (a : val) (x : bool) : gmap string bool :=
  Nat.iter (S (length (drivers m))) (ast_round (drivers m) a x) ∅.

Definition xmark : string := "?x".
Definition free_nets (bbs : list bbdef) (m : vmodule) : list string :=
  let driven := sset ((drivers m).*1) in
  remove_dups (filter (λ n, n ∉ driven) ((used_nets m ++ (bbout_nets bbs m).*2)%list)).
Definition conns_ks (c : conns) : list konst :=
  match c with Positional ps => ps ≫= ks_cond
  | Named ps => ps ≫= (λ p, match p.2 with Some e => ks_cond e | None => [] end) end.
Definition has_x (m : vmodule) : bool :=
  existsb (λ it, match it with
                 | IAssign l => existsb (λ p, existsb (λ k, match k with KX => true | _ => false end) (ks_cond p.2)) l
                 | IInst _ insts => existsb (λ ic, existsb (λ k, match k with KX => true | _ => false end) (conns_ks ic.2)) insts
                 | _ => false end) (m_items m).

(* the assignment of the circuit's free nodes that corresponds to a valuation of the module's free nets *)
Definition circ_assign (g : circuit) (pins : gmap string string) (a : val) : val :=
  λ n, match pins !! n with
       | Some w => a w
       | None => if bool_decide (ty g n = Some CX) then a xmark else a n end.

Definition bb_ok (g : circuit) (x : string * bbdef * list (string * option cond)) : bool :=
  let '(inst, d, ps) := x in
  forallb (λ p, bool_decide (ty g (pin inst p) = Some BbIn) &&
                match (λ y : nat * (string * option cond), y.2.2) <$> list_find (λ pc : string * option cond, pc.1 = p) ps with
                | Some (Some e) => match as_id e with Some w => bool_decide (fanin g (pin inst p) = {[w]})
                                                     | None => bool_decide (size (fanin g (pin inst p)) = 1) end
                | _ => bool_decide (fanin g (pin inst p) = ∅) end) (elements (bb_in d)) &&
  forallb (λ p, bool_decide (ty g (pin inst p) = Some BbOut) && bool_decide (fanin g (pin inst p) = ∅) &&
                match (λ y : nat * (string * option cond), y.2.2) <$> list_find (λ pc : string * option cond, pc.1 = p) ps with
                | Some (Some e) => match as_id e with
                                   | Some w => bool_decide (fanout g (pin inst p) = {[w]}) && bool_decide (ty g w = Some Buf)
                                               && bool_decide (fanin g w = {[pin inst p]})
                                   | None => false end
                | _ => bool_decide (fanout g (pin inst p) = ∅) end) (elements (bb_out d)).

(* evaluation of the returned circuit in rank order into a table; nothing about the order is trusted: the table is
   certified by consistentb on every valuation (with closedb/acyclicb it is then the unique consistent valuation) *)
Definition rk_le (r : gmap string nat) (p q : string * ninfo) : Prop := rank_of r p.1 ≤ rank_of r q.1.
Global Instance rk_le_dec r p q : Decision (rk_le r p q). Proof. unfold rk_le. apply _. Defined.
Definition rank_order (g : circuit) (r : gmap string nat) : list (string * ninfo) := merge_sort (rk_le r) (map_to_list g).
Definition run_order (ord : list (string * ninfo)) (a : val) : gmap string bool :=
  foldl (λ T p, <[p.1 := if is_free p.2 then a p.1 else
                         match n_ty p.2 with C0 => false | C1 => true
                         | t => gate_val t (λ s, default false (T !! s)) (n_fi p.2) end]> T) ∅ ord.

Definition denotes (bbs : list bbdef) (m : vmodule) (C : Circuit) : bool :=
  let g := c_g C in
  let insts := bb_insts bbs m in
  let pins : gmap string string := list_to_map (bbout_nets bbs m) in
  let nets := remove_dups (used_nets m) in
  let free := (free_nets bbs m ++ (if has_x m then [xmark] else []))%list in
  let rk := quick_ranks g in
  let ord := rank_order g rk in
  bool_decide (c_name C = m_name m) &&
  bool_decide (inputs g = sset (decl_inputs m)) &&
  bool_decide (outputs g = sset (decl_outputs m)) &&
  bool_decide (c_bbs C = list_to_map ((λ x, (x.1.1, x.1.2)) <$> insts)) &&
  forallb (bb_ok g) insts &&
  closedb g && check_rank g rk &&
  forallb (λ n, bool_decide (n ∈ dom g)) nets &&
  forallb (λ ones,
     let a := val_in ones in
     let x := a xmark in
     let vm := lookup_val a (ast_eval m a x) in
     let T := run_order ord (circ_assign g pins a) in
     let w : val := λ s, default false (T !! s) in
     consistentb g w &&
     forallb (λ p, if is_free p.2 then eqb (w p.1) (circ_assign g pins a p.1) else true) ord &&
     forallb (λ n, eqb (w n) (vm n)) nets &&
     forallb (λ i, forallb (λ pc : string * option cond,
                match pc.2 with
                | Some e => if bool_decide (pc.1 ∈ bb_in i.1.2) then eqb (w (pin i.1.1 pc.1)) (sem_cond vm x e) else true
                | None => true end) i.2) insts)
    (subsets free).

(* ------------------------------------------------------------------ holds: the property on the recorded result *)
Definition holds_read (bbs : list bbdef) (m : vmodule) (obs : res Circuit) : bool :=
  if negb (ports_match m) then match obs with Raise _ => true | _ => false end     (* never silently accepted *)
  else if in_subset_core bbs m && unused_output bbs m then match obs with Raise _ => true | _ => false end
                                                   (* an output that can never become a node: rejected with an exception *)
  else if in_subset bbs m then match obs with Ok C => denotes bbs m C | _ => false end
  else true.
Definition holds (k : case) : bool :=
  match k with
  | CRead rsv bbs m obs => holds_read bbs m obs
  | CParse _ _ => true
  | CSelect name infer rsv bbs mods obs =>
      (* the module that is read is the one called `name`, else (inferred name) the first one; otherwise ValueError *)
      match filter (λ m, m_name m = name) mods, infer, mods with
      | m :: _, _, _ => holds_read bbs m obs
      | [], true, m :: _ => holds_read bbs m obs
      | [], _, _ => bool_decide (obs = Raise ValueError)
      end
  end.
