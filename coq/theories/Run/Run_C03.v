(* Evaluation entry points for C03 cases. *)
From CG Require Export Run.Run_C02 Verilog.Write.
From stdpp Require Import strings gmap sets sorting.
Open Scope string_scope.

Definition Wo (ins outs : list string) (bbs : list (string * list string * list string)) (fi : list (string * list string)) : worder :=
  {| o_ins := ins; o_outs := outs; o_bbs := bbs; o_nodes := fi.*1; o_fi := fi |}.

Inductive case :=
(* circuit, style, order choices read off the emitted text, tokenised text, identifier-like tokens of the text, blackbox
   definitions handed to the reader, read-back circuit, read-back through to_file/from_file *)
| CRt (C : Circuit) (beh : bool) (o : worder) (txt : vmodule) (rsv : list string) (bbs : list bbdef) (obs obs_file : res Circuit).

Definition agree (k : case) : bool :=
  match k with
  | CRt C beh o txt rsv bbs obs obs_file =>
      bool_decide (write C beh o = Ok txt) && bool_decide (read (list_to_set rsv) bbs txt = obs)
  end.

(* ------------------------------------------------------------------ the round-trip property on the recorded circuits *)
Definition x_assign (g : circuit) (a : val) : val := λ n, if bool_decide (ty g n = Some CX) then a xmark else a n.
Definition table (g : circuit) (ord : list (string * ninfo)) (a : val) : val :=
  let T := run_order ord (x_assign g a) in λ s, default false (T !! s).
Definition certified (g : circuit) (ord : list (string * ninfo)) (a : val) (w : val) : bool :=
  consistentb g w && forallb (λ p, if is_free p.2 then eqb (w p.1) (x_assign g a p.1) else true) ord.

Definition no_constsb (g : circuit) : bool := bool_decide (of_type g (λ t, bool_decide (t ∈ const_types)) = ∅).
Definition rt_ok (C : Circuit) (beh : bool) (obs : res Circuit) : bool :=
  match obs with
  | Ok C' =>
      let g := c_g C in let g' := c_g C' in
      let rk := quick_ranks g in let rk' := quick_ranks g' in
      let ord := rank_order g rk in let ord' := rank_order g' rk' in
      let bbin := elements (of_type g (is_ty BbIn)) in
      let bbout := elements (of_type g (is_ty BbOut)) in
      let ends := (elements (outputs g) ++ bbin)%list in
      let free := (elements (inputs g) ++ bbout ++ (if bool_decide (of_type g (is_ty CX) = ∅) then [] else [xmark]))%list in
      bool_decide (c_name C' = c_name C) && bool_decide (inputs g' = inputs g) && bool_decide (outputs g' = outputs g) &&
      bool_decide (c_bbs C' = c_bbs C) &&
      forallb (λ p, bool_decide (ty g' p = Some BbIn) && bool_decide (fanin g' p = fanin g p)) bbin &&
      forallb (λ p, bool_decide (ty g' p = Some BbOut) && bool_decide (fanout g' p = fanout g p)) bbout &&
      closedb g && check_rank g rk && closedb g' && check_rank g' rk' &&
      forallb (λ ones, let a := val_in ones in
                       let w := table g ord a in let w' := table g' ord' a in
                       certified g ord a w && certified g' ord' a w' && forallb (λ n, eqb (w n) (w' n)) ends)
              (subsets free) &&
      (if no_constsb g && negb beh then bool_decide (C' = C) else true)
  | _ => false end.

Definition holds (k : case) : bool :=
  match k with CRt C beh o txt rsv bbs obs obs_file => rt_ok C beh obs && rt_ok C beh obs_file end.
