(* Evaluation entry points for C04 cases: a few calls of tx.miter that share their startpoint / endpoint containers.
   agree: the model (Model/Miter.v, through the API model) returns the recorded circuit / exception.
   holds: the property evaluated on the recorded result: inputs are the tied startpoints, `sat` is the only output,
   and for every valuation of the free nodes `sat` is the disjunction of the endpoint differences, the two copies
   compute c0 / c1 on their own startpoints, tied startpoints are shared and untied ones are independent; and the call leaves the
   caller's startpoint / endpoint collections as they were (So' / Eo' = their content after the call), so that the same choice
   means the same thing on the next call. *)
From stdpp Require Import strings gmap sets fin_sets.
From CG Require Export Base.Cases Model.Miter Model.FastEval.
From CG Require Model.Lint.
Open Scope string_scope.

(* sv: what sat.solve(miter, {"sat": True}) answered on the returned miter (Some false = False / UNSAT, Some true = a model) *)
Inductive call := Call (Ca : Circuit) (Cbo : option Circuit) (So Eo : option (list string)) (obs : res Circuit)
                         (So' Eo' : option (list string)) (sv : option bool).
Inductive case := CMiter (l : list call).

Definition agree1 (k : call) : bool :=
  let 'Call Ca Cbo So Eo obs _ _ _ := k in bool_decide (miter Ca Cbo So Eo = obs).
Definition agree (k : case) : bool := let 'CMiter l := k in forallb agree1 l.

(* the collection the caller passed still holds the same elements after the call *)
Definition same_choice (o o' : option (list string)) : bool :=
  match o, o' with
  | None, None => true
  | Some l, Some l' => bool_decide (length l = length l') && bool_decide ((list_to_set l : gset string) = list_to_set l')
  | _, _ => false end.

Definition smap (f : string → string) (s : gset string) : gset string := set_map f s.
Definition same_attrs (f : string → string) (P R : circuit) : bool :=
  forallb (λ p, match R !! f p.1 with Some j => bool_decide (n_ty j = n_ty p.2) && eqb (n_out j) (n_out p.2) | None => false end)
          (map_to_list P).

(* the situation the property speaks about *)
Definition precond (Ca Cb : Circuit) (S E : list string) : bool :=
  let ga := c_g Ca in let gb := c_g Cb in
  let sS : gset string := list_to_set S in let sE : gset string := list_to_set E in
  bool_decide (c_bbs Ca = ∅) && bool_decide (c_bbs Cb = ∅) &&
  bool_decide (NoDup S) && bool_decide (NoDup E) &&
  bool_decide (sS ⊆ startpoints ga ∩ startpoints gb) && bool_decide (sE ⊆ dom ga ∩ dom gb) &&
  (* the five groups of names of the miter are pairwise distinct *)
  bool_decide (size (sS ∪ smap (pre "c0") (dom ga) ∪ smap (pre "c1") (dom gb) ∪ {["sat"]} ∪ smap (pre "dif") sE)
               = (size sS + size (dom ga) + size (dom gb) + 1 + size sE)%nat).

(* is there a valuation of the free nodes under which `sat` evaluates to 1?  (exhaustive; every table certified by sweepc) *)
Definition sat_possible (gm : circuit) : bool :=
  negb (sweepc gm (λ ix, {| s_progs := []; s_eqs := []; s_pred := λ v, negb (v (ix "sat")) |})).
(* "solve(miter, {sat: True}) is False iff ...": the solver's verdict on the returned miter is the exhaustive verdict *)
Definition solve_ok (obs : res Circuit) (sv : option bool) : bool :=
  match obs, sv with
  | Ok M, Some b => negb (acyclicb (c_g M)) || eqb b (sat_possible (c_g M))
  | _, _ => true end.

Definition holds1 (k : call) : bool :=
  let 'Call Ca Cbo So Eo obs So' Eo' sv := k in
  same_choice So So' && same_choice Eo Eo' && solve_ok obs sv &&
  let Cb := second Ca Cbo in
  let S := miter_S Ca Cb So in let E := miter_E Ca Cb Eo in
  let sS : gset string := list_to_set S in let sE : gset string := list_to_set E in
  let ga := c_g Ca in let gb := c_g Cb in
  match obs with
  | Raise e => bool_decide (e = ValueError) && negb (precond Ca Cb S E)
  | Ok M =>
    negb (precond Ca Cb S E) ||
    let gm := c_g M in
    bool_decide (c_bbs M = ∅) &&
    (* C20's clause for this producer: lint-clean circuits with the same interface, every input tied, give a lint-clean miter *)
    (negb (Lint.lint_cleanb Ca && Lint.lint_cleanb Cb && bool_decide (sS = inputs ga) && bool_decide (sS = inputs gb) &&
           bool_decide (of_type ga (λ t, is_ty BbIn t || is_ty BbOut t) ∪ of_type gb (λ t, is_ty BbIn t || is_ty BbOut t) = ∅))
     || Lint.lint_cleanb M) &&
    bool_decide (inputs gm = sS) && bool_decide (outputs gm = {["sat"]}) &&
    bool_decide (dom gm = sS ∪ smap (pre "c0") (dom ga) ∪ smap (pre "c1") (dom gb) ∪ {["sat"]} ∪ smap (pre "dif") sE) &&
    same_attrs (pre "c0") (strip_io ga) gm && same_attrs (pre "c1") (strip_io gb) gm &&
    (* untied startpoints (and every other free node) of each copy stay independent free signals *)
    bool_decide (free_nodes gm = sS ∪ smap (pre "c0") (free_nodes (strip_io ga) ∖ sS) ∪ smap (pre "c1") (free_nodes (strip_io gb) ∖ sS)) &&
    (if acyclicb gm then
      sweepc gm (λ ix, {|
        s_progs := [compile ix (pre "c0") (strip_io ga) ∅; compile ix (pre "c1") (strip_io gb) ∅];    (* the copies compute c0 and c1 *)
        s_eqs := (s ← S; [(ix (pre "c0" s), ix s); (ix (pre "c1" s), ix s)]);                       (* tied startpoints are shared *)
        s_pred := λ v, eqb (v (ix "sat")) (existsb (λ e, xorb (v (ix (pre "c0" e))) (v (ix (pre "c1" e)))) E) |})
     else true)
  | _ => false
  end.
Definition holds (k : case) : bool := let 'CMiter l := k in forallb holds1 l.
