(* Evaluation entry points for C05 cases: correspondence (agree) and the property oracle (holds). *)
From stdpp Require Import strings gmap sets.
From CG Require Export Base.Cases Base.Oracle Base.Api Model.Limit.
Open Scope string_scope.

Inductive case :=
| CFanin (C : Circuit) (k : nat) (steps : list step3) (obs : res Circuit)     (* steps read back from the result *)
| CFanout (C : Circuit) (k : nat) (steps : list step3) (obs : res Circuit)
| CRegs (C : Circuit) (s : nat) (order : list string) (obs : res Circuit)     (* order = list(c.graph.nodes) *)
| CRegsG (C : Circuit) (s : nat) (order : list string) (A : reg_args) (obs : res Circuit)   (* non-default flop / ports / other_flop_io / suffix *)
| CRegsW (C : Circuit) (s : nat) (order : list string) (A : reg_args) (obs : res Circuit)   (* witnesses outside the theorem guards: the property is silent, only the tie is checked *)
| CRegsB (C : Circuit) (s : nat) (order : list string) (obs : res Circuit)   (* argument that already holds blackbox instances *)
| CUnroll (C : Circuit) (obs : res Circuit).                                   (* acyclic_unroll of an acyclic circuit: oracle only *)

Definition agree (k : case) : bool :=
  match k with
  (* replayed through the Base/Api.v operations (disconnect_g, add_g, connect_g); Proofs/LimitApi.v: an accepted API-level run is an accepted run of the direct model with the same result *)
  | CFanin C k steps obs => bool_decide (limit_fanin_run_api C k steps = obs)
  | CFanout C k steps obs => bool_decide (limit_fanout_run_api C k steps = obs)
  | CRegs C s order obs => bool_decide (insert_registers_api default_reg_args C s order = obs) && bool_decide (insert_registers C s order = obs)
  | CRegsG C s order A obs => bool_decide (insert_registers_api A C s order = obs)
  | CRegsB C s order obs => bool_decide (insert_registers_api default_reg_args C s order = obs) && bool_decide (insert_registers C s order = obs)
  (* an implementation that starts validating its arguments (ValueError) is fine too *)
  | CRegsW C s order A obs => match obs with Raise ValueError => true | _ => bool_decide (insert_registers_api A C s order = obs) end
  | CUnroll _ _ => true
  end.

(* ---- the property, judged on what the implementation returned (independent of Model/Limit.v) ---- *)
Definition same_io (c c' : circuit) : bool := bool_decide (inputs c' = inputs c) && bool_decide (outputs c' = outputs c).
Definition fanin_bounded (c : circuit) (k : nat) : bool := forallb (λ p, size (n_fi p.2) <=? k)%nat (map_to_list c).
Definition fanout_bounded (c : circuit) (k : nat) : bool := forallb (λ n, size (fanout c n) <=? k)%nat (elements (dom c)).

Definition holds (k : case) : bool :=
  match k with
  | CFanin C k _ (Ok C') =>
      (2 <=? k)%nat && same_io (c_g C) (c_g C') && fanin_bounded (c_g C') k
      && equiv_oracle (c_g C) (c_g C') && lint_cleanb C'
      && bool_decide (c_bbs C' = c_bbs C)
  | CFanout C k _ (Ok C') =>
      (2 <=? k)%nat && same_io (c_g C) (c_g C') && fanout_bounded (c_g C') k
      && equiv_oracle (c_g C) (c_g C') && lint_cleanb C'
      && bool_decide (c_bbs C' = c_bbs C)
  | CFanin _ k _ (Raise ValueError) | CFanout _ k _ (Raise ValueError) => (k <? 2)%nat    (* documented: k >= 2 *)
  | CRegs C s order (Ok C') =>
      bool_decide (outputs (c_g C') = outputs (c_g C))
      && bool_decide (inputs (c_g C) ⊆ inputs (c_g C')) && bool_decide (inputs (c_g C') ⊆ inputs (c_g C) ∪ {[clk_name]})
      && equiv_check_ext (c_g C) (short_flops C') {[clk_name]} && lint_cleanb C'
  | CRegs C s order (Raise ValueError) =>
      (* the property is silent when no stage boundary exists (or the circuit is cyclic) *)
      negb (acyclicb (c_g C)) || no_boundary (c_g C) s
  | CRegsG C s order A (Ok C') =>
      let keys : gset string := list_to_set (fst <$> ra_other A) in
      let pins : gset string := set_fold (λ inst acc, list_to_set (pin inst <$> (ra_ins A ++ ra_outs A)%list) ∪ acc) ∅ (dom (c_bbs C')) in
      bool_decide (outputs (c_g C') = outputs (c_g C))
      && bool_decide (inputs (c_g C) ⊆ inputs (c_g C')) && bool_decide (inputs (c_g C') ⊆ inputs (c_g C) ∪ keys)
      && equiv_check_ext (c_g C) (short_flops_gen (ra_d A) (ra_q A) C') (keys ∪ pins) && lint_cleanb C'
  | CRegsG C s order A (Raise ValueError) => negb (acyclicb (c_g C)) || no_boundary (c_g C) s
  | CRegsB C s order (Ok C') =>
      (* only the NEW instances are made transparent; the instances of the argument stay, with their definitions *)
      let shorted := set_fold (λ inst g, <[pin inst "q" := mk_node Buf false {[pin inst "d"]}]> g) (c_g C') (dom (c_bbs C') ∖ dom (c_bbs C)) in
      bool_decide (outputs (c_g C') = outputs (c_g C))
      && bool_decide (inputs (c_g C) ⊆ inputs (c_g C')) && bool_decide (inputs (c_g C') ⊆ inputs (c_g C) ∪ {[clk_name]})
      && bool_decide (map_Forall (λ inst d, c_bbs C' !! inst = Some d) (c_bbs C))
      && equiv_check_ext (c_g C) shorted {[clk_name]} && lint_cleanb C'
  | CRegsB _ _ _ (Raise ValueError) => true      (* the property speaks about combinational designs; a rejection is fine, a changed argument is not (reported as OtherError) *)
  | CRegsW _ _ _ _ _ => true
  | CUnroll C (Ok C') =>
      same_io (c_g C) (c_g C') && lint_cleanb C' &&
      equiv_check_ren (c_g C) (c_g C') (elements (outputs (c_g C))) id &&
      equiv_check_ren (c_g C) (c_g C') (elements (dom (c_g C) ∖ inputs (c_g C))) (pre "c0")
  | _ => false
  end.
