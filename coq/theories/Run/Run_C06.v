(* Evaluation entry points for C06 cases.  A case is a history of composition calls; every step carries the
   state the implementation had before the call, the arguments, and the state / outcome it produced.
   agree: the model (Base/Api.v, Model/Compose6.v) reproduces the recorded state and outcome.
   holds: the specification of C06 evaluated on the recorded result, independent of the model functions
   add_subcircuit / add_blackbox / fill_blackbox / strip_blackboxes. *)
From stdpp Require Import strings gmap sets fin_sets.
From CG Require Export Base.Cases Model.Compose6 Model.FastEval.
From CG Require Model.Lint.
Open Scope string_scope.

Notation connmap := (list (string * list string)).

Inductive stepcase :=
(* conns' / d': the caller's connection dict and BlackBox as they are AFTER the call (the same objects may be passed again) *)
| SSub (P SC : Circuit) (name : string) (conns : connmap) (strip : bool) (R : Circuit) (oc : outcome) (conns' : connmap)
| SBb (P : Circuit) (d : bbdef) (inst : string) (ins outs : list string) (conns : connmap) (R : Circuit) (oc : outcome)
      (d' : bbdef) (conns' : connmap)
| SFill (P : Circuit) (inst : string) (SC : Circuit) (R : Circuit) (oc : outcome)
| SStrip (C : Circuit) (ign : list string) (obs : res Circuit).
Inductive case := CHist (l : list stepcase).

Definition agree1 (s : stepcase) : bool :=
  match s with
  | SSub P SC name conns strip R oc _ => bool_decide (add_subcircuit_gen strip P SC name conns = (R, oc))
  | SBb P d inst ins outs conns R oc _ _ => bool_decide (add_blackbox P d inst ins outs conns = (R, oc))
  | SFill P inst SC R oc => bool_decide (fill_blackbox P inst SC = (R, oc))
  | SStrip C ign obs => bool_decide (strip_blackboxes C ign = obs)
  end.
Definition agree (k : case) : bool := let 'CHist l := k in forallb agree1 l.

(* ------------------------------------------------------------------ specification side *)
Definition smap (f : string → string) (s : gset string) : gset string := set_map f s.
Definition nets_of (l : connmap) : gset string := list_to_set (mjoin (snd <$> l)).
Definition free_bufb (c : circuit) (n : string) : bool :=
  match c !! n with Some i => (bool_decide (n_ty i = Buf) || bool_decide (n_ty i = BbIn)) && bool_decide (n_fi i = ∅) | None => false end.
(* type and output mark of every node of P are the same in R (possibly under a renaming) *)
Definition same_attrs (f : string → string) (P R : circuit) (except : gset string) : bool :=
  forallb (λ p, bool_decide (p.1 ∈ except) ||
                match R !! f p.1 with Some j => bool_decide (n_ty j = n_ty p.2) && eqb (n_out j) (n_out p.2) | None => false end)
          (map_to_list P).
(* exhaustive sweep over the valuations of R's free nodes (cyclic results are judged structurally only) *)
Definition sem (R : circuit) (mk : index → side) : bool := if acyclicb R then sweepc R mk else true.
Definition ixpairs (ix : index) (l : list (string * string)) := (λ p, (ix p.1, ix p.2)) <$> l.

(* --- add_subcircuit --- *)
Definition sub_clash (P SC : Circuit) (name : string) : bool :=
  existsb (λ b, bool_decide (pre name b ∈ dom (c_bbs P))) (elements (dom (c_bbs SC))) ||
  existsb (λ n, bool_decide (pre name n ∈ dom (c_g P))) (elements (dom (c_g SC))).
Definition bad_key (SC : Circuit) (conns : connmap) : bool :=
  existsb (λ kv, negb (bool_decide (kv.1 ∈ inputs (c_g SC) ∪ outputs (c_g SC)))) conns.
Definition holds_sub (P SC : Circuit) (name : string) (conns : connmap) (strip : bool) (R : Circuit) (oc : outcome) : bool :=
  let gP := c_g P in let gS := c_g SC in let gR := c_g R in
  let sin := inputs gS in
  let S' := if strip then strip_io gS else gS in
  let cin := filter (λ kv, kv.1 ∈ sin) conns in
  let cout := filter (λ kv, kv.1 ∉ sin) conns in
  let targets := nets_of cout in
  match oc with
  | Fail e => bool_decide (e = ValueError) && (sub_clash P SC name || bad_key SC conns || negb (bool_decide (conns = [])))
  | Done =>
    negb (sub_clash P SC name) && negb (bad_key SC conns) &&
    (* C20's clause for this producer: lint-clean arguments, dot-free instance name, every child input attached => lint-clean result *)
    (negb (strip && Lint.lint_cleanb P && Lint.lint_cleanb SC && closedb gP && closedb gS && negb (Lint.has_dot name) &&
           forallb (λ i, existsb (λ kv, bool_decide (kv.1 = i) && negb (bool_decide (kv.2 = []))) conns) (elements sin))
     || Lint.lint_cleanb R) &&
    bool_decide (c_name R = c_name P) &&
    bool_decide (c_bbs R = kmap (pre name) (c_bbs SC) ∪ c_bbs P) &&
    bool_decide (inputs gR = inputs gP ∪ (if strip then ∅ else smap (pre name) sin)) &&
    bool_decide (outputs gR = outputs gP ∪ (if strip then ∅ else smap (pre name) (outputs gS))) &&
    bool_decide (dom gR = dom gP ∪ smap (pre name) (dom gS)) &&
    same_attrs id gP gR ∅ && same_attrs (pre name) S' gR ∅ &&
    (* exactly the attached child inputs and the driven parent nets stop being free *)
    bool_decide (free_nodes gR = (free_nodes gP ∖ targets) ∪
                   smap (pre name) (free_nodes S' ∖ list_to_set (fst <$> filter (λ kv, kv.2 ≠ []) cin)) ∖ targets) &&
    sem gR (λ ix, {|
      s_progs := [compile ix id gP targets;              (* pre-existing nodes keep their function *)
                  compile ix (pre name) S' ∅];            (* name_n has the value n has in sc ... *)
      s_eqs := ixpairs ix ((kv ← cin; net ← kv.2; [(pre name kv.1, net)]) ++   (* ... when sc's inputs take the values of the attached nets *)
                           (kv ← cout; net ← kv.2; if free_bufb gP net then [(net, pre name kv.1)] else []));
      s_pred := no_pred |})
  end.

(* --- add_blackbox --- *)
Definition holds_bb (P : Circuit) (d : bbdef) (inst : string) (conns : connmap) (R : Circuit) (oc : outcome) : bool :=
  let gP := c_g P in let gR := c_g R in
  let pins := smap (pin inst) (bb_in d ∪ bb_out d) in
  let cin := filter (λ kv, kv.1 ∈ bb_in d) conns in
  let cout := filter (λ kv, kv.1 ∉ bb_in d) conns in
  let targets := nets_of cout in
  match oc with
  | Fail e => bool_decide (e = ValueError) &&
              (bool_decide (inst ∈ dom (c_bbs P)) || negb (bool_decide (pins ## dom gP)) || starts_digit inst ||
               negb (bool_decide (bb_in d ## bb_out d)) || negb (bool_decide (conns = [])))
  | Done =>
    negb (bool_decide (inst ∈ dom (c_bbs P))) && bool_decide (pins ## dom gP) &&
    bool_decide (c_name R = c_name P) && bool_decide (c_bbs R = <[inst := d]> (c_bbs P)) &&
    bool_decide (inputs gR = inputs gP) && bool_decide (outputs gR = outputs gP) &&
    bool_decide (dom gR = dom gP ∪ pins) && same_attrs id gP gR ∅ &&
    forallb (λ p, bool_decide (ty gR (pin inst p) = Some BbIn)) (elements (bb_in d)) &&
    forallb (λ p, bool_decide (ty gR (pin inst p) = Some BbOut)) (elements (bb_out d)) &&
    bool_decide (free_nodes gR = (free_nodes gP ∖ targets) ∪
                   smap (pin inst) ((bb_in d ∖ list_to_set (fst <$> filter (λ kv, kv.2 ≠ []) cin)) ∪ bb_out d)) &&
    sem gR (λ ix, {|
      s_progs := [compile ix id gP targets];
      s_eqs := ixpairs ix ((kv ← cin; net ← kv.2; [(pin inst kv.1, net)]) ++
                           (kv ← cout; net ← kv.2; if free_bufb gP net then [(net, pin inst kv.1)] else []));
      s_pred := no_pred |})
  end.

(* --- fill_blackbox --- *)
Definition holds_fill (P : Circuit) (inst : string) (SC R : Circuit) (oc : outcome) : bool :=
  let gP := c_g P in let gS := c_g SC in let gR := c_g R in
  let reject :=
    match c_bbs P !! inst with
    | None => true
    | Some d => existsb (λ b, bool_decide (pre inst b ∈ dom (c_bbs P))) (elements (dom (c_bbs SC))) ||
                negb (bool_decide (inputs gS = bb_in d)) || negb (bool_decide (outputs gS = bb_out d)) ||
                existsb (λ n, bool_decide (pre inst n ∈ dom gP)) (elements (dom gS)) ||
                (* a surviving pin node that lost its pin type; an output of sc that is itself a blackbox pin (fix a758c71) *)
                existsb (λ p, match ty gP (pin inst p) with Some t => negb (bool_decide (t = BbIn)) | None => false end) (elements (bb_in d)) ||
                existsb (λ p, match ty gP (pin inst p) with Some t => negb (bool_decide (t = BbOut)) | None => false end ||
                              is_in (ty gS p) [BbIn; BbOut]) (elements (bb_out d))
    end in
  match oc, c_bbs P !! inst with
  | Fail e, _ => bool_decide (e = ValueError) && reject
  | Done, None => false
  | Done, Some d =>
    let ρ := pin_to_node inst d in
    let pins := smap (pin inst) (bb_in d ∪ bb_out d) in
    negb reject &&
    (negb (Lint.lint_cleanb P && Lint.lint_cleanb SC && closedb gP && closedb gS && negb (Lint.has_dot inst) && bool_decide (bb_in d ## bb_out d))
     || Lint.lint_cleanb R) &&                       (* C20's clause: filling a lint-clean parent with a lint-clean circuit stays lint-clean *)
    bool_decide (c_name R = c_name P) &&
    bool_decide (c_bbs R = kmap (pre inst) (c_bbs SC) ∪ delete inst (c_bbs P)) &&      (* the filled blackbox disappears *)
    bool_decide (inputs gR = inputs gP ∖ pins) && bool_decide (outputs gR = outputs gP ∖ pins) &&
    bool_decide (dom gR = smap ρ (dom gP) ∪ smap (pre inst) (dom gS)) &&
    same_attrs id gP gR pins && same_attrs (pre inst) (strip_io gS) gR ∅ &&
    bool_decide (free_nodes gR = (free_nodes gP ∖ pins) ∪
                   smap (pre inst) (filter (λ p, p ∉ bb_in d ∨ pin inst p ∈ free_nodes gP) (free_nodes (strip_io gS)))) &&
    sem gR (λ ix, {|
      s_progs := [compile ix ρ gP ∅;                          (* the parent with pins read at inst_p: all its equations still hold *)
                  compile ix (pre inst) (strip_io gS) ∅];      (* the spliced copy computes sc on the pin values *)
      s_eqs := []; s_pred := no_pred |})
  end.

(* --- strip_blackboxes --- *)
Definition holds_strip (C : Circuit) (ign : list string) (obs : res Circuit) : bool :=
  let g := c_g C in
  let kept := kept_pins g ign in let dropped := ignored_pins g ign in
  let ρ := pin_rho kept in
  let pruned : circuit := upd_fi (λ s, s ∖ dropped) <$> filter (λ p, p.1 ∉ dropped) g in
  let clash := existsb (λ n, bool_decide (undot n ∈ dom pruned)) (elements kept) in
  let merge := negb (bool_decide (NoDup (undot <$> elements kept))) in
  match obs with
  | Raise e => bool_decide (e = ValueError) && (clash || merge)
  | Ok R =>
    let gR := c_g R in
    negb clash && negb merge &&      (* every kept pin is exposed under its own name *)
    (bool_decide (c_name R = c_name C) && bool_decide (c_bbs R = ∅) &&
     bool_decide (dom gR = smap ρ (dom pruned)) &&
     bool_decide (inputs gR = smap ρ (inputs g ∪ (kept ∩ of_type g (is_ty BbOut)))) &&       (* bb_output pins become inputs inst_pin *)
     bool_decide (outputs gR = smap ρ ((outputs g ∖ dropped) ∪ (kept ∩ of_type g (is_ty BbIn)))) &&  (* bb_input pins become outputs *)
     same_attrs ρ pruned gR (bb_pins g) &&
     bool_decide (free_nodes gR = smap ρ (free_nodes pruned)) &&
     sem gR (λ ix, {| s_progs := [compile ix ρ pruned ∅]; s_eqs := []; s_pred := no_pred |}))
  | _ => false
  end.

Definition holds1 (s : stepcase) : bool :=
  match s with
  (* the arguments are the caller's: a call that changes its connection map or BlackBox changes what the next call means *)
  | SSub P SC name conns strip R oc conns' => bool_decide (conns' = conns) && holds_sub P SC name conns strip R oc
  | SBb P d inst _ _ conns R oc d' conns' => bool_decide (conns' = conns) && bool_decide (d' = d) && holds_bb P d inst conns R oc
  | SFill P inst SC R oc => holds_fill P inst SC R oc
  | SStrip C ign obs => holds_strip C ign obs
  end.
Definition holds (k : case) : bool := let 'CHist l := k in forallb holds1 l.
