(* Evaluation entry points for C07 cases: one case = one recorded history of API calls. *)
From stdpp Require Import strings gmap sets.
From CG Require Export Base.Cases Base.Api Model.ApiInv.
Open Scope string_scope.

(* one recorded call: the operation, what the implementation returned (Ok name; "" when the call returns None)
   or raised, and the implementation state after the call (None = identical to the state before it) *)
Definition rstep := (op * res string * option Circuit)%type.
Inductive case := CHist (start : Circuit) (steps : list rstep).

(* short constructor names for the generated files *)
Definition A := OAdd.
Definition Cn := OConnect.
Definition Dc := ODisconnect.
Definition Rm := ORemove.
Definition So := OSetOutput.
Definition Ab (bn : string) (ins outs : list string) (inst : string) (conns : list (string * list string)) :=
  OAddBlackbox (mk_bb bn ins outs) inst ins outs conns.      (* ins/outs: recorded iteration order of the two sets *)
Definition As := OAddSubcircuit.
Definition Fb := OFillBlackbox.

(* ---------------- agree: model = implementation, after every call *)
Definition outcome_matches (oc : outcome) (r : res string) : bool :=
  match oc, r with Done, Ok _ => true | Fail e, Raise e' => bool_decide (e = e') | _, _ => false end.
Definition ret_matches (C : Circuit) (o : op) (r : res string) : bool :=
  match o, r with
  | OAdd n t fi fo out u, Ok s =>
      bool_decide ((add_g (c_g C) n t fi fo {| af_out := out; af_conn := false; af_redef := false; af_uid := u |}).2 = s)
  | _, _ => true end.
Fixpoint agree_from (C : Circuit) (l : list rstep) : bool :=
  match l with
  | [] => true
  | (o, r, s) :: l' =>
      let C' := default C s in
      let M := step C o in
      bool_decide (M.1 = C') && outcome_matches M.2 r && ret_matches C o r && agree_from C' l'
  end.
Definition agree (k : case) : bool := match k with CHist C l => agree_from C l end.

(* ---------------- holds: the property, judged on the recorded implementation states only *)
Definition is_add (o : op) : bool := match o with OAdd _ _ _ _ _ _ => true | _ => false end.
(* a raise must be ValueError; set_output on a node that does not exist raises KeyError (not an
   illegal type, name or connection in the sense of the property text) *)
Definition exn_ok (o : op) (e : exn) : bool :=
  match o with
  | OSetOutput _ _ => bool_decide (e = KeyError) || bool_decide (e = ValueError)
  | _ => bool_decide (e = ValueError) end.
(* arguments that are illegal by the documented rules, whatever the model says: these calls must be rejected *)
Definition illegal (C : Circuit) (o : op) : bool :=
  let c := c_g C in
  match o with
  | OAdd n t fi fo out u =>
      negb (bool_decide (t ∈ documented_types)) ||
      (if u then starts_digit n || (bool_decide (n = "") && negb (bool_decide ("" ∈ dom c)))
       else bool_decide (n ∈ dom c) || bool_decide (n = "") || starts_digit n ||
            existsb (λ m, negb (bool_decide (m ∈ dom c)) && negb (bool_decide (m = n))) (fi ++ fo))
  | OConnect us vs =>
      negb (bool_decide (us = [])) && negb (bool_decide (vs = [])) && existsb (λ m, negb (bool_decide (m ∈ dom c))) (us ++ vs)
  | OAddBlackbox d inst _ _ conns =>
      bool_decide (inst ∈ dom (c_bbs C)) || existsb (λ kv, negb (bool_decide (kv.1 ∈ bb_in d ∪ bb_out d))) conns
  | OAddSubcircuit SC name conns =>
      existsb (λ kv, negb (bool_decide (kv.1 ∈ inputs (c_g SC) ∪ outputs (c_g SC)))) conns
  | OFillBlackbox inst SC => negb (bool_decide (inst ∈ dom (c_bbs C)))
  | _ => false
  end.
(* existing nodes keep their name, type and output mark and lose no wire *)
Definition preserved (c c' : circuit) : bool :=
  forallb (λ p, match c' !! p.1 with
                | Some i' => bool_decide (n_ty i' = n_ty p.2) && bool_decide (n_out i' = n_out p.2) && bool_decide (n_fi p.2 ⊆ n_fi i')
                | None => false end) (map_to_list c).
Definition add_ok (C C' : Circuit) (o : op) (r : res string) : bool :=
  match o with
  | OAdd n t fi fo out u =>
      preserved (c_g C) (c_g C') && bool_decide (c_bbs C' = c_bbs C) &&
      match r with
      | Ok s => negb (bool_decide (s ∈ dom (c_g C))) && bool_decide (ty (c_g C') s = Some t) && (u || bool_decide (s = n))
      | _ => true end
  | _ => true end.
Fixpoint holds_from (C : Circuit) (R : gset string) (l : list rstep) : bool :=
  match l with
  | [] => true
  | (o, r, s) :: l' =>
      let C' := default C s in
      let R' := R ∪ removed_by o in
      invb C' && pins_okb C' R' &&
      match r with
      | Ok _ => negb (illegal C o)
      | Raise e => bool_decide (edges (c_g C') ⊆ edges (c_g C)) && exn_ok o e
      | _ => false end &&
      add_ok C C' o r && holds_from C' R' l'
  end.
Definition holds (k : case) : bool := match k with CHist C l => invb C && pins_okb C ∅ && holds_from C ∅ l end.
