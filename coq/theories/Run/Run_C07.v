(* Evaluation entry points for C07 cases: one case = one recorded history of API calls. *)
From stdpp Require Import strings gmap sets.
From CG Require Export Base.Cases Base.Api Model.ApiInv.
Open Scope string_scope.

(* one recorded call: the operation, what the implementation returned (Ok name; "" when the call returns None)
   or raised, and the implementation state after the call (None = identical to the state before it) *)
Definition rstep := (xop * res string * option Circuit)%type.
Inductive case := CHist (start : Circuit) (steps : list rstep).

(* short constructor names for the generated files *)
Definition A n t fi fo out u := XO (OAdd n t fi fo out u).
Definition Cn us vs := XO (OConnect us vs).
Definition Dc us vs := XO (ODisconnect us vs).
Definition Rm ns := XO (ORemove ns).
Definition So ns b := XO (OSetOutput ns b).
Definition Ab (bn : string) (ins outs : list string) (inst : string) (conns : list (string * list string)) :=
  XO (OAddBlackbox (mk_bb bn ins outs) inst ins outs conns).      (* ins/outs: recorded iteration order of the two sets *)
Definition As SC name conns := XO (OAddSubcircuit SC name conns).
Definition Fb inst SC := XO (OFillBlackbox inst SC).
(* add(n, t, fanin, fanout, output, add_connected_nodes, allow_redefinition, uid) *)
Definition Ax n t fi fo out conn redef u := XAdd n t fi fo {| af_out := out; af_conn := conn; af_redef := redef; af_uid := u |}.

(* ---------------- agree: model = implementation, after every call *)
Definition outcome_matches (oc : outcome) (r : res string) : bool :=
  match oc, r with Done, Ok _ => true | Fail e, Raise e' => bool_decide (e = e') | _, _ => false end.
Definition ret_matches (C : Circuit) (o : xop) (r : res string) : bool :=
  match o, r with
  | XO (OAdd n t fi fo out u), Ok s =>
      bool_decide ((add_g (c_g C) n t fi fo {| af_out := out; af_conn := false; af_redef := false; af_uid := u |}).2 = s)
  | XAdd n t fi fo fl, Ok s => bool_decide ((add_g (c_g C) n t fi fo fl).2 = s)
  | _, _ => true end.
Fixpoint agree_from (C : Circuit) (l : list rstep) : bool :=
  match l with
  | [] => true
  | (o, r, s) :: l' =>
      let C' := default C s in
      let M := xstep C o in
      bool_decide (M.1 = C') && outcome_matches M.2 r && ret_matches C o r && agree_from C' l'
  end.
Definition agree (k : case) : bool := match k with CHist C l => agree_from C l end.

(* ---------------- holds: the property, judged on the recorded implementation states only *)
Definition is_add (o : op) : bool := match o with OAdd _ _ _ _ _ _ => true | _ => false end.
(* a raise must be ValueError; set_output on a node that does not exist raises KeyError (not an
   illegal type, name or connection in the sense of the property text) *)
Definition exn_ok (o : op) (e : exn) : bool :=
  match o with
  | OSetOutput _ _ => bool_decide (e = KeyError) || bool_decide (e = ValueError)
  | _ => bool_decide (e = ValueError) end.
(* arguments that are illegal by the documented rules, whatever the model says: these calls must be rejected *)
Definition illegal (C : Circuit) (o : op) : bool :=
  let c := c_g C in
  match o with
  | OAdd n t fi fo out u =>
      negb (bool_decide (t ∈ documented_types)) ||
      (if u then starts_digit n || (bool_decide (n = "") && negb (bool_decide ("" ∈ dom c)))
       else bool_decide (n ∈ dom c) || bool_decide (n = "") || starts_digit n ||
            existsb (λ m, negb (bool_decide (m ∈ dom c)) && negb (bool_decide (m = n))) (fi ++ fo))
  | OConnect us vs =>
      negb (bool_decide (us = [])) && negb (bool_decide (vs = [])) && existsb (λ m, negb (bool_decide (m ∈ dom c))) (us ++ vs)
  | OAddBlackbox d inst _ _ conns =>
      bool_decide (inst ∈ dom (c_bbs C)) || existsb (λ kv, negb (bool_decide (kv.1 ∈ bb_in d ∪ bb_out d))) conns
  | OAddSubcircuit SC name conns =>
      existsb (λ kv, negb (bool_decide (kv.1 ∈ inputs (c_g SC) ∪ outputs (c_g SC)))) conns
  | OFillBlackbox inst SC => negb (bool_decide (inst ∈ dom (c_bbs C)))
  | _ => false
  end.
(* existing nodes keep their name, type and output mark and lose no wire *)
Definition preserved (c c' : circuit) : bool :=
  forallb (λ p, match c' !! p.1 with
                | Some i' => bool_decide (n_ty i' = n_ty p.2) && bool_decide (n_out i' = n_out p.2) && bool_decide (n_fi p.2 ⊆ n_fi i')
                | None => false end) (map_to_list c).
Definition add_ok (C C' : Circuit) (o : op) (r : res string) : bool :=
  match o with
  | OAdd n t fi fo out u =>
      preserved (c_g C) (c_g C') && bool_decide (c_bbs C' = c_bbs C) &&
      match r with
      | Ok s => negb (bool_decide (s ∈ dom (c_g C))) && bool_decide (ty (c_g C') s = Some t) && (u || bool_decide (s = n))
      | _ => true end
  | _ => true end.
(* the plain operations of the property *)
Definition holds_step (C C' : Circuit) (R' : gset string) (o : op) (r : res string) : bool :=
  invb C' && pins_okb C' R' &&
  match r with
  | Ok _ => negb (illegal C o)
  | Raise e => bool_decide (edges (c_g C') ⊆ edges (c_g C)) && exn_ok o e
  | _ => false end &&
  add_ok C C' o r.
(* add with add_connected_nodes / allow_redefinition.  Without redefinition everything the property says about add is
   demanded (missing neighbours are created, so they are not illegal); with redefinition a wired node may be retyped, which
   the property does not cover: closedness, documented types, the exception class and no-new-edge-on-reject are demanded *)
Definition holds_xadd (C C' : Circuit) (R' : gset string) (n : string) (t : gtype) (fi fo : list string) (fl : add_flags) (r : res string) : bool :=
  bool_decide (c_bbs C' = c_bbs C) &&
  match r with
  | Ok s => bool_decide (ty (c_g C') s = Some t) && (af_uid fl || bool_decide (s = n))
  | Raise e => bool_decide (edges (c_g C') ⊆ edges (c_g C)) && bool_decide (e = ValueError)
  | _ => false end &&
  (if af_redef fl then inv0b C'
   else invb C' && pins_okb C' R' && preserved (c_g C) (c_g C') &&
        match r with Ok s => negb (bool_decide (s ∈ dom (c_g C))) && bool_decide (t ∈ documented_types) | _ => true end).
(* a history may leave the invariant only through a redefining add; from then on only the weak invariant is demanded *)
Fixpoint weak_from (C : Circuit) (l : list rstep) : bool :=
  match l with
  | [] => true
  | (x, r, s) :: l' => let C' := default C s in
      inv0b C' && match r with Raise e => bool_decide (edges (c_g C') ⊆ edges (c_g C)) | Ok _ => true | _ => false end && weak_from C' l'
  end.
Fixpoint holds_hist (C : Circuit) (R : gset string) (l : list rstep) : bool :=
  match l with
  | [] => true
  | (x, r, s) :: l' =>
      let C' := default C s in
      let R' := R ∪ match x with XO o => removed_by o | _ => ∅ end in
      match x with
      | XO o => holds_step C C' R' o r && holds_hist C' R' l'
      | XAdd n t fi fo fl =>
          holds_xadd C C' R' n t fi fo fl r &&
          (if af_redef fl && negb (invb C' && pins_okb C' R') then weak_from C' l' else holds_hist C' R' l')
      end
  end.
Definition holds (k : case) : bool := match k with CHist C l => invb C && pins_okb C ∅ && holds_hist C ∅ l end.
