(* Evaluation entry points for C08 cases (sat.model_count, props.signal_probability(approx=False), DIMACS export). *)
From stdpp Require Import strings gmap sets fin_sets.
From CG Require Export Run.SatRun.
From CG Require Import Gen.Gen_cnf.
Local Open Scope list_scope.

Inductive case :=
(* model_count(c, A) *)
| CCount (C : Circuit) (ords : list (string * list string)) (A : list (string * bool)) (obs : res nat)
(* signal_probability(c, n, approx=False) = p / q  (Fraction of the returned float) *)
| CProb (C : Circuit) (n : string) (obs : res (nat * nat))
(* approx_model_count(c, A) in default mode: header `p cnf nv ncl`, largest literal and number of clause lines of the file,
   `c ind` list and clauses named through the IDPool, and the count the exact stand-in counter returned *)
| CDimacs (C : Circuit) (ords : list (string * list string)) (A : list (string * bool))
          (obs : res (nat * nat * nat * nat * list var * list clause * nat))
(* a case together with the follow-up cases derived from its observation (adaptive alias probing): all must pass *)
| CMany (l : list case).

(* ---- specification side: brute-force counting over all consistent valuations ---- *)
Fixpoint dedupb (l : list (list bool)) : list (list bool) :=
  match l with [] => [] | x :: r => if existsb (λ y, bool_decide (x = y)) r then dedupb r else x :: dedupb r end.
(* number of startpoint valuations that extend to a consistent valuation agreeing with A *)
Definition count_spec (c : circuit) (A : list (string * bool)) : option nat :=
  match all_consistent c with
  | Vals V => let sp := elements (startpoints c) in
              Some (length (dedupb ((λ v, v <$> sp) <$> filter (λ v, agreesb A v = true) V)))
  | TooBig => None
  | CertFail => Some 0   (* never equal to a trustworthy observation: callers treat CertFail separately *)
  end.
Definition cert_ok (c : circuit) : bool := match all_consistent c with CertFail => false | _ => true end.
Definition keys_ok (c : circuit) (A : list (string * bool)) : bool := forallb (λ p, bool_decide (p.1 ∈ dom c)) A.
(* projected model count of a clause list on a list of variables: all models by enumeration (Run/SatEnum.v; every leaf must
   assign every variable), projected and de-duplicated *)
Definition proj_count (F : list clause) (ind : list var) : option nat :=
  let vars := dedup (ind ++ concat (map (map snd) F)) in
  let ms := models vars F in
  if forallb (λ p : N * N, assigned vars p.1 vars) ms then
    let ix := index_of vars <$> ind in
    Some (length (dedupb ((λ p : N * N, N.testbit p.2 <$> ix) <$> ms)))
  else None.
Definition var_set_eq (l1 l2 : list var) : bool :=
  forallb (λ x, existsb (var_eqb x) l2) l1 && forallb (λ x, existsb (var_eqb x) l1) l2.
Fixpoint nodupv (l : list var) : bool := match l with [] => true | x :: r => negb (existsb (var_eqb x) r) && nodupv r end.

(* the model's enumeration loop is replayed with a naive complete solver (cubic in the number of models), so only for at most
   2^5 startpoint valuations; beyond that `agree` compares the outcome of construct_solver only (the count itself is then judged by
   `holds`, and its independence of the solver is C08_model_count) *)
Definition replayable (c : circuit) : bool := (size (startpoints c) <=? 5)%nat.
Fixpoint agree (k : case) : bool :=
  match k with
  | CMany l => forallb agree l
  | CCount C ords A obs =>
      let ord := mk_ord (c_g C) ords in
      let Am : gmap string bool := list_to_map A in
      match obs with
      | Ok k => if replayable (c_g C) then
                  match all_consistent (c_g C) with
                  | Vals V => bool_decide (model_count (brute_solver V) C ord Am = Ok k)
                  | TooBig => true
                  | CertFail => false
                  end
                else bool_decide (rmap (λ _, ()) (cnf_assume gen_cnf_tables C ord Am) = Ok ())
      | _ => bool_decide (model_count (λ _, None) C ord Am = obs)
      end
  | CProb C n obs =>
      match obs with
      | Ok (p, q) =>
          match subcircuit C (cone (c_g C) n) with
          | Ok Sc => if negb (replayable (c_g Sc)) then true else
                    match all_consistent (c_g Sc) with
                    | Vals V => match signal_probability (brute_solver V) C n with
                                | Ok r => bool_decide ((QArith_base.Qnum r * Z.of_nat q = Z.of_nat p * Z.pos (QArith_base.Qden r))%Z)
                                | _ => false
                                end
                    | TooBig => true
                    | CertFail => false
                    end
          | _ => false
          end
      | Raise e => match signal_probability (λ _, None) C n with Raise e' => bool_decide (e = e') | _ => false end
      | _ => false
      end
  | CDimacs C ords A obs =>
      let ord := mk_ord (c_g C) ords in
      let Am : gmap string bool := list_to_map A in
      match obs, dimacs_of C ord Am with
      | Ok (nv, ncl, _, _, ind, cls, cnt), Ok d =>
          (nv =? d_nv d)%nat && (ncl =? d_ncl d)%nat && cnf_eq cls (d_clauses d) && var_set_eq ind (d_ind d)
          && (length ind =? length (d_ind d))%nat
          && (negb (replayable (c_g C)) ||
              match all_consistent (c_g C) with
              | Vals V => bool_decide (model_count (brute_solver V) C ord Am = Ok cnt)
              | TooBig => true
              | CertFail => false
              end)
      | Raise e, Raise e' => bool_decide (e = e')
      | _, _ => false
      end
  end.

(* the property, judged on what the implementation returned *)
Fixpoint holds (k : case) : bool :=
  match k with
  | CMany l => forallb holds l
  | CCount C _ A obs =>
      let c := c_g C in
      if in_domain C then
        if keys_ok c A then
          cert_ok c && match count_spec c A with Some k => bool_decide (obs = Ok k) | None => false end
        else bool_decide (obs = Raise ValueError)
      else true
  | CProb C n obs =>
      let c := c_g C in
      (* n's value depends only on the startpoints of its cone, so the fraction over those equals the fraction over all startpoints *)
      if in_domain C && bool_decide (c_bbs C = ∅) && bool_decide (of_type c (λ t, is_ty BbIn t || is_ty BbOut t) = ∅)
         && acyclicb c && bool_decide (n ∈ dom c) then
        cert_ok c &&
        match count_spec c [(n, true)], obs with
        | Some k, Ok (p, q) => bool_decide (k * q = p * 2 ^ size (startpoints c))%nat && negb (q =? 0)%nat
        | None, _ => false
        | _, _ => false
        end
      else true
  | CDimacs C _ A obs =>
      let c := c_g C in
      if in_domain C then
        if keys_ok c A then
          match obs with
          | Ok (nv, ncl, maxlit, nlines, ind, cls, cnt) =>
              (* header counts *)
              (nv =? maxlit)%nat && (ncl =? nlines)%nat && (ncl =? length cls)%nat
              && (nv =? length (dedup (concat (map (map snd) cls))))%nat
              (* sampling set = the startpoint variables *)
              && nodupv ind && var_set_eq ind (VN <$> elements (startpoints c))
              (* projected model count of the exported clauses = number of extendable startpoint valuations *)
              && cert_ok c
              && match count_spec c A with
                 | Some k => (cnt =? k)%nat && match proj_count cls ind with Some k' => (k' =? k)%nat | None => false end
                 | None => false
                 end
          | _ => false
          end
        else bool_decide (obs = Raise ValueError)
      else true
  end.
