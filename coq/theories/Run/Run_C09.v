(* Evaluation entry points for C09 cases (tx.unroll, tx.sequential_unroll). *)
From stdpp Require Import strings gmap sets fin_sets.
From CG Require Export Base.Cases Model.Unroll Model.TopoEval Model.Lint.
Open Scope string_scope.

Notation obs_t := (res (Circuit * list (string * list string))).
Inductive case :=
| CUnroll (C : Circuit) (n : nat) (sio : list (string * string)) (prefix : string) (obs : obs_t)
| CSeq (C : Circuit) (n : nat) (d q : string) (ign : list string) (afo : bool) (iv : init_vals) (ru : bool) (prefix : string) (obs : obs_t)
(* the argument circuit (graph AND blackbox registry, by content) was dumped before and after the call: the flag says it is unchanged *)
| CKeep (k : case) (arg_unchanged : bool)
(* two calls on the SAME circuit object, one after the other (different n / flags); the flag says the argument never changed *)
| CTwice (a b : case) (arg_unchanged : bool).

Definition norm (o : obs_t) : res (Circuit * iomap) := rmap (λ r, (r.1, list_to_map r.2)) o.

(* ---------------- specification side ---------------- *)
Definition lk (m : iomap) (io : string) (t : nat) : string := default "" (m !! io ≫= (.!! t)).
Definition vals (l : list string) : list val :=
  (λ ones, let s : gset string := list_to_set ones in λ n, bool_decide (n ∈ s)) <$> subsets l.
Definition sub_list (l : list string) (s : gset string) : bool := forallb (λ x, bool_decide (x ∈ s)) l.
Definition set_is (s : gset string) (l : list string) : bool := bool_decide (NoDup l) && bool_decide (s = list_to_set l).

(* guard: the names the construction generates are pairwise distinct and new (then `uid` changes nothing) *)
Definition gen_names (N : gset string) (n : nat) (prefix : string) : list string :=
  t ← seq 0 n; x ← elements N; [io_name x prefix t; pre (inst_name t) x].
Definition gen_names_okb (N : gset string) (n : nat) (prefix : string) : bool :=
  let l := gen_names N n prefix in bool_decide (NoDup l) && forallb (λ x, negb (bool_decide (x ∈ N))) l.

Definition unroll_domain (C : Circuit) (n : nat) (sio : list (string * string)) (prefix : string) : bool :=
  let c := c_g C in
  bool_decide (c_bbs C = ∅) && lint_cleanb C && closedb c && acyclicb c && bool_decide (free_nodes c = inputs c) &&
  (1 <=? n)%nat && forallb (λ kv, bool_decide (kv.1 ∈ outputs c) && bool_decide (kv.2 ∈ inputs c)) sio &&
  bool_decide (NoDup sio.*1) && bool_decide (NoDup sio.*2) && gen_names_okb (dom c) n prefix.

(* step-by-step execution of c against the valuation w of the unrolled circuit *)
Fixpoint sim (c : circuit) (ordc : list (string * ninfo)) (sio : list (string * string)) (m : iomap) (w : val)
    (ins ios : list string) (ts : list nat) (prev : option val) : bool :=
  match ts with
  | [] => true
  | t :: r =>
      let a : val := λ i, match state_src sio i with
                          | Some k => match prev with None => w (lk m i 0) | Some p => p k end
                          | None => w (lk m i t) end in
      let x := te_eval ordc a in
      consistentb c x && eq_on ins x a && forallb (λ io, eqb (w (lk m io t)) (x io)) ios && sim c ordc sio m w ins ios r (Some x)
  end.
Definition sim_ok (c : circuit) (sio : list (string * string)) (n : nat) (U : circuit) (m : iomap) : bool :=
  let ordU := te_order U in let ordc := te_order c in
  let frU := elements (free_nodes U) in
  let ins := elements (inputs c) in let ios := elements (io_of c) in
  forallb (λ a, let w := te_eval ordU a in
                consistentb U w && eq_on frU w a && sim c ordc sio m w ins ios (seq 0 n) None) (vals frU).

Definition unroll_structure_ok (c : circuit) (sio : list (string * string)) (n : nat) (U : circuit) (m : iomap) : bool :=
  let svs := sio.*2 in
  bool_decide (dom m = io_of c) && bool_decide (map_Forall (λ _ l, length l = n) m) &&
  set_is (inputs U) (((λ v, lk m v 0) <$> svs) ++ (i ← elements (inputs c ∖ list_to_set svs); lk m i <$> seq 0 n)) &&
  bool_decide (free_nodes U = inputs U) &&
  sub_list (o ← elements (outputs c); lk m o <$> seq 0 n) (outputs U).

(* ---- sequential circuits ---- *)
Definition qd_pins (C : Circuit) (d q : string) : list (string * string * string) :=     (* instance, Q pin node, D pin node *)
  (λ b, (b, pin b q, pin b d)) <$> elements (dom (c_bbs C)).
Definition seq_domain (C : Circuit) (n : nat) (d q : string) (ign : list string) (prefix : string) : bool :=
  let c := c_g C in
  lint_cleanb C && closedb c && acyclicb c && (1 <=? n)%nat &&
  match map_to_list (c_bbs C) with
  | [] => false
  | (_, bb) :: _ => forallb (λ p, bool_decide (bb_in p.2 = bb_in bb) && bool_decide (bb_out p.2 = bb_out bb)) (map_to_list (c_bbs C)) &&
                    bool_decide (d ∈ bb_in bb) && bool_decide (q ∈ bb_out bb)
  end &&
  bool_decide (free_nodes c = inputs c ∪ of_type c (is_ty BbOut)) &&
  bool_decide (outputs c ## bb_pins c) &&
  (* flattened names of the nodes that are not ignored pins are pairwise distinct (a net may carry the name <inst>_<ignored pin>, C09-F4) *)
  (let D := dom c ∖ ignored_pins c ign in let N : gset string := set_map undot D in bool_decide (size N = size D) && gen_names_okb N n prefix).

Definition next_state (qd : list (string * string * string)) (x : val) : val :=
  λ nd, match list_find (λ p, p.1.2 = nd) qd with Some (_, p) => x p.2 | None => false end.
(* st: current Q values (keyed by Q pin node) *)
Fixpoint seq_sim (c : circuit) (ordc : list (string * ninfo)) (qd : list (string * string * string)) (d q : string) (m : iomap) (w : val)
    (ins outs : list string) (ts : list nat) (st : val) : bool :=
  match ts with
  | [] => true
  | t :: r =>
      let a : val := λ nd, match list_find (λ p, p.1.2 = nd) qd with
                           | Some _ => st nd
                           | None => if bool_decide (nd ∈ dom m) then w (lk m nd t) else false end in
      let x := te_eval ordc a in
      consistentb c x && eq_on ins x a && eq_on (qd.*1.*2) x a &&
      forallb (λ o, eqb (w (lk m o t)) (x o)) outs &&
      forallb (λ p, eqb (w (lk m (pre p.1.1 d) t)) (x p.2) && eqb (w (lk m (pre p.1.1 q) t)) (st p.1.2)) qd &&
      seq_sim c ordc qd d q m w ins outs r (next_state qd x)
  end.
Definition seq_ok (C : Circuit) (n : nat) (d q : string) (ign : list string) (afo : bool) (iv : init_vals) (ru : bool) (U : circuit) (m : iomap) : bool :=
  let c := c_g C in
  let qd := qd_pins C d q in
  let insts := elements (dom (c_bbs C)) in
  let bb := default (mk_bb "" [] []) (snd <$> head (map_to_list (c_bbs C))) in
  let dropped : gset string := list_to_set (b ← insts; ((λ p, pin b p) <$> elements (bb_in bb ∖ {[d]}))) in
  let kept_ins := filter (λ i, bool_decide (i ∈ dom m)) (elements (inputs c)) in
  let x0 b := lk m (pre b q) 0 in
  (* io map: D and Q of every flop, every output, every input unless it was removable; no other pin; n entries each *)
  sub_list ((b ← insts; [pre b d; pre b q]) ++ elements (outputs c)) (dom m) &&
  forallb (λ i, bool_decide (i ∈ dom m) || (ru && bool_decide (fanout c i ⊆ dropped))) (elements (inputs c)) &&
  (* no pin other than D / Q; the name <inst>_<pin> of an IGNORED pin may be an ordinary io of c *)
  forallb (λ b, forallb (λ p, negb (bool_decide (pre b p ∈ dom m)) || (bool_decide (p ∈ ign) && bool_decide (pre b p ∈ io_of c)))
                        (elements ((bb_in bb ∖ {[d]}) ∪ (bb_out bb ∖ {[q]})))) insts &&
  bool_decide (map_Forall (λ _ l, length l = n) m) &&
  (* initial values *)
  forallb (λ b, match init_of iv b with None => bool_decide (x0 b ∈ inputs U) | Some t => bool_decide (ty U (x0 b) = Some t) end) insts &&
  set_is (inputs U) ((x0 <$> filter (λ b, bool_decide (init_of iv b = None)) insts) ++ (i ← kept_ins; lk m i <$> seq 0 n)) &&
  bool_decide (free_nodes U = inputs U ∪ list_to_set (x0 <$> filter (λ b, bool_decide (init_of iv b = Some CX)) insts)) &&
  (* outputs: the per-step outputs, and the flop data outputs exactly when requested *)
  set_is (outputs U) ((o ← elements (outputs c); lk m o <$> seq 0 n) ++ (if afo then b ← insts; lk m (pre b d) <$> seq 0 n else [])) &&
  (* cycle-accurate simulation *)
  let ordU := te_order U in let ordc := te_order c in
  let frU := elements (free_nodes U) in
  forallb (λ a, let w := te_eval ordU a in
                consistentb U w && eq_on frU w a &&
                forallb (λ b, match init_of iv b with Some C0 => negb (w (x0 b)) | Some C1 => w (x0 b) | _ => true end) insts &&
                seq_sim c ordc qd d q m w (elements (inputs c)) (elements (outputs c)) (seq 0 n)
                        (λ nd, match list_find (λ p, p.1.2 = nd) qd with Some (_, p) => w (x0 p.1.1) | None => false end))
          (vals frU).

(* every hypothesis of Properties/C09.v `C09_sequential_unroll_full` as one boolean (iv guards apart): not an obligation, used to measure
   how much of the generated sequential domain the theorem covers (docs/C09.md; quick tier: all 190 sequential cases) *)
Definition seq_theorem_guards (C : Circuit) (n : nat) (d q : string) (ign : list string) (ru : bool) (p : string) : bool :=
  match seq_stripped C d q ign ru with
  | Ok (CS, sio) => let cs := c_g CS in
      lint_cleanb C && closedb (c_g C) && acyclicb (c_g C) && bool_decide (flop_names_ok C ign) && bool_decide (flop_wiring_ok C q) &&
      negb (bool_decide (d ∈ ign)) && negb (bool_decide (q ∈ ign)) &&
      lint_cleanb CS && bool_decide (c_bbs CS = ∅) && closedb cs && acyclicb cs &&
      bool_decide (map_Forall (λ (_ : string) i, n_ty i ≠ BbIn ∧ n_ty i ≠ BbOut ∧ n_ty i ≠ Unsup ∧ n_ty i ≠ NoTy) cs) &&
      bool_decide (set_Forall (λ x : string, x ≠ "" ∧ starts_digit x = false) (dom cs)) &&
      bool_decide (free_nodes cs = inputs cs) && (1 <=? n)%nat && sio_okb cs sio && unroll_names_okb cs n sio p
  | _ => false end.

Fixpoint holds (k : case) : bool :=
  match k with
  | CUnroll C n sio p obs =>
      if unroll_domain C n sio p then
        match norm obs with
        | Ok (U, m) => bool_decide (c_bbs U = ∅) && lint_cleanb U && closedb (c_g U) && acyclicb (c_g U) &&
                       unroll_structure_ok (c_g C) sio n (c_g U) m && sim_ok (c_g C) sio n (c_g U) m
        | _ => false
        end
      else true
  | CSeq C n d q ign afo iv ru p obs =>
      if seq_domain C n d q ign p then
        match norm obs with
        | Ok (U, m) => bool_decide (c_bbs U = ∅) && lint_cleanb U && closedb (c_g U) && acyclicb (c_g U) &&
                       seq_ok C n d q ign afo iv ru (c_g U) m
        | _ => false
        end
      else true
  | CKeep k' u => holds k' && u
  | CTwice a b u => holds a && holds b && u
  end.

(* ---------------- correspondence ---------------- *)
Fixpoint agree (k : case) : bool :=
  match k with
  | CUnroll C n sio p obs =>
      bool_decide (unroll C n sio p = norm obs) &&
      (* inside the guards the closed form must coincide as well (per-case decision of C09_closed_form_full) *)
      (if unroll_domain C n sio p && unroll_names_okb (c_g C) n sio p
       then bool_decide (norm obs = Ok ({| c_name := "circuit"; c_g := unroll_closed (c_g C) n sio p; c_bbs := ∅ |}, unroll_iomap (c_g C) n p))
       else true)
  | CSeq C n d q ign afo iv ru p obs =>
      bool_decide (sequential_unroll C n d q ign afo iv ru p = norm obs) &&
      (* inside the guards: the hypotheses of C09_sequential_simulates_partial hold for the recorded result
         (it is the plain unrolling of the stripped circuit up to output marks and step-0 constants) *)
      (if seq_domain C n d q ign p then
         match seq_stripped C d q ign ru, norm obs with
         | Ok (CS, sio), Ok (U, m) =>
             let cs := c_g CS in
             closedb cs && acyclicb cs && bool_decide (free_nodes cs = inputs cs) &&
             bool_decide (NoDup (unroll_nodes cs n sio p).*1) &&
             forallb (λ kv, bool_decide (kv.1 ∈ io_of cs) && bool_decide (kv.2 ∈ inputs cs)) sio &&
             weakerb (unroll_closed cs n sio p) (c_g U) && bool_decide (m = unroll_iomap cs n p)
         | _, _ => true
         end
       else true)
  | CKeep k' _ => agree k'
  | CTwice a b _ => agree a && agree b
  end.

