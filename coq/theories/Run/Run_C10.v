(* Evaluation entry points for C10 cases. *)
From stdpp Require Import strings gmap sets sorting.
From CG Require Export Base.Cases Base.Oracle Model.Lint Model.Ternary Proofs.TernaryProofs.
Open Scope string_scope.

(* input circuit, list(c.graph.nodes), [(n, list(c.fanin(n)))], and what cg.tx.ternary returned: (circuit, mapping items) *)
Inductive case :=
| CTern (C : Circuit) (nodes : list string) (fos : list (string * list string)) (obs : res (Circuit * list (string * string)))
(* second call of a two-call history on ONE Circuit object (call; edit c in place or edit the first result; call again):
   C, nodes, fos describe the circuit as it is at the second call, obs is the second result, fresh = the second result shares no
   object (circuit, graph, mapping, attribute dicts) with the first result or with c *)
| CHist (C : Circuit) (nodes : list string) (fos : list (string * list string)) (obs : res (Circuit * list (string * string))) (fresh : bool).

Definition fo_of (fos : list (string * list string)) : string → list string :=
  let m : gmap string (list string) := list_to_map fos in λ n, default [] (m !! n).

(* the domain of the property: lint-clean, blackbox-free (no registry entry and no blackbox pin node), no x constant *)
Definition valid (C : Circuit) : bool :=
  lint_cleanb C && bool_decide (c_bbs C = ∅) && bool_decide (of_type (c_g C) (λ t, is_ty CX t || is_ty BbIn t || is_ty BbOut t) = ∅).

(* model = implementation (result graph, name, registry and mapping; or the exception class), and on the property's
   domain the returned graph has the gadget structure for which the semantic theorem is proved *)
Definition agree_t (C : Circuit) (nodes : list string) (fos : list (string * list string))
    (obs : res (Circuit * list (string * string))) : bool :=
      let r := ternary C nodes (fo_of fos) in
      match obs with
      | Ok (R, mp) => bool_decide (r = Ok (R, list_to_map mp)) && (negb (valid C) || shapeb (c_g C) (c_g R) (list_to_map mp))
      | Raise e => bool_decide (r = Raise e)
      | _ => false end.
Definition agree (k : case) : bool :=
  match k with CTern C nodes fos obs | CHist C nodes fos obs _ => agree_t C nodes fos obs end.

(* ---- memoising evaluators (any order may be used: the result is certified by consistentb / kconsistentb) ---- *)
Definition rank_le (r : gmap string nat) (a b : string) : Prop := rank_of r a ≤ rank_of r b.
Global Instance rank_le_dec r a b : Decision (rank_le r a b). Proof. unfold rank_le. apply _. Defined.
Definition topo (c : circuit) : list string := merge_sort (rank_le (rank_table c)) (elements (dom c)).
Definition evalm (c : circuit) (order : list string) (a : val) : val :=
  let m := foldl (λ (m : gmap string bool) n,
      match c !! n with None => m | Some i =>
        let v := λ x, match m !! x with Some b => b | None => a x end in
        <[n := if is_free i then a n else match n_ty i with C0 => false | C1 => true | t => gate_val t v (n_fi i) end]> m end) ∅ order in
  λ x, match m !! x with Some b => b | None => a x end.
Definition kevalm (c : circuit) (order : list string) (a : kval) : kval :=
  let m := foldl (λ (m : gmap string tern) n,
      match c !! n with None => m | Some i =>
        let k := λ x, match m !! x with Some b => b | None => a x end in
        <[n := match n_ty i with Input | BbOut => a n | C0 => T0 | C1 => T1 | CX => TX
               | t => kgate t (k <$> elements (n_fi i)) end]> m end) ∅ order in
  λ x, match m !! x with Some b => b | None => a x end.
Definition lval (ones : list string) : val := let s : gset string := list_to_set ones in λ n, bool_decide (n ∈ s).

(* the property, judged on what the implementation returned: for every 0/1/X pattern of the inputs and both binary
   values under every X, simulation of the returned circuit gives mapping[n] = 1 exactly where Kleene evaluation of c
   gives X, and the Kleene value at n elsewhere *)
Definition sim_ok (c t : circuit) (μ : gmap string string) : bool :=
  let ins := elements (inputs c) in
  let mins := mu_at μ <$> ins in
  let ot := topo t in let oc := topo c in
  let dc := elements (dom c) in
  forallb (λ ones,
      let a := lval ones in
      let v := evalm t ot a in
      let k := kevalm c oc (λ n, if a (mu_at μ n) then TX else B (a n)) in
      consistentb t v && kconsistentb c k &&
      forallb (λ n, eqb (v (mu_at μ n)) (bool_decide (k n = TX)) && (v (mu_at μ n) || bool_decide (k n = B (v n)))) dc)
    (subsets (ins ++ mins)).

Definition holds_t (C : Circuit) (obs : res (Circuit * list (string * string))) : bool :=
      if negb (valid C) then true else      (* outside the property's domain; the outcome is compared by `agree` *)
      match obs with
      | Ok (R, mp) =>
          let c := c_g C in let t := c_g R in let μ : gmap string string := list_to_map mp in
          bool_decide (dom μ = dom c)
          && forallb (λ p, bool_decide (t !! p.1 = Some p.2)) (map_to_list c)
          && bool_decide (c_bbs R = ∅) && lint_cleanb R
          && bool_decide (inputs t = inputs c ∪ list_to_set (mu_at μ <$> elements (inputs c)))
          && bool_decide (size (list_to_set (mu_at μ <$> elements (dom c)) ∪ dom c) = 2 * size c)%nat
          && closedb t && acyclicb c && acyclicb t && sim_ok c t μ
      | _ => false end.
Definition holds (k : case) : bool :=
  match k with
  | CTern C _ _ obs => holds_t C obs
  | CHist C _ _ obs fresh => holds_t C obs && fresh     (* judged against the circuit as it is at the second call *)
  end.
