(* Evaluation entry points for C11 cases.
   agree: the models of Model/Sensitivity.v reproduce what the implementation returned (graphs, numbers, exceptions);
   holds: the property itself -- the definitions (flips / count / sens_at, by evalc on the ORIGINAL circuit) compared with a
          certified simulation of the RECORDED transform circuits under every valuation and with the recorded return values.
          `holds` never calls the transform models. *)
From Coq Require Import QArith.
From stdpp Require Import strings gmap sets.
From CG Require Export Base.Cases Model.Sensitivity Proofs.SensitivityProofs.
From CG Require Model.Logic.
Open Scope string_scope.
Open Scope nat_scope.

Inductive case :=
| CMutated (C : Circuit)                                                  (* the call changed its argument *)
| CSz (C : Circuit) (n : string) (Eo : option (list string))              (* sensitization_transform(c, n, endpoints) *)
      (Tr : res (string * list node))                                      (*   its result: name, nodes in topological order *)
      (Sz : option (res (option (list (string * bool)))))                  (*   props.sensitize(c, n) when endpoints is None *)
| CSv (C : Circuit) (n : string) (sp : list string) (PC : Circuit)        (* sensitivity_transform(c, n); recorded startpoint order, popcount *)
      (Tr : res (list node)) (cl : nat * nat) (bins : list (list bool))    (*   result; clog2(m), clog2(m+1); int_to_bin(k, clog2 m, True) for k = 0..m *)
      (Sn : res nat)                                                      (*   props.sensitivity(c, n) *)
| CInf (C : Circuit) (n : string) (sp : list string)                      (* props.influence / avg_sensitivity (approx=False) *)
      (Ir : res (list (string * Q))) (Ar : res Q)
| CSens (C : Circuit) (n : string) (sp : list string) (Sn : res nat)      (* props.sensitivity alone (repeated-call batches) *)
| CBatch (l : list case).                                                 (* several calls on ONE circuit object: multi-node `ns`
                                                                             (one CInf per node of the returned dict), repeated calls *)

(* ---- brute-force stand-ins for the SAT solver / model counter (sound and complete by enumeration) ---- *)
Definition sims (nodes : list node) (free : list string) : list val := simulate nodes <$> all_vals free.
Definition sat_asm (asm : list (string * bool)) (v : val) : bool := forallb (λ p, eqb (v p.1) p.2) asm.
Definition val_of_pairs (l : list (string * bool)) : val := val_of (fst <$> filter (λ p, p.2 = true) l).
Definition mc_bf (g : circuit) (asm : list (string * bool)) : nat :=
  length (filter (λ v, sat_asm asm v = true) (sims (nodes_of g) (elements (startpoints g)))).

(* ---- certificate: the simulation of the node list IS the unique consistent valuation for every input vector ---- *)
Definition cert_static (g : circuit) (nodes : list node) (free : list string) : bool :=
  wf_order nodes && bool_decide (free_nodes g = list_to_set free) && bool_decide (NoDup free).
Definition cert_val (nodes : list node) (free : list string) (a v : val) : bool := lnodes_okb nodes v && eq_on free v a.

Definition qeq_res (a b : res Q) : bool :=
  match a, b with Ok x, Ok y => Qeq_bool x y | Raise e, Raise e' => bool_decide (e = e') | _, _ => false end.
Definition same_infl (a b : res (list (string * Q))) : bool :=
  match a, b with
  | Ok l, Ok l' => bool_decide (NoDup (fst <$> l)) && bool_decide (fst <$> l ≡ₚ fst <$> l') &&
                   forallb (λ p, existsb (λ p', bool_decide (p.1 = p'.1) && Qeq_bool p.2 p'.2) l') l
  | Raise e, Raise e' => bool_decide (e = e')
  | _, _ => false end.

Fixpoint agree (k : case) : bool :=
  match k with
  | CMutated _ => false
  | CSz C n Eo Tr Sz =>
      let Tm := sensitization_transform C n Eo in
      bool_decide (rmap (λ M, (c_name M, c_g M, c_bbs M)) Tm = rmap (λ p, (p.1, mk_g p.2, ∅)) Tr) &&
      (* the recorded graph has the shape the theorem sensitization_shape_spec is about (so the theorem applies to it) *)
      match Tr with
      | Ok (_, nodes) =>
          let c := c_g C in
          let '(SC, E) := match Eo with
                          | Some (e :: l) => let E : gset string := list_to_set (e :: l) in (induced c (E ∪ tfi c (e :: l)), E)
                          | _ => (c, outputs c) end in
          inputs_onlyb c && sub_ofb SC c && sens_shapeb SC n E (mk_g nodes)
      | _ => true end &&
      match Sz with
      | None => true
      | Some Sr =>
          (* the solver's answer cannot be predicted; accept exactly the answers a sound and complete solver can give *)
          match Tr, Sr with
          | Ok (_, nodes), Ok None =>
              negb (existsb (λ v : val, v "sat") (sims nodes (elements (free_nodes (mk_g nodes)))))
          | Ok (_, nodes), Ok (Some μ) =>
              let g := mk_g nodes in
              bool_decide (fst <$> μ ≡ₚ elements (startpoints g)) &&
              existsb (λ v : val, v "sat" && sat_asm μ v) (sims nodes (elements (free_nodes g)))
          | Raise e, Raise e' => bool_decide (e = e')
          | _, _ => false
          end
      end
  | CSv C n sp PC Tr cl bins Sn =>
      let Tm := sensitivity_transform C n sp PC in
      bool_decide (rmap c_g Tm = rmap mk_g Tr) &&
      (* the recorded graph has the shape the theorem sensitivity_shape_spec is about *)
      match Tr with
      | Ok nodes =>
          let c := c_g C in
          let SUB := induced c (tfi c [n] ∪ {[n]}) in
          inputs_onlyb c && sub_ofb SUB c && sv_shapeb SUB n sp (c_g PC) cl.2 (mk_g nodes)
      | _ => true end &&
      match sp with
      | [] => true
      | _ => bool_decide (clog2 (length sp) = Ok cl.1) && bool_decide (clog2 (length sp + 1) = Ok cl.2) &&
             (* the recorded popcount circuit is the one C13's model builds (so sensitivity_transform_spec_popcount applies) and
                it has the output bits sen_out reads *)
             bool_decide (rmap c_g (Logic.popcount (length sp)) = Ok (c_g PC)) && (cl.2 <=? size (outputs (c_g PC))) &&
             bool_decide (bins = (λ k, int_to_bin_le k cl.1) <$> seq 0 (S (length sp)))
      end &&
      let solve : list (string * bool) → bool :=
        match Tr with
        | Ok nodes => let vs := sims nodes sp in λ asm, existsb (sat_asm asm) vs
        | _ => λ _, false end in
      bool_decide (sensitivity_from (λ _, solve) C n Tm = Sn)
  | CInf C n sp Ir Ar =>
      let Im := influence mc_bf C n in
      same_infl Ir Im && qeq_res Ar (rmap (λ l, qsum (snd <$> l)) Im)
  | CSens _ _ _ _ => true            (* judged by `holds` only; the model of sensitivity is tied by the CSv cases *)
  | CBatch l => forallb agree l
  end.

(* ---- the property ---- *)
Definition sen_out_width (nodes : list node) : nat :=
  length (filter (λ p : node, String.prefix "sen_out_" p.1.1.1 = true) nodes).

Definition wf_orig (c : circuit) : bool := closedb c && acyclicb c.
Fixpoint holds (k : case) : bool :=
  match k with
  | CMutated _ => false
  | CSz C n Eo Tr Sz =>
      let c := c_g C in
      wf_orig c &&
      let sel := match Eo with Some (e :: l) => Some (e :: l) | _ => None end in
      let E := match sel with Some l => l | None => elements (outputs c) end in
      let conenodes : gset string := list_to_set E ∪ tfi c E in
      if bool_decide (n ∈ dom c) && match sel with Some _ => bool_decide (n ∈ conenodes) | None => true end then
        match Tr with
        | Ok (_, nodes) =>
            let g := mk_g nodes in
            let free := elements (match sel with Some _ => conenodes ∩ inputs c | None => inputs c end) in
            cert_static g nodes free &&
            forallb (λ a, let v := simulate nodes a in cert_val nodes free a v && eqb (v "sat") (sens_atb c n E a)) (all_vals free) &&
            match Sz with
            | None => true
            | Some (Ok None) => forallb (λ a, negb (sens_atb c n E a)) (all_vals free)
            | Some (Ok (Some μ)) => bool_decide (fst <$> μ ≡ₚ free) && sens_atb c n E (val_of_pairs μ)
            | Some _ => false
            end
        | _ => false
        end
      else (* n is not in the cone of the selected endpoints: the call must be rejected *)
        match Tr with Raise ValueError => true | _ => false end
  | CSv C n sp PC Tr cl bins Sn =>
      let c := c_g C in
      wf_orig c && bool_decide (sp ≡ₚ elements (cone_startpoints c n)) &&
      match sp with
      | [] => true          (* no startpoint in the cone: outside the property's domain *)
      | _ =>
        match Tr, Sn with
        | Ok nodes, Ok k =>
            let g := mk_g nodes in
            let W := sen_out_width nodes in
            cert_static g nodes sp &&
            bool_decide (outputs g = list_to_set ((λ s, "dif_out_" ++ s) <$> sp) ∪ list_to_set ((λ o, "sen_out_" ++ pretty o) <$> seq 0 W)) &&
            (* one row per valuation: (certificate and the two transform clauses, count by the definition) *)
            let rows := (λ a, let v := simulate nodes a in
                              let fl := (λ s, flipsb c n s a) <$> sp in
                              let cnt := length (filter (λ b, b = true) fl) in
                              (cert_val nodes sp a v &&
                               bool_decide ((λ s, v ("dif_out_" ++ s)) <$> sp = fl) &&
                               (dec ((λ o, v ("sen_out_" ++ pretty o)) <$> seq 0 W) =? cnt), cnt)) <$> all_vals sp in
            forallb fst rows && (k =? max_list (snd <$> rows))
        | _, _ => false
        end
      end
  | CInf C n sp Ir Ar =>
      let c := c_g C in
      wf_orig c && bool_decide (sp ≡ₚ elements (cone_startpoints c n)) &&
      match Ir, Ar with
      | Ok l, Ok a =>
          bool_decide (fst <$> l ≡ₚ sp) &&
          forallb (λ p, Qeq_bool p.2 (influence_def c n sp p.1)) l &&
          Qeq_bool a (avg_sensitivity_def c n sp)
      | _, _ => false
      end
  | CSens C n sp Sn =>
      let c := c_g C in
      wf_orig c && bool_decide (sp ≡ₚ elements (cone_startpoints c n)) &&
      match sp, Sn with
      | [], _ => true
      | _, Ok k => k =? sensitivity_def c n sp
      | _, _ => false
      end
  | CBatch l => forallb holds l
  end.
