(* Evaluation entry points for C12 cases: one graph, a batch of queries with the implementation's answers. *)
From stdpp Require Import strings gmap sets.
From CG Require Export Base.Cases Model.Queries Proofs.QueriesProofs.
Open Scope string_scope.
Open Scope list_scope.

Inductive query :=
| QFanin (ns r : list string) | QFanout (ns r : list string)
| QTfi (ns r : list string) | QTfo (ns r : list string)
| QStart (ns r : list string) | QEnd (ns r : list string)              (* ns = [] : whole circuit *)
| QFaninDepth (ns : list string) (r : res nat) | QFanoutDepth (ns : list string) (r : res nat)
| QTopo (r : res (list string))                                        (* Raise OtherError = NetworkXUnfeasible *)
| QLevelize (order : res (list string)) (r : res (list (string * nat)))  (* order = list(c.topo_sort()) recorded before *)
| QCyclic (r : bool)
| QReconv (r : list string)
| QKcuts (n : string) (k : nat) (ords : list (string * list string)) (r : res (list (list string)))
| QFail (what : string).                                                (* a set-valued query raised an exception *)
Inductive case :=
| CQ (nodes : list (string * gtype * bool * list string)) (qs : list query)
(* query - edit - query history on one Circuit object: per phase the graph as dumped at that moment and the answers given then *)
| CH (phases : list (list (string * gtype * bool * list string) * list query)).

(* a Python set, reported as a sorted list *)
Definition seteq (s : gset string) (r : list string) : bool := bool_decide (NoDup r ∧ s = list_to_set r).
Definition levels_of (r : list (string * nat)) : gmap string nat := list_to_map r.

(* ---- model = implementation ---- *)
Definition agree_q (c : circuit) (q : query) : bool :=
  match q with
  | QFanin ns r => seteq (fanin_l c ns) r
  | QFanout ns r => seteq (fanout_l c ns) r
  | QTfi ns r => seteq (tfi c ns) r
  | QTfo ns r => seteq (tfo c ns) r
  | QStart ns r => seteq (startpoints_of c ns) r
  | QEnd ns r => seteq (endpoints_of c ns) r
  | QFaninDepth ns r => bool_decide (fanin_depth c ns = r)
  | QFanoutDepth ns r => bool_decide (fanout_depth c ns = r)
  | QTopo r => match r with Ok l => is_topo_order c l | Raise OtherError => is_cyclic c | _ => false end
  | QLevelize order r =>
      match order with
      | Ok o => bool_decide (levelize c o = rmap levels_of r) && match r with Ok l => bool_decide (NoDup l.*1) | _ => true end
      | _ => is_cyclic c && bool_decide (r = Raise ValueError)
      end
  | QCyclic r => bool_decide (is_cyclic c = r)
  | QReconv r => seteq (reconvergent c) r
  | QKcuts n k ords r => bool_decide (kcuts c n k (qord_of ords) = rmap (fmap list_to_set) r)
  | QFail _ => false
  end.
Definition agree (k : case) : bool :=
  match k with
  | CQ nodes qs => let c := mk_g nodes in forallb (agree_q c) qs
  | CH phases => forallb (λ p, let c := mk_g p.1 in forallb (agree_q c) p.2) phases
  end.

(* ---- the graph-theoretic definition, evaluated on the same graph, against what the implementation returned.
   tfi / tfo / depth_table / is_cyclic / is_topo_order / reconvergent are the executable forms of the definitions
   (QueriesProofs: tfi_spec, tfo_spec, depth_table_spec, is_cyclic_spec, topo_order_sound, reconvergent_spec);
   for kcuts the cut property is checked directly: width, and no source reaches n once the cut is deleted. ---- *)
Definition depth_of (c : circuit) (ns : list string) : res nat :=
  if is_cyclic c then Raise ValueError else
  match ns with [] => Raise ValueError | _ => Ok (foldr (λ n acc, max acc (lvl (depth_table c) n)) 0 ns) end.
Definition separates (c : circuit) (n : string) (cut : gset string) : bool :=
  bool_decide (n ∈ cut) ||
  (let c' := filter (λ p, p.1 ∉ cut) c in
   forallb (λ s, negb (bool_decide (fanin c s = ∅))) (elements (({[n]} ∪ tfi c' [n]) ∖ cut))).
Definition holds_q (c : circuit) (q : query) : bool :=
  match q with
  | QFanin ns r => seteq (⋃ (fanin c <$> ns)) r
  | QFanout ns r => seteq (⋃ (fanout c <$> ns)) r
  | QTfi ns r => seteq (tfi c ns) r
  | QTfo ns r => seteq (tfo c ns) r
  | QStart ns r => seteq (match ns with [] => startpoints c | _ => filter (λ x, x ∈ ns ∨ x ∈ tfi c ns) (startpoints c) end) r
  | QEnd ns r => seteq (match ns with [] => endpoints c | _ => filter (λ x, x ∈ ns ∨ x ∈ tfo c ns) (endpoints c) end) r
  | QFaninDepth ns r => bool_decide (r = depth_of c ns)
  | QFanoutDepth ns r => bool_decide (r = depth_of (rev_g c) ns)
  | QTopo r => match r with Ok l => is_topo_order c l && negb (is_cyclic c) | Raise OtherError => is_cyclic c | _ => false end
  | QLevelize _ r =>
      match r with
      | Ok l => negb (is_cyclic c) && bool_decide (NoDup l.*1) && bool_decide (list_to_set l.*1 = dom c) &&
                forallb (λ p, Nat.eqb p.2 (lvl (depth_table c) p.1)) l
      | Raise ValueError => is_cyclic c
      | _ => false
      end
  | QCyclic r => bool_decide (r = is_cyclic c)
  | QReconv r => seteq (reconvergent c) r
  | QKcuts n k _ r =>
      match r with
      | Ok cuts => forallb (λ cut, let s : gset string := list_to_set cut in
                              bool_decide (NoDup cut) && (bool_decide (s = {[n]}) || (bool_decide (size s ≤ k) && separates c n s))) cuts
                   && bool_decide ([n] ∈ cuts)
      | _ => false
      end
  | QFail _ => false
  end.
Definition holds (k : case) : bool :=
  match k with
  | CQ nodes qs => let c := mk_g nodes in closedb c && forallb (holds_q c) qs
  | CH phases => forallb (λ p, let c := mk_g p.1 in closedb c && forallb (holds_q c) p.2) phases
  end.
