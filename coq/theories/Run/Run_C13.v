(* Evaluation entry points for C13 cases. *)
From stdpp Require Import strings gmap sets numbers.
From CG Require Export Base.Cases Model.Logic Model.Lint Proofs.LogicOracle.
Open Scope string_scope.

Inductive case :=
| CClog2 (num : Z) (obs : res nat)                                   (* clog2(num) *)
| CI2B (i : N) (w : nat) (lend : bool) (obs : list bool) (back : res N)  (* int_to_bin(i, w, lend) and bin_to_int of that *)
| CB2I (b : list bool) (lend : bool) (obs : res N)                   (* bin_to_int on an arbitrary tuple *)
| CHalf (C : Circuit) | CFull (C : Circuit)
| CAdder (w : nat) (ci co : bool) (C : Circuit)
| CMux (w : nat) (obs : res Circuit)
| CPop (w : nat) (obs : res Circuit)
(* large widths: graph equality with the model only (the theorems then speak about that very graph) *)
| CBigAdder (w : nat) (ci co : bool) (C : Circuit) | CBigMux (w : nat) (C : Circuit) | CBigPop (w : nat) (C : Circuit)
(* widths with two-digit indices: graph equality + the specification on a subset of the input vectors (Proofs/LogicOracle.v, *_sweep) *)
| CAdderSweep (w : nat) (ci co : bool) (C : Circuit) | CMuxSweep (w : nat) (C : Circuit) | CPopSweep (w : nat) (C : Circuit)
(* several generator calls made in ONE process (state across calls): every circuit returned in the session is a case *)
| CSession (l : list case)
(* Python-side simulation of a large block on random vectors: additional support, not a proof *)
| CSim (fn : string) (w vectors : nat) (ok : bool).

(* model = recorded implementation result *)
Fixpoint agree (k : case) : bool :=
  match k with
  | CClog2 num obs => bool_decide (clog2 num = obs)
  | CI2B i w lend obs back => bool_decide (int_to_bin i w lend = obs) && bool_decide (bin_to_int obs lend = back)
  | CB2I b lend obs => bool_decide (bin_to_int b lend = obs)
  | CHalf C => bool_decide (half_adder = C)
  | CFull C => bool_decide (full_adder = C)
  | CAdder w ci co C | CBigAdder w ci co C | CAdderSweep w ci co C => bool_decide (adder w ci co = C)
  | CMux w obs => bool_decide (mux w = obs)
  | CPop w obs => bool_decide (popcount w = obs)
  | CBigMux w C | CMuxSweep w C => bool_decide (mux w = Ok C)
  | CBigPop w C | CPopSweep w C => bool_decide (popcount w = Ok C)
  | CSession l => forallb agree l
  | CSim _ _ _ _ => true
  end.

(* the property, judged on what the implementation returned *)
Definition clean (C : Circuit) : bool := lint_cleanb C && bool_decide (c_bbs C = ∅).
Fixpoint holds (k : case) : bool :=
  match k with
  | CClog2 num obs =>
      (* clog2(n) = ceil(log2 n) for n >= 1; below 1 there is no such number: any exception is fine, a number is not
         (that it is ValueError is checked by agree against the model, C13_clog2_rejects) *)
      if (num <? 1)%Z then match obs with Raise _ => true | _ => false end
      else match obs with
           | Ok k => (num <=? 2 ^ Z.of_nat k)%Z && (bool_decide (k = 0) || (2 ^ (Z.of_nat k - 1) <? num)%Z)
           | _ => false end
  | CI2B i w lend obs back =>
      (* round trip; and the tuple has w entries whenever i < 2^w (w >= 1) *)
      bool_decide (back = Ok i) && ((2 ^ N.of_nat w <=? i)%N || bool_decide (w = 0) || bool_decide (length obs = w))
  | CB2I b lend obs =>
      match b with [] => true        (* the property does not speak about the empty tuple; agree pins the ValueError *)
      | _ => bool_decide (obs = Ok (foldr (λ x acc, (N.b2n x + 2 * acc)%N) 0%N (if lend then b else reverse b))) end
  | CHalf C => half_adder_ok (c_g C) && clean C
  | CFull C => full_adder_ok (c_g C) && clean C
  | CAdder w ci co C => adder_ok w ci co (c_g C) && clean C
  | CMux w obs =>
      match w, obs with
      | O, _ => true                                    (* the property speaks about w >= 1; agree pins the ValueError *)
      | _, Ok C => mux_ok w (c_g C) && clean C
      | _, _ => false end
  | CPop w obs =>
      match w, obs with
      | O, _ => true                                     (* w >= 1 only; agree pins the IndexError *)
      | S _, Ok C => popcount_ok w (c_g C) && clean C
      | _, _ => false end
  (* (if-then-else, not ||: vm_compute is strict)  large widths: graph equality carries the theorems over; only when it FAILS (and w <= 17) the returned circuit is
     judged by a subset sweep, so that a disagreement comes with a verdict of the specification *)
  | CBigAdder w ci co C => if bool_decide (adder w ci co = C) || negb (w <=? 17)%nat then true else adder_sweep_ok w ci co (c_g C)
  | CBigMux w C => if bool_decide (mux w = Ok C) || negb (w <=? 17)%nat then true else mux_sweep_ok w (c_g C)
  | CBigPop w C => if bool_decide (popcount w = Ok C) || negb (w <=? 17)%nat then true else popcount_sweep_ok w (c_g C)
  | CSession l => forallb holds l
  (* lint at these sizes is quadratic: only for the (small) mux; for adder/popcount it is theorem + graph equality *)
  | CAdderSweep w ci co C => adder_sweep_ok w ci co (c_g C) && bool_decide (c_bbs C = ∅)
  | CMuxSweep w C => mux_sweep_ok w (c_g C) && clean C
  | CPopSweep w C => popcount_sweep_ok w (c_g C) && bool_decide (c_bbs C = ∅)
  | CSim _ _ _ ok => ok
  end.
