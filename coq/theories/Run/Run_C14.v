(* Evaluation entry points for C14 cases. *)
From stdpp Require Import strings gmap sets.
From Coq Require Import Ascii.
From CG Require Export Base.Cases Base.Oracle Model.FastVerilog Model.FastVerilogText Model.FastVerilogInst Proofs.FastVerilogProofs.
Open Scope string_scope.

Inductive case :=
| CParse (a : ast) (bbs : list bbdef) (fast full : res Circuit)   (* one text read both ways; a = the AST it was rendered from *)
| CSupport (label : string) (ok : bool)
| CSplit (codes : list nat) (pieces : list (list nat))
| CInst (codes : list nat) (groups : option (list nat * list nat * list nat)).   (* re.match of the instance pattern at the start of a string *)           (* Python's [n.strip() for n in s.split(",")] on a string given by its character codes *)                          (* Python-side comparison of a large bundled netlist (support only) *)

(* short constructors for the generated files *)
Notation N := ONet (only parsing).
Notation K := OConst (only parsing).
Definition A (name : string) (ports : list string) (items : list item) := {| a_name := name; a_ports := ports; a_items := items |}.

Definition str_of (codes : list nat) : string := string_of_list_ascii (ascii_of_nat <$> codes).
Definition agree (k : case) : bool :=
  match k with
  | CParse a bbs f l => bool_decide (fast_sem a bbs = f) && bool_decide (full_sem a bbs = l)
  | CSupport _ _ => true
  | CSplit codes pieces => bool_decide (fast_split (str_of codes) = str_of <$> pieces)
  | CInst codes groups => bool_decide (scan_inst (str_of codes) = (λ x : list nat * list nat * list nat, (str_of x.1.1, str_of x.1.2, str_of x.2)) <$> groups)
  end.

(* pin nets of every registered instance, constant drivers by their canonical name *)
Definition pin_row := (string * gset string * gset string)%type.
Definition pin_nets_of (C : Circuit) (p : string * bbdef) : list pin_row :=
  (((λ q : string, (pin p.1 q, (set_map (cname (c_g C)) (fanin (c_g C) (pin p.1 q)) : gset string), (∅ : gset string))) <$> elements (bb_in p.2)) ++
   ((λ q : string, (pin p.1 q, (∅ : gset string), fanout (c_g C) (pin p.1 q))) <$> elements (bb_out p.2)))%list.
Definition pin_nets (C : Circuit) : list pin_row := mbind (M := list) (pin_nets_of C) (map_to_list (c_bbs C)).

(* the property, judged on what the two readers returned *)
Definition holds (k : case) : bool :=
  match k with
  | CParse a bbs f l =>
      if in_subset a bbs then
        match f, l with
        | Ok Cf, Ok Cl =>
            bool_decide (inputs (c_g Cf) = inputs (c_g Cl)) && bool_decide (outputs (c_g Cf) = outputs (c_g Cl)) &&
            bool_decide (c_bbs Cf = c_bbs Cl) && bool_decide (pin_nets Cf = pin_nets Cl) &&
            bool_decide (endpoints (c_g Cf) = endpoints (c_g Cl)) &&
            bool_decide (untie Cf = untie Cl) &&
            tie_shapeb (c_g Cf) && tie_shapeb (c_g Cl) &&         (* => same consistent valuations, any size (C14_untie_same_function) *)
            same_function Cf Cl
        | _, _ => false
        end
      else true                       (* outside the documented subset the property is silent *)
  | CSupport _ ok => ok
  | CSplit _ _ => true
  | CInst _ _ => true
  end.
