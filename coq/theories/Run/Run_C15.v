(* Evaluation entry points for C15 cases. *)
From stdpp Require Import strings gmap sets.
From CG Require Export Base.Cases Base.Oracle Model.Bench Model.BenchSpec Model.BenchScan Model.Lint.
Open Scope string_scope.

Inductive case :=
(* the real reader on a rendering of the line list ls; obs = recorded circuit or exception class *)
| CRead (name text : string) (ls : list bline) (obs : res Circuit)
(* the real writer on C (its text tokenised to wobs, the set orders read off that text), then the real reader on that text *)
| CRound (C : Circuit) (ord : word) (wtext : string) (wobs : res (list bline)) (robs : res Circuit).

Definition mk_ord i o n f k := {| o_in := i; o_out := o; o_nodes := n; o_fi := f; o_const := k |}.

Definition agree (k : case) : bool :=
  match k with
  | CRead name text ls obs =>
      bool_decide (bench_read name ls = obs)
      (* character level: the regex model's scan of the text is the line list (statements by pass), and the reader model run
         on the text itself gives the recorded result *)
      && bool_decide (bench_scan text = by_pass ls) && bool_decide (bench_read_text name text = obs)
      (* the closed form the theorems are stated over is what the mirrored reader computes *)
      && (if wfb ls then bool_decide (bench_read name ls = Ok (bench_closed name ls)) else true)
  | CRound C ord wtext wobs robs =>
      bool_decide (bench_write C ord = wobs)
      && match wobs with
         | Ok ls => bool_decide (bench_read (c_name C) ls = robs)
                    && bool_decide (bench_scan wtext = by_pass ls) && bool_decide (bench_read_text (c_name C) wtext = robs)
         | _ => true end
  end.

(* ---- the property, judged on what the implementation returned ---- *)
(* dependency graph of the gate lines, only to decide that the text is combinationally acyclic *)
Definition dep_graph (ls : list bline) : circuit :=
  list_to_map ((λ p, (p.1.1, mk_node And false (list_to_set p.2))) <$> gate_lines ls).
(* blackbox output pins carry the value of the Q net *)
Definition pin_val (ls : list bline) (a : val) : val :=
  λ n, match list_find (λ q, n = pin (doc_inst q) "Q") (dff_lines ls).*1 with Some (_, q) => a q | None => a n end.

(* Valuations are computed by sweeping (size+1 times over all nodes / all gate lines, values kept in a map) instead of by the
   exponential recursive evaluator; nothing is trusted about the sweep: the result is used only after consistentb /
   sat_benchb has accepted it and it has been checked to take the given values on the free nodes, and a consistent
   valuation of a closed acyclic circuit is determined by its values there (Sem.consistent_unique, Oracle.evalc_unique). *)
Definition of_map (a : val) (m : gmap string bool) : val := λ n, default (a n) (m !! n).
Definition sweep (g : circuit) (a : val) (m : gmap string bool) : gmap string bool :=
  map_imap (λ n i, Some (if is_free i then a n else
                         match n_ty i with C0 => false | C1 => true | t => gate_val t (of_map a m) (n_fi i) end)) g.
(* iterate to the fixed point (reached after depth+1 rounds), at most fuel rounds *)
Fixpoint fix_iter (fuel : nat) (f : gmap string bool → gmap string bool) (m : gmap string bool) : gmap string bool :=
  match fuel with O => m | S k => let m' := f m in if bool_decide (m' = m) then m else fix_iter k f m' end.
Definition fast_eval (g : circuit) (a : val) : val := of_map a (fix_iter (S (size g)) (sweep g a) ∅).
(* all valuations of a name list, the set of ones built once per valuation (same enumeration as Oracle.all_vals) *)
Definition vals (l : list string) : list val :=
  (λ ones, let s : gset string := list_to_set ones in λ n, bool_decide (n ∈ s)) <$> subsets l.
Definition bsweep (ls : list bline) (a : val) (m : gmap string bool) : gmap string bool :=
  foldl (λ acc p, <[p.1.1 := gate_fun p.1.2 (of_map a m <$> p.2)]> acc) ∅ (gate_lines ls).
Definition fast_bench_eval (ls : list bline) (a : val) : val := of_map a (fix_iter (S (length ls)) (bsweep ls a) ∅).

Definition reader_ok (ls : list bline) (C : Circuit) : bool :=
  let g := c_g C in
  bool_decide (inputs g = list_to_set (decl_inputs ls))
  && bool_decide (outputs g = list_to_set (decl_outputs ls))
  && bool_decide (dom (c_bbs C) = list_to_set (doc_inst <$> (dff_lines ls).*1))
  && forallb (λ p, bool_decide (dff_between C p.1 p.2)) (dff_lines ls)
  && bool_decide (free_nodes g = list_to_set (decl_inputs ls ++ ((λ q, pin (doc_inst q) "Q") <$> (dff_lines ls).*1)))
  && closedb g && acyclicb g
  && forallb (λ a, let vb := fast_bench_eval ls a in
                   let a' := pin_val ls a in
                   let vc := fast_eval g a' in
                   consistentb g vc && eq_on (elements (free_nodes g)) vc a'
                   && sat_benchb ls vb && eq_on (free_nets ls) vb a
                   && eq_on (lhs_nets ls) vb vc
                   && forallb (λ p, eqb (vc (pin (doc_inst p.1) "D")) (vb p.2)) (dff_lines ls))
             (vals (free_nets ls)).

Definition names_okb (g : circuit) : bool := forallb ident (elements (dom g)).
Definition round_guard (C : Circuit) : bool :=
  lint_cleanb C && bool_decide (c_bbs C = ∅) && negb (bool_decide (inputs (c_g C) = ∅))
  && bool_decide (of_type (c_g C) (λ t, is_ty CX t || is_ty BbIn t || is_ty BbOut t) = ∅) && names_okb (c_g C) && closedb (c_g C) && acyclicb (c_g C).
Definition round_ok (C C' : Circuit) : bool :=
  let g := c_g C in let g' := c_g C' in
  bool_decide (inputs g' = inputs g) && bool_decide (outputs g' = outputs g)
  && closedb g' && acyclicb g'
  && forallb (λ a, let v := fast_eval g a in let v' := fast_eval g' a in
                   consistentb g v && consistentb g' v' && eq_on (elements (free_nodes g)) v a && eq_on (elements (free_nodes g')) v' a
                   && eq_on (elements (inputs g ∪ outputs g)) v v')
             (vals (elements (inputs g))).

Definition holds (k : case) : bool :=
  match k with
  | CRead _ _ ls obs =>
      if wfb ls && acyclicb (dep_graph ls)
      then match obs with Ok C => reader_ok ls C | _ => false end
      else true                                 (* outside the dialect the property is silent *)
  | CRound C _ _ wobs robs =>
      if round_guard C
      then match wobs, robs with Ok _, Ok C' => round_ok C C' | _, _ => false end
      else true
  end.
