(* Evaluation entry points for C16 cases: remove_unloaded applied twice to a circuit. *)
From stdpp Require Import strings gmap sets.
From CG Require Export Base.Cases Model.RemoveUnloaded Proofs.RemoveUnloadedProofs.
From CG Require Import Model.Queries.
Open Scope string_scope.
Open Scope list_scope.

Inductive case :=
| CRu (C : Circuit) (inp : bool)
      (nodes : list string) (ords : list (string * list string))   (* list(c.graph) and list(c.fanin(n)) recorded before the call *)
      (obs1 obs2 : res (Circuit * list string)).                  (* circuit and returned list after the 1st / 2nd call *)

(* the model reproduces both calls exactly (returned list included: the recorded orders determine it) *)
Definition agree (k : case) : bool :=
  match k with
  | CRu C inp nodes ords obs1 obs2 =>
    bool_decide (remove_unloaded C inp nodes (ord_of ords) = obs1) &&
    match obs1 with
    | Ok (Ca, _) => bool_decide (remove_unloaded Ca inp (filter (λ n, n ∈ dom (c_g Ca)) nodes) (ord_of ords) = obs2)
    | _ => true
    end
  end.

(* the property judged on what the implementation returned: liveness by reachability (live_set_spec), independent of the worklist model;
   is_cyclic decides has_cycle (QueriesProofs.is_cyclic_spec) *)
Definition holds (k : case) : bool :=
  match k with
  | CRu C inp _ _ (Ok (Ca, removed)) (Ok (Cb, removed2)) =>
    let c := c_g C in
    let rs : gset string := list_to_set removed in
    let dr := dead_removable c inp in
    closedb c && bbin_sinksb c &&
    bool_decide (NoDup removed) &&
    bool_decide (rs ⊆ dr) &&                                     (* nothing live, nothing of a kept type *)
    (if negb (is_cyclic c) && sources_undrivenb c then bool_decide (dr ⊆ rs) else true) &&   (* all dead logic *)
    bool_decide (c_g Ca = filter (λ p, p.1 ∉ rs) c) &&                              (* survivors untouched, removed nodes gone *)
    bool_decide (c_name Ca = c_name C ∧ c_bbs Ca = c_bbs C) &&
    bool_decide (Cb = Ca ∧ removed2 = [])                                          (* idempotent *)
  | _ => false
  end.
