(* Evaluation entry points for C17 cases.  Imports the model only, so the oracle still runs when a proof breaks. *)
From stdpp Require Import strings gmap sets.
From CG Require Export Base.Cases Base.Oracle Model.Supergates.
From CG Require Import Model.Lint.
Open Scope string_scope.

Inductive case :=
(* supergates(c): the circuit, the recorded limit_fanin(c, 2) (None: c has no gate above 2 and it is c itself), the result *)
| CList (C : Circuit) (L : option Circuit) (obs : res (list Circuit))
(* supergates(c, construct_supercircuit=True): super-circuit and the blackbox-name -> supergate map *)
| CSuper (C : Circuit) (L : option Circuit) (obs : res (Circuit * list (string * Circuit))).

Definition lim (C : Circuit) (L : option Circuit) : Circuit := default C L.
Definition same_set (a b : list Circuit) : bool :=
  bool_decide (length a = length b) && forallb (λ x, bool_decide (x ∈ b)) a && forallb (λ x, bool_decide (x ∈ a)) b.

(* model output = recorded implementation output (lists as sets: sets of Circuit objects iterate by id) *)
Definition agree (k : case) : bool :=
  match k with
  | CList C L obs =>
      match supergates (c_g (lim C L)), obs with
      | Ok m, Ok r => same_set m r
      | m, r => bool_decide (m = r) end
  | CSuper C L obs =>
      match supercircuit (c_name (lim C L)) (c_g (lim C L)), obs with
      | Ok (SC, m), Ok (SC', m') => bool_decide (SC = SC') && bool_decide ((list_to_map m : gmap string Circuit) = list_to_map m')
                                  && bool_decide (length m = length m')
      | Ok _, _ | _, Ok _ => false
      | m, r => bool_decide (m = r) end
  end.

(* ---- the property, judged on what the implementation returned ---- *)
Definition max_fanin (c : circuit) : nat := map_fold (λ _ i acc, max acc (size (n_fi i))) 0 c.
(* replace every supergate blackbox by its supergate *)
Definition fill_all (SC : Circuit) (m : list (string * Circuit)) : option Circuit :=
  foldl (λ st p, match st with Some C => let r := fill_blackbox C p.1 p.2 in
                                          match r.2 with Done => Some r.1 | _ => None end
                             | None => None end) (Some SC) m.
(* same inputs, same outputs, and for every input valuation both circuits evaluate consistently to the same output values *)
(* `x` constants are free nodes; a supergate keeps its own copy under another name after fill_blackbox, so they are not
   enumerated by name: every input valuation is tried with all `x` nodes at 0 and with all of them at 1 *)
Definition bg (ins : gset string) (b : bool) (a : val) : val := λ n, if bool_decide (n ∈ ins) then a n else b.
Definition equiv_outputs (c f : circuit) : bool :=
  bool_decide (inputs f = inputs c) && bool_decide (outputs f = outputs c) &&
  closedb f && acyclicb f && closedb c && acyclicb c &&
  bool_decide (free_nodes c = inputs c ∪ of_type c (is_ty CX)) && bool_decide (free_nodes f = inputs f ∪ of_type f (is_ty CX)) &&
  forallb (λ a0, forallb (λ b, let a := bg (inputs c) b a0 in
                let vc := evalc c a in let vf := evalc f a in
                consistentb c vc && consistentb f vf && eq_on (elements (outputs c)) vc vf)
             (if bool_decide (of_type c (is_ty CX) = ∅) then [false] else [false; true]))
          (all_vals (elements (inputs c))).
(* every input of a supergate is a primary input or a gate of an earlier supergate *)
Fixpoint produced_ok (Lin earlier : gset string) (sgs : list Circuit) : bool :=
  match sgs with [] => true | s :: r =>
    bool_decide (inputs (c_g s) ⊆ Lin ∪ earlier) && produced_ok Lin (earlier ∪ gates_of s) r end.

(* the recorded circuit is a plausible limit_fanin(c, 2): same interface, no gate above 2, original nodes kept, it is c itself
   when c already respects the bound, and it COMPUTES c: same output values on every input valuation ("sub-circuits of the
   fan-in-limited circuit" is only meaningful if that circuit is equivalent to c) *)
Definition limited_ok (C : Circuit) (L : option Circuit) : bool :=
  wf_limb (c_g (lim C L)) &&      (* hypotheses of C17_model_correct / C17_agreement_transfers, decided on the recorded circuit *)
  match L with
  | None => (max_fanin (c_g C) <=? 2)%nat
  | Some L' => (max_fanin (c_g L') <=? 2)%nat && bool_decide (inputs (c_g L') = inputs (c_g C))
               && bool_decide (outputs (c_g L') = outputs (c_g C)) && bool_decide (dom (c_g C) ⊆ dom (c_g L'))
               && bool_decide (c_name L' = c_name C)
               && ((2 <? max_fanin (c_g C))%nat || bool_decide (c_g L' = c_g C))
               && equiv_outputs (c_g C) (c_g L')
  end.
Definition holds (k : case) : bool :=
  match k with
  | CList C L obs =>
      limited_ok C L &&
      match obs with Ok sgs => check_all (c_g (lim C L)) sgs && produced_ok (inputs (c_g (lim C L))) ∅ sgs | _ => false end
  | CSuper C L obs =>
      limited_ok C L &&
      match obs with
      | Ok (SC, m) =>
          let sgs := m.*2 in let Lg := c_g (lim C L) in
          bool_decide (size (outputs (c_g C)) ≤ 1) &&
          check_shape Lg sgs && check_independent Lg sgs && check_cover Lg sgs &&
          forallb (λ s, bool_decide (inputs (c_g s) ⊆ inputs Lg ∪ ⋃ (gates_of <$> sgs))) sgs &&
          forallb (λ p, bool_decide (Some p.1 = sgn <$> out_of p.2)) m &&
          bool_decide (dom (c_bbs SC) = list_to_set (m.*1)) &&
          match fill_all SC m with Some FC => bool_decide (c_bbs FC = ∅) && lint_cleanb FC && equiv_outputs (c_g C) (c_g FC) | None => false end
      | Raise ValueError => bool_decide (1 < size (outputs (c_g C)))      (* documented: single-output circuits only *)
      | _ => false end
  end.
