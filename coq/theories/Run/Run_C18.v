(* Evaluation entry points for C18 cases (tx.acyclic_unroll; also the C05 clause "acyclic_unroll of an
   already acyclic circuit is equivalent to it": those are the cases with Fs = []). *)
From stdpp Require Import strings gmap sets fin_sets.
From CG Require Export Base.Cases Model.AcyclicUnroll Model.TopoEval.
Open Scope string_scope.

(* C: argument; Fs: feedback node set read back from the result (the names f with an input c0_aux_in_<f> that
   is not an input of C), or, when the call raised, the set chosen on an isomorphic circuit with fresh names;
   obs: what the implementation returned *)
Inductive case := CUnroll (C : Circuit) (Fs : list string) (obs : res Circuit).

(* the property speaks about blackbox-free, lint-clean circuits without self loops whose free nodes are the inputs *)
Definition in_domain (C : Circuit) : bool :=
  bool_decide (c_bbs C = ∅) && negb (has_self_loop (c_g C)) && lint_cleanb C && closedb (c_g C) &&
  bool_decide (free_nodes (c_g C) = inputs (c_g C)).

(* model output = implementation output; inside the guards the closed form must coincide as well
   (this is the per-case decision of `acyclic_unroll_closed_form_full`) *)
Definition agree (k : case) : bool :=
  match k with
  | CUnroll C Fs obs =>
      bool_decide (acyclic_unroll C Fs = obs) &&
      (if in_domain C && names_okb (c_g C) Fs && acyclicb (cut_nodes (c_g C) (list_to_set Fs))
       then bool_decide (obs = Ok {| c_name := "acyc_" ++ c_name C; c_g := unrolled (c_g C) Fs; c_bbs := ∅ |}) else true)
  end.

(* ---- the specification, evaluated on what the implementation returned ---- *)
Definition c0aux (f : string) : string := "c0_aux_in_" ++ f.
(* all valuations of a name list (Oracle.all_vals with the set of ones built once per valuation, not once per lookup) *)
Definition vals (l : list string) : list val :=
  (λ ones, let s : gset string := list_to_set ones in λ n, bool_decide (n ∈ s)) <$> subsets l.
Definition stable_states (c : circuit) : list val := filter (λ v, consistentb c v = true) (vals (elements (dom c))).
(* every stable state v of c: the unrolled circuit A, given v on the inputs and v f on the aux input of f,
   has exactly one consistent valuation and it shows v on every output *)
Definition stable_ok (c A : circuit) (Fs : list string) : bool :=
  let ord := te_order A in
  let outs := elements (outputs c) in
  let fr := elements (free_nodes A) in
  forallb (λ v, let a := override v ((λ f, (c0aux f, v f)) <$> Fs) in
                let w := te_eval ord a in
                consistentb A w && eq_on fr w a && eq_on outs w v) (stable_states c).
Definition structure_ok (c A : circuit) (Fs : list string) : bool :=
  bool_decide (NoDup Fs) && forallb (λ f, bool_decide (f ∈ dom c)) Fs &&
  bool_decide (outputs A = outputs c) &&
  bool_decide (inputs A = inputs c ∪ list_to_set (c0aux <$> Fs)) &&
  bool_decide (size (inputs A) = size (inputs c) + length Fs) &&
  bool_decide (free_nodes A = inputs A) && closedb A.
Definition holds (k : case) : bool :=
  match k with
  | CUnroll C Fs obs =>
      if in_domain C then
        match obs with
        | Ok A => bool_decide (c_bbs A = ∅) && acyclicb (c_g A) && lint_cleanb A && structure_ok (c_g C) (c_g A) Fs &&
                  acyclicb (cut_nodes (c_g C) (list_to_set Fs)) && stable_ok (c_g C) (c_g A) Fs
        | _ => negb (names_okb (c_g C) Fs)        (* only a collision of generated names excuses a rejection *)
        end
      else true
  end.
