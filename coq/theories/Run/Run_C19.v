(* Evaluation entry points for C19 cases. *)
From stdpp Require Import strings gmap sets.
From CG Require Export Base.Cases Model.Store.
From CG Require Import Gen.Gen_effects.
Open Scope string_scope.

(* one call of a listed function on real circuits, as observed by harness/props/c19.py *)
Inductive case :=
| CCall (fn : string)
        (args : list (Circuit * Circuit * Circuit))  (* per argument circuit: snapshot before the call, after the call, after the results were edited *)
        (raised : bool)                             (* the call ended in an exception *)
        (returns_circuit : bool)                    (* at least one Circuit object was found in the returned value *)
        (anomalies : list string)                   (* identity scan: kinds of mutable objects shared between an argument and a result;
                                                       deep-snapshot differences that a Circuit record cannot carry (extra attributes, node order) *)
        (res : list (Circuit * Circuit)).           (* per result circuit: snapshot before / after the arguments were edited *)

(* predictions of the model for every listed function, computed once when this file is compiled *)
Definition pred_tbl : list (string * (bool * bool)) :=
  Eval vm_compute in ((λ s, (s_name s, predict table (s_name s))) <$> table).
Definition predicted (fn : string) : option (bool * bool) := (list_find (λ p, p.1 = fn) pred_tbl) ≫= λ p, Some p.2.2.

Definition ceq (a b : Circuit) : bool := bool_decide (a = b).
Definition obs_mutated (args : list (Circuit * Circuit * Circuit)) (an : list string) : bool :=
  existsb (λ p, negb (ceq p.1.1 p.1.2)) args || existsb (λ s, String.prefix "arg-" s) an.
Definition obs_shared (an : list string) : bool := existsb (λ s, String.prefix "shared-" s) an.

(* the model's prediction for this function (from its regenerated effect summary) equals what was observed;
   sharing can only be observed when the call returned a circuit *)
Definition agree (k : case) : bool :=
  match k with
  | CCall fn args raised rc an res =>
      match predicted fn with
      | None => false
      | Some p => Bool.eqb p.1 (obs_mutated args an) &&
                  (if raised || negb rc then negb (obs_shared an) else Bool.eqb p.2 (obs_shared an))
      end
  end.
(* the property itself: arguments exactly as they were (after the call, on return or raise, and after later edits of the
   results), nothing mutable shared, results unaffected by later edits of the arguments *)
Definition holds (k : case) : bool :=
  match k with
  | CCall fn args raised rc an res =>
      forallb (λ p, ceq p.1.1 p.1.2 && ceq p.1.1 p.2) args && bool_decide (an = []) && forallb (λ p, ceq p.1 p.2) res
  end.
