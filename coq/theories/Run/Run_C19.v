(* Evaluation entry points for C19 cases. *)
From stdpp Require Import strings gmap sets.
From CG Require Export Base.Cases Model.Store.
From CG Require Import Gen.Gen_effects.
Open Scope string_scope.

(* one call of a listed function on real circuits, as observed by harness/props/c19.py *)
Inductive case :=
| CCall (fn : string)
        (args : list (Circuit * Circuit * Circuit))  (* per argument circuit: snapshot before the call, after the call, after the results were edited *)
        (raised : bool)                             (* the call ended in an exception *)
        (returns_circuit : bool)                    (* at least one Circuit object was found in the returned value *)
        (anomalies : list string)                   (* identity scan: kinds of mutable objects shared between an argument and a result;
                                                       deep-snapshot differences that a Circuit record cannot carry (extra attributes, node order) *)
        (res : list (Circuit * Circuit)).           (* per result circuit: snapshot before / after the arguments were edited *)

Definition ceq (a b : Circuit) : bool := bool_decide (a = b).
Definition obs_mutated (args : list (Circuit * Circuit * Circuit)) (an : list string) : bool :=
  existsb (λ p, negb (ceq p.1.1 p.1.2)) args || existsb (λ s, String.prefix "arg-" s) an.
Definition obs_shared (an : list string) : bool := existsb (λ s, String.prefix "shared-" s) an.

(* the model's prediction for this function (from its regenerated effect summary) equals what was observed;
   sharing can only be observed when the call returned a circuit *)
Definition agree (k : case) : bool :=
  match k with
  | CCall fn args raised rc an res =>
      let p := predict table fn in
      bool_decide (is_Some (find_summary table fn)) &&
      Bool.eqb p.1 (obs_mutated args an) &&
      (if raised || negb rc then negb (obs_shared an) else Bool.eqb p.2 (obs_shared an))
  end.
(* the property itself: arguments exactly as they were (after the call, on return or raise, and after later edits of the
   results), nothing mutable shared, results unaffected by later edits of the arguments *)
Definition holds (k : case) : bool :=
  match k with
  | CCall fn args raised rc an res =>
      forallb (λ p, ceq p.1.1 p.1.2 && ceq p.1.1 p.2) args && bool_decide (an = []) && forallb (λ p, ceq p.1 p.2) res
  end.
