(* Evaluation entry points for C20 cases. *)
From stdpp Require Import strings gmap sets.
From CG Require Export Base.Cases Model.Lint Proofs.LintProofs.
Open Scope string_scope.

Inductive case :=
| CLint (C : Circuit) (ff ul ud si : bool) (obs : res unit)      (* lint on an arbitrary attributed graph *)
| CProduced (fn : string) (C : Circuit) (obs : res unit)          (* output of a library function, and what lint said about it *)
| CBoth (a b : case).                                             (* result and argument-after-the-call of one run *)

Definition flags ff ul ud si := {| fail_fast := ff; unloaded := ul; undriven := ud; single_in := si |}.
Fixpoint agree (k : case) : bool :=
  match k with
  | CLint C ff ul ud si obs => bool_decide (lint C (flags ff ul ud si) = obs)
  | CProduced _ C obs => bool_decide (lint C default_flags = obs)
  | CBoth a b => agree a && agree b
  end.
(* the property itself, judged on what the implementation returned *)
Fixpoint holds (k : case) : bool :=
  match k with
  | CLint C ff ul ud si obs => bool_decide (obs = if violatesb C (flags ff ul ud si) then Raise ValueError else Ok ())
  | CProduced _ C obs => bool_decide (obs = Ok ()) && negb (violatesb C default_flags)
  | CBoth a b => holds a && holds b
  end.
