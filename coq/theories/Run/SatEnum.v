(* Enumeration of the models of an indexed clause list by splitting on variables and pruning on falsified clauses
   (the variable to split on is chosen by a unit-clause heuristic, so Tseitin formulas are enumerated without backtracking
   once the startpoints are fixed).  Partial assignments are two bit masks: assigned / value.
   enum_complete: every model agrees with one of the returned leaves, whatever the choice heuristic does. *)
From stdpp Require Import strings list numbers.
Local Open Scope list_scope.

Definition ilit := (bool * N)%type.
Definition icl := list ilit.
Definition lit_false (am vm : N) (l : ilit) : bool := N.testbit am l.2 && negb (eqb (N.testbit vm l.2) l.1).
Definition lit_true (am vm : N) (l : ilit) : bool := N.testbit am l.2 && eqb (N.testbit vm l.2) l.1.
Definition falsified (am vm : N) (cl : icl) : bool := forallb (lit_false am vm) cl.
Definition unit_of (am vm : N) (cl : icl) : option N :=
  if existsb (lit_true am vm) cl then None
  else match filter (λ l : ilit, N.testbit am l.2 = false) cl with [l] => Some l.2 | _ => None end.
Fixpoint first_some {A B} (f : A → option B) (l : list A) : option B :=
  match l with [] => None | x :: r => match f x with Some y => Some y | None => first_some f r end end.
Definition pick (am vm : N) (F : list icl) (ixs : list N) : option N :=
  match first_some (unit_of am vm) F with
  | Some x => Some x
  | None => first_some (λ i, if N.testbit am i then None else Some i) ixs
  end.
Fixpoint enum (fuel : nat) (ixs : list N) (F : list icl) (am vm : N) : list (N * N) :=
  if existsb (falsified am vm) F then [] else
  match fuel with
  | O => [(am, vm)]
  | S f => match pick am vm F ixs with
           | None => [(am, vm)]
           | Some x => enum f ixs F (N.setbit am x) (N.setbit vm x) ++ enum f ixs F (N.setbit am x) (N.clearbit vm x)
           end
  end.

Definition sat_icl (a : N → bool) (cl : icl) : bool := existsb (λ l : ilit, eqb (a l.2) l.1) cl.
Definition agrees_pa (a : N → bool) (am vm : N) : Prop := ∀ i, N.testbit am i = true → N.testbit vm i = a i.

Lemma falsified_unsat a am vm cl : agrees_pa a am vm → falsified am vm cl = true → sat_icl a cl = false.
Proof.
  intros Ha. unfold falsified, sat_icl. induction cl as [|l cl IH]; simpl; [done|].
  rewrite andb_true_iff. intros [Hl Hcl]. rewrite (IH Hcl), orb_false_r.
  unfold lit_false in Hl. apply andb_true_iff in Hl as [H1 H2]. rewrite <- (Ha _ H1).
  destruct (eqb (N.testbit vm l.2) l.1); done.
Qed.

Lemma enum_complete a ixs F fuel : ∀ am vm, agrees_pa a am vm → Forall (λ cl, sat_icl a cl = true) F →
  ∃ p, p ∈ enum fuel ixs F am vm ∧ agrees_pa a p.1 p.2.
Proof.
  induction fuel as [|f IH]; intros am vm Ha HF.
  all: assert (existsb (falsified am vm) F = false) as Hnf.
  1,3: (destruct (existsb (falsified am vm) F) eqn:E; [|done]; exfalso;
        apply existsb_exists in E as (cl & Hin & Hf); rewrite Forall_forall in HF;
        specialize (HF cl Hin); by rewrite (falsified_unsat a am vm cl Ha Hf) in HF).
  - simpl. rewrite Hnf. exists (am, vm). split; [by left|done].
  - simpl. rewrite Hnf. destruct (pick am vm F ixs) as [x|]; [|exists (am, vm); split; [by left|done]].
    destruct (a x) eqn:Ex.
    + destruct (IH (N.setbit am x) (N.setbit vm x)) as (p & Hp & Hag); [|done|exists p; split; [apply elem_of_app; by left|done]].
      intros i Hi. rewrite N.setbit_eqb in Hi. rewrite N.setbit_eqb. destruct (N.eqb_spec x i) as [->|Hne]; simpl in *; [done|]. by apply Ha.
    + destruct (IH (N.setbit am x) (N.clearbit vm x)) as (p & Hp & Hag); [|done|exists p; split; [apply elem_of_app; by right|done]].
      intros i Hi. rewrite N.setbit_eqb in Hi. rewrite N.clearbit_eqb. destruct (N.eqb_spec x i) as [->|Hne]; simpl in *.
      * by rewrite andb_false_r.
      * rewrite andb_true_r. by apply Ha.
Qed.
