(* Executable helpers shared by Run_C01 and Run_C08: enumeration of all consistent valuations of a small circuit
   (with certificates), comparison of clause sets, stand-in solvers for the correspondence check.
   Nothing here is trusted by the theorems; `holds` uses only `consistentb`, `acyclicb`, `sat_cnf` and enumeration. *)
From stdpp Require Import strings gmap sets fin_sets sorting.
From CG Require Export Base.Cases Base.Oracle Model.Lint Model.Sat Run.SatEnum.
Local Open Scope list_scope.

(* table-driven evaluation in rank order (linear per valuation; Sem.eval re-evaluates shared cones).  Nothing is
   trusted about it: every result is re-checked with consistentb *)
Definition rank_le (r : gmap string nat) (p q : string * ninfo) : Prop := rank_of r p.1 ≤ rank_of r q.1.
Global Instance rank_le_dec r p q : Decision (rank_le r p q). Proof. unfold rank_le. apply _. Defined.
Definition topo_order (c : circuit) : list (string * ninfo) := merge_sort (rank_le (rank_table c)) (map_to_list c).
Definition tval (T : gmap string bool) (a : val) : val := λ n, default (a n) (T !! n).
Definition eval_step (a : val) (T : gmap string bool) (p : string * ninfo) : gmap string bool :=
  <[p.1 := if is_free p.2 then a p.1 else
           match n_ty p.2 with C0 => false | C1 => true | t => gate_val t (tval T a) (n_fi p.2) end]> T.
Definition eval_table (order : list (string * ninfo)) (a : val) : gmap string bool := foldl (eval_step a) ∅ order.
Definition fast_eval (order : list (string * ninfo)) (a : val) : val := tval (eval_table order a) a.
Definition free_list (c : circuit) : list string := elements (free_nodes c).

Notation Nd := VN (only parsing).
Notation Xr := VX (only parsing).
Notation Vi := VI (only parsing).

Fixpoint sublists {A} (l : list A) : list (list A) :=
  match l with [] => [[]] | x :: r => let s := sublists r in s ++ map (cons x) s end.
Definition lval (ones : list string) : val := λ n, existsb (String.eqb n) ones.
Definition aval (l : list (string * bool)) : val := λ n, match list_find (λ p, String.eqb p.1 n = true) l with Some (_, p) => p.2 | None => false end.
Definition agreesb (A : list (string * bool)) (v : val) : bool := forallb (λ p, eqb (v p.1) p.2) A.
Definition mk_ord (c : circuit) (l : list (string * list string)) : string → list string :=
  λ n, match list_find (λ p, String.eqb p.1 n = true) l with Some (_, p) => p.2 | None => elements (fanin c n) end.

(* ---- all consistent valuations (up to values outside dom c), or the reason there is no list ---- *)
Inductive vals := Vals (l : list val) | TooBig | CertFail.
Definition small := 10%nat.
Definition all_consistent (c : circuit) : vals :=
  let nodes := elements (dom c) in
  if (length nodes <=? small)%nat then Vals (filter (λ v, consistentb c v = true) (lval <$> sublists nodes))
  else
    let fr := free_list c in
    if acyclicb c && closedb c && (length fr <=? small)%nat then
      let ord := topo_order c in
      let vs := (λ s, (lval s, fast_eval ord (lval s))) <$> sublists fr in
      (* certificate: each table is consistent and keeps the chosen values of the free nodes; by
         Oracle.evalc_unique-style uniqueness these are then all consistent valuations *)
      if forallb (λ p, consistentb c p.2 && eq_on fr p.2 p.1) vs then Vals (snd <$> vs) else CertFail
    else TooBig.

(* ---- clause sets ---- *)
Fixpoint var_eqb (x y : var) : bool :=
  match x, y with
  | VN a, VN b => String.eqb a b
  | VX a b, VX c d => var_eqb a c && var_eqb b d
  | VI a, VI b => String.eqb a b
  | _, _ => false end.
Lemma var_eqb_spec x y : var_eqb x y = true ↔ x = y.
Proof.
  revert y. induction x as [a|a IHa b IHb|a]; intros [c|c d|c]; simpl; try (split; [discriminate|congruence]).
  - rewrite String.eqb_eq. split; congruence.
  - rewrite andb_true_iff, IHa, IHb. split; [intros [-> ->]; done|intros [= -> ->]; done].
  - rewrite String.eqb_eq. split; congruence.
Qed.
Definition lit_in (l : lit) (cl : clause) : bool := existsb (λ m : lit, eqb l.1 m.1 && var_eqb l.2 m.2) cl.
Definition clause_eq (c1 c2 : clause) : bool := forallb (λ l, lit_in l c2) c1 && forallb (λ l, lit_in l c1) c2.
Definition cnf_sub (F G : list clause) : bool := forallb (λ cl, existsb (clause_eq cl) G) F.
Definition cnf_eq (F G : list clause) : bool := cnf_sub F G && cnf_sub G F.
Definition node_vars (c : circuit) : list var := VN <$> elements (dom c).
Fixpoint dedup (l : list var) : list var :=
  match l with [] => [] | x :: r => if existsb (var_eqb x) r then dedup r else x :: dedup r end.
Definition all_vars (c : circuit) (F : list clause) : list var := dedup (node_vars c ++ concat (map (map snd) F)).

(* assignments of an explicit variable list as bit masks *)
Fixpoint index_of (vars : list var) (x : var) : N :=
  match vars with [] => 0%N | y :: r => if var_eqb x y then 0%N else N.succ (index_of r x) end.
Definition cl_ix (vars : list var) (cl : clause) : list (bool * N) := map (λ l : lit, (l.1, index_of vars l.2)) cl.
Definition sat_ix (m : N) (F : list (list (bool * N))) : bool := forallb (existsb (λ l : bool * N, eqb (N.testbit m l.2) l.1)) F.
Definition masks (k : nat) : list N := N.of_nat <$> seq 0 (2 ^ k).
(* an index beyond the list reads as false *)
Definition asg_of (vars : list var) (m : N) : asg := λ x, N.testbit m (index_of vars x).
Definition node_val_of (vars : list var) (nodes : list string) (m : N) : val :=
  lval (filter (λ n, asg_of vars m (VN n) = true) nodes).

(* ---- all models of a recorded clause list (Run/SatEnum.v), as (assigned, value) masks over `vars` ---- *)
Definition ixs_of (vars : list var) : list N := N.of_nat <$> seq 0 (length vars).
Definition models (vars : list var) (F : list clause) : list (N * N) :=
  enum (S (length vars)) (ixs_of vars) (cl_ix vars <$> F) 0%N 0%N.
Definition assigned (vars : list var) (am : N) (xs : list var) : bool := forallb (λ x, N.testbit am (index_of vars x)) xs.

(* ---- the specification of an exact CNF, on a recorded clause list; both directions at every size ---- *)
(* every satisfying assignment is consistent on the nodes: every leaf of the model enumeration assigns all node variables
   and its node valuation is consistent (SatRunProofs.sound_check_spec ties this boolean to the Prop) *)
Definition sound_check (c : circuit) (F : list clause) : bool :=
  let nodes := elements (dom c) in
  let vars := all_vars c F in
  forallb (λ p : N * N, assigned vars p.1 (VN <$> nodes) && consistentb c (node_val_of vars nodes p.2)) (models vars F).
Definition cnf_exact (c : circuit) (F : list clause) : bool :=
  let nodes := elements (dom c) in
  let vars := all_vars c F in
  match all_consistent c with
  | TooBig => false       (* the generator keeps circuits within the enumerable range; fail closed otherwise *)
  | CertFail => false
  | Vals V =>
      let svals := (λ p : N * N, node_val_of vars nodes p.2) <$> filter (λ p : N * N, assigned vars p.1 vars = true) (models vars F) in
      (* every consistent valuation extends to a satisfying assignment (first try: auxiliaries by their definitions) *)
      forallb (λ v, sat_cnf (ext v) F || existsb (λ w, eq_on nodes w v) svals) V
      && sound_check c F
  end.

(* ---- stand-in solvers for the correspondence of solver-relative functions ---- *)
(* the answer the implementation's solver gave, replayed: legal iff it satisfies the model's formula *)
Definition replay_solver (r : list (string * bool)) : solver_t := λ F, let a := ext (aval r) in if sat_cnf a F then Some a else None.
(* complete search over the canonical extensions of all consistent valuations (exact by cnf_sound / cnf_complete) *)
Definition brute_solver (V : list val) : solver_t := λ F, list_find (λ a, sat_cnf a F = true) (ext <$> V) ≫= λ p, Some p.2.

Definition in_domain (C : Circuit) : bool :=
  lint_cleanb C && closedb (c_g C) && bool_decide (of_type (c_g C) (is_ty CX) = ∅).
