(* The soundness half of the C01 oracle is a decision procedure for the specification, not a test:
   sound_check c F = true implies that every satisfying assignment of F is a consistent valuation on the nodes. *)
From stdpp Require Import strings gmap sets fin_sets.
From CG Require Import Run.SatRun Proofs.SatProofs.
Local Open Scope list_scope.

Lemma elem_of_dedup x l : x ∈ dedup l ↔ x ∈ l.
Proof.
  induction l as [|y l IH]; simpl; [done|]. destruct (existsb (var_eqb y) l) eqn:E.
  - rewrite IH, elem_of_cons. split; [auto|]. intros [->|?]; [|done].
    apply existsb_exists in E as (z & Hz & Hyz). apply var_eqb_spec in Hyz as ->. by apply elem_of_list_In.
  - rewrite !elem_of_cons, IH. done.
Qed.
Definition var_at (vars : list var) (i : N) : var := nth (N.to_nat i) vars (VN "").
Lemma var_at_index vars x : x ∈ vars → var_at vars (index_of vars x) = x.
Proof.
  unfold var_at. induction vars as [|y r IH]; [by intros ?%elem_of_nil|]. intros Hx. simpl.
  destruct (var_eqb x y) eqn:E; [by apply var_eqb_spec in E as ->|].
  rewrite N2Nat.inj_succ. simpl. apply IH. apply elem_of_cons in Hx as [->|Hx]; [|done].
  exfalso. assert (var_eqb y y = true) by (by apply var_eqb_spec). congruence.
Qed.
Lemma lval_spec ones n : lval ones n = true ↔ n ∈ ones.
Proof.
  unfold lval. rewrite existsb_exists. split.
  - intros (m & Hm & E). apply String.eqb_eq in E as ->. by apply elem_of_list_In.
  - intros H. exists n. split; [by apply elem_of_list_In|apply String.eqb_refl].
Qed.

Theorem sound_check_spec c F : sound_check c F = true → closed c → ∀ a, sat a F → consistent c (a ∘ VN).
Proof.
  intros Hchk Hcl a Ha. unfold sound_check in Hchk.
  set (vars := all_vars c F) in *. set (nodes := elements (dom c)) in *.
  set (ai := λ i, a (var_at vars i)).
  assert (Hin : ∀ cl (l : lit), cl ∈ F → l ∈ cl → l.2 ∈ vars).
  { intros cl l Hcl' Hl. unfold vars, all_vars. apply elem_of_dedup, elem_of_app. right.
    apply elem_of_list_In, in_concat. exists (map snd cl). split; [apply in_map; by apply elem_of_list_In|].
    change (l.2) with (snd l). apply in_map. by apply elem_of_list_In. }
  assert (HF : Forall (λ cl, sat_icl ai cl = true) (cl_ix vars <$> F)).
  { apply Forall_forall. intros icl (cl & -> & Hcl')%elem_of_list_fmap.
    unfold sat, sat_cnf in Ha. rewrite forallb_forall in Ha. specialize (Ha cl (proj1 (elem_of_list_In _ _) Hcl')).
    unfold sat_clause in Ha. apply existsb_exists in Ha as (l & Hl & Hs). unfold sat_icl, cl_ix.
    apply existsb_exists. exists (l.1, index_of vars l.2). split; [by apply (in_map (λ l : lit, (l.1, index_of vars l.2)))|].
    simpl. unfold ai. rewrite var_at_index; [exact Hs|]. eapply Hin; [done|]. by apply elem_of_list_In. }
  destruct (enum_complete ai (ixs_of vars) (cl_ix vars <$> F) (S (length vars)) 0%N 0%N) as (p & Hp & Hag); [|done|].
  { intros i Hi. by rewrite N.bits_0 in Hi. }
  rewrite forallb_forall in Hchk. specialize (Hchk p (proj1 (elem_of_list_In _ _) Hp)).
  apply andb_true_iff in Hchk as [Hass Hcons]. apply consistentb_spec in Hcons.
  eapply consistent_agree; [done| |exact Hcons].
  intros n Hn. unfold node_val_of.
  assert (Hnn : n ∈ nodes) by (by apply elem_of_elements).
  assert (HV : VN n ∈ vars).
  { unfold vars, all_vars. apply elem_of_dedup, elem_of_app. left. unfold node_vars. by apply elem_of_list_fmap_1. }
  assert (Hbit : asg_of vars p.2 (VN n) = a (VN n)).
  { unfold asg_of. unfold assigned in Hass. rewrite forallb_forall in Hass.
    specialize (Hass (VN n)). rewrite Hag; [unfold ai; by rewrite var_at_index|].
    apply Hass. apply elem_of_list_In. by apply elem_of_list_fmap_1. }
  simpl. rewrite <- Hbit. apply eq_true_iff_eq. rewrite lval_spec, elem_of_list_filter. split; [by intros [? _]|done].
Qed.
