(* Module-level AST of the structural Verilog subset of verilog.lark, over the stratified expression trees of
   ExprParse.v, and its denotation.  Lexing (whitespace, comments, escaped identifiers, keyword vs identifier)
   is not modelled: an AST is what the token stream of a text denotes; the harness renders ASTs to text. *)
From CG Require Export Verilog.ExprParse.
From stdpp Require Import strings gmap sets.
From CG Require Import Types.
Open Scope string_scope.

(* decidable equality of the tree types *)
Global Instance konst_eq_dec : EqDecision konst. Proof. solve_decision. Defined.
Fixpoint prim_eq_dec (x y : prim) : {x = y} + {x ≠ y}
with unary_eq_dec (x y : unary) : {x = y} + {x ≠ y}
with andE_eq_dec (x y : andE) : {x = y} + {x ≠ y}
with xorE_eq_dec (x y : xorE) : {x = y} + {x ≠ y}
with orE_eq_dec (x y : orE) : {x = y} + {x ≠ y}.
Proof.
  all: decide equality; try apply konst_eq_dec; apply (string_eq_dec).
Defined.
Global Instance prim_eqdec : EqDecision prim := prim_eq_dec.
Global Instance unary_eqdec : EqDecision unary := unary_eq_dec.
Global Instance andE_eqdec : EqDecision andE := andE_eq_dec.
Global Instance xorE_eqdec : EqDecision xorE := xorE_eq_dec.
Global Instance orE_eqdec : EqDecision orE := orE_eq_dec.
Global Instance cond_eq_dec : EqDecision cond. Proof. solve_decision. Defined.

(* list_of_module_connections: all positional or all named; `.p()` is a named connection without expression *)
Inductive conns := Positional (ps : list cond) | Named (ps : list (string * option cond)).
Inductive item :=
| IInput (ns : list string)
| IOutput (ns : list string)
| IWire (ns : list string)
| IInst (modname : string) (insts : list (string * conns))     (* primitive gates and blackboxes share one rule *)
| IAssign (asg : list (string * cond)).
Record vmodule := { m_name : string; m_ports : list string; m_items : list item }.
Global Instance conns_eq_dec : EqDecision conns. Proof. solve_decision. Defined.
Global Instance item_eq_dec : EqDecision item. Proof. solve_decision. Defined.
Global Instance vmodule_eq_dec : EqDecision vmodule. Proof. solve_decision. Defined.

(* ---- expressions: value under a valuation of the nets; all occurrences of 1'bx denote the same unknown x ---- *)
Definition sem_konst (x : bool) (k : konst) : bool := match k with K0 => false | K1 => true | KX => x end.
Fixpoint sem_prim (v : string → bool) (x : bool) (p : prim) : bool :=
  match p with PId s => v s | PConst k => sem_konst x k | PParen o => sem_or v x o end
with sem_unary (v : string → bool) (x : bool) (u : unary) : bool :=
  match u with UPrim p => sem_prim v x p | UNot p => negb (sem_prim v x p) end
with sem_and (v : string → bool) (x : bool) (a : andE) : bool :=
  match a with AUn u => sem_unary v x u | AAnd a u => sem_and v x a && sem_unary v x u end
with sem_xor (v : string → bool) (x : bool) (e : xorE) : bool :=
  match e with XAnd a => sem_and v x a | XXor e a => xorb (sem_xor v x e) (sem_and v x a)
  | XXnor e a => negb (xorb (sem_xor v x e) (sem_and v x a)) end
with sem_or (v : string → bool) (x : bool) (o : orE) : bool :=
  match o with OXor e => sem_xor v x e | OOr o e => sem_or v x o || sem_xor v x e end.
Definition sem_cond (v : string → bool) (x : bool) (c : cond) : bool :=
  match c with COr o => sem_or v x o | CTern s a b => if sem_or v x s then sem_or v x a else sem_or v x b end.

(* ---- identifiers of a tree ---- *)
Fixpoint ids_prim (p : prim) : list string :=
  match p with PId s => [s] | PConst _ => [] | PParen o => ids_or o end
with ids_unary (u : unary) : list string := match u with UPrim p => ids_prim p | UNot p => ids_prim p end
with ids_and (a : andE) : list string := match a with AUn u => ids_unary u | AAnd a u => ids_and a ++ ids_unary u end
with ids_xor (e : xorE) : list string :=
  match e with XAnd a => ids_and a | XXor e a => ids_xor e ++ ids_and a | XXnor e a => ids_xor e ++ ids_and a end
with ids_or (o : orE) : list string := match o with OXor e => ids_xor e | OOr o e => ids_or o ++ ids_xor e end.
Definition ids_cond (c : cond) : list string :=
  match c with COr o => ids_or o | CTern s a b => ids_or s ++ ids_or a ++ ids_or b end.

(* ---- constants of a tree ---- *)
Fixpoint ks_prim (p : prim) : list konst :=
  match p with PId _ => [] | PConst k => [k] | PParen o => ks_or o end
with ks_unary (u : unary) : list konst := match u with UPrim p => ks_prim p | UNot p => ks_prim p end
with ks_and (a : andE) : list konst := match a with AUn u => ks_unary u | AAnd a u => ks_and a ++ ks_unary u end
with ks_xor (e : xorE) : list konst :=
  match e with XAnd a => ks_and a | XXor e a => ks_xor e ++ ks_and a | XXnor e a => ks_xor e ++ ks_and a end
with ks_or (o : orE) : list konst := match o with OXor e => ks_xor e | OOr o e => ks_or o ++ ks_xor e end.
Definition ks_cond (c : cond) : list konst :=
  match c with COr o => ks_or o | CTern s a b => ks_or s ++ ks_or a ++ ks_or b end.

Definition cid (s : string) : cond := COr (OXor (XAnd (AUn (UPrim (PId s))))).
Definition as_id (c : cond) : option string :=
  match c with COr (OXor (XAnd (AUn (UPrim (PId s))))) => Some s | _ => None end.

(* ---- primitive gates ---- *)
Definition prim_of_name (s : string) : option gtype :=
  if bool_decide (s = "buf") then Some Buf else if bool_decide (s = "and") then Some And else
  if bool_decide (s = "or") then Some Or else if bool_decide (s = "xor") then Some Xor else
  if bool_decide (s = "not") then Some Not else if bool_decide (s = "nand") then Some Nand else
  if bool_decide (s = "nor") then Some Nor else if bool_decide (s = "xnor") then Some Xnor else None.
(* Verilog meaning of a primitive gate applied to its input terminals *)
Definition prim_sem (t : gtype) (l : list bool) : bool :=
  match t with
  | And => forallb id l | Nand => negb (forallb id l)
  | Or => existsb id l | Nor => negb (existsb id l)
  | Xor => foldr xorb false l | Xnor => negb (foldr xorb false l)
  | Not => negb (foldr xorb false l)
  | _ => foldr xorb false l end.

(* ---- drivers: what the module says about a net ---- *)
Inductive driver := DAssign (e : cond) | DPrim (t : gtype) (ins : list cond).
Definition inst_drivers (modname : string) (ic : string * conns) : list (string * driver) :=
  match prim_of_name modname, ic.2 with
  | Some t, Positional (o :: ins) => match as_id o with Some n => [(n, DPrim t ins)] | None => [] end
  | _, _ => [] end.
Definition item_drivers (it : item) : list (string * driver) :=
  match it with
  | IAssign l => (λ p, (p.1, DAssign p.2)) <$> l
  | IInst mn insts => insts ≫= inst_drivers mn
  | _ => [] end.
Definition drivers (m : vmodule) : list (string * driver) := m_items m ≫= item_drivers.
Definition sem_driver (v : string → bool) (x : bool) (d : driver) : bool :=
  match d with DAssign e => sem_cond v x e | DPrim t ins => prim_sem t (sem_cond v x <$> ins) end.

(* Denotation: v (with the unknown x) satisfies every continuous assignment and every primitive instance.
   Nets attached to blackbox output pins, inputs and undriven nets are unconstrained. *)
Definition sat_module (m : vmodule) (v : string → bool) (x : bool) : Prop :=
  ∀ n d, (n, d) ∈ drivers m → v n = sem_driver v x d.

(* ---- nets that a statement defines: assign targets, output terminals of primitives, nets on blackbox output pins ---- *)
Definition find_def (bbs : list bbdef) (mn : string) : option bbdef := last (filter (λ d, bb_name d = mn) bbs).
Definition inst_defs (bbs : list bbdef) (mn : string) (ic : string * conns) : list string :=
  match prim_of_name mn with
  | Some _ => match ic.2 with Positional (o :: _) => match as_id o with Some n => [n] | None => [] end | _ => [] end
  | None =>
      match find_def bbs mn, ic.2 with
      | Some d, Named ps =>
          ps ≫= (λ pc : string * option cond,
                   if bool_decide (pc.1 ∈ bb_out d) then match pc.2 with Some e => match as_id e with Some w => [w] | None => [] end | None => [] end
                   else [])
      | _, _ => [] end
  end.
Definition item_defs (bbs : list bbdef) (it : item) : list string :=
  match it with IAssign l => l.*1 | IInst mn insts => insts ≫= inst_defs bbs mn | _ => [] end.
Definition module_defs (bbs : list bbdef) (m : vmodule) : list string := m_items m ≫= item_defs bbs.

(* ---- declared interface ---- *)
Definition decl_inputs (m : vmodule) : list string := m_items m ≫= (λ it, match it with IInput l => l | _ => [] end).
Definition decl_outputs (m : vmodule) : list string := m_items m ≫= (λ it, match it with IOutput l => l | _ => [] end).
Definition decl_wires (m : vmodule) : list string := m_items m ≫= (λ it, match it with IWire l => l | _ => [] end).
Definition ports_match (m : vmodule) : bool :=
  bool_decide ((list_to_set (m_ports m) : gset string) = list_to_set (decl_inputs m) ∪ list_to_set (decl_outputs m)).

(* ---- identifiers occurring in a module (all of them are tokens of the source text) ---- *)
Definition conns_ids (c : conns) : list string :=
  match c with Positional ps => ps ≫= ids_cond
  | Named ps => ps ≫= (λ p, p.1 :: match p.2 with Some e => ids_cond e | None => [] end) end.
Definition item_ids (it : item) : list string :=
  match it with
  | IInput l | IOutput l | IWire l => l
  | IInst mn insts => mn :: (insts ≫= (λ ic, ic.1 :: conns_ids ic.2))
  | IAssign l => l ≫= (λ p, p.1 :: ids_cond p.2) end.
Definition module_ids (m : vmodule) : list string := m_name m :: m_ports m ++ (m_items m ≫= item_ids).

(* nets: identifiers in net position (not module, instance or pin names) *)
Definition conns_nets (c : conns) : list string :=
  match c with Positional ps => ps ≫= ids_cond
  | Named ps => ps ≫= (λ p, match p.2 with Some e => ids_cond e | None => [] end) end.
Definition item_nets (it : item) : list string :=
  match it with
  | IInput l | IOutput l | IWire l => l
  | IInst mn insts => insts ≫= (λ ic, conns_nets ic.2)
  | IAssign l => l ≫= (λ p, p.1 :: ids_cond p.2) end.
Definition module_nets (m : vmodule) : list string := m_ports m ++ (m_items m ≫= item_nets).
(* nets that occur in a statement (a wire that is only declared has no node in the circuit) *)
Definition used_nets (m : vmodule) : list string :=
  m_items m ≫= (λ it, match it with IInput l => l | IInst _ _ | IAssign _ => item_nets it | _ => [] end).
