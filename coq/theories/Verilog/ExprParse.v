(* Stratified expression grammar of verilog.lark (condition .. primary), recursive-descent parser, print/parse theorem *)
From Coq Require Import List String Arith Lia Bool.
Import ListNotations.

Inductive konst := K0 | K1 | KX.
Inductive tok := TId (s : string) | TConst (k : konst) | TNot | TAnd | TXor | TXnor | TOr | TLp | TRp | TQ | TColon | TEnd.

Inductive prim := PId (s : string) | PConst (k : konst) | PParen (o : orE)
with unary := UPrim (p : prim) | UNot (p : prim)
with andE := AUn (u : unary) | AAnd (a : andE) (u : unary)
with xorE := XAnd (a : andE) | XXor (x : xorE) (a : andE) | XXnor (x : xorE) (a : andE)
with orE := OXor (x : xorE) | OOr (o : orE) (x : xorE).
Inductive cond := COr (o : orE) | CTern (s a b : orE).

Scheme prim_mut := Induction for prim Sort Prop
with unary_mut := Induction for unary Sort Prop
with andE_mut := Induction for andE Sort Prop
with xorE_mut := Induction for xorE Sort Prop
with orE_mut := Induction for orE Sort Prop.
Combined Scheme expr_mutind from prim_mut, unary_mut, andE_mut, xorE_mut, orE_mut.

Fixpoint pr_prim (p : prim) : list tok :=
  match p with PId s => [TId s] | PConst k => [TConst k] | PParen o => TLp :: pr_or o ++ [TRp] end
with pr_unary (u : unary) : list tok := match u with UPrim p => pr_prim p | UNot p => TNot :: pr_prim p end
with pr_and (a : andE) : list tok := match a with AUn u => pr_unary u | AAnd a u => pr_and a ++ TAnd :: pr_unary u end
with pr_xor (x : xorE) : list tok :=
  match x with XAnd a => pr_and a | XXor x a => pr_xor x ++ TXor :: pr_and a | XXnor x a => pr_xor x ++ TXnor :: pr_and a end
with pr_or (o : orE) : list tok := match o with OXor x => pr_xor x | OOr o x => pr_or o ++ TOr :: pr_xor x end.
Definition pr_cond (c : cond) : list tok :=
  match c with COr o => pr_or o | CTern s a b => pr_or s ++ TQ :: pr_or a ++ TColon :: pr_or b end.

(* ---- parser: one fuel unit per call ---- *)
Definition bind {A B} (x : option A) (f : A -> option B) : option B := match x with Some a => f a | None => None end.
Notation "x <- e ; k" := (bind e (fun x => k)) (at level 100, e at next level, right associativity).

Fixpoint p_prim (f : nat) (ts : list tok) : option (prim * list tok) :=
  match f with O => None | S f =>
    match ts with
    | TId s :: r => Some (PId s, r)
    | TConst k :: r => Some (PConst k, r)
    | TLp :: r => x <- p_or f r ; match snd x with TRp :: r' => Some (PParen (fst x), r') | _ => None end
    | _ => None end end
with p_unary (f : nat) (ts : list tok) : option (unary * list tok) :=
  match f with O => None | S f =>
    match ts with
    | TNot :: r => x <- p_prim f r ; Some (UNot (fst x), snd x)
    | _ => x <- p_prim f ts ; Some (UPrim (fst x), snd x) end end
with and_loop (f : nat) (acc : andE) (ts : list tok) : option (andE * list tok) :=
  match f with O => None | S f =>
    match ts with
    | TAnd :: r => x <- p_unary f r ; and_loop f (AAnd acc (fst x)) (snd x)
    | _ => Some (acc, ts) end end
with p_and (f : nat) (ts : list tok) : option (andE * list tok) :=
  match f with O => None | S f => x <- p_unary f ts ; and_loop f (AUn (fst x)) (snd x) end
with xor_loop (f : nat) (acc : xorE) (ts : list tok) : option (xorE * list tok) :=
  match f with O => None | S f =>
    match ts with
    | TXor :: r => x <- p_and f r ; xor_loop f (XXor acc (fst x)) (snd x)
    | TXnor :: r => x <- p_and f r ; xor_loop f (XXnor acc (fst x)) (snd x)
    | _ => Some (acc, ts) end end
with p_xor (f : nat) (ts : list tok) : option (xorE * list tok) :=
  match f with O => None | S f => x <- p_and f ts ; xor_loop f (XAnd (fst x)) (snd x) end
with or_loop (f : nat) (acc : orE) (ts : list tok) : option (orE * list tok) :=
  match f with O => None | S f =>
    match ts with
    | TOr :: r => x <- p_xor f r ; or_loop f (OOr acc (fst x)) (snd x)
    | _ => Some (acc, ts) end end
with p_or (f : nat) (ts : list tok) : option (orE * list tok) :=
  match f with O => None | S f => x <- p_xor f ts ; or_loop f (OXor (fst x)) (snd x) end.

Definition p_cond (f : nat) (ts : list tok) : option (cond * list tok) :=
  x <- p_or f ts ;
  match snd x with
  | TQ :: r => a <- p_or f r ;
      match snd a with TColon :: r' => b <- p_or f r' ; Some (CTern (fst x) (fst a) (fst b), snd b) | _ => None end
  | r => Some (COr (fst x), r) end.

(* follow conditions: the token after a complete and/xor/or phrase must not continue it *)
Definition hd_is (P : tok -> bool) (ts : list tok) : bool := match ts with t :: _ => P t | [] => false end.
Definition is_and t := match t with TAnd => true | _ => false end.
Definition is_xor t := match t with TXor | TXnor => true | _ => false end.
Definition is_or t := match t with TOr => true | _ => false end.
Definition fol_and ts := negb (hd_is is_and ts).
Definition fol_xor ts := negb (hd_is is_and ts) && negb (hd_is is_xor ts).
Definition fol_or ts := fol_xor ts && negb (hd_is is_or ts).


(* ---- fuel monotonicity ---- *)
Definition mono {A} (p : nat -> list tok -> option A) f := forall ts r, p f ts = Some r -> p (S f) ts = Some r.
Definition monoL {A B} (p : nat -> B -> list tok -> option A) f := forall acc ts r, p f acc ts = Some r -> p (S f) acc ts = Some r.

Lemma bind_some {A B} (x : option A) (k : A -> option B) r : bind x k = Some r -> exists a, x = Some a /\ k a = Some r.
Proof. destruct x; simpl; [eauto|discriminate]. Qed.

Lemma mono_all f :
  mono p_prim f /\ mono p_unary f /\ monoL and_loop f /\ mono p_and f /\ monoL xor_loop f /\ mono p_xor f /\
  monoL or_loop f /\ mono p_or f.
Proof.
  induction f as [|f (Hprim & Hun & Hal & Hand & Hxl & Hxor & Hol & Hor)].
  - unfold mono, monoL; repeat split; intros; simpl in *; discriminate.
  - unfold mono, monoL in *. repeat split.
    + intros ts r H. cbn [p_prim] in *. destruct ts as [|[] ts]; try discriminate; try exact H.
      apply bind_some in H as ([o r'] & H1 & H2). rewrite (Hor _ _ H1). exact H2.
    + intros ts r H. cbn [p_unary] in *. destruct ts as [|t ts].
      * apply bind_some in H as (x & H1 & H2). rewrite (Hprim _ _ H1). exact H2.
      * destruct t; apply bind_some in H as (x & H1 & H2); rewrite (Hprim _ _ H1); exact H2.
    + intros acc ts r H. cbn [and_loop] in *. destruct ts as [|[] ts]; try exact H.
      apply bind_some in H as (x & H1 & H2). rewrite (Hun _ _ H1). simpl. apply Hal. exact H2.
    + intros ts r H. cbn [p_and] in *. apply bind_some in H as (x & H1 & H2). rewrite (Hun _ _ H1). simpl. apply Hal. exact H2.
    + intros acc ts r H. cbn [xor_loop] in *. destruct ts as [|[] ts]; try exact H;
      apply bind_some in H as (x & H1 & H2); rewrite (Hand _ _ H1); simpl; apply Hxl; exact H2.
    + intros ts r H. cbn [p_xor] in *. apply bind_some in H as (x & H1 & H2). rewrite (Hand _ _ H1). simpl. apply Hxl. exact H2.
    + intros acc ts r H. cbn [or_loop] in *. destruct ts as [|[] ts]; try exact H.
      apply bind_some in H as (x & H1 & H2). rewrite (Hxor _ _ H1). simpl. apply Hol. exact H2.
    + intros ts r H. cbn [p_or] in *. apply bind_some in H as (x & H1 & H2). rewrite (Hxor _ _ H1). simpl. apply Hol. exact H2.
Qed.

Lemma mono_le {A} (p : nat -> list tok -> option A) : (forall f, mono p f) -> forall f f' ts r, f <= f' -> p f ts = Some r -> p f' ts = Some r.
Proof. intros Hm f f' ts r Hle H. induction Hle; [exact H|]. apply Hm. exact IHHle. Qed.
Lemma monoL_le {A B} (p : nat -> B -> list tok -> option A) : (forall f, monoL p f) -> forall f f' acc ts r, f <= f' -> p f acc ts = Some r -> p f' acc ts = Some r.
Proof. intros Hm f f' acc ts r Hle H. induction Hle; [exact H|]. apply Hm. exact IHHle. Qed.

Lemma mono_prim f f' ts r : f <= f' -> p_prim f ts = Some r -> p_prim f' ts = Some r.
Proof. apply mono_le. intros k. apply (mono_all k). Qed.
Lemma mono_unary f f' ts r : f <= f' -> p_unary f ts = Some r -> p_unary f' ts = Some r.
Proof. apply mono_le. intros k. apply (mono_all k). Qed.
Lemma mono_and_loop f f' acc ts r : f <= f' -> and_loop f acc ts = Some r -> and_loop f' acc ts = Some r.
Proof. apply monoL_le. intros k. apply (mono_all k). Qed.
Lemma mono_and f f' ts r : f <= f' -> p_and f ts = Some r -> p_and f' ts = Some r.
Proof. apply mono_le. intros k. apply (mono_all k). Qed.
Lemma mono_xor_loop f f' acc ts r : f <= f' -> xor_loop f acc ts = Some r -> xor_loop f' acc ts = Some r.
Proof. apply monoL_le. intros k. apply (mono_all k). Qed.
Lemma mono_xor f f' ts r : f <= f' -> p_xor f ts = Some r -> p_xor f' ts = Some r.
Proof. apply mono_le. intros k. apply (mono_all k). Qed.
Lemma mono_or_loop f f' acc ts r : f <= f' -> or_loop f acc ts = Some r -> or_loop f' acc ts = Some r.
Proof. apply monoL_le. intros k. apply (mono_all k). Qed.
Lemma mono_or f f' ts r : f <= f' -> p_or f ts = Some r -> p_or f' ts = Some r.
Proof. apply mono_le. intros k. apply (mono_all k). Qed.

(* ---- operand-list views of the left-nested levels ---- *)
Fixpoint and_ops (a : andE) : unary * list unary :=
  match a with AUn u => (u, []) | AAnd a u => (fst (and_ops a), snd (and_ops a) ++ [u]) end.
Fixpoint xor_ops (x : xorE) : andE * list (bool * andE) :=
  match x with XAnd a => (a, []) | XXor x a => (fst (xor_ops x), snd (xor_ops x) ++ [(false, a)])
  | XXnor x a => (fst (xor_ops x), snd (xor_ops x) ++ [(true, a)]) end.
Fixpoint or_ops (o : orE) : xorE * list xorE :=
  match o with OXor x => (x, []) | OOr o x => (fst (or_ops o), snd (or_ops o) ++ [x]) end.
Definition xstep (acc : xorE) (p : bool * andE) := if fst p then XXnor acc (snd p) else XXor acc (snd p).
Definition xtok (b : bool) := if b then TXnor else TXor.

Lemma and_view a : pr_and a = pr_unary (fst (and_ops a)) ++ flat_map (fun u => TAnd :: pr_unary u) (snd (and_ops a))
                   /\ a = fold_left AAnd (snd (and_ops a)) (AUn (fst (and_ops a))).
Proof.
  induction a as [u|a [IH1 IH2] u]; simpl; [rewrite app_nil_r; auto|].
  split.
  - rewrite IH1 at 1. rewrite flat_map_app, <- app_assoc. simpl. rewrite app_nil_r. reflexivity.
  - rewrite fold_left_app. simpl. rewrite <- IH2. reflexivity.
Qed.
Lemma xor_view x : pr_xor x = pr_and (fst (xor_ops x)) ++ flat_map (fun p => xtok (fst p) :: pr_and (snd p)) (snd (xor_ops x))
                   /\ x = fold_left xstep (snd (xor_ops x)) (XAnd (fst (xor_ops x))).
Proof.
  induction x as [a|x [IH1 IH2] a|x [IH1 IH2] a]; simpl; [rewrite app_nil_r; auto| |];
  (split; [rewrite IH1 at 1; rewrite flat_map_app, <- app_assoc; simpl; rewrite app_nil_r; reflexivity
          | rewrite fold_left_app; simpl; unfold xstep at 1; simpl; rewrite <- IH2; reflexivity]).
Qed.
Lemma or_view o : pr_or o = pr_xor (fst (or_ops o)) ++ flat_map (fun x => TOr :: pr_xor x) (snd (or_ops o))
                  /\ o = fold_left OOr (snd (or_ops o)) (OXor (fst (or_ops o))).
Proof.
  induction o as [x|o [IH1 IH2] x]; simpl; [rewrite app_nil_r; auto|].
  split.
  - rewrite IH1 at 1. rewrite flat_map_app, <- app_assoc. simpl. rewrite app_nil_r. reflexivity.
  - rewrite fold_left_app. simpl. rewrite <- IH2. reflexivity.
Qed.

(* ---- correctness predicates ---- *)
Definition ok_prim p := forall rest, exists F, p_prim F (pr_prim p ++ rest) = Some (p, rest).
Definition ok_unary u := forall rest, exists F, p_unary F (pr_unary u ++ rest) = Some (u, rest).
Definition ok_and a := forall rest, fol_and rest = true -> exists F, p_and F (pr_and a ++ rest) = Some (a, rest).
Definition ok_xor x := forall rest, fol_xor rest = true -> exists F, p_xor F (pr_xor x ++ rest) = Some (x, rest).
Definition ok_or o := forall rest, fol_or rest = true -> exists F, p_or F (pr_or o ++ rest) = Some (o, rest).

Lemma and_loop_ok us : Forall ok_unary us -> forall acc rest, fol_and rest = true ->
  exists F, and_loop F acc (flat_map (fun u => TAnd :: pr_unary u) us ++ rest) = Some (fold_left AAnd us acc, rest).
Proof.
  induction 1 as [|u us Hu _ IH]; intros acc rest Hf; simpl.
  - exists 1. simpl. destruct rest as [|[] rest]; try reflexivity. discriminate Hf.
  - rewrite <- app_assoc. destruct (Hu (flat_map (fun u => TAnd :: pr_unary u) us ++ rest)) as [F1 H1].
    destruct (IH (AAnd acc u) rest Hf) as [F2 H2].
    exists (S (max F1 F2)). cbn [and_loop].
    rewrite (mono_unary F1 (max F1 F2) _ _ (Nat.le_max_l _ _) H1). simpl.
    apply (mono_and_loop F2); [apply Nat.le_max_r|exact H2].
Qed.
Lemma and_from_ops a : ok_unary (fst (and_ops a)) -> Forall ok_unary (snd (and_ops a)) -> ok_and a.
Proof.
  intros H0 Hs rest Hf. destruct (and_view a) as [Hp Ha].
  rewrite Hp, <- app_assoc.
  destruct (H0 (flat_map (fun u => TAnd :: pr_unary u) (snd (and_ops a)) ++ rest)) as [F1 H1].
  destruct (and_loop_ok _ Hs (AUn (fst (and_ops a))) rest Hf) as [F2 H2].
  exists (S (max F1 F2)). cbn [p_and].
  rewrite (mono_unary F1 (max F1 F2) _ _ (Nat.le_max_l _ _) H1). simpl.
  rewrite <- Ha in H2. apply (mono_and_loop F2); [apply Nat.le_max_r|exact H2].
Qed.

Lemma fol_xor_and ts : fol_xor ts = true -> fol_and ts = true.
Proof. unfold fol_xor. intros H. apply andb_true_iff in H. tauto. Qed.
Lemma fol_or_xor ts : fol_or ts = true -> fol_xor ts = true.
Proof. unfold fol_or. intros H. apply andb_true_iff in H. tauto. Qed.

Lemma xor_loop_ok ps : Forall (fun p => ok_and (snd p)) ps -> forall acc rest, fol_xor rest = true ->
  exists F, xor_loop F acc (flat_map (fun p => xtok (fst p) :: pr_and (snd p)) ps ++ rest) = Some (fold_left xstep ps acc, rest).
Proof.
  induction 1 as [|[b a] ps Ha _ IH]; intros acc rest Hf; simpl.
  - exists 1. simpl. destruct rest as [|[] rest]; try reflexivity; unfold fol_xor in Hf; simpl in Hf; discriminate Hf.
  - rewrite <- app_assoc. simpl in Ha.
    assert (Hnext : fol_and (flat_map (fun p => xtok (fst p) :: pr_and (snd p)) ps ++ rest) = true).
    { destruct ps as [|[b' a'] ps']; simpl; [apply fol_xor_and, Hf|destruct b'; reflexivity]. }
    destruct (Ha _ Hnext) as [F1 H1].
    destruct (IH (xstep acc (b, a)) rest Hf) as [F2 H2].
    exists (S (max F1 F2)). destruct b; cbn [xor_loop xtok];
    rewrite (mono_and F1 (max F1 F2) _ _ (Nat.le_max_l _ _) H1); simpl;
    (apply (mono_xor_loop F2); [apply Nat.le_max_r|exact H2]).
Qed.
Lemma xor_from_ops x : ok_and (fst (xor_ops x)) -> Forall (fun p => ok_and (snd p)) (snd (xor_ops x)) -> ok_xor x.
Proof.
  intros H0 Hs rest Hf. destruct (xor_view x) as [Hp Hx].
  rewrite Hp, <- app_assoc.
  assert (Hnext : fol_and (flat_map (fun p => xtok (fst p) :: pr_and (snd p)) (snd (xor_ops x)) ++ rest) = true).
  { destruct (snd (xor_ops x)) as [|[b' a'] ps']; simpl; [apply fol_xor_and, Hf|destruct b'; reflexivity]. }
  destruct (H0 _ Hnext) as [F1 H1].
  destruct (xor_loop_ok _ Hs (XAnd (fst (xor_ops x))) rest Hf) as [F2 H2].
  exists (S (max F1 F2)). cbn [p_xor].
  rewrite (mono_and F1 (max F1 F2) _ _ (Nat.le_max_l _ _) H1). simpl.
  rewrite <- Hx in H2. apply (mono_xor_loop F2); [apply Nat.le_max_r|exact H2].
Qed.

Lemma or_loop_ok xs : Forall ok_xor xs -> forall acc rest, fol_or rest = true ->
  exists F, or_loop F acc (flat_map (fun x => TOr :: pr_xor x) xs ++ rest) = Some (fold_left OOr xs acc, rest).
Proof.
  induction 1 as [|x xs Hx _ IH]; intros acc rest Hf; simpl.
  - exists 1. simpl. destruct rest as [|[] rest]; try reflexivity.
    unfold fol_or, fol_xor in Hf. simpl in Hf. discriminate Hf.
  - rewrite <- app_assoc.
    assert (Hnext : fol_xor (flat_map (fun x => TOr :: pr_xor x) xs ++ rest) = true).
    { destruct xs as [|x' xs']; simpl; [apply fol_or_xor, Hf|reflexivity]. }
    destruct (Hx _ Hnext) as [F1 H1].
    destruct (IH (OOr acc x) rest Hf) as [F2 H2].
    exists (S (max F1 F2)). cbn [or_loop].
    rewrite (mono_xor F1 (max F1 F2) _ _ (Nat.le_max_l _ _) H1). simpl.
    apply (mono_or_loop F2); [apply Nat.le_max_r|exact H2].
Qed.
Lemma or_from_ops o : ok_xor (fst (or_ops o)) -> Forall ok_xor (snd (or_ops o)) -> ok_or o.
Proof.
  intros H0 Hs rest Hf. destruct (or_view o) as [Hp Ho].
  rewrite Hp, <- app_assoc.
  assert (Hnext : fol_xor (flat_map (fun x => TOr :: pr_xor x) (snd (or_ops o)) ++ rest) = true).
  { destruct (snd (or_ops o)) as [|x' xs']; simpl; [apply fol_or_xor, Hf|reflexivity]. }
  destruct (H0 _ Hnext) as [F1 H1].
  destruct (or_loop_ok _ Hs (OXor (fst (or_ops o))) rest Hf) as [F2 H2].
  exists (S (max F1 F2)). cbn [p_or].
  rewrite (mono_xor F1 (max F1 F2) _ _ (Nat.le_max_l _ _) H1). simpl.
  rewrite <- Ho in H2. apply (mono_or_loop F2); [apply Nat.le_max_r|exact H2].
Qed.

(* ---- main mutual induction ---- *)
Theorem parse_print_all :
  (forall p, ok_prim p) /\ (forall u, ok_unary u) /\
  (forall a, ok_unary (fst (and_ops a)) /\ Forall ok_unary (snd (and_ops a))) /\
  (forall x, ok_and (fst (xor_ops x)) /\ Forall (fun p => ok_and (snd p)) (snd (xor_ops x))) /\
  (forall o, ok_xor (fst (or_ops o)) /\ Forall ok_xor (snd (or_ops o))).
Proof.
  apply expr_mutind.
  - intros s rest. exists 1. reflexivity.
  - intros k rest. exists 1. reflexivity.
  - intros o [H0 Hs] rest. pose proof (or_from_ops o H0 Hs) as Ho.
    destruct (Ho (TRp :: rest) eq_refl) as [F HF].
    exists (S F). cbn [pr_prim p_prim]. simpl. rewrite <- app_assoc. simpl. rewrite HF. reflexivity.
  - intros p Hp rest. destruct (Hp rest) as [F HF]. exists (S F). cbn [p_unary pr_unary].
    destruct (pr_prim p ++ rest) as [|t ts] eqn:E.
    + rewrite HF. reflexivity.
    + destruct t; try (rewrite HF; reflexivity).
      destruct p; discriminate E.
  - intros p Hp rest. destruct (Hp rest) as [F HF]. exists (S F). cbn [p_unary pr_unary]. simpl. rewrite HF. reflexivity.
  - intros u Hu. simpl. split; [exact Hu|constructor].
  - intros a [H0 Hs] u Hu. simpl. split; [exact H0|]. apply Forall_app. split; [exact Hs|repeat constructor; exact Hu].
  - intros a [H0 Hs]. simpl. split; [apply and_from_ops; assumption|constructor].
  - intros x [H0 Hs] a [Ha0 Has]. simpl. split; [exact H0|]. apply Forall_app. split; [exact Hs|].
    repeat constructor. simpl. apply and_from_ops; assumption.
  - intros x [H0 Hs] a [Ha0 Has]. simpl. split; [exact H0|]. apply Forall_app. split; [exact Hs|].
    repeat constructor. simpl. apply and_from_ops; assumption.
  - intros x [H0 Hs]. simpl. split; [apply xor_from_ops; assumption|constructor].
  - intros o [H0 Hs] x [Hx0 Hxs]. simpl. split; [exact H0|]. apply Forall_app. split; [exact Hs|].
    repeat constructor. apply xor_from_ops; assumption.
Qed.

Corollary parse_print_or o rest : fol_or rest = true -> exists F, p_or F (pr_or o ++ rest) = Some (o, rest).
Proof. destruct parse_print_all as (_ & _ & _ & _ & H). destruct (H o). apply or_from_ops; assumption. Qed.

Definition fol_cond ts := fol_or ts && negb (hd_is (fun t => match t with TQ => true | _ => false end) ts).
Theorem parse_print_cond c rest : fol_cond rest = true -> exists F, p_cond F (pr_cond c ++ rest) = Some (c, rest).
Proof.
  intros Hf. unfold fol_cond in Hf. apply andb_true_iff in Hf as [Hf Hq].
  destruct c as [o|s a b]; simpl.
  - destruct (parse_print_or o rest Hf) as [F HF]. exists F. unfold p_cond. rewrite HF. simpl.
    destruct rest as [|[] rest]; try reflexivity. discriminate Hq.
  - rewrite <- app_assoc. simpl. rewrite <- app_assoc. simpl.
    destruct (parse_print_or s (TQ :: pr_or a ++ TColon :: pr_or b ++ rest) eq_refl) as [F1 H1].
    destruct (parse_print_or a (TColon :: pr_or b ++ rest) eq_refl) as [F2 H2].
    destruct (parse_print_or b rest Hf) as [F3 H3].
    exists (max F1 (max F2 F3)). unfold p_cond.
    rewrite (mono_or F1 _ _ _ (Nat.le_max_l _ _) H1). simpl.
    rewrite (mono_or F2 _ _ _ (Nat.le_trans _ _ _ (Nat.le_max_l _ _) (Nat.le_max_r _ _)) H2). simpl.
    rewrite (mono_or F3 _ _ _ (Nat.le_trans _ _ _ (Nat.le_max_r _ _) (Nat.le_max_r _ _)) H3). reflexivity.
Qed.
