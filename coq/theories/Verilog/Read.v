(* Model of circuitgraph/parsing/verilog.py (_VerilogCircuitGraphTransformer) at AST level, in Lark's bottom-up
   callback order: the port list, then the module items in textual order; inside an item every expression is
   materialised post-order, left to right (this fixes the uid suffixes); `module_instantiation` runs after the
   expressions of all its instances; `module` runs last.  Definitions only. *)
From CG Require Export Verilog.Ast.
From stdpp Require Import strings gmap sets pretty.
From CG Require Import Types Api.
Open Scope string_scope.

(* reader context: identifier-like tokens of the source text, the three constant nodes, the known blackboxes *)
Record rctx := { k_rsv : gset string; k_t0 : string; k_t1 : string; k_tx : string; k_bbs : list bbdef }.
(* reader state: the circuit being built and the transformer's sets *)
Record rstate := { r_g : circuit; r_bbs : gmap string bbdef; r_ge : gset string;
                   r_io : gset string; r_ins : gset string; r_outs : gset string }.
Definition st_g (st : rstate) (g : circuit) :=
  {| r_g := g; r_bbs := r_bbs st; r_ge := r_ge st; r_io := r_io st; r_ins := r_ins st; r_outs := r_outs st |}.
Definition st_ge (st : rstate) (ge : gset string) :=
  {| r_g := r_g st; r_bbs := r_bbs st; r_ge := ge; r_io := r_io st; r_ins := r_ins st; r_outs := r_outs st |}.

Definition lift (r : circuit * outcome * string) : res (circuit * string) :=
  match r with (g, Done, n) => Ok (g, n) | (_, Fail e, _) => Raise e end.
Definition rd_flags := {| af_out := false; af_conn := true; af_redef := true; af_uid := false |}.
(* add_node(n, type, fanin, uid): Circuit.add with add_connected_nodes and allow_redefinition; the unique name is
   chosen against the graph and the reserved identifiers *)
Definition add_node (rsv : gset string) (g : circuit) (n : string) (t : gtype) (fi : list string) (use_uid : bool)
  : res (circuit * string) :=
  let n' := if use_uid then uid_in (dom g ∪ rsv) n else n in
  lift (add_g g n' t fi [] rd_flags).

Definition join_ (l : list string) : string :=
  match l with [] => "" | x :: r => foldl (λ acc y, acc ++ "_" ++ y) x r end.

(* a gate callback: node <prefix>_<operands joined by _>, made unique, remembered in gate_expressions *)
#[export] Instance res_mbind : MBind res := λ A B f x, rbind x f.

Definition gate (k : rctx) (st : circuit * gset string) (prefix : string) (t : gtype) (items fi : list string) (remember : bool)
  : res (circuit * gset string * string) :=
  r ← add_node (k_rsv k) st.1 (prefix ++ "_" ++ join_ items) t fi true;
  Ok (r.1, if remember then {[r.2]} ∪ st.2 else st.2, r.2).

Definition konst_node (k : rctx) (c : konst) : string := match c with K0 => k_t0 k | K1 => k_t1 k | KX => k_tx k end.

Fixpoint c_prim (k : rctx) (st : circuit * gset string) (p : prim) : res (circuit * gset string * string) :=
  match p with
  | PId s => Ok (st, s)
  | PConst c => Ok (st, konst_node k c)
  | PParen o => c_or k st o end
with c_unary (k : rctx) (st : circuit * gset string) (u : unary) : res (circuit * gset string * string) :=
  match u with
  | UPrim p => c_prim k st p
  | UNot p => rbind (c_prim k st p) (λ r, gate k r.1 "not" Not [r.2] [r.2] true) end
with c_and (k : rctx) (st : circuit * gset string) (a : andE) : res (circuit * gset string * string) :=
  match a with
  | AUn u => c_unary k st u
  | AAnd a u => rbind (c_and k st a) (λ ra, rbind (c_unary k ra.1 u) (λ ru,
                  gate k ru.1 "and" And [ra.2; ru.2] [ra.2; ru.2] true)) end
with c_xor (k : rctx) (st : circuit * gset string) (e : xorE) : res (circuit * gset string * string) :=
  match e with
  | XAnd a => c_and k st a
  | XXor e a => rbind (c_xor k st e) (λ re, rbind (c_and k re.1 a) (λ ra,
                  if bool_decide (re.2 = ra.2) then Ok (ra.1, k_t0 k)      (* equal operands cancel *)
                  else gate k ra.1 "xor" Xor [re.2; ra.2] [re.2; ra.2] true))
  | XXnor e a => rbind (c_xor k st e) (λ re, rbind (c_and k re.1 a) (λ ra,
                  if bool_decide (re.2 = ra.2) then Ok (ra.1, k_t1 k)
                  else gate k ra.1 "xnor" Xnor [re.2; ra.2] [re.2; ra.2] true)) end
with c_or (k : rctx) (st : circuit * gset string) (o : orE) : res (circuit * gset string * string) :=
  match o with
  | OXor e => c_xor k st e
  | OOr o e => rbind (c_or k st o) (λ ro, rbind (c_xor k ro.1 e) (λ re,
                  gate k re.1 "or" Or [ro.2; re.2] [ro.2; re.2] true)) end.
Definition c_cond (k : rctx) (st : circuit * gset string) (c : cond) : res (circuit * gset string * string) :=
  match c with
  | COr o => c_or k st o
  | CTern s a b =>
      rs ← c_or k st s; ra ← c_or k rs.1 a; rb ← c_or k ra.1 b;
      let items := [rs.2; ra.2; rb.2] in
      n ← gate k rb.1 "mux_n" Not items [rs.2] false;
      a0 ← gate k n.1 "mux_a0" And items [n.2; rb.2] false;
      a1 ← gate k a0.1 "mux_a1" And items [rs.2; ra.2] false;
      gate k a1.1 "mux_o" Or items [a0.2; a1.2] true
  end.

(* networkx relabel_nodes(G, {old: new}, copy=False): `new` receives the attributes of `old`, keeps the edges it
   already has, and inherits the edges of `old` (an edge from/to `old` itself becomes a self loop) *)
Definition relabel_g (c : circuit) (old new : string) : circuit :=
  match c !! old with
  | None => c
  | Some io =>
      if bool_decide (old = new) then c else
      let sub := λ s : gset string, if bool_decide (old ∈ s) then {[new]} ∪ s ∖ {[old]} else s in
      let c2 := upd_fi sub <$> delete old c in
      <[new := {| n_ty := n_ty io; n_out := n_out io; n_fi := sub (n_fi io) ∪ fanin c2 new |}]> c2
  end.

(* assignment(lvalue, expression) *)
Definition assignment (k : rctx) (st : circuit * gset string) (lv e : string) : res (circuit * gset string) :=
  if bool_decide (lv ∈ [k_t0 k; k_t1 k; k_tx k]) then Ok st else
  if bool_decide (e ∈ st.2) then Ok (relabel_g st.1 e lv, st.2 ∖ {[e]})
  else r ← add_node (k_rsv k) st.1 lv Buf [e] false; Ok (r.1, st.2).

Definition c_assign (k : rctx) (st : circuit * gset string) (a : string * cond) : res (circuit * gset string) :=
  r ← c_cond k st a.2; assignment k r.1 a.1 r.2.

(* sequential fold in the error monad *)
Fixpoint rfold {A B} (f : A → B → res A) (a : A) (l : list B) : res A :=
  match l with [] => Ok a | b :: r => rbind (f a b) (λ a', rfold f a' r) end.
(* map with state *)
Fixpoint rmapS {S A B} (f : S → A → res (S * B)) (s : S) (l : list A) : res (S * list B) :=
  match l with [] => Ok (s, []) | a :: r => rbind (f s a) (λ x, rbind (rmapS f x.1 r) (λ y, Ok (y.1, x.2 :: y.2))) end.

(* compiled connections of one instance *)
Inductive cconns := CPos (ps : list string) | CNamed (d : list (string * string)).
(* dict.update: an existing key keeps its position and takes the new value *)
Fixpoint dict_set (d : list (string * string)) (key v : string) : list (string * string) :=
  match d with [] => [(key, v)] | (k', v') :: r => if bool_decide (k' = key) then (key, v) :: r else (k', v') :: dict_set r key v end.
Definition dict_get (d : list (string * string)) (key : string) : option string :=
  (λ x : nat * (string * string), x.2.2) <$> list_find (λ p : string * string, p.1 = key) d.

Definition c_conns (k : rctx) (st : circuit * gset string) (c : conns) : res (circuit * gset string * cconns) :=
  match c with
  | Positional ps => r ← rmapS (c_cond k) st ps; Ok (r.1, CPos r.2)
  | Named ps =>
      r ← rmapS (λ s (p : string * option cond), match p.2 with
                        | None => Ok (s, None)
                        | Some e => x ← c_cond k s e; Ok (x.1, Some (p.1, x.2)) end) st ps;
      Ok (r.1, CNamed (foldl (λ d o, match o with Some kv => dict_set d kv.1 kv.2 | None => d end) [] r.2))
  end.

(* pairs of equal operands of a parity gate cancel; operands kept in first-occurrence order *)
Fixpoint dedup_first (l : list string) : list string :=
  match l with [] => [] | x :: r => x :: filter (λ y, y ≠ x) (dedup_first r) end.
Definition count_occ_s (l : list string) (x : string) : nat := length (filter (λ y, y = x) l).
Definition parity_ops (l : list string) : list string := filter (λ f, Nat.odd (count_occ_s l f) = true) (dedup_first l).

Definition prim_instance (k : rctx) (t : gtype) (g : circuit) (ic : string * cconns) : res circuit :=
  match ic.2 with
  | CNamed _ => Raise OtherError                       (* VerilogParsingError *)
  | CPos [] => Raise IndexError
  | CPos (o :: ins) =>
      let '(t', fi) :=
        if bool_decide (t = Xor) || bool_decide (t = Xnor) then
          match parity_ops ins with
          | [] => (Buf, [if bool_decide (t = Xor) then k_t0 k else k_t1 k])
          | fi => (t, fi) end
        else (t, ins) in
      r ← add_node (k_rsv k) g o t' fi false; Ok r.1
  end.

Definition bb_instance (k : rctx) (d : bbdef) (C : circuit * gmap string bbdef) (ic : string * cconns)
  : res (circuit * gmap string bbdef) :=
  match ic.2 with
  | CPos _ => Raise OtherError
  | CNamed conns =>
      (* nets on output pins become buffers first *)
      g1 ← rfold (λ g (o : string), match dict_get conns o with
                                    | Some net => r ← add_node (k_rsv k) g net Buf [] false; Ok r.1
                                    | None => Ok g end) C.1 (elements (bb_out d));
      (* transformer.add_blackbox: nets that do not exist yet are added as buffers *)
      g2 ← rfold (λ g (kv : string * string), if bool_decide (kv.2 ∈ dom g) then Ok g else
                    match add_g g kv.2 Buf [] [] af_default with (g', Done, _) => Ok g' | (_, Fail e, _) => Raise e end)
                 g1 conns;
      match add_blackbox {| c_name := ""; c_g := g2; c_bbs := C.2 |} d ic.1 (elements (bb_in d)) (elements (bb_out d))
                         ((λ kv, (kv.1, [kv.2])) <$> conns) with
      | (C', Done) => Ok (c_g C', c_bbs C')
      | (_, Fail e) => Raise e end
  end.

Definition find_bb (k : rctx) (mn : string) : option bbdef :=
  find_def (k_bbs k) mn.

Definition c_item (k : rctx) (st : rstate) (it : item) : res rstate :=
  match it with
  | IInput ns =>
      g ← rfold (λ g n, r ← add_node (k_rsv k) g n Input [] false; Ok r.1) (r_g st) ns;
      Ok {| r_g := g; r_bbs := r_bbs st; r_ge := r_ge st; r_io := r_io st;
            r_ins := r_ins st ∪ list_to_set ns; r_outs := r_outs st |}
  | IOutput ns =>
      Ok {| r_g := r_g st; r_bbs := r_bbs st; r_ge := r_ge st; r_io := r_io st;
            r_ins := r_ins st; r_outs := r_outs st ∪ list_to_set ns |}
  | IWire _ => Ok st
  | IAssign l =>
      r ← rfold (c_assign k) (r_g st, r_ge st) l;
      Ok (st_ge (st_g st r.1) r.2)
  | IInst mn insts =>
      (* all expressions of all instances first ... *)
      r ← rmapS (λ s (ic : string * conns), x ← c_conns k s ic.2; Ok (x.1, (ic.1, x.2))) (r_g st, r_ge st) insts;
      let st1 := st_ge (st_g st r.1.1) r.1.2 in
      (* ... then module_instantiation *)
      match prim_of_name mn with
      | Some t => g ← rfold (prim_instance k t) (r_g st1) r.2; Ok (st_g st1 g)
      | None =>
          match find_bb k mn with
          | None => Raise OtherError
          | Some d =>
              x ← rfold (bb_instance k d) (r_g st1, r_bbs st1) r.2;
              Ok {| r_g := x.1; r_bbs := x.2; r_ge := r_ge st1; r_io := r_io st1; r_ins := r_ins st1; r_outs := r_outs st1 |}
          end
      end
  end.

(* __init__: the three constant nodes *)
Definition init_ctx (rsv : gset string) (bbs : list bbdef) : rctx * circuit :=
  let t0 := uid_in rsv "tie_0" in
  let g0 : circuit := {[ t0 := mk_node C0 false ∅ ]} in
  let t1 := uid_in (dom g0 ∪ rsv) "tie_1" in
  let g1 := <[ t1 := mk_node C1 false ∅ ]> g0 in
  let tx := uid_in (dom g1 ∪ rsv) "tie_x" in
  let g2 := <[ tx := mk_node CX false ∅ ]> g1 in
  ({| k_rsv := rsv; k_t0 := t0; k_t1 := t1; k_tx := tx; k_bbs := bbs |}, g2).

(* module(): cross-check of port list and declarations, output marking, removal of unused constants *)
Definition finish (k : rctx) (name : string) (st : rstate) : res Circuit :=
  if negb (bool_decide (r_ins st ⊆ r_io st)) then Raise OtherError else
  if negb (bool_decide (r_outs st ⊆ r_io st)) then Raise OtherError else
  if negb (bool_decide (r_io st ⊆ r_ins st ∪ r_outs st)) then Raise OtherError else
  match set_output_g (r_g st) (elements (r_outs st)) true with
  | (_, Fail e) => Raise e
  | (g, Done) =>
      let drop := λ g t, if bool_decide (fanout g t = ∅) then remove_g g [t] else g in
      Ok {| c_name := name; c_g := drop (drop (drop g (k_t0 k)) (k_t1 k)) (k_tx k); c_bbs := r_bbs st |}
  end.

(* parse_verilog_netlist on the token stream denoted by m; rsv = identifier-like tokens of the text *)
Definition read (rsv : gset string) (bbs : list bbdef) (m : vmodule) : res Circuit :=
  let '(k, g0) := init_ctx rsv bbs in
  let st0 := {| r_g := g0; r_bbs := ∅; r_ge := ∅; r_io := list_to_set (m_ports m); r_ins := ∅; r_outs := ∅ |} in
  st ← rfold (c_item k) st0 (m_items m);
  finish k (m_name m) st.

(* io.verilog_to_circuit, specification level: the text is a sequence of modules; the module called `name` is read
   (leftmost one), else - when the name was inferred from a file name - the first module, else ValueError.
   (The implementation blanks the comments of a copy of the text, looks for module\s+<name>\s*\(.*?\);(.*?)\bendmodule\b in
   the copy and cuts the original at these positions: the first `endmodule` token that is not inside a comment ends the
   module - exactly the module boundary of the token stream.  The character level itself is not modelled; the generator
   puts the word endmodule into comments, identifiers (x_endmodule, endmodule_x) and a blackbox type (endmodule_ff).) *)
Definition select_module (name : string) (infer : bool) (mods : list vmodule) : res vmodule :=
  match list_find (λ m, m_name m = name) mods with
  | Some (_, m) => Ok m
  | None => if infer then match mods with m :: _ => Ok m | [] => Raise ValueError end else Raise ValueError
  end.
Definition read_text (name : string) (infer : bool) (rsv : gset string) (bbs : list bbdef) (mods : list vmodule) : res Circuit :=
  m ← select_module name infer mods; read rsv bbs m.
