(* Model of io.circuit_to_verilog at AST level.  The text is a rendering of this AST (one item per line; an escaped
   name is followed by a blank, which is what the relabelling `node + " "` achieves); text layout is not modelled.
   Every iteration over a Python set is an explicit order argument: the model checks that it is a permutation of the
   set (BadOrder otherwise) and the theorems quantify over all of them.  Definitions only. *)
From CG Require Export Verilog.Ast.
From stdpp Require Import strings gmap sets pretty.
From CG Require Import Types Api.
Open Scope string_scope.

Record worder := {
  o_ins : list string;                                    (* list(c.inputs()) *)
  o_outs : list string;                                   (* list(c.outputs()) *)
  o_bbs : list (string * list string * list string);      (* c.blackboxes.items(), bb.inputs(), bb.outputs() *)
  o_nodes : list string;                                  (* c.nodes(), restricted to gates and constants *)
  o_fi : list (string * list string) }.                   (* list(c.fanin(n)) per gate *)

Definition is_perm_of (l : list string) (s : gset string) : bool := bool_decide (NoDup l) && bool_decide (list_to_set l = s).
Definition gate_types : list gtype := [Xor; Xnor; Buf; Not; Nor; Or; And; Nand].
Definition const_types : list gtype := [C0; C1; CX].
Definition prim_name (t : gtype) : string :=
  match t with Buf => "buf" | And => "and" | Or => "or" | Xor => "xor" | Not => "not" | Nand => "nand" | Nor => "nor"
  | Xnor => "xnor" | _ => "?" end.

Definition pid (f : string) : unary := UPrim (PId f).
Definition chain_and (f : string) (r : list string) : andE := foldl (λ acc x, AAnd acc (pid x)) (AUn (pid f)) r.
Definition chain_xor (f : string) (r : list string) : xorE := foldl (λ acc x, XXor acc (AUn (pid x))) (XAnd (AUn (pid f))) r.
Definition chain_or (f : string) (r : list string) : orE := foldl (λ acc x, OOr acc (XAnd (AUn (pid x)))) (OXor (XAnd (AUn (pid f)))) r.
Definition inv (o : orE) : cond := COr (OXor (XAnd (AUn (UNot (PParen o))))).
(* right-hand side of `assign n = ...` for a gate of type t with operands f :: r *)
Definition beh_expr (t : gtype) (f : string) (r : list string) : cond :=
  match t with
  | Buf => cid f
  | Not => COr (OXor (XAnd (AUn (UNot (PId f)))))
  | And => COr (OXor (XAnd (chain_and f r)))
  | Nand => inv (OXor (XAnd (chain_and f r)))
  | Xor => COr (OXor (chain_xor f r))
  | Xnor => inv (OXor (chain_xor f r))
  | Or => COr (chain_or f r)
  | _ => inv (chain_or f r) end.
Definition const_expr (t : gtype) : cond :=
  COr (OXor (XAnd (AUn (UPrim (PConst (match t with C0 => K0 | C1 => K1 | _ => KX end)))))).

(* one blackbox instance: `.p(driver)` / `.p()` for inputs, then `.p(driven)` / `.p()` for outputs *)
Definition bb_stmt (g : circuit) (d : bbdef) (inst : string) (ins outs : list string) : item :=
  IInst (bb_name d)
    [(inst, Named ((((λ p, (p, cid <$> head (elements (fanin g (pin inst p))))) <$> ins) ++
                    ((λ p, (p, cid <$> head (elements (fanout g (pin inst p))))) <$> outs))%list))].

(* statements of the gate loop: (statement, counts as an entry of `insts`) *)
Definition gate_stmt (g : circuit) (beh : bool) (k : nat) (n : string) (i : ninfo) (fi : list string) : option item :=
  if bool_decide (n_ty i ∈ const_types) then Some (IAssign [(n, const_expr (n_ty i))]) else
  match fi with
  | [] => None
  | f :: r =>
      if beh then Some (IAssign [(n, beh_expr (n_ty i) f r)])
      else Some (IInst (prim_name (n_ty i)) [(uid g ("g_" ++ pretty k), Positional (cid n :: (cid <$> fi)))])
  end.

Definition write (C : Circuit) (beh : bool) (o : worder) : res vmodule :=
  let g := c_g C in
  if negb (is_perm_of (o_ins o) (inputs g) && is_perm_of (o_outs o) (outputs g)) then BadOrder else
  if negb (is_perm_of (o_bbs o).*1.*1 (dom (c_bbs C))) then BadOrder else
  if negb (forallb (λ x : string * list string * list string,
             match c_bbs C !! x.1.1 with
             | Some d => is_perm_of x.1.2 (bb_in d) && is_perm_of x.2 (bb_out d)
             | None => false end) (o_bbs o)) then BadOrder else
  let gates := of_type g (λ t, bool_decide (t ∈ gate_types) || bool_decide (t ∈ const_types)) in
  if negb (is_perm_of (o_nodes o) gates) then BadOrder else
  if negb (bool_decide ((o_fi o).*1 = o_nodes o)) then BadOrder else
  (* the writer detaches blackbox output pins from the buffers they drive before looking at fan-ins *)
  let bbout := of_type g (is_ty BbOut) in
  if negb (forallb (λ x : string * list string, is_perm_of x.2 (fanin g x.1 ∖ bbout)) (o_fi o)) then BadOrder else
  if negb (bool_decide (dom g ⊆ inputs g ∪ gates ∪ of_type g (is_ty BbIn) ∪ bbout)) then Raise ValueError else
  let bbst := omap (λ x : string * list string * list string,
                      (λ d, bb_stmt g d x.1.1 x.1.2 x.2) <$> c_bbs C !! x.1.1) (o_bbs o) in
  let st := foldl (λ acc (x : string * list string),
                     match g !! x.1 with
                     | Some i => match gate_stmt g beh (length acc) x.1 i x.2 with Some s => (acc ++ [s])%list | None => acc end
                     | None => acc end) bbst (o_fi o) in
  Ok {| m_name := c_name C;
        m_ports := (o_ins o ++ o_outs o)%list;
        m_items := (((λ n, IInput [n]) <$> o_ins o) ++ ((λ n, IOutput [n]) <$> o_outs o) ++
                    ((λ n, IWire [n]) <$> o_nodes o) ++ st)%list |}.
