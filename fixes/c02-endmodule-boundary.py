"""C02: io.verilog_to_circuit cuts the module text with `module\\s+<name>\\s*\\(.*?\\);(.*?)endmodule`.  The first occurrence of the
letters `endmodule` ends the module, also inside a comment, inside an identifier (x_endmodule) or at the start of one
(a blackbox type endmodule_ff): valid netlists of the subset ("comments and arbitrary whitespace") are rejected, and with a
blackbox type whose name starts with `endmodule` the rest of the module is dropped silently.
Run with PYTHONPATH=<tree>: exit 0 when all four netlists are read as written, 1 otherwise."""
import sys
import circuitgraph as cg


def rd(t, bbs=()):
    try:
        c = cg.io.verilog_to_circuit(t, "top", blackboxes=list(bbs))
        return sorted((n, c.type(n), sorted(c.fanin(n))) for n in c.nodes()), sorted(c.outputs()), sorted(c.blackboxes)
    except Exception as e:      # noqa: BLE001
        return "EXC " + type(e).__name__


bb = cg.BlackBox("endmodule_ff", ["d"], ["q"])
want_not = [("a", "input", []), ("o", "not", ["a"])]
cases = [
    ("comment", "module top(a, o);\n input a;\n output o;\n // the endmodule keyword closes the module\n assign o = ~a;\nendmodule\n", (),
     (want_not, ["o"], [])),
    ("block comment", "module top(a, o);\n input a;\n output o; /* endmodule */\n assign o = ~a;\nendmodule\n", (), (want_not, ["o"], [])),
    ("identifier", "module top(a, o);\n input a;\n output o;\n wire x_endmodule;\n assign x_endmodule = ~a;\n assign o = x_endmodule;\nendmodule\n", (),
     ([("a", "input", []), ("o", "buf", ["x_endmodule"]), ("x_endmodule", "not", ["a"])], ["o"], [])),
    ("blackbox type (silent truncation)", "module top(a, o);\n input a;\n output o;\n assign o = ~a;\n endmodule_ff u1(.d(a), .q());\nendmodule\n", (bb,),
     ([("a", "input", []), ("o", "not", ["a"]), ("u1.d", "bb_input", ["a"]), ("u1.q", "bb_output", [])], ["o"], ["u1"])),
]
bad = 0
for name, text, bbs, want in cases:
    got = rd(text, bbs)
    ok = got == want
    print(("ok   " if ok else "FAIL ") + name + ("" if ok else f": got {got}"))
    bad += not ok
sys.exit(1 if bad else 0)
