"""C03: circuit_to_verilog crashes (NetworkXError) on a lint-clean circuit with a blackbox instance whose name is an escaped
identifier: the sanitising loop renames the pin nodes `\\u[1].d` to `\\u[1].d ` and the blackbox loop then looks up `\\u[1].d`.
Run with PYTHONPATH=<tree>: exits 0 when the round trip preserves the circuit, 1 otherwise."""
import sys
import circuitgraph as cg

c = cg.Circuit(name="top")
c.add("a", "input"); c.add("clk", "input"); c.add("q", "buf", output=True)
ff = cg.BlackBox("ff", ["clk", "d"], ["q"])
c.add_blackbox(ff, "\\u[1]", {"clk": "clk", "d": "a", "q": "q"})
cg.lint(c)
try:
    text = cg.io.circuit_to_verilog(c)
    back = cg.io.verilog_to_circuit(text, "top", blackboxes=[ff])
except Exception as e:      # noqa: BLE001
    print("FAIL:", type(e).__name__, e)
    sys.exit(1)
dump = lambda x: sorted((n, x.type(n), x.is_output(n), sorted(x.fanin(n))) for n in x.nodes())
ok = dump(back) == dump(c) and set(back.blackboxes) == set(c.blackboxes)
print("round trip identical" if ok else "FAIL: circuits differ")
sys.exit(0 if ok else 1)
