"""C07: fill_blackbox merged the filling circuit into a node that is no longer the blackbox's pin.

History 1 (remove a pin, reuse its name, fill): a buf with two drivers.
History 2 (an output of the filling circuit is a blackbox pin): a blackbox output driving two nodes.
Before the patch both histories end in an illegally wired circuit; after it fill_blackbox raises ValueError
and leaves the circuit as it was.   usage: python c07-fill-blackbox-stale-pin.py [repo]"""
import sys
sys.path[:0] = [sys.argv[1] if len(sys.argv) > 1 else "/repo", "/verif/harness/shims"]
import circuitgraph as cg

bad = []
c = cg.Circuit(name="top")
c.add("a", "input"); c.add("b", "input")
c.add_blackbox(cg.BlackBox("inv", ["d"], ["y"]), "f0")
c.remove("f0.d")
c.add("f0.d", "and", fanin=["a", "b"])
sc = cg.Circuit(name="sc")
sc.add("d", "input"); sc.add("y", "not", fanin=["d"], output=True)
try:
    c.fill_blackbox("f0", sc)
except ValueError:
    pass
for n in c.nodes():
    if c.type(n) in ("buf", "not", "bb_input") and len(c.fanin(n)) > 1:
        bad.append(f"history 1: {c.type(n)} '{n}' has fan-in {sorted(c.fanin(n))}")

sc = cg.Circuit(name="sc")
sc.add_blackbox(cg.BlackBox("ff", ["d"], ["q"]), "g")
sc.set_output("g.q")
sc.add("b2", "buf"); sc.connect("g.q", "b2")
c = cg.Circuit(name="top")
c.add_blackbox(cg.BlackBox("sub", [], ["g.q"]), "u")
c.add("b1", "buf"); c.connect("u.g.q", "b1")
try:
    c.fill_blackbox("u", sc)
except ValueError:
    pass
for n in c.nodes():
    if c.type(n) == "bb_output" and len(c.fanout(n)) > 1:
        bad.append(f"history 2: bb_output '{n}' drives {sorted(c.fanout(n))}")
print("\n".join(bad) if bad else "ok: both fills were rejected or left a legal circuit")
sys.exit(1 if bad else 0)
