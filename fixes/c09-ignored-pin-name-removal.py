"""sequential_unroll(ignore_pins=...) deletes a node BY NAME: after strip_blackboxes removed the ignored pin `ff.clk`,
`cs.remove("ff_clk")` still runs and deletes an ordinary net that happens to be called `ff_clk` (here a gated clock that
is also observed by `dbg`), silently changing the function of its loads.  Fails before the patch, passes after.
Run: PYTHONPATH=<repo>:/verif/harness/shims /venv/bin/python c09-ignored-pin-name-removal.py"""
import circuitgraph as cg

c = cg.Circuit()
bb = cg.BlackBox("dff", ["clk", "d"], ["q"])
for i in ("a", "en", "clk"):
    c.add(i, "input")
c.add("ff_clk", "and", fanin=["clk", "en"])           # gated clock net, named <inst>_<pin>
c.add_blackbox(bb, "ff", {"clk": "ff_clk"})
c.add("qb", "buf")
c.connect("ff.q", "qb")
c.add("o", "xor", fanin=["a", "qb"], output=True)
c.add("dbg", "or", fanin=["ff_clk", "a"], output=True)  # the gated clock is observed
c.connect("o", "ff.d")
uc, m = cg.tx.sequential_unroll(c, 2, "d", "q", ignore_pins="clk")
fi = sorted(uc.fanin("unrolled_0_dbg"))
print("fanin of dbg in step 0:", fi)
assert fi == ["unrolled_0_a", "unrolled_0_ff_clk"], "the net ff_clk was deleted by name"
print("ok")
