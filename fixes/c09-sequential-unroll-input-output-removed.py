# C09: sequential_unroll(remove_unloaded=True) must not delete a primary input that is also a primary output
import circuitgraph as cg
c = cg.Circuit()
c.add("a", "input"); c.add("clk", "input")
c.add("p", "input", output=True)                      # pass-through: input that is an output, drives nothing
c.add("g", "not", fanin=["a"], output=True)
c.add_blackbox(cg.BlackBox("ff", ["clk", "d"], ["q"]), "ff0", {"d": "g", "clk": "clk"})
c.add("o", "buf", fanin=["ff0.q"], output=True)
cg.lint(c)
uc, m = cg.tx.sequential_unroll(c, 2, "d", "q", ignore_pins="clk")
assert m.get("p") == ["p_cg_unroll_0", "p_cg_unroll_1"], sorted(m)      # before: 'p' is missing from the io map
assert {"p_cg_unroll_0", "p_cg_unroll_1"} <= uc.outputs() and {"p_cg_unroll_0", "p_cg_unroll_1"} <= uc.inputs()
assert "clk_cg_unroll_0" not in uc.nodes()                              # the unloaded clock is still removed
print("ok")
