# C09: sequential_unroll with the default remove_unloaded=True must accept a flop whose Q drives nothing
import circuitgraph as cg
c = cg.Circuit()
c.add("a", "input"); c.add("clk", "input")
c.add("g", "not", fanin=["a"], output=True)
c.add_blackbox(cg.BlackBox("ff", ["clk", "d"], ["q"]), "ff0", {"d": "g", "clk": "clk"})
cg.lint(c)
uc, m = cg.tx.sequential_unroll(c, 2, "d", "q", ignore_pins="clk", add_flop_outputs=True)   # before: ValueError ff0_q not in io
assert m["ff0_d"] == ["ff0_d_cg_unroll_0", "ff0_d_cg_unroll_1"] and uc.fanin("ff0_q_cg_unroll_1") == {"ff0_d_cg_unroll_0"}
assert "clk_cg_unroll_0" not in uc.nodes()    # the unloaded clock is still removed
print("ok")
