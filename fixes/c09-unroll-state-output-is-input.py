# C09: a state output that is also a primary input must stay a per-step free input of the unrolled circuit
import circuitgraph as cg
c = cg.Circuit()
c.add("k", "input", output=True)
c.add("v", "input")
c.add("o", "and", fanin=["k", "v"], output=True)
uc, m = cg.tx.unroll(c, 2, {"k": "v"})
cg.lint(uc)                                   # before: 'buf' node 'k_cg_unroll_0' has no fanin
assert uc.inputs() == {"v_cg_unroll_0", "k_cg_unroll_0", "k_cg_unroll_1"}, uc.inputs()
assert uc.fanin("v_cg_unroll_1") == {"k_cg_unroll_0"}
print("ok")
