"""C14: three defects of fast_parse_verilog_netlist on netlists inside its documented subset.
Run with PYTHONPATH=<tree>:/verif/harness/shims.  Fails on /repo at b3a1a68, passes with
c14-fast-ties-parity-underscore.diff applied.

1. a net of the netlist named tie0 / tie1 (the library's own writer emits `assign tie0 = 1'b0;` for a circuit that was read
   by the fast parser) is merged with the parser's constant node: self-loop `tie0 -> tie0`, or the user's net is deleted as
   an "unused constant";
2. equal operands of a parity gate (`xor g(o, a, 1'b1, 1'b1)`) collapse into one edge: o = ~a instead of a
   (the full reader was repaired for this in 64a3467);
3. instance names and assign operands that start with an underscore (`_00_`, the default net names of yosys) are not matched
   by the instance/assign patterns: the statement is dropped silently (KeyError or an undriven net later).
"""
import circuitgraph as cg


def dump(c):
    ren = {n: "const" + c.type(n) for n in c.nodes() if c.type(n) in ("0", "1", "x")}
    r = lambda n: ren.get(n, n)
    return (sorted((r(n), c.type(n), c.is_output(n), tuple(sorted(r(f) for f in c.fanin(n)))) for n in c.nodes()),
            sorted(c.inputs()), sorted(c.outputs()))


def same(v):
    a = cg.io.verilog_to_circuit(v, "m", fast=True)
    b = cg.io.verilog_to_circuit(v, "m", fast=False)
    assert dump(a) == dump(b), (v, dump(a), dump(b))


# 1. user nets called tie0 / tie1
same("module m(a, tie0, o);\n input a;\n output tie0, o;\n assign tie0 = 1'b0;\n and g0(o, a, 1'b1);\nendmodule\n")
same("module m(a, o);\n input a;\n output o;\n wire tie1;\n not g0(tie1, a);\n and g1(o, tie1, 1'b1);\nendmodule\n")
same("module m(a, tie0);\n input a;\n output tie0;\n not g0(tie0, a);\nendmodule\n")
# round trip through the library's own writer
c = cg.io.verilog_to_circuit("module m(a, o);\n input a;\n output o;\n and g0(o, a, 1'b0);\nendmodule\n", "m", fast=True)
same(cg.io.circuit_to_verilog(c))
# 2. equal operands of parity gates
same("module m(a, o);\n input a;\n output o;\n xor g0(o, a, 1'b1, 1'b1);\nendmodule\n")
same("module m(a, b, o);\n input a, b;\n output o;\n xnor g0(o, a, b, a);\nendmodule\n")
same("module m(a, o);\n input a;\n output o;\n xor g0(o, a, a);\nendmodule\n")
# 3. identifiers starting with an underscore
same("module m(a, o);\n input a;\n output o;\n wire _00_;\n not _g1_(_00_, a);\n assign o = _00_;\nendmodule\n")
same("module m(a, _o);\n input a;\n output _o;\n assign _o = a;\nendmodule\n")
print("ok")
