"""C15: bench_to_circuit scans '#' comment text like netlist text.

circuit_to_bench writes the circuit name into a '# <name>' line; a circuit whose name looks like a bench statement
(e.g. 'INPUT(zz)') therefore comes back from the round trip with an extra input, and a commented-out gate line is
read as a real definition.  Fails (exit 1) before the patch, passes after.
usage: PYTHONPATH=<repo> python c15-bench-reader-scans-comments.py
"""
import sys
import circuitgraph as cg

c = cg.Circuit(name="INPUT(zz)")
c.add("a", "input")
c.add("g", "not", fanin="a", output=True)
r = cg.io.bench_to_circuit(cg.io.circuit_to_bench(c), c.name)
ok = r.inputs() == c.inputs() and r.outputs() == c.outputs()
print("round trip inputs:", sorted(c.inputs()), "->", sorted(r.inputs()))
try:
    r2 = cg.io.bench_to_circuit("INPUT(a)\nOUTPUT(g)\n# g = AND(a, a)\ng = NOT(a)\n", "t")
    ok = ok and r2.type("g") == "not" and r2.fanin("g") == {"a"}
    print("commented-out line:", r2.type("g"), sorted(r2.fanin("g")))
except ValueError as e:
    ok = False
    print("commented-out line was read as a definition:", e)
sys.exit(0 if ok else 1)
