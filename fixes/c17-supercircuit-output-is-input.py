# C17: construct_supercircuit=True on a single-output circuit whose output is a primary input
# raised ValueError "Node 'a' already in circuit" (input added, then added again as output buffer).
import circuitgraph as cg
c = cg.Circuit("t")
c.add("a", "input", output=True)
c.add("b", "input")
c.add("g", "and", fanin=["a", "b"])
sc, m = cg.tx.supergates(c, construct_supercircuit=True)      # before: ValueError
for name, sg in m.items():
    sc.fill_blackbox(name, sg)
cg.lint(sc)
assert sc.inputs() == {"a", "b"} and sc.outputs() == {"a"}, (sc.inputs(), sc.outputs())
print("ok", sorted(sc.nodes()), sorted(m))
