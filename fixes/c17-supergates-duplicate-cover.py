# C17: every gate in the cone of the outputs must lie in some returned supergate.
# o1 = not(g), o2 = buf(g), g = and(x, y): the supergate {g | x, y} is found once in the cone of o1 and once in
# the cone of o2; before the fix each copy made the other look redundant in the minimal-cover filter and both
# were dropped, so g was in no returned supergate.
import circuitgraph as cg
c = cg.Circuit("t")
for i in "abcd":
    c.add(i, "input")
c.add("x", "and", fanin=["a", "b"])
c.add("y", "or", fanin=["c", "d"])
c.add("g", "and", fanin=["x", "y"])
c.add("o1", "not", fanin=["g"], output=True)
c.add("o2", "buf", fanin=["g"], output=True)
sgs = cg.tx.supergates(c)
covered = set()
for s in sgs:
    covered |= s.nodes() - s.inputs()
assert covered == {"x", "y", "g", "o1", "o2"}, sorted(covered)      # before: g missing
order = [s.outputs().pop() for s in sgs]
assert order.index("g") < order.index("o1") and order.index("g") < order.index("o2"), order
print("ok", [sorted(s.nodes()) for s in sgs])
