import itertools, circuitgraph as cg
c = cg.Circuit()
names=["a","b","c"]+[f"xor_{x}_{y}" for x in "abc" for y in "abc" if x!=y]
for n in names: c.add(n,"input")
c.add("g","xor",fanin=["a","b","c"],output=True)
cnt = cg.sat.model_count(c)
print("model_count", cnt, "expected", 2**len(names))
assert cnt == 2**len(names), cnt
