import circuitgraph as cg
v = """module m(a, b, c, d, y, z, t);
 input a, b, c, d; output y, z, t; wire not_a, tie_0;
 assign y = ~a & b;
 assign not_a = c | d;
 assign z = not_a;
 assign tie_0 = a & d;
 assign t = tie_0 | 1'b0;
endmodule
"""
c = cg.io.verilog_to_circuit(v, "m")
for bits in range(16):
    a, b, cc, d = [(bits >> i) & 1 == 1 for i in range(4)]
    m = cg.sat.solve(c, {"a": a, "b": b, "c": cc, "d": d})
    assert m["y"] == ((not a) and b) and m["z"] == (cc or d) and m["t"] == (a and d), (a, b, cc, d, m)
print("ok")
