import circuitgraph as cg
v = """module m(a, b, o, p, q, r);
 input a, b; output o, p, q, r;
 assign o = a ^ a;
 assign p = a ~^ a;
 xor g0(q, a, a, b);
 xnor g1(r, b, b);
endmodule
"""
c = cg.io.verilog_to_circuit(v, "m")
for av in (False, True):
    for bv in (False, True):
        m = cg.sat.solve(c, {"a": av, "b": bv})
        assert (m["o"], m["p"], m["q"], m["r"]) == (False, True, bv, True), (av, bv, m)
print("ok")
