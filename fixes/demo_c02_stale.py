import circuitgraph as cg
v = """module m(a, b, o, p, q);
 input a, b; output o, p, q; wire and_a_b;
 assign o = a & b;
 assign and_a_b = a | b;
 assign p = and_a_b;
 assign q = and_a_b;
endmodule
"""
c = cg.io.verilog_to_circuit(v, "m")
assert c.fanin("q") == {"and_a_b"} and c.fanin("p") == {"and_a_b"} and c.type("and_a_b") == "or", (c.fanin("p"), c.fanin("q"), c.type("and_a_b") if "and_a_b" in c else None)
print("ok")
