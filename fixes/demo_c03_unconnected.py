import circuitgraph as cg
bb = cg.BlackBox("ff", ["d", "clk"], ["q"])
c = cg.Circuit("m")
c.add("a", "input"); c.add("o", "buf", output=True)
c.add_blackbox(bb, "f0", {"d": "a", "q": "o"})       # clk left unconnected
v = cg.io.circuit_to_verilog(c)
r = cg.io.verilog_to_circuit(v, "m", blackboxes=[bb])
assert set(r.edges()) == set(c.edges()) and r.blackboxes.keys() == c.blackboxes.keys()
print("ok")
