import itertools, circuitgraph as cg
c = cg.Circuit()
for n in "abc": c.add(n, "input")
c.add("g", "xnor", fanin=["a","b","c"], output=True)
ck = cg.tx.limit_fanin(c, 2)
m = cg.tx.miter(c, ck)
assert cg.sat.solve(m, {"sat": True}) is False, "limit_fanin changed the function of an xnor"
print("ok")
