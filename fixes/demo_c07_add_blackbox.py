import circuitgraph as cg
bb = cg.BlackBox("ff", ["d"], ["q"])
# 1. illegal instance name: registry entry without pins
c = cg.Circuit()
try:
    c.add_blackbox(bb, "0ff")
    raise SystemExit("no error")
except ValueError:
    pass
assert "0ff" not in c.blackboxes, c.blackboxes
# 2. second connection illegal: first connection must not stay
c = cg.Circuit()
c.add("a", "input"); c.add("i", "input")
try:
    c.add_blackbox(bb, "f0", {"d": "a", "q": "i"})   # q cannot drive an input
    raise SystemExit("no error")
except ValueError:
    pass
assert c.edges() == set() and "f0" not in c.blackboxes, (c.edges(), c.blackboxes)
print("ok")
