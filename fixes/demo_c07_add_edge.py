import circuitgraph as cg
c = cg.Circuit()
c.add("x", "and")
try:
    c.add("n", "and", fanin=["missing"], fanout=["x"])
    raise SystemExit("no error")
except ValueError:
    pass
assert c.edges() == set(), c.edges()
print("ok")
