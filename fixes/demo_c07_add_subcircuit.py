import circuitgraph as cg
sc = cg.Circuit("sc")
sc.add("i", "input"); sc.add("o", "not", fanin="i", output=True)
c = cg.Circuit()
c.add("a", "input")
try:
    c.add_subcircuit(sc, "u", {"i": "a", "o": "a"})     # o cannot drive an input
    raise SystemExit("no error")
except ValueError:
    pass
assert c.edges() == set() and c.nodes() == {"a"}, (c.edges(), c.nodes())
print("ok")
