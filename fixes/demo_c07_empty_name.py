import circuitgraph as cg
c = cg.Circuit()
try:
    c.add("", "and")
except ValueError:
    print("ok")
