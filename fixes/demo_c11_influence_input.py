import circuitgraph as cg
c = cg.Circuit()
c.add("a", "input"); c.add("b", "input"); c.add("g", "and", fanin=["a", "b"], output=True)
assert cg.props.influence(c, "a", approx=False) == {"a": 1.0}
assert cg.props.influence(c, "g", approx=False) == {"a": 0.5, "b": 0.5}
# an internal node that is its own selected endpoint
m = cg.tx.sensitization_transform(c, "g", endpoints="g")
assert cg.sat.model_count(m, {"sat": True}) == 4
print("ok")
