import circuitgraph as cg
c = cg.Circuit()
c.add("g", "input"); c.add("a", "buf", fanin="g"); c.add("b", "and", fanin=["a", "g"], output=True)
assert set(c.reconvergent_fanout_nodes()) == {"g"}, set(c.reconvergent_fanout_nodes())
print("ok")
