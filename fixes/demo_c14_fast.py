import circuitgraph as cg
bb = cg.BlackBox("ff", ["d", "clk"], ["q"])
def same(v):
    a = cg.io.verilog_to_circuit(v, "m", blackboxes=[bb], fast=True)
    b = cg.io.verilog_to_circuit(v, "m", blackboxes=[bb], fast=False)
    assert a.inputs() == b.inputs() and a.outputs() == b.outputs(), (a.inputs(), b.inputs(), a.outputs(), b.outputs())
    assert set(a.edges()) == set(b.edges()), (set(a.edges()) ^ set(b.edges()))
# keyword inside an identifier
same("module m(a, xinput, o);\n input a, xinput ;\n output o;\n and g0(o, a, xinput);\nendmodule\n")
# no blank after the comma between named ports
same("module m(a, c, o);\n input a, c;\n output o;\n wire w;\n ff f0(.d(a),.clk(c),.q(w));\n buf g1(o, w);\nendmodule\n")
print("ok")
