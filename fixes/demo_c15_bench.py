import circuitgraph as cg
# 1. constants survive a bench round trip
c = cg.Circuit()
c.add("i", "input"); c.add("k", "1"); c.add("z", "0"); c.add("o", "and", fanin=["i", "k"], output=True); c.add("p", "or", fanin=["i","z"], output=True)
r = cg.io.bench_to_circuit(cg.io.circuit_to_bench(c), "top")
m = cg.tx.miter(c, r)
assert cg.sat.solve(m, {"sat": True}) is False, "bench round trip changed the function"
# 2. DFF fed by a later DFF
t = "INPUT(a)\nOUTPUT(q1)\nq1 = DFF(q2)\nq2 = DFF(a)\n"
r = cg.io.bench_to_circuit(t, "top")
assert r.fanin("q1_dff.D") == {"q2"}
print("ok")
