import circuitgraph as cg
c = cg.Circuit()
c.add("i", "input"); c.add("j", "input"); c.add("o", "buf", fanin="j", output=True)
r = c.remove_unloaded(inputs=False)
assert "i" in c and r == [], (r, c.nodes())
print("ok")
