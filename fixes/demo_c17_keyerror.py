import circuitgraph as cg
c = cg.Circuit()
for n in "abc": c.add(n, "input")
c.add("g", "and", fanin=["a","b"]); c.add("h", "or", fanin=["g","c"]); c.add("o", "xor", fanin=["g","h"], output=True)
sgs = cg.tx.supergates(c)
assert len(sgs) >= 1
print("ok", [sorted(s.nodes()) for s in sgs])
