import circuitgraph as cg
c = cg.Circuit()
c.add("a", "input", output=True)
c.add("g", "nand", fanin=["a"], output=True); c.add("h", "nand", fanin=["g", "a"]); c.connect("h", "g")
u = cg.tx.acyclic_unroll(c)
assert u.outputs() == {"a", "g"} and "a" in u.inputs() and not u.is_cyclic(), (u.outputs(), u.inputs())
print("ok")
