"""C12 (boundary k = 0): kcuts(n, 0) returns the singleton cuts of a single-fan-in chain although they have 1 > k nodes;
a gate with one fan-in hands its fan-in's cut list on without the width filter (reduce() of a one-element list).
Fails before fixes/proposed/kcuts-width0.diff, passes after."""
import circuitgraph as cg

c = cg.Circuit()
c.add("a", "input"); c.add("f", "buf", fanin=["a"]); c.add("n", "not", fanin=["f"], output=True)
cuts = c.kcuts("n", 0)
assert all(len(x) <= 0 for x in cuts if x != {"n"}), cuts
assert c.kcuts("n", 1) == [{"a"}, {"f"}, {"n"}]
print("ok")
