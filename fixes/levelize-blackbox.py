"""C12: props.levelize raises ValueError ("max() iterable argument is empty") on every circuit that contains a blackbox
(its bb_output pins have no fan-in and are not in the initial level-0 set) or an undriven gate.
Fails before fixes/proposed/levelize-blackbox.diff, passes after.  Run: PYTHONPATH=<repo> python levelize-blackbox.py"""
import circuitgraph as cg

c = cg.Circuit()
c.add("a", "input"); c.add("clk", "input")
c.add("n", "not", fanin=["a"])
c.add_blackbox(cg.BlackBox("ff", ["clk", "d"], ["q"]), "ff0", {"d": "n", "clk": "clk"})
c.add("qb", "buf", fanin=["ff0.q"], output=True)
cg.lint(c)
lv = cg.props.levelize(c)          # ValueError before the fix
want = {"a": 0, "clk": 0, "n": 1, "ff0.d": 2, "ff0.clk": 1, "ff0.q": 0, "qb": 1}
assert lv == want, lv
assert all(lv[x] == c.fanin_depth(x) for x in c.nodes())
print("ok")
