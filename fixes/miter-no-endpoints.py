"""A circuit without any endpoint (no output): tx.miter / tx.sensitization_transform leave `sat` an undriven buf, i.e. a free
variable, so props.sensitize "finds" a sensitizing input although inverting the node can change no endpoint.
Run with PYTHONPATH=<tree>:/verif/harness/shims ; fails before the patch, passes after."""
import circuitgraph as cg

c = cg.Circuit()
c.add("a", "input"); c.add("b", "input"); c.add("g", "and", fanin=["a", "b"])      # lint-clean, no output
cg.lint(c)
t = cg.tx.sensitization_transform(c, "g")
assert not (t.type("sat") in ("buf", "not") and not t.fanin("sat")), "sat is an undriven buf (free variable)"
assert cg.sat.solve(t, {"sat": True}) is False
assert cg.props.sensitize(c, "g") is None
m = cg.tx.miter(c)
assert cg.sat.solve(m, {"sat": True}) is False
# unchanged behaviour with endpoints
c.set_output("g")
assert cg.props.sensitize(c, "g") is not None
print("ok")
