"""Demo for fixes/proposed/c02-floating-output.diff.

A declared output that no statement turns into a node makes verilog_to_circuit raise a raw KeyError from
Circuit.set_output: never mentioned (`output z;`), or mentioned only as operands that cancel
(`xor g(o, a, a)`, `assign o = a ^ a`).  Such a net is an undriven output of a valid netlist.
Run with PYTHONPATH=<repo>; exits 0 iff every text is read into a circuit whose outputs are the declared ones.
"""
import sys
import circuitgraph as cg

TEXTS = [
    ("module t(a, o); output a, o; xor g(o, a, a); endmodule", {"a", "o"}),
    ("module t(a, o); output o, a; assign o = a ^ a; endmodule", {"a", "o"}),
    ("module t(i, o, z); input i; output o, z; buf g(o, i); endmodule", {"o", "z"}),
]
bad = 0
for txt, outs in TEXTS:
    try:
        c = cg.io.verilog_to_circuit(txt, "t")
        ok = set(c.outputs()) == outs
        print("ok " if ok else "BAD", txt, sorted(c.outputs()))
        bad += not ok
    except Exception as e:  # noqa: BLE001
        print("BAD", txt, type(e).__name__, e)
        bad += 1
sys.exit(1 if bad else 0)
