"""Demo for fixes/proposed/c03-pin-output.diff.

A blackbox pin node marked as output (`c.set_output("ff0.d")`, lint-clean) makes circuit_to_verilog declare the pin node
as a port: `module top (a, clk, q, ff0.d); ... output ff0.d;`.  The text is no Verilog, verilog_to_circuit stops at the dot
(lark UnexpectedToken), so the round trip of C03 fails for such a circuit in both styles.  The pin node cannot be named in
the text at all; the patch makes the writer refuse the circuit with a ValueError instead of emitting unreadable text.
Run with PYTHONPATH=<repo>; exits 0 iff the writer either raises ValueError or emits text that reads back with the same outputs.
"""
import sys
import circuitgraph as cg
from circuitgraph import BlackBox

bb = BlackBox("dff", ["d", "clk"], ["q"])
bad = 0
for pin in ("ff0.d", "ff0.q"):
    for beh in (False, True):
        c = cg.Circuit(name="top")
        c.add("a", "input")
        c.add("clk", "input")
        c.add_blackbox(bb, "ff0", {"d": "a", "clk": "clk"})
        c.add("q", "buf", fanin=["ff0.q"], output=True)
        c.set_output(pin)
        try:
            txt = cg.io.circuit_to_verilog(c, behavioral=beh)
        except ValueError as e:
            print("ok  writer refuses:", e)
            continue
        try:
            c2 = cg.io.verilog_to_circuit(txt, "top", [bb])
            ok = set(c2.outputs()) == set(c.outputs())
            print("ok " if ok else "BAD", pin, beh, sorted(c2.outputs()))
            bad += not ok
        except Exception as e:  # noqa: BLE001
            print("BAD", pin, beh, type(e).__name__, str(e).splitlines()[0])
            bad += 1
sys.exit(1 if bad else 0)
