"""Demo for fixes/proposed/c05-insert-registers-args.diff (C05 / C20): tx.insert_registers accepts argument combinations
that do not splice the flop between n and its loads or that return a circuit cg.lint rejects.

usage: PYTHONPATH=<tree>:/verif/harness/shims /venv/bin/python c05-insert-registers-args.py
exit 0 = every bad combination is rejected with ValueError and the good ones still work; exit 1 otherwise.
Unpatched tree: exit 1 (all four bad combinations are accepted)."""
import itertools
import sys

import circuitgraph as cg


def base():
    c = cg.Circuit()
    for n in "ab":
        c.add(n, "input")
    c.add("x", "and", fanin=["a", "b"])
    c.add("y", "not", fanin="x")
    c.add("z", "or", fanin=["y", "a"], output=True)
    return c


def value(c, node, asg, short):
    """evaluate `node`; every ff_<n>.q reads ff_<n>.d when short (transparent flops)"""
    t = c.type(node)
    if t == "input":
        return asg[node]
    if t == "bb_output":
        inst = node.split(".")[0]
        return value(c, inst + ".d", asg, short)
    fi = [value(c, f, asg, short) for f in sorted(c.fanin(node))]
    if t in ("buf", "bb_input"):
        return fi[0]
    if t == "not":
        return not fi[0]
    return {"and": all(fi), "or": any(fi)}[t]


bad = {
    "q_suffix with a dot": dict(q_suffix=".q"),
    "unwired flop input": dict(ff=cg.BlackBox("dffr", ["clk", "d", "rst"], ["q"])),
    "other_flop_io names d_port": dict(other_flop_io={"clk": "clk", "d": "a"}),
    "q_port is an input": dict(ff=cg.BlackBox("f", ["clk", "d", "e"], ["q"]), q_port="e"),
}
ok = True
for name, kw in bad.items():
    c = base()
    try:
        r = cg.tx.insert_registers(c, 1, **kw)
    except ValueError as e:
        print(f"rejected  {name}: {e}")
        continue
    ok = False
    try:
        cg.lint(r)
        lint = "lint ok"
    except ValueError as e:
        lint = f"lint fails ({e})"
    funcs = "?"
    try:
        diff = [asg for asg in ({"a": x, "b": y, "clk": False, "d": False} for x, y in itertools.product([False, True], repeat=2))
                if value(r, "z", asg, True) != value(c, "z", asg, False)]
        funcs = "z differs at " + str(diff[0]) if diff else "function kept"
    except Exception as e:  # undriven nodes etc.
        funcs = f"not evaluable ({type(e).__name__})"
    print(f"ACCEPTED  {name}: {lint}; {funcs}")
# the intended uses still work
for kw in (dict(), dict(ff=cg.BlackBox("dffr", ["clk", "d", "rst"], ["q"]), other_flop_io={"clk": "clk", "rst": "rst"}),
           dict(ff=cg.BlackBox("dff", ["ck", "D"], ["Q"]), d_port="D", q_port="Q", other_flop_io={"ck": "ck"}), dict(q_suffix="_r")):
    r = cg.tx.insert_registers(base(), 1, **kw)
    cg.lint(r)
sys.exit(0 if ok else 1)
