"""C06: strip_blackboxes silently merges two pins whose names coincide after '.' -> '_'.

Instances "a.b" and "a_b" of the same blackbox have pins a.b.d / a_b.d; both are renamed to a_b_d.  The overlap check only
looks for the new name among the *existing* nodes, so networkx merges the two pins: one buffer with two drivers, and the loads
of both q pins hang on one input.  Expected: every pin exposed under its own name, or ValueError.

usage: PYTHONPATH=<tree>:/verif/harness/shims /venv/bin/python strip-blackboxes-pin-merge.py   (exit 0 = fixed)
"""
import sys
import circuitgraph as cg

c = cg.Circuit()
c.add("x", "input"); c.add("y", "input")
c.add("o1", "buf", output=True); c.add("o2", "buf", output=True)
bb = cg.BlackBox("ff", ["d"], ["q"])
c.add_blackbox(bb, "a.b", {"d": "x", "q": "o1"})
c.add_blackbox(bb, "a_b", {"d": "y", "q": "o2"})
try:
    s = cg.tx.strip_blackboxes(c)
except ValueError as e:
    print("rejected:", e)
    sys.exit(0)
pins = 4
exposed = len(s.inputs() - {"x", "y"}) + len(s.outputs() - {"o1", "o2"})
print("pins:", pins, "exposed io:", exposed, {n: sorted(s.fanin(n)) for n in s.nodes() if len(s.fanin(n)) > 1})
sys.exit(0 if exposed == pins else 1)
