"""Translator plug-in for the construction API of circuitgraph/circuit.py -> theories/Gen/Gen_api.v  (C07).

For each mutator of `Circuit` that Base/Api.v models (add, connect, disconnect, remove, set_output, add_blackbox,
add_subcircuit, fill_blackbox, uid, relabel) the body is linearised statement by statement, in source order, into a list of
strings "<depth> <statement header>": tests, loops, try/except, raises (the message is dropped, the exception class kept),
mutations and returns, exactly as written (docstrings removed, whitespace normalised by ast.unparse).  The lists are
emitted as Coq data; Model/ApiOrder.v holds the order of checks and effects that the model `step` implements and
Properties/C07.v proves the two equal (`C07_api_order_ok`).  So a check that moves behind an effect, a dropped undo, a changed
pin-name template or a new early return in circuit.py breaks a proof obligation, not only the correspondence run.
Fail closed: a missing method, a nested function, a non-ASCII literal or an unknown statement kind is a Shape error.
"""
import ast

Shape = T.Shape          # noqa: F821  (T = gen/translate.py, injected by load_plugins)
find_func = T.find_func  # noqa: F821

METHODS = ["add", "connect", "disconnect", "remove", "set_output", "set_type", "add_blackbox", "add_subcircuit", "fill_blackbox",
           "uid", "relabel"]


def _one_line(node):
    return " ".join(ast.unparse(node).split())


def _lines(stmts, depth, out, where):
    for s in stmts:
        if isinstance(s, ast.Expr) and isinstance(s.value, ast.Constant) and isinstance(s.value.value, str):
            continue                                   # docstring / bare string
        if isinstance(s, ast.If):
            out.append(f"{depth} if {_one_line(s.test)}:")
            _lines(s.body, depth + 1, out, where)
            if s.orelse:
                out.append(f"{depth} else:")
                _lines(s.orelse, depth + 1, out, where)
        elif isinstance(s, ast.For):
            if s.orelse:
                raise Shape(f"api: for/else in {where}")
            out.append(f"{depth} for {_one_line(s.target)} in {_one_line(s.iter)}:")
            _lines(s.body, depth + 1, out, where)
        elif isinstance(s, ast.While):
            if s.orelse:
                raise Shape(f"api: while/else in {where}")
            out.append(f"{depth} while {_one_line(s.test)}:")
            _lines(s.body, depth + 1, out, where)
        elif isinstance(s, ast.Try):
            if s.orelse or s.finalbody:
                raise Shape(f"api: try/else/finally in {where}")
            out.append(f"{depth} try:")
            _lines(s.body, depth + 1, out, where)
            for h in s.handlers:
                if h.name is not None:
                    raise Shape(f"api: named exception handler in {where}")
                out.append(f"{depth} except {_one_line(h.type) if h.type else ''}:")
                _lines(h.body, depth + 1, out, where)
        elif isinstance(s, ast.Raise):
            if s.exc is None:
                out.append(f"{depth} raise")
            elif isinstance(s.exc, ast.Call) and isinstance(s.exc.func, ast.Name):
                out.append(f"{depth} raise {s.exc.func.id}")          # the message is not part of the behaviour
            else:
                raise Shape(f"api: unexpected raise in {where} line {s.lineno}")
        elif isinstance(s, (ast.Assign, ast.AugAssign, ast.Expr, ast.Return, ast.Delete, ast.Pass)):
            out.append(f"{depth} {_one_line(s)}")
        else:
            raise Shape(f"api: unexpected statement {type(s).__name__} in {where} line {s.lineno}")


def _cstr(s, where):
    if any(ord(ch) > 126 or ord(ch) < 32 for ch in s):
        raise Shape(f"api: unexpected character in {where}: {s!r}")
    return '"' + s.replace('"', '""') + '"'


def gen_api(repo):
    src = (repo / "circuitgraph" / "circuit.py").read_text()
    tree = ast.parse(src)
    out = T.HEADER % "circuitgraph/circuit.py (order of checks and effects in the construction API)"   # noqa: F821
    for m in METHODS:
        f = find_func(tree, m, cls="Circuit")
        for n in ast.walk(f):
            if n is not f and isinstance(n, (ast.FunctionDef, ast.Lambda, ast.ClassDef)):
                raise Shape(f"api: nested definition in Circuit.{m}")
        a = f.args
        if a.vararg or a.kwarg or a.kwonlyargs or a.posonlyargs:
            raise Shape(f"api: unexpected parameter kinds in Circuit.{m}")
        sig = [x.arg for x in a.args]
        defaults = [_one_line(x) for x in a.defaults]
        lines = ["sig " + ", ".join(sig) + " | " + ", ".join(defaults)]
        _lines(f.body, 0, lines, f"Circuit.{m}")
        out += f"Definition api_{m} : list string := [\n  " + ";\n  ".join(_cstr(l, f"Circuit.{m}") for l in lines) + "].\n"
    return out


GENERATORS = {"Gen_api.v": gen_api}
