"""Translator plug-in for io.bench_to_circuit / io.circuit_to_bench -> theories/Gen/Gen_bench.v  (C15).

Both functions are compared, statement by statement, with a skeleton in which every string literal, every literal
list/tuple of strings and every f-string is a hole (`H`).  The holes are emitted as Coq data (gate-name list of the
reader's alternation, the BUFF folding, the parity gates and their empty-remainder constants, the DFF blackbox
definition, instance-name template and pin wiring, the comment pattern and the scan patterns, the characters stripped from operand
strings, the writer's gate list and its constant encoding) or, where the model has no parameter for them, compared
with the expected literal.  Call structure, flags (add_connected_nodes / allow_redefinition), the order of the four
reader passes and the `.lower()` / `.upper()` calls are part of the skeleton: any change there fails closed.
"""
import ast

Shape = T.Shape          # noqa: F821  (T = gen/translate.py, injected by load_plugins)
find_func = T.find_func  # noqa: F821

READER = '''\
def bench_to_circuit(netlist, name):
    c = Circuit(name=name)
    dff = BlackBox(H, H, H)
    netlist = re.sub(H, H, netlist)
    in_regex = H
    for net_str in re.findall(in_regex, netlist, re.DOTALL):
        nets = net_str.replace(H, H).replace(H, H).replace(H, H).split(H)
        for n in nets:
            c.add(n, H)
    gate_types = H
    gate_types = H.join(gate_types + [s.upper() for s in gate_types])
    regex = H
    for (net, gate, input_str) in re.findall(regex, netlist):
        inputs = input_str.replace(H, H).replace(H, H).replace(H, H).split(H)
        if gate in H:
            gate = H
        gate = gate.lower()
        if gate in H:
            inputs = [i for i in dict.fromkeys(inputs) if inputs.count(i) % 2]
            if not inputs:
                gate = H if gate == H else H
        c.add(net, gate, fanin=inputs, add_connected_nodes=True, allow_redefinition=True)
    regex = H
    for (net, gate, input_str) in re.findall(regex, netlist):
        c.add(net, H, allow_redefinition=True)
    for (net, gate, input_str) in re.findall(regex, netlist):
        inputs = input_str.replace(H, H).replace(H, H).replace(H, H)
        c.add_blackbox(dff, H, connections={H: inputs, H: net})
    in_regex = H
    for net_str in re.findall(in_regex, netlist, re.DOTALL):
        nets = net_str.replace(H, H).replace(H, H).replace(H, H).split(H)
        for n in nets:
            c.set_output(n)
    return c'''

WRITER = '''\
def circuit_to_bench(c):
    insts = []
    if c.blackboxes:
        raise ValueError(H)
    const_inp = c.inputs().pop()
    for n in c.nodes() - c.inputs():
        if c.type(n) in H:
            fanin = H.join(c.fanin(n))
            insts.append(H)
        elif c.type(n) in H:
            insts.append(H)
        elif c.type(n) in H:
            insts.append(H)
        else:
            raise ValueError(H)
    bench = H
    bench += H.join((H for inp in c.inputs()))
    bench += H
    bench += H.join((H for out in c.outputs()))
    bench += H
    bench += H.join(insts)
    return bench'''


class _Holes(ast.NodeTransformer):
    """every str constant / literal str list / f-string -> Name H; values recorded in source order"""

    def __init__(self):
        self.holes = []

    def _hole(self, v):
        self.holes.append(v)
        return ast.Name(id="H", ctx=ast.Load())

    def visit_Constant(self, node):
        if isinstance(node.value, str):
            return self._hole(node.value)
        return node

    def visit_List(self, node):
        if node.elts and all(isinstance(e, ast.Constant) and isinstance(e.value, str) for e in node.elts):
            return self._hole([e.value for e in node.elts])
        return self.generic_visit(node)

    visit_Tuple = visit_List

    def visit_JoinedStr(self, node):
        parts = []
        for v in node.values:
            if isinstance(v, ast.Constant):
                parts.append(("lit", v.value))
            elif isinstance(v, ast.FormattedValue) and v.conversion == -1 and v.format_spec is None:
                parts.append(("var", " ".join(ast.unparse(v.value).split())))
            else:
                raise Shape(f"bench: unsupported f-string at line {node.lineno}")
        return self._hole(("f", parts))


def _strip_doc(f):
    if f.body and isinstance(f.body[0], ast.Expr) and isinstance(f.body[0].value, ast.Constant) and isinstance(f.body[0].value.value, str):
        f.body = f.body[1:]
    f.decorator_list = []
    return f


def _match(repo, fname, skeleton):
    src = (repo / "circuitgraph" / "io.py").read_text()
    f = _strip_doc(find_func(ast.parse(src), fname))
    h = _Holes()
    f = ast.fix_missing_locations(h.visit(f))
    got = ast.unparse(f).strip().splitlines()
    want = ast.unparse(ast.parse(skeleton)).strip().splitlines()
    for i, (a, b) in enumerate(zip(got, want)):
        if a != b:
            raise Shape(f"{fname}: statement {i} changed: got `{a.strip()}`, expected `{b.strip()}`")
    if len(got) != len(want):
        raise Shape(f"{fname}: {len(got)} statements, expected {len(want)}")
    return h.holes


def _expect(what, got, want):
    if got != want:
        raise Shape(f"{what}: got {got!r}, expected {want!r}")


def _cs(s):
    if not isinstance(s, str) or any(ord(ch) > 126 or (ord(ch) < 32 and ch not in "\n\t") for ch in s):
        raise Shape(f"bench: unexpected characters in literal {s!r}")
    return '"' + s.replace('"', '""') + '"'


def _csl(l):
    if not isinstance(l, list):
        raise Shape(f"bench: expected a literal list of strings, got {l!r}")
    return "[" + "; ".join(_cs(s) for s in l) + "]"


def _chars(cs_):
    """single-character literals -> Coq ascii list (as decimal codes, so that newline/tab need no escapes)"""
    for ch in cs_:
        if not (isinstance(ch, str) and len(ch) == 1):
            raise Shape(f"bench: expected a one-character literal, got {ch!r}")
    return "[" + "; ".join(f"ascii_of_nat {ord(ch)}" for ch in cs_) + "]"


def _strip3(holes, what):
    """.replace(a, "").replace(b, "").replace(c, "") -> [a, b, c]"""
    a, e1, b, e2, c, e3 = holes
    _expect(what + ": replacement strings", [e1, e2, e3], ["", "", ""])
    return [a, b, c]


def _ftemplate(h, want_vars, what):
    if not (isinstance(h, tuple) and h[0] == "f"):
        raise Shape(f"{what}: expected an f-string")
    return h[1]



# ------------------------------------------------------------------ patterns -> regex terms of Model/Regex.v
def _re_term(pattern):
    """Parse a pattern with Python's own pattern parser and print it as a term of type `re` (fail closed on any
    construct outside the modelled subset)."""
    try:
        import re._parser as sp
        import re._constants as sc
    except ImportError:                     # Python < 3.11
        import sre_parse as sp
        import sre_constants as sc

    CATS = {sc.CATEGORY_SPACE: [(9, 13), (28, 32)], sc.CATEGORY_DIGIT: [(48, 57)]}   # on ASCII text

    def rng(rs):
        return "[" + "; ".join("(%d, %d)" % r for r in rs) + "]"

    def seq(items):
        ts = [one(op, av) for op, av in items]
        if not ts:
            return "REps"
        out = ts[-1]
        for t in reversed(ts[:-1]):
            out = f"(RSeq {t} {out})"
        return out

    def one(op, av):
        if op == sc.LITERAL:
            if av > 126:
                raise Shape("bench: non-ASCII literal in a pattern")
            return f"(RLit {av})"
        if op == sc.NOT_LITERAL:
            return f"(RCls (Cl true {rng([(av, av)])}))"
        if op == sc.IN:
            neg, rs = False, []
            for o, a in av:
                if o == sc.NEGATE:
                    neg = True
                elif o == sc.LITERAL:
                    rs.append((a, a))
                elif o == sc.RANGE:
                    rs.append((a[0], a[1]))
                elif o == sc.CATEGORY and a in CATS:
                    rs += CATS[a]
                else:
                    raise Shape(f"bench: unsupported class item {o} {a} in a pattern")
            return f"(RCls (Cl {'true' if neg else 'false'} {rng(rs)}))"
        if op == sc.MAX_REPEAT:
            lo, hi, sub = av
            if hi != sc.MAXREPEAT or lo not in (0, 1):
                raise Shape("bench: unsupported repetition bounds in a pattern")
            return f"({'RStar' if lo == 0 else 'RPlus'} {seq(sub)})"
        if op == sc.SUBPATTERN:
            gid, add, dele, sub = av
            if add or dele:
                raise Shape("bench: inline flags in a pattern")
            return seq(sub) if gid is None else f"(RGrp {gid} {seq(sub)})"
        if op == sc.BRANCH:
            alts = [seq(a) for a in av[1]]
            out = alts[-1]
            for t in reversed(alts[:-1]):
                out = f"(RAlt {t} {out})"
            return out
        raise Shape(f"bench: unsupported pattern construct {op}")

    parsed = sp.parse(pattern)
    if parsed.state.flags & ~sc.SRE_FLAG_UNICODE:
        raise Shape("bench: pattern sets flags")
    return seq(list(parsed))

def gen_bench(repo):
    R = _match(repo, "bench_to_circuit", READER)
    W = _match(repo, "circuit_to_bench", WRITER)
    it = iter(R)
    nx = lambda: next(it)
    dff_name, dff_in, dff_out = nx(), nx(), nx()
    pat_comment, comment_repl = nx(), nx()
    in_regex = nx()
    strip_in = _strip3([nx() for _ in range(6)], "input pass"); split_in = nx()
    ty_input = nx()
    gate_types = nx(); alt_sep = nx()
    gate_regex = nx()
    strip_g = _strip3([nx() for _ in range(6)], "gate pass"); split_g = nx()
    buff_names = nx(); buff_to = nx()
    parity = nx()
    par_test, par0, par1 = nx(), nx(), nx()   # IfExp is visited test, body, orelse
    dff_regex = nx()
    ty_qbuf = nx()
    strip_d = _strip3([nx() for _ in range(6)], "dff pass")
    inst_t = nx(); pin_d = nx(); pin_q = nx()
    out_regex = nx()
    strip_o = _strip3([nx() for _ in range(6)], "output pass"); split_o = nx()
    if list(it):
        raise Shape("bench_to_circuit: unexpected extra literals")

    # literals the model has no parameter for: must be the expected ones
    _expect("comment replacement", comment_repl, "")
    _expect("type of declared inputs", ty_input, "input")
    _expect("type of DFF output nets", ty_qbuf, "buf")
    _expect("alternation separator", alt_sep, "|")
    _expect("operand separator", [split_in, split_g, split_o], [",", ",", ","])
    for s in (strip_in, strip_g, strip_d, strip_o):
        _expect("stripped characters", s, [" ", "\n", "\t"])
    if not (isinstance(dff_in, list) and isinstance(dff_out, list) and len(dff_in) == 1 and len(dff_out) == 1):
        raise Shape("bench: the dff blackbox must have one input and one output pin")
    _expect("dff connections", [pin_d, pin_q], [dff_in[0], dff_out[0]])
    _expect("dff instance name", inst_t, ("f", [("var", "net"), ("lit", "_dff")]))
    if not (isinstance(gate_regex, tuple) and gate_regex[0] == "f" and [p for p in gate_regex[1] if p[0] == "var"] == [("var", "gate_types")]):
        raise Shape("bench: gate pattern is not an f-string over gate_types")
    g_pre = "".join(v for k, v in gate_regex[1][:[p[0] for p in gate_regex[1]].index("var")] if k == "lit")
    g_post = "".join(v for k, v in gate_regex[1][[p[0] for p in gate_regex[1]].index("var") + 1:] if k == "lit")
    if not isinstance(parity, (list,)) or par_test not in parity or len(parity) != 2:
        raise Shape("bench: parity gate test changed")
    other = [p for p in parity if p != par_test][0]
    if not isinstance(buff_names, list):
        raise Shape("bench: BUFF folding test changed")

    # writer
    it = iter(W)
    w_bb_msg = nx()
    w_gates = nx(); w_sep = nx(); w_gate_line = nx()
    w_c0 = nx(); w_c0_line = nx()
    w_c1 = nx(); w_c1_line = nx()
    w_unknown = nx()
    w_head = nx(); w_j1 = nx(); w_in = nx(); w_nl1 = nx(); w_j2 = nx(); w_out = nx(); w_nl2 = nx(); w_j3 = nx()
    if list(it):
        raise Shape("circuit_to_bench: unexpected extra literals")
    _expect("writer operand separator", w_sep, ", ")
    _expect("writer gate line", w_gate_line, ("f", [("var", "n"), ("lit", " = "), ("var", "c.type(n).upper()"), ("lit", "("), ("var", "fanin"), ("lit", ")")]))
    _expect("writer header", w_head, ("f", [("lit", "# "), ("var", "c.name"), ("lit", "\n")]))
    _expect("writer joins", [w_j1, w_nl1, w_j2, w_nl2, w_j3], ["", "\n", "", "\n", "\n"])

    def const_line(h, what):
        if not (isinstance(h, tuple) and h[0] == "f"):
            raise Shape(f"{what}: expected an f-string")
        p = h[1]
        if not (len(p) == 6 and p[0] == ("var", "n") and p[1][0] == "lit" and p[1][1].startswith(" = ") and p[1][1].endswith("(")
                and p[2] == ("var", "const_inp") and p[3] == ("lit", ", ") and p[4] == ("var", "const_inp") and p[5] == ("lit", ")")):
            raise Shape(f"{what}: expected f\"{{n}} = GATE({{const_inp}}, {{const_inp}})\"")
        return p[1][1][3:-1]

    def io_line(h, var, what):
        if not (isinstance(h, tuple) and h[0] == "f" and len(h[1]) == 3 and h[1][0][0] == "lit" and h[1][0][1].endswith("(")
                and h[1][1] == ("var", var) and h[1][2] == ("lit", ")\n")):
            raise Shape(f"{what}: expected f\"KEYWORD({{{var}}})\\n\"")
        return h[1][0][1][:-1]

    c0_gate, c1_gate = const_line(w_c0_line, "constant 0 line"), const_line(w_c1_line, "constant 1 line")
    kw_in, kw_out = io_line(w_in, "inp", "INPUT line"), io_line(w_out, "out", "OUTPUT line")
    if not (isinstance(w_c0, list) and isinstance(w_c1, list) and isinstance(w_gates, list)):
        raise Shape("circuit_to_bench: type tests changed")

    out = T.HEADER % "circuitgraph/io.py (bench_to_circuit, circuit_to_bench)"   # noqa: F821
    out = out.replace("From stdpp Require Import strings.", "From Coq Require Import Ascii.\nFrom stdpp Require Import strings.")
    out = out.replace("From CG Require Import Types.", "From CG Require Import Types Model.Regex.")
    out += "(* ---- reader ---- *)\n"
    out += f"Definition rd_gate_types : list string := {_csl(gate_types)}.   (* the alternation is this list followed by its upper-cased copy *)\n"
    out += f"Definition rd_buff_names : list string := {_csl(buff_names)}.\n"
    out += f"Definition rd_buff_to : string := {_cs(buff_to)}.\n"
    out += f"Definition rd_parity : list string := {_csl(parity)}.      (* tested after case folding *)\n"
    out += f"Definition rd_parity_empty : list (string * string) := [({_cs(par_test)}, {_cs(par0)}); ({_cs(other)}, {_cs(par1)})].\n"
    out += f"Definition rd_dff_name : string := {_cs(dff_name)}.\n"
    out += f"Definition rd_dff_in : string := {_cs(dff_in[0])}.\n"
    out += f"Definition rd_dff_out : string := {_cs(dff_out[0])}.\n"
    out += f"Definition rd_dff_suffix : string := {_cs('_dff')}.\n"
    out += f"Definition rd_strip : list ascii := {_chars(strip_g)}.\n"
    out += f"Definition rd_split : ascii := ascii_of_nat {ord(split_g)}.\n"
    out += "(* scan patterns as handed to re.findall (the gate pattern is prefix ++ alternation ++ suffix) *)\n"
    out += f"Definition rd_pat_comment : string := {_cs(pat_comment)}.   (* removed from the text before the first scan *)\n"
    out += f"Definition rd_pat_input : string := {_cs(in_regex)}.\n"
    out += f"Definition rd_pat_gate_pre : string := {_cs(g_pre)}.\n"
    out += f"Definition rd_pat_gate_post : string := {_cs(g_post)}.\n"
    out += f"Definition rd_pat_dff : string := {_cs(dff_regex)}.\n"
    out += f"Definition rd_pat_output : string := {_cs(out_regex)}.\n"
    out += "(* the same patterns as parsed by Python's own pattern parser, as terms of Model/Regex.v; the gate pattern is assembled\n"
    out += "   like the reader does: prefix ++ \"|\".join(gate_types + upper-cased gate_types) ++ suffix *)\n"
    gate_full = g_pre + alt_sep.join(gate_types + [t.upper() for t in gate_types]) + g_post
    for nm, pat in (("comment", pat_comment), ("input", in_regex), ("gate", gate_full), ("dff", dff_regex), ("output", out_regex)):
        out += f"Definition rd_re_{nm} : re := {_re_term(pat)}.\n"
    out += f"Definition rd_strip_codes : list nat := [{'; '.join(str(ord(ch)) for ch in strip_g)}].\n"
    out += f"Definition rd_split_code : nat := {ord(split_g)}.\n"
    out += "(* ---- writer ---- *)\n"
    out += f"Definition wr_gates : list gtype := {T.tlist(w_gates)}.       (* written as NAME(operands), NAME = upper-cased type *)\n"   # noqa: F821
    out += f"Definition wr_const0 : list gtype := {T.tlist(w_c0)}.\n"   # noqa: F821
    out += f"Definition wr_const0_gate : string := {_cs(c0_gate)}.\n"
    out += f"Definition wr_const1 : list gtype := {T.tlist(w_c1)}.\n"   # noqa: F821
    out += f"Definition wr_const1_gate : string := {_cs(c1_gate)}.\n"
    out += f"Definition wr_kw_input : string := {_cs(kw_in)}.\n"
    out += f"Definition wr_kw_output : string := {_cs(kw_out)}.\n"
    return out


GENERATORS = {"Gen_bench.v": gen_bench}
