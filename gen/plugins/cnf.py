"""Translator plug-in: circuitgraph/sat.py `cnf` -> coq/theories/Gen/Gen_cnf.v  (tables of type Cnf.TmplTypes.cnf_tables).

Extracted from the source (fail closed: any unrecognised shape raises T.Shape, the Gen file then does not compile):
  * the 1-input demotion table (the two `n_type in [...] and len(c.fanin(n)) == 1` tests and the type each assigns),
  * for every arm of the if/elif chain on n_type the types it serves and its clause templates with literal signs:
      - `for f in c.fanin(n): append([+-n, +-f])` followed by `append([+-n] + [+-f for f in c.fanin(n)])`  -> BMulti (four signs),
      - `if c.fanin(n): f = c.fanin(n).pop(); append(..)*`                                             -> BSingle (clauses over n, f),
      - plain `append([...])` statements over n only                                                   -> BUnit,
      - the parity arm: body of xor_clauses, the chain loop (compared structurally with the modelled one), the final
        xor / inverted-xor step and the clauses that tie n to the inversion net                          -> BParity + t_xor + t_xnor_inv,
  * the exception class of the else arm.
`T` (the translate module: Shape, ty, find_func) is injected by gen/translate.py.
"""
import ast

ROLE = {"n": "RN", "f": "RF", "a": "RA", "b": "RB", "c": "RC", "inv_net": "RI", "new_net": "RC"}


def _norm(node):
    return " ".join(ast.unparse(node).split())


def _lit(e, allowed):
    """`variables.id(x)` / `-variables.id(x)` -> (sign, role)"""
    sign = True
    if isinstance(e, ast.UnaryOp) and isinstance(e.op, ast.USub):
        sign, e = False, e.operand
    if (isinstance(e, ast.Call) and _norm(e.func) == "variables.id" and len(e.args) == 1 and not e.keywords
            and isinstance(e.args[0], ast.Name) and e.args[0].id in allowed):
        return (sign, ROLE[e.args[0].id])
    raise T.Shape(f"cnf: unexpected literal `{_norm(e)}` at line {getattr(e, 'lineno', '?')}")


def _append_arg(stmt):
    """`formula.append(X)` -> X"""
    if (isinstance(stmt, ast.Expr) and isinstance(stmt.value, ast.Call) and _norm(stmt.value.func) == "formula.append"
            and len(stmt.value.args) == 1 and not stmt.value.keywords):
        return stmt.value.args[0]
    raise T.Shape(f"cnf: expected formula.append(...) at line {getattr(stmt, 'lineno', '?')}: `{_norm(stmt)[:60]}`")


def _clause(stmt, allowed):
    arg = _append_arg(stmt)
    if not isinstance(arg, ast.List):
        raise T.Shape(f"cnf: expected a literal clause list at line {stmt.lineno}")
    return [_lit(e, allowed) for e in arg.elts]


def _cclause(cl):
    return "[" + "; ".join(f"({'true' if s else 'false'}, {r})" for s, r in cl) + "]"


def _cclauses(cls):
    return "[" + "; ".join(_cclause(c) for c in cls) + "]"


def _b(x):
    return "true" if x else "false"


def _types_of_test(test):
    """`n_type == 'and'` or `n_type in ['buf', 'bb_input']` -> list of type strings"""
    if isinstance(test, ast.Compare) and len(test.ops) == 1 and _norm(test.left) == "n_type":
        cmp = test.comparators[0]
        if isinstance(test.ops[0], ast.Eq) and isinstance(cmp, ast.Constant) and isinstance(cmp.value, str):
            return [cmp.value]
        if isinstance(test.ops[0], ast.In):
            return T.str_list(cmp)
    raise T.Shape(f"cnf: unexpected arm test `{_norm(test)}`")


def _multi(body):
    """for f in c.fanin(n): append([n-lit, f-lit]);  append([n-lit] + [f-lit for f in c.fanin(n)])"""
    loop, last = body
    if not (isinstance(loop, ast.For) and _norm(loop.target) == "f" and _norm(loop.iter) == "c.fanin(n)" and len(loop.body) == 1 and not loop.orelse):
        raise T.Shape("cnf: per-operand loop changed")
    per = _clause(loop.body[0], ("n", "f"))
    roles = sorted(r for _, r in per)
    if roles != ["RF", "RN"]:
        raise T.Shape(f"cnf: per-operand clause at line {loop.lineno} is not over exactly n and f")
    per_n = next(s for s, r in per if r == "RN")
    per_f = next(s for s, r in per if r == "RF")
    arg = _append_arg(last)
    if not (isinstance(arg, ast.BinOp) and isinstance(arg.op, ast.Add)):
        raise T.Shape(f"cnf: whole-fan-in clause at line {last.lineno} is not `[..] + [.. for f in c.fanin(n)]`")
    left, right = arg.left, arg.right
    if isinstance(left, ast.ListComp):
        left, right = right, left
    if not (isinstance(left, ast.List) and len(left.elts) == 1 and isinstance(right, ast.ListComp) and len(right.generators) == 1):
        raise T.Shape(f"cnf: whole-fan-in clause at line {last.lineno} changed")
    g = right.generators[0]
    if not (_norm(g.target) == "f" and _norm(g.iter) == "c.fanin(n)" and not g.ifs):
        raise T.Shape(f"cnf: whole-fan-in comprehension at line {last.lineno} changed")
    all_n = _lit(left.elts[0], ("n",))[0]
    all_f = _lit(right.elt, ("f",))[0]
    return f"BMulti {_b(per_n)} {_b(per_f)} {_b(all_n)} {_b(all_f)}"


def _single(body):
    (iff,) = body
    if not (isinstance(iff, ast.If) and _norm(iff.test) == "c.fanin(n)" and not iff.orelse and iff.body and _norm(iff.body[0]) == "f = c.fanin(n).pop()"):
        raise T.Shape("cnf: single-operand arm is not `if c.fanin(n): f = c.fanin(n).pop(); ...`")
    return "BSingle " + _cclauses([_clause(s, ("n", "f")) for s in iff.body[1:]])


CHAIN_LOOP = [
    "new_net = ('xor', nets[-2], nets[-1])",
    "variables.id(new_net)",
    "xor_clauses(nets[-2], nets[-1], new_net)",
    "nets = nets[:-2]",
    "nets.insert(0, new_net)",
]


def _parity(body):
    """returns (t_xor clauses, t_xnor_inv clauses)"""
    if len(body) != 4:
        raise T.Shape(f"cnf: parity arm has {len(body)} statements, expected nets/xor_clauses/while/final")
    nets, fdef, loop, fin = body
    if _norm(nets) != "nets = list(c.fanin(n))":
        raise T.Shape("cnf: parity arm does not start with `nets = list(c.fanin(n))`")
    if not (isinstance(fdef, ast.FunctionDef) and fdef.name == "xor_clauses" and [a.arg for a in fdef.args.args] == ["a", "b", "c"]):
        raise T.Shape("cnf: xor_clauses(a, b, c) not found")
    xor = [_clause(s, ("a", "b", "c")) for s in fdef.body]
    if not (isinstance(loop, ast.While) and _norm(loop.test) == "len(nets) > 2" and not loop.orelse and [_norm(s) for s in loop.body] == CHAIN_LOOP):
        raise T.Shape("cnf: the xor chain loop differs from the modelled construction: " + "; ".join(_norm(s) for s in getattr(loop, "body", []))[:200])
    if not (isinstance(fin, ast.If) and _norm(fin.test) == "n_type == 'xor'" and len(fin.body) == 1
            and _norm(fin.body[0]) == "xor_clauses(nets[-2], nets[-1], n)"):
        raise T.Shape("cnf: final xor step changed")
    els = fin.orelse
    if [_norm(s) for s in els[:3]] != ["inv_net = ('xor_inv', n)", "variables.id(inv_net)", "xor_clauses(nets[-2], nets[-1], inv_net)"]:
        raise T.Shape("cnf: final inverted-xor step changed")
    inv = [_clause(s, ("n", "inv_net")) for s in els[3:]]
    return xor, inv


def gen_cnf(repo):
    src = (repo / "circuitgraph" / "sat.py").read_text()
    f = T.find_func(ast.parse(src), "cnf")
    loops = [n for n in f.body if isinstance(n, ast.For)]
    if len(loops) != 1 or _norm(loops[0].target) != "n" or _norm(loops[0].iter) != "c.nodes()":
        raise T.Shape("cnf: `for n in c.nodes()` loop not found")
    body = loops[0].body
    if len(body) != 4 or _norm(body[0]) != "variables.id(n)" or _norm(body[1]) != "n_type = c.type(n)":
        raise T.Shape("cnf: loop body is not `variables.id(n); n_type = c.type(n); <demotion>; <if chain>`")
    if _norm(f.body[-1]) != "return (formula, variables)":
        raise T.Shape("cnf: return statement changed")
    # ---- demotion
    demote = []
    d = body[2]
    while True:
        if not (isinstance(d, ast.If) and isinstance(d.test, ast.BoolOp) and isinstance(d.test.op, ast.And) and len(d.test.values) == 2
                and _norm(d.test.values[1]) == "len(c.fanin(n)) == 1" and len(d.body) == 1 and isinstance(d.body[0], ast.Assign)
                and _norm(d.body[0].targets[0]) == "n_type" and isinstance(d.body[0].value, ast.Constant)):
            raise T.Shape("cnf: demotion test is not `n_type in [...] and len(c.fanin(n)) == 1: n_type = <type>`")
        for t in _types_of_test(d.test.values[0]):
            if t not in [x for x, _ in demote]:       # first matching test wins
                demote.append((t, d.body[0].value.value))
        if not d.orelse:
            break
        if len(d.orelse) != 1:
            raise T.Shape("cnf: demotion chain changed")
        d = d.orelse[0]
    # ---- the if/elif chain
    branches, xor, inv, else_exn = [], None, None, None
    arm = body[3]
    seen = set()
    while True:
        if not isinstance(arm, ast.If):
            raise T.Shape("cnf: if/elif chain on n_type not found")
        types = _types_of_test(arm.test)
        b = arm.body
        if len(b) == 2 and isinstance(b[0], ast.For):
            br = _multi(b)
        elif len(b) == 1 and isinstance(b[0], ast.If):
            br = _single(b)
        elif any(isinstance(s, ast.While) for s in b):
            if xor is not None:
                raise T.Shape("cnf: two parity arms")
            xor, inv = _parity(b)
            br = "BParity"
        else:
            br = "BUnit " + _cclauses([_clause(s, ("n",)) for s in b])
        for t in types:
            if t not in seen:                          # an earlier arm shadows a later one
                seen.add(t)
                branches.append((t, br))
        if not arm.orelse:
            raise T.Shape("cnf: the chain has no else arm")
        if len(arm.orelse) == 1 and isinstance(arm.orelse[0], ast.If):
            arm = arm.orelse[0]
            continue
        e = arm.orelse
        if not (len(e) == 1 and isinstance(e[0], ast.Raise) and isinstance(e[0].exc, ast.Call) and isinstance(e[0].exc.func, ast.Name)):
            raise T.Shape("cnf: else arm is not `raise <Exception>(...)`")
        else_exn = e[0].exc.func.id
        break
    if xor is None:
        raise T.Shape("cnf: no parity arm")
    if else_exn not in ("ValueError", "KeyError", "IndexError", "NotImplementedError", "StopIteration"):
        else_exn = "OtherError"
    out = ("(* GENERATED by gen/plugins/cnf.py from circuitgraph/sat.py (cnf) -- do not edit *)\n"
           "From stdpp Require Import strings.\nFrom CG Require Import Types Cnf.TmplTypes.\n\n")
    out += "Definition gen_cnf_tables : cnf_tables := {|\n"
    out += "  t_demote := [" + "; ".join(f"({T.ty(a)}, {T.ty(b)})" for a, b in demote) + "];\n"
    out += "  t_branches := [\n    " + ";\n    ".join(f"({T.ty(t)}, {br})" for t, br in branches) + "];\n"
    out += f"  t_xor := {_cclauses(xor)};\n"
    out += f"  t_xnor_inv := {_cclauses(inv)};\n"
    out += f"  t_else := {else_exn} |}}.\n"
    return out


GENERATORS = {"Gen_cnf.v": gen_cnf}
