"""Translator plug-in: effect summaries of every function in the scope of C19 -> theories/Gen/Gen_effects.v.

An abstract interpreter over the Python AST of tx.py, props.py, sat.py, io.py (writers), utils.py (lint, visualize) and
class Circuit.  For every function it tracks which local names hold an object that can be shared (a Circuit, its
DiGraph, its blackbox dict, a container of such) and emits, in source order, one instruction of the store DSL of
Model/Store.v for every operation on such an object:

  c.graph / c.blackboxes                     PGetGraph / PGetBbs      (alias)
  g.copy(), g.subgraph(ns).copy()            PCopyGraph               (copy)
  nx.relabel_nodes(g, m)                     PRelabelCopy             (copy; with copy=False: PWrite g and an alias)
  d.copy()                                   PCopyDict
  nx.DiGraph()                               PAllocGraph
  cg.Circuit(graph=g, blackboxes=b)          PMkCircuit               (the constructor stores non-empty arguments by reference)
  cg.Circuit(name), readers, cg.logic.*      PFreshCircuit
  x.m(...) for a read-only Circuit method    PCall Circuit.m
  x.m(...) for a mutating Circuit method     PWrite x                 (+ PCall Circuit.m!arg for circuit arguments)
  f(..., x, ...) for a function in scope     PCall f
  g.add_*/remove_*/update, g.nodes[n][k]=v,
  d[k]=v, del d[k], d.pop, x.name = s        PWrite
  g.nodes, g.predecessors(n), len(x) ...     PRead
  x = y, joins, bb.inputs()/bb.outputs()     PAlias                   (BlackBox.inputs()/outputs() hand out the internal sets)
  containers / iteration / element access    PFrom
  cg.BlackBox(...)                           PAllocVal
  <untracked value>.inputs()/.outputs()      PForeign                 (a BlackBox from a value parameter or module global)
  s |= .., s &= .., s -= .., s ^= .., s.add/update/discard/remove/pop/clear/..._update on a pin set that is (an alias of)
  a BlackBox's own set, attribute stores on a BlackBox       PWriteVal

`if` becomes Choice, loops become Loop, every statement of a `try` body is optional.  Whether a Circuit method is a
mutator is decided by this analysis (its summary writes through `self`), and the result is compared with the list the
property names.  Anything that touches a tracked object in a way not listed above raises Shape: the Gen file then does
not compile and the check fails closed.  The set of public functions found in the source must equal SCOPE.
"""
import ast
import re

Shape = T.Shape          # noqa: F821  (T = gen/translate.py, injected by load_plugins)

# ---- the property's scope (closed): module -> public functions with a circuit argument
SCOPE = {
    "tx": ["strip_io", "strip_outputs", "strip_inputs", "strip_blackboxes", "relabel", "subcircuit", "syn", "aig", "ternary", "miter",
           "sequential_unroll", "unroll", "sensitization_transform", "sensitivity_transform", "limit_fanin", "limit_fanout",
           "acyclic_unroll", "supergates", "insert_registers"],
    "props": ["influence", "avg_sensitivity", "sensitivity", "sensitize", "signal_probability", "levelize"],
    "sat": ["construct_solver", "cnf", "solve", "approx_model_count", "model_count"],
    "io": ["to_file", "circuit_to_verilog", "circuit_to_bench"],
    "utils": ["visualize", "lint"],
}
# public functions without a circuit argument (readers, arithmetic helpers): outside the property, listed so that a new one is noticed
NO_CIRCUIT = {"sat": ["add_assumptions", "remap"], "io": ["from_file", "from_lib", "bench_to_circuit", "verilog_to_circuit"],
              "utils": ["clog2", "int_to_bin", "bin_to_int"], "tx": [], "props": []}
RO_METHODS = ["__contains__", "__len__", "__iter__", "copy", "type", "filter_type", "nodes", "edges", "fanin", "fanout",
              "transitive_fanin", "transitive_fanout", "fanout_depth", "fanin_depth", "paths", "inputs", "is_output", "outputs", "io",
              "startpoints", "endpoints", "reconvergent_fanout_nodes", "has_reconvergent_fanout", "is_cyclic", "uid", "kcuts", "topo_sort"]
MUTATORS = ["set_type", "add_subcircuit", "add_blackbox", "fill_blackbox", "add", "remove", "relabel", "connect", "disconnect",
            "set_output", "remove_unloaded"]
CIRC_NAMES = {"c", "c0", "c1", "sc"}

G_RO = {"nodes", "edges", "predecessors", "successors", "has_edge", "has_node", "in_degree", "out_degree", "in_edges", "out_edges",
        "__contains__", "__len__", "__iter__", "number_of_nodes", "number_of_edges", "neighbors", "degree"}
G_MUT = {"add_node", "add_nodes_from", "add_edge", "add_edges_from", "remove_node", "remove_nodes_from", "remove_edge",
         "remove_edges_from", "update", "clear"}
D_RO = {"items", "keys", "values", "get", "__contains__", "__len__", "__iter__"}
D_MUT = {"pop", "update", "clear", "setdefault", "popitem"}
S_RO = {"__contains__", "__len__", "__iter__", "issubset", "issuperset", "isdisjoint", "union", "intersection", "difference",
        "symmetric_difference", "copy"}
S_MUT = {"add", "update", "discard", "remove", "pop", "clear", "difference_update", "intersection_update",
         "symmetric_difference_update", "__ior__", "__iand__", "__isub__", "__ixor__"}
NX_RO = {"ancestors", "descendants", "is_directed_acyclic_graph", "all_simple_paths", "topological_sort", "immediate_dominators",
         "find_cycle"}
PURE = {"len", "set", "list", "sorted", "enumerate", "iter", "next", "isinstance", "str", "any", "all", "sum", "max", "min", "reduce",
        "reversed", "tuple", "dict", "zip", "range", "int", "bin", "round", "open", "bytes", "print", "Path", "NamedTemporaryFile",
        "defaultdict", "Queue", "combinations", "product", "frozenset", "bool", "abs", "repr", "float", "map", "filter"}
BOXY = {"list", "set", "sorted", "tuple", "reversed", "iter", "frozenset", "enumerate", "zip"}
READERS = {"from_file", "from_lib", "bench_to_circuit", "verilog_to_circuit"}
CG_TOP = {"lint": ("utils", "lint"), "visualize": ("utils", "visualize"), "to_file": ("io", "to_file"), "from_file": ("io", "from_file"),
          "from_lib": ("io", "from_lib")}


class Val:
    """anything that is not tracked (str, int, set of names, BlackBox, None ...)"""
    kind = None

    def __repr__(self):
        return "Val"


VAL = Val()


class Ref:
    """an object of the store held in DSL variable `var`; kind: circ | graph | dict | box | gview (a view into graph `var`)
    | bb (a BlackBox) | pins (a pin set that is, or may be, the internal set of the BlackBox in `var`)"""

    def __init__(self, var, kind, elem=None, isdict=False):
        self.var, self.kind, self.elem, self.isdict = var, kind, elem, isdict


class Tup:
    def __init__(self, items):
        self.items = items


class Fn:
    def __init__(self, node):
        self.node = node


def _norm(n):
    return " ".join(ast.unparse(n).split())


class Terminated(Exception):
    pass


class Ctx:
    """translation of one function (plus everything inlined into it)"""

    def __init__(self, world, qual):
        self.world, self.qual = world, qual
        self.ntmp = 0
        self.versions = {}
        self.inline_stack = []

    def tmp(self, base="t"):
        self.ntmp += 1
        return f"%{base}{self.ntmp}"

    def newvar(self, name):
        k = self.versions.get(name, 0)
        self.versions[name] = k + 1
        return name if k == 0 else f"{name}#{k}"


class Scope:
    def __init__(self, parent=None, prefix=""):
        self.names, self.parent, self.prefix = {}, parent, prefix

    def get(self, n):
        s = self
        while s is not None:
            if n in s.names:
                return s.names[n]
            s = s.parent
        return None


# ------------------------------------------------------------------ program fragments
def do(i):
    return ("do", i)


def seq(items):
    items = [x for x in items if x != ("skip",)]
    if not items:
        return ("skip",)
    if len(items) == 1:
        return items[0]
    return ("seq", items)


def optional(p):
    t = p[0]
    if t == "do":
        return ("choice", p, ("skip",))
    if t == "seq":
        return ("seq", [optional(x) for x in p[1]])
    if t == "choice":
        return ("choice", optional(p[1]), optional(p[2]))
    if t == "loop":
        return ("loop", optional(p[1]))
    return p


def cstr(s):
    return '"' + s.replace('"', '""') + '"'


def simp(p):
    t = p[0]
    if t == "seq":
        return seq([simp(x) for x in p[1]])
    if t == "choice":
        a, b = simp(p[1]), simp(p[2])
        return ("skip",) if a == b == ("skip",) else ("choice", a, b)
    if t == "loop":
        a = simp(p[1])
        return ("skip",) if a == ("skip",) else ("loop", a)
    return p


def emit(p, ind=2):
    pad = " " * ind
    t = p[0]
    if t == "skip":
        return pad + "Skip"
    if t == "do":
        return pad + f"Do ({p[1]})"
    if t == "seq":
        return pad + "seqs [\n" + ";\n".join(emit(x, ind + 2) for x in p[1]) + "]"
    if t == "choice":
        return pad + "Choice (\n" + emit(p[1], ind + 2) + ") (\n" + emit(p[2], ind + 2) + ")"
    if t == "loop":
        return pad + "Loop (\n" + emit(p[1], ind + 2) + ")"
    raise Shape(f"internal: fragment {t}")


# ------------------------------------------------------------------ the interpreter
class Interp:
    def __init__(self, world, qual, fdef, params, self_fresh=False):
        self.w, self.qual, self.fdef = world, qual, fdef
        self.cx = Ctx(world, qual)
        self.out = [[]]
        self.frames = []
        self.scope = Scope()
        self.ret_var = None
        self.ret_shape = None     # None | (kind, elem) | ('tuple', [...])
        self.leaves = set()
        self.params = []
        for a in fdef.args.args + fdef.args.kwonlyargs:
            if a.arg in params:
                v = self.cx.newvar(a.arg)
                self.scope.names[a.arg] = Ref(v, "circ")
                if not (self_fresh and a.arg == "self"):
                    self.params.append(v)
            else:
                self.scope.names[a.arg] = VAL
        if fdef.args.vararg:
            self.scope.names[fdef.args.vararg.arg] = VAL
        if fdef.args.kwarg:
            self.scope.names[fdef.args.kwarg.arg] = VAL
        if self_fresh:
            self.add(f"PFreshCircuit {cstr('self')}")

    def where(self, node):
        return f"{self.qual}:{getattr(node, 'lineno', '?')}"

    # ---- output
    def add(self, instr):
        self.out[-1].append(do(instr))

    def push(self):
        self.out.append([])

    def pop(self):
        return seq(self.out.pop())

    def read(self, r):
        if isinstance(r, Ref):
            self.add(f"PRead {cstr(r.var)}")

    def alias(self, dst, ref):
        self.add(f"PAlias {cstr(dst)} {cstr(ref.var)}")

    def from_(self, dst, refs):
        self.add(f"PFrom {cstr(dst)} [{'; '.join(cstr(r.var) for r in refs)}]")

    # ---- names
    def frame_var(self, name):
        """register that `name` must keep using: it held a tracked object on entry to an enclosing loop or try"""
        for fr in self.frames:
            if fr["scope"] is self.scope and name in fr["names"]:
                return fr["names"][name]
        return None

    def bind(self, name, val, node):
        """assignment `name = val`"""
        keep = self.frame_var(name)
        if isinstance(val, Ref):
            if val.kind == "gview":
                raise Shape(f"{self.where(node)}: a view into a graph is bound to a name")
            if keep is not None:
                dst = keep                         # live across iterations / exception paths: same register (weak update)
            else:
                dst = self.cx.newvar(self.scope.prefix + name)   # otherwise every assignment makes a new version of the name
            self.alias(dst, val)
            self.scope.names[name] = Ref(dst, val.kind, val.elem, val.isdict)
        elif isinstance(val, (Tup, Fn)):
            self.scope.names[name] = val
        else:
            if keep is not None:
                return                             # the register keeps what it may hold from other paths
            self.scope.names[name] = VAL

    def enter_frame(self):
        self.frames.append({"scope": self.scope, "names": {n: v.var for n, v in self.scope.names.items() if isinstance(v, Ref)}})

    def leave_frame(self):
        self.frames.pop()

    def set_names(self, d):
        self.scope.names.clear()
        self.scope.names.update(d)

    def assign_target(self, tgt, val, node):
        if isinstance(tgt, ast.Name):
            self.bind(tgt.id, val, node)
        elif isinstance(tgt, (ast.Tuple, ast.List)):
            if isinstance(val, Tup) and len(val.items) == len(tgt.elts):
                for t, v in zip(tgt.elts, val.items):
                    self.assign_target(t, v, node)
            elif isinstance(val, Ref) and val.kind == "box":
                for t in tgt.elts:
                    el = Ref(val.var, val.elem or "box", None) if val.elem != "val" else VAL
                    self.assign_target(t, el, node)
            elif isinstance(val, Ref):
                raise Shape(f"{self.where(node)}: unpacking of a {val.kind}")
            else:
                for t in tgt.elts:
                    self.assign_target(t, VAL, node)
        elif isinstance(tgt, ast.Starred):
            self.assign_target(tgt.value, val, node)
        elif isinstance(tgt, (ast.Subscript, ast.Attribute)):
            self.store(tgt, val, node)
        else:
            raise Shape(f"{self.where(node)}: assignment target {type(tgt).__name__}")

    def root_of(self, e):
        while isinstance(e, (ast.Subscript, ast.Attribute)):
            e = e.value
        return e

    def store(self, tgt, val, node):
        """x[...] = v / x.a = v / del x[...]: a write into the object the access path starts from"""
        if isinstance(tgt, ast.Subscript):
            self.ev(tgt.slice)
        base = self.ev(tgt.value)
        if isinstance(base, Ref):
            if base.kind == "box":
                if isinstance(val, Ref):
                    if val.kind == "pins":
                        raise Shape(f"{self.where(node)}: a BlackBox's pin set is stored in a container")
                    self.from_(base.var, [base, val])
                return
            if base.kind in ("bb", "pins"):
                self.no_ref(val, node)
                self.add(f"PWriteVal {cstr(base.var)}")       # bb.attr = ..., pins[...] = ...
                return
            if isinstance(val, Ref) and not (base.kind == "dict" and val.kind == "bb"):
                raise Shape(f"{self.where(node)}: a tracked object is stored inside a {base.kind}")
            self.no_ref(val, node)
            if base.kind == "circ" and isinstance(tgt, ast.Attribute) and tgt.attr in ("graph", "blackboxes"):
                raise Shape(f"{self.where(node)}: assignment to .{tgt.attr}")
            self.add(f"PWrite {cstr(base.var)}")
            return
        if isinstance(val, Ref):
            r = self.root_of(tgt)
            if isinstance(r, ast.Name) and isinstance(tgt.value, ast.Name):
                self.grow_box(r.id, val, node, isdict=isinstance(tgt, ast.Subscript))
            else:
                raise Shape(f"{self.where(node)}: a tracked object is stored through {_norm(tgt)}")

    def grow_box(self, name, val, node, isdict=False):
        if val.kind == "pins":
            raise Shape(f"{self.where(node)}: a BlackBox's pin set is stored in a container")
        cur = self.scope.get(name)
        if isinstance(cur, Ref) and cur.kind == "box":
            self.from_(cur.var, [cur, val])
            return
        if isinstance(cur, Ref):
            raise Shape(f"{self.where(node)}: {name} is a {cur.kind}, not a container")
        dst = self.cx.newvar(self.scope.prefix + name)
        self.from_(dst, [val])
        s = self.scope
        while s is not None and name not in s.names:
            s = s.parent
        (s or self.scope).names[name] = Ref(dst, "box", val.kind, isdict)

    # ---- statements
    def block(self, stmts):
        """returns True when the block always ends in return/raise"""
        for i, s in enumerate(stmts):
            if isinstance(s, ast.If):
                self.ev(s.test)
                before = dict(self.scope.names)
                self.push()
                ta = self.block(s.body)
                env_a = dict(self.scope.names)
                self.set_names(before)
                if ta:
                    a = self.pop()
                    # the code after the `if` belongs to the else path only
                    self.push()
                    tb = self.block(s.orelse) or self.block(stmts[i + 1:])
                    b = self.pop()
                    self.out[-1].append(("choice", a, b))
                    return tb
                self.push()
                tb = self.block(s.orelse)
                if tb:
                    b = self.pop()
                    self.set_names(env_a)
                    ta = self.block(stmts[i + 1:])
                    a = self.pop()
                    self.out[-1].append(("choice", a, b))
                    return ta
                env_b = dict(self.scope.names)
                # join: a name holding different registers on the two paths gets a new one fed by both
                merged = dict(env_b)
                join_a, join_b = [], []
                for n in set(env_a) | set(env_b):
                    va, vb = env_a.get(n), env_b.get(n)
                    if isinstance(va, Ref) and isinstance(vb, Ref):
                        if va.var != vb.var:
                            j = self.cx.newvar(self.scope.prefix + n)
                            join_a.append((j, va)); join_b.append((j, vb))
                            merged[n] = Ref(j, va.kind if va.kind == vb.kind else "box", va.elem if va.elem == vb.elem else None)
                    elif isinstance(va, Ref):
                        merged[n] = va
                    elif n not in env_b and n in env_a:
                        merged[n] = va
                for j, v in join_b:
                    self.alias(j, v)
                b = self.pop()
                for j, v in join_a:
                    self.alias(j, v)
                a = self.pop()
                self.set_names(merged)
                self.out[-1].append(("choice", a, b))
                continue
            if self.stmt(s):
                return True
        return False

    def stmt(self, s):
        if isinstance(s, ast.Expr):
            self.ev(s.value)
        elif isinstance(s, ast.Assign):
            v = self.ev(s.value, hint=s.targets[0].id if len(s.targets) == 1 and isinstance(s.targets[0], ast.Name) else None)
            for t in s.targets:
                self.assign_target(t, v, s)
        elif isinstance(s, ast.AnnAssign):
            if s.value is not None:
                self.assign_target(s.target, self.ev(s.value), s)
        elif isinstance(s, ast.AugAssign):
            v = self.ev(s.value)
            if isinstance(s.target, ast.Name):
                cur = self.scope.get(s.target.id)
                if isinstance(cur, Ref) and cur.kind in ("pins", "bb"):
                    # s |= .., s &= .., s -= .., s ^= ..: in place on a set object that is (an alias of) a BlackBox's own set
                    self.no_ref(v, s)
                    self.add(f"PWriteVal {cstr(cur.var)}")
                elif isinstance(v, Ref) and v.kind in ("pins", "bb") and not (isinstance(cur, Ref) and cur.kind == "box"):
                    self.read(v)                # fresh_set |= bb.inputs(): reads the BlackBox
                elif isinstance(v, Ref):
                    if isinstance(cur, Ref) and cur.kind == "box":
                        self.from_(cur.var, [cur, v])
                    else:
                        self.grow_box(s.target.id, v, s)
                elif isinstance(cur, Ref) and cur.kind != "box":
                    raise Shape(f"{self.where(s)}: augmented assignment to a {cur.kind}")
            else:
                self.store(s.target, v, s)
        elif isinstance(s, ast.Delete):
            for t in s.targets:
                if isinstance(t, ast.Name):
                    continue
                self.store(t, VAL, s)
        elif isinstance(s, ast.Return):
            if s.value is not None:
                v = self.ev(s.value)
                self.set_ret(v, s)
            return True
        elif isinstance(s, ast.Raise):
            if s.exc is not None:
                self.ev(s.exc)
            return True
        elif isinstance(s, (ast.For, ast.While)):
            if isinstance(s, ast.For):
                it = self.ev(s.iter)
            self.enter_frame()
            self.push()
            if isinstance(s, ast.For):
                self.assign_target(s.target, self.elem_of(it, s), s)
            else:
                self.ev(s.test)
            self.block(s.body)
            body = self.pop()
            self.out[-1].append(("loop", body))
            self.leave_frame()
            if isinstance(s, ast.While):
                self.ev(s.test)
            self.block(s.orelse)
        elif isinstance(s, ast.Try):
            self.enter_frame()
            self.push()
            self.block(s.body)
            body = self.pop()
            self.out[-1].append(optional(body))
            for h in s.handlers:
                if h.name:
                    self.scope.names[h.name] = VAL
                self.push()
                self.block(h.body)
                hb = self.pop()
                self.out[-1].append(("choice", hb, ("skip",)))
            self.block(s.orelse)
            self.block(s.finalbody)
            self.leave_frame()
        elif isinstance(s, ast.With):
            for it in s.items:
                v = self.ev(it.context_expr)
                if it.optional_vars is not None:
                    self.assign_target(it.optional_vars, VAL if not isinstance(v, Ref) else v, s)
            return self.block(s.body)
        elif isinstance(s, ast.FunctionDef):
            self.scope.names[s.name] = Fn(s)
        elif isinstance(s, (ast.Pass, ast.Import, ast.ImportFrom, ast.Assert, ast.Continue, ast.Break, ast.Global, ast.Nonlocal)):
            if isinstance(s, ast.Assert):
                self.ev(s.test)
        else:
            raise Shape(f"{self.where(s)}: statement {type(s).__name__}")
        return False

    def set_ret(self, v, node):
        if self.inline_ret is not None:
            self.inline_ret.append(v)
            return
        if isinstance(v, Tup):
            refs = [x for x in v.items if isinstance(x, Ref)]
            if not refs:
                return
            shape = ("tuple", [x.kind if isinstance(x, Ref) else "val" for x in v.items])
            self.leaves |= {(x.elem if x.kind == "box" else x.kind) for x in refs}
            self.from_("%ret", refs)
        elif isinstance(v, Ref):
            if v.kind == "gview":
                raise Shape(f"{self.where(node)}: a view into a graph is returned")
            shape = (v.kind, v.elem)
            self.leaves.add(v.elem if v.kind == "box" else v.kind)
            self.from_("%ret", [v])
        else:
            return
        if self.ret_shape is not None and self.ret_shape != shape:
            if self.leaves != {"circ"}:
                raise Shape(f"{self.where(node)}: return statements of different shapes")
            shape = ("box", "circ")                # e.g. a list of circuits on one path, (circuit, dict of circuits) on another
        self.ret_shape, self.ret_var = shape, "%ret"

    inline_ret = None
    leaves = None

    def elem_of(self, it, node, keyed=False):
        if isinstance(it, Ref):
            if it.kind == "box" and it.isdict and not keyed and not isinstance(it.elem, tuple):
                return VAL                            # iterating a dict yields its (untracked) keys
            if it.kind == "box":
                if isinstance(it.elem, tuple):        # d.items() / enumerate(l): (untracked key, element)
                    return Tup([VAL, self.elem_of(Ref(it.var, "box", it.elem[1]), node, keyed=True)])
                if it.elem in (None, "val"):
                    return VAL if it.elem == "val" else Ref(it.var, "box")
                if it.elem == "bb":
                    t = self.cx.tmp("bb")
                    self.from_(t, [it])
                    return Ref(t, "bb")
                return Ref(it.var, it.elem)
            self.read(it)        # iterating a circuit, graph, dict or graph view yields names
        return VAL

    # ---- expressions
    def ev(self, e, hint=None):
        if e is None or isinstance(e, ast.Constant):
            return VAL
        m = getattr(self, "ev_" + type(e).__name__, None)
        if m is None:
            raise Shape(f"{self.where(e)}: expression {type(e).__name__}")
        return m(e)

    def ev_Name(self, e):
        v = self.scope.get(e.id)
        return v if v is not None else VAL

    def ev_JoinedStr(self, e):
        for v in e.values:
            if isinstance(v, ast.FormattedValue):
                self.no_ref(self.ev(v.value), e)
        return VAL

    def no_ref(self, v, node, what="used as a plain value"):
        if isinstance(v, Ref):
            self.read(v)
        return VAL

    def ev_Attribute(self, e):
        b = self.ev(e.value)
        if isinstance(b, Ref):
            if b.kind == "circ":
                if e.attr == "graph":
                    t = self.cx.tmp("g")
                    self.add(f"PGetGraph {cstr(t)} {cstr(b.var)}")
                    return Ref(t, "graph")
                if e.attr == "blackboxes":
                    t = self.cx.tmp("b")
                    self.add(f"PGetBbs {cstr(t)} {cstr(b.var)}")
                    return Ref(t, "dict")
                if e.attr == "name":
                    self.read(b)
                    return VAL
                raise Shape(f"{self.where(e)}: attribute .{e.attr} of a circuit outside a call")
            if b.kind in ("graph", "gview"):
                if e.attr in ("nodes", "edges", "_node", "_adj", "_pred", "_succ", "adj", "pred", "succ"):
                    return Ref(b.var, "gview")
                raise Shape(f"{self.where(e)}: attribute .{e.attr} of a graph outside a call")
            if b.kind == "bb":
                if e.attr in ("input_set", "output_set"):
                    return Ref(b.var, "pins")
                if e.attr == "name":
                    self.read(b)
                    return VAL
            raise Shape(f"{self.where(e)}: attribute .{e.attr} of a {b.kind}")
        if e.attr in ("input_set", "output_set") and not isinstance(b, (Tup, Fn)):
            return self.foreign()
        return VAL

    def foreign(self):
        """the pin set of a BlackBox that is not tracked: a value parameter, a module global"""
        t = self.cx.tmp("ext")
        self.add(f"PForeign {cstr(t)}")
        return Ref(t, "pins")

    def ev_Subscript(self, e):
        self.no_ref(self.ev(e.slice), e)
        b = self.ev(e.value)
        if isinstance(b, Ref):
            if b.kind == "box":
                return self.elem_of(b, e, keyed=True)
            if b.kind == "gview":
                if (b.elem or 0) >= 1:           # g.nodes[n][k]: a value
                    self.read(b)
                    return VAL
                return Ref(b.var, "gview", (b.elem or 0) + 1)
            if b.kind == "dict":
                t = self.cx.tmp("bb")
                self.from_(t, [b])
                return Ref(t, "bb")
            if b.kind == "pins":
                self.read(b)
                return VAL
            raise Shape(f"{self.where(e)}: subscript of a {b.kind}")
        if isinstance(b, Tup) and isinstance(e.slice, ast.Constant) and isinstance(e.slice.value, int) and e.slice.value < len(b.items):
            return b.items[e.slice.value]
        return VAL

    def ev_Slice(self, e):
        for x in (e.lower, e.upper, e.step):
            self.ev(x)
        return VAL

    def mix(self, vals, node, elemwise=False):
        refs = [v for v in vals if isinstance(v, Ref)]
        if not refs:
            return VAL
        for r in refs:
            if r.kind == "gview":
                self.read(r)
        refs = [r for r in refs if r.kind != "gview"]
        if not refs:
            return VAL
        kinds = {r.kind for r in refs}
        t = self.cx.tmp("m")
        self.from_(t, refs)
        if elemwise:
            return Ref(t, "box", kinds.pop() if len(kinds) == 1 else None)
        k = kinds.pop() if len(kinds) == 1 else "box"
        el = {r.elem for r in refs}
        return Ref(t, k, el.pop() if len(el) == 1 else None)

    def ev_BoolOp(self, e):
        return self.mix([self.ev(v) for v in e.values], e)

    def ev_IfExp(self, e):
        self.no_ref(self.ev(e.test), e)
        return self.mix([self.ev(e.body), self.ev(e.orelse)], e)

    def ev_BinOp(self, e):
        a, b = self.ev(e.left), self.ev(e.right)
        boxes = [x for x in (a, b) if isinstance(x, Ref) and x.kind == "box"]
        for x in (a, b):
            if isinstance(x, Ref) and x.kind != "box":
                self.read(x)
        return self.mix(boxes, e)

    def ev_UnaryOp(self, e):
        return self.no_ref(self.ev(e.operand), e)

    def ev_Compare(self, e):
        self.no_ref(self.ev(e.left), e)
        for c in e.comparators:
            self.no_ref(self.ev(c), e)
        return VAL

    def ev_Tuple(self, e):
        items = [self.ev(x) for x in e.elts]
        return Tup(items) if any(isinstance(x, (Ref, Tup)) for x in items) else VAL

    def ev_List(self, e):
        return self.mix([self.flat(self.ev(x), e) for x in e.elts], e, elemwise=True)

    ev_Set = ev_List

    def flat(self, v, node):
        if isinstance(v, Tup):
            return self.mix([self.flat(x, node) for x in v.items], node, elemwise=True)
        return v

    def ev_Dict(self, e):
        for k in e.keys:
            if k is not None:
                self.no_ref(self.ev(k), e)
        r = self.mix([self.flat(self.ev(x), e) for x in e.values], e, elemwise=True)
        if isinstance(r, Ref):
            r.isdict = True
        return r

    def ev_Starred(self, e):
        return self.ev(e.value)

    def ev_Yield(self, e):
        if e.value is not None:
            v = self.ev(e.value)
            if isinstance(v, Ref):
                raise Shape(f"{self.where(e)}: a tracked object is yielded")
        return VAL

    def ev_Lambda(self, e):
        sc = Scope(self.scope, self.scope.prefix)
        for a in e.args.args:
            sc.names[a.arg] = VAL
        old, self.scope = self.scope, sc
        try:
            self.no_ref(self.ev(e.body), e)
        finally:
            self.scope = old
        return VAL

    def comp(self, e, elts):
        sc = Scope(self.scope, self.scope.prefix)
        old, self.scope = self.scope, sc
        self.push()
        try:
            for g in e.generators:
                it = self.ev(g.iter)
                self.comp_target(g.target, self.elem_of(it, e))
                for c in g.ifs:
                    self.no_ref(self.ev(c), e)
            vals = [self.flat(self.ev(x), e) for x in elts]
            res = self.mix(vals, e, elemwise=True)
        finally:
            self.scope = old
            body = self.pop()
        self.out[-1].append(("loop", body))
        return res

    def comp_target(self, t, v):
        if isinstance(t, ast.Name):
            self.scope.names[t.id] = v
        elif isinstance(t, (ast.Tuple, ast.List)):
            if isinstance(v, Tup) and len(v.items) == len(t.elts):
                for x, y in zip(t.elts, v.items):
                    self.comp_target(x, y)
            else:
                for x in t.elts:
                    self.comp_target(x, v if isinstance(v, Ref) else VAL)

    def ev_ListComp(self, e):
        return self.comp(e, [e.elt])

    ev_SetComp = ev_GeneratorExp = ev_ListComp

    def ev_DictComp(self, e):
        r = self.comp(e, [e.value])
        if isinstance(r, Ref):
            r.isdict = True
        return r

    # ---- calls
    def ev_Call(self, e):
        f = e.func
        fn = _norm(f)
        # --- constructors and module functions
        if fn in ("cg.Circuit", "Circuit"):
            return self.mk_circuit(e)
        if fn in ("cg.BlackBox", "BlackBox"):
            self.plain_args(e)             # BlackBox.__init__ copies its arguments into new sets (checked by class_shapes)
            t = self.cx.tmp("bb")
            self.add(f"PAllocVal {cstr(t)}")
            return Ref(t, "bb")
        if fn == "nx.DiGraph":
            if e.args or e.keywords:
                raise Shape(f"{self.where(e)}: nx.DiGraph with arguments")
            t = self.cx.tmp("g")
            self.add(f"PAllocGraph {cstr(t)}")
            return Ref(t, "graph")
        if fn == "nx.relabel_nodes":
            g = self.ev(e.args[0]) if e.args else VAL
            for a in e.args[1:]:
                self.no_ref(self.ev(a), e)
            kw = {k.arg: k.value for k in e.keywords}
            if set(kw) - {"copy"} or not isinstance(g, Ref) or g.kind != "graph":
                raise Shape(f"{self.where(e)}: nx.relabel_nodes call shape")
            if "copy" in kw:
                if not (isinstance(kw["copy"], ast.Constant) and isinstance(kw["copy"].value, bool)):
                    raise Shape(f"{self.where(e)}: nx.relabel_nodes copy= is not a literal")
                if kw["copy"].value is False:
                    self.add(f"PWrite {cstr(g.var)}")
                    return g
            t = self.cx.tmp("g")
            self.add(f"PRelabelCopy {cstr(t)} {cstr(g.var)}")
            return Ref(t, "graph")
        if fn.startswith("nx."):
            vals = self.arg_vals(e)
            if any(isinstance(v, Ref) for v in vals) and fn[3:] not in NX_RO:
                raise Shape(f"{self.where(e)}: {fn} on a tracked graph is not in the read-only list")
            for v in vals:
                self.no_ref(v, e)
            return VAL
        m = re.fullmatch(r"cg\.(tx|sat|io|utils|props|logic)\.(\w+)", fn)
        if m:
            return self.lib_call(m.group(1), m.group(2), e)
        m = re.fullmatch(r"cg\.(\w+)", fn)
        if m and m.group(1) in CG_TOP:
            return self.lib_call(*CG_TOP[m.group(1)], e)
        if isinstance(f, ast.Name):
            v = self.scope.get(f.id)
            if isinstance(v, Fn):
                return self.inline(f.id, v.node, e)
            if v is None and f.id in self.w.module_funcs.get(self.w.module_of(self.qual), {}):
                return self.lib_call(self.w.module_of(self.qual), f.id, e)
            if v is None and f.id in PURE:
                vals = self.arg_vals(e)
                if f.id in ("map", "filter", "reduce", "iter", "reversed", "enumerate", "zip") and any(isinstance(x, Ref) and x.kind == "pins" for x in vals):
                    pass                    # lazily reads the set: still only a read
                boxes = [x for x in vals if isinstance(x, Ref) and x.kind == "box" and not (x.isdict and not isinstance(x.elem, tuple))]
                for x in vals:
                    if isinstance(x, Ref) and x not in boxes:
                        self.read(x)
                if boxes and f.id == "enumerate":
                    return Ref(boxes[0].var, "box", ("item", boxes[0].elem))
                if boxes and f.id in BOXY:
                    return self.mix(boxes, e)
                if boxes and f.id == "next":
                    return self.elem_of(boxes[0], e)
                if boxes and f.id in ("reduce", "map", "filter", "dict", "max", "min", "sum"):
                    raise Shape(f"{self.where(e)}: {f.id} over a container of tracked objects")
                return VAL
            if v is None and f.id == "circuit_to_verilog":       # utils.py imports it by name
                return self.lib_call("io", "circuit_to_verilog", e)
            return self.opaque_call(e)
        if isinstance(f, ast.Attribute):
            b = self.ev(f.value)
            if isinstance(b, Ref):
                return self.method(b, f.attr, e)
            if isinstance(b, Val) and f.attr in ("inputs", "outputs") and not e.args and not e.keywords:
                return self.foreign()      # possibly BlackBox.inputs(): the object's own set
            # a method of an untracked value; a tracked argument turns a named container into a box
            vals = self.arg_vals(e)
            refs = [x for x in vals if isinstance(x, Ref)]
            if refs and all(x.kind in ("pins", "bb") for x in refs) and f.attr in S_RO | {"update", "join", "extend"}:
                for x in refs:
                    self.read(x)           # fresh_set.update(bb.inputs()), a.union(bb.inputs()), ",".join(pins): reads
                return VAL
            if refs:
                if isinstance(f.value, ast.Name) and f.attr in ("add", "append", "put", "insert", "extend", "update", "appendleft"):
                    for r in refs:
                        if r.kind == "gview":
                            raise Shape(f"{self.where(e)}: a graph view is stored in a container")
                        self.grow_box(f.value.id, r, e)
                    return VAL
                if fn in ("tmp_in.write", "f.write"):
                    return VAL
                raise Shape(f"{self.where(e)}: tracked object passed to {fn}")
            return VAL
        return self.opaque_call(e)

    def opaque_call(self, e):
        vals = self.arg_vals(e)
        if any(isinstance(v, Ref) for v in vals):
            raise Shape(f"{self.where(e)}: tracked object passed to unknown callable {_norm(e.func)}")
        self.ev(e.func) if not isinstance(e.func, ast.Name) else None
        return VAL

    def arg_vals(self, e):
        out = []
        for a in e.args:
            out.append(self.flat(self.ev(a), e))
        for k in e.keywords:
            out.append(self.flat(self.ev(k.value), e))
        return out

    def plain_args(self, e):
        for v in self.arg_vals(e):
            self.no_ref(v, e)

    def mk_circuit(self, e):
        kw = {k.arg: k.value for k in e.keywords}
        pos = ["name", "graph", "blackboxes"]
        for i, a in enumerate(e.args):
            kw[pos[i]] = a
        if set(kw) - set(pos):
            raise Shape(f"{self.where(e)}: Circuit(...) arguments")
        if "name" in kw:
            self.no_ref(self.ev(kw["name"]), e)
        g = self.ev(kw["graph"]) if "graph" in kw else VAL
        b = self.ev(kw["blackboxes"]) if "blackboxes" in kw else VAL
        if (isinstance(g, Ref) and g.kind != "graph") or (isinstance(b, Ref) and b.kind != "dict"):
            raise Shape(f"{self.where(e)}: Circuit(graph=<{getattr(g, 'kind', None)}>, blackboxes=<{getattr(b, 'kind', None)}>)")
        if "blackboxes" in kw and not isinstance(b, Ref) and not (isinstance(kw["blackboxes"], ast.Constant) and kw["blackboxes"].value is None):
            raise Shape(f"{self.where(e)}: blackboxes= argument of unknown origin")
        if "graph" in kw and not isinstance(g, Ref) and not (isinstance(kw["graph"], ast.Constant) and kw["graph"].value is None):
            raise Shape(f"{self.where(e)}: graph= argument of unknown origin")
        t = self.cx.tmp("c")
        if not isinstance(g, Ref) and not isinstance(b, Ref):
            self.add(f"PFreshCircuit {cstr(t)}")
        else:
            og = f"(Some {cstr(g.var)})" if isinstance(g, Ref) else "None"
            ob = f"(Some {cstr(b.var)})" if isinstance(b, Ref) else "None"
            self.add(f"PMkCircuit {cstr(t)} {og} {ob}")
        return Ref(t, "circ")

    def bind_call_args(self, fdef, e, skip_self=False):
        """map parameter name -> argument expression (None when omitted)"""
        names = [a.arg for a in fdef.args.args]
        if skip_self:
            names = names[1:]
        got = {}
        for i, a in enumerate(e.args):
            if isinstance(a, ast.Starred) or i >= len(names):
                raise Shape(f"{self.where(e)}: call with *args or too many arguments")
            got[names[i]] = a
        for k in e.keywords:
            if k.arg is None:
                v = self.ev(k.value)          # **kwargs: must not carry tracked objects
                if isinstance(v, Ref):
                    raise Shape(f"{self.where(e)}: tracked object in **kwargs")
                continue
            if k.arg not in names and not fdef.args.kwarg and k.arg not in [a.arg for a in fdef.args.kwonlyargs]:
                raise Shape(f"{self.where(e)}: unknown keyword {k.arg}")
            got[k.arg] = k.value
        return got

    def call_summary(self, key, fdef, cparams, e, recv=None):
        """PCall of table entry `key`; cparams = its circuit parameters in order"""
        got = self.bind_call_args(fdef, e, skip_self=recv is not None)
        args = []
        for p in cparams:
            if p == "self" and recv is not None:
                args.append(recv.var)
                continue
            v = self.ev(got.pop(p)) if p in got else VAL
            if isinstance(v, Ref):
                if v.kind != "circ":
                    raise Shape(f"{self.where(e)}: a {v.kind} is passed for circuit parameter {p} of {key}")
                args.append(v.var)
            else:
                t = self.cx.tmp("none")          # omitted / None: an unrelated new object stands for it
                self.add(f"PFreshCircuit {cstr(t)}")
                args.append(t)
        for p, a in got.items():
            v = self.flat(self.ev(a), e)
            if isinstance(v, Ref):
                if v.kind == "box" and v.elem in ("val", None) and False:
                    continue
                if v.kind in ("circ", "graph", "dict", "pins"):
                    raise Shape(f"{self.where(e)}: a {v.kind} is passed for non-circuit parameter {p} of {key}")
                self.read(v)
        shape = self.w.ret_shape(key)
        al = "[" + "; ".join(cstr(a) for a in args) + "]"
        if shape is None:
            self.add(f"PCall None {cstr(key)} {al}")
            return VAL
        t = self.cx.tmp("r")
        self.add(f"PCall (Some {cstr(t)}) {cstr(key)} {al}")
        if shape[0] == "tuple":
            return Tup([Ref(t, k) if k != "val" else VAL for k in shape[1]])
        return Ref(t, shape[0], shape[1])

    def lib_call(self, mod, name, e):
        if mod == "logic" or name in READERS:
            for v in self.arg_vals(e):
                if isinstance(v, Ref) and v.kind in ("circ", "graph", "dict"):
                    raise Shape(f"{self.where(e)}: tracked object passed to {mod}.{name}")
            t = self.cx.tmp("c")
            self.add(f"PFreshCircuit {cstr(t)}")
            return Ref(t, "circ")
        if name in SCOPE.get(mod, []):
            fdef = self.w.module_funcs[mod][name]
            return self.call_summary(f"{mod}.{name}", fdef, self.w.circ_params(fdef), e)
        if name in self.w.module_funcs.get(mod, {}):
            for v in self.arg_vals(e):
                if isinstance(v, Ref) and v.kind in ("circ", "graph", "dict"):
                    raise Shape(f"{self.where(e)}: tracked object passed to {mod}.{name}, which is outside the scope list")
            return VAL
        raise Shape(f"{self.where(e)}: unknown library function {mod}.{name}")

    def method(self, b, name, e):
        if b.kind == "circ":
            meths = self.w.methods
            if name not in meths:
                raise Shape(f"{self.where(e)}: unknown Circuit method {name}")
            fdef = meths[name]
            if self.w.is_mutator(name):
                others = [p for p in self.w.circ_params(fdef) if p != "self"]
                if others:
                    self.call_summary(f"Circuit.{name}!", fdef, others, e, recv=b)
                else:
                    for v in self.arg_vals(e):
                        if isinstance(v, Ref) and v.kind in ("circ", "graph", "dict", "pins"):
                            raise Shape(f"{self.where(e)}: tracked object passed to Circuit.{name}")
                        self.no_ref(v, e)
                self.add(f"PWrite {cstr(b.var)}")
                return VAL
            return self.call_summary(f"Circuit.{name}", fdef, ["self"], e, recv=b)
        vals = self.arg_vals(e)
        if b.kind == "graph":
            if name == "copy":
                if e.args or e.keywords:
                    raise Shape(f"{self.where(e)}: graph.copy with arguments")
                t = self.cx.tmp("g")
                self.add(f"PCopyGraph {cstr(t)} {cstr(b.var)}")
                return Ref(t, "graph")
            if name == "subgraph":
                t = self.cx.tmp("v")
                self.from_(t, [b])
                return Ref(t, "graph")
            if name in G_RO:
                self.read(b)
                for v in vals:
                    self.no_ref(v, e)
                return VAL
            if name in G_MUT:
                for v in vals:
                    if isinstance(v, Ref) and v.kind not in ("graph", "gview"):
                        raise Shape(f"{self.where(e)}: a {v.kind} is passed to graph.{name}")
                    self.no_ref(v, e)
                self.add(f"PWrite {cstr(b.var)}")
                return VAL
            raise Shape(f"{self.where(e)}: graph method {name} is not classified")
        if b.kind == "gview":
            for v in vals:
                self.no_ref(v, e)
            if name in ("data", "items", "keys", "values", "get", "__contains__"):
                self.read(b)
                return VAL
            if name in D_MUT:
                self.add(f"PWrite {cstr(b.var)}")
                return VAL
            raise Shape(f"{self.where(e)}: method {name} of a graph view is not classified")
        if b.kind == "dict":
            for v in vals:
                if isinstance(v, Ref) and v.kind not in ("box", "bb"):
                    raise Shape(f"{self.where(e)}: a {v.kind} is passed to dict.{name}")
            if name == "copy":
                t = self.cx.tmp("b")
                self.add(f"PCopyDict {cstr(t)} {cstr(b.var)}")
                return Ref(t, "dict")
            if name == "values":
                return Ref(b.var, "box", "bb")
            if name == "items":
                return Ref(b.var, "box", ("item", "bb"))
            if name == "get":
                self.read(b)
                return self.elem_of(Ref(b.var, "box", "bb"), e, keyed=True)
            if name in D_RO:
                self.read(b)
                return VAL
            if name in D_MUT:
                self.add(f"PWrite {cstr(b.var)}")
                return self.elem_of(Ref(b.var, "box", "bb"), e, keyed=True) if name in ("pop", "setdefault") else VAL
            raise Shape(f"{self.where(e)}: dict method {name} is not classified")
        if b.kind == "bb":
            for v in vals:
                self.no_ref(v, e)
            if name in ("inputs", "outputs"):
                return Ref(b.var, "pins")          # the BlackBox's own set, not a copy
            if name == "io":
                self.read(b)
                return VAL                         # a new set
            raise Shape(f"{self.where(e)}: BlackBox method {name} is not classified")
        if b.kind == "pins":
            for v in vals:
                if isinstance(v, Ref) and v.kind not in ("pins", "bb"):
                    raise Shape(f"{self.where(e)}: a {v.kind} is passed to set.{name}")
                self.no_ref(v, e)
            if name in S_RO:
                self.read(b)
                return VAL                         # union/difference/copy ...: a new set
            if name in S_MUT:
                self.add(f"PWriteVal {cstr(b.var)}")
                return VAL
            raise Shape(f"{self.where(e)}: set method {name} is not classified")
        if b.kind == "box":
            refs = [v for v in vals if isinstance(v, Ref)]
            if name in ("add", "append", "put", "insert", "extend", "update", "appendleft"):
                for r in refs:
                    self.from_(b.var, [b, r])
                return VAL
            for r in refs:
                self.read(r)
            if name in ("pop", "get", "popleft"):
                return self.elem_of(b, e, keyed=True)
            if name == "items":
                return Ref(b.var, "box", ("item", b.elem))
            if name == "keys":
                return VAL
            if name == "values":
                return Ref(b.var, "box", b.elem)
            if name in ("copy", "union", "difference", "intersection"):
                return b
            return VAL
        raise Shape(f"{self.where(e)}: method {name} of a {b.kind}")

    def inline(self, name, fdef, e):
        if name in self.cx.inline_stack:
            for v in self.arg_vals(e):
                if isinstance(v, Ref) and v.kind in ("circ", "graph", "dict"):
                    raise Shape(f"{self.where(e)}: tracked object passed in a recursive call of nested function {name}")
            return VAL
        got = self.bind_call_args(fdef, e)
        sc = Scope(self.scope, f"{name}.")
        for a in fdef.args.args:
            v = self.flat(self.ev(got[a.arg]), e) if a.arg in got else VAL
            if isinstance(v, Ref) and v.kind != "gview":
                d = self.cx.newvar(f"{name}.{a.arg}")
                self.alias(d, v)
                sc.names[a.arg] = Ref(d, v.kind, v.elem)
            elif isinstance(v, Ref):
                raise Shape(f"{self.where(e)}: a graph view is passed to nested function {name}")
            else:
                sc.names[a.arg] = VAL
        old_scope, old_ret = self.scope, self.inline_ret
        self.scope, self.inline_ret = sc, []
        self.cx.inline_stack.append(name)
        try:
            self.block([s for s in fdef.body])
            rets = self.inline_ret
        finally:
            self.cx.inline_stack.pop()
            self.scope, self.inline_ret = old_scope, old_ret
        return self.mix([self.flat(r, e) for r in rets], e)


# ------------------------------------------------------------------ the world: all sources
class World:
    def __init__(self, repo):
        self.module_funcs, self.methods = {}, {}
        for mod in ("tx", "props", "sat", "io", "utils"):
            tree = ast.parse((repo / "circuitgraph" / f"{mod}.py").read_text())
            self.module_funcs[mod] = {n.name: n for n in tree.body if isinstance(n, ast.FunctionDef)}
        tree = ast.parse((repo / "circuitgraph" / "circuit.py").read_text())
        cls = [n for n in tree.body if isinstance(n, ast.ClassDef) and n.name == "Circuit"]
        if len(cls) != 1:
            raise Shape("class Circuit not found")
        self.methods = {n.name: n for n in cls[0].body if isinstance(n, ast.FunctionDef)}
        self.init_shape(self.methods.get("__init__"))
        self.blackbox_shape(tree)
        self.done, self.busy = {}, set()
        self._mut = {}

    def init_shape(self, f):
        """Circuit.__init__ must be the constructor that PMkCircuit models"""
        if f is None or [a.arg for a in f.args.args] != ["self", "name", "graph", "blackboxes"]:
            raise Shape("Circuit.__init__: signature")
        body = [s for s in f.body if not (isinstance(s, ast.Expr) and isinstance(s.value, ast.Constant))]
        want = ["if name: self.name = name else: self.name = 'circuit'",
                "if graph: self.graph = graph else: self.graph = nx.DiGraph()",
                "if blackboxes: self.blackboxes = blackboxes else: self.blackboxes = {}"]
        got = [_norm(s) for s in body]
        if got != want:
            raise Shape(f"Circuit.__init__ is not the modelled constructor: {got}")

    def blackbox_shape(self, tree):
        """class BlackBox must be the object the model describes: the constructor copies its arguments into two new sets,
        inputs()/outputs() return those sets themselves, io() builds a new set; nothing else"""
        cls = [n for n in tree.body if isinstance(n, ast.ClassDef) and n.name == "BlackBox"]
        if len(cls) != 1:
            raise Shape("class BlackBox not found")
        want = {"__init__": ["self.name = name", "self.input_set = set(inputs)", "self.output_set = set(outputs)"],
                "inputs": ["return self.input_set"], "outputs": ["return self.output_set"],
                "io": ["return self.output_set | self.input_set"]}
        got = {}
        for m in cls[0].body:
            if isinstance(m, ast.FunctionDef):
                got[m.name] = [_norm(x) for x in m.body if not (isinstance(x, ast.Expr) and isinstance(x.value, ast.Constant))]
            elif not (isinstance(m, ast.Expr) and isinstance(m.value, ast.Constant)):
                raise Shape(f"class BlackBox: unexpected member {_norm(m)[:60]}")
        if got != want:
            bad = sorted(k for k in set(got) | set(want) if got.get(k) != want.get(k))
            raise Shape(f"class BlackBox is not the modelled object: {bad} -> {[got.get(k) for k in bad]}")

    def module_of(self, qual):
        return qual.split(".")[0] if not qual.startswith("Circuit.") else "circuit"

    def circ_params(self, fdef):
        doc = ast.get_docstring(fdef) or ""
        named = set(re.findall(r"^\s*(\w+)\s*:\s*(?:cg\.|circuitgraph\.)?Circuit\b", doc, flags=re.M))
        return [a.arg for a in fdef.args.args if a.arg in named or a.arg in CIRC_NAMES or a.arg == "self"]

    def key_def(self, key):
        if key.startswith("Circuit."):
            n = key[len("Circuit."):]
            bang = n.endswith("!")
            return self.methods[n.rstrip("!")], bang
        mod, n = key.split(".")
        return self.module_funcs[mod][n], False

    def translate(self, key):
        if key in self.done:
            return self.done[key]
        if key in self.busy:
            return None
        self.busy.add(key)
        try:
            fdef, bang = self.key_def(key)
            it = Interp(self, key, fdef, set(self.circ_params(fdef)), self_fresh=bang)
            it.block(fdef.body)
            body = simp(it.pop())
            res = {"key": key, "params": it.params, "body": body, "ret": it.ret_var, "shape": it.ret_shape}
            self.done[key] = res
            return res
        finally:
            self.busy.discard(key)

    def ret_shape(self, key):
        r = self.translate(key)
        if r is None:
            # recursive call while the function is being translated: only value-returning recursion occurs
            fdef, _ = self.key_def(key)
            for n in ast.walk(fdef):
                if isinstance(n, ast.Return) and n.value is not None and re.search(r"Circuit\(|\.copy\(\)", _norm(n.value)):
                    raise Shape(f"{key}: recursive function returning a tracked object")
            return None
        return r["shape"]

    def is_mutator(self, name):
        """decided by the analysis: the summary of the method writes through self (directly or through a mutator it calls)"""
        if name in self._mut:
            return self._mut[name]
        self._mut[name] = False        # recursion: assume read-only, confirmed below
        fdef = self.methods[name]
        res = self._writes_self(fdef, set())
        self._mut[name] = res
        return res

    def _writes_self(self, fdef, seen):
        for n in ast.walk(fdef):
            # self.graph.<mutator>(...), self.<mutating method>(...), self.graph.nodes[..][..] = .., self.blackboxes[..] = .., del ..
            if isinstance(n, ast.Call) and isinstance(n.func, ast.Attribute):
                tgt = _norm(n.func.value)
                if tgt == "self.graph" and n.func.attr in G_MUT:
                    return True
                if tgt == "self.blackboxes" and n.func.attr in D_MUT:
                    return True
                if tgt == "self" and n.func.attr in self.methods and n.func.attr != fdef.name and n.func.attr not in seen:
                    if self._writes_self(self.methods[n.func.attr], seen | {fdef.name}):
                        return True
                if _norm(n.func) == "nx.relabel_nodes" and any(k.arg == "copy" and _norm(k.value) == "False" for k in n.keywords):
                    return True
            if isinstance(n, (ast.Assign, ast.AugAssign, ast.Delete)):
                tg = n.targets if not isinstance(n, ast.AugAssign) else [n.target]
                for t in tg:
                    if isinstance(t, (ast.Subscript, ast.Attribute)) and _norm(t).startswith("self."):
                        return True
        return False


def gen_effects(repo):
    w = World(repo)
    # ---- the function list is read off the source and must equal the property's scope
    for mod, funcs in w.module_funcs.items():
        public = [n for n in funcs if not n.startswith("_")]
        with_c = [n for n in public if any(p != "self" for p in w.circ_params(funcs[n]))]
        without = [n for n in public if n not in with_c]
        if sorted(with_c) != sorted(SCOPE[mod]):
            raise Shape(f"{mod}.py: public functions with a circuit argument are {sorted(with_c)}, the property's list is {sorted(SCOPE[mod])}")
        if sorted(without) != sorted(NO_CIRCUIT[mod]):
            raise Shape(f"{mod}.py: public functions without a circuit argument are {sorted(without)}, expected {sorted(NO_CIRCUIT[mod])}")
    meths = [m for m in w.methods if m != "__init__"]
    muts = [m for m in meths if w.is_mutator(m)]
    ros = [m for m in meths if m not in muts]
    if sorted(muts) != sorted(MUTATORS) or sorted(ros) != sorted(RO_METHODS):
        raise Shape(f"Circuit methods: mutators found {sorted(muts)}, read-only found {sorted(ros)}; the property's lists differ: "
                    f"{sorted(set(muts) ^ set(MUTATORS))} {sorted(set(ros) ^ set(RO_METHODS))}")
    keys = [f"{mod}.{n}" for mod in SCOPE for n in SCOPE[mod]] + [f"Circuit.{m}" for m in RO_METHODS]
    keys += [f"Circuit.{m}!" for m in MUTATORS]     # what a mutator does to everything but `self` (circuit arguments, BlackBoxes)
    for k in keys:
        w.translate(k)
    out = "(* GENERATED by gen/plugins/effects.py from circuitgraph/{tx,props,sat,io,utils,circuit}.py -- do not edit *)\n"
    out += "From stdpp Require Import strings.\nFrom CG Require Import Model.Store.\nOpen Scope string_scope.\n\n"
    names = []
    for k in keys:
        r = w.done[k]
        ident = "eff_" + re.sub(r"\W", "_", k.replace("!", "_arg"))
        names.append(ident)
        ps = "[" + "; ".join(cstr(p) for p in r["params"]) + "]"
        ret = f"Some {cstr(r['ret'])}" if r["ret"] else "None"
        out += f"Definition {ident} : summary := {{| s_name := {cstr(k)}; s_params := {ps}; s_ret := {ret}; s_body :=\n{emit(r['body'])} |}}.\n\n"
    out += "Definition table : list summary := [" + "; ".join(names) + "].\n"
    out += "(* the functions the property is about (entries ending in ! describe the circuit argument of a mutating method) *)\n"
    out += "Definition scope : list string := [" + "; ".join(cstr(k) for k in keys) + "].\n"
    out += "Definition mutators : list string := [" + "; ".join(cstr(m) for m in MUTATORS) + "].\n"
    return out


GENERATORS = {"Gen_effects.v": gen_effects}
