"""Translator plug-in for the two Verilog readers -> theories/Gen/Gen_fastv.v  (C14).

From parsing/fast_verilog.py:
  * every (pattern, flags) pair that fast_parse_verilog_netlist hands to `re`, captured from a LIVE call of the function on a
    dummy netlist (so the strings are what the running code really uses), in call order, fail closed when the sequence of
    calls changes;
  * the literal lists, from the function's AST: base names of the tie nodes and the shape of the renaming loop, the constant
    spellings replaced in gate operands / pin connections / assigns, the parity gate list of the cancellation rule.
From parsing/verilog.py + verilog.lark: base names of the tie nodes and the constant spellings of the grammar.
"""
import ast
import importlib.util
import re as _re
import sys

Shape = T.Shape          # noqa: F821  (T = gen/translate.py, injected by load_plugins)
find_func = T.find_func  # noqa: F821


def _norm(node):
    return " ".join(ast.unparse(node).split())


def cstr(s):
    if any(ord(ch) < 32 or ord(ch) > 126 for ch in s):
        raise Shape(f"unexpected character in literal {s!r}")
    return '"' + s.replace('"', '""') + '"'


def clist(l):
    return "[" + "; ".join(cstr(s) for s in l) + "]"


def _capture(repo):
    """Run the real function with `re` wrapped; returns [(fn, pattern, flags)] in call order."""
    from pathlib import Path
    shims = str(Path(__file__).resolve().parent.parent.parent / "harness" / "shims")
    sys.path.insert(0, shims)
    sys.path.insert(0, str(repo))
    for m in [m for m in sys.modules if m == "circuitgraph" or m.startswith("circuitgraph.")]:
        del sys.modules[m]
    try:
        import circuitgraph  # noqa: F401
        from circuitgraph.parsing import fast_verilog as fv
        if not str(fv.__file__).startswith(str(repo)):
            raise Shape(f"circuitgraph imported from {fv.__file__}")
        calls = []

        class Rec:
            DOTALL = _re.DOTALL

            def search(self, pat, s, flags=0):
                calls.append(("search", pat, int(flags)))
                return _re.search(pat, s, flags)

            def findall(self, pat, s, flags=0):
                calls.append(("findall", pat, int(flags)))
                return _re.findall(pat, s, flags)
        old = fv.re
        fv.re = Rec()
        try:
            bb = circuitgraph.BlackBox("ff", ["d"], ["q"])
            fv.fast_parse_verilog_netlist("module m(a, o);\n input a;\n output o;\n wire w;\n ff f0(.d(a), .q(w));\n assign o = w;\nendmodule\n", [bb])
        finally:
            fv.re = old
        return calls
    except Shape:
        raise
    except Exception as e:
        raise Shape(f"live capture of the patterns failed: {e!r}")
    finally:
        sys.path.remove(str(repo))
        sys.path.remove(shims)
        for m in [m for m in sys.modules if m == "circuitgraph" or m.startswith("circuitgraph.")]:
            del sys.modules[m]


def _str_consts(node):
    return [n.value for n in ast.walk(node) if isinstance(n, ast.Constant) and isinstance(n.value, str)]


def gen_fastv(repo):
    calls = _capture(repo)
    # findall of the identifier scan for `reserved` comes after the input scan; the pin pattern is used once per blackbox instance
    want = ["search", "search", "findall", "findall", "findall", "findall", "findall", "findall"]
    if [c[0] for c in calls] != want:
        raise Shape(f"sequence of re calls changed: {[c[0] for c in calls]}")
    names = ["header", "endmodule", "input", "ident", "inst", "pin", "assign", "output"]
    pats = dict(zip(names, calls))

    src = (repo / "circuitgraph" / "parsing" / "fast_verilog.py").read_text()
    f = find_func(ast.parse(src), "fast_parse_verilog_netlist")
    text = _norm(f)
    # tie names: `tie_0, i = "<base>", 0` + `while tie_0 in reserved: tie_0, i = (f"<base>_{i}", i + 1)`
    ties = {}
    for var in ("tie_0", "tie_1"):
        init = [n for n in ast.walk(f) if isinstance(n, ast.Assign) and _norm(n.targets[0]) == f"({var}, i)" or
                isinstance(n, ast.Assign) and _norm(n.targets[0]) == f"{var}, i"]
        init = [n for n in init if isinstance(n.value, ast.Tuple) and isinstance(n.value.elts[0], ast.Constant)]
        if len(init) != 1 or _norm(init[0].value.elts[1]) != "0":
            raise Shape(f"fast parser: `{var}, i = \"<base>\", 0` not found")
        base = init[0].value.elts[0].value
        loops = [n for n in ast.walk(f) if isinstance(n, ast.While) and _norm(n.test) == f"{var} in reserved"]
        if len(loops) != 1 or len(loops[0].body) != 1:
            raise Shape(f"fast parser: renaming loop of {var} not found")
        b = loops[0].body[0]
        if _norm(b).replace("(", "").replace(")", "") != f"{var}, i = f'{base}_{{i}}', i + 1":
            raise Shape(f"fast parser: renaming loop of {var} changed: {_norm(b)}")
        ties[var] = base
    if "reserved = set(re.findall(" not in text or f"g.add_node(tie_0, type='0')" not in text or "g.add_node(tie_1, type='1')" not in text:
        raise Shape("fast parser: reserved set / tie node creation changed")
    # gate operands
    comp = [n for n in ast.walk(f) if isinstance(n, ast.ListComp) and isinstance(n.elt, ast.IfExp)]
    if len(comp) != 1:
        raise Shape("fast parser: constant replacement in gate operands not found")
    m = _re.fullmatch(r"tie_0 if n == '(.+?)' else tie_1 if n == '(.+?)' else n", _norm(comp[0].elt).replace('"', "'").replace("\\'", "'"))
    e = comp[0].elt
    if not (isinstance(e.test, ast.Compare) and _norm(e.body) == "tie_0" and isinstance(e.orelse, ast.IfExp) and _norm(e.orelse.body) == "tie_1"
            and _norm(e.orelse.orelse) == "n" and _norm(e.test.left) == "n" and _norm(e.orelse.test.left) == "n"
            and isinstance(e.test.ops[0], ast.Eq) and isinstance(e.orelse.test.ops[0], ast.Eq)):
        raise Shape("fast parser: constant replacement in gate operands changed")
    gate_c0, gate_c1 = e.test.comparators[0].value, e.orelse.test.comparators[0].value
    # parity cancellation
    par = [n for n in ast.walk(f) if isinstance(n, ast.If) and _norm(n.test).startswith("gate in [")]
    if len(par) != 1:
        raise Shape("fast parser: parity cancellation rule not found")
    parity = T.str_list(par[0].test.comparators[0])   # noqa: F821
    body = [_norm(s) for s in par[0].body]
    if body != ["fanin = [f for f in dict.fromkeys(fanin) if fanin.count(f) % 2]",
                "if not fanin: gate, fanin = ('buf', [tie_0 if gate == 'xor' else tie_1])"] and \
       body != ["fanin = [f for f in dict.fromkeys(fanin) if fanin.count(f) % 2]",
                "if not fanin: (gate, fanin) = ('buf', [tie_0 if gate == 'xor' else tie_1])"]:
        raise Shape(f"fast parser: parity cancellation rule changed: {body}")
    # pins
    pin_if = [n for n in ast.walk(f) if isinstance(n, ast.If) and _norm(n.test).startswith("net == ")]
    if len(pin_if) < 1:
        raise Shape("fast parser: constant replacement at pins not found")
    top = pin_if[0]
    if not (_norm(top.body[0]) == "net = tie_1" and len(top.orelse) == 1 and isinstance(top.orelse[0], ast.If)
            and _norm(top.orelse[0].body[0]) == "net = tie_0" and not top.orelse[0].orelse):
        raise Shape("fast parser: constant replacement at pins changed")
    pin_c1 = top.test.comparators[0].value
    pin_c0 = top.orelse[0].test.comparators[0].value
    if "if not net: continue" not in text:
        raise Shape("fast parser: unconnected pins are no longer skipped")
    # assigns
    asg = [n for n in ast.walk(f) if isinstance(n, ast.If) and _norm(n.test).startswith("n1 in [")]
    if len(asg) < 1:
        raise Shape("fast parser: constant lists of assign not found")
    a = asg[0]
    if not (_norm(a.body[0]) == "all_edges.append((tie_0, n0))" and isinstance(a.orelse[0], ast.If)
            and _norm(a.orelse[0].body[0]) == "all_edges.append((tie_1, n0))" and _norm(a.orelse[0].orelse[0]) == "all_edges.append((n1, n0))"):
        raise Shape("fast parser: assign branches changed")
    asg_c0 = T.str_list(a.test.comparators[0])            # noqa: F821
    asg_c1 = T.str_list(a.orelse[0].test.comparators[0])  # noqa: F821

    # ---- full reader
    vsrc = (repo / "circuitgraph" / "parsing" / "verilog.py").read_text()
    init = find_func(ast.parse(vsrc), "__init__", "_VerilogCircuitGraphTransformer")
    full_ties = {}
    for n in ast.walk(init):
        if isinstance(n, ast.Assign) and _norm(n.targets[0]) in ("self.tie_0", "self.tie_1", "self.tie_x"):
            m = _re.fullmatch(r"self\.c\.add\(self\.c\.uid\('(\w+)', self\.reserved\), '([01x])'\)", _norm(n.value))
            if not m:
                raise Shape(f"full reader: tie node creation changed: {_norm(n.value)}")
            full_ties[_norm(n.targets[0])[5:]] = (m.group(1), m.group(2))
    if sorted(full_ties) != ["tie_0", "tie_1", "tie_x"] or [full_ties[k][1] for k in ("tie_0", "tie_1", "tie_x")] != ["0", "1", "x"]:
        raise Shape("full reader: tie nodes not found")
    lark = (repo / "circuitgraph" / "parsing" / "verilog.lark").read_text()
    consts = {}
    for rule in ("constant_zero", "constant_one", "constant_x"):
        m = _re.search(r"^%s:((?:\s*\|?\s*\"[^\"]*\")+)\s*$" % rule, lark, _re.M)
        if not m:
            raise Shape(f"verilog.lark: rule {rule} is not a list of string alternatives")
        consts[rule] = _re.findall(r"\"([^\"]*)\"", m.group(1))

    out = "(* GENERATED by gen/plugins/fastv.py from circuitgraph/parsing/{fast_verilog.py,verilog.py,verilog.lark} -- do not edit *)\n"
    out += "From stdpp Require Import strings.\nOpen Scope string_scope.\n\n"
    out += "(* patterns handed to re by fast_parse_verilog_netlist, captured from a live call; flags: 16 = DOTALL *)\n"
    for k in names:
        fn, pat, fl = pats[k]
        out += f"Definition fast_re_{k} : string := {cstr(pat)}.\nDefinition fast_re_{k}_flags : nat := {fl}.\n"
    out += "Definition fast_patterns : list (string * nat) := [" + "; ".join(f"(fast_re_{k}, fast_re_{k}_flags)" for k in names) + "].\n"
    out += f"Definition fast_tie0 : string := {cstr(ties['tie_0'])}.\nDefinition fast_tie1 : string := {cstr(ties['tie_1'])}.\n"
    out += f"Definition fast_gate_c0 : string := {cstr(gate_c0)}.\nDefinition fast_gate_c1 : string := {cstr(gate_c1)}.\n"
    out += f"Definition fast_pin_c0 : string := {cstr(pin_c0)}.\nDefinition fast_pin_c1 : string := {cstr(pin_c1)}.\n"
    out += f"Definition fast_assign_c0 : list string := {clist(asg_c0)}.\nDefinition fast_assign_c1 : list string := {clist(asg_c1)}.\n"
    out += f"Definition fast_parity : list string := {clist(parity)}.\n"
    out += f"Definition full_tie0 : string := {cstr(full_ties['tie_0'][0])}.\nDefinition full_tie1 : string := {cstr(full_ties['tie_1'][0])}.\n"
    out += f"Definition full_tiex : string := {cstr(full_ties['tie_x'][0])}.\n"
    out += f"Definition full_c0 : list string := {clist(consts['constant_zero'])}.\nDefinition full_c1 : list string := {clist(consts['constant_one'])}.\n"
    out += f"Definition full_cx : list string := {clist(consts['constant_x'])}.\n"
    return out


GENERATORS = {"Gen_fastv.v": gen_fastv}
