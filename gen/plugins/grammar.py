"""Translator plug-in for circuitgraph/parsing/verilog.lark -> theories/Gen/Gen_grammar.v  (C02).

Extracted as data: every rule of section 7 of the grammar (`expression`, the constants, `condition` ... `primary`), the rules
`named_port_connection`, `module_port_connection`, `list_of_module_connections`, `assignment`, and the definition of the
IDENTIFIER terminal.  A rule is a list of alternatives, an alternative a list of symbols: terminal string, rule/terminal
name, a parenthesised choice of terminal strings, or `name?`.  The `?` prefix of a rule (Lark inlines it when it has one
child) is kept as a flag.  Anything else inside these rules (repetition, nested groups, templates, priorities, aliases)
is not recognised and fails closed.
"""
import re

Shape = T.Shape  # noqa: F821  (T = gen/translate.py, injected by load_plugins)

WANTED = ["expression", "constant_value", "constant_zero", "constant_one", "constant_x", "condition", "ternary", "or", "or_gate",
          "xor", "xor_gate", "xnor_gate", "and", "and_gate", "unary", "not_gate", "primary",
          "named_port_connection", "module_port_connection", "assignment", "lvalue", "identifier"]
TOKEN = re.compile(r'\s+|("(?:[^"\\]|\\.)*")|([A-Za-z_][A-Za-z_0-9]*)(\?)?|([()|])')


def _rules(text):
    """{name: (inline, body)} for lower-case rules and upper-case terminals; comments stripped, continuation lines joined"""
    lines = []
    for raw in text.splitlines():
        line = re.sub(r"//.*$", "", raw).rstrip()
        if not line.strip() or line.lstrip().startswith("%"):
            continue
        if re.match(r"^\s*\|", line) and lines:
            lines[-1] += " " + line.strip()
        elif re.match(r"^\??[A-Za-z_][A-Za-z_0-9]*\s*:", line):
            lines.append(line.strip())
        elif lines and raw[:1] in " \t":
            lines[-1] += " " + line.strip()
        else:
            raise Shape(f"verilog.lark: cannot read line {raw!r}")
    out = {}
    for line in lines:
        m = re.match(r"^(\?)?([A-Za-z_][A-Za-z_0-9]*)\s*:\s*(.*)$", line)
        name = m.group(2)
        if name in out:
            raise Shape(f"verilog.lark: rule {name} defined twice")
        out[name] = (bool(m.group(1)), m.group(3))
    return out


def _symbols(body, what):
    pos, toks = 0, []
    while pos < len(body):
        m = TOKEN.match(body, pos)
        if not m:
            raise Shape(f"verilog.lark: {what}: unrecognised syntax at {body[pos:pos + 15]!r}")
        if m.group(1):
            s = m.group(1)[1:-1]
            if "\\" in s or '"' in s:
                raise Shape(f"{what}: escape in terminal string")
            toks.append(("T", s))
        elif m.group(2):
            toks.append(("O" if m.group(3) else "N", m.group(2)))
        elif m.group(4):
            toks.append((m.group(4),))
        pos = m.end()
    return toks


def _alternatives(body, what):
    toks = _symbols(body, what)
    alts, cur, i = [], [], 0
    while i < len(toks):
        t = toks[i]
        if t[0] == "|":
            alts.append(cur)
            cur = []
        elif t[0] == "(":
            j = i + 1
            choice = []
            expect_str = True
            while j < len(toks) and toks[j][0] != ")":
                if expect_str and toks[j][0] == "T":
                    choice.append(toks[j][1])
                elif not expect_str and toks[j][0] == "|":
                    pass
                else:
                    raise Shape(f"{what}: only a choice of terminal strings may be parenthesised")
                expect_str = not expect_str
                j += 1
            if j >= len(toks) or not choice or expect_str:
                raise Shape(f"{what}: malformed group")
            cur.append(("A", choice))
            i = j
        elif t[0] == ")":
            raise Shape(f"{what}: unbalanced parenthesis")
        else:
            cur.append(t)
        i += 1
    alts.append(cur)
    if any(not a for a in alts):
        raise Shape(f"{what}: empty alternative")
    return alts


def _q(s):
    if any(ord(c) < 32 or ord(c) > 126 for c in s):
        raise Shape("non-printable character in a terminal")
    return '"' + s.replace('"', '""') + '"'


def _sym(t):
    if t[0] == "T":
        return f"GT {_q(t[1])}"
    if t[0] == "N":
        return f"GN {_q(t[1])}"
    if t[0] == "O":
        return f"GOpt {_q(t[1])}"
    return "GAlt [" + "; ".join(_q(x) for x in t[1]) + "]"


def gen_grammar(repo):
    text = (repo / "circuitgraph" / "parsing" / "verilog.lark").read_text()
    rules = _rules(text)
    for w in WANTED + ["IDENTIFIER"]:
        if w not in rules:
            raise Shape(f"verilog.lark: rule {w} not found")
    # no other rule may produce expression-level nodes: every rule outside WANTED must not mention WANTED's operator rules
    ops = {"condition", "ternary", "or", "or_gate", "xor", "xor_gate", "xnor_gate", "and", "and_gate", "unary", "not_gate", "primary",
           "constant_value", "constant_zero", "constant_one", "constant_x"}
    for name, (_, body) in rules.items():
        if name not in WANTED and name.islower():
            used = {t[1] for t in _symbols(re.sub(r"[*+\[\]]", " ", body), name) if t[0] in ("N", "O")}
            if used & ops:
                raise Shape(f"verilog.lark: rule {name} refers to expression-level rules {sorted(used & ops)}")
    out = "(* GENERATED by gen/translate.py from circuitgraph/parsing/verilog.lark -- do not edit *)\n"
    out += "From stdpp Require Import strings.\nOpen Scope string_scope.\n\n"
    out += "(* terminal string | rule or terminal name | parenthesised choice of terminal strings | name? *)\n"
    out += "Inductive gsym := GT (s : string) | GN (s : string) | GAlt (l : list string) | GOpt (s : string).\n"
    out += "(* (rule, `?` prefix (inlined when it has one child), alternatives) in source order *)\n"
    out += "Definition grammar_rules : list (string * bool * list (list gsym)) := [\n"
    rows = []
    for w in WANTED:
        inline, body = rules[w]
        alts = _alternatives(body, w)
        rows.append(f"  ({_q(w)}, {'true' if inline else 'false'}, [" + "; ".join("[" + "; ".join(_sym(t) for t in a) + "]" for a in alts) + "])")
    out += ";\n".join(rows) + "\n].\n"
    ident = _alternatives(rules["IDENTIFIER"][1], "IDENTIFIER")
    if not all(len(a) == 1 and a[0][0] == "N" for a in ident):
        raise Shape("IDENTIFIER: expected a choice of terminal names")
    out += "Definition identifier_terminals : list string := [" + "; ".join(_q(a[0][1]) for a in ident) + "].\n"
    return out


GENERATORS = {"Gen_grammar.v": gen_grammar}
