"""Translator plug-in for tx.limit_fanin / tx.limit_fanout -> theories/Gen/Gen_limit.v  (C05, C17).

Extracted as data: the `gatemap` dict, the constants of the `k < <c>` guards, the type literal of the helper node of
limit_fanout, the f-string pieces of the helper names.  Everything else of the two loops (the `while len(..) > k` tests,
the two pops, the disconnect, the shape of the `add` call) is compared structurally and fails closed.
"""
import ast

Shape = T.Shape          # noqa: F821  (T = gen/translate.py, injected by load_plugins)
ty = T.ty                # noqa: F821
find_func = T.find_func  # noqa: F821


def _norm(node):
    return " ".join(ast.unparse(node).split())


def _guard(f, what):
    """`if k < C: raise ValueError(...)` as the first statement after the docstring -> C"""
    body = [s for s in f.body if not (isinstance(s, ast.Expr) and isinstance(s.value, ast.Constant) and isinstance(s.value.value, str))]
    g = body[0] if body else None
    if not (isinstance(g, ast.If) and isinstance(g.test, ast.Compare) and len(g.test.ops) == 1 and isinstance(g.test.ops[0], ast.Lt)
            and isinstance(g.test.left, ast.Name) and g.test.left.id == "k"
            and isinstance(g.test.comparators[0], ast.Constant) and isinstance(g.test.comparators[0].value, int)
            and not isinstance(g.test.comparators[0].value, bool) and g.test.comparators[0].value >= 0 and not g.orelse
            and len(g.body) == 1 and isinstance(g.body[0], ast.Raise) and _norm(g.body[0].exc).startswith("ValueError(")):
        raise Shape(f"{what}: expected `if k < <int>: raise ValueError(...)` as first statement")
    return g.test.comparators[0].value, body[1:]


def _fstring(node, what):
    """f"{n}<lit>{i}" -> <lit>"""
    if not (isinstance(node, ast.JoinedStr) and len(node.values) == 3
            and isinstance(node.values[0], ast.FormattedValue) and _norm(node.values[0].value) == "n"
            and node.values[0].conversion == -1 and node.values[0].format_spec is None
            and isinstance(node.values[1], ast.Constant) and isinstance(node.values[1].value, str)
            and isinstance(node.values[2], ast.FormattedValue) and _norm(node.values[2].value) == "i"
            and node.values[2].conversion == -1 and node.values[2].format_spec is None):
        raise Shape(f"{what}: helper name is not f\"{{n}}<literal>{{i}}\"")
    lit = node.values[1].value
    if not lit or any(ord(ch) < 32 or ord(ch) > 126 or ch == '"' for ch in lit):
        raise Shape(f"{what}: unexpected characters in helper-name literal")
    return lit


def _loop(rest, what, setname, pops_from, disc, kw_expected):
    """rest: statements after the guard and (for fanin) the gatemap assignment.  Returns the `add` call node."""
    if [type(s) for s in rest] != [ast.Assign, ast.For, ast.Return]:
        raise Shape(f"{what}: expected `ck = c.copy()`, one for loop, `return ck`")
    if _norm(rest[0]) != "ck = c.copy()" or _norm(rest[2]) != "return ck":
        raise Shape(f"{what}: expected `ck = c.copy()` ... `return ck`")
    loop = rest[1]
    if _norm(loop.target) != "n" or _norm(loop.iter) != "ck.nodes()" or loop.orelse:
        raise Shape(f"{what}: expected `for n in ck.nodes():`")
    if len(loop.body) != 2 or _norm(loop.body[0]) != "i = 0" or not isinstance(loop.body[1], ast.While):
        raise Shape(f"{what}: expected `i = 0` and a while loop in the node loop")
    w = loop.body[1]
    if _norm(w.test) != f"len(ck.{setname}(n)) > k" or w.orelse:
        raise Shape(f"{what}: while test is `{_norm(w.test)}`, expected `len(ck.{setname}(n)) > k`")
    stm = [_norm(s) for s in w.body]
    v = pops_from
    want = [f"{v} = ck.{setname}(n)", f"f0 = {v}.pop()", f"f1 = {v}.pop()", disc, None, "i += 1"]
    if len(stm) != len(want) or any(b is not None and a != b for a, b in zip(stm, want)):
        raise Shape(f"{what}: loop body changed: {stm}")
    call = w.body[4]
    if not (isinstance(call, ast.Expr) and isinstance(call.value, ast.Call) and _norm(call.value.func) == "ck.add"
            and len(call.value.args) == 2):
        raise Shape(f"{what}: expected `ck.add(<name>, <type>, ...)`")
    kws = {k.arg: _norm(k.value) for k in call.value.keywords}
    if kws != kw_expected:
        raise Shape(f"{what}: keyword arguments of add changed: {kws}")
    return call.value


def gen_limit(repo):
    src = (repo / "circuitgraph" / "tx.py").read_text()
    tree = ast.parse(src)
    # ---- limit_fanin
    f = find_func(tree, "limit_fanin")
    if [a.arg for a in f.args.args] != ["c", "k"]:
        raise Shape("limit_fanin: unexpected signature")
    kmin_in, rest = _guard(f, "limit_fanin")
    gm = rest[0] if rest else None
    if not (isinstance(gm, ast.Assign) and len(gm.targets) == 1 and _norm(gm.targets[0]) == "gatemap" and isinstance(gm.value, ast.Dict)
            and all(isinstance(k, ast.Constant) and isinstance(k.value, str) for k in gm.value.keys)
            and all(isinstance(v, ast.Constant) and isinstance(v.value, str) for v in gm.value.values)):
        raise Shape("limit_fanin: `gatemap = {<str>: <str>, ...}` not found")
    keys = [k.value for k in gm.value.keys]
    if len(set(keys)) != len(keys):
        raise Shape("limit_fanin: duplicate key in gatemap")
    table = [(k.value, v.value) for k, v in zip(gm.value.keys, gm.value.values)]
    call = _loop(rest[1:], "limit_fanin", "fanin", "fi", "ck.disconnect([f0, f1], n)",
                 {"fanin": "[f0, f1]", "fanout": "n", "uid": "True"})
    suffix_in = _fstring(call.args[0], "limit_fanin")
    if _norm(call.args[1]) != "gatemap[ck.type(n)]":
        raise Shape("limit_fanin: helper type is not `gatemap[ck.type(n)]`")
    # ---- limit_fanout
    g = find_func(tree, "limit_fanout")
    if [a.arg for a in g.args.args] != ["c", "k"]:
        raise Shape("limit_fanout: unexpected signature")
    kmin_out, rest = _guard(g, "limit_fanout")
    call = _loop(rest, "limit_fanout", "fanout", "fo", "ck.disconnect(n, [f0, f1])",
                 {"fanin": "n", "fanout": "[f0, f1]", "uid": "True"})
    suffix_out = _fstring(call.args[0], "limit_fanout")
    h = call.args[1]
    if not (isinstance(h, ast.Constant) and isinstance(h.value, str)):
        raise Shape("limit_fanout: helper type is not a string literal")
    out = T.HEADER % "circuitgraph/tx.py (limit_fanin, limit_fanout)"   # noqa: F821
    out += "(* gatemap of limit_fanin: type of the node -> type of the 2-input helper that groups two of its operands *)\n"
    out += "Definition fanin_gatemap : list (gtype * gtype) := [" + "; ".join(f"({ty(a)}, {ty(b)})" for a, b in table) + "].\n"
    out += f"Definition fanin_min_k : nat := {kmin_in}.\n"
    out += f'Definition fanin_suffix : string := "{suffix_in}".\n'
    out += f"Definition fanout_min_k : nat := {kmin_out}.\n"
    out += f'Definition fanout_suffix : string := "{suffix_out}".\n'
    out += f"Definition fanout_helper : gtype := {ty(h.value)}.\n"
    return out


GENERATORS = {"Gen_limit.v": gen_limit}
