"""Translator plug-in for tx.supergates -> theories/Gen/Gen_supergates.v  (C17).

Extracted as data: the bound handed to limit_fanin, the two thresholds of the dominator-tree walk (`len(dom_tree[fi]) > A`
starts a new supergate, `== B` absorbs the single child), the output-count guard of construct_supercircuit, the f-string
pieces of the blackbox names and of the super-circuit name.  The statements around them (root removed from its own child
set with discard, subcircuit(..., modify_io=True) + set_output(node, True), the minimal-cover test, de-duplication by node
set, the two repairs of the super-circuit form) are compared textually and fail closed.
"""
import ast

Shape = T.Shape          # noqa: F821  (T = gen/translate.py, injected by load_plugins)
find_func = T.find_func  # noqa: F821


def _norm(node):
    return " ".join(ast.unparse(node).split())


def _int(node, what):
    if not (isinstance(node, ast.Constant) and isinstance(node.value, int) and not isinstance(node.value, bool) and 0 <= node.value < 1000):
        raise Shape(f"supergates: {what}: expected a small integer literal")
    return node.value


def _lit(s, what):
    if not s or any(ord(ch) < 32 or ord(ch) > 126 or ch == '"' for ch in s):
        raise Shape(f"supergates: {what}: unexpected characters in name literal")
    return s


def _len_cmp(test, op, what):
    """`len(dom_tree[fi]) <op> <int>` -> int"""
    if not (isinstance(test, ast.Compare) and len(test.ops) == 1 and isinstance(test.ops[0], op)
            and _norm(test.left) == "len(dom_tree[fi])"):
        raise Shape(f"supergates: {what}: test is `{_norm(test)}`")
    return _int(test.comparators[0], what)


def gen_supergates(repo):
    src = (repo / "circuitgraph" / "tx.py").read_text()
    f = find_func(ast.parse(src), "supergates")
    if [a.arg for a in f.args.args] != ["c", "construct_supercircuit"]:
        raise Shape("supergates: unexpected signature")
    body = [s for s in f.body if not (isinstance(s, ast.Expr) and isinstance(s.value, ast.Constant) and isinstance(s.value.value, str))]
    # guard of the super-circuit form
    g = body[0]
    if not (isinstance(g, ast.If) and not g.orelse and len(g.body) == 1 and isinstance(g.body[0], ast.Raise)
            and _norm(g.body[0].exc).startswith("ValueError(") and isinstance(g.test, ast.BoolOp) and isinstance(g.test.op, ast.And)
            and len(g.test.values) == 2 and _norm(g.test.values[0]) == "construct_supercircuit"
            and isinstance(g.test.values[1], ast.Compare) and len(g.test.values[1].ops) == 1 and isinstance(g.test.values[1].ops[0], ast.Gt)
            and _norm(g.test.values[1].left) == "len(c.outputs())"):
        raise Shape("supergates: expected `if construct_supercircuit and len(c.outputs()) > <int>: raise ValueError(...)` first")
    max_outputs = _int(g.test.values[1].comparators[0], "output guard")
    # c = limit_fanin(c, K)
    lim = body[1]
    if not (isinstance(lim, ast.Assign) and _norm(lim.targets[0]) == "c" and isinstance(lim.value, ast.Call)
            and _norm(lim.value.func) == "limit_fanin" and len(lim.value.args) == 2 and _norm(lim.value.args[0]) == "c" and not lim.value.keywords):
        raise Shape("supergates: expected `c = limit_fanin(c, <int>)` after the guard")
    limit_k = _int(lim.value.args[1], "limit_fanin bound")
    # the dominator-tree walk
    walks = [n for n in ast.walk(f) if isinstance(n, ast.If) and "len(dom_tree[fi])" in _norm(n.test)]
    tops = [n for n in walks if not any(n in w.orelse for w in walks if w is not n)]
    if len(tops) != 1:
        raise Shape("supergates: expected exactly one `if len(dom_tree[fi]) ...` chain")
    w = tops[0]
    split_above = _len_cmp(w.test, ast.Gt, "frontier test")
    if [_norm(s) for s in w.body] != ["frontier.put(fi)"] or len(w.orelse) != 1 or not isinstance(w.orelse[0], ast.If):
        raise Shape("supergates: frontier branch changed")
    e = w.orelse[0]
    absorb_at = _len_cmp(e.test, ast.Eq, "absorb test")
    if [_norm(s) for s in e.body] != ["fanins.put(dom_tree[fi].pop())"] or e.orelse:
        raise Shape("supergates: absorb branch changed")
    # statements that must be present exactly once
    stmts = [_norm(n) for n in ast.walk(f) if isinstance(n, ast.stmt) and not isinstance(n, (ast.If, ast.For, ast.While, ast.FunctionDef))]
    heads = [_norm(n.test) for n in ast.walk(f) if isinstance(n, (ast.If, ast.While))]
    for s in ["dom_tree[output].discard(output)", "supergate.add(fi)", "supergate = {node}", "frontier.put(output)",
              "supergate_circuit = subcircuit(c_output, supergate, modify_io=True)", "supergate_circuit.set_output(node, True)",
              "supergate_circuits[frozenset(supergate)] = supergate_circuit", "supergate_circuits = set(supergate_circuits.values())",
              "c_output = subcircuit(c, c.transitive_fanin(output) | {output})", "c_output.set_output(c_output.outputs(), False)",
              "c_output.set_output(output, True)", "doms = nx.immediate_dominators(g, output)", "dom_tree[v].add(k)",
              "minimal_supergate_circuits[supergate.outputs().pop()] = supergate", "superc.set_output(o)",
              "superc.add(i, 'input')", "superc.add(o, 'buf', output=True)", "superc.add(n, 'buf')",
              "bb = cg.BlackBox(name=sg_name, inputs=supergate.inputs(), outputs={output})",
              "superc.add_blackbox(bb, sg_name, {i: i for i in supergate.io()})", "supergate_map[sg_name] = supergate",
              "return (superc, supergate_map)", "return sorted_supergate_circuits", "g.add_edge(other_output, output)"]:
        if stmts.count(s) != 1:
            raise Shape(f"supergates: statement `{s}` expected exactly once (found {stmts.count(s)})")
    for h in ["supergate.nodes() - remaining_cover", "not supergate.nodes() - supergate.inputs()", "o in superc", "n not in superc",
              "i in other_supergate.nodes() - other_supergate.inputs()", "v == output"]:
        if heads.count(h) != 1:
            raise Shape(f"supergates: test `{h}` expected exactly once (found {heads.count(h)})")
    # names
    def fstr(node, var_first, what):
        if not (isinstance(node, ast.JoinedStr) and len(node.values) == 2):
            raise Shape(f"supergates: {what}: unexpected f-string")
        a, b = node.values
        if var_first:
            a, b = b, a
        if not (isinstance(a, ast.Constant) and isinstance(a.value, str) and isinstance(b, ast.FormattedValue)
                and b.conversion == -1 and b.format_spec is None):
            raise Shape(f"supergates: {what}: unexpected f-string")
        return _lit(a.value, what), _norm(b.value)
    sgn = [n for n in ast.walk(f) if isinstance(n, ast.Assign) and _norm(n.targets[0]) == "sg_name"]
    if len(sgn) != 1:
        raise Shape("supergates: `sg_name = ...` expected once")
    prefix, v = fstr(sgn[0].value, False, "blackbox name")
    if v != "output":
        raise Shape("supergates: blackbox name is not built from the supergate output")
    sup = [n for n in ast.walk(f) if isinstance(n, ast.Assign) and _norm(n.targets[0]) == "superc"]
    if not (len(sup) == 1 and isinstance(sup[0].value, ast.Call) and _norm(sup[0].value.func) == "cg.Circuit" and len(sup[0].value.args) == 1):
        raise Shape("supergates: `superc = cg.Circuit(<f-string>)` expected once")
    suffix, v = fstr(sup[0].value.args[0], True, "super-circuit name")
    if v != "c.name":
        raise Shape("supergates: super-circuit name is not built from c.name")
    out = T.HEADER % "circuitgraph/tx.py (supergates)"   # noqa: F821
    out += f"Definition sg_limit_k : nat := {limit_k}.            (* c = limit_fanin(c, K) *)\n"
    out += f"Definition sg_split_above : nat := {split_above}.        (* len(dom_tree[fi]) > A: fi starts its own supergate *)\n"
    out += f"Definition sg_absorb_at : nat := {absorb_at}.          (* len(dom_tree[fi]) == B: the single child is absorbed *)\n"
    out += f"Definition sg_max_outputs : nat := {max_outputs}.        (* construct_supercircuit: ValueError above this many outputs *)\n"
    out += f'Definition sg_bb_prefix : string := "{prefix}".\n'
    out += f'Definition sg_super_suffix : string := "{suffix}".\n'
    return out


GENERATORS = {"Gen_supergates.v": gen_supergates}
