"""Translator plug-in for tx.ternary -> Gen_tern.v (C10).

The function is compared, statement by statement, with the expected skeleton in which every literal gate
type (second argument of `t.add`) and every literal type list of a branch test is a hole.  The holes are
emitted as a Coq table (`gen_ttab`); names, wiring (fanin=/fanout=), flags and the order of the calls are part of
the skeleton, so any change there fails closed (T.Shape).  Theorems are proved for the documented table and the
generated one is proved equal to it (Properties/C10.v, C10_table_ok).
"""
import ast

# T (gen/translate.py) is injected by the plug-in loader

SKELETON = """\
def ternary(c):
    if c.blackboxes:
        raise ValueError(f'{c.name} contains a blackbox')
    t = c.copy()
    mapping = {n: c.uid(f'{n}_X') for n in c}
    for n in c:
        if c.type(n) in TYLIST:
            t.add(mapping[n], TY, output=c.is_output(n), allow_redefinition=True)
            t.add(f'{n}_x_in_fi', TY, fanout=mapping[n], fanin=[mapping[p] for p in c.fanin(n)], uid=True, add_connected_nodes=True)
            zero_not_in_fi = t.add(f'{n}_0_not_in_fi', TY, fanout=mapping[n], uid=True)
            for p in c.fanin(n):
                t.add(f'{p}_is_0', TY, fanout=zero_not_in_fi, fanin=[p, mapping[p]], uid=True)
        elif c.type(n) in TYLIST:
            t.add(mapping[n], TY, output=c.is_output(n), allow_redefinition=True)
            t.add(f'{n}_x_in_fi', TY, fanout=mapping[n], fanin=[mapping[p] for p in c.fanin(n)], uid=True, add_connected_nodes=True)
            one_not_in_fi = t.add(f'{n}_1_not_in_fi', TY, fanout=mapping[n], uid=True)
            for p in c.fanin(n):
                is_one = t.add(f'{p}_is_1', TY, fanout=one_not_in_fi, fanin=p, uid=True)
                t.add(f'{p}_not_x', TY, fanout=is_one, fanin=mapping[p], uid=True)
        elif c.type(n) in TYLIST:
            p = c.fanin(n).pop()
            t.add(mapping[n], TY, fanin=mapping[p], output=c.is_output(n), add_connected_nodes=True, allow_redefinition=True)
        elif c.type(n) in TYLIST:
            t.add(mapping[n], TY, fanin=[mapping[p] for p in c.fanin(n)], output=c.is_output(n), add_connected_nodes=True, allow_redefinition=True)
        elif c.type(n) in TYLIST:
            t.add(mapping[n], TY, output=c.is_output(n), allow_redefinition=True)
        elif c.type(n) in TYLIST:
            t.add(mapping[n], TY, allow_redefinition=True)
        else:
            raise ValueError(f"Node '{n}' has invalid type: '{c.type(n)}'")
    return (t, mapping)"""

TY_FIELDS = ["a_comp", "a_xin", "a_ctl", "a_lit",
             "o_comp", "o_xin", "o_ctl", "o_lit", "o_neg",
             "b_comp", "p_comp", "k_comp", "i_comp"]
LIST_FIELDS = ["l_and", "l_or", "l_buf", "l_par", "l_const", "l_input"]


class _Holes(ast.NodeTransformer):
    def __init__(self):
        self.types, self.lists = [], []

    def visit_Call(self, node):
        self.generic_visit(node)
        f = node.func
        if isinstance(f, ast.Attribute) and f.attr == "add" and isinstance(f.value, ast.Name) and f.value.id == "t":
            if len(node.args) != 2:
                raise T.Shape(f"ternary: t.add with {len(node.args)} positional arguments at line {node.lineno}")
            a = node.args[1]
            if not (isinstance(a, ast.Constant) and isinstance(a.value, str)):
                raise T.Shape(f"ternary: gate type of t.add is not a string literal at line {node.lineno}")
            self.types.append(a.value)
            node.args[1] = ast.Name(id="TY", ctx=ast.Load())
        return node

    def visit_Compare(self, node):
        self.generic_visit(node)
        if (len(node.ops) == 1 and isinstance(node.ops[0], ast.In) and ast.unparse(node.left) == "c.type(n)"):
            self.lists.append(T.str_list(node.comparators[0]))
            node.comparators[0] = ast.Name(id="TYLIST", ctx=ast.Load())
        return node


def gen_tern(repo):
    src = (repo / "circuitgraph" / "tx.py").read_text()
    f = T.find_func(ast.parse(src), "ternary")
    # drop the docstring
    if f.body and isinstance(f.body[0], ast.Expr) and isinstance(f.body[0].value, ast.Constant) and isinstance(f.body[0].value.value, str):
        f.body = f.body[1:]
    f.decorator_list = []
    h = _Holes()
    f = ast.fix_missing_locations(h.visit(f))
    got = ast.unparse(f).strip().splitlines()
    want = ast.unparse(ast.parse(SKELETON)).strip().splitlines()
    if got != want:
        for i, (a, b) in enumerate(zip(got, want)):
            if a != b:
                raise T.Shape(f"ternary: statement {i} changed: got `{a.strip()}`, expected `{b.strip()}`")
        raise T.Shape(f"ternary: {len(got)} statements, expected {len(want)}")
    if len(h.types) != len(TY_FIELDS) or len(h.lists) != len(LIST_FIELDS):
        raise T.Shape("ternary: unexpected number of type holes")
    out = T.HEADER % "circuitgraph/tx.py (ternary)"
    out += ("(* branch tests (in source order) and the gate type of every t.add call; names, wiring, flags and call order\n"
            "   are fixed by the translator's skeleton *)\n")
    out += "Record ttab := {\n"
    out += "".join(f"  {k} : list gtype;\n" for k in LIST_FIELDS)
    out += "".join(f"  {k} : gtype{';' if k != TY_FIELDS[-1] else ''}\n" for k in TY_FIELDS)
    out += "}.\n"
    out += "Definition gen_ttab : ttab := {|\n"
    out += "".join(f"  {k} := {T.tlist(v)};\n" for k, v in zip(LIST_FIELDS, h.lists))
    out += "".join(f"  {k} := {T.ty(v)}{';' if k != TY_FIELDS[-1] else ''}\n" for k, v in zip(TY_FIELDS, h.types))
    out += "|}.\n"
    return out


GENERATORS = {"Gen_tern.v": gen_tern}
