"""Check driver: proof obligations (A), correspondence model<->implementation (B), property oracle (C).

Decision procedure (DESIGN.md 4.4):
  C fails on an input not listed in known_findings.json  -> VIOLATION ... replay=<file>         exit 1
  C fails only on listed findings                        -> KNOWN-FINDING lines                 exit 0 (if A, B hold)
  A or B fails, C holds                                  -> widened search; failing input -> as above, otherwise
                                                            VIOLATION ... no-failing-input-found  exit 1
"""
import fcntl
import hashlib
import importlib
import json
import os
import random
import re
import shutil
import subprocess
import sys
import time
from pathlib import Path

import lib

ROOT = lib.ROOT
COQ = lib.COQ
BUILD = ROOT / "build"
# evidence/ and replays/ describe /repo only; a run against another tree (VERIF_REPO) keeps its files under build/
_ALT = str(lib.REPO) != "/repo"
REPLAYS = (ROOT / "build" / "alt-replays") if _ALT else (ROOT / "replays")
EVID = (ROOT / "build" / "alt-evidence") if _ALT else (ROOT / "evidence")
FORBID = re.compile(r"\b(Admitted|admit|Axiom|Axioms|Parameter|Parameters|Conjecture|Hypothesis|Variable)\b|Unset\s+Guard|bypass_check|Unset\s+Positivity|Unset\s+Universe|type-in-type|Admit\s+Obligations")
TRUSTED = [
    "Coq 8.16.1 kernel incl. vm_compute (no native_compute)",
    "std++ 1.8.0 (declares no axioms)",
    "gen/translate.py (fail-closed source -> Gen/*.v translator)",
    "harness: case generators, worker canonicalisation, Coq term printer (lib.py)",
    "pure-Python pysat stand-in and approxmc stand-in (answers re-checked by the Coq oracles)",
    "hand-written Gallina model tied to the code by the correspondence run of this check",
]


def load_prop(pid):
    return importlib.import_module("props." + pid.lower())


def locked_make(targets, timeout=1500):
    """Regenerate Gen/*.v from the repo and build the given targets (full .vo) under a lock."""
    if COQ != ROOT / "coq":
        COQ.mkdir(parents=True, exist_ok=True)
        with open(ROOT / "coq" / ".lock", "a") as lk0:
            fcntl.flock(lk0, fcntl.LOCK_SH)
            subprocess.run(["rsync", "-a", "--delete", "--exclude", ".lock", "--exclude", "theories/Gen/", str(ROOT / "coq") + "/", str(COQ) + "/"], check=True)
            # generated tables: start from /repo's (fallback when a shape is not recognised), never overwrite this tree's own
            (COQ / "theories" / "Gen").mkdir(parents=True, exist_ok=True)
            subprocess.run(["rsync", "-a", "--ignore-existing", "--include", "*.v", "--exclude", "*", str(ROOT / "coq" / "theories" / "Gen") + "/",
                            str(COQ / "theories" / "Gen") + "/"], check=True)
    (COQ / ".lock").touch()
    with open(COQ / ".lock") as lk:
        fcntl.flock(lk, fcntl.LOCK_EX)
        gen = subprocess.run([lib.PY, str(ROOT / "gen" / "translate.py"), str(lib.REPO), str(COQ / "theories" / "Gen")],
                             capture_output=True, text=True)
        if COQ != ROOT / "coq":
            for gf in (COQ / "theories" / "Gen").glob("*.v"):
                gf.touch()      # everything that depends on a generated table is rebuilt against this tree's tables
        gen_report = {}
        try:
            gen_report = json.loads(gen.stdout.strip().splitlines()[-1]) if gen.stdout.strip() else {}
        except Exception:
            gen_report = {"_error": gen.stdout[-500:] + gen.stderr[-500:]}
        if gen.returncode != 0 and "_error" not in gen_report:
            gen_report["_error"] = gen.stderr[-800:]
        subprocess.run([str(ROOT / "harness" / "mkproject.sh"), str(COQ)], capture_output=True)
        p = subprocess.run(["timeout", str(timeout), "make", "-j" + os.environ.get("VERIF_JOBS", "16")] + targets, cwd=COQ, capture_output=True, text=True)
        return p.returncode, p.stdout[-4000:] + p.stderr[-4000:], gen_report


def forbid_scan():
    bad = []
    for f in sorted((COQ / "theories").rglob("*.v")):
        txt = f.read_text()
        # strip comments (non-nested is enough: we never nest)
        txt_nc = re.sub(r"\(\*.*?\*\)", "", txt, flags=re.S)
        for m in FORBID.finditer(txt_nc):
            w = m.group(0)
            # `Variable`/`Hypothesis`/`Context` inside a Section are allowed
            if w in ("Variable", "Hypothesis"):
                pre = txt_nc[:m.start()]
                if len(re.findall(r"^\s*Section\s", pre, flags=re.M)) > len(re.findall(r"^\s*End\s", pre, flags=re.M)):
                    continue
            bad.append(f"{f.relative_to(COQ)}: {w}")
    return bad


def check_properties_file(pid, workdir):
    """Recompile Properties/Cxx.v to capture Print Assumptions output; returns list of theorem records."""
    src = COQ / "theories" / "Properties" / f"{pid}.v"
    out_vo = Path(workdir) / f"{pid}.vo"
    cmd = ["timeout", "600", "coqc", "-Q", str(COQ / "theories"), "CG", "-w", "none", "-o", str(out_vo), str(src)]
    p = subprocess.run(cmd, capture_output=True, text=True, cwd=workdir)
    text = src.read_text()
    names = re.findall(r"^Print Assumptions\s+([A-Za-z0-9_']+)\s*\.", text, flags=re.M)
    out = p.stdout + p.stderr
    blocks = re.split(r"(?=Closed under the global context|Axioms:)", out)
    blocks = [b.strip() for b in blocks if b.strip().startswith(("Closed under", "Axioms:"))]
    recs = []
    for i, n in enumerate(names):
        a = blocks[i] if i < len(blocks) else "(no output)"
        status = "refuted-witness" if n.endswith("_refuted") else "partial" if "_partial" in n else "proved"
        axioms = [] if a.startswith("Closed under") else re.findall(r"^([A-Za-z_][\w.']*)\s*:", a, flags=re.M)
        recs.append({"name": n, "status": status, "assumptions": " ".join(a.split())[:400], "axioms": axioms})
    return p.returncode == 0 and len(blocks) == len(names), recs, out[-1500:]


def run_workers(pid, cases, hashseeds, extra_env=None, jobs=int(os.environ.get("VERIF_JOBS", "16"))):
    """Run impl on all cases for each hash seed.  Returns list of (case_index, hashseed, obs)."""
    env = dict(os.environ)
    env["PYTHONPATH"] = f"{lib.REPO}:{ROOT / 'harness' / 'shims'}:{ROOT / 'harness'}"
    env["VERIF_REPO"] = str(lib.REPO)
    env["PATH"] = f"{ROOT / 'harness' / 'shims' / 'bin'}:" + env["PATH"]
    env["PYTHONDONTWRITEBYTECODE"] = "1"
    env["CIRCUITGRAPH_VERIF"] = "1"
    if extra_env:
        env.update(extra_env)
    tasks = []
    nchunk = max(1, min(jobs // max(1, len(hashseeds)), (len(cases) + 19) // 20))
    chunks = [list(range(i, len(cases), nchunk)) for i in range(nchunk)]
    for hs in hashseeds:
        for idxs in chunks:
            if idxs:
                tasks.append((hs, idxs))
    results = []
    running = []
    pending = list(tasks)
    while pending or running:
        while pending and len(running) < jobs:
            hs, idxs = pending.pop(0)
            e = dict(env)
            e["PYTHONHASHSEED"] = str(hs)
            p = subprocess.Popen([lib.PY, str(ROOT / "harness" / "worker.py"), pid], stdin=subprocess.PIPE, stdout=subprocess.PIPE,
                                 stderr=subprocess.PIPE, text=True, env=e, cwd=str(BUILD))
            p.stdin.write(json.dumps([cases[i] for i in idxs]))
            p.stdin.close()
            running.append((hs, idxs, p))
        hs, idxs, p = running.pop(0)
        out = p.stdout.read()
        err = p.stderr.read()
        p.wait()
        try:
            obs = json.loads(out)
        except Exception:
            obs = {"fatal": f"worker output unreadable rc={p.returncode}: {out[-300:]} {err[-800:]}"}
        if isinstance(obs, dict) and "fatal" in obs:
            raise RuntimeError(obs["fatal"])
        for i, o in zip(idxs, obs):
            results.append((i, hs, o))
    results.sort(key=lambda r: (r[1], r[0]))
    return results


def load_findings():
    f = ROOT / "known_findings.json"
    if not f.exists():
        return []
    return json.loads(f.read_text())


def write_replay(pid, name, payload):
    REPLAYS.mkdir(parents=True, exist_ok=True)
    path = REPLAYS / f"{pid}_{name}.json"
    path.write_text(json.dumps(payload, indent=1, sort_keys=True))
    return path


def explore(P, pid, cases, hashseeds, workdir, tag):
    """impl + Coq evaluation.  Returns dict with per-run records."""
    runs = run_workers(pid, cases, hashseeds, getattr(P, "EXTRA_ENV", None))
    terms, meta, herr = [], [], []
    for (i, hs, obs) in runs:
        if isinstance(obs, dict) and "harness_error" in obs:
            herr.append({"case": cases[i], "hashseed": hs, "error": obs})
            continue
        t = P.to_coq(cases[i], obs)
        if t is None:
            continue
        terms.append(t)
        meta.append((i, hs, obs))
    agree_bad, holds_bad, errors = lib.eval_cases(P.RUN_MODULE, terms, workdir, shard=getattr(P, "SHARD", 100), tag=tag)
    return {"runs": runs, "meta": meta, "agree_bad": agree_bad, "holds_bad": holds_bad, "coq_errors": errors, "harness_errors": herr,
            "n_terms": len(terms)}


def main(argv):
    pid = argv[0]
    tier = os.environ.get("VERIF_TIER", "quick")
    replay = None
    a = argv[1:]
    while a:
        if a[0] == "--tier":
            tier = a[1]; a = a[2:]
        elif a[0] == "--replay":
            replay = a[1]; a = a[2:]
        else:
            raise SystemExit(f"unknown argument {a[0]}")
    seed = int(os.environ.get("VERIF_SEED", "20260926"))
    t0 = time.time()
    P = load_prop(pid)
    BUILD.mkdir(exist_ok=True)
    workdir = BUILD / f"{pid}-{os.getpid()}"
    workdir.mkdir(parents=True, exist_ok=True)
    try:
        if replay:
            return do_replay(P, pid, replay, workdir)
        return do_check(P, pid, tier, seed, t0, workdir)
    finally:
        shutil.rmtree(workdir, ignore_errors=True)


def do_replay(P, pid, replay, workdir):
    r = json.loads(Path(replay).read_text())
    if "case" not in r:
        print(json.dumps(r, indent=1))
        print("replay names a broken obligation, no concrete input")
        return 1
    res = explore(P, pid, [r["case"]], [r.get("hashseed", 0)], workdir, "replay")
    ok = not res["agree_bad"] and not res["holds_bad"] and not res["coq_errors"] and not res["harness_errors"]
    obs = res["runs"][0][2] if res["runs"] else None
    print(json.dumps({"case": r["case"], "observed": obs, "agree": not res["agree_bad"], "holds": not res["holds_bad"],
                      "errors": res["coq_errors"] + res["harness_errors"]}, indent=1)[:6000])
    if not ok:
        print(f"VIOLATION property={pid} replay={replay}")
        return 1
    print("replay: property holds and model agrees on this input")
    return 0


def do_check(P, pid, tier, seed, t0, workdir):
    rng = random.Random(seed)
    phases = {}
    tp = time.time()
    violations = []     # (replay_path, suffix)
    known_lines = []
    findings = {f["id"]: f for f in load_findings() if f.get("property") == pid}
    REPLAYS.mkdir(parents=True, exist_ok=True)
    for old in REPLAYS.glob(f"{pid}_*.json"):      # replays of earlier runs of this property are stale
        old.unlink()

    # ---------------- A: proof obligations
    targets = [f"theories/Properties/{pid}.vo", "theories/" + P.RUN_MODULE.replace(".", "/") + ".vo"] + list(getattr(P, "EXTRA_TARGETS", []))
    rc, make_out, gen_report = locked_make(targets)
    obligations = []
    proof_fail = []
    gen_needed = getattr(P, "GEN_FILES", [])
    for g in gen_needed:
        st = gen_report.get(g, "missing")
        obligations.append({"kind": "gen-shape", "name": g, "ok": st == "ok", "detail": st})
        if st != "ok":
            proof_fail.append(f"Gen shape {g}: {st}")
    if rc != 0:
        m = re.findall(r'File "([^"]+)", line (\d+).*?\n(Error:.*?)(?:\n\n|\Z)', make_out, flags=re.S)
        detail = "; ".join(f"{f}:{l} {' '.join(e.split())[:300]}" for f, l, e in m) or make_out[-600:]
        proof_fail.append(f"make {' '.join(targets)} failed: {detail}")
    thm_ok, thms = (False, [])
    pa_out = ""
    if rc == 0:
        thm_ok, thms, pa_out = check_properties_file(pid, workdir)
        if not thm_ok:
            proof_fail.append(f"Properties/{pid}.v did not re-check: {pa_out[-400:]}")
    allowed_axioms = getattr(P, "ALLOWED_AXIOMS", [])
    for t in thms:
        ok = t["assumptions"].startswith("Closed under the global context") or (
            bool(t["axioms"]) and all(ax.split(".")[-1] in allowed_axioms for ax in t["axioms"]))
        obligations.append({"kind": "theorem", "name": t["name"], "ok": ok, "status": t["status"], "assumptions": t["assumptions"]})
        if not ok:
            proof_fail.append(f"theorem {t['name']} depends on non-allowed assumptions: {t['assumptions'][:200]}")
    if rc != 0:
        text = (COQ / "theories" / "Properties" / f"{pid}.v").read_text() if (COQ / "theories" / "Properties" / f"{pid}.v").exists() else ""
        for n in re.findall(r"^Print Assumptions\s+([A-Za-z0-9_']+)\s*\.", text, flags=re.M):
            obligations.append({"kind": "theorem", "name": n, "ok": False, "status": "unchecked"})
    # thorough tier: independent re-check of the compiled property file and everything it depends on
    coqchk_report = None
    if tier == "thorough" and rc == 0:
        pc = subprocess.run(["timeout", "1500", "coqchk", "-silent", "-o", "-Q", str(COQ / "theories"), "CG", f"CG.Properties.{pid}"],
                            capture_output=True, text=True, cwd=str(COQ))
        txt = pc.stdout + pc.stderr
        m = re.search(r"\* Axioms:(.*?)\n\s*\n\* Constants/Inductives relying on type-in-type:(.*?)\n\s*\n\* Constants/Inductives relying on unsafe \(co\)fixpoints:(.*?)\n\s*\n\* Inductives whose positivity is assumed:(.*?)\n", txt + "\n", flags=re.S)
        fields = [" ".join(x.split()) for x in m.groups()] if m else None
        okc = pc.returncode == 0 and fields is not None and all(f == "<none>" or (i == 0 and all(a.split(".")[-1] in getattr(P, "ALLOWED_AXIOMS", []) for a in f.split())) for i, f in enumerate(fields))
        coqchk_report = {"rc": pc.returncode, "axioms": fields[0] if fields else None, "type_in_type": fields[1] if fields else None,
                         "unsafe_fixpoints": fields[2] if fields else None, "assumed_positivity": fields[3] if fields else None}
        obligations.append({"kind": "coqchk", "name": f"coqchk -o CG.Properties.{pid}", "ok": okc, "detail": coqchk_report})
        if not okc:
            proof_fail.append(f"coqchk did not accept Properties/{pid}.vo cleanly: {txt[-300:]}")
    bad = forbid_scan()
    obligations.append({"kind": "forbid-scan", "name": "no Admitted/admit/Axiom/Parameter/unset checks in coq/theories", "ok": not bad})
    if bad:
        proof_fail.append("forbidden constructs: " + ", ".join(bad[:5]))

    phases["proof_s"] = round(time.time() - tp, 1); tp = time.time()
    # ---------------- B, C: correspondence and oracle
    hashseeds = P.HASHSEEDS[tier] if isinstance(getattr(P, "HASHSEEDS", None), dict) else ([0, 1] if tier == "quick" else [0, 1, 2, 3, 4, 5, 6, 7])
    corpus = []
    cdir = ROOT / "harness" / "corpus"
    if cdir.exists():
        for f in sorted(cdir.glob(f"{pid}-*.json")):
            try:
                corpus.append(json.loads(f.read_text())["case"])
            except Exception:
                pass
    cases = corpus + P.generate(rng, tier)
    res = None
    tie_fail = []
    try:
        res = explore(P, pid, cases, hashseeds, workdir, "cases")
    except Exception as e:  # worker crashed outright
        tie_fail.append(f"implementation driver failed: {e!r}"[:600])
    oracle_new = []

    def handle(res, cases, label):
        for k in res["holds_bad"]:
            i, hs, obs = res["meta"][k]
            fid = P.finding_signature(cases[i], obs) if hasattr(P, "finding_signature") else None
            if fid and fid in findings and findings[fid].get("status") == "open":
                line = f"KNOWN-FINDING: property={pid} {fid} {findings[fid]['what']}"
                if line not in known_lines:
                    known_lines.append(line)
            else:
                oracle_new.append((cases[i], hs, obs, k in res["agree_bad"]))
        for k in res["agree_bad"]:
            if k in res["holds_bad"]:
                continue
            i, hs, obs = res["meta"][k]
            fid = P.finding_signature(cases[i], obs) if hasattr(P, "finding_signature") else None
            if fid and fid in findings and findings[fid].get("status") == "open" and findings[fid].get("covers_disagreement"):
                continue
            tie_fail.append({"what": "model and implementation disagree", "case": cases[i], "hashseed": hs, "observed": obs})
        for e in res["coq_errors"]:
            tie_fail.append({"what": "case file did not evaluate", **e})
        for e in res["harness_errors"]:
            tie_fail.append({"what": "harness error while running the implementation", **e})

    if res:
        handle(res, cases, "main")

    phases["cases_s"] = round(time.time() - tp, 1); tp = time.time()
    # ---------------- widened search when a proof or the tie is broken but no failing input yet
    widened = 0
    if (proof_fail or tie_fail) and not oracle_new and hasattr(P, "generate"):
        rng2 = random.Random(seed + 1)
        more = []
        for _ in range(getattr(P, "WIDEN", 4)):
            more += P.generate(rng2, tier)
        for t in tie_fail:
            if isinstance(t, dict) and "case" in t and hasattr(P, "mutate_case"):
                for _ in range(40):
                    more.append(P.mutate_case(rng2, t["case"]))
        try:
            res2 = explore(P, pid, more, sorted(set(hashseeds + [2, 3])), workdir, "widen")
            widened = res2["n_terms"]
            save_tie = list(tie_fail)
            handle(res2, more, "widen")
            tie_fail[:] = save_tie  # report the original disagreements only
        except Exception as e:
            pass

    # ---------------- verdict
    seen = set()
    for (case, hs, obs, disagree) in oracle_new:
        key = hashlib.sha1(json.dumps(case, sort_keys=True).encode()).hexdigest()[:10]
        if key in seen:
            continue
        seen.add(key)
        if len(seen) > 5:
            break
        path = write_replay(pid, key, {"property": pid, "case": case, "hashseed": hs, "observed": obs,
                                       "verdict": {"holds": False, "agree": not disagree},
                                       "broken_obligation": proof_fail[:3]})
        violations.append((path, ""))
    if not oracle_new and (proof_fail or tie_fail):
        payload = {"property": pid, "broken_obligation": proof_fail, "broken_correspondence": tie_fail[:5],
                   "note": "no input violating the property's oracle was found in the widened search",
                   "widened_cases": widened}
        if tie_fail and isinstance(tie_fail[0], dict) and "case" in tie_fail[0]:
            payload["case"] = tie_fail[0]["case"]
            payload["hashseed"] = tie_fail[0].get("hashseed", 0)
        path = write_replay(pid, "obligation", payload)
        violations.append((path, " no-failing-input-found"))

    # ---------------- evidence
    n_obl = len(obligations) + 1
    n_dis = sum(1 for o in obligations if o["ok"]) + (0 if tie_fail else 1)
    distinct = set()
    dist = {}
    samples = []
    if res:
        for (i, hs, obs) in res["meta"]:
            c = cases[i]
            if P.nontrivial(c, obs):
                distinct.add(hashlib.sha1(json.dumps(c, sort_keys=True).encode()).hexdigest())
            k = P.classify(c, obs) if hasattr(P, "classify") else c.get("fn", "case")
            for kk in (k if isinstance(k, list) else [k]):
                dist[kk] = dist.get(kk, 0) + 1
        for (i, hs, obs) in res["meta"][:: max(1, len(res["meta"]) // 3)][:3]:
            samples.append({"case": cases[i], "hashseed": hs, "observed": obs})
    ev = {
        "property_id": pid, "tier": tier, "seed": seed, "level": "proof",
        "coverage": {
            "obligations": n_obl, "discharged": n_dis,
            "checker_cmd": f"make -C coq theories/Properties/{pid}.vo && coqc theories/Properties/{pid}.v (Print Assumptions) && coqc build/<run>/cases_*.v (vm_compute: agree, holds)",
            "trusted_base": TRUSTED + list(getattr(P, "TRUSTED_EXTRA", [])),
            "theorems": [o for o in obligations if o["kind"] == "theorem"],
            "gen_obligations": [o for o in obligations if o["kind"] == "gen-shape"],
            "other_obligations": [o for o in obligations if o["kind"] not in ("theorem", "gen-shape")] +
                                 [{"kind": "correspondence", "name": f"agree on {res['n_terms'] if res else 0} implementation runs", "ok": not tie_fail}],
            "evaluations": res["n_terms"] if res else 0,
            "distinct_nontrivial": len(distinct),
            "rule": getattr(P, "RULE", ""),
            "samples": samples or [{"note": "no case evaluated"}],
            "traces_validated_against_impl": (res["n_terms"] - len(res["agree_bad"])) if res else 0,
            "disagreements_checked": len(res["agree_bad"]) if res else 0,
            "oracle_failures": len(res["holds_bad"]) if res else 0,
            "widened_cases": widened,
            "distribution": dist,
            "hashseeds": hashseeds,
            "exhaustive": False,
            "explanation": getattr(P, "EXPLANATION", ""),
            "known_findings_reported": known_lines,
            "phases": phases,
        },
        "assumptions": list(getattr(P, "ASSUMPTIONS", [])) + ["CPython set iteration order is reproducible within a process for fixed PYTHONHASHSEED"],
        "wall_s": round(time.time() - t0, 1),
        "violations": len(violations),
    }
    EVID.mkdir(parents=True, exist_ok=True)
    (EVID / f"{pid}.json").write_text(json.dumps(ev, indent=1))
    for l in known_lines:
        print(l)
    for path, suffix in violations:
        print(f"VIOLATION property={pid} replay={path}{suffix}")
    print(f"{pid} {tier}: obligations {n_dis}/{n_obl}, cases {ev['coverage']['evaluations']} (distinct non-trivial {len(distinct)}), "
          f"disagreements {ev['coverage']['disagreements_checked']}, oracle failures {ev['coverage']['oracle_failures']}, {ev['wall_s']} s")
    return 1 if violations else 0


if __name__ == "__main__":
    sys.exit(main(sys.argv[1:]))
