"""Shared harness code: circuit dumps, generators, Coq term printing, coqc runner.

Runs under /venv/bin/python (networkx, lark available).  `circuitgraph` is imported only inside
workers (see worker.py) with PYTHONPATH pointing at $VERIF_REPO.
"""
import json
import os
import random
import re
import subprocess
import time
from pathlib import Path

ROOT = Path(__file__).resolve().parent.parent
REPO = Path(os.path.realpath(os.environ.get("VERIF_REPO", "/repo")))
# A tree other than /repo (a mutant in a scratch worktree) gets its own copy of the Coq development, so that
# regenerated Gen/*.v files and rebuilt .vo files never disturb checks of /repo running at the same time.
if str(REPO) == "/repo":
    COQ = ROOT / "coq"
else:
    import hashlib as _h
    COQ = ROOT / "build" / ("coq-" + _h.sha1(str(REPO).encode()).hexdigest()[:10])
PY = "/venv/bin/python"

TYPE2COQ = {
    "buf": "Buf", "and": "And", "or": "Or", "xor": "Xor", "not": "Not", "nand": "Nand",
    "nor": "Nor", "xnor": "Xnor", "0": "C0", "1": "C1", "x": "CX", "input": "Input",
    "bb_input": "BbIn", "bb_output": "BbOut", None: "NoTy",
}
MULTI = ["and", "nand", "or", "nor", "xor", "xnor"]
SINGLE = ["buf", "not"]
GATES = MULTI + SINGLE


# ---------------------------------------------------------------- dumps
def dump_circuit(c):
    """Canonical JSON-able dump of a circuitgraph.Circuit (node order = graph insertion order)."""
    nodes = []
    for n in c.graph.nodes:
        a = c.graph.nodes[n]
        nodes.append([n, a.get("type"), bool(a.get("output", False)), sorted(c.graph.predecessors(n))])
    bbs = [[inst, bb.name, sorted(bb.inputs()), sorted(bb.outputs())] for inst, bb in c.blackboxes.items()]
    return {"name": c.name, "nodes": nodes, "bbs": bbs}


def build_circuit(d):
    """Build a Circuit from a dump directly on the DiGraph (ill-formed graphs allowed)."""
    import circuitgraph as cg
    import networkx as nx

    g = nx.DiGraph()
    for n, t, o, _ in d["nodes"]:
        attrs = {}
        if t is not None:
            attrs["type"] = t
        if o is not None:
            attrs["output"] = o
        g.add_node(n, **attrs)
    for n, _, _, fi in d["nodes"]:
        for f in fi:
            g.add_edge(f, n)
    c = cg.Circuit(name=d.get("name") or "top")
    c.graph = g
    c.blackboxes = {inst: cg.BlackBox(bn, ins, outs) for inst, bn, ins, outs in d.get("bbs", [])}
    return c


def canon(d):
    """Order-insensitive key of a dump (for distinct counting)."""
    return json.dumps({"name": d.get("name"), "nodes": sorted(map(lambda x: [x[0], x[1], x[2], sorted(x[3])], d["nodes"])),
                       "bbs": sorted(d.get("bbs", []))}, sort_keys=True)


# ---------------------------------------------------------------- Coq printing
def cs(s):
    return '"' + s.replace('"', '""') + '"'


def cl(items):
    return "[" + ";".join(items) + "]"


def csl(strs):
    return cl(cs(s) for s in strs)


def cb(b):
    return "T" if b else "F"


def cty(t):
    return TYPE2COQ.get(t, "Unsup")


def cnodes(nodes):
    return cl("(%s,%s,%s,%s)" % (cs(n), cty(t), cb(o), csl(fi)) for n, t, o, fi in nodes)


def cbbs(bbs):
    return cl("(%s,mk_bb %s %s %s)" % (cs(i), cs(bn), csl(ins), csl(outs)) for i, bn, ins, outs in bbs)


def ccirc(d):
    return "(mk %s %s %s)" % (cs(d.get("name") or "top"), cnodes(d["nodes"]), cbbs(d.get("bbs", [])))


def cgraph(d):
    return "(mk_g %s)" % cnodes(d["nodes"])


def cnat(n):
    return "%d%%nat" % n


def copt(x, f):
    return "None" if x is None else "(Some %s)" % f(x)


def cpairs(d, fk=cs, fv=cs):
    return cl("(%s,%s)" % (fk(k), fv(v)) for k, v in d)


# ---------------------------------------------------------------- generators
NAME_POOLS = {
    "plain": lambda i: f"n{i}",
    "short": lambda i: "abcdefghijklmnopqrstuvwxyz"[i % 26] + (str(i // 26) if i >= 26 else ""),
    "under": lambda i: f"w_{i}",
}


def rand_dag(rng, n_in, n_gate, types=None, max_fanin=4, p_const=0.0, consts=("0", "1"),
             p_out=0.3, names=None, sinks_out=True, allow_single_multi=True):
    """Random lint-clean acyclic blackbox-free circuit dump."""
    types = types or GATES
    if names is None:
        style = rng.choice(list(NAME_POOLS))
        names = NAME_POOLS[style]
    nodes = []
    k = 0
    for _ in range(n_in):
        nodes.append([names(k), "input", False, []]); k += 1
    n_const = sum(1 for _ in range(2) if rng.random() < p_const)
    for _ in range(n_const):
        nodes.append([names(k), rng.choice(consts), False, []]); k += 1
    for _ in range(n_gate):
        t = rng.choice(types)
        avail = [n[0] for n in nodes]
        if not avail:
            break
        if t in SINGLE:
            ar = 1
        else:
            lo = 1 if allow_single_multi and rng.random() < 0.1 else 2
            ar = rng.randint(lo, max(lo, min(max_fanin, len(avail))))
        ar = min(ar, len(avail))
        # bias towards recent nodes for depth
        fi = set()
        while len(fi) < ar:
            if rng.random() < 0.5:
                fi.add(avail[-1 - min(len(avail) - 1, int(rng.expovariate(0.7)))])
            else:
                fi.add(rng.choice(avail))
        nodes.append([names(k), t, False, sorted(fi)]); k += 1
    used = {f for n in nodes for f in n[3]}
    for n in nodes:
        if n[1] == "input":
            n[2] = rng.random() < p_out * 0.3
        elif (sinks_out and n[0] not in used) or rng.random() < p_out:
            n[2] = True
    if not any(n[2] for n in nodes) and nodes:
        nodes[-1][2] = True
    return {"name": "top", "nodes": nodes, "bbs": []}


def add_flop(rng, d, inst="ff0", on=None, clk="clk", bbname="ff", unconnected=False):
    """Splice a flip-flop blackbox (pins d, clk -> q) into the fan-out of node `on` (dump level)."""
    d = json.loads(json.dumps(d))
    names = [n[0] for n in d["nodes"]]
    if on is None:
        on = rng.choice(names)
    q = f"{inst}_qbuf"
    for n in d["nodes"]:
        n[3] = sorted(q if f == on else f for f in n[3])
    if clk not in names:
        d["nodes"].append([clk, "input", False, []])
    d["nodes"].append([f"{inst}.d", "bb_input", False, [on]])
    d["nodes"].append([f"{inst}.clk", "bb_input", False, [] if unconnected else [clk]])
    d["nodes"].append([f"{inst}.q", "bb_output", False, []])
    d["nodes"].append([q, "buf", False, [f"{inst}.q"]])
    if not any(q in n[3] for n in d["nodes"]):
        d["nodes"][-1][2] = True
    d["bbs"] = d.get("bbs", []) + [[inst, bbname, ["clk", "d"], ["q"]]]
    return d


def shuffle_nodes(rng, d):
    d = json.loads(json.dumps(d))
    rng.shuffle(d["nodes"])
    return d


def inputs_of(d):
    return [n[0] for n in d["nodes"] if n[1] == "input"]


def free_of(d):
    return [n[0] for n in d["nodes"] if n[1] in ("input", "bb_output", "x") or (n[1] in ("buf", "not", "bb_input") and not n[3])]


# ---------------------------------------------------------------- coqc
def run_coqc(vfile, timeout=600):
    """Compile one .v file with the project's load path; returns (rc, stdout+stderr)."""
    cmd = ["timeout", str(timeout), "coqc", "-Q", str(COQ / "theories"), "CG", "-w", "none", str(vfile)]
    p = subprocess.run(cmd, capture_output=True, text=True)
    return p.returncode, p.stdout + p.stderr


RES_RE = re.compile(r"=\s*\((\[[^\]]*\]),\s*(\[[^\]]*\])\)", re.S)


def parse_nat_list(s):
    s = s.strip()[1:-1].strip()
    if not s:
        return []
    return [int(x.replace("%nat", "").strip()) for x in s.split(";")]


def eval_cases(run_module, terms, workdir, shard=120, jobs=int(os.environ.get("VERIF_JOBS", "16")), timeout=900, tag="cases"):
    """Write sharded case files, run coqc in parallel, return (agree_bad, holds_bad, errors).

    terms: list of Coq terms of type `case` (strings).  Indices are global."""
    workdir = Path(workdir)
    workdir.mkdir(parents=True, exist_ok=True)
    files = []
    for k in range(0, len(terms), shard):
        f = workdir / f"{tag}_{k // shard}.v"
        with open(f, "w") as fh:
            fh.write(f"From CG Require Import {run_module}.\nOpen Scope string_scope.\n")
            fh.write("Definition cases : list case := [\n")
            fh.write(";\n".join(terms[k:k + shard]))
            fh.write("\n].\nEval vm_compute in (bad_indices agree cases, bad_indices holds cases).\n")
        files.append((k, f))
    procs = []
    agree_bad, holds_bad, errors = [], [], []
    pending = list(files)
    running = []
    while pending or running:
        while pending and len(running) < jobs:
            k, f = pending.pop(0)
            cmd = ["timeout", str(timeout), "coqc", "-Q", str(COQ / "theories"), "CG", "-w", "none", str(f)]
            running.append((k, f, subprocess.Popen(cmd, stdout=subprocess.PIPE, stderr=subprocess.STDOUT, text=True, cwd=workdir)))
        k, f, p = running.pop(0)
        out, _ = p.communicate()
        m = RES_RE.search(out)
        if p.returncode != 0 or not m:
            errors.append({"file": str(f), "rc": p.returncode, "output": out[-2000:]})
            continue
        agree_bad += [k + i for i in parse_nat_list(m.group(1))]
        holds_bad += [k + i for i in parse_nat_list(m.group(2))]
    return sorted(agree_bad), sorted(holds_bad), errors


def now():
    return time.time()
