#!/venv/bin/python
"""Refresh the one-line "Built state" pointer under every `### Cxx` heading of DESIGN.md section 5 from Properties/Cxx.v."""
import re
from pathlib import Path
ROOT = Path(__file__).resolve().parent.parent
s = (ROOT / "DESIGN.md").read_text()
for k in range(1, 21):
    pid = f"C{k:02d}"
    txt = (ROOT / "coq" / "theories" / "Properties" / f"{pid}.v").read_text()
    nc = re.sub(r"\(\*.*?\*\)", "", txt, flags=re.S)
    thms = re.findall(r"^(?:Theorem|Lemma|Corollary)\s+([A-Za-z0-9_']+)", nc, flags=re.M)
    partial = [t for t in thms if "_partial" in t]
    defs = re.findall(r"^Definition\s+([A-Za-z0-9_']*_full[A-Za-z0-9_']*)", nc, flags=re.M)
    open_defs = [d for d in defs if not any(d.replace("_full", "") == t or d == t + "_full" for t in thms)]
    line = (f"*Built state (generated; details in `docs/{pid}.md`, `docs/STATUS.md`): {len(thms)} theorems in `Properties/{pid}.v`, all closed under the global context"
            + (f"; `_partial`: {', '.join(partial)}" if partial else "; none `_partial`")
            + (f"; still open as `Definition`: {', '.join(open_defs)}" if open_defs else "; no open `_full` statement") + ".*")
    m = re.search(rf"^### {pid} — [^\n]*\n", s, flags=re.M)
    if not m:
        continue
    rest = s[m.end():]
    if rest.startswith("\n*Built state"):
        rest = rest[1:]
        rest = rest[rest.index("\n") + 1:]
        if rest.startswith("\n"):
            rest = rest[1:]
    s = s[:m.end()] + "\n" + line + "\n\n" + rest.lstrip("\n")
(ROOT / "DESIGN.md").write_text(s)
