#!/venv/bin/python
"""Regenerate /verif/MANIFEST.json from the property modules under harness/props (one source of truth).

A property is claimed when its module defines CLAIMED = True together with LEVEL_TEXT, LEVEL_NOTE, TECHNIQUE.
Every other property of properties.jsonl is listed under not_applicable with the module's NOT_CLAIMED_REASON
(or a default saying the check is not built)."""
import importlib
import json
import sys
from pathlib import Path

ROOT = Path(__file__).resolve().parent.parent
sys.path.insert(0, str(ROOT / "harness"))

BASELINE = "cd /repo && /venv/bin/python -m pytest -ra -q -p no:cacheprovider --timeout=900 --continue-on-collection-errors"


def main():
    ids = [json.loads(l)["id"] for l in (ROOT / "properties.jsonl").read_text().splitlines() if l.strip()]
    # harness/claimed.txt: the checks the coordinator has seen pass on the unchanged tree (one id per line); a module that
    # says CLAIMED but is not listed there yet is still reported as "not built yet"
    allow = set((ROOT / "harness" / "claimed.txt").read_text().split())
    checks, na = [], []
    for pid in ids:
        try:
            P = importlib.import_module("props." + pid.lower())
        except ModuleNotFoundError:
            P = None
        if P is not None and getattr(P, "CLAIMED", False) and pid in allow:
            checks.append({
                "property_id": pid,
                "quick_cmd": f"./check {pid} --tier quick",
                "thorough_cmd": f"./check {pid} --tier thorough",
                "evidence_file": f"evidence/{pid}.json",
                "replay_cmd_template": f"./check {pid} --replay {{path}}",
                "engine": "coq-model+correspondence",
                "level_claimed": {"category": "proof", "text": P.LEVEL_TEXT, "design_ref": getattr(P, "DESIGN_REF", f"DESIGN.md section 5 / {pid}")},
                "level_note": P.LEVEL_NOTE,
                "technique": P.TECHNIQUE,
            })
        else:
            na.append({"property_id": pid, "reason": getattr(P, "NOT_CLAIMED_REASON", "check not built yet: no Coq model / theorem for this property is committed, so nothing is claimed (the technique itself applies, see DESIGN.md section 5)")})
    man = {
        "version": 1,
        "setup_cmd": "./setup.sh",
        "hooks": {
            "guard": "CIRCUITGRAPH_VERIF",
            "enable": "no source hooks: checks import the library from /repo with PYTHONPATH=/repo:/verif/harness/shims (pure-Python pysat stand-in) and record iteration orders from outside",
            "baseline_off_cmd": BASELINE,
            "source_commits": [],
            "add_only": True,
        },
        "engines": [{"name": "coq-model+correspondence", "path": "check", "serves_properties": [c["property_id"] for c in checks],
                     "kind_free_text": "Coq 8.16 + std++ model and theorems (coq/theories), fail-closed translator (gen/translate.py) regenerating table-like model parts from /repo, correspondence + property oracle evaluated by vm_compute on what the implementation returned (harness/)"}],
        "checks": checks,
        "notes": "Every check: (A) rebuilds the property's theorems against tables regenerated from /repo, (B) compares the executable Coq model with the implementation on generated cases, (C) evaluates the property's specification in Coq on the implementation's outputs. See DESIGN.md section 4.4 for the verdict rules and known_findings.json for fixed/open findings.",
        "not_applicable": na,
    }
    (ROOT / "MANIFEST.json").write_text(json.dumps(man, indent=1) + "\n")
    print(f"claimed: {[c['property_id'] for c in checks]}")


if __name__ == "__main__":
    main()
