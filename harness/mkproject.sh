#!/bin/sh
# Regenerate coq/_CoqProject (all theories/**/*.v) and the Makefile when the file list changed.
cd "${1:-$(dirname "$0")/../coq}" || exit 2
{
  echo "-Q theories CG"
  echo "-arg -w -arg -notation-overridden,-deprecated-hint-without-locality,-ambiguous-paths,-redundant-canonical-projection,-deprecated-instance-without-locality"
  find theories -name '*.v' | LC_ALL=C sort
} > _CoqProject.new
if [ ! -f _CoqProject ] || ! cmp -s _CoqProject _CoqProject.new || [ ! -f Makefile ]; then
  mv _CoqProject.new _CoqProject
  coq_makefile -f _CoqProject -o Makefile >/dev/null
else
  rm -f _CoqProject.new
fi
