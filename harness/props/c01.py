"""C01: Tseitin CNF / solve() is exact for circuit semantics."""
import json

import lib
from lib import cs, cb, ccirc
from props import sat_util as U

ID = "C01"
RUN_MODULE = "Run.Run_C01"
GEN_FILES = ["Gen_cnf.v", "Gen_lint.v", "Gen_types.v"]
RULE = ("every gate type x fan-in 1..5 as a probe circuit, random lint-clean circuits <= 14 nodes (constants, flip-flop blackboxes with "
        "used/unused pins, 1-2 feedback edges, node names equal to xor_<a>_<b> / xor_inv_<n> / tuple-looking strings), circuits outside "
        "the domain (x, parity gate without operands, undriven pins) for the error classes; per circuit cnf() and solve() with no, partial "
        "(inputs and internal nodes), complete, contradictory and unknown-key assumptions; non-trivial = at least one gate; distinct = input hash")
EXPLANATION = ("cnf_sound / cnf_complete / solve_spec proved for the model over the regenerated clause templates; model tied to sat.cnf / "
               "sat.solve by comparing clause sets (named through the IDPool) and results; the oracle enumerates assignments")
SHARD = 40
WIDEN = 1
EXTRA_TARGETS = ["theories/Run/SatRunProofs.vo"]
HASHSEEDS = {"quick": [0, 1], "thorough": [0, 1, 2, 3, 4, 5, 6, 7]}


def gen_assumptions(rng, d):
    names = [n[0] for n in d["nodes"]]
    free = lib.free_of(d)
    k = rng.choice(["none", "empty", "inputs", "mixed", "mixed", "internal", "full", "contradict", "contradict", "unknown"])
    if k == "none":
        return None, k
    if k == "empty":
        return [], k
    if k == "inputs":
        return [[n, rng.random() < 0.5] for n in rng.sample(free, rng.randint(0, len(free)))], k
    if k == "mixed":
        return [[n, rng.random() < 0.5] for n in rng.sample(names, rng.randint(1, min(4, len(names))))], k
    if k == "internal":
        inner = [n for n in names if n not in free] or names
        return [[n, rng.random() < 0.5] for n in rng.sample(inner, rng.randint(1, min(3, len(inner))))], k
    if k == "full":
        return [[n, rng.random() < 0.5] for n in free], k
    if k == "contradict":
        a = {n: rng.random() < 0.5 for n in free}
        val = U.eval_dump(d, a)
        inner = [n for n in names if n not in free]
        if val is None or not inner:
            return [[n, rng.random() < 0.5] for n in names[:3]], "mixed"
        g = rng.choice(inner)
        keep = rng.sample(sorted(a), rng.randint(max(0, len(a) - 1), len(a)))
        return [[n, a[n]] for n in keep] + [[g, not val[g]]], k
    return [[n, rng.random() < 0.5] for n in rng.sample(names, min(1, len(names)))] + [[rng.choice(["nope", "xor_inv_", names[0] + "_"]), True]], k


RETYPE = {"and": ["nand", "or", "nor", "xor", "xnor"], "nand": ["and", "or", "nor", "xnor"], "or": ["nor", "and", "xor"], "nor": ["or", "nand", "and"],
          "xor": ["xnor", "and", "or"], "xnor": ["xor", "nand", "nor"], "buf": ["not"], "not": ["buf"], "0": ["1"], "1": ["0"]}


def gen_edit(rng, d):
    nodes = d["nodes"]
    k = rng.choice(["set_type", "set_type", "set_type", "set_output", "swap_edge"])
    if k == "set_type":
        cand = [n for n in nodes if n[1] in RETYPE]
        if cand:
            n = rng.choice(cand)
            return {"op": "set_type", "node": n[0], "type": rng.choice(RETYPE[n[1]]), "redefine": rng.random() < 0.3}
    if k == "swap_edge":
        cand = [n for n in nodes if n[1] in lib.GATES and n[3]]
        if cand:
            g = rng.choice(cand)
            others = [m[0] for m in nodes if m[0] != g[0] and m[0] not in g[3]]
            if others:
                return {"op": "swap_edge", "node": g[0], "old": rng.choice(g[3]), "new": rng.choice(others)}
    n = rng.choice(nodes)
    return {"op": "set_output", "node": n[0], "value": not n[2]}


def gen_history(rng):
    d, tags = U.gen_circuit(rng, kind=rng.choice(["dag", "dag", "parity", "const", "cyclic"]))
    while len(d["nodes"]) > 10:
        d, tags = U.gen_circuit(rng, kind="dag")
    query = rng.choice(["solve", "solve", "cnf"])
    case = {"fn": "history", "query": query, "circuit": d, "edits": [gen_edit(rng, d) for _ in range(rng.choice([1, 1, 2]))],
            "tags": ["history"] + tags}
    if query == "solve":
        free = lib.free_of(d)
        case["assume"] = [[n, rng.random() < 0.5] for n in rng.sample(free, rng.randint(0, len(free)))] if rng.random() < 0.8 else None
        case["akind"] = "inputs"
    return case


def generate(rng, tier):
    quick = tier == "quick"
    out = []
    # every gate type at every fan-in
    for rep in range(1 if quick else 4):
        for t in lib.GATES:
            for k in ([1] if t in lib.SINGLE else [1, 2, 3, 4, 5]):
                d = U.gate_probe(rng, t, k)
                out.append({"fn": "cnf", "circuit": d, "tags": ["probe"]})
                a, ak = gen_assumptions(rng, d)
                out.append({"fn": "solve", "circuit": d, "assume": a, "akind": ak, "tags": ["probe"]})
    n = 110 if quick else 600
    for i in range(n):
        d, tags = U.gen_circuit(rng, big=(i % 5 == 4))
        out.append({"fn": "cnf", "circuit": d, "tags": tags})
        for _ in range(2):
            a, ak = gen_assumptions(rng, d)
            out.append({"fn": "solve", "circuit": d, "assume": a, "akind": ak, "tags": tags})
    # families of parity gates over a small shared pool (operand pairs recur); impl() adds order-reversed pairs (reversal_followups)
    for i in range(12 if quick else 120):
        d, tags = U.parity_family(rng)
        out.append({"fn": "cnf", "circuit": d, "tags": tags})
        a, ak = gen_assumptions(rng, d)
        out.append({"fn": "solve", "circuit": d, "assume": a, "akind": ak, "tags": tags})
    # multi-step histories on ONE Circuit object: query, in-place edit that keeps the node set (retype within the arity class,
    # set_output, swap one fan-in edge), query again; every answer is judged against the circuit as it is at that moment
    for i in range(30 if quick else 300):
        out.append(gen_history(rng))
    for i in range(n // 6):
        d, tags = U.gen_outside(rng)
        out.append({"fn": "cnf", "circuit": d, "tags": tags})
        if tags[0] in ("outside:x", "outside:empty_parity"):
            # (a node without any clause may get the highest variable number; solve() then fails with IndexError while reading
            #  the model back -- outside the property's domain and dependent on the IDPool numbering, which is not modelled)
            a, ak = gen_assumptions(rng, d)
            out.append({"fn": "solve", "circuit": d, "assume": a, "akind": ak, "tags": tags})
    return out


def observe(cg, d, case, follow):
    c = lib.build_circuit(d)
    obs = {"nodes": list(c.nodes()), "orders": U.record_orders(c)}
    variables = None
    try:
        if case["fn"] == "cnf":
            formula, variables = cg.sat.cnf(c)
            obs["cnf"] = U.named_clauses(formula.clauses, variables)
            obs["nv"] = formula.nv
        else:
            if follow:
                try:
                    _, variables = cg.sat.cnf(c)
                except Exception:
                    variables = None
            a = case["assume"]
            r = cg.sat.solve(c, None if a is None else {k: v for k, v in a})
            if r is False:
                obs["ret"] = False
            elif isinstance(r, dict) and all(isinstance(v, bool) for v in r.values()):
                obs["ret"] = sorted([k, v] for k, v in r.items())
            else:
                obs["ret_other"] = repr(r)[:200]
    except Exception as e:
        obs["exc"] = type(e).__name__
    fs = []
    if follow and variables is not None:
        # adaptive alias probing: string keys of the IDPool that are not nodes become node names of follow-up circuits
        fs += [[e, observe(cg, e, case, False)] for e in U.alias_followups(d, variables)]
    if follow and "pfamily" in case.get("tags", []):
        # order-reversal probing: two parity gates that chain a shared operand pair in opposite order under this hash seed
        fs += [[e, observe(cg, e, case, False)] for e in U.reversal_followups(d)]
    if fs:
        obs["followups"] = fs
    return obs


def query(cg, c, case):
    """one cnf()/solve() call on the live circuit object c"""
    obs = {"nodes": list(c.nodes()), "orders": U.record_orders(c)}
    try:
        if case["query"] == "cnf":
            formula, variables = cg.sat.cnf(c)
            obs["cnf"] = U.named_clauses(formula.clauses, variables)
        else:
            a = case.get("assume")
            r = cg.sat.solve(c, None if a is None else {k: v for k, v in a})
            if r is False:
                obs["ret"] = False
            elif isinstance(r, dict) and all(isinstance(v, bool) for v in r.values()):
                obs["ret"] = sorted([k, v] for k, v in r.items())
            else:
                obs["ret_other"] = repr(r)[:200]
    except Exception as e:
        obs["exc"] = type(e).__name__
    return obs


def apply_edit(c, e):
    try:
        if e["op"] == "set_type":
            if e.get("redefine"):
                c.add(e["node"], e["type"], fanin=list(c.fanin(e["node"])), output=c.is_output(e["node"]), allow_redefinition=True)
            else:
                c.set_type(e["node"], e["type"])
        elif e["op"] == "set_output":
            c.set_output(e["node"], e["value"])
        else:
            c.disconnect(e["old"], e["node"])
            c.connect(e["new"], e["node"])
        return "ok"
    except Exception as ex:                 # a rejected edit: the circuit is judged as it now is
        return type(ex).__name__


def impl(case):
    import circuitgraph as cg
    if case["fn"] == "skip":
        return {}
    if case["fn"] == "history":
        c = lib.build_circuit(case["circuit"])
        steps = [[lib.dump_circuit(c), query(cg, c, case)]]
        edits = []
        for e in case["edits"]:
            edits.append(apply_edit(c, e))
            steps.append([lib.dump_circuit(c), query(cg, c, case)])      # same object: dump = its state at this query
        return {"history": steps, "edits": edits}
    return observe(cg, case["circuit"], case, True)


def term(case, d, obs):
    head = f"{ccirc(d)} {U.cords(obs['orders'])}"
    if case["fn"] == "cnf":
        o = U.cexn(obs["exc"]) if "exc" in obs else f"(Ok {U.cclauses(obs['cnf'])})"
        return f"CCnf {head} {o}"
    if "exc" in obs:
        o = U.cexn(obs["exc"])
    elif "ret_other" in obs:
        o = "BadOrder"                                   # not a result shape solve() may have
    elif obs["ret"] is False:
        o = "(Ok None)"
    else:
        o = f"(Ok (Some {U.cassign(obs['ret'])}))"
    return f"CSolve {head} {U.cassign(case['assume'] or [])} {o}"


def to_coq(case, obs):
    if case["fn"] == "skip":
        return None
    if case["fn"] == "history":
        sub = dict(case, fn=case["query"])
        return U.cmany([term(sub, d, o) for d, o in obs["history"]])
    return U.cmany([term(case, case["circuit"], obs)] + [term(case, e, o) for e, o in obs.get("followups", [])])


def nontrivial(case, obs):
    return case["fn"] != "skip" and any(n[1] in lib.GATES and n[3] for n in case["circuit"]["nodes"])


def classify(case, obs):
    if case["fn"] == "skip":
        return ["skip"]
    tags = [case["fn"]] + ["kind:" + t for t in case.get("tags", [])]
    if case["fn"] == "history":
        return tags + ["history:" + case["query"]] + ["edit:%s:%s" % (e["op"], r) for e, r in zip(case["edits"], obs.get("edits", []))]
    if obs.get("followups"):
        tags.append("followups:%d" % len(obs["followups"]))
    if case["fn"] == "cnf":
        tags += U.describe(case["circuit"])
        if "cnf" in obs:
            nv = len(U.vars_of(obs["cnf"]) | {json.dumps(["n", n[0]]) for n in case["circuit"]["nodes"]})
            tags.append("cnf-vars:" + ("<=12" if nv <= 12 else "13-20" if nv <= 20 else ">20"))
            if any(v[0] != "n" for c_ in obs["cnf"] for _, v in c_):
                tags.append("has-aux-vars")
        else:
            tags.append("cnf:" + obs.get("exc", "?"))
    else:
        tags.append("assume:" + case.get("akind", "?"))
        tags.append("solve:" + ("exc:" + obs["exc"] if "exc" in obs else "False" if obs.get("ret") is False else "model"))
    return tags


def finding_signature(case, obs):
    return None


_MUTATE_BUDGET = [80]


def mutate_case(rng, case):
    """A fresh case of the same kind.  The framework asks for 40 neighbours per disagreeing (case, hash seed); an encoder change that
    keeps (or breaks) the function makes a large part of the cases disagree, so the neighbourhood is budgeted: after 80 real neighbours
    the remaining requests are answered with a marker that is skipped (to_coq -> None)."""
    if _MUTATE_BUDGET[0] <= 0:
        return {"fn": "skip"}
    _MUTATE_BUDGET[0] -= 1
    if case["fn"] == "history":
        return gen_history(rng)
    kind = (case.get("tags") or ["dag"])[0]
    d, tags = U.gen_circuit(rng, kind=kind if kind in ("dag", "parity", "bb", "bb_unconn", "cyclic", "stress", "const", "pfamily") else None)
    if case["fn"] == "cnf":
        return {"fn": "cnf", "circuit": d, "tags": tags}
    a, ak = gen_assumptions(rng, d)
    return {"fn": "solve", "circuit": d, "assume": a, "akind": ak, "tags": tags}


CLAIMED = True
LEVEL_TEXT = ("Theorems (all lint-clean closed circuits without x, all operand orders): the satisfying assignments of the cnf model restricted "
              "to node variables are exactly the consistent valuations (cnf_sound, cnf_complete), cnf is total, acyclic circuits have exactly one "
              "projected model per startpoint assignment, and solve meets its specification relative to a sound and complete solver. The clause "
              "templates the model runs on are regenerated from sat.py on every run and proved semantically exact. The model is tied to sat.cnf / "
              "sat.solve by correspondence of clause sets and results; the oracle's soundness half (all models of the recorded clauses, any size) "
              "is proved to decide the specification (C01_oracle_sound).")
LEVEL_NOTE = ("Trusted: Coq kernel + vm_compute, std++, translator shapes for sat.cnf (chain loop compared structurally, fail closed), harness naming "
              "of CNF variables through the IDPool. The SAT solver is a Section variable with hypotheses sound+complete (python-sat is absent; the "
              "pure-Python stand-in's answers are re-checked by the oracle). IDPool numbering is not modelled (clauses are compared by name).")
TECHNIQUE = "Coq proof (Tseitin templates at every arity, xor chain, fold over nodes) + regenerated tables + vm_compute correspondence"
