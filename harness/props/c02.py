"""C02: the Verilog reader yields the circuit the netlist denotes."""
import copy
import json
import random

import lib
from lib import cs, csl, cl
from props import verilog_util as vu

ID = "C02"
RUN_MODULE = "Run.Run_C02"
GEN_FILES = ["Gen_grammar.v"]
RULE = ("random modules of the structural subset rendered to text: expression trees of depth <= 5 over ~ ! & | ^ ~^ ^~ ?: with random "
        "parentheses and 1'b/1'h constants, assign lists, primitive instances (several per statement, expression operands, "
        "repeated operands of parity gates), blackbox instances with connected / .p() / omitted pins, items shuffled (use before "
        "definition), repeated sub-expressions, nets named like the reader's synthetic names (not_a, and_a_b, mux_o_.., tie_0 ..), "
        "escaped identifiers, comments and white space at token boundaries; a malformed stream (port list / declaration mismatch, "
        "positional blackbox ports, named primitive ports, unknown module type, output that never appears or occurs only as cancelling "
        "operands of a parity gate (must be rejected with an exception), double drivers); "
        "raw Lark trees of valid and corrupted expression strings. non-trivial = at least two operators or instances; "
        "distinct = hash of the rendered text")
EXPLANATION = ("transformer model (Lark callback order) proved to build gates that carry the expression's value; grammar table regenerated "
               "from verilog.lark and proved equal to the tree type; model tied to verilog_to_circuit by correspondence")
SHARD = 40
HASHSEEDS = {"quick": [0, 1], "thorough": [0, 1, 2, 3]}

BBS = [["ff", ["clk", "d"], ["q"]], ["cell", ["a", "b"], ["y", "z"]], ["endmodule_ff", ["d"], ["q"]]]      # finding C02-F4
PLAIN = ["a", "b", "c", "d", "e", "f", "g", "h", "s", "w1", "w2", "n_3", "k9"]
TRICKY = ["not_a", "and_a_b", "xor_a_b", "or_a_b", "xnor_a_b", "mux_o_a_b_c", "mux_n_a_b_c", "mux_a0_a_b_c", "tie_0", "tie_1", "tie_x",
          "and_a_b_0", "not_a_0", "not_not_a", "and_not_a_b", "tie_0_0", "not_tie_0", "xor_b_a", "\\a[0]", "\\x.y", "\\not_a", "inputx",
          "wire_", "g_0", "not_b", "and_b_a", "or_a_not_a", "x_endmodule", "endmodule_x", "endmodules"]


def pick_names(rng, n):
    pool = PLAIN[:]
    rng.shuffle(pool)
    names = []
    p_tricky = rng.choice([0.0, 0.2, 0.5, 0.8])
    tricky = TRICKY[:]
    rng.shuffle(tricky)
    while len(names) < n:
        if tricky and rng.random() < p_tricky:
            names.append(tricky.pop())
        elif pool:
            names.append(pool.pop())
        else:
            names.append(f"n{len(names)}")
    return names


IDENT_RE = __import__("re").compile(r"[A-Za-z_][A-Za-z0-9_]*\Z")


def invented(t):
    """(name of the node the reader returns for tree t, names of the gates it creates in callback order); None where the name
    depends on a constant node.  Suffixes of uid are ignored: these are the names the reader tries first."""
    k = t[0]
    if k == "PId":
        return t[1], []
    if k == "PConst":
        return None, []
    if k in ("PParen", "UPrim", "AUn", "XAnd", "OXor", "COr"):
        return invented(t[1])
    if k == "UNot":
        r, l = invented(t[1])
        n = None if r is None else "not_" + r
        return n, l + [n]
    if k in ("AAnd", "XXor", "XXnor", "OOr"):
        ra, la = invented(t[1])
        rb, lb = invented(t[2])
        if k in ("XXor", "XXnor") and ra is not None and ra == rb:
            return None, la + lb
        n = None if ra is None or rb is None else {"AAnd": "and", "XXor": "xor", "XXnor": "xnor", "OOr": "or"}[k] + f"_{ra}_{rb}"
        return n, la + lb + [n]
    if k == "CTern":
        parts = [invented(x) for x in t[1:4]]
        made = [n for _, l in parts for n in l]
        if any(r is None for r, _ in parts):
            return None, made + [None]
        io = "_".join(r for r, _ in parts)
        return "mux_o_" + io, made + ["mux_n_" + io, "mux_a0_" + io, "mux_a1_" + io, "mux_o_" + io]
    raise ValueError(k)


def surviving_names(stmt):
    """invented names of nodes of a statement that stay in the circuit (the top gate of an assign is renamed to the lvalue)"""
    out = []
    if stmt[0] == "assign":
        for _, e in stmt[1]:
            r, made = invented(e)
            out += made[:-1] if made and made[-1] == r else made
    elif stmt[0] == "inst":
        for _, (kind, ps) in stmt[2]:
            for p in (ps[1:] if kind == "pos" else [e for _, e in ps if e is not None]):
                out += invented(p)[1]
    return [n for n in out if n and IDENT_RE.match(n) and n not in vu.KEYWORDS]


def rename_net(x, old, new):
    """rename a net in statements / name lists; inside expression trees only PId leaves are names"""
    if isinstance(x, list):
        if x and isinstance(x[0], str) and x[0] in vu.LEVEL:
            if x[0] == "PId":
                return ["PId", new if x[1] == old else x[1]] + x[2:]
            return [x[0]] + [rename_net(y, old, new) if isinstance(y, list) else y for y in x[1:]]
        return [rename_net(y, old, new) for y in x]
    return new if x == old else x


def gen_module(rng, tier="quick"):
    n_in = rng.randint(1, 4)
    n_drv = rng.randint(1, 6)
    n_bb = rng.choice([0, 0, 0, 1, 1, 2])
    max_free = 8
    names = pick_names(rng, n_in + n_drv + 3 * n_bb + 2)
    inputs = [names.pop() for _ in range(n_in)]
    avail = inputs[:]
    items = []          # statements
    wires = []
    budget = [rng.randint(6, 22)]     # operator nodes of the whole module (Coq evaluates every valuation on the result)
    free = n_in
    bbs_used = []
    stmts = []
    pool = []
    inst_k = [0]

    def expr(depth, leaves):
        for _ in range(20):
            e = vu.gen_cond(rng, depth, leaves, pool, p_tern=0.15, p_const=0.08, pparen=rng.choice([0.0, 0.1, 0.25]))
            if vu.count_ops(e) <= budget[0]:
                budget[0] -= vu.count_ops(e)
                return e
            depth = max(0, depth - 1)
        return vu.cid(rng.choice(leaves))

    has_x = False
    # nets in dependency order
    driven = []
    for k in range(n_drv):
        n = names.pop()
        r = rng.random()
        later = []   # use before definition concerns the textual order only (items are shuffled below)
        leaves = avail if avail else inputs
        if r < 0.55:
            e = expr(rng.randint(0, 5), leaves)
            stmts.append(["assign", [[n, e]]])
        else:
            prev = [x[1] for x in stmts if x[0] == "inst"]
            g = rng.choice(prev) if prev and rng.random() < 0.45 else rng.choice(vu.PRIMS)
            ar = 1 if g in ("buf", "not") else rng.choice([1, 2, 2, 2, 3, 4])
            ops = []
            for _ in range(ar):
                if rng.random() < 0.2:
                    ops.append(expr(rng.randint(1, 2), leaves))
                elif ops and rng.random() < 0.25:
                    ops.append(copy.deepcopy(rng.choice(ops)))           # repeated operand (parity gates cancel pairs)
                else:
                    ops.append(vu.cid(rng.choice(leaves)))
            if g in ("xor", "xnor") and rng.random() < 0.3:
                # an operand three or five times (parity: it survives once), possibly next to others
                rep = vu.cid(rng.choice(leaves))
                ops = [copy.deepcopy(rep) for _ in range(rng.choice([3, 3, 5]))] + ops[:rng.choice([0, 1, 2])]
                rng.shuffle(ops)
            inst_k[0] += 1
            stmts.append(["inst", g, [[f"g{inst_k[0]}", ["pos", [vu.cid(n)] + ops]]]])
        driven.append(n)
        avail.append(n)
        wires.append(n)
    # blackbox instances: outputs feed fresh nets that later logic may use; to stay acyclic their inputs use any net
    for b in range(n_bb):
        bn, ins, outs = rng.choice(BBS)
        if bn not in [x[0] for x in bbs_used]:
            bbs_used.append([bn, ins, outs])
        ps = []
        for p in ins:
            r = rng.random()
            if r < 0.6:
                ps.append([p, vu.cid(rng.choice(avail))])
            elif r < 0.72:
                ps.append([p, expr(rng.randint(1, 2), avail)])
            elif r < 0.86:
                ps.append([p, None])
            # else omitted
        for p in outs:
            r = rng.random()
            if r < 0.6 and free < max_free - 1:
                n = names.pop()
                ps.append([p, vu.cid(n)])
                free += 1
                wires.append(n)
                # a buffer or gate that uses the blackbox output
                if rng.random() < 0.7:
                    m2 = names.pop() if names else None
                    if m2:
                        stmts.append(["assign", [[m2, expr(rng.randint(0, 2), [n] + avail[:2])]]])
                        wires.append(m2)
                        driven.append(m2)
                avail.append(n)
            elif r < 0.8:
                ps.append([p, None])
        rng.shuffle(ps)
        if not ps:
            ps = [[rng.choice(ins + outs), None]]
        stmts.append(["inst", bn, [[f"u{b}", ["named", ps]]]])
    if any(vu.tree_has_x(s) for s in stmts):
        free += 1
    # a net that is first mentioned after an earlier statement made a surviving inner node of exactly that name
    if rng.random() < 0.6:
        all_ids = set(vu.tree_ids(stmts)) | set(inputs)
        cands = []
        for i, st in enumerate(stmts):
            later = [d for t in stmts[i + 1:] for d in ([lv for lv, _ in t[1]] if t[0] == "assign" else
                                                        [vu.as_id(ps[0]) for _, (kd, ps) in t[2] if kd == "pos" and t[1] in vu.PRIMS])]
            early = set(vu.tree_ids(stmts[:i + 1]))
            later = [d for d in later if d and d not in early]
            for nm in surviving_names(st):
                if nm not in all_ids and later:
                    cands.append((nm, later))
        fresh = [nm for st in stmts for nm in surviving_names(st) if nm not in all_ids]
        if fresh and (not cands or rng.random() < 0.4):
            # no later net to rename: define a new net of that name after everything else, with a function of its own
            nm = rng.choice(fresh)
            stmts.append(["assign", [[nm, vu.gen_cond(rng, rng.randint(0, 1), inputs, None, p_tern=0.0, p_const=0.0)]]])
            wires.append(nm)
            driven.append(nm)
            avail.append(nm)
        elif cands:
            nm, later = rng.choice(cands)
            oldn = rng.choice(later)
            stmts = rename_net(stmts, oldn, nm)
            wires = rename_net(wires, oldn, nm)
            driven = rename_net(driven, oldn, nm)
            avail = rename_net(avail, oldn, nm)
    # sometimes an undriven net (placeholder buffer)
    # outputs
    cand = wires + inputs
    outs = rng.sample(cand, rng.randint(1, min(3, len(cand))))
    # merge statements: several assigns in one list, several instances of one primitive in one statement
    merged = []
    for s in stmts:
        same = [t for t in merged if t[0] == "inst" and s[0] == "inst" and t[1] == s[1]]
        if same and rng.random() < 0.6:
            rng.choice(same)[2].extend(s[2])
            continue
        if merged and rng.random() < 0.3:
            t = rng.choice(merged)
            if t[0] == "assign" and s[0] == "assign":
                t[1].extend(s[1])
                continue
            if t[0] == "inst" and s[0] == "inst" and t[1] == s[1]:
                t[2].extend(s[2])
                continue
        merged.append(s)

    def split(kind, ns):
        ns = ns[:]
        out = []
        while ns:
            k = rng.randint(1, len(ns))
            out.append([kind, ns[:k]])
            ns = ns[k:]
        return out
    decl = split("input", inputs) + split("output", outs)
    wdecl = [w for w in wires if rng.random() < 0.6]
    if wdecl:
        decl += split("wire", wdecl)
    mode = rng.random()
    if mode < 0.4:
        items = decl + merged                      # conventional order
    elif mode < 0.7:
        rng.shuffle(merged)
        items = decl + merged                      # use before definition among statements
    else:
        items = decl + merged
        rng.shuffle(items)                         # declarations anywhere
    ports = list(dict.fromkeys(inputs + outs))
    rng.shuffle(ports)
    return {"name": rng.choice(["top", "top", "m_1", "c17"]), "ports": ports, "items": items}, bbs_used or ([BBS[0]] if rng.random() < 0.3 else [])


MALFORMED = ["port_wire", "port_wire", "port_extra", "port_missing_in", "port_missing_out", "bb_positional", "prim_named", "unknown_module", "output_absent",
             "output_absent", "output_cancelled", "output_cancelled", "double_driver", "driven_input", "not_two_inputs", "bad_pin"]


def _xor_self(s):
    """the expression `s ^ s`"""
    u = ["AUn", ["UPrim", ["PId", s]]]
    return ["COr", ["OXor", ["XXor", ["XAnd", u], u]]]


def corrupt(rng, m, bbs):
    kind = rng.choice(MALFORMED)
    m = copy.deepcopy(m)
    bbs = copy.deepcopy(bbs)
    items = m["items"]
    ins = [n for it in items if it[0] == "input" for n in it[1]]
    outs = [n for it in items if it[0] == "output" for n in it[1]]
    if kind == "port_wire":
        # a port that is neither input nor output but is declared as a wire (on a later line): must be rejected
        p = rng.choice(["zz", "extra", "w_only"])
        m["ports"].insert(rng.randint(0, len(m["ports"])), p)
        pos = rng.choice([len(items), rng.randint(0, len(items))])
        items.insert(pos, ["wire", [p] + ([rng.choice(ins)] if rng.random() < 0.2 else [])])
        if rng.random() < 0.5:
            items.append(["assign", [[p, vu.gen_cond(rng, rng.randint(0, 1), ins, None)]]])
    elif kind == "port_extra":
        m["ports"].insert(rng.randint(0, len(m["ports"])), rng.choice(["zz", "extra", "tie_0"]))
    elif kind == "port_missing_in":
        only = [n for n in ins if n not in outs]
        if not only:
            return None
        m["ports"].remove(rng.choice(only))
        if not m["ports"]:
            return None
    elif kind == "port_missing_out":
        only = [n for n in outs if n not in ins]
        if not only:
            return None
        m["ports"].remove(rng.choice(only))
        if not m["ports"]:
            return None
    elif kind == "bb_positional":
        if not bbs:
            bbs.append(BBS[0])
        items.append(["inst", bbs[0][0], [["uu", ["pos", [vu.cid(rng.choice(ins)) for _ in range(3)]]]]])
    elif kind == "prim_named":
        items.insert(rng.randint(0, len(items)), ["inst", "and", [["gg", ["named", [["o", vu.cid("qq")], ["a", vu.cid(rng.choice(ins))]]]]]])
    elif kind == "unknown_module":
        items.insert(rng.randint(0, len(items)), ["inst", rng.choice(["dff", "mux2", "AND"]), [["gg", ["named", [["d", vu.cid(rng.choice(ins))]]]]]])
    elif kind == "output_absent":
        items.insert(rng.randint(0, len(items)), ["output", ["nowhere"]])
        m["ports"].append("nowhere")
    elif kind == "output_cancelled":
        # an output that occurs only as operands of a parity gate that cancel never becomes a node: rejected (KeyError)
        fo, tgt = rng.choice([("fl_o", "fl_t"), ("dead", "dead_t"), ("oc", "not_oc")])
        items.insert(rng.randint(0, len(items)), ["output", [fo]])
        m["ports"].append(fo)
        if rng.random() < 0.5:
            items.append(["inst", rng.choice(["xor", "xnor"]), [["gfl", ["pos", [vu.cid(tgt), vu.cid(fo), vu.cid(fo)]]]]])
        else:
            items.append(["assign", [[tgt, _xor_self(fo)]]])
    elif kind == "double_driver":
        drv = [it for it in items if it[0] == "assign"]
        if not drv:
            return None
        lv = rng.choice(drv)[1][0][0]
        e = vu.gen_cond(rng, rng.randint(0, 2), ins, None)
        items.insert(rng.randint(0, len(items)), ["assign", [[lv, e]]])
    elif kind == "driven_input":
        items.insert(rng.randint(0, len(items)), ["assign", [[rng.choice(ins), vu.gen_cond(rng, rng.randint(0, 2), ins, None)]]])
    elif kind == "not_two_inputs":
        items.append(["inst", rng.choice(["not", "buf"]), [["gn", ["pos", [vu.cid("qn"), vu.cid(ins[0]), vu.cid(rng.choice(ins))]]]]])
    elif kind == "bad_pin":
        if not bbs:
            bbs.append(BBS[0])
        items.append(["inst", bbs[0][0], [["uu", ["named", [["nopin", vu.cid(rng.choice(ins))]]]]]])
    return m, bbs, kind


def gen_parse(rng):
    """token string of an expression, a third of them corrupted"""
    e = vu.gen_cond(rng, rng.randint(0, 5), ["a", "b", "c", "not_a", "\\e[1]"], [], p_tern=0.2, p_const=0.15, pparen=rng.choice([0, 0.1, 0.3]))
    toks = vu.toks_expr(e)
    kind = "valid"
    if rng.random() < 0.35:
        kind = "corrupt"
        r = rng.random()
        i = rng.randrange(len(toks))
        if r < 0.3:
            del toks[i]
        elif r < 0.6:
            toks.insert(i, rng.choice(["&", "|", "^", "~^", "~", "(", ")", "?", ":", "a", "1'b1", "!"]))
        elif r < 0.8:
            toks[i] = rng.choice(["&", "|", "^", "^~", "~", "(", ")", "?", ":", "b"])
        else:
            j = rng.randrange(len(toks))
            toks[i], toks[j] = toks[j], toks[i]
        if not toks:
            toks = ["&"]
    return {"fn": "parse", "toks": toks, "kind": kind, "text": vu.render(rng, toks, stress=rng.choice([0, 0.3]))}


def decoy_module(rng, name):
    """text of a different, well-formed module of the same name (several lines)"""
    g = rng.choice(["~a", "a", "a & a", "1'b0"])
    return rng.choice([f"module {name}(a, zz);\n  input a;\n  output zz;\n  assign zz = {g};\nendmodule",
                       f"module {name} (zz);\n output zz;\n assign zz = 1'b1;\n endmodule"])


def gen_read(rng, tier, malformed=False):
    for _ in range(50):
        m, bbs = gen_module(rng, tier)
        kind = "valid"
        if malformed:
            r = corrupt(rng, m, bbs)
            if r is None:
                continue
            m, bbs, kind = r
        stress = rng.choice([0.0, 0.15, 0.4])
        # an earlier revision of the same module, kept in a block comment over several lines (seeded C02-s5)
        decoy = decoy_module(rng, m["name"])
        text = vu.render(rng, vu.toks_module(m), stress, extra=[decoy])
        if rng.random() < 0.15:
            text = "// header\n" + text + "\nmodule other(a); input a; endmodule\n" if rng.random() < 0.5 else "\n\n" + text
        r = rng.random()
        if r < 0.2:
            text = "/* previous revision\n" + decoy + "\n*/\n" + text
        elif r < 0.3:
            text = text + "\n/*\n" + decoy + "\n*/\n"
        elif r < 0.35:
            text = "/*\n" + decoy + "\n*/\n" + text + "/* " + decoy + " */"
        return {"fn": "read", "module": m, "bbs": bbs, "text": text, "kind": kind}
    raise RuntimeError("generator stuck")


def gen_select(rng):
    """text with one to three modules (distinct names, one a prefix of another), a name that exists or not, inference on/off"""
    k = rng.choice([1, 2, 2, 3])
    names = rng.sample(["top", "top2", "m_1", "c17", "top_b", "a"], k)
    mods, bbs, parts = [], [], []
    for nm in names:
        m, b = gen_module(rng)
        m["name"] = nm
        mods.append(m)
        for x in b:
            if x not in bbs:
                bbs.append(x)
        parts.append(vu.render(rng, vu.toks_module(m), rng.choice([0.0, 0.15]), extra=[decoy_module(rng, nm)]))
        if rng.random() < 0.25:
            parts[-1] = "/*\n" + decoy_module(rng, nm) + "\n*/\n" + parts[-1]
    r = rng.random()
    name = rng.choice(names) if r < 0.6 else rng.choice(["nosuch", "to", "top3", "module"])
    sep = rng.choice(["\n", "\n\n// next\n", "\n/* between */\n", "  "])
    text = rng.choice(["", "// file\n", "\n\n"]) + sep.join(parts) + "\n"
    return {"fn": "select", "modules": mods, "bbs": bbs, "text": text, "name": name, "infer": rng.random() < 0.5,
            "kind": "select:" + ("named" if name in names else "absent")}


def generate(rng, tier):
    n = 130 if tier == "quick" else 600
    out = [gen_read(rng, tier) for _ in range(n)]
    out += [gen_read(rng, tier, malformed=True) for _ in range(n // 3)]
    out += [gen_parse(rng) for _ in range(n // 2)]
    out += [gen_select(rng) for _ in range(n // 4)]
    return out


_LARK = {}


def lark_expr_tree(text):
    """raw Lark tree (no transformer) of an expression string -> generic tree as a Coq term, or None when rejected"""
    import os
    from lark import Lark, Token, Tree
    from lark.exceptions import LarkError
    import circuitgraph
    path = os.path.join(os.path.dirname(circuitgraph.__file__), "parsing", "verilog.lark")
    if path not in _LARK:
        with open(path) as f:
            _LARK[path] = Lark(f.read(), parser="lalr", start="expression")
    try:
        t = _LARK[path].parse(text)
    except LarkError:
        return None

    def conv(x):
        if isinstance(x, Token):
            return ["GId", str(x)]
        d = x.data
        ch = [conv(c) for c in x.children]
        if d == "expression":
            return ch[0]
        if d in ("constant_zero", "constant_one", "constant_x"):
            return ["GK", {"constant_zero": "K0", "constant_one": "K1", "constant_x": "KX"}[d]]
        tag = {"not_gate": "GNot", "and_gate": "GAnd", "xor_gate": "GXor", "xnor_gate": "GXnor", "or_gate": "GOr", "ternary": "GTern"}.get(str(d))
        if tag is None:
            return ["?", str(d)]
        return [tag] + ch
    return conv(t)


def impl(case):
    import circuitgraph as cg
    if case["fn"] == "parse":
        return {"tree": lark_expr_tree(case["text"])}
    from circuitgraph.parsing import verilog as V
    if case["fn"] == "select":
        mname, infer = case["name"], case["infer"]
    else:
        mname, infer = case["module"]["name"], False
    seen = {}
    orig = V._VerilogCircuitGraphTransformer.__init__

    def spy(self, *a, **k):
        orig(self, *a, **k)
        seen["reserved"] = sorted(getattr(self, "reserved", []))
    V._VerilogCircuitGraphTransformer.__init__ = spy
    try:
        bbs = [cg.BlackBox(n, i, o) for n, i, o in case["bbs"]]
        try:
            c = cg.io.verilog_to_circuit(case["text"], mname, infer_module_name=infer, blackboxes=bbs)
            obs = {"ok": lib.dump_circuit(c)}
        except Exception as e:    # noqa: BLE001
            obs = {"exc": type(e).__name__}
    finally:
        V._VerilogCircuitGraphTransformer.__init__ = orig
    obs["reserved"] = seen.get("reserved", [])
    return obs


def cgx(t):
    if t[0] == "GId":
        return f"(GId {cs(t[1])})"
    if t[0] == "GK":
        return f"(GK {t[1]})"
    return "(" + t[0] + " " + " ".join(cgx(x) for x in t[1:]) + ")"


def to_coq(case, obs):
    if case["fn"] == "parse":
        t = obs["tree"]
        if t is not None and "?" in json.dumps(t):
            return None
        return f"CParse {cl(vu.ctok(x) for x in case['toks'])} " + ("None" if t is None else f"(Some {cgx(t)})")
    if case["fn"] == "select":
        return (f"CSelect {cs(case['name'])} {'T' if case['infer'] else 'F'} {csl(obs['reserved'])} {vu.cbbdefs(case['bbs'])} "
                f"{cl(vu.cmodule(m) for m in case['modules'])} {vu.cres_circ(obs)}")
    return f"CRead {csl(obs['reserved'])} {vu.cbbdefs(case['bbs'])} {vu.cmodule(case['module'])} {vu.cres_circ(obs)}"


def nontrivial(case, obs):
    if case["fn"] == "parse":
        return len(case["toks"]) >= 3
    if case["fn"] == "select":
        return len(case["modules"]) >= 2
    m = case["module"]
    ops = sum(vu.count_ops(it) for it in m["items"])
    insts = sum(len(it[2]) for it in m["items"] if it[0] == "inst")
    return ops + insts >= 2


def classify(case, obs):
    if case["fn"] == "parse":
        return ["parse:" + case["kind"] + (":accepted" if obs["tree"] is not None else ":rejected")]
    if case["fn"] == "select":
        return [case["kind"] + (":infer" if case["infer"] else ":exact") + (":ok" if "ok" in obs else ":" + obs["exc"]),
                f"select:{len(case['modules'])}-modules"]
    m = case["module"]
    tags = ["read:" + case["kind"] + (":ok" if "ok" in obs else ":" + obs["exc"])]
    ids = set(vu.tree_ids(m["items"])) | set(m["ports"])
    if ids & set(TRICKY):
        tags.append("synthetic-like-names")
    if any(n in ids for it in m["items"] for n in surviving_names(it)):
        tags.append("net-named-like-surviving-inner-node")
    if any(n.startswith("\\") for n in ids):
        tags.append("escaped")
    if any(it[0] == "inst" and it[1] not in vu.PRIMS for it in m["items"]):
        tags.append("blackbox")
        if any(e is None for it in m["items"] if it[0] == "inst" and it[1] not in vu.PRIMS for _, (k, ps) in it[2] if k == "named" for _, e in ps):
            tags.append("unconnected-pin")
    if any(it[0] == "inst" and len(it[2]) > 1 for it in m["items"]):
        tags.append("multi-instance-statement")
    if "CTern" in json.dumps(m["items"]):
        tags.append("ternary")
    if "/*" in case["text"] or "//" in case["text"]:
        tags.append("comments")
    import re as _re
    if _re.search(r"/\*[^*]*\n[^*]*module\s+" + _re.escape(m["name"]) + r"\s*\(", case["text"]):
        tags.append("commented-out-module-of-same-name")
    for it in m["items"]:
        if it[0] == "inst" and it[1] in vu.PRIMS:
            for _, (k, ps) in it[2]:
                tags.append(f"prim:{it[1]}/{len(ps) - 1}")
    return tags


def finding_signature(case, obs):
    return None


def mutate_case(rng, case):
    if case["fn"] == "parse":
        return gen_parse(rng)
    if case["fn"] == "select":
        return gen_select(rng)
    return gen_read(rng, "quick", malformed=(case.get("kind") != "valid"))


CLAIMED = True
LEVEL_TEXT = ("Theorems: for every module of the structural subset (guard in_subset; assigns, primitive instances with expression and repeated "
              "operands, blackbox instances) and every reserved set containing the identifiers of the text, whenever the reader model succeeds: "
              "name, inputs and outputs are the declared ones; every consistent valuation of the returned circuit satisfies every assignment "
              "and primitive instance of the module (C02_read_denotes_sound) and, conversely, every model of the module is the restriction of a "
              "consistent valuation of the circuit (C02_read_denotes_conv; together C02_read_denotes); the registry is the list of instances "
              "of the text and every pin of every instance is attached to the net (or expression node) named in the instantiation, open pins "
              "unattached (C02_read_bb_pins). Under identifier guards (net identifiers non-empty, without leading digit and without dot; "
              "outputs are inputs, driven nets or nets on blackbox output pins; instance names without leading digit; input and output pins "
              "of a definition disjoint; pins of different instances are different strings) the reader model succeeds, blackbox instances "
              "included, and the returned circuit has the name, registry, pins and denotation of the module (C02_read_succeeds, "
              "C02_read_denotes_full_guarded; blackbox-free: C02_read_denotes_full_bbfree). For all expression trees "
              "the created gates carry the Verilog value (ternary as mux, parity cancellation); the grammar's rule table is regenerated from "
              "verilog.lark on every run and proved equal to the table of the stratified tree type, for which print/parse is proved for all "
              "trees; a port list that disagrees with the declarations gives an error. The statement without the identifier guards is "
              "decided per generated module by the Coq specification (direct evaluation of the AST against evalc of the returned circuit, "
              "all valuations).")
LEVEL_NOTE = ("Trusted: Coq kernel + vm_compute, std++, Lark's LALR engine and lexer (white space, comments, escaped identifiers, keyword vs "
              "identifier are validated by rendering ASTs to text, not modelled), the module-extraction regex of io.verilog_to_circuit, "
              "translator shape for verilog.lark, harness renderer. C02_read_denotes_full without the identifier guards is no theorem "
              "(counter-examples in Properties/C02.v); it is the statement validated per case.")
TECHNIQUE = "Coq proof (transformer invariant, print/parse) + regenerated grammar table + vm_compute correspondence and oracle"
