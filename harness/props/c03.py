"""C03: Verilog write -> read round trip preserves the circuit."""
import json
import os
import shutil
import tempfile

import lib
from lib import cs, csl, cl, cb, ccirc
from props import verilog_util as vu

ID = "C03"
RUN_MODULE = "Run.Run_C03"
GEN_FILES = []
RULE = ("random lint-clean acyclic circuits <= 16 nodes: every gate type x arity 1..4, constants 0/1/x, outputs that are inputs or "
        "constants, up to two blackbox instances with connected / unconnected input and output pins, plain and escaped names, names "
        "resembling the writer's instance names (g_0 ..) and the reader's synthetic names (not_a, and_a_b, tie_0); both styles; "
        "non-trivial = at least two gates or one blackbox; distinct = canonical circuit + style")
EXPLANATION = ("writer model at AST level (orders read off the emitted text and validated as permutations) composed with the reader "
               "model of C02; the round-trip property is decided by the Coq specification on the recorded read-back circuits")
SHARD = 40
HASHSEEDS = {"quick": [0, 1], "thorough": [0, 1, 2, 3]}

PLAIN = ["a", "b", "c", "d", "e", "f", "h", "i0", "i1", "n_1", "w2", "q", "r", "s", "t", "u", "v", "y", "z", "k1", "k2", "m"]
TRICKY = ["g_0", "g_1", "g_2", "g_3", "g_4", "g_2_0", "not_a", "and_a_b", "or_a_b", "xor_a_b", "not_b", "and_b_a", "tie_0", "tie_1", "tie_x",
          "\\a[0]", "\\a[1]", "\\b.c", "\\g_1", "\\x y".replace(" ", "_"), "\\1w", "wire1", "assign_", "top"]
BBDEFS = [["ff", ["clk", "d"], ["q"]], ["cell", ["a", "b"], ["y", "z"]]]


def names_for(rng, n):
    pool = PLAIN[:]
    rng.shuffle(pool)
    tricky = [t for t in TRICKY if "." not in t]       # a dotted net without an instance is not lint-clean
    rng.shuffle(tricky)
    p = rng.choice([0.0, 0.15, 0.4, 0.7])
    out = []
    while len(out) < n:
        if tricky and rng.random() < p:
            out.append(tricky.pop())
        elif pool:
            out.append(pool.pop())
        else:
            out.append(f"x{len(out)}")
    return out


def gen_circuit(rng, exhaustive=None):
    n_in = rng.randint(1, 4)
    n_gate = rng.randint(1, 8)
    n_bb = rng.choice([0, 0, 0, 1, 1, 2])
    n_const = rng.choice([0, 0, 0, 1, 1, 2])
    names = names_for(rng, n_in + n_gate + n_const + 4 * n_bb + 2)
    nodes = []
    for _ in range(n_in):
        nodes.append([names.pop(), "input", False, []])
    for _ in range(n_const):
        nodes.append([names.pop(), rng.choice(["0", "1", "x"]), False, []])
    bbs = []
    free = n_in + (1 if any(n[1] == "x" for n in nodes) else 0)
    pend_bb = []
    for b in range(n_bb):
        bn, ins, outs = rng.choice(BBDEFS)
        inst = rng.choice([f"u{b}", f"ff{b}", f"g_{b}", f"i_{b}", f"\\u[{b}]", f"\\i-{b}"])      # escaped instance names: finding C03-F2
        bbs.append([inst, bn, ins, outs])
        for p in outs:
            nodes.append([f"{inst}.{p}", "bb_output", False, []])
            free += 1
            if rng.random() < 0.75:
                nodes.append([names.pop(), "buf", False, [f"{inst}.{p}"]])
        pend_bb.append((inst, ins))
    types = lib.GATES
    for k in range(n_gate):
        if exhaustive and k == 0:
            t, ar = exhaustive
        else:
            t = rng.choice(types)
            ar = 1 if t in lib.SINGLE else rng.choice([1, 2, 2, 2, 3, 3, 4])
        avail = [n[0] for n in nodes if n[1] != "bb_output"]
        ar = min(ar, len(avail))
        fi = set()
        while len(fi) < ar:
            fi.add(avail[-1 - min(len(avail) - 1, int(rng.expovariate(0.6)))] if rng.random() < 0.5 else rng.choice(avail))
        nodes.append([names.pop(), t, False, sorted(fi)])
    for inst, ins in pend_bb:
        avail = [n[0] for n in nodes if n[1] not in ("bb_output", "bb_input")]
        for p in ins:
            nodes.append([f"{inst}.{p}", "bb_input", False, [rng.choice(avail)] if rng.random() < 0.8 else []])
    # a gate legally named like the name the reader invents for the first two operands of a wider gate (assign style)
    if rng.random() < 0.35:
        wide = [n for n in nodes if n[1] in lib.MULTI and len(n[3]) >= 3 and all(not f.startswith("\\") and "." not in f for f in n[3])]
        cand = [n for n in nodes if n[1] in lib.GATES and not n[0].startswith("\\")]
        if wide and cand:
            w = rng.choice(wide)
            x, y = rng.sample(w[3], 2)
            op = {"and": "and", "nand": "and", "or": "or", "nor": "or", "xor": "xor", "xnor": "xor"}[w[1]]
            new = f"{op}_{x}_{y}"
            t = rng.choice([c for c in cand if c is not w] or cand)
            if new not in [n[0] for n in nodes] and t[0] not in (x, y):
                old_name = t[0]
                t[0] = new
                for n in nodes:
                    n[3] = sorted(new if f == old_name else f for f in n[3])
    used = {f for n in nodes for f in n[3]}
    dead = rng.random() < 0.4          # dead logic: gates and blackbox output nets that nothing reads (lint-clean: `unloaded` is off)
    for n in nodes:
        if n[1] in ("bb_input", "bb_output"):
            continue
        if n[1] == "input":
            n[2] = rng.random() < 0.15
        elif n[1] in ("0", "1", "x"):
            n[2] = rng.random() < 0.3
        else:
            n[2] = (n[0] not in used and not (dead and rng.random() < 0.5)) or rng.random() < 0.25
    if not any(n[2] for n in nodes):
        cand = [n for n in nodes if n[1] not in ("bb_input", "bb_output")]
        cand[-1][2] = True
    rng.shuffle(nodes)
    return {"name": rng.choice(["top", "top", "c17", "m_2", "adder"]), "nodes": nodes, "bbs": bbs}


def gen_invented(rng, op):
    """a 3/4-operand gate together with gates legally named like every name the reader can invent for its first two operands
    (and_a_b, and_b_a, ...): whatever operand order and statement order the writer chooses, one of them collides unless the
    reader keeps its invented names away from identifiers that occur later in the text"""
    ins = rng.sample(["a", "b", "c", "d", "e1"], rng.choice([3, 3, 4]))
    t = rng.choice({"and": ["and", "nand"], "or": ["or", "nor"], "xor": ["xor", "xnor"]}[op])
    nodes = [[i, "input", False, []] for i in ins]
    nodes.append(["w", t, True, sorted(ins)])
    for x in ins:
        for y in ins:
            if x != y:
                g = rng.choice(["buf", "not", "and", "or", "xor", "nor"])
                fi = [rng.choice(ins)] if g in ("buf", "not") else sorted(rng.sample(ins, 2))
                nodes.append([f"{op}_{x}_{y}", g, rng.random() < 0.7, fi])
    used = {f for n in nodes for f in n[3]}
    for n in nodes:
        if n[1] != "input" and n[0] not in used:
            n[2] = True
    rng.shuffle(nodes)
    return {"name": "top", "nodes": nodes, "bbs": []}


def generate(rng, tier):
    n = 110 if tier == "quick" else 500
    out = []
    # every gate type x arity 1..4, both styles
    for t in lib.MULTI:
        for ar in (1, 2, 3, 4):
            for beh in (False, True):
                # one-operand inverting gates in assign style are always present (the inversion must survive without an operator)
                if tier == "thorough" or rng.random() < 0.35 or (ar == 1 and beh and t in ("nand", "nor", "xnor")):
                    out.append({"circuit": gen_circuit(rng, (t, ar)), "behavioral": beh, "via": "grid"})
    for op in ("and", "or", "xor"):
        for _ in range(3 if tier == "quick" else 8):
            out.append({"circuit": gen_invented(rng, op), "behavioral": True, "via": "invented-names"})
    for _ in range(n):
        out.append({"circuit": gen_circuit(rng), "behavioral": rng.random() < 0.5, "via": "random"})
    return out


def _order_of(ast, bbdefs):
    """the writer's order choices, read off the tokenised text"""
    ins = [n for it in ast["items"] if it[0] == "input" for n in it[1]]
    outs = [n for it in ast["items"] if it[0] == "output" for n in it[1]]
    wires = [n for it in ast["items"] if it[0] == "wire" for n in it[1]]
    defs = {b[0]: b for b in bbdefs}
    bbs, fi = [], {}
    for it in ast["items"]:
        if it[0] == "inst" and it[1] in vu.PRIMS:
            for _, (kind, ps) in it[2]:
                if kind == "pos" and ps and vu.as_id(ps[0]) is not None:
                    fi[vu.as_id(ps[0])] = [x for p in ps[1:] for x in vu.tree_ids(p)]
        elif it[0] == "inst":
            d = defs.get(it[1])
            for iname, (kind, ps) in it[2]:
                pins = [p for p, _ in ps] if kind == "named" else []
                bbs.append([iname, [p for p in pins if d and p in d[1]], [p for p in pins if d and p in d[2]]])
        elif it[0] == "assign":
            for lv, e in it[1]:
                fi[lv] = vu.tree_ids(e)
    return {"ins": ins, "outs": outs, "bbs": bbs, "fi": [[w, fi.get(w, [])] for w in wires]}


def impl(case):
    import circuitgraph as cg
    from circuitgraph.parsing import verilog as V
    d = case["circuit"]
    beh = case["behavioral"]
    c = lib.build_circuit(d)
    bbdefs = []
    for _, bn, ins, outs in d["bbs"]:
        if bn not in [b[0] for b in bbdefs]:
            bbdefs.append([bn, ins, outs])
    obs = {"bbdefs": bbdefs}
    try:
        text = cg.io.circuit_to_verilog(c, behavioral=beh)
    except Exception as e:       # noqa: BLE001
        return {"write_exc": type(e).__name__}
    obs["text"] = text
    if lib.dump_circuit(c) != lib.dump_circuit(lib.build_circuit(d)):
        obs["mutated_argument"] = True
    try:
        ast = vu.parse_module_text(text)
        obs["ast"] = ast
        obs["order"] = _order_of(ast, bbdefs)
    except ValueError as e:
        obs["tokenize_error"] = str(e)
    seen = {}
    orig = V._VerilogCircuitGraphTransformer.__init__

    def spy(self, *a, **k):
        orig(self, *a, **k)
        seen["reserved"] = sorted(getattr(self, "reserved", []))
    V._VerilogCircuitGraphTransformer.__init__ = spy
    try:
        bbs = [cg.BlackBox(n, i, o) for n, i, o in bbdefs]
        try:
            back = cg.io.verilog_to_circuit(text, c.name, blackboxes=bbs)
            obs["back"] = {"ok": lib.dump_circuit(back)}
        except Exception as e:   # noqa: BLE001
            obs["back"] = {"exc": type(e).__name__}
        obs["reserved"] = seen.get("reserved", [])
    finally:
        V._VerilogCircuitGraphTransformer.__init__ = orig
    # the same through to_file / from_file, on a temporary file below /verif/build
    root = lib.ROOT / "build"
    root.mkdir(exist_ok=True)
    tmp = tempfile.mkdtemp(prefix="c03-", dir=str(root))
    try:
        path = os.path.join(tmp, c.name + ".v")
        try:
            cg.to_file(c, path, behavioral=beh)
            infer = len(d["nodes"]) % 2 == 0
            back = cg.from_file(path, blackboxes=[cg.BlackBox(n, i, o) for n, i, o in bbdefs]) if infer else \
                cg.from_file(path, name=c.name, blackboxes=[cg.BlackBox(n, i, o) for n, i, o in bbdefs])
            obs["file"] = {"ok": lib.dump_circuit(back)}
        except Exception as e:   # noqa: BLE001
            obs["file"] = {"exc": type(e).__name__}
    finally:
        shutil.rmtree(tmp, ignore_errors=True)
    return obs


def corder(o):
    bbs = cl(f"({cs(i)},{csl(a)},{csl(b)})" for i, a, b in o["bbs"])
    fi = cl(f"({cs(n)},{csl(f)})" for n, f in o["fi"])
    return f"(Wo {csl(o['ins'])} {csl(o['outs'])} {bbs} {fi})"


def to_coq(case, obs):
    if "write_exc" in obs:
        # the writer raised on a well-formed circuit: there is no text to read back, which is a failure of the property
        exc = {"exc": obs["write_exc"]}
        return (f"CRt {ccirc(case['circuit'])} {cb(case['behavioral'])} (Wo [] [] [] []) (Md \"\" [] []) [] [] "
                f"{vu.cres_circ(exc)} {vu.cres_circ(exc)}")
    if "ast" not in obs:
        # the writer's text is not even a token stream of the grammar: print an empty module so that agree fails
        ast, order = {"name": "", "ports": [], "items": []}, {"ins": [], "outs": [], "bbs": [], "fi": []}
    else:
        ast, order = obs["ast"], obs["order"]
    return (f"CRt {ccirc(case['circuit'])} {cb(case['behavioral'])} {corder(order)} {vu.cmodule(ast)} {csl(obs['reserved'])} "
            f"{vu.cbbdefs(obs['bbdefs'])} {vu.cres_circ(obs['back'])} {vu.cres_circ(obs['file'])}")


def nontrivial(case, obs):
    d = case["circuit"]
    return sum(1 for n in d["nodes"] if n[1] in lib.GATES) >= 2 or bool(d["bbs"])


def classify(case, obs):
    d = case["circuit"]
    tags = ["via:" + case.get("via", "?"), "style:" + ("assign" if case["behavioral"] else "primitive"),
            "write:" + obs["write_exc"] if "write_exc" in obs else "back:" + ("ok" if "ok" in obs.get("back", {}) else "exc")]
    for n in d["nodes"]:
        if n[1] in lib.GATES:
            tags.append(f"{n[1]}/{len(n[3])}")
        if n[1] in ("0", "1", "x"):
            tags.append("const:" + n[1] + (":output" if n[2] else ""))
        if n[1] == "input" and n[2]:
            tags.append("input-is-output")
        if n[1] == "bb_input" and not n[3]:
            tags.append("bb-input-unconnected")
        if n[0].startswith("\\"):
            tags.append("escaped")
    for n in d["nodes"]:
        if n[1] == "bb_output" and not any(n[0] in m[3] for m in d["nodes"]):
            tags.append("bb-output-unconnected")
    if d["bbs"]:
        tags.append("blackbox")
    if any(b[0].startswith("\\") for b in d["bbs"]):
        tags.append("escaped-instance")
    used = {f for n in d["nodes"] for f in n[3]}
    if any(n[1] in lib.GATES and not n[2] and n[0] not in used for n in d["nodes"]):
        tags.append("dead-logic")
    if any(n[0].startswith(("and_", "or_", "xor_")) and n[0].count("_") == 2 and n[1] in lib.GATES for n in d["nodes"]):
        tags.append("gate-named-like-invented")
    return sorted(set(tags))


def finding_signature(case, obs):
    return None


def mutate_case(rng, case):
    return {"circuit": gen_circuit(rng), "behavioral": case["behavioral"], "via": "mutated"}


CLAIMED = True
LEVEL_TEXT = ("Theorems for every lint-clean closed circuit, every order choice of the writer (ports, registry and pin order, nodes, operands) and "
              "every reserved set containing the identifiers of the text. Without blackboxes: (C03_roundtrip_identical_bbfree) without constants "
              "the primitive-style text reads back to the identical circuit; (C03_roundtrip_equiv_bbfree, _nodes, _x) in both styles with any "
              "constants the read succeeds, gives the same name, inputs, outputs and registry and an equivalent circuit at every node of the "
              "original (several x constants: under the valuations that give them one value - the reader shares one unknown). With blackbox "
              "instances (connected and unconnected pins, several instances per type, escaped instance names; extra hypothesis wf_bb: pin-typed "
              "nodes are registered pins, other names dot-free, nothing reads a bb_input, pins of different instances differ, instance / type "
              "names no digit-led / primitive names, no pin node marked as output): (C03_roundtrip_identical_bb) without constants the primitive-style text reads back to the "
              "identical circuit and registry; (C03_roundtrip_equiv_bb = roundtrip_equiv_bb_full) in both styles with any constants the read "
              "succeeds, gives the same name, inputs, outputs and registry, every input pin on the same net (or none), every output pin driving "
              "the same net, and an equivalent circuit at every output and every blackbox input pin (C03_roundtrip_equiv_bb_nodes: at every node). roundtrip_identical_full / "
              "roundtrip_equiv_full (wf_rt alone) are kept as statements and refuted as stated (C03_full_statements_need_wf_bb: a blackbox "
              "type called and satisfies wf_rt). Every generated circuit is additionally decided by the Coq specification on the recorded read-back circuits "
              "(identity of the graph where claimed; interface, registry, pin nets and exhaustive function comparison otherwise), directly and "
              "through to_file/from_file.")
LEVEL_NOTE = ("Trusted: Coq kernel + vm_compute, std++, Lark, the harness tokenizer of the writer's text (the text layer - blanks after "
              "escaped names, line layout - is validated by it, not modelled). All 1'bx constants denote one shared unknown. "
              "A pin node marked as output (excluded by wf_bb) makes the real writer emit text the real reader cannot lex: reported, "
              "fixes/proposed/c03-pin-output.*; the generator produces none.")
TECHNIQUE = "Coq models of writer and reader + proved expression lemmas + vm_compute correspondence and round-trip oracle"
